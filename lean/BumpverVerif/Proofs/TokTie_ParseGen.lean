/-
  Proofs/TokTie_ParseGen.lean — general lemmas about the regex-syntax parser (Model/Regex.lean):

  * fuel monotonicity of `parseAlt` / `parseSeq` / `parseAtom` (`parseAlt_mono`, …),
  * tail extension: a successful parse of `s` is unchanged (the unread rest grows by `t`) when a tail
    `t` that is empty or starts with `)` is appended (`parse_ext`, with the sub-lemmas for
    `takeDigits`, `parseBraces`, `parseQuant`, `takeName`, `parseClsItems`),
  * closedness: `parseRe rx = some a` → `parseAlt f (rx ++ ')' :: tail) = some (a, ')' :: tail)` for
    every fuel `f ≥ 3 * rx.length + 3` (`parseRe_closed`).

  No Mathlib.
-/
import BumpverVerif.Proofs.PatternLemmas
namespace BV

/-! ### admissible tails -/

/-- admissible tails: empty, or starting with a closing parenthesis -/
def okTail (t : Str) : Prop := t = [] ∨ ∃ t', t = ')' :: t'

theorem okTail_nil : okTail [] := Or.inl rfl
theorem okTail_close (t : Str) : okTail (')' :: t) := Or.inr ⟨t, rfl⟩

/-! ### `takeDigits`, `parseBraces` -/

theorem takeDigits_ext (s t : Str) (ht : okTail t) :
    takeDigits (s ++ t) = ((takeDigits s).1, (takeDigits s).2 ++ t) := by
  induction s with
  | nil =>
    rcases ht with rfl | ⟨t', rfl⟩
    · rfl
    · simp [takeDigits]; decide
  | cons c r ih =>
    simp only [List.cons_append, takeDigits]
    by_cases hc : isDigit c = true
    · simp [hc, ih]
    · simp [hc]

/-- `parseBraces` on the second component of `takeDigits` -/
def bracesTail (lo r1 : Str) : Option (Nat × Option Nat × Str) :=
  match r1 with
  | '}' :: r2 => if lo.isEmpty then none else some (strToNat lo, some (strToNat lo), r2)
  | ',' :: r2 =>
    match (takeDigits r2).2 with
    | '}' :: r4 =>
      if lo.isEmpty && (takeDigits r2).1.isEmpty then none
      else some (strToNat lo, if (takeDigits r2).1.isEmpty then none else some (strToNat (takeDigits r2).1), r4)
    | _ => none
  | _ => none

theorem parseBraces_eq (s : Str) : parseBraces s = bracesTail (takeDigits s).1 (takeDigits s).2 := by
  unfold parseBraces bracesTail
  rfl

def extB (t : Str) (x : Nat × Option Nat × Str) : Nat × Option Nat × Str := (x.1, x.2.1, x.2.2 ++ t)

theorem bracesTail_ext (lo r1 t : Str) (ht : okTail t) :
    bracesTail lo (r1 ++ t) = (bracesTail lo r1).map (extB t) := by
  cases r1 with
  | nil =>
    rcases ht with rfl | ⟨t', rfl⟩
    · simp [bracesTail]
    · simp [bracesTail]
  | cons c r2 =>
    simp only [List.cons_append]
    by_cases h1 : c = '}'
    · subst h1
      simp only [bracesTail]
      split <;> simp [extB]
    · by_cases h2 : c = ','
      · subst h2
        simp only [bracesTail, takeDigits_ext r2 t ht]
        cases h3 : (takeDigits r2).2 with
        | nil =>
          rcases ht with rfl | ⟨t', rfl⟩
          · simp
          · simp
        | cons d r4 =>
          simp only [List.cons_append]
          by_cases h4 : d = '}'
          · subst h4
            simp only []
            split <;> simp [extB]
          · split <;> simp_all
      · unfold bracesTail
        split <;> simp_all

theorem parseBraces_ext (s t : Str) (ht : okTail t) :
    parseBraces (s ++ t) = (parseBraces s).map (extB t) := by
  rw [parseBraces_eq, parseBraces_eq, takeDigits_ext s t ht]
  exact bracesTail_ext _ _ t ht

/-! ### `parseQuant` -/

def qFinish (r : Re) (rest : Str) : Option (Re × Str) :=
  match rest with
  | '?' :: _ => none | '+' :: _ => none | '*' :: _ => none
  | '{' :: r' => if (parseBraces r').isSome then none else some (r, rest)
  | _ => some (r, rest)

def repeatable (a : Re) : Bool := match a with | .bol => false | .eol => false | .eps => false | _ => true

def quantBody (a : Re) (s : Str) : Option (Re × Str) :=
  match s with
  | '*' :: r => if repeatable a then qFinish (.rep a 0 none) r else none
  | '+' :: r => if repeatable a then qFinish (.rep a 1 none) r else none
  | '?' :: r => if repeatable a then qFinish (.rep a 0 (some 1)) r else none
  | '{' :: r =>
    match parseBraces r with
    | some (lo, hi, r') =>
      if !repeatable a then none
      else if (match hi with | some h => decide (h < lo) | none => false) then none
      else qFinish (.rep a lo hi) r'
    | none => some (a, s)
  | _ => some (a, s)

theorem parseQuant_eq (a : Re) (s : Str) : parseQuant a s = quantBody a s := rfl

def extQ (t : Str) (x : Re × Str) : Re × Str := (x.1, x.2 ++ t)

theorem qFinish_ext (r : Re) (rest t : Str) (ht : okTail t) :
    qFinish r (rest ++ t) = (qFinish r rest).map (extQ t) := by
  cases rest with
  | nil =>
    rcases ht with rfl | ⟨t', rfl⟩
    · simp [qFinish, extQ]
    · simp [qFinish, extQ]
  | cons c r' =>
    simp only [List.cons_append]
    by_cases h : c = '{'
    · subst h
      simp only [qFinish, parseBraces_ext r' t ht]
      cases parseBraces r' <;> simp [extQ]
    · unfold qFinish
      split <;> simp_all [extQ]

theorem quantBody_other (a : Re) (c : Char) (r : Str)
    (h : c ≠ '*' ∧ c ≠ '+' ∧ c ≠ '?' ∧ c ≠ '{') : quantBody a (c :: r) = some (a, c :: r) := by
  unfold quantBody
  split <;> simp_all

theorem parseQuant_ext (a : Re) (s t : Str) (ht : okTail t) :
    parseQuant a (s ++ t) = (parseQuant a s).map (extQ t) := by
  rw [parseQuant_eq, parseQuant_eq]
  cases s with
  | nil =>
    rcases ht with rfl | ⟨t', rfl⟩
    · simp [quantBody, extQ]
    · simp [quantBody, extQ]
  | cons c r =>
    simp only [List.cons_append]
    by_cases h : c = '{'
    · subst h
      simp only [quantBody, parseBraces_ext r t ht]
      cases hb : parseBraces r with
      | none => simp [extQ]
      | some x =>
        obtain ⟨lo, hi, r'⟩ := x
        simp only [Option.map_some, extB]
        by_cases hr : (!repeatable a) = true
        · simp [hr]
        · simp only [hr]
          cases hi with
          | none => simpa using qFinish_ext _ _ _ ht
          | some hh =>
            by_cases hlt : hh < lo
            · simp [hlt]
            · simpa [hlt] using qFinish_ext _ _ _ ht
    · by_cases h1 : c = '*'
      · subst h1
        simp only [quantBody]
        split
        · exact qFinish_ext _ _ _ ht
        · simp
      · by_cases h2 : c = '+'
        · subst h2
          simp only [quantBody]
          split
          · exact qFinish_ext _ _ _ ht
          · simp
        · by_cases h3 : c = '?'
          · subst h3
            simp only [quantBody]
            split
            · exact qFinish_ext _ _ _ ht
            · simp
          · rw [quantBody_other a c _ ⟨h1, h2, h3, h⟩, quantBody_other a c _ ⟨h1, h2, h3, h⟩]
            simp [extQ]

/-! ### `takeName`, `parseClsItems` -/

theorem takeName_ext (t : Str) (acc s n r : Str) (h : takeName acc s = some (n, r)) :
    takeName acc (s ++ t) = some (n, r ++ t) := by
  induction s generalizing acc with
  | nil => simp [takeName] at h
  | cons c s ih =>
    simp only [List.cons_append, takeName] at h ⊢
    split
    · simp_all
    · simp_all

theorem takeName_spec (acc f r : Str) (hf : '>' ∉ f) :
    takeName acc (f ++ '>' :: r) = some (acc.reverse ++ f, r) := by
  induction f generalizing acc with
  | nil => simp [takeName]
  | cons c f ih =>
    have hc : (c == '>') = false := by
      simp only [List.mem_cons, not_or] at hf
      simpa using fun e => hf.1 e.symm
    have hf' : '>' ∉ f := fun h => hf (List.mem_cons_of_mem _ h)
    simp only [List.cons_append, takeName, hc]
    rw [if_neg (by simp), ih _ hf']
    simp

theorem parseClsItems_nil (f : Nat) (first : Bool) (acc : List ClsItem) :
    parseClsItems f first acc [] = none := by
  cases f <;> rfl

theorem parseClsItems_dash (f : Nat) (first : Bool) (acc : List ClsItem) :
    parseClsItems f first acc ['-'] = none := by
  cases f with
  | zero => rfl
  | succ f =>
    rw [parseClsItems]
    simp [parseClsItems_nil]

/-- the `-` look-ahead of a class body -/
def clsPlain (f : Nat) (acc : List ClsItem) (c : Char) (r : Str) : Option (List ClsItem × Str) :=
  match r with
  | '-' :: hi :: r' =>
    if hi == ']' then parseClsItems f false (.ch c :: acc) r
    else if hi == '\\' || hi == '[' then none
    else if c ≤ hi then parseClsItems f false (.range c hi :: acc) r'
    else none
  | _ => parseClsItems f false (.ch c :: acc) r

theorem parseClsItems_cons (f : Nat) (first : Bool) (acc : List ClsItem) (c : Char) (r : Str) :
    parseClsItems (f + 1) first acc (c :: r) =
      if c == ']' && !first then some (acc.reverse, r)
      else if c == '\\' then
        match r with
        | e :: r' => match escapeClsItem e with
          | some it => parseClsItems f false (it :: acc) r'
          | none => none
        | [] => none
      else if c == '[' then none
      else clsPlain f acc c r := by
  simp only [parseClsItems]; rfl

theorem clsPlain_other (f : Nat) (acc : List ClsItem) (c x : Char) (r : Str) (h : x ≠ '-') :
    clsPlain f acc c (x :: r) = parseClsItems f false (.ch c :: acc) (x :: r) := by
  unfold clsPlain
  split
  · simp_all
  · rfl

theorem parseClsItems_ext (t : Str) : ∀ (f f' : Nat) (first : Bool) (acc : List ClsItem) (s : Str)
    (items : List ClsItem) (rest : Str),
    parseClsItems f first acc s = some (items, rest) → f ≤ f' →
    parseClsItems f' first acc (s ++ t) = some (items, rest ++ t) := by
  intro f
  induction f with
  | zero => intro f' first acc s items rest h; simp [parseClsItems] at h
  | succ f ih =>
    intro f' first acc s items rest h hle
    obtain ⟨g, rfl⟩ : ∃ g, f' = g + 1 := ⟨f' - 1, by omega⟩
    have hfg : f ≤ g := by omega
    cases s with
    | nil => simp [parseClsItems] at h
    | cons c r =>
      rw [List.cons_append]
      rw [parseClsItems_cons] at h ⊢
      by_cases h1 : (c == ']' && !first) = true
      · simp only [h1, if_true] at h ⊢
        simp only [Option.some.injEq, Prod.mk.injEq] at h
        simp [h.1, h.2]
      · simp only [h1] at h ⊢
        by_cases h2 : (c == '\\') = true
        · simp only [h2, if_true] at h ⊢
          cases r with
          | nil => simp at h
          | cons e r' =>
            simp only [List.cons_append] at h ⊢
            cases he : escapeClsItem e with
            | none => simp [he] at h
            | some it =>
              simp only [he] at h ⊢
              exact ih g false _ _ _ _ h hfg
        · simp only [h2] at h ⊢
          by_cases h3 : (c == '[') = true
          · simp [h3] at h
          · simp only [h3] at h ⊢
            simp only [Bool.false_eq_true, if_false] at h ⊢
            cases r with
            | nil => simp [clsPlain, parseClsItems_nil] at h
            | cons x r1 =>
              by_cases hx : x = '-'
              · subst hx
                cases r1 with
                | nil => simp [clsPlain, parseClsItems_dash] at h
                | cons hi r' =>
                  simp only [List.cons_append, clsPlain] at h ⊢
                  by_cases k1 : (hi == ']') = true
                  · simp only [k1, if_true] at h ⊢
                    exact ih g false _ _ _ _ h hfg
                  · simp only [k1] at h ⊢
                    by_cases k2 : (hi == '\\' || hi == '[') = true
                    · simp [k2] at h
                    · simp only [k2] at h ⊢
                      by_cases k3 : c ≤ hi
                      · simp only [k3, if_true, Bool.false_eq_true, if_false] at h ⊢
                        exact ih g false _ _ _ _ h hfg
                      · simp [k3] at h
              · rw [List.cons_append, clsPlain_other _ _ _ _ _ hx]
                rw [clsPlain_other _ _ _ _ _ hx] at h
                exact ih g false _ _ _ _ h hfg

/-! ### the mutual parser: one fuel step -/

/-- "parsing `s` with fuel `f` succeeds → parsing `s ++ t` with fuel `g` succeeds alike" -/
def ExtP (P : Nat → Str → Option (Re × Str)) (f g : Nat) (t : Str) : Prop :=
  ∀ s a r, P f s = some (a, r) → P g (s ++ t) = some (a, r ++ t)

theorem parseAlt_succ (f : Nat) (s : Str) :
    parseAlt (f + 1) s =
      match parseSeq f s with
      | none => none
      | some (a, rest) =>
        match rest with
        | '|' :: r' =>
          match parseAlt f r' with
          | some (b, rest') => some (.alt a b, rest')
          | none => none
        | _ => some (a, rest) := by
  rw [parseAlt]; rfl

theorem altStep (t : Str) (ht : okTail t) (f g : Nat)
    (ihA : ExtP parseAlt f g t) (ihS : ExtP parseSeq f g t) : ExtP parseAlt (f + 1) (g + 1) t := by
  intro s a r h
  rw [parseAlt_succ] at h ⊢
  cases hs : parseSeq f s with
  | none => simp [hs] at h
  | some x =>
    obtain ⟨a1, rest⟩ := x
    rw [ihS s a1 rest hs]
    simp only [hs] at h ⊢
    cases rest with
    | nil =>
      simp only [Option.some.injEq, Prod.mk.injEq] at h
      obtain ⟨rfl, rfl⟩ := h
      rcases ht with rfl | ⟨t', rfl⟩
      · simp
      · simp
    | cons c r' =>
      by_cases hc : c = '|'
      · subst hc
        simp only [List.cons_append] at h ⊢
        cases hb : parseAlt f r' with
        | none => simp [hb] at h
        | some y =>
          obtain ⟨b, rest'⟩ := y
          simp only [hb, Option.some.injEq, Prod.mk.injEq] at h
          obtain ⟨rfl, rfl⟩ := h
          simp [ihA r' b rest' hb]
      · simp only [List.cons_append]
        split at h
        · simp_all
        · simp only [Option.some.injEq, Prod.mk.injEq] at h
          obtain ⟨rfl, rfl⟩ := h
          split
          · simp_all
          · simp

/-- the atom–quantifier–rest arm of `parseSeq` -/
def seqBody (f : Nat) (s : Str) : Option (Re × Str) :=
  match parseAtom f s with
  | none => none
  | some (a, rest) =>
    match parseQuant a rest with
    | none => none
    | some (q, rest') =>
      match parseSeq f rest' with
      | some (.eps, rest'') => some (q, rest'')
      | some (b, rest'') => some (.seq q b, rest'')
      | none => none

theorem parseSeq_cons (f : Nat) (c : Char) (r : Str) (h1 : c ≠ '|') (h2 : c ≠ ')') :
    parseSeq (f + 1) (c :: r) = seqBody f (c :: r) := by
  unfold parseSeq
  split
  · simp_all
  · simp_all
  · simp_all
  · rfl

theorem seqBody_eq (f : Nat) (s : Str) :
    seqBody f s = (parseAtom f s).bind (fun x => (parseQuant x.1 x.2).bind (fun y =>
      (parseSeq f y.2).map (fun z => (seqc y.1 z.1, z.2)))) := by
  unfold seqBody
  cases parseAtom f s with
  | none => rfl
  | some x =>
    obtain ⟨a, rest⟩ := x
    simp only [Option.bind_some]
    cases parseQuant a rest with
    | none => rfl
    | some y =>
      obtain ⟨q, rest'⟩ := y
      simp only [Option.bind_some]
      cases parseSeq f rest' with
      | none => rfl
      | some z =>
        obtain ⟨b, rest''⟩ := z
        cases b <;> rfl

theorem seqStep (t : Str) (ht : okTail t) (f g : Nat)
    (ihS : ExtP parseSeq f g t) (ihT : ExtP parseAtom f g t) : ExtP parseSeq (f + 1) (g + 1) t := by
  intro s a r h
  cases s with
  | nil =>
    simp only [parseSeq, Option.some.injEq, Prod.mk.injEq] at h
    obtain ⟨rfl, rfl⟩ := h
    rcases ht with rfl | ⟨t', rfl⟩
    · rfl
    · rfl
  | cons c s' =>
    by_cases h1 : c = '|'
    · subst h1
      simp only [parseSeq, Option.some.injEq, Prod.mk.injEq] at h
      obtain ⟨rfl, rfl⟩ := h
      rfl
    · by_cases h2 : c = ')'
      · subst h2
        simp only [parseSeq, Option.some.injEq, Prod.mk.injEq] at h
        obtain ⟨rfl, rfl⟩ := h
        rfl
      · rw [parseSeq_cons _ _ _ h1 h2, seqBody_eq] at h
        rw [List.cons_append, parseSeq_cons _ _ _ h1 h2, seqBody_eq, ← List.cons_append]
        cases hA : parseAtom f (c :: s') with
        | none => simp [hA] at h
        | some x =>
          obtain ⟨a1, rest⟩ := x
          rw [ihT _ _ _ hA]
          simp only [hA, Option.bind_some] at h ⊢
          rw [parseQuant_ext _ _ _ ht]
          cases hQ : parseQuant a1 rest with
          | none => simp [hQ] at h
          | some y =>
            obtain ⟨q, rest'⟩ := y
            simp only [hQ, Option.bind_some, Option.map_some, extQ] at h ⊢
            cases hS : parseSeq f rest' with
            | none => simp [hS] at h
            | some z =>
              obtain ⟨b, rest''⟩ := z
              rw [ihS _ _ _ hS]
              simp only [hS, Option.map_some, Option.some.injEq, Prod.mk.injEq] at h ⊢
              obtain ⟨rfl, rfl⟩ := h
              exact ⟨rfl, rfl⟩

theorem parseAtom_paren (f : Nat) (x : Char) (r : Str) (hx : x ≠ '?') :
    parseAtom (f + 1) ('(' :: x :: r) =
      match parseAlt f (x :: r) with
      | some (a, ')' :: rest) => some (a, rest)
      | _ => none := by
  unfold parseAtom
  split <;> first | (simp_all; done) | skip
  · rename_i heq; cases heq; rfl
  · rename_i h10 _ _ _ _ _ _ _ _ _ _ heq; injection heq with e1 e2; exact (h10 e1.symm).elim

theorem parseAtom_brack (f : Nat) (x : Char) (r : Str) (hx : x ≠ '^') :
    parseAtom (f + 1) ('[' :: x :: r) =
      match parseClsItems ((x :: r).length + 1) true [] (x :: r) with
      | some (items, rest) => some (.cls false items, rest)
      | none => none := by
  unfold parseAtom
  split <;> first | (simp_all; done) | skip
  · rename_i heq; cases heq; rfl
  · rename_i h8 _ _ _ _ _ _ _ _ heq; injection heq with e1 e2; exact (h8 e1.symm).elim

theorem atomStep (t : Str) (ht : okTail t) (f g : Nat)
    (ihA : ExtP parseAlt f g t) : ExtP parseAtom (f + 1) (g + 1) t := by
  intro s a r h
  unfold parseAtom at h
  split at h
  · cases h
  · -- (?: … )
    rename_i r0
    split at h
    · rename_i a' rest' hA
      simp only [Option.some.injEq, Prod.mk.injEq] at h
      obtain ⟨rfl, rfl⟩ := h
      have := ihA _ _ _ hA
      simp only [List.cons_append] at this ⊢
      simp only [parseAtom, this]
    · cases h
  · -- (?P<name> … )
    rename_i r0
    split at h
    · rename_i name r' hN
      split at h
      · rename_i a' rest' hA
        simp only [Option.some.injEq, Prod.mk.injEq] at h
        obtain ⟨rfl, rfl⟩ := h
        have := ihA _ _ _ hA
        simp only [List.cons_append] at this ⊢
        simp only [parseAtom, takeName_ext t _ _ _ _ hN, this]
      · cases h
    · cases h
  · cases h
  · -- ( … )
    rename_i r0 _ _ hq
    split at h
    · rename_i a' rest' hA
      simp only [Option.some.injEq, Prod.mk.injEq] at h
      obtain ⟨rfl, rfl⟩ := h
      have := ihA _ _ _ hA
      cases r0 with
      | nil =>
        rcases ht with rfl | ⟨t', rfl⟩
        · simp only [List.append_nil] at this ⊢
          simp only [parseAtom, this]
        · simp only [List.cons_append, List.nil_append] at this ⊢
          rw [parseAtom_paren _ _ _ (by decide), this]; rfl
      | cons x r1 =>
        have hx : x ≠ '?' := fun e => hq r1 (by rw [e])
        simp only [List.cons_append] at this ⊢
        rw [parseAtom_paren _ _ _ hx, this]; rfl
    · cases h
  · -- [^ … ]
    rename_i r0
    split at h
    · rename_i items rest hC
      simp only [Option.some.injEq, Prod.mk.injEq] at h
      obtain ⟨rfl, rfl⟩ := h
      have := parseClsItems_ext t _ ((r0 ++ t).length + 1) _ _ _ _ _ hC (by simp)
      simp only [List.cons_append]
      simp only [parseAtom, this]
    · cases h
  · -- [ … ]
    rename_i r0 hq
    split at h
    · rename_i items rest hC
      simp only [Option.some.injEq, Prod.mk.injEq] at h
      obtain ⟨rfl, rfl⟩ := h
      cases r0 with
      | nil => simp [parseClsItems] at hC
      | cons x r1 =>
        have hx : x ≠ '^' := fun e => hq r1 (by rw [e])
        have := parseClsItems_ext t _ (((x :: r1) ++ t).length + 1) _ _ _ _ _ hC (by simp)
        simp only [List.cons_append] at this ⊢
        rw [parseAtom_brack _ _ _ hx, this]
    · cases h
  · -- escape
    rename_i e r0
    cases he : escapeAtom e with
    | none => simp [he] at h
    | some x =>
      simp only [he, Option.map_some, Option.some.injEq, Prod.mk.injEq] at h
      obtain ⟨rfl, rfl⟩ := h
      simp only [List.cons_append]
      simp only [parseAtom, he, Option.map_some]
  · cases h
  · simp only [Option.some.injEq, Prod.mk.injEq] at h
    obtain ⟨rfl, rfl⟩ := h
    rfl
  · simp only [Option.some.injEq, Prod.mk.injEq] at h
    obtain ⟨rfl, rfl⟩ := h
    rfl
  · simp only [Option.some.injEq, Prod.mk.injEq] at h
    obtain ⟨rfl, rfl⟩ := h
    rfl
  · cases h
  · cases h
  · cases h
  · rename_i c r0 _ _ _ h10 _ h8 h7 h6 h5 h4 h3 h2 h1 h0
    simp only [Option.some.injEq, Prod.mk.injEq] at h
    obtain ⟨rfl, rfl⟩ := h
    rw [List.cons_append]
    apply parseAtom_plain
    refine ⟨fun e => h10 e, fun e => h8 e, ?_, fun e => h5 e, fun e => h4 e, fun e => h3 e,
      fun e => h2 e, fun e => h1 e, fun e => h0 e⟩
    intro e
    cases r0 with
    | nil => exact h6 e rfl
    | cons y r1 => exact h7 y r1 e rfl

/-! ### tail extension and fuel monotonicity -/

theorem parse_ext (t : Str) (ht : okTail t) : ∀ f g, f ≤ g →
    ExtP parseAlt f g t ∧ ExtP parseSeq f g t ∧ ExtP parseAtom f g t := by
  intro f
  induction f with
  | zero =>
    intro g _
    refine ⟨?_, ?_, ?_⟩ <;> intro s a r h
    · simp [parseAlt] at h
    · simp [parseSeq] at h
    · simp [parseAtom] at h
  | succ f ih =>
    intro g' hle
    obtain ⟨g, rfl⟩ : ∃ g, g' = g + 1 := ⟨g' - 1, by omega⟩
    obtain ⟨iA, iS, iT⟩ := ih g (by omega)
    exact ⟨altStep t ht f g iA iS, seqStep t ht f g iS iT, atomStep t ht f g iA⟩

theorem parseAlt_ext {f g : Nat} {s : Str} {a : Re} {r : Str} (t : Str) (ht : okTail t)
    (h : parseAlt f s = some (a, r)) (hfg : f ≤ g) : parseAlt g (s ++ t) = some (a, r ++ t) :=
  (parse_ext t ht f g hfg).1 s a r h

theorem parseSeq_ext {f g : Nat} {s : Str} {a : Re} {r : Str} (t : Str) (ht : okTail t)
    (h : parseSeq f s = some (a, r)) (hfg : f ≤ g) : parseSeq g (s ++ t) = some (a, r ++ t) :=
  (parse_ext t ht f g hfg).2.1 s a r h

theorem parseAtom_ext {f g : Nat} {s : Str} {a : Re} {r : Str} (t : Str) (ht : okTail t)
    (h : parseAtom f s = some (a, r)) (hfg : f ≤ g) : parseAtom g (s ++ t) = some (a, r ++ t) :=
  (parse_ext t ht f g hfg).2.2 s a r h

theorem parseAlt_mono {f g : Nat} {s : Str} {x : Re × Str}
    (h : parseAlt f s = some x) (hfg : f ≤ g) : parseAlt g s = some x := by
  have := parseAlt_ext (a := x.1) (r := x.2) [] okTail_nil h hfg
  simpa using this

theorem parseSeq_mono {f g : Nat} {s : Str} {x : Re × Str}
    (h : parseSeq f s = some x) (hfg : f ≤ g) : parseSeq g s = some x := by
  have := parseSeq_ext (a := x.1) (r := x.2) [] okTail_nil h hfg
  simpa using this

theorem parseAtom_mono {f g : Nat} {s : Str} {x : Re × Str}
    (h : parseAtom f s = some x) (hfg : f ≤ g) : parseAtom g s = some x := by
  have := parseAtom_ext (a := x.1) (r := x.2) [] okTail_nil h hfg
  simpa using this

/-! ### closedness of a complete regex -/

theorem parseRe_some {src : Str} {a : Re} (h : parseRe src = some a) :
    parseAlt (3 * src.length + 3) src = some (a, []) := by
  unfold parseRe at h
  split at h
  · rename_i r hr
    cases h
    exact hr
  · cases h

/-- a regex that `parseRe` accepts is parsed as a unit in front of a closing parenthesis -/
theorem parseRe_closed {rx : Str} {a : Re} (h : parseRe rx = some a) (f : Nat)
    (hf : 3 * rx.length + 3 ≤ f) (tail : Str) :
    parseAlt f (rx ++ ')' :: tail) = some (a, ')' :: tail) := by
  have := parseAlt_ext (')' :: tail) (okTail_close tail) (parseRe_some h) hf
  simpa using this

end BV
