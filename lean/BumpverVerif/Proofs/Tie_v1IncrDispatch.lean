/-
  Proofs/Tie_v1IncrDispatch.lean — the definition GENERATED from `cli.incr_dispatch(old_version, raw_pattern, *, major,
  minor, patch, tag, tag_num, pin_increments, pin_date, maybe_date)` against the hand model `BV.dispatchIncr`
  (Model/V1.lean): WHICH ENGINE handles a pattern.

   * `tie_v1IncrDispatch_hasV1Part` : the test the generated code computes — `any("{" + part + "}" in raw_pattern for part
     in list(PART_PATTERNS) + list(FULL_PART_FORMATS))`, over the GENERATED tables — is the model's `hasV1Part`;
   * `tie_v1IncrDispatch`           : with `_VERBOSE = 0` the outcome is the model's `dispatchIncr`, where the outcome of
     the Python call (a new version / None / an exception of either engine) is read through `incrResultOf`
     (exceptions become `crash`, the models' "outside the modelled language" becomes `unsupported`, exactly as
     `dispatchIncr` does).  The flags reach the engines unchanged: all six to the legacy engine (it has no
     `pin_increments`), all seven to the new one.

  Hypothesis `verbose = 0`: under `-v` the function first compiles the pattern (for a log line) and could raise
  THERE; the model has no verbosity.  The callees `v1version.incr` / `v2version.incr` are the model functions
  `v1Incr` (`tie_v1Incr`) / `incr` (by correspondence); both take the bump date `maybe_date or TODAY`.
-/
import BumpverVerif.Gen.F_v1IncrDispatch
import BumpverVerif.Proofs.TieV1Spec
set_option linter.unusedSimpArgs false
namespace BV
open GenV1

/-- the observable outcome of a call of `incr_dispatch` -/
def incrResultOf : Except DErr (Option Str) → IncrResult
  | .ok (some s) => .new s
  | .ok none => .noChange
  | .error (.v1 .unsupported) => .unsupported
  | .error (.v2 .unsupported) => .unsupported
  | .error _ => .crash

/-- the engine test, as the generated code computes it, is the model's `hasV1Part` -/
theorem tie_v1IncrDispatch_hasV1Part (raw : Str) :
    List.any ((Gen.v1PartPatterns.map (fun kv => kv.1)) ++ (Gen.v1FullPartFormats.map (fun kv => kv.1)))
      (fun part => isInfix (("{".toList ++ part) ++ "}".toList) raw) = hasV1Part raw := rfl

theorem tie_v1IncrDispatch (old raw : Str) (major minor patch : Bool) (tag : Option Str)
    (tagNum pinIncrements pinDate : Bool) (maybeDate : Option (Nat × Nat × Nat)) (today : Nat × Nat × Nat) :
    incrResultOf (GenV1.v1IncrDispatch old raw major minor patch tag tagNum pinIncrements pinDate maybeDate 0 today) =
      dispatchIncr old raw { major := major, minor := minor, patch := patch, tag := tag, tagNum := tagNum,
                             pinIncrements := pinIncrements, pinDate := pinDate } (maybeDate.getD today) today := by
  unfold GenV1.v1IncrDispatch dispatchIncr
  simp only [bne_self_eq_false, Bool.false_eq_true, if_false, v1_ebind_ok]
  -- the two sides test the same thing …
  generalize hb : hasV1Part raw = b
  have hgen : List.any ((Gen.v1PartPatterns.map (fun kv => kv.1)) ++ (Gen.v1FullPartFormats.map (fun kv => kv.1)))
      (fun part => isInfix (("{".toList ++ part) ++ "}".toList) raw) = b := by
    rw [← hb]; rfl
  simp only [hgen]
  cases b
  · -- … and hand the same arguments to the new engine
    simp only [Bool.false_eq_true, if_false, IncrFlags.toV1]
    generalize incr old raw _ _ today = r
    rcases r with e | _ | s
    · cases e <;> rfl
    · rfl
    · rfl
  · -- … or to the legacy engine (which has no `pin_increments`)
    simp only [if_true, IncrFlags.toV1]
    generalize v1Incr old raw _ _ = r
    rcases r with e | _ | s
    · cases e <;> rfl
    · rfl
    · rfl

end BV
