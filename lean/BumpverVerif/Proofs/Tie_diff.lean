/-
  Proofs/Tie_diff.lean — the definition GENERATED from the Python source of `v2rewrite.diff`
  (Gen/F_diff.lean; `difflib` stays the parameter `diff_lines`) against the dry path of the hand model
  (`diffFile` / `diffFiles`, Model/Diff.lean), up to (old_lines, new_lines):

  * `tie_diff` : the file system is untouched; if a configured file is missing the result is the IOError
    (ALL files are checked first: `sorted(...)` runs `iter_path_patterns_items` to exhaustion); otherwise the
    files are processed in the order of their paths and each contributes `"\n".join(diff_lines(rfd)) + "\n"`
    where `rfd` carries exactly the (old_lines, new_lines) of the model's `diffFile` — the same `rewriteLines`
    of the same split content that `rewrite_files` writes (tie_rewriteFiles) — or fails with `diffFile`'s error;
  * `diffFold_outcome` : success / the error of that fold is success / the error of the model's `diffFiles`
    on the same (sorted) list.

  Explicit hypotheses (each is a place where Python and the model differ or where a parameter is used):
  * `hdl`  : `diff_lines rfd` is empty iff old_lines = new_lines (the model tests `old == new`, Python tests
             `len(lines) == 0` on difflib's output; difflib itself is not modelled);
  * `hfmt` : `format_version` succeeds on every raw pattern for the old and the new record (Python
             propagates the exception out of `_patterns_with_change`, the model compares `Except` values:
             `patternsWithChange_raises`).
  The model's `diffFiles` takes the files in configuration order and reports the first failing file's error; the
  Python code sorts by path and reports a missing file before any other failure.
-/
import BumpverVerif.Gen.F_diff
import BumpverVerif.Model.Diff
import BumpverVerif.Proofs.DiffLemmas
import BumpverVerif.Proofs.Tie_iterPathPatternsItems
import BumpverVerif.Proofs.Tie_patternsWithChange
import BumpverVerif.Proofs.Tie_iterRewritten
namespace BV

open GenF (Pattern RewrittenFileData)

/-- one file of the dry path: the text appended to the diff so far -/
def diffStep (diff_lines : RewrittenFileData → List Str) (fs : FS) (old new : VInfo)
    (it : Str × List Pattern) (acc : Str) : Except RwErr Str :=
  match lookup it.1 fs with
  | none => .error .missingFile
  | some c =>
    match diffFile fs old new it.1 (it.2.map Pattern.abs) with
    | .error e => .error e
    | .ok r => .ok (acc ++ (join "\n".toList (diff_lines (rfdOf it.1 c r.2)) ++ "\n".toList))

/-- all files, in the given order -/
def diffFold (diff_lines : RewrittenFileData → List Str) (fs : FS) (old new : VInfo) :
    List (Str × List Pattern) → Str → Except RwErr Str
  | [], acc => .ok acc
  | it :: rest, acc =>
    match diffStep diff_lines fs old new it acc with
    | .error e => .error e
    | .ok acc' => diffFold diff_lines fs old new rest acc'

/-- what the loop of `diff` needs of its files -/
def DiffReady (old new : VInfo) (it : Str × List Pattern) : Prop :=
  ∀ p ∈ it.2, p.Wf ∧ (∃ a, formatVersion old p.raw_pattern = .ok a) ∧ (∃ b, formatVersion new p.raw_pattern = .ok b)

theorem pyForFS_eq_diffFold (diff_lines : RewrittenFileData → List Str) (old new : VInfo)
    (body : Str × List Pattern → Str → FS → FS × Except RwErr Str)
    (hb : ∀ it acc fs, DiffReady old new it → body it acc fs = (fs, diffStep diff_lines fs old new it acc))
    (l : List (Str × List Pattern)) (hl : ∀ it ∈ l, DiffReady old new it) (acc : Str) (fs : FS) :
    GenF.pyForFS l body acc fs = (fs, diffFold diff_lines fs old new l acc) := by
  induction l generalizing acc with
  | nil => rfl
  | cons it l ih =>
    rw [GenF.pyForFS_cons, hb it acc fs (hl it List.mem_cons_self)]
    simp only [diffFold]
    cases diffStep diff_lines fs old new it acc with
    | error e => rfl
    | ok acc' => exact ih (fun x hx => hl x (List.mem_cons_of_mem _ hx)) acc'

theorem tie_diff (old_vinfo new_vinfo : VInfo) (file_patterns : List (Str × List Pattern))
    (diff_lines : RewrittenFileData → List Str) (fs : FS)
    (hdl : ∀ rfd, (diff_lines rfd).length = 0 ↔ rfd.old_lines = rfd.new_lines)
    (hready : ∀ it ∈ file_patterns, DiffReady old_vinfo new_vinfo it) :
    GenF.diff old_vinfo new_vinfo file_patterns diff_lines fs =
      (fs, if file_patterns.all (fun it => (lookup it.1 fs).isSome) then
             (diffFold diff_lines fs old_vinfo new_vinfo
               (GenF.pySortedBy (fun x => x.1) (fun a b => strLt a b) file_patterns) []).map
                 (rstripChars "\n".toList)
           else .error .missingFile) := by
  unfold GenF.diff
  simp only [tie_iterPathPatternsItems]
  by_cases hall : file_patterns.all (fun it => (lookup it.1 fs).isSome) = true
  · simp only [hall, if_true]
    rw [pyForFS_eq_diffFold diff_lines old_vinfo new_vinfo _ ?hb _ ?hl]
    case hl =>
      intro it hit
      unfold GenF.pySortedBy at hit
      exact hready it ((GenF.mem_foldr_pyInsertBy _ it _).1 hit)
    case hb =>
      intro it acc fs' hit
      have hwf : ∀ p ∈ it.2, p.Wf := fun p hp => (hit p hp).1
      have hfmt := fun p hp => (hit p hp).2
      simp only [GenF.pyRead, diffStep, diffFile]
      have hl : lookup it.1 fs' = none ∨ ∃ c, lookup it.1 fs' = some c := by
        cases lookup it.1 fs' <;> simp
      rcases hl with hl | ⟨content, hl⟩
      · simp [hl]
      · simp only [hl, tie_rfdFromContent it.2 new_vinfo content _ hwf,
          tie_patternsWithChange old_vinfo new_vinfo it.2 hfmt]
        cases rewriteLines (it.2.map Pattern.abs) new_vinfo (splitOn (detectLineSep content) content) with
        | error e =>
          simp only [Except.map]
          split <;> simp_all
        | ok nl =>
          simp only [Except.map]
          have h1 := hdl (rfdOf it.1 content nl)
          by_cases heq : splitOn (detectLineSep content) content = nl
          · have hz : diff_lines (rfdOf it.1 content nl) = [] := List.length_eq_zero_iff.1 (h1.2 heq)
            subst heq
            simp only [rfdOf] at hz
            by_cases hpos : patternsWithChange old_vinfo new_vinfo (it.2.map Pattern.abs) > 0 <;>
              simp [hz, hpos, rfdOf]
          · have hz : ¬ diff_lines (rfdOf it.1 content nl) = [] :=
              fun h => heq (h1.1 (List.length_eq_zero_iff.2 h))
            simp only [rfdOf] at hz
            simp [hz, heq, rfdOf]
    rw [show ("".toList : Str) = [] from rfl]
    cases diffFold diff_lines fs old_vinfo new_vinfo
      (GenF.pySortedBy (fun x => x.1) (fun a b => strLt a b) file_patterns) [] <;> rfl
  · simp [hall]

/-- `diff` never writes: whatever the parameters, the file system comes back unchanged -/
theorem tie_diff_pure (old_vinfo new_vinfo : VInfo) (file_patterns : List (Str × List Pattern))
    (diff_lines : RewrittenFileData → List Str) (fs : FS) :
    (GenF.diff old_vinfo new_vinfo file_patterns diff_lines fs).1 = fs := by
  unfold GenF.diff
  simp only [tie_iterPathPatternsItems]
  by_cases hall : file_patterns.all (fun it => (lookup it.1 fs).isSome) = true
  · simp only [hall, if_true]
    generalize hres : GenF.pyForFS _ _ _ _ = res
    have h1 : res.1 = fs := by
      rw [← hres]
      refine GenF.pyForFS_fst _ ?_ _ _ _
      intro x st fs'
      repeat' split
      all_goals rfl
    obtain ⟨a, r⟩ := res
    simp only at h1
    subst h1
    cases r <;> rfl
  · simp [hall]
/-! ### the fold against the model's `diffFiles` -/

theorem diffStep_outcome (diff_lines : RewrittenFileData → List Str) (fs : FS) (old new : VInfo)
    (it : Str × List Pattern) (acc : Str) :
    (diffStep diff_lines fs old new it acc).map (fun _ => ()) =
      (diffFile fs old new it.1 (it.2.map Pattern.abs)).map (fun _ => ()) := by
  unfold diffStep
  cases hl : lookup it.1 fs with
  | none => simp [diffFile, hl, Except.map]
  | some c =>
    simp only []
    cases diffFile fs old new it.1 (it.2.map Pattern.abs) <;> rfl

/-- success, or the error, of the per-file fold of `diff` is success, or the error, of the model's
    `diffFiles` on the same list of files -/
theorem diffFold_outcome (diff_lines : RewrittenFileData → List Str) (fs : FS) (old new : VInfo)
    (l : List (Str × List Pattern)) (acc : Str) :
    (diffFold diff_lines fs old new l acc).map (fun _ => ()) =
      (diffFiles fs old new (GenF.absFilePatterns l)).map (fun _ => ()) := by
  induction l generalizing acc with
  | nil => rfl
  | cons it l ih =>
    have hcons : GenF.absFilePatterns (it :: l) = (it.1, it.2.map Pattern.abs) :: GenF.absFilePatterns l := rfl
    have hs := diffStep_outcome diff_lines fs old new it acc
    rw [hcons]
    simp only [diffFold, diffFiles]
    cases hd : diffStep diff_lines fs old new it acc with
    | error e =>
      rw [hd] at hs
      cases hf : diffFile fs old new it.1 (it.2.map Pattern.abs) with
      | error e' => rw [hf] at hs; simpa [Except.map] using hs
      | ok r => rw [hf] at hs; simp [Except.map] at hs
    | ok acc' =>
      rw [hd] at hs
      cases hf : diffFile fs old new it.1 (it.2.map Pattern.abs) with
      | error e' => rw [hf] at hs; simp [Except.map] at hs
      | ok r =>
        simp only []
        rw [ih acc']
        cases diffFiles fs old new (GenF.absFilePatterns l) <;> rfl

/-- `update --dry` succeeds exactly when the model's dry path succeeds on the files sorted by path -/
theorem tie_diff_ok_iff (old_vinfo new_vinfo : VInfo) (file_patterns : List (Str × List Pattern))
    (diff_lines : RewrittenFileData → List Str) (fs : FS)
    (hdl : ∀ rfd, (diff_lines rfd).length = 0 ↔ rfd.old_lines = rfd.new_lines)
    (hready : ∀ it ∈ file_patterns, DiffReady old_vinfo new_vinfo it) :
    (∃ text, GenF.diff old_vinfo new_vinfo file_patterns diff_lines fs = (fs, .ok text)) ↔
      (file_patterns.all (fun it => (lookup it.1 fs).isSome) = true ∧
       ∃ rs, diffFiles fs old_vinfo new_vinfo
          (GenF.absFilePatterns (GenF.pySortedBy (fun x => x.1) (fun a b => strLt a b) file_patterns)) = .ok rs) := by
  rw [tie_diff _ _ _ _ _ hdl hready]
  have ho := diffFold_outcome diff_lines fs old_vinfo new_vinfo
    (GenF.pySortedBy (fun x => x.1) (fun a b => strLt a b) file_patterns) []
  by_cases hall : file_patterns.all (fun it => (lookup it.1 fs).isSome) = true
  · simp only [hall, if_true, true_and]
    cases hf : diffFold diff_lines fs old_vinfo new_vinfo
        (GenF.pySortedBy (fun x => x.1) (fun a b => strLt a b) file_patterns) [] with
    | error e =>
      rw [hf] at ho
      cases hm : diffFiles fs old_vinfo new_vinfo
          (GenF.absFilePatterns (GenF.pySortedBy (fun x => x.1) (fun a b => strLt a b) file_patterns)) with
      | error e' => simp [Except.map]
      | ok rs => rw [hm] at ho; simp [Except.map] at ho
    | ok t =>
      rw [hf] at ho
      cases hm : diffFiles fs old_vinfo new_vinfo
          (GenF.absFilePatterns (GenF.pySortedBy (fun x => x.1) (fun a b => strLt a b) file_patterns)) with
      | error e' => rw [hm] at ho; simp [Except.map] at ho
      | ok rs => simp [Except.map]
  · simp [hall]

end BV
