/-
  Proofs/ConfigLemmas.lean — helper lemmas for C18 / C19 (Model/Config.lean).
-/
import BumpverVerif.Model.Config
namespace BV

/-! ### association lists -/

theorem lookup_nil {α} (k : Str) : lookup k ([] : List (Str × α)) = none := rfl

theorem lookup_cons {α} (k k' : Str) (v : α) (l : List (Str × α)) :
    lookup k ((k', v) :: l) = if k = k' then some v else lookup k l := by
  rw [lookup]

theorem lookup_append {α} (k : Str) (l1 l2 : List (Str × α)) :
    lookup k (l1 ++ l2) = (lookup k l1).orElse (fun _ => lookup k l2) := by
  induction l1 with
  | nil => simp [lookup_nil]
  | cons h t ih =>
    obtain ⟨k', v⟩ := h
    by_cases hk : k = k' <;> simp [lookup_cons, hk, ih]

theorem lookup_optEntry {α β} (k k' : Str) (f : α → β) (o : Option α) :
    lookup k (optEntry k' f o) = if k = k' then o.map f else none := by
  cases o <;> simp [optEntry, lookup_cons, lookup_nil]

theorem lookup_mapVal {α β} (k : Str) (f : α → β) (l : List (Str × α)) :
    lookup k (l.map (fun kv => (kv.1, f kv.2))) = (lookup k l).map f := by
  induction l with
  | nil => simp [lookup_nil]
  | cons h t ih =>
    obtain ⟨k', v⟩ := h
    by_cases hk : k = k' <;> simp [lookup_cons, hk, ih]

theorem lookup_setOpt {α} (k k' : Str) (v : α) (l : List (Str × α)) :
    lookup k (setOpt k' v l) = if k = k' then some v else lookup k l := by
  induction l with
  | nil => simp [setOpt, lookup_cons, lookup_nil]
  | cons h t ih =>
    obtain ⟨k'', v''⟩ := h
    by_cases h1 : k' = k''
    · subst h1
      by_cases h2 : k = k' <;> simp [setOpt, lookup_cons, h2]
    · by_cases h2 : k = k'
      · subst h2
        simp [setOpt, h1, lookup_cons, ih]
      · by_cases h3 : k = k''
        · subst h3
          simp [setOpt, h1, h2, lookup_cons]
        · simp [setOpt, h1, h2, h3, lookup_cons, ih]

/-! ### `.strip("'\" ")` forgets the INI quoting -/

theorem dropWhile_append_singleton {α} (p : α → Bool) (s : List α) (c : α) (hc : p c = true) :
    (s ++ [c]).dropWhile p = if s.all p then [] else s.dropWhile p ++ [c] := by
  induction s with
  | nil => simp [List.dropWhile, hc]
  | cons a t ih =>
    by_cases ha : p a = true
    · simp [List.dropWhile, ha, ih]
    · simp [List.dropWhile, ha]

theorem dropWhile_of_all {α} (p : α → Bool) (s : List α) (h : s.all p = true) : s.dropWhile p = [] := by
  induction s with
  | nil => rfl
  | cons a t ih =>
    simp only [List.all_cons, Bool.and_eq_true] at h
    simp [List.dropWhile, h.1, ih h.2]

theorem lstrip_cons_mem (chars : Str) (c : Char) (s : Str) (hc : chars.contains c = true) :
    lstripChars chars (c :: s) = lstripChars chars s := by
  have hc' : c ∈ chars := by simpa using hc
  simp [lstripChars, List.dropWhile, hc']

theorem rstrip_append_singleton (chars : Str) (c : Char) (s : Str) (hc : chars.contains c = true) :
    rstripChars chars (s ++ [c]) = rstripChars chars s := by
  have hc' : c ∈ chars := by simpa using hc
  simp [rstripChars, lstripChars, hc']

theorem rstrip_nil (chars : Str) : rstripChars chars [] = [] := by
  simp [rstripChars, lstripChars]

theorem strip_wrap_char (chars : Str) (c : Char) (s : Str) (hc : chars.contains c = true) :
    stripChars chars (c :: (s ++ [c])) = stripChars chars s := by
  unfold stripChars
  rw [lstrip_cons_mem chars c _ hc]
  unfold lstripChars
  rw [dropWhile_append_singleton _ s c (by simpa using hc)]
  split
  · rename_i hall
    rw [dropWhile_of_all _ s hall]
  · exact rstrip_append_singleton chars c _ hc

theorem stripQuotes_wrap (q : Quote) (s : Str) : stripQuotes (q.wrap s) = stripQuotes s := by
  cases q
  · rfl
  · exact strip_wrap_char _ '"' s (by decide)
  · exact strip_wrap_char _ '\'' s (by decide)

/-! ### the BOOL_OPTIONS loops -/

theorem iniBoolLoop_eq (o : List (Str × RawVal)) :
    iniBoolLoop o = iniBoolStep (iniBoolStep (iniBoolStep o ("commit".toList, some false))
      ("tag".toList, none)) ("push".toList, none) := rfl

theorem tomlBoolLoop_eq (o : List (Str × RawVal)) :
    tomlBoolLoop o = tomlBoolStep (tomlBoolStep (tomlBoolStep o ("commit".toList, some false))
      ("tag".toList, none)) ("push".toList, none) := rfl

theorem lookup_iniBoolLoop (k : Str) (o : List (Str × RawVal)) :
    lookup k (iniBoolLoop o) =
      if k = "push".toList then some (iniBoolConv ((lookup "push".toList o).getD .none))
      else if k = "tag".toList then some (iniBoolConv ((lookup "tag".toList o).getD .none))
      else if k = "commit".toList then some (iniBoolConv ((lookup "commit".toList o).getD (.bool false)))
      else lookup k o := by
  rw [iniBoolLoop_eq]
  simp [iniBoolStep, lookup_setOpt, boolDefault]

theorem lookup_tomlBoolLoop (k : Str) (o : List (Str × RawVal)) :
    lookup k (tomlBoolLoop o) =
      if k = "push".toList then some ((lookup "push".toList o).getD .none)
      else if k = "tag".toList then some ((lookup "tag".toList o).getD .none)
      else if k = "commit".toList then some ((lookup "commit".toList o).getD (.bool false))
      else lookup k o := by
  rw [tomlBoolLoop_eq]
  simp [tomlBoolStep, lookup_setOpt, boolDefault]

/-! ### the raw options of the two renderings -/

syntax "lookup_opts" : tactic
macro_rules
  | `(tactic| lookup_opts) => `(tactic| (simp only [AbsCfg.iniOpts, AbsCfg.tomlOpts, lookup_append, lookup_optEntry]; simp [lookup_cons, lookup_nil]))

theorem lookup_iniCurrentVersion (c : AbsCfg) : lookup "current_version".toList c.iniOpts = some c.currentVersion.ini := by lookup_opts
theorem lookup_tomlCurrentVersion (c : AbsCfg) : lookup "current_version".toList c.tomlOpts = some (RawVal.str c.currentVersion.s) := by lookup_opts
theorem lookup_iniVersionPattern (c : AbsCfg) : lookup "version_pattern".toList c.iniOpts = some c.versionPattern.ini := by lookup_opts
theorem lookup_tomlVersionPattern (c : AbsCfg) : lookup "version_pattern".toList c.tomlOpts = some (RawVal.str c.versionPattern.s) := by lookup_opts
theorem lookup_iniCommitMessage (c : AbsCfg) : lookup "commit_message".toList c.iniOpts = c.commitMessage.map AbsStr.ini := by lookup_opts
theorem lookup_tomlCommitMessage (c : AbsCfg) : lookup "commit_message".toList c.tomlOpts = c.commitMessage.map (fun a => RawVal.str a.s) := by lookup_opts
theorem lookup_iniTagMessage (c : AbsCfg) : lookup "tag_message".toList c.iniOpts = c.tagMessage.map AbsStr.ini := by lookup_opts
theorem lookup_tomlTagMessage (c : AbsCfg) : lookup "tag_message".toList c.tomlOpts = c.tagMessage.map (fun a => RawVal.str a.s) := by lookup_opts
theorem lookup_iniTagScope (c : AbsCfg) : lookup "tag_scope".toList c.iniOpts = c.tagScope.map AbsStr.ini := by lookup_opts
theorem lookup_tomlTagScope (c : AbsCfg) : lookup "tag_scope".toList c.tomlOpts = c.tagScope.map (fun a => RawVal.str a.s) := by lookup_opts
theorem lookup_iniPreHook (c : AbsCfg) : lookup "pre_commit_hook".toList c.iniOpts = c.preHook.map AbsStr.ini := by lookup_opts
theorem lookup_tomlPreHook (c : AbsCfg) : lookup "pre_commit_hook".toList c.tomlOpts = c.preHook.map (fun a => RawVal.str a.s) := by lookup_opts
theorem lookup_iniPostHook (c : AbsCfg) : lookup "post_commit_hook".toList c.iniOpts = c.postHook.map AbsStr.ini := by lookup_opts
theorem lookup_tomlPostHook (c : AbsCfg) : lookup "post_commit_hook".toList c.tomlOpts = c.postHook.map (fun a => RawVal.str a.s) := by lookup_opts
theorem lookup_iniCommit (c : AbsCfg) : lookup "commit".toList c.iniOpts = c.commit.map AbsBool.ini := by lookup_opts
theorem lookup_tomlCommit (c : AbsCfg) : lookup "commit".toList c.tomlOpts = c.commit.map AbsBool.toml := by lookup_opts
theorem lookup_iniTag (c : AbsCfg) : lookup "tag".toList c.iniOpts = c.tag.map AbsBool.ini := by lookup_opts
theorem lookup_tomlTag (c : AbsCfg) : lookup "tag".toList c.tomlOpts = c.tag.map AbsBool.toml := by lookup_opts
theorem lookup_iniPush (c : AbsCfg) : lookup "push".toList c.iniOpts = c.push.map AbsBool.ini := by lookup_opts
theorem lookup_tomlPush (c : AbsCfg) : lookup "push".toList c.tomlOpts = c.push.map AbsBool.toml := by lookup_opts

/-! ### the two readers' option dicts for one abstract configuration -/

/-- the INI reader's dict -/
def iniDict (c : AbsCfg) : List (Str × RawVal) :=
  iniBoolLoop (c.iniOpts.map (fun kv => (kv.1, RawVal.str kv.2)))

/-- the TOML reader's dict -/
def tomlDict (c : AbsCfg) : List (Str × RawVal) := tomlBoolLoop c.tomlOpts

theorem spellings_disjoint (x : Str) (h : falseSpellings.contains x = true) :
    Gen.trueSpellings.contains x = false := by
  simp only [falseSpellings, List.contains_cons, List.contains_nil, Bool.or_false, Bool.or_eq_true,
    beq_iff_eq] at h
  rcases h with h | h | h | h <;> subst h <;> decide

theorem AbsBool.conv_eq (a : AbsBool) (h : a.ok = true) : iniBoolConv (.str a.ini) = a.toml := by
  unfold AbsBool.ok at h
  simp only [Bool.and_eq_true, Bool.not_eq_true'] at h
  obtain ⟨hq, hs⟩ := h
  simp only [iniBoolConv, AbsBool.ini, AbsBool.toml, hq, Bool.false_eq_true, if_false]
  cases hb : a.b
  · simp only [hb, Bool.false_eq_true, if_false] at hs
    rw [spellings_disjoint _ hs]
  · simp only [hb, if_true] at hs
    rw [hs]

theorem optOk_some {α} (f : α → Bool) (a : α) (h : optOk f (some a) = true) : f a = true := h

theorem strOptDefault_eq (k d : Str) (o1 o2 : List (Str × RawVal)) (x : Option AbsStr)
    (h1 : lookup k o1 = (x.map AbsStr.ini).map RawVal.str)
    (h2 : lookup k o2 = x.map (fun a => RawVal.str a.s)) :
    strOptDefault k d o1 = strOptDefault k d o2 := by
  unfold strOptDefault
  rw [h1, h2]
  cases x <;> simp [AbsStr.ini, stripQuotes_wrap]

theorem parseCfgStrings_eq (k d : Str) (o1 o2 : List (Str × RawVal)) (x : Option AbsStr)
    (h1 : lookup k o1 = (x.map AbsStr.ini).map RawVal.str)
    (h2 : lookup k o2 = x.map (fun a => RawVal.str a.s)) :
    parseCfgStrings k d o1 = parseCfgStrings k d o2 := by
  unfold parseCfgStrings
  rw [h1, h2]
  cases x <;> simp [AbsStr.ini, stripQuotes_wrap]

theorem strReq_eq (k : Str) (o1 o2 : List (Str × RawVal)) (x : AbsStr)
    (h1 : lookup k o1 = some (RawVal.str x.ini))
    (h2 : lookup k o2 = some (RawVal.str x.s)) :
    strReq k o1 = strReq k o2 := by
  unfold strReq
  rw [h1, h2]
  simp [AbsStr.ini, stripQuotes_wrap]

theorem optVal_eq (k : Str) (d : RawVal) (o1 o2 : List (Str × RawVal)) (x : Option AbsBool)
    (hd : iniBoolConv d = d) (hx : optOk AbsBool.ok x = true)
    (h1 : lookup k o1 = some (iniBoolConv (((x.map AbsBool.ini).map RawVal.str).getD d)))
    (h2 : lookup k o2 = some ((x.map AbsBool.toml).getD d)) :
    optVal k o1 = optVal k o2 := by
  unfold optVal
  rw [h1, h2]
  cases x with
  | none => simp [hd]
  | some a => simp [AbsBool.conv_eq a (optOk_some _ _ hx)]

/-- the ten dictionary reads of `_parse_config` agree on the two dicts -/
theorem parseConfig_congr (env : CfgEnv) (o1 o2 : List (Str × RawVal)) (fp : FilePatterns)
    (h1 : strOptDefault "commit_message".toList Gen.defaultCommitMessage o1 = strOptDefault "commit_message".toList Gen.defaultCommitMessage o2)
    (h2 : strOptDefault "tag_message".toList Gen.defaultTagMessage o1 = strOptDefault "tag_message".toList Gen.defaultTagMessage o2)
    (h3 : strReq "current_version".toList o1 = strReq "current_version".toList o2)
    (h4 : strReq "version_pattern".toList o1 = strReq "version_pattern".toList o2)
    (h5 : parseCfgStrings "tag_scope".toList Gen.defaultTagScope o1 = parseCfgStrings "tag_scope".toList Gen.defaultTagScope o2)
    (h6 : parseCfgStrings "pre_commit_hook".toList [] o1 = parseCfgStrings "pre_commit_hook".toList [] o2)
    (h7 : parseCfgStrings "post_commit_hook".toList [] o1 = parseCfgStrings "post_commit_hook".toList [] o2)
    (h8 : optVal "commit".toList o1 = optVal "commit".toList o2)
    (h9 : optVal "tag".toList o1 = optVal "tag".toList o2)
    (h10 : optVal "push".toList o1 = optVal "push".toList o2) :
    parseConfig env { opts := o1, filePatterns := fp } = parseConfig env { opts := o2, filePatterns := fp } := by
  unfold parseConfig
  simp only [h1, h2, h3, h4, h5, h6, h7, h8, h9, h10]

theorem lookup_iniDict_str (c : AbsCfg) (k : Str)
    (hk1 : k ≠ "push".toList) (hk2 : k ≠ "tag".toList) (hk3 : k ≠ "commit".toList) :
    lookup k (iniDict c) = (lookup k c.iniOpts).map RawVal.str := by
  unfold iniDict
  rw [lookup_iniBoolLoop, if_neg hk1, if_neg hk2, if_neg hk3, lookup_mapVal]

theorem lookup_tomlDict_str (c : AbsCfg) (k : Str)
    (hk1 : k ≠ "push".toList) (hk2 : k ≠ "tag".toList) (hk3 : k ≠ "commit".toList) :
    lookup k (tomlDict c) = lookup k c.tomlOpts := by
  unfold tomlDict
  rw [lookup_tomlBoolLoop, if_neg hk1, if_neg hk2, if_neg hk3]

/-- for a configuration without quoted booleans and with conventional spellings the two
    dicts are read to the same settings -/
theorem parseConfig_dicts (env : CfgEnv) (c : AbsCfg) (fp : FilePatterns)
    (hc : optOk AbsBool.ok c.commit = true) (ht : optOk AbsBool.ok c.tag = true)
    (hp : optOk AbsBool.ok c.push = true) :
    parseConfig env { opts := iniDict c, filePatterns := fp } =
    parseConfig env { opts := tomlDict c, filePatterns := fp } := by
  apply parseConfig_congr
  · apply strOptDefault_eq _ _ _ _ c.commitMessage
    · rw [lookup_iniDict_str c _ (by decide) (by decide) (by decide), lookup_iniCommitMessage]
    · rw [lookup_tomlDict_str c _ (by decide) (by decide) (by decide), lookup_tomlCommitMessage]
  · apply strOptDefault_eq _ _ _ _ c.tagMessage
    · rw [lookup_iniDict_str c _ (by decide) (by decide) (by decide), lookup_iniTagMessage]
    · rw [lookup_tomlDict_str c _ (by decide) (by decide) (by decide), lookup_tomlTagMessage]
  · apply strReq_eq _ _ _ c.currentVersion
    · rw [lookup_iniDict_str c _ (by decide) (by decide) (by decide), lookup_iniCurrentVersion]; rfl
    · rw [lookup_tomlDict_str c _ (by decide) (by decide) (by decide), lookup_tomlCurrentVersion]
  · apply strReq_eq _ _ _ c.versionPattern
    · rw [lookup_iniDict_str c _ (by decide) (by decide) (by decide), lookup_iniVersionPattern]; rfl
    · rw [lookup_tomlDict_str c _ (by decide) (by decide) (by decide), lookup_tomlVersionPattern]
  · apply parseCfgStrings_eq _ _ _ _ c.tagScope
    · rw [lookup_iniDict_str c _ (by decide) (by decide) (by decide), lookup_iniTagScope]
    · rw [lookup_tomlDict_str c _ (by decide) (by decide) (by decide), lookup_tomlTagScope]
  · apply parseCfgStrings_eq _ _ _ _ c.preHook
    · rw [lookup_iniDict_str c _ (by decide) (by decide) (by decide), lookup_iniPreHook]
    · rw [lookup_tomlDict_str c _ (by decide) (by decide) (by decide), lookup_tomlPreHook]
  · apply parseCfgStrings_eq _ _ _ _ c.postHook
    · rw [lookup_iniDict_str c _ (by decide) (by decide) (by decide), lookup_iniPostHook]
    · rw [lookup_tomlDict_str c _ (by decide) (by decide) (by decide), lookup_tomlPostHook]
  · apply optVal_eq _ (.bool false) _ _ c.commit rfl hc
    · unfold iniDict
      rw [lookup_iniBoolLoop, if_neg (by decide), if_neg (by decide), if_pos rfl, lookup_mapVal, lookup_iniCommit]
    · unfold tomlDict
      rw [lookup_tomlBoolLoop, if_neg (by decide), if_neg (by decide), if_pos rfl, lookup_tomlCommit]
  · apply optVal_eq _ .none _ _ c.tag rfl ht
    · unfold iniDict
      rw [lookup_iniBoolLoop, if_neg (by decide), if_pos rfl, lookup_mapVal, lookup_iniTag]
    · unfold tomlDict
      rw [lookup_tomlBoolLoop, if_neg (by decide), if_pos rfl, lookup_tomlTag]
  · apply optVal_eq _ .none _ _ c.push rfl hp
    · unfold iniDict
      rw [lookup_iniBoolLoop, if_pos rfl, lookup_mapVal, lookup_iniPush]
    · unfold tomlDict
      rw [lookup_tomlBoolLoop, if_pos rfl, lookup_tomlPush]

/-! ### the multi-line value of an INI `file_patterns` option splits back into its patterns -/

theorem splitlinesGo_noBreak (p : Str) (hp : hasLineBreak p = false) (cur rest : Str) :
    splitlinesGo false cur (p ++ rest) = splitlinesGo false (p.reverse ++ cur) rest := by
  induction p generalizing cur with
  | nil => rfl
  | cons a t ih =>
    simp only [hasLineBreak, List.any_cons, Bool.or_eq_false_iff] at hp
    obtain ⟨ha, ht⟩ := hp
    have hr : (a == '\r') = false := by
      cases h : (a == '\r')
      · rfl
      · have : a = '\r' := by simpa using h
        subst this
        exact absurd ha (by decide)
    rw [List.cons_append, splitlinesGo]
    simp only [Bool.and_false, Bool.false_eq_true, if_false, hr, ha]
    rw [ih (by simpa [hasLineBreak] using ht)]
    simp

theorem splitlinesGo_newline (cur rest : Str) :
    splitlinesGo false cur ('\n' :: rest) = cur.reverse :: splitlinesGo false [] rest := by
  rw [splitlinesGo]
  simp only [Bool.and_false, Bool.false_eq_true, if_false]
  rw [if_neg (by decide), if_pos (by decide)]

/-- strip every line, drop the empty ones -/
def cleanLines (l : List Str) : List Str := (l.map strip).filter (fun p => !p.isEmpty)

theorem cleanLines_cons (p : Str) (l : List Str) :
    cleanLines (p :: l) = (if (strip p).isEmpty then [] else [strip p]) ++ cleanLines l := by
  unfold cleanLines
  cases h : (strip p).isEmpty <;> simp [h]

theorem strip_nil : strip [] = [] := rfl

theorem cleanLines_splitlines_join (ps : List Str) (h : ∀ p ∈ ps, hasLineBreak p = false) :
    cleanLines (pySplitlines (join "\n".toList ps)) = cleanLines ps := by
  induction ps with
  | nil => rfl
  | cons p rest ih =>
    have hp := h p (by simp)
    cases rest with
    | nil =>
      show cleanLines (splitlinesGo false [] p) = cleanLines [p]
      have := splitlinesGo_noBreak p hp [] []
      rw [List.append_nil, List.append_nil] at this
      rw [this, splitlinesGo]
      cases p with
      | nil => rfl
      | cons a t => simp
    | cons q rest' =>
      have ih' := ih (fun x hx => h x (by simp [hx]))
      show cleanLines (splitlinesGo false [] (p ++ "\n".toList ++ join "\n".toList (q :: rest'))) = _
      rw [List.append_assoc, splitlinesGo_noBreak p hp]
      show cleanLines (splitlinesGo false (p.reverse ++ []) ('\n' :: join "\n".toList (q :: rest'))) = _
      rw [splitlinesGo_newline, cleanLines_cons, cleanLines_cons p]
      simp only [List.append_nil, List.reverse_reverse]
      rw [show splitlinesGo false [] (join "\n".toList (q :: rest')) = pySplitlines (join "\n".toList (q :: rest')) from rfl, ih']

theorem cleanLines_of_ok (ps : List Str) (h : ps.all patternOk = true) : cleanLines ps = ps := by
  induction ps with
  | nil => rfl
  | cons p rest ih =>
    simp only [List.all_cons, Bool.and_eq_true] at h
    obtain ⟨hp, hr⟩ := h
    simp only [patternOk, Bool.and_eq_true, Bool.not_eq_true', beq_iff_eq] at hp
    obtain ⟨⟨⟨⟨hne, hs⟩, _⟩, _⟩, _⟩ := hp
    rw [cleanLines_cons, hs, hne, ih hr]
    simp

theorem patternOk_noBreak (p : Str) (h : patternOk p = true) : hasLineBreak p = false := by
  simp only [patternOk, Bool.and_eq_true, Bool.not_eq_true', beq_iff_eq] at h
  exact h.1.1.2

theorem iniPatternLines_iniValue (f : AbsFile) (h : f.patterns.all patternOk = true) :
    iniPatternLines f.iniValue = f.patterns := by
  have hnb : ∀ p ∈ f.patterns, hasLineBreak p = false := by
    intro p hp
    exact patternOk_noBreak p (List.all_eq_true.mp h p hp)
  show cleanLines (pySplitlines f.iniValue) = f.patterns
  unfold AbsFile.iniValue
  split
  · rw [cleanLines_splitlines_join _ hnb, cleanLines_of_ok _ h]
  · rw [cleanLines_splitlines_join ([] :: f.patterns)
      (by
        intro p hp
        rcases List.mem_cons.mp hp with rfl | hp
        · rfl
        · exact hnb p hp),
      cleanLines_cons, strip_nil, cleanLines_of_ok _ h]
    rfl

/-! ### what the two readers return for the renderings of one abstract configuration -/

/-- the `file_patterns` both readers should arrive at -/
def AbsCfg.filePatterns (c : AbsCfg) : FilePatterns := c.files.map (fun f => (f.name, f.patterns))

theorem map_iniPatternLines (fs : List AbsFile) (h : ∀ f ∈ fs, f.patterns.all patternOk = true) :
    (fs.map (fun f => (f.name, f.iniValue))).map (fun kv => (kv.1, iniPatternLines kv.2)) =
    fs.map (fun f => (f.name, f.patterns)) := by
  induction fs with
  | nil => rfl
  | cons f rest ih =>
    simp only [List.map_cons]
    rw [iniPatternLines_iniValue f (h f (by simp)), ih (fun g hg => h g (by simp [hg]))]

theorem iniRaw_sections (legacy : Bool) (c : AbsCfg) :
    (iniRaw legacy c).sections =
      ((if legacy then "pycalver".toList else "bumpver".toList), c.iniOpts) ::
      (if c.files.isEmpty then []
       else [((if legacy then "pycalver:file_patterns".toList else "bumpver:file_patterns".toList),
              c.files.map (fun f => (f.name, f.iniValue)))]) := by
  cases legacy <;> rfl

theorem iniFilePatterns_iniRaw (legacy : Bool) (c : AbsCfg)
    (h : ∀ f ∈ c.files, f.patterns.all patternOk = true) :
    iniFilePatterns (iniRaw legacy c) = c.filePatterns := by
  unfold AbsCfg.filePatterns iniFilePatterns
  rw [iniRaw_sections]
  cases hf : c.files.isEmpty
  · cases legacy
    · rw [if_neg (by decide), if_neg (by decide), if_neg (by decide),
        lookup_cons, if_neg (by decide), lookup_cons, if_neg (by decide), lookup_nil]
      simp only []
      rw [lookup_cons, if_neg (by decide), lookup_cons, if_pos rfl]
      exact map_iniPatternLines _ h
    · rw [if_pos rfl, if_neg (by decide), if_pos rfl,
        lookup_cons, if_neg (by decide), lookup_cons, if_pos rfl]
      exact map_iniPatternLines _ h
  · have hnil : c.files = [] := by simpa using hf
    rw [hnil]
    cases legacy
    · rw [if_neg (by decide), if_pos rfl, lookup_cons, if_neg (by decide), lookup_nil]
      simp only []
      rw [lookup_cons, if_neg (by decide), lookup_nil]
      rfl
    · rw [if_pos rfl, if_pos rfl, lookup_cons, if_neg (by decide), lookup_nil]
      simp only []
      rw [lookup_cons, if_neg (by decide), lookup_nil]
      rfl

theorem setRawConfigDefaults_iniDict (c : AbsCfg) : setRawConfigDefaults (iniDict c) = .ok () := by
  unfold setRawConfigDefaults
  rw [lookup_iniDict_str c _ (by decide) (by decide) (by decide), lookup_iniVersionPattern,
    lookup_iniDict_str c _ (by decide) (by decide) (by decide), lookup_iniCurrentVersion]
  rfl

theorem setRawConfigDefaults_tomlDict (c : AbsCfg) : setRawConfigDefaults (tomlDict c) = .ok () := by
  unfold setRawConfigDefaults
  rw [lookup_tomlDict_str c _ (by decide) (by decide) (by decide), lookup_tomlVersionPattern,
    lookup_tomlDict_str c _ (by decide) (by decide) (by decide), lookup_tomlCurrentVersion]

theorem iniMainSection_iniRaw (legacy : Bool) (c : AbsCfg) :
    iniMainSection (iniRaw legacy c) = some c.iniOpts := by
  unfold iniMainSection
  rw [iniRaw_sections]
  cases legacy
  · rw [if_neg (by decide), lookup_cons, if_neg (by decide), lookup_cons, if_pos rfl]
    cases c.files.isEmpty
    · rw [if_neg (by decide), if_neg (by decide), lookup_cons, if_neg (by decide), lookup_nil]
    · rw [if_pos rfl, lookup_nil]
  · rw [if_pos rfl, lookup_cons, if_pos rfl]

theorem parseCfgPost_iniRaw (legacy : Bool) (c : AbsCfg)
    (h : ∀ f ∈ c.files, f.patterns.all patternOk = true) :
    parseCfgPost (iniRaw legacy c) = .ok { opts := iniDict c, filePatterns := c.filePatterns } := by
  have h1 := setRawConfigDefaults_iniDict c
  unfold iniDict at h1
  unfold parseCfgPost
  rw [iniMainSection_iniRaw]
  simp only [h1, iniFilePatterns_iniRaw legacy c h]
  rfl

theorem tomlMainSection_tomlRaw (place : TomlPlace) (c : AbsCfg) :
    tomlMainSection (tomlRaw place c) =
      { opts := c.tomlOpts,
        filePatterns := if c.files.isEmpty then .none else some (c.files.map (fun f => (f.name, f.patterns))) } := by
  cases place <;> rfl

theorem parseTomlPost_tomlRaw (place : TomlPlace) (c : AbsCfg) :
    parseTomlPost (tomlRaw place c) = .ok { opts := tomlDict c, filePatterns := c.filePatterns } := by
  have hfp : (if c.files.isEmpty then (none : Option FilePatterns)
      else some (c.files.map (fun f => (f.name, f.patterns)))).getD [] = c.filePatterns := by
    unfold AbsCfg.filePatterns
    cases hf : c.files.isEmpty
    · simp
    · have : c.files = [] := by simpa using hf
      simp [this]
  have h1 := setRawConfigDefaults_tomlDict c
  unfold tomlDict at h1
  unfold parseTomlPost
  rw [tomlMainSection_tomlRaw]
  simp only [h1, hfp]
  rfl

/-! ### `Except` plumbing -/

theorem bind_ok {ε α β} (x : Except ε α) (f : α → Except ε β) (b : β) (h : (x >>= f) = .ok b) :
    ∃ a, x = .ok a ∧ f a = .ok b := by
  cases x with
  | error e => cases h
  | ok a => exact ⟨a, rfl, h⟩

/-! ### merging file patterns by path keeps every pattern -/

/-- the file `f` is listed with (at least) the patterns `ps` -/
def hasPats (f : Str) (ps : List Str) (l : FilePatterns) : Prop :=
  ∃ qs, lookup f l = some qs ∧ ∀ p ∈ ps, p ∈ qs

theorem lookup_mem {α} (k : Str) (v : α) (l : List (Str × α)) (h : lookup k l = some v) : (k, v) ∈ l := by
  induction l with
  | nil => simp [lookup_nil] at h
  | cons hd t ih =>
    obtain ⟨k', v'⟩ := hd
    rw [lookup_cons] at h
    by_cases hk : k = k'
    · subst hk
      rw [if_pos rfl] at h
      cases h
      simp
    · rw [if_neg hk] at h
      exact List.mem_cons_of_mem _ (ih h)

theorem mergeInto_mono (acc : FilePatterns) (item : Str × List Str) (f : Str) (ps : List Str)
    (h : hasPats f ps acc) : hasPats f ps (mergeInto acc item) := by
  obtain ⟨qs, hq, hsub⟩ := h
  unfold mergeInto
  cases hl : lookup item.1 acc with
  | none =>
    refine ⟨qs, ?_, hsub⟩
    simp only []
    rw [lookup_append, hq]
    rfl
  | some old =>
    simp only []
    by_cases hf : f = item.1
    · subst hf
      rw [hq] at hl
      cases hl
      refine ⟨qs ++ item.2, ?_, fun p hp => List.mem_append_left _ (hsub p hp)⟩
      rw [lookup_setOpt, if_pos rfl]
    · refine ⟨qs, ?_, hsub⟩
      rw [lookup_setOpt, if_neg hf, hq]

theorem mergeInto_self (acc : FilePatterns) (item : Str × List Str) :
    hasPats item.1 item.2 (mergeInto acc item) := by
  unfold mergeInto
  cases hl : lookup item.1 acc with
  | none =>
    refine ⟨item.2, ?_, fun p hp => hp⟩
    simp only []
    rw [lookup_append, hl]
    obtain ⟨k, v⟩ := item
    simp [lookup_cons]
  | some old =>
    refine ⟨old ++ item.2, ?_, fun p hp => List.mem_append_right _ hp⟩
    simp only []
    rw [lookup_setOpt, if_pos rfl]

theorem foldl_mergeInto (items : FilePatterns) (acc : FilePatterns) (f : Str) (ps : List Str)
    (h : (f, ps) ∈ items ∨ hasPats f ps acc) : hasPats f ps (items.foldl mergeInto acc) := by
  induction items generalizing acc with
  | nil =>
    rcases h with h | h
    · cases h
    · exact h
  | cons it rest ih =>
    rw [List.foldl_cons]
    apply ih
    rcases h with h | h
    · rcases List.mem_cons.mp h with h | h
      · right
        rw [← h]
        exact mergeInto_self acc (f, ps)
      · left; exact h
    · right; exact mergeInto_mono acc it f ps h

theorem mem_iterGlobExpanded (glob : Str → List Str) (fps : FilePatterns) (g : Str) (pats : List Str)
    (hm : (g, pats) ∈ fps) (hg : glob g = [] ∨ g ∈ glob g) : (g, pats) ∈ iterGlobExpanded glob fps := by
  induction fps with
  | nil => cases hm
  | cons hd rest ih =>
    obtain ⟨g', pats'⟩ := hd
    rw [iterGlobExpanded]
    rcases List.mem_cons.mp hm with h | h
    · cases h
      apply List.mem_append_left
      rcases hg with hg | hg
      · rw [hg]; simp
      · cases hgl : glob g with
        | nil => rw [hgl] at hg; cases hg
        | cons a t =>
          simp only []
          rw [← hgl]
          exact List.mem_map.mpr ⟨g, hg, rfl⟩
    · exact List.mem_append_right _ (ih h)

theorem compileFilePatterns_ok (env : CfgEnv) (isNew : Bool) (vp : Str) (fps r : FilePatterns)
    (h : compileFilePatterns env isNew vp fps = .ok r) :
    r = (iterGlobExpanded env.glob fps).foldl mergeInto [] := by
  unfold compileFilePatterns at h
  simp only [] at h
  split at h
  · cases h
  · cases h; rfl

/-! ## C19 -/

/-! ### `str.format` on the base templates: the initial version is inserted verbatim -/

/-- replace the placeholder character by a string -/
def substPh (ph : Char) (iv : Str) (s : Str) : Str := s.flatMap (fun c => if c == ph then iv else [c])

theorem substPh_append (ph : Char) (iv a b : Str) : substPh ph iv (a ++ b) = substPh ph iv a ++ substPh ph iv b := by
  simp [substPh]

theorem substPh_cons_ne (ph : Char) (iv : Str) (c : Char) (s : Str) (h : c ≠ ph) :
    substPh ph iv (c :: s) = c :: substPh ph iv s := by
  simp [substPh, h]

theorem substPh_none (ph : Char) (iv s : Str) (h : s.contains ph = false) : substPh ph iv s = s := by
  induction s with
  | nil => rfl
  | cons c t ih =>
    simp only [List.contains_cons, Bool.or_eq_false_iff] at h
    have hc : c ≠ ph := by
      intro e; subst e; simp at h
    rw [substPh_cons_ne _ _ _ _ hc, ih h.2]

def substKw (ph : Char) (iv : Str) (kw : List (Str × Str)) : List (Str × Str) :=
  kw.map (fun kv => (kv.1, substPh ph iv kv.2))

theorem map_map_except {ε α β γ} (x : Except ε α) (f : α → β) (g : β → γ) :
    (x.map f).map g = x.map (g ∘ f) := by
  cases x <;> rfl

theorem fmtGo_subst (ph : Char) (iv : Str) (kw : List (Str × Str)) (st : FState) (t : Str)
    (ht : t.contains ph = false) :
    fmtGo (substKw ph iv kw) st t = (fmtGo kw st t).map (substPh ph iv) := by
  induction t generalizing st with
  | nil => cases st <;> rfl
  | cons c r ih =>
    simp only [List.contains_cons, Bool.or_eq_false_iff] at ht
    obtain ⟨hc0, hr⟩ := ht
    have hc : c ≠ ph := by
      intro e; subst e; simp at hc0
    cases st with
    | text =>
      rw [fmtGo, fmtGo]
      split
      · exact ih _ hr
      · split
        · exact ih _ hr
        · rw [ih _ hr, map_map_except, map_map_except]
          congr 1
          funext x
          exact (substPh_cons_ne ph iv c x hc).symm
    | open_ =>
      rw [fmtGo, fmtGo]
      split
      · rename_i h
        have : c = '{' := by simpa using h
        subst this
        rw [ih _ hr, map_map_except, map_map_except]
        congr 1
        funext x
        exact (substPh_cons_ne ph iv _ x hc).symm
      · split
        · rfl
        · exact ih _ hr
    | close_ =>
      rw [fmtGo, fmtGo]
      split
      · rename_i h
        have : c = '}' := by simpa using h
        subst this
        rw [ih _ hr, map_map_except, map_map_except]
        congr 1
        funext x
        exact (substPh_cons_ne ph iv _ x hc).symm
      · rfl
    | field acc =>
      rw [fmtGo, fmtGo]
      split
      · simp only []
        split
        · rfl
        · have hl : lookup acc.reverse (substKw ph iv kw) = (lookup acc.reverse kw).map (substPh ph iv) :=
            lookup_mapVal _ _ _
          rw [hl]
          cases lookup acc.reverse kw with
          | none => rfl
          | some v =>
            simp only [Option.map_some]
            rw [ih _ hr, map_map_except, map_map_except]
            congr 1
            funext x
            exact (substPh_append ph iv v x).symm
      · exact ih _ hr

/-- a character that occurs in no template: stands for the initial version while the template is
    formatted by evaluation -/
def phChar : Char := Char.ofNat 0

def kwOf (iv : Str) : List (Str × Str) :=
  [("initial_version".toList, iv), ("default_tag_scope".toList, Gen.defaultTagScope)]

theorem substPh_self (ph : Char) (iv : Str) : substPh ph iv [ph] = iv := by
  simp [substPh]

theorem kwOf_subst (iv : Str) : kwOf iv = substKw phChar iv (kwOf [phChar]) := by
  have h : substPh phChar iv Gen.defaultTagScope = Gen.defaultTagScope := substPh_none _ _ _ (by decide)
  simp only [kwOf, substKw, List.map_cons, List.map_nil, substPh_self, h]

def headOf (base : Str) : Str :=
  match pyFormat (kwOf [phChar]) base with
  | .ok s => s
  | .error _ => []

/-- the formatted base template before / after the initial version -/
def preOf (base : Str) : Str := (headOf base).takeWhile (· != phChar)
def postOf (base : Str) : Str := ((headOf base).dropWhile (· != phChar)).drop 1

def baseOk (base : Str) : Bool :=
  decide (pyFormat (kwOf [phChar]) base = .ok (preOf base ++ [phChar] ++ postOf base)) &&
  !base.contains phChar && !(preOf base).contains phChar && !(postOf base).contains phChar

theorem format_base (base : Str) (hb : baseOk base = true) (iv : Str) :
    pyFormat (kwOf iv) base = .ok (preOf base ++ iv ++ postOf base) := by
  simp only [baseOk, Bool.and_eq_true, decide_eq_true_eq, Bool.not_eq_true'] at hb
  obtain ⟨⟨⟨h1, h2⟩, h3⟩, h4⟩ := hb
  rw [kwOf_subst, pyFormat, fmtGo_subst _ _ _ _ _ h2]
  rw [show fmtGo (kwOf [phChar]) .text base = pyFormat (kwOf [phChar]) base from rfl, h1]
  show Except.ok (substPh phChar iv (preOf base ++ [phChar] ++ postOf base)) = _
  rw [substPh_append, substPh_append, substPh_self, substPh_none _ _ _ h3, substPh_none _ _ _ h4]

theorem baseOk_cfg : baseOk Gen.baseTmplCfg = true := by decide +kernel
theorem baseOk_pyproject : baseOk Gen.baseTmplPyproject = true := by decide +kernel
theorem baseOk_toml : baseOk Gen.baseTmplToml = true := by decide +kernel

/-- the base template `default_config` picks for the config file `name` -/
def baseOf (name : Str) : Str :=
  if configFormat name == "cfg".toList then Gen.baseTmplCfg
  else if name == "pyproject.toml".toList then Gen.baseTmplPyproject
  else Gen.baseTmplToml

theorem baseOk_baseOf (name : Str) : baseOk (baseOf name) = true := by
  unfold baseOf
  split
  · exact baseOk_cfg
  · split
    · exact baseOk_pyproject
    · exact baseOk_toml

/-- the `default_pattern_strs_by_filename` dict of the config file's format -/
def tableOf (name : Str) : List (Str × Str) :=
  if configFormat name == "cfg".toList then Gen.defaultPatternStrsCfg else Gen.defaultPatternStrsToml

/-- the entry `default_config` adds when no supported config file exists -/
def fallbackOf (name : Str) : Str :=
  if configFormat name == "cfg".toList then Gen.fallbackStrCfg else Gen.fallbackStrToml

/-- what `default_config` appends after the formatted base template -/
def tailOf (w : World) (name : Str) : Str :=
  appendExisting w (tableOf name) ++
  ((if Gen.supportedConfigs.any (fun f => w.exists_ f) then [] else fallbackOf name) ++ "\n".toList)

theorem defaultConfigText_eq (w : World) (name iv : Str)
    (hfmt : (configFormat name == "cfg".toList || configFormat name == "toml".toList) = true) :
    defaultConfigText w name iv = .ok (preOf (baseOf name) ++ iv ++ postOf (baseOf name) ++ tailOf w name) := by
  have hb := format_base (baseOf name) (baseOk_baseOf name) iv
  unfold defaultConfigText
  have hne : (!(configFormat name == "cfg".toList) && !(configFormat name == "toml".toList)) = false := by
    cases h1 : configFormat name == "cfg".toList <;> cases h2 : configFormat name == "toml".toList <;> simp_all
  simp only [hne, Bool.false_eq_true, if_false]
  show (match pyFormat (kwOf iv) (baseOf name) with
    | Except.error e => Except.error (InitErr.fmt e)
    | Except.ok head => Except.ok (head ++ _ ++ _ ++ "\n".toList)) = _
  rw [hb]
  simp only [tailOf, tableOf, fallbackOf, List.append_assoc]

/-! ### substring search -/

theorem isPrefixOf_append_self (p c : Str) : p.isPrefixOf (p ++ c) = true := by
  induction p with
  | nil => simp
  | cons a t ih => simp [ih]

theorem isInfix_of_decomp (pat a c : Str) : isInfix pat (a ++ pat ++ c) = true := by
  unfold isInfix
  induction a with
  | nil =>
    cases hp : pat ++ c with
    | nil =>
      have : pat = [] := by
        cases pat with
        | nil => rfl
        | cons x t => simp at hp
      subst this
      simp [hp, findIdx]
    | cons x t =>
      simp only [List.nil_append, hp]
      rw [findIdx, if_pos (by rw [← hp]; exact isPrefixOf_append_self pat c)]
      rfl
  | cons x a' ih =>
    simp only [List.cons_append]
    rw [findIdx]
    split
    · rfl
    · simp only [List.append_assoc] at ih ⊢
      cases h : findIdx pat (a' ++ (pat ++ c)) with
      | none => rw [h] at ih; cases ih
      | some n => rfl

theorem isInfix_mid (pat a b c : Str) (h : isInfix pat b = true) : isInfix pat (a ++ b ++ c) = true := by
  -- b = b1 ++ pat ++ b2
  have hb : ∃ b1 b2, b = b1 ++ pat ++ b2 := by
    unfold isInfix at h
    clear a c
    induction b with
    | nil =>
      rw [findIdx] at h
      split at h
      · rename_i hp
        have : pat = [] := by simpa using hp
        exact ⟨[], [], by simp [this]⟩
      · cases h
    | cons x t ih =>
      rw [findIdx] at h
      split at h
      · rename_i hp
        obtain ⟨r, hr⟩ := List.isPrefixOf_iff_prefix.mp hp
        exact ⟨[], r, by simp [hr]⟩
      · cases hf : findIdx pat t with
        | none => rw [hf] at h; cases h
        | some n =>
          obtain ⟨b1, b2, hb⟩ := ih (by rw [hf]; rfl)
          exact ⟨x :: b1, b2, by simp [hb]⟩
  obtain ⟨b1, b2, rfl⟩ := hb
  have := isInfix_of_decomp pat (a ++ b1) (b2 ++ c)
  simpa [List.append_assoc] using this

/-! ### `List.find?` when one element's verdict changes to true -/

theorem find?_or_eq_of_some {α} [DecidableEq α] (p p' : α → Bool) (x : α) (l : List α)
    (hp' : ∀ a, p' a = (p a || decide (a = x))) (h : l.find? p = some x) : l.find? p' = some x := by
  induction l with
  | nil => cases h
  | cons a t ih =>
    rw [List.find?_cons] at h ⊢
    cases hpa : p a
    · rw [hpa] at h
      by_cases hax : a = x
      · subst hax
        simp [hp', hpa]
      · have : p' a = false := by simp [hp', hpa, hax]
        rw [this]
        exact ih h
    · rw [hpa] at h
      cases h
      simp [hp', hpa]

theorem find?_or_eq_of_none {α} [DecidableEq α] (p p' : α → Bool) (x : α) (l : List α)
    (hp' : ∀ a, p' a = (p a || decide (a = x))) (h : l.find? p = none) (hx : x ∈ l) : l.find? p' = some x := by
  induction l with
  | nil => cases hx
  | cons a t ih =>
    rw [List.find?_cons] at h ⊢
    cases hpa : p a
    · rw [hpa] at h
      by_cases hax : a = x
      · subst hax
        simp [hp', hpa]
      · have : p' a = false := by simp [hp', hpa, hax]
        rw [this]
        rcases List.mem_cons.mp hx with h' | h'
        · exact absurd h'.symm hax
        · exact ih h h'
    · rw [hpa] at h
      cases h

/-! ### picking the config file -/

theorem configFallback_mem : Gen.configFallback ∈ Gen.configCandidates := by decide

theorem pick_mem (w : World) : pickConfigFile w ∈ Gen.configCandidates := by
  unfold pickConfigFile
  split
  · rename_i f h
    exact List.mem_of_find?_eq_some h
  · split
    · rename_i f h
      exact List.mem_of_find?_eq_some h
    · exact configFallback_mem

/-- the picked file exists, or nothing exists and it is the fallback -/
theorem pick_exists_or_fallback (w : World) :
    w.exists_ (pickConfigFile w) = true ∨
    (pickConfigFile w = Gen.configFallback ∧ ∀ f ∈ Gen.configCandidates, w.exists_ f = false) := by
  unfold pickConfigFile
  split
  · rename_i f h
    left
    have := List.find?_some h
    have hs : w f = .hasSection := by simpa using this
    simp [World.exists_, hs]
  · split
    · rename_i f h
      left
      exact List.find?_some h
    · rename_i h
      right
      refine ⟨rfl, fun f hf => ?_⟩
      have := List.find?_eq_none.mp h f hf
      simpa using this

/-- once the picked file holds a section and nothing else changed, it is picked again -/
theorem pick_stable (w w' : World) (hsame : ∀ g, g ≠ pickConfigFile w → w' g = w g)
    (hsec : w' (pickConfigFile w) = .hasSection) : pickConfigFile w' = pickConfigFile w := by
  have hp' : ∀ a, (w' a == FileState.hasSection) = ((w a == FileState.hasSection) || decide (a = pickConfigFile w)) := by
    intro a
    by_cases ha : a = pickConfigFile w
    · subst ha
      simp [hsec]
    · rw [hsame a ha]
      simp [ha]
  have hfirst : Gen.configCandidates.find? (fun f => w' f == .hasSection) = some (pickConfigFile w) := by
    cases hf : Gen.configCandidates.find? (fun f => w f == .hasSection) with
    | some f =>
      have hpick : pickConfigFile w = f := by
        unfold pickConfigFile
        rw [hf]
      rw [hpick] at hp' ⊢
      exact find?_or_eq_of_some _ _ f _ hp' hf
    | none => exact find?_or_eq_of_none _ _ _ _ hp' hf (pick_mem w)
  show (match Gen.configCandidates.find? (fun f => w' f == .hasSection) with
    | some f => f
    | none => _) = _
  rw [hfirst]

/-! ### the written file is recognised as holding a section -/

theorem markers_in_pre :
    ∀ base ∈ [Gen.baseTmplCfg, Gen.baseTmplPyproject, Gen.baseTmplToml],
      isInfix "bumpver]".toList (preOf base) = true ∧ isInfix "current_version".toList (preOf base) = true := by
  decide +kernel

theorem markers_in_pre_baseOf (name : Str) :
    isInfix "bumpver]".toList (preOf (baseOf name)) = true ∧
    isInfix "current_version".toList (preOf (baseOf name)) = true := by
  apply markers_in_pre
  unfold baseOf
  split
  · simp
  · split <;> simp

theorem classify_hasSection (d : Str) (h1 : isInfix "bumpver]".toList d = true)
    (h2 : isInfix "current_version".toList d = true) : classify (some d) = .hasSection := by
  cases d with
  | nil => exact absurd h1 (by decide)
  | cons c t =>
    show (if (isInfix "bumpver]".toList (c :: t) || isInfix "pycalver]".toList (c :: t)) &&
        isInfix "current_version".toList (c :: t) then FileState.hasSection else FileState.unrelated) = _
    rw [h1, h2]
    rfl

theorem candidates_format :
    ∀ f ∈ Gen.configCandidates, (configFormat f == "cfg".toList || configFormat f == "toml".toList) = true := by
  decide


/-! ### lines of a concatenation of newline-terminated chunks -/

/-- the lines completed while scanning `a`, and the unfinished last line (reversed) -/
def scanLines : Str → Str → List Str × Str
  | cur, [] => ([], cur)
  | cur, c :: r =>
    if isLineBreak c then ((cur.reverse :: (scanLines [] r).1), (scanLines [] r).2)
    else scanLines (c :: cur) r

theorem splitlinesGo_append (a b cur : Str) (ha : a.contains '\r' = false) :
    splitlinesGo false cur (a ++ b) = (scanLines cur a).1 ++ splitlinesGo false (scanLines cur a).2 b := by
  induction a generalizing cur with
  | nil => rfl
  | cons c r ih =>
    simp only [List.contains_cons, Bool.or_eq_false_iff] at ha
    obtain ⟨hc, hr⟩ := ha
    have hcr : (c == '\r') = false := by
      cases h : (c == '\r')
      · rfl
      · have : c = '\r' := by simpa using h
        subst this
        simp at hc
    rw [List.cons_append, splitlinesGo, scanLines]
    simp only [Bool.and_false, Bool.false_eq_true, if_false, hcr]
    split
    · simp only [List.cons_append]
      rw [ih _ hr]
    · exact ih _ hr

/-- a chunk without `\r` whose last line is terminated -/
def completeB (a : Str) : Bool := !a.contains '\r' && (scanLines [] a).2.isEmpty

theorem pySplitlines_append (a b : Str) (h : completeB a = true) :
    pySplitlines (a ++ b) = pySplitlines a ++ pySplitlines b := by
  simp only [completeB, Bool.and_eq_true, Bool.not_eq_true', List.isEmpty_iff] at h
  obtain ⟨h1, h2⟩ := h
  have e1 := splitlinesGo_append a b [] h1
  have e2 := splitlinesGo_append a [] [] h1
  rw [h2] at e1 e2
  rw [List.append_nil] at e2
  unfold pySplitlines
  rw [e1, e2]
  simp [splitlinesGo]

theorem pySplitlines_appendExisting (w : World) (table : List (Str × Str))
    (h : ∀ kv ∈ table, completeB kv.2 = true) (b : Str) :
    pySplitlines (appendExisting w table ++ b) =
      (table.filter (fun kv => w.exists_ kv.1)).flatMap (fun kv => pySplitlines kv.2) ++ pySplitlines b := by
  induction table with
  | nil => rfl
  | cons kv rest ih =>
    obtain ⟨f, c⟩ := kv
    have hrest := ih (fun kv hkv => h kv (by simp [hkv]))
    rw [appendExisting]
    cases hf : w.exists_ f
    · simp only [Bool.false_eq_true, if_false, List.nil_append, List.filter_cons, hf]
      exact hrest
    · simp only [if_true, List.filter_cons, hf, List.flatMap_cons, List.append_assoc]
      rw [pySplitlines_append c _ (h (f, c) (by simp)), hrest]

/-! ### what "well-formed" means for the default text -/

/-- the one section header of the dialect: `[tool.bumpver]` in pyproject.toml, `[bumpver]` elsewhere -/
def sectionHeader (name : Str) : Str :=
  if name == "pyproject.toml".toList then "[tool.bumpver]".toList else "[bumpver]".toList

/-- the header of the file_patterns table in the dialect of the config file -/
def patternsHeader (name : Str) : Str :=
  if configFormat name == "cfg".toList then "[bumpver:file_patterns]".toList
  else if name == "pyproject.toml".toList then "[tool.bumpver.file_patterns]".toList
  else "[bumpver.file_patterns]".toList

/-- the first line of the file_patterns entry for the config file itself -/
def selfEntry (name : Str) : Str :=
  if configFormat name == "cfg".toList then name ++ " =".toList
  else "\"".toList ++ name ++ "\" = [".toList

/-- a line carrying the search pattern for the config file's own `current_version` line -/
def isVersionPatternLine (l : Str) : Bool := isInfix "current_version = \"{version}\"".toList l

/-- the lines after the `current_version` line: no further config-section header; the
    file_patterns table of the dialect; after its header an entry for the config file itself whose
    first pattern is the `current_version` pattern -/
def RestWellFormed (name : Str) (rest : Str) : Prop :=
  (∀ l ∈ pySplitlines rest, isConfigHeader l = false) ∧
  ∃ before pat after, pySplitlines rest = before ++ [selfEntry name, pat] ++ after ∧
    patternsHeader name ∈ before ∧ isVersionPatternLine pat = true

/-- the formatted base template after the closing quote of the initial version -/
def postRest (name : Str) : Str := (postOf (baseOf name)).drop 2

/-- closed facts about the three base templates (evaluated once per candidate file) -/
def baseFacts (name : Str) : Bool :=
  preOf (baseOf name) == sectionHeader name ++ "\ncurrent_version = \"".toList &&
  (postOf (baseOf name)).take 2 == "\"\n".toList &&
  completeB (postRest name) &&
  (pySplitlines (postRest name)).all (fun l => !isConfigHeader l) &&
  (pySplitlines (postRest name)).contains (patternsHeader name)

theorem baseFacts_all : ∀ name ∈ Gen.configCandidates, baseFacts name = true := by decide +kernel

/-- closed facts about a chunk: terminated lines, none of them a config-section header -/
def chunkOk (c : Str) : Bool := completeB c && (pySplitlines c).all (fun l => !isConfigHeader l)

theorem chunks_ok :
    (∀ kv ∈ Gen.defaultPatternStrsCfg, chunkOk kv.2 = true) ∧ (∀ kv ∈ Gen.defaultPatternStrsToml, chunkOk kv.2 = true) ∧
    chunkOk Gen.fallbackStrCfg = true ∧ chunkOk Gen.fallbackStrToml = true := by
  decide +kernel

/-- the chunk for the config file itself starts with its entry line and the version pattern -/
def selfChunkOk (name : Str) (c : Str) : Bool :=
  match pySplitlines c with
  | l :: pat :: _ => l == selfEntry name && isVersionPatternLine pat
  | _ => false

theorem self_chunks :
    ∀ name ∈ Gen.configCandidates,
      (match lookup name (tableOf name) with | some c => selfChunkOk name c | none => false) = true := by
  decide +kernel

theorem fallback_chunk : selfChunkOk Gen.configFallback (fallbackOf Gen.configFallback) = true := by
  decide +kernel

theorem supported_sub_candidates : ∀ f ∈ Gen.supportedConfigs, f ∈ Gen.configCandidates := by decide

theorem tableOf_chunks (name : Str) : ∀ kv ∈ tableOf name, chunkOk kv.2 = true := by
  obtain ⟨h1, h2, _, _⟩ := chunks_ok
  unfold tableOf
  split
  · exact h1
  · exact h2

theorem fallbackOf_chunk (name : Str) : chunkOk (fallbackOf name) = true := by
  obtain ⟨_, _, h3, h4⟩ := chunks_ok
  unfold fallbackOf
  split
  · exact h3
  · exact h4

theorem chunkOk_parts (c : Str) (h : chunkOk c = true) :
    completeB c = true ∧ ∀ l ∈ pySplitlines c, isConfigHeader l = false := by
  simp only [chunkOk, Bool.and_eq_true, List.all_eq_true, Bool.not_eq_true'] at h
  exact h

theorem selfChunk_lines (name c : Str) (h : selfChunkOk name c = true) :
    ∃ pat more, pySplitlines c = selfEntry name :: pat :: more ∧ isVersionPatternLine pat = true := by
  unfold selfChunkOk at h
  split at h
  · rename_i l pat more heq
    simp only [Bool.and_eq_true, beq_iff_eq] at h
    exact ⟨pat, more, by rw [heq, h.1], h.2⟩
  · cases h

theorem lines_newline : pySplitlines "\n".toList = [[]] := by decide

theorem rest_wellformed (w : World) (name : Str) (hn : name ∈ Gen.configCandidates)
    (hex : w.exists_ name = true ∨
      (name = Gen.configFallback ∧ ∀ f ∈ Gen.configCandidates, w.exists_ f = false)) :
    RestWellFormed name (postRest name ++ tailOf w name) := by
  have hb := baseFacts_all name hn
  simp only [baseFacts, Bool.and_eq_true, List.all_eq_true, Bool.not_eq_true'] at hb
  obtain ⟨⟨⟨⟨_, _⟩, hcomp⟩, hpostok⟩, hhdr⟩ := hb
  have hhdr' : patternsHeader name ∈ pySplitlines (postRest name) := List.contains_iff_mem.mp hhdr
  -- the lines of the whole
  let F : Str := (if Gen.supportedConfigs.any (fun f => w.exists_ f) then [] else fallbackOf name) ++ "\n".toList
  have hlines : pySplitlines (postRest name ++ tailOf w name) =
      pySplitlines (postRest name) ++
      (((tableOf name).filter (fun kv => w.exists_ kv.1)).flatMap (fun kv => pySplitlines kv.2) ++ pySplitlines F) := by
    rw [pySplitlines_append _ _ hcomp]
    unfold tailOf
    rw [pySplitlines_appendExisting w (tableOf name) (fun kv hkv => (chunkOk_parts _ (tableOf_chunks name kv hkv)).1)]
  have hF : pySplitlines F = (if Gen.supportedConfigs.any (fun f => w.exists_ f) then [] else pySplitlines (fallbackOf name)) ++ [[]] := by
    show pySplitlines ((if Gen.supportedConfigs.any (fun f => w.exists_ f) then [] else fallbackOf name) ++ "\n".toList) = _
    split
    · exact lines_newline
    · rw [pySplitlines_append _ _ (chunkOk_parts _ (fallbackOf_chunk name)).1, lines_newline]
  constructor
  · intro l hl
    rw [hlines] at hl
    rcases List.mem_append.mp hl with hl | hl
    · exact hpostok l hl
    · rcases List.mem_append.mp hl with hl | hl
      · obtain ⟨kv, hkv, hl⟩ := List.mem_flatMap.mp hl
        exact (chunkOk_parts _ (tableOf_chunks name kv (List.mem_filter.mp hkv).1)).2 l hl
      · rw [hF] at hl
        rcases List.mem_append.mp hl with hl | hl
        · split at hl
          · cases hl
          · exact (chunkOk_parts _ (fallbackOf_chunk name)).2 l hl
        · have : l = [] := by simpa using hl
          subst this
          decide
  · rcases hex with hex | ⟨hfb, hnone⟩
    · -- the config file exists: its own chunk is appended
      have hsc := self_chunks name hn
      cases hlk : lookup name (tableOf name) with
      | none => rw [hlk] at hsc; cases hsc
      | some c =>
        rw [hlk] at hsc
        obtain ⟨pat, more, hc, hpat⟩ := selfChunk_lines name c hsc
        have hmem : (name, c) ∈ (tableOf name).filter (fun kv => w.exists_ kv.1) :=
          List.mem_filter.mpr ⟨lookup_mem _ _ _ hlk, hex⟩
        obtain ⟨s, t, hst⟩ := List.append_of_mem hmem
        refine ⟨pySplitlines (postRest name) ++ s.flatMap (fun kv => pySplitlines kv.2), pat,
          more ++ t.flatMap (fun kv => pySplitlines kv.2) ++ pySplitlines F, ?_, ?_, hpat⟩
        · rw [hlines, hst]
          simp only [List.flatMap_append, List.flatMap_cons, hc, List.append_assoc, List.cons_append, List.nil_append]
        · exact List.mem_append_left _ hhdr'
    · -- nothing exists: the fallback entry for bumpver.toml is appended
      have hany : Gen.supportedConfigs.any (fun f => w.exists_ f) = false := by
        cases h : Gen.supportedConfigs.any (fun f => w.exists_ f)
        · rfl
        · obtain ⟨f, hf, hw⟩ := List.any_eq_true.mp h
          rw [hnone f (supported_sub_candidates f hf)] at hw
          cases hw
      have hfc := fallback_chunk
      rw [← hfb] at hfc
      obtain ⟨pat, more, hc, hpat⟩ := selfChunk_lines name _ hfc
      refine ⟨pySplitlines (postRest name) ++ ((tableOf name).filter (fun kv => w.exists_ kv.1)).flatMap (fun kv => pySplitlines kv.2),
        pat, more ++ [[]], ?_, ?_, hpat⟩
      · rw [hlines, hF, hany]
        simp only [Bool.false_eq_true, if_false, hc, List.append_assoc, List.cons_append, List.nil_append]
      · exact List.mem_append_left _ hhdr'

end BV
