/-
  Proofs/CliLemmas.lean — helper lemmas about Model/Cli.lean.
-/
import BumpverVerif.Model.Cli
import BumpverVerif.Proofs.Pep440Lemmas
namespace BV

/- `whnf` must never run into the regex compiler or the increment pipeline (it does not
   terminate in reasonable time on open terms): everything below treats them as opaque. -/
attribute [local irreducible] isValid parseVersionInfo incr

/-! ### the order on version strings (`pepLe`/`pepLt`), from the laws of `cmpKey` -/

theorem pepLe_refl (a : Str) : pepLe a a = true := by
  simp [pepLe, verLe, lawful_cmpKey.refl]

theorem pepLe_trans {a b c : Str} (hab : pepLe a b = true) (hbc : pepLe b c = true) :
    pepLe a c = true := by
  simp only [pepLe, verLe, bne_iff_ne, ne_eq] at *
  exact lawful_cmpKey.le_trans _ _ _ hab hbc

theorem pepLe_total (a b : Str) : pepLe a b = true ∨ pepLe b a = true := by
  simp only [pepLe, verLe, bne_iff_ne, ne_eq]
  exact lawful_cmpKey.le_total _ _

theorem pepLt_iff (a b : Str) : pepLt a b = true ↔ (pepLe a b = true ∧ ¬ pepLe b a = true) := by
  simp only [pepLt, pepLe, verLt, verLe, bne_iff_ne, ne_eq, beq_iff_eq, Decidable.not_not]
  rw [lawful_cmpKey.swap (keyOf (parseVersion a)) (keyOf (parseVersion b))]
  cases cmpKey (keyOf (parseVersion a)) (keyOf (parseVersion b)) <;> simp [Ordering.swap]

theorem pepLt_of_not_le {a b : Str} (h : pepLe a b = false) : pepLt b a = true := by
  rw [pepLt_iff]
  rcases pepLe_total a b with h' | h'
  · rw [h] at h'; cases h'
  · exact ⟨h', by simp [h]⟩

theorem pepLe_false_of_lt {a b : Str} (h : pepLt a b = true) : pepLe b a = false := by
  have := ((pepLt_iff a b).1 h).2
  simpa using this

theorem pepLe_of_lt {a b : Str} (h : pepLt a b = true) : pepLe a b = true := ((pepLt_iff a b).1 h).1

theorem pepLt_irrefl (a : Str) : pepLt a a = false := by
  cases h : pepLt a a
  · rfl
  · have := pepLe_false_of_lt h
    rw [pepLe_refl] at this
    cases this

theorem pepLt_of_le_of_lt {a b c : Str} (hab : pepLe a b = true) (hbc : pepLt b c = true) :
    pepLt a c = true := by
  rw [pepLt_iff] at hbc ⊢
  refine ⟨pepLe_trans hab hbc.1, fun hca => hbc.2 (pepLe_trans hca hab)⟩

/-- when `pepLt a b` fails, `b ≤ a` -/
theorem pepLe_of_not_lt {a b : Str} (h : ¬ pepLt a b = true) : pepLe b a = true := by
  cases hle : pepLe b a
  · exact absurd (pepLt_of_not_le hle) h
  · rfl

/-! ### `parseVersionTags` -/

/- the equation lemmas of `parseVersionTags` cannot be generated (`whnf` runs into the regex
   compiler through `isValid`); these two are proved by `rfl` with `isValid` opaque -/
theorem parseVersionTags_nil (pat : Str) (today : Nat × Nat × Nat) :
    parseVersionTags pat today [] = .ok [] := rfl

theorem parseVersionTags_cons (pat : Str) (today : Nat × Nat × Nat) (t : Str) (ts : List Str) :
    parseVersionTags pat today (t :: ts) =
      match isValid t pat today with
      | .error e => .error e
      | .ok b =>
        match parseVersionTags pat today ts with
        | .error e => .error e
        | .ok rest => .ok (if b then t :: rest else rest) := rfl

theorem parseVersionTags_filter (pat : Str) (today : Nat × Nat × Nat) (tags vts : List Str)
    (h : parseVersionTags pat today tags = .ok vts) :
    vts = tags.filter (fun t => isValid t pat today == .ok true) := by
  induction tags generalizing vts with
  | nil =>
    rw [parseVersionTags_nil] at h
    injection h with h
    subst h
    rfl
  | cons t ts ih =>
    rw [parseVersionTags_cons] at h
    generalize hb : isValid t pat today = rb at h
    cases rb with
    | error e => cases h
    | ok b =>
      generalize hrest : parseVersionTags pat today ts = rr at h
      cases rr with
      | error e => cases h
      | ok rest =>
        simp only [Except.ok.injEq] at h
        subst h
        have := ih rest hrest
        cases b
        · simp [hb, ← this]
        · simp [hb, ← this]

theorem parseVersionTags_junk (pat : Str) (today : Nat × Nat × Nat) (l1 l2 : List Str) (j : Str)
    (hj : isValid j pat today = .ok false) :
    parseVersionTags pat today (l1 ++ j :: l2) = parseVersionTags pat today (l1 ++ l2) := by
  induction l1 with
  | nil =>
    rw [List.nil_append, List.nil_append, parseVersionTags_cons, hj]
    cases parseVersionTags pat today l2 <;> rfl
  | cons t ts ih =>
    rw [List.cons_append, List.cons_append, parseVersionTags_cons, parseVersionTags_cons, ih]

theorem parseVersionTags_ok (pat : Str) (today : Nat × Nat × Nat) (tags : List Str)
    (h : ∀ t ∈ tags, ∃ b, isValid t pat today = .ok b) :
    ∃ vts, parseVersionTags pat today tags = .ok vts := by
  induction tags with
  | nil => exact ⟨[], rfl⟩
  | cons t ts ih =>
    obtain ⟨b, hb⟩ := h t (by simp)
    obtain ⟨rest, hrest⟩ := ih (fun u hu => h u (by simp [hu]))
    exact ⟨if b then t :: rest else rest, by rw [parseVersionTags_cons, hb, hrest]⟩

/-! ### `latestOf` -/

theorem latestOf_none_iff (ts : List Str) : latestOf ts = none ↔ ts = [] := by
  cases ts with
  | nil => simp [latestOf]
  | cons t ts =>
    simp only [latestOf]
    constructor
    · intro h
      split at h
      · cases h
      · split at h <;> cases h
    · intro h; cases h

theorem latestOf_max (ts : List Str) (t : Str) (h : latestOf ts = some t) :
    t ∈ ts ∧ ∀ u ∈ ts, pepLe u t = true := by
  induction ts generalizing t with
  | nil => simp [latestOf] at h
  | cons x xs ih =>
    simp only [latestOf] at h
    split at h
    · rename_i hn
      injection h with h
      subst h
      have := (latestOf_none_iff xs).1 hn
      subst this
      simp [pepLe_refl]
    · rename_i u hu
      obtain ⟨hmem, hmax⟩ := ih u hu
      split at h
      · rename_i hlt
        injection h with h
        subst h
        refine ⟨by simp [hmem], fun w hw => ?_⟩
        rcases List.mem_cons.1 hw with rfl | hw
        · exact pepLe_of_lt hlt
        · exact hmax w hw
      · rename_i hlt
        injection h with h
        subst h
        refine ⟨by simp, fun w hw => ?_⟩
        rcases List.mem_cons.1 hw with rfl | hw
        · exact pepLe_refl _
        · exact pepLe_trans (hmax w hw) (pepLe_of_not_lt hlt)

/-! ### `startVersion` -/

theorem startVersion_of_tags {scope : TagScope} {pat cfgv : Str} {today : Nat × Nat × Nat}
    {tags vts : List Str} (hv : parseVersionTags pat today tags = .ok vts) :
    startVersion scope pat cfgv today tags =
      match latestOf vts with
      | none => .ok cfgv
      | some t =>
        match scope with
        | .default => if pepLe t cfgv then .ok cfgv else .ok t
        | _ => .ok t := by
  simp only [startVersion, latestVersionTag, hv]
  cases latestOf vts <;> rfl

/-- in every scope the start version dominates every matching tag of the listing -/
theorem startVersion_ge {scope : TagScope} {pat cfgv : Str} {today : Nat × Nat × Nat}
    {tags vts : List Str} {s : Str} (hv : parseVersionTags pat today tags = .ok vts)
    (h : startVersion scope pat cfgv today tags = .ok s) : ∀ u ∈ vts, pepLe u s = true := by
  rw [startVersion_of_tags hv] at h
  split at h
  · rename_i hn
    have := (latestOf_none_iff vts).1 hn
    subst this
    simp
  · rename_i t ht
    obtain ⟨-, hmax⟩ := latestOf_max vts t ht
    split at h
    · split at h
      · rename_i hle
        injection h with h
        subst h
        exact fun u hu => pepLe_trans (hmax u hu) hle
      · injection h with h
        subst h
        exact hmax
    · injection h with h
      subst h
      exact hmax

/-! ### the gate and the commands -/

theorem gate_accept {pat old new : Str} {unique : Bool} {tags : List Str} {today : Nat × Nat × Nat}
    (h : gate pat old new unique tags today = .ok .accept) :
    (∃ v, parseVersionInfo new pat today = .ok v) ∧ pepLe new old = false ∧
      (unique = true → ∃ vts, parseVersionTags pat today tags = .ok vts ∧ vts.contains new = false) := by
  unfold gate at h
  split at h
  · cases h
  · cases h
  · rename_i v hv
    refine ⟨⟨v, hv⟩, ?_⟩
    split at h
    · cases h
    · rename_i hle
      refine ⟨by simpa using hle, fun hu => ?_⟩
      rw [if_pos hu] at h
      generalize hr : parseVersionTags pat today tags = r at h
      cases r with
      | error e => cases h
      | ok vts =>
        refine ⟨vts, rfl, ?_⟩
        simp only at h
        split at h
        · cases h
        · rename_i hc
          simpa using hc

theorem cliTest_announce {old pat : Str} {fl : IncrFlags} {dg : Bool} {date today : Nat × Nat × Nat}
    {sv : Option Str} {new pep : Str} (h : cliTest old pat fl dg date today sv = .announce new pep) :
    gate pat old new false [] today = .ok .accept ∧ pep = verStr (parseVersion new) := by
  simp only [cliTest] at h
  split at h
  · cases h
  split at h
  · cases h
  split at h
  · cases h
  split at h
  · cases h
  · cases h
  · rename_i new' _
    split at h
    · cases h
    · rename_i hg
      injection h with h1 h2
      subst h1 h2
      exact ⟨hg, rfl⟩
    · cases h

theorem cliUpdateVersion_announce {scope : TagScope} {ign : Bool} {pat cfgv : Str} {fl : IncrFlags}
    {dg : Bool} {date today : Nat × Nat × Nat} {sv : Option Str} {scopeTags globalTags : List Str}
    {new pep start : Str}
    (h : cliUpdateVersion scope ign pat cfgv fl dg date today sv scopeTags globalTags =
      (.announce new pep, start)) :
    (if ign then Except.ok cfgv else startVersion scope pat cfgv today scopeTags) = .ok start ∧
    gate pat start new (scope == .branch || sv.isSome) globalTags today = .ok .accept := by
  simp only [cliUpdateVersion] at h
  split at h
  · cases h
  split at h
  · cases h
  split at h
  · cases h
  · rename_i old hold
    split at h
    · cases h
    · cases h
    · rename_i new' _
      split at h
      · cases h
      · rename_i hg
        simp only [Prod.mk.injEq, CliOutcome.announce.injEq] at h
        obtain ⟨⟨rfl, -⟩, rfl⟩ := h
        exact ⟨hold, hg⟩
      · simp only [Prod.mk.injEq] at h
        cases h.1

end BV
