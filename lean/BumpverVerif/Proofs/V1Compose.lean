/-
  Proofs/V1Compose.lean — THE COMPOSITION of the per-part facts of the LEGACY (`{…}`) engine over a
  whole pattern tree (Model/V1Tree.lean), and the way back through `_parse_pattern_groups` /
  `_parse_field_values`.

  `v1c_fixed_tr`     : a regex built from characters, classes, sequence and alternation whose
                       alternatives all have the same width reads exactly that many characters — it
                       behaves on `t ++ k` as on `t`, WHATEVER `k` is (the calendar alternations
                       `(?:0[0-9]|1[0-2])`, `(0[1-9]|[1-2][0-9]|3[0-1])`, `[0-2]\d\d|…`, `[1-4]`)
  `v1c_part_head`    : every supported part, on every value of its domain: the part's regex consumes
                       exactly the rendered text as its FIRST success before every admissible continuation
  `v1_compose_head`  : structural induction over the tree (first-character class analysis as in
                       Proofs/ComposeMain.lean)
  `v1_compose_match` : `re.match` on the rendered text: consumed in full, captures = the rendered parts
  `v1_roundtrip`     : the record read back agrees on every part, and renders to the same text
-/
import BumpverVerif.Model.V1Tree
import BumpverVerif.Proofs.ComposeMain
import BumpverVerif.Proofs.V1Lemmas
import BumpverVerif.Proofs.ReadBack
namespace BV

/-! ### fixed-width regexes read a fixed number of characters -/

/-- the common width of every way the regex can match (`none`: not of this shape) -/
def v1c_width : Re → Option Nat
  | .chr _ => some 1
  | .cls _ _ => some 1
  | .seq a b =>
    match v1c_width a, v1c_width b with
    | some x, some y => some (x + y)
    | _, _ => none
  | .alt a b =>
    match v1c_width a, v1c_width b with
    | some x, some y => if x = y then some x else none
    | _, _ => none
  | _ => none

theorem v1c_tr_cons (k : Str) (C : List (Str × Str)) (b : Bool) (st : MSt) (y : Char) (r : Str)
    (hr : st.rest = y :: r) : (MSt.tr k C b st).rest = y :: (r ++ k) := by
  simp [MSt.tr, hr]

/-- a fixed-width regex on a state with at least that many characters: appending `k` to the input
    changes nothing, and every success has consumed exactly the width -/
theorem v1c_fixed_tr (k : Str) (C : List (Str × Str)) (b : Bool) :
    ∀ (r : Re) (w : Nat), v1c_width r = some w → ∀ st : MSt, w ≤ st.rest.length →
      r.m (MSt.tr k C b st) = (r.m st).map (MSt.tr k C b) ∧
      ∀ s ∈ r.m st, s.rest.length + w = st.rest.length := by
  intro r
  induction r with
  | eps => intro w h; simp [v1c_width] at h
  | any => intro w h; simp [v1c_width] at h
  | bol => intro w h; simp [v1c_width] at h
  | eol => intro w h; simp [v1c_width] at h
  | rep r mn mx _ => intro w h; simp [v1c_width] at h
  | grp n r _ => intro w h; simp [v1c_width] at h
  | chr c =>
    intro w h st hl
    simp only [v1c_width, Option.some.injEq] at h
    subst h
    cases hr : st.rest with
    | nil => rw [hr] at hl; simp at hl
    | cons y r =>
      have e := v1c_tr_cons k C b st y r hr
      constructor
      · simp only [Re.m, e, hr]
        split
        · simp only [List.map_cons, List.map_nil, tr_step]
        · rfl
      · intro s hs
        simp only [Re.m, hr] at hs
        split at hs
        · simp only [List.mem_singleton] at hs
          subst hs
          simp [MSt.step]
        · cases hs
  | cls neg items =>
    intro w h st hl
    simp only [v1c_width, Option.some.injEq] at h
    subst h
    cases hr : st.rest with
    | nil => rw [hr] at hl; simp at hl
    | cons y r =>
      have e := v1c_tr_cons k C b st y r hr
      constructor
      · simp only [Re.m, e, hr]
        split
        · simp only [List.map_cons, List.map_nil, tr_step]
        · rfl
      · intro s hs
        simp only [Re.m, hr] at hs
        split at hs
        · simp only [List.mem_singleton] at hs
          subst hs
          simp [MSt.step]
        · cases hs
  | seq a b' iha ihb =>
    intro w h st hl
    simp only [v1c_width] at h
    cases ha : v1c_width a with
    | none => simp [ha] at h
    | some x =>
      cases hb : v1c_width b' with
      | none => simp [ha, hb] at h
      | some y =>
        simp only [ha, hb, Option.some.injEq] at h
        subst h
        obtain ⟨ha1, ha2⟩ := iha x ha st (by omega)
        constructor
        · simp only [Re.m]
          rw [ha1, List.flatMap_map, List.map_flatMap]
          apply flatMap_congr'
          intro s hs
          exact (ihb y hb s (by have := ha2 s hs; omega)).1
        · intro s hs
          simp only [Re.m, List.mem_flatMap] at hs
          obtain ⟨s1, hs1, hs2⟩ := hs
          have h1 := ha2 s1 hs1
          have h2 := (ihb y hb s1 (by omega)).2 s hs2
          omega
  | alt a b' iha ihb =>
    intro w h st hl
    simp only [v1c_width] at h
    cases ha : v1c_width a with
    | none => simp [ha] at h
    | some x =>
      cases hb : v1c_width b' with
      | none => simp [ha, hb] at h
      | some y =>
        simp only [ha, hb] at h
        split at h
        · next hxy =>
          simp only [Option.some.injEq] at h
          subst h
          subst hxy
          obtain ⟨ha1, ha2⟩ := iha x ha st hl
          obtain ⟨hb1, hb2⟩ := ihb x hb st hl
          constructor
          · simp only [Re.m, List.map_append, ha1, hb1]
          · intro s hs
            simp only [Re.m, List.mem_append] at hs
            rcases hs with hs | hs
            · exact ha2 s hs
            · exact hb2 s hs
        · cases h

/-- a fixed-width regex whose first success on `t` alone consumes all of `t` consumes exactly `t`
    before ANY continuation -/
theorem v1c_headConsumes_of_fixed (rx : Re) (t : Str) (hw : v1c_width rx = some t.length)
    (ht : headRestNil rx t = true) (k : Str) : HeadConsumes rx t k := by
  intro st hst
  obtain ⟨r, sf, c⟩ := st
  simp only at hst
  subst hst
  have e : ({ rest := t ++ k, start := sf, caps := c } : MSt)
      = MSt.tr k c sf { rest := t, start := true, caps := [] } := by
    simp [MSt.tr]
  unfold headRestNil at ht
  cases hh : (rx.m { rest := t, start := true, caps := [] }).head? with
  | none => rw [hh] at ht; cases ht
  | some s0 =>
    rw [hh] at ht
    simp only [List.isEmpty_iff] at ht
    refine ⟨MSt.tr k c sf s0, ?_, ?_, ?_⟩
    · rw [e, (v1c_fixed_tr k c sf rx _ hw _ (Nat.le_refl _)).1, List.head?_map, hh]; rfl
    · simp [MSt.tr, ht]
    · rfl

/-! ### per-part lemmas -/

/-- the first rendered character of a part: a lower-case letter for `{tag}`, a digit otherwise -/
def V1FirstOk (n t : Str) : Prop :=
  ∀ c, t.head? = some c → (if v1c_isTag n = true then isLower c else isDigit c) = true

/-- what the composition needs from one part: it renders to a non-empty text that the part's regex
    consumes exactly, as the FIRST success, before every admissible continuation
    (`nd = true`: the continuation must not start with a digit) -/
def V1Head (n : Str) (txt : Option Str) (nd : Bool) (rx : Re) : Prop :=
  ∃ t, txt = some t ∧ t ≠ [] ∧ V1FirstOk n t ∧
    ∀ k, (nd = true → NoDigitAhead k) → HeadConsumes rx t k

theorem v1c_firstOk_digits (n t : Str) (htag : v1c_isTag n = false) (hd : allDigits t = true) :
    V1FirstOk n t := by
  intro c hc
  rw [htag]
  cases t with
  | nil => cases hc
  | cons x xs =>
    simp only [List.head?_cons, Option.some.injEq] at hc
    subst hc
    rw [allDigits_cons] at hd
    simpa using hd.1

/-- `\d{min,}` on a digit run of at least `min` digits before a non-digit continuation -/
theorem v1c_hc_dRun (min : Nat) (ds k : Str) (hmin : min ≤ ds.length) (hd : allDigits ds = true)
    (hk : NoDigitAhead k) : HeadConsumes (.rep dCls min none) ds k := by
  intro st hst
  obtain ⟨st', tl, hm, hr, hc⟩ := mRep_digits_head k hk ds hd st.rest.length min st
    (by rw [hst]; simp) hmin hst
  refine ⟨st', ?_, hr, hc⟩
  simp only [Re.m, dCls_m_eq]
  rw [hm]; rfl

/-- `\d{n}` on exactly `n` digits, WHATEVER follows -/
theorem v1c_hc_dExact (ds k : Str) (hd : allDigits ds = true) :
    HeadConsumes (.rep dCls ds.length (some ds.length)) ds k := by
  intro st hst
  obtain ⟨st', tl, hm, hr, hc⟩ := mRep_digits_exact k ds hd st.rest.length st
    (by rw [hst]; simp) hst
  refine ⟨st', ?_, hr, hc⟩
  simp only [Re.m, dCls_m_eq]
  rw [hm]; rfl

/-- `[1-9]\d*` -/
theorem v1c_hc_posInt (c : Char) (ds k : Str) (hc : isDigit c = true) (h0 : c ≠ '0')
    (hd : allDigits ds = true) (hk : NoDigitAhead k) :
    HeadConsumes (.seq posDigitCls (.rep dCls 0 none)) (c :: ds) k := by
  intro st hst
  have hm : (Re.seq posDigitCls (.rep dCls 0 none)).m = (Re.seq posDigitCls (.rep digitCls 0 none)).m := by
    funext st
    simp only [Re.m, dCls_m_eq]
  rw [hm]
  exact hc_posInt c ds k hc h0 hd hk st hst

/-- kernel check of one finite calendar part over its whole domain `lo..hi`: the regex has a fixed
    width, and every rendered value is a non-empty digit string of that width which the FIRST success
    consumes in full -/
def v1c_finCheck (n : Str) (fmt : Nat → Str) (lo hi : Nat) : Bool :=
  match v1c_partRe n with
  | some rx =>
    (List.range (hi + 1)).all (fun x =>
      decide (x < lo) || (headRestNil rx (fmt x) && (v1c_width rx == some (fmt x).length) &&
        !(fmt x).isEmpty && allDigits (fmt x)))
  | none => false

/-- the same for a variable-width digit-only part (`{month_short}`) -/
def v1c_finCheckND (n : Str) (fmt : Nat → Str) (lo hi : Nat) : Bool :=
  match v1c_partRe n with
  | some rx =>
    rx.digitOnly && (List.range (hi + 1)).all (fun x =>
      decide (x < lo) || (headRestNil rx (fmt x) && !(fmt x).isEmpty && allDigits (fmt x)))
  | none => false

theorem v1c_fin_part (n : Str) (fmt : Nat → Str) (lo hi : Nat) (hchk : v1c_finCheck n fmt lo hi = true)
    (o : Option Nat) (hok : optIn o lo hi = true) (rx : Re) (hrx : v1c_partRe n = some rx) (nd : Bool)
    (htag : v1c_isTag n = false) : V1Head n (o.map fmt) nd rx := by
  unfold v1c_finCheck at hchk
  rw [hrx] at hchk
  simp only [List.all_eq_true, List.mem_range, Bool.or_eq_true, Bool.and_eq_true,
    decide_eq_true_eq, Bool.not_eq_true', List.isEmpty_eq_false_iff, beq_iff_eq] at hchk
  cases o with
  | none => cases hok
  | some x =>
    simp only [optIn, Bool.and_eq_true, decide_eq_true_eq] at hok
    rcases hchk x (by omega) with hlt | ⟨⟨⟨hh, hw⟩, hne⟩, hd⟩
    · omega
    · exact ⟨fmt x, rfl, hne, v1c_firstOk_digits n _ htag hd,
        fun k _ => v1c_headConsumes_of_fixed rx _ hw hh k⟩

theorem v1c_finND_part (n : Str) (fmt : Nat → Str) (lo hi : Nat) (hchk : v1c_finCheckND n fmt lo hi = true)
    (o : Option Nat) (hok : optIn o lo hi = true) (rx : Re) (hrx : v1c_partRe n = some rx)
    (htag : v1c_isTag n = false) : V1Head n (o.map fmt) true rx := by
  unfold v1c_finCheckND at hchk
  rw [hrx] at hchk
  simp only [List.all_eq_true, List.mem_range, Bool.or_eq_true, Bool.and_eq_true,
    decide_eq_true_eq, Bool.not_eq_true', List.isEmpty_eq_false_iff] at hchk
  obtain ⟨hdo, hall⟩ := hchk
  cases o with
  | none => cases hok
  | some x =>
    simp only [optIn, Bool.and_eq_true, decide_eq_true_eq] at hok
    rcases hall x (by omega) with hlt | ⟨⟨hh, hne⟩, hd⟩
    · omega
    · exact ⟨fmt x, rfl, hne, v1c_firstOk_digits n _ htag hd,
        fun k hk => headConsumes_of_digitOnly rx hdo _ hh k (hk rfl)⟩

/-- `{year}` / `{yyyy}`: `\d{4}` / `str(y)`, 1000..9999, WHATEVER follows -/
theorem v1c_year_part (n : Str) (hre : v1c_partRe n = some (.rep dCls 4 (some 4))) (o : Option Nat)
    (hok : optIn o 1000 9999 = true) (rx : Re) (hrx : v1c_partRe n = some rx) (nd : Bool)
    (htag : v1c_isTag n = false) : V1Head n (o.map natToStr) nd rx := by
  rw [hre] at hrx
  have hrx := (Option.some.inj hrx).symm
  subst hrx
  cases o with
  | none => cases hok
  | some y =>
    simp only [optIn, Bool.and_eq_true, decide_eq_true_eq] at hok
    have hlen : (natToStr y).length = 4 := natToStr_length_eq 3 y (by omega) (by omega)
    refine ⟨natToStr y, rfl, natToStr_ne_nil _, v1c_firstOk_digits n _ htag (allDigits_natToStr _), ?_⟩
    intro k _
    have := v1c_hc_dExact (natToStr y) k (allDigits_natToStr y)
    rw [hlen] at this
    exact this

/-- two-digit years: the last two characters of `str(y)` for 2000..2099 are two digits that read
    back (with the `+ 2000` rule) as `y` -/
theorem v1c_yy_table : (List.range 100).all (fun i =>
    (last2 (natToStr (2000 + i))).length == 2 && allDigits (last2 (natToStr (2000 + i))) &&
    (strToNat (last2 (natToStr (2000 + i))) == i)) = true := by
  decide +kernel

theorem v1c_yy_facts (y : Nat) (h1 : 2000 ≤ y) (h2 : y ≤ 2099) :
    (last2 (natToStr y)).length = 2 ∧ allDigits (last2 (natToStr y)) = true ∧
    strToNat (last2 (natToStr y)) + 2000 = y := by
  have h := v1c_yy_table
  simp only [List.all_eq_true, List.mem_range, Bool.and_eq_true, beq_iff_eq] at h
  have := h (y - 2000) (by omega)
  have e : 2000 + (y - 2000) = y := by omega
  rw [e] at this
  exact ⟨this.1.1, this.1.2, by omega⟩

/-- `{yy}`: `\d{2}` / `str(y)[-2:]`, 2000..2099, WHATEVER follows -/
theorem v1c_yy_part (n : Str) (hre : v1c_partRe n = some (.rep dCls 2 (some 2))) (o : Option Nat)
    (hok : optIn o 2000 2099 = true) (rx : Re) (hrx : v1c_partRe n = some rx) (nd : Bool)
    (htag : v1c_isTag n = false) : V1Head n (o.map (fun y => last2 (natToStr y))) nd rx := by
  rw [hre] at hrx
  have hrx := (Option.some.inj hrx).symm
  subst hrx
  cases o with
  | none => cases hok
  | some y =>
    simp only [optIn, Bool.and_eq_true, decide_eq_true_eq] at hok
    obtain ⟨hlen, hd, _⟩ := v1c_yy_facts y hok.1 hok.2
    refine ⟨last2 (natToStr y), rfl, ?_, v1c_firstOk_digits n _ htag hd, ?_⟩
    · intro e; rw [e] at hlen; cases hlen
    · intro k _
      have := v1c_hc_dExact (last2 (natToStr y)) k hd
      rw [hlen] at this
      exact this

theorem v1c_zfill_length_ge (w : Nat) (s : Str) : w ≤ (zfill w s).length := by
  simp only [zfill, List.length_append, List.length_replicate]
  omega

theorem v1c_zfill_ne_nil (w : Nat) (s : Str) (h : s ≠ []) : zfill w s ≠ [] := by
  intro e
  simp only [zfill, List.append_eq_nil_iff] at e
  exact h e.2

/-- `\d{min,}` families (`\d+` for MAJOR/MINOR/PATCH, `\d{w,}` for the zero-padded MM…/PP…,
    `\d{4,}` for the ids): a digit string of at least `min` digits before a non-digit -/
theorem v1c_run_part (n : Str) (min : Nat) (hre : v1c_partRe n = some (.rep dCls min none)) (t : Str)
    (hne : t ≠ []) (hd : allDigits t = true) (hmin : min ≤ t.length) (rx : Re)
    (hrx : v1c_partRe n = some rx) (htag : v1c_isTag n = false) : V1Head n (some t) true rx := by
  rw [hre] at hrx
  have hrx := (Option.some.inj hrx).symm
  subst hrx
  exact ⟨t, rfl, hne, v1c_firstOk_digits n _ htag hd, fun k hk => v1c_hc_dRun min t k hmin hd (hk rfl)⟩

/-- `{BID}`: `[1-9]\d*` / `str(int(bid))`, only for a non-zero id -/
theorem v1c_BID_part (x : Nat) (hpos : 1 ≤ x)
    (hre : v1c_partRe "BID".toList = some (.seq posDigitCls (.rep dCls 0 none))) (rx : Re)
    (hrx : v1c_partRe "BID".toList = some rx) : V1Head "BID".toList (some (natToStr x)) true rx := by
  rw [hre] at hrx
  have hrx := (Option.some.inj hrx).symm
  subst hrx
  refine ⟨natToStr x, rfl, natToStr_ne_nil _, v1c_firstOk_digits _ _ (by decide) (allDigits_natToStr _), ?_⟩
  intro k hk
  have hd := allDigits_natToStr x
  have hh := natToStr_head_ne_zero x (by omega)
  have hne := natToStr_ne_nil x
  generalize natToStr x = s at hd hh hne
  cases s with
  | nil => exact absurd rfl hne
  | cons c t =>
    rw [allDigits_cons] at hd
    exact v1c_hc_posInt c t k hd.1 (hh c t rfl) hd.2 (hk rfl)

/-! ### the shapes of the regenerated table -/

theorem v1c_re_year :
    v1c_partRe "year".toList = some (.rep dCls 4 (some 4)) ∧
    v1c_partRe "yyyy".toList = some (.rep dCls 4 (some 4)) ∧
    v1c_partRe "yy".toList = some (.rep dCls 2 (some 2)) := by
  refine ⟨?_, ?_, ?_⟩ <;> decide +kernel

theorem v1c_re_nat :
    v1c_partRe "MAJOR".toList = some (.rep dCls 1 none) ∧
    v1c_partRe "MINOR".toList = some (.rep dCls 1 none) ∧
    v1c_partRe "PATCH".toList = some (.rep dCls 1 none) := by
  refine ⟨?_, ?_, ?_⟩ <;> decide +kernel

theorem v1c_re_pad :
    v1c_partRe "MM".toList = some (.rep dCls 2 none) ∧ v1c_partRe "MMM".toList = some (.rep dCls 3 none) ∧
    v1c_partRe "MMMM".toList = some (.rep dCls 4 none) ∧ v1c_partRe "MMMMM".toList = some (.rep dCls 5 none) ∧
    v1c_partRe "PP".toList = some (.rep dCls 2 none) ∧ v1c_partRe "PPP".toList = some (.rep dCls 3 none) ∧
    v1c_partRe "PPPP".toList = some (.rep dCls 4 none) ∧ v1c_partRe "PPPPP".toList = some (.rep dCls 5 none) := by
  refine ⟨?_, ?_, ?_, ?_, ?_, ?_, ?_, ?_⟩ <;> decide +kernel

theorem v1c_re_ids :
    v1c_partRe "build_no".toList = some (.rep dCls 4 none) ∧
    v1c_partRe "bid".toList = some (.rep dCls 4 none) ∧
    v1c_partRe "BID".toList = some (.seq posDigitCls (.rep dCls 0 none)) := by
  refine ⟨?_, ?_, ?_⟩ <;> decide +kernel

theorem v1c_re_tag : v1c_partRe "tag".toList = some (altLits v1c_tags) := by decide +kernel

theorem v1c_tags_ok : v1c_tags.all (fun t => wordsOk v1c_tags t) = true := by decide +kernel

theorem v1c_fc_quarter : v1c_finCheck "quarter".toList natToStr 1 4 = true := by decide +kernel
theorem v1c_fc_month : v1c_finCheck "month".toList (fun m => zfill 2 (natToStr m)) 1 12 = true := by
  decide +kernel
theorem v1c_fc_dom : v1c_finCheck "dom".toList (fun m => zfill 2 (natToStr m)) 1 31 = true := by
  decide +kernel
theorem v1c_fc_doy : v1c_finCheck "doy".toList (fun m => zfill 3 (natToStr m)) 1 366 = true := by
  decide +kernel
theorem v1c_fc_month_short : v1c_finCheckND "month_short".toList natToStr 1 12 = true := by
  decide +kernel

/-! ### the dispatcher over the table of supported parts -/

theorem v1c_pad_part (n : Str) (w : Nat) (x : Nat) (hre : v1c_partRe n = some (.rep dCls w none)) (rx : Re)
    (hrx : v1c_partRe n = some rx) (htag : v1c_isTag n = false) :
    V1Head n (some (zfill w (natToStr x))) true rx :=
  v1c_run_part n w hre _ (v1c_zfill_ne_nil w _ (natToStr_ne_nil x))
    (allDigits_zfill w _ (allDigits_natToStr x)) (v1c_zfill_length_ge w _) rx hrx htag

theorem v1c_nat_part (n : Str) (x : Nat) (hre : v1c_partRe n = some (.rep dCls 1 none)) (rx : Re)
    (hrx : v1c_partRe n = some rx) (htag : v1c_isTag n = false) :
    V1Head n (some (natToStr x)) true rx :=
  v1c_run_part n 1 hre _ (natToStr_ne_nil x) (allDigits_natToStr x) (natToStr_length_pos x) rx hrx htag

theorem v1c_id_part (n : Str) (v : V1Info) (hok : v1c_bidOk v = true)
    (hre : v1c_partRe n = some (.rep dCls 4 none)) (rx : Re)
    (hrx : v1c_partRe n = some rx) (htag : v1c_isTag n = false) : V1Head n (some v.bid) true rx := by
  simp only [v1c_bidOk, Bool.and_eq_true, decide_eq_true_eq] at hok
  refine v1c_run_part n 4 hre _ ?_ hok.1 hok.2 rx hrx htag
  intro e; rw [e] at hok; simp at hok

theorem v1c_tag_part (v : V1Info) (hok : v1c_tags.contains v.tag = true) (rx : Re)
    (hrx : v1c_partRe "tag".toList = some rx) (nd : Bool) : V1Head "tag".toList (some v.tag) nd rx := by
  rw [v1c_re_tag] at hrx
  have hrx := (Option.some.inj hrx).symm
  subst hrx
  have h := v1c_tags_ok
  simp only [List.all_eq_true] at h
  have hw := h v.tag (by simpa using hok)
  refine ⟨v.tag, rfl, (altLits_head' v1c_tags v.tag [] hw).2.1, ?_, fun k _ => (altLits_head' v1c_tags v.tag k hw).1⟩
  intro c hc
  have hl := (altLits_head' v1c_tags v.tag [] hw).2.2
  cases ht : v.tag with
  | nil => rw [ht] at hc; cases hc
  | cons x xs =>
    rw [ht] at hc hl
    simp only [List.head?_cons, Option.some.injEq] at hc
    subst hc
    exact hl

/-- THE PER-PART LEMMA: every supported legacy part, on every value of its domain -/
theorem v1c_part_head (v : V1Info) (n : Str) (hok : v1c_partOk v n = true) (rx : Re)
    (hrx : v1c_partRe n = some rx) : V1Head n (v1c_partText v n) (v1c_needND n) rx := by
  unfold v1c_partOk at hok
  unfold v1c_partText v1c_needND
  cases hl : lookup n v1c_partSpecs with
  | none => rw [hl] at hok; cases hok
  | some s =>
    rw [hl] at hok
    have hmem := lookup_mem_cl n v1c_partSpecs s hl
    simp only [v1c_partSpecs, List.mem_cons, Prod.mk.injEq, List.not_mem_nil, or_false] at hmem
    rcases hmem with ⟨rfl, rfl⟩ | ⟨rfl, rfl⟩ | ⟨rfl, rfl⟩ | ⟨rfl, rfl⟩ | ⟨rfl, rfl⟩ | ⟨rfl, rfl⟩ |
      ⟨rfl, rfl⟩ | ⟨rfl, rfl⟩ | ⟨rfl, rfl⟩ | ⟨rfl, rfl⟩ | ⟨rfl, rfl⟩ | ⟨rfl, rfl⟩ | ⟨rfl, rfl⟩ |
      ⟨rfl, rfl⟩ | ⟨rfl, rfl⟩ | ⟨rfl, rfl⟩ | ⟨rfl, rfl⟩ | ⟨rfl, rfl⟩ | ⟨rfl, rfl⟩ | ⟨rfl, rfl⟩ |
      ⟨rfl, rfl⟩ | ⟨rfl, rfl⟩ | ⟨rfl, rfl⟩
    · exact v1c_year_part _ v1c_re_year.1 v.year hok rx hrx _ (by decide)
    · exact v1c_year_part _ v1c_re_year.2.1 v.year hok rx hrx _ (by decide)
    · exact v1c_yy_part _ v1c_re_year.2.2 v.year hok rx hrx _ (by decide)
    · exact v1c_fin_part _ _ 1 4 v1c_fc_quarter v.quarter hok rx hrx _ (by decide)
    · exact v1c_fin_part _ _ 1 12 v1c_fc_month v.month hok rx hrx _ (by decide)
    · exact v1c_finND_part _ _ 1 12 v1c_fc_month_short v.month hok rx hrx (by decide)
    · exact v1c_fin_part _ _ 1 31 v1c_fc_dom v.dom hok rx hrx _ (by decide)
    · exact v1c_fin_part _ _ 1 366 v1c_fc_doy v.doy hok rx hrx _ (by decide)
    · exact v1c_nat_part _ v.major v1c_re_nat.1 rx hrx (by decide)
    · exact v1c_nat_part _ v.minor v1c_re_nat.2.1 rx hrx (by decide)
    · exact v1c_nat_part _ v.patch v1c_re_nat.2.2 rx hrx (by decide)
    · exact v1c_pad_part _ 2 v.minor v1c_re_pad.1 rx hrx (by decide)
    · exact v1c_pad_part _ 3 v.minor v1c_re_pad.2.1 rx hrx (by decide)
    · exact v1c_pad_part _ 4 v.minor v1c_re_pad.2.2.1 rx hrx (by decide)
    · exact v1c_pad_part _ 5 v.minor v1c_re_pad.2.2.2.1 rx hrx (by decide)
    · exact v1c_pad_part _ 2 v.patch v1c_re_pad.2.2.2.2.1 rx hrx (by decide)
    · exact v1c_pad_part _ 3 v.patch v1c_re_pad.2.2.2.2.2.1 rx hrx (by decide)
    · exact v1c_pad_part _ 4 v.patch v1c_re_pad.2.2.2.2.2.2.1 rx hrx (by decide)
    · exact v1c_pad_part _ 5 v.patch v1c_re_pad.2.2.2.2.2.2.2 rx hrx (by decide)
    · exact v1c_id_part _ v hok v1c_re_ids.1 rx hrx (by decide)
    · exact v1c_id_part _ v hok v1c_re_ids.2.1 rx hrx (by decide)
    · exact v1c_BID_part _ (by simp only [Bool.and_eq_true, decide_eq_true_eq] at hok; exact hok.2)
        v1c_re_ids.2.2 rx hrx
    · exact v1c_tag_part v hok rx hrx _

/-! ### inversion of `V1Pat.compile` -/

theorem v1c_compile_lit_inv (c : Char) (rest : V1Pat) (r : Re) (h : V1Pat.compile (.lit c rest) = some r) :
    ∃ r', V1Pat.compile rest = some r' ∧ r = seqR (.chr c) r' := by
  simp only [V1Pat.compile] at h
  cases hr : V1Pat.compile rest with
  | none => rw [hr] at h; cases h
  | some r' =>
    rw [hr] at h
    simp only [Option.map_some, Option.some.injEq] at h
    exact ⟨r', rfl, h.symm⟩

theorem v1c_compile_part_inv (n : Str) (rest : V1Pat) (r : Re) (h : V1Pat.compile (.part n rest) = some r) :
    ∃ rx r', v1c_partRe n = some rx ∧ V1Pat.compile rest = some r' ∧ r = seqR (.grp n rx) r' := by
  simp only [V1Pat.compile] at h
  split at h
  · next rx r' h1 h2 =>
    simp only [Option.some.injEq] at h
    exact ⟨rx, r', h1, h2, h.symm⟩
  · cases h

theorem v1c_compile_comp_inv (n : Str) (body rest : V1Pat) (r : Re)
    (h : V1Pat.compile (.comp n body rest) = some r) :
    ∃ b r', V1Pat.compile body = some b ∧ V1Pat.compile rest = some r' ∧ r = seqR (.grp n b) r' := by
  simp only [V1Pat.compile] at h
  split at h
  · next b r' h1 h2 =>
    simp only [Option.some.injEq] at h
    exact ⟨b, r', h1, h2, h.symm⟩
  · cases h

theorem v1c_compile_rel_inv (rest : V1Pat) (r : Re) (h : V1Pat.compile (.rel rest) = some r) :
    ∃ r', V1Pat.compile rest = some r' ∧
      r = seqR (.rep (.seq (.chr '-') (.grp "tag".toList (altLits v1c_tags))) 0 (some 1)) r' := by
  simp only [V1Pat.compile] at h
  split at h
  · next rx r' h1 h2 =>
    simp only [Option.some.injEq] at h
    rw [v1c_re_tag] at h1
    have h1 := (Option.some.inj h1).symm
    subst h1
    exact ⟨r', h2, h.symm⟩
  · cases h

theorem v1c_render_part (v : V1Info) (n : Str) (rest : V1Pat) (t : Str) (ht : v1c_partText v n = some t) :
    V1Pat.render v (.part n rest) = t ++ V1Pat.render v rest := by
  simp only [V1Pat.render, ht, Option.getD_some]

theorem v1c_caps_part (v : V1Info) (n : Str) (rest : V1Pat) (t : Str) (ht : v1c_partText v n = some t) :
    V1Pat.caps v (.part n rest) = (n, t) :: V1Pat.caps v rest := by
  simp only [V1Pat.caps, ht]

/-! ### the rendered text followed by `k` starts inside `V1Pat.first` -/

theorem v1c_first_has (v : V1Info) : ∀ (p : V1Pat) (F : FSet) (k : Str), V1Pat.vok v p = true →
    (V1Pat.compile p).isSome = true → F.has k = true →
    (V1Pat.first p F).has (V1Pat.render v p ++ k) = true := by
  intro p
  induction p with
  | done => intro F k _ _ hk; simpa only [V1Pat.first, V1Pat.render, List.nil_append] using hk
  | lit c rest _ =>
    intro F k _ _ _
    simp [V1Pat.first, V1Pat.render, FSet.has, FSet.hasChar]
  | part n rest _ =>
    intro F k hv hc _
    cases hcc : V1Pat.compile (.part n rest) with
    | none => rw [hcc] at hc; cases hc
    | some r =>
      obtain ⟨rx, r', hrx, _, _⟩ := v1c_compile_part_inv n rest r hcc
      simp only [V1Pat.vok, Bool.and_eq_true] at hv
      obtain ⟨t, ht, hne, hfo, _⟩ := v1c_part_head v n hv.1 rx hrx
      rw [v1c_render_part v n rest t ht]
      cases t with
      | nil => exact absurd rfl hne
      | cons c t' =>
        have hc1 := hfo c rfl
        simp only [V1Pat.first, List.cons_append, FSet.has]
        cases htag : v1c_isTag n with
        | true =>
          rw [htag] at hc1
          simp only [↓reduceIte] at hc1
          simp [FSet.hasChar, hc1]
        | false =>
          rw [htag] at hc1
          simp only [Bool.false_eq_true, ↓reduceIte] at hc1
          simp [FSet.hasChar, hc1]
  | comp n body rest ihb ihr =>
    intro F k hv hc hk
    cases hcc : V1Pat.compile (.comp n body rest) with
    | none => rw [hcc] at hc; cases hc
    | some r =>
      obtain ⟨b, r', hb, hr', _⟩ := v1c_compile_comp_inv n body rest r hcc
      simp only [V1Pat.vok, Bool.and_eq_true] at hv
      have h1 := ihr F k hv.2 (by rw [hr']; rfl) hk
      simp only [V1Pat.first, V1Pat.render, List.append_assoc]
      exact ihb _ _ hv.1 (by rw [hb]; rfl) h1
  | rel rest ihr =>
    intro F k hv hc hk
    cases hcc : V1Pat.compile (.rel rest) with
    | none => rw [hcc] at hc; cases hc
    | some r =>
      obtain ⟨r', hr', _⟩ := v1c_compile_rel_inv rest r hcc
      simp only [V1Pat.vok, Bool.and_eq_true] at hv
      have h1 := ihr F k hv.2 (by rw [hr']; rfl) hk
      simp only [V1Pat.first, V1Pat.render, v1c_relText]
      split
      · simp only [List.nil_append]
        exact FSet.has_union_right _ _ _ h1
      · apply FSet.has_union_left
        simp [FSet.has, FSet.hasChar]

/-! ### THE COMPOSITION LEMMA -/

theorem v1_compose_head (v : V1Info) : ∀ (p : V1Pat) (F : FSet) (r : Re) (k : Str) (st : MSt),
    V1Pat.wf p F = true → V1Pat.vok v p = true → V1Pat.compile p = some r → F.has k = true →
    st.rest = V1Pat.render v p ++ k →
    ∃ st', (r.m st).head? = some st' ∧ st'.rest = k ∧ st'.caps = (V1Pat.caps v p).reverse ++ st.caps := by
  intro p
  induction p with
  | done =>
    intro F r k st _ _ hr _ hst
    simp only [V1Pat.compile, Option.some.injEq] at hr
    subst hr
    refine ⟨st, rfl, ?_, ?_⟩
    · simpa only [V1Pat.render, List.nil_append] using hst
    · simp only [V1Pat.caps, List.reverse_nil, List.nil_append]
  | lit c rest ih =>
    intro F r k st hwf hv hr hk hst
    obtain ⟨r', hr', rfl⟩ := v1c_compile_lit_inv c rest r hr
    simp only [V1Pat.wf] at hwf
    simp only [V1Pat.vok] at hv
    have hst' : st.rest = c :: (V1Pat.render v rest ++ k) := by
      simpa only [V1Pat.render, List.cons_append] using hst
    obtain ⟨st2, h2, hr2, hc2⟩ :=
      ih F r' k (st.step (V1Pat.render v rest ++ k)) hwf hv hr' hk rfl
    refine ⟨st2, head_seqR _ _ st _ st2 (head_chr c st _ hst') h2, hr2, ?_⟩
    rw [hc2]
    simp only [V1Pat.caps]
    rfl
  | part n rest ih =>
    intro F r k st hwf hv hr hk hst
    obtain ⟨rx, r', hrx, hr', rfl⟩ := v1c_compile_part_inv n rest r hr
    simp only [V1Pat.wf, Bool.and_eq_true] at hwf
    simp only [V1Pat.vok, Bool.and_eq_true] at hv
    obtain ⟨t, ht, hne, hfo, hcons⟩ := v1c_part_head v n hv.1 rx hrx
    have hk' : (V1Pat.first rest F).has (V1Pat.render v rest ++ k) = true :=
      v1c_first_has v rest F k hv.2 (by rw [hr']; rfl) hk
    have hnd : v1c_needND n = true → NoDigitAhead (V1Pat.render v rest ++ k) := by
      intro hn
      have h2 := hwf.2
      rw [hn] at h2
      simp only [Bool.not_true, Bool.false_or] at h2
      exact FSet.noDigit_ahead _ _ h2 hk'
    have hst' : st.rest = t ++ (V1Pat.render v rest ++ k) := by
      rw [hst, v1c_render_part v n rest t ht, List.append_assoc]
    obtain ⟨st0, h0, hr0, hc0⟩ := hcons _ hnd st hst'
    obtain ⟨st1, h1, hr1, hc1⟩ := head_grp n rx st st0 t _ hst' h0 hr0
    obtain ⟨st2, h2, hr2, hc2⟩ := ih F r' k st1 hwf.1.2 hv.2 hr' hk hr1
    refine ⟨st2, head_seqR _ _ st st1 st2 h1 h2, hr2, ?_⟩
    rw [hc2, hc1, hc0, v1c_caps_part v n rest t ht]
    simp only [List.reverse_cons, List.append_assoc, List.cons_append, List.nil_append]
  | comp n body rest ihb ihr =>
    intro F r k st hwf hv hr hk hst
    obtain ⟨b, r', hb, hr', rfl⟩ := v1c_compile_comp_inv n body rest r hr
    simp only [V1Pat.wf, Bool.and_eq_true] at hwf
    simp only [V1Pat.vok, Bool.and_eq_true] at hv
    have hk' : (V1Pat.first rest F).has (V1Pat.render v rest ++ k) = true :=
      v1c_first_has v rest F k hv.2 (by rw [hr']; rfl) hk
    have hst' : st.rest = V1Pat.render v body ++ (V1Pat.render v rest ++ k) := by
      rw [hst]; simp only [V1Pat.render, List.append_assoc]
    obtain ⟨st0, h0, hr0, hc0⟩ := ihb (V1Pat.first rest F) b _ st hwf.1.2 hv.1 hb hk' hst'
    obtain ⟨st1, h1, hr1, hc1⟩ := head_grp n b st st0 (V1Pat.render v body) _ hst' h0 hr0
    obtain ⟨st2, h2, hr2, hc2⟩ := ihr F r' k st1 hwf.2 hv.2 hr' hk hr1
    refine ⟨st2, head_seqR _ _ st st1 st2 h1 h2, hr2, ?_⟩
    rw [hc2, hc1, hc0]
    simp only [V1Pat.caps, List.reverse_append, List.reverse_cons, List.append_assoc,
      List.cons_append, List.nil_append]
  | rel rest ihr =>
    intro F r k st hwf hv hr hk hst
    obtain ⟨r', hr', rfl⟩ := v1c_compile_rel_inv rest r hr
    simp only [V1Pat.wf, Bool.and_eq_true, Bool.not_eq_true'] at hwf
    simp only [V1Pat.vok, Bool.and_eq_true] at hv
    have hk' : (V1Pat.first rest F).has (V1Pat.render v rest ++ k) = true :=
      v1c_first_has v rest F k hv.2 (by rw [hr']; rfl) hk
    cases hz : v1c_isFinal v with
    | true =>
      -- the group is omitted: what follows does not start with `-`, so its body has no success
      have hst' : st.rest = V1Pat.render v rest ++ k := by
        rw [hst]; simp only [V1Pat.render, v1c_relText, hz, ↓reduceIte, List.nil_append]
      have hbn : (Re.seq (.chr '-') (.grp "tag".toList (altLits v1c_tags))).m st = [] := by
        have hc : (Re.chr '-').m st = [] := by
          apply chr_nil
          intro x hx e
          subst e
          cases hr0 : st.rest with
          | nil => rw [hr0] at hx; cases hx
          | cons y ys =>
            rw [hr0] at hx
            simp only [List.head?_cons, Option.some.injEq] at hx
            subst hx
            rw [hst'] at hr0
            rw [hr0] at hk'
            simp only [FSet.has] at hk'
            rw [hwf.2] at hk'; cases hk'
        simp only [Re.m] at hc ⊢
        rw [hc]; rfl
      have h1 : ((Re.rep (.seq (.chr '-') (.grp "tag".toList (altLits v1c_tags))) 0 (some 1)).m st).head? = some st := by
        rw [opt_absent _ st hbn]; rfl
      obtain ⟨st2, h2, hr2, hc2⟩ := ihr F r' k st hwf.1 hv.2 hr' hk hst'
      refine ⟨st2, head_seqR _ _ st st st2 h1 h2, hr2, ?_⟩
      rw [hc2]
      simp only [V1Pat.caps, hz, ↓reduceIte, List.nil_append]
    | false =>
      have hst' : st.rest = '-' :: (v.tag ++ (V1Pat.render v rest ++ k)) := by
        rw [hst]
        simp only [V1Pat.render, v1c_relText, hz, Bool.false_eq_true, ↓reduceIte, List.cons_append,
          List.append_assoc]
      obtain ⟨t, ht, hne, _, hcons⟩ := v1c_tag_part v hv.1 (altLits v1c_tags) v1c_re_tag false
      have ht := (Option.some.inj ht).symm
      subst ht
      have hsa : (st.step (v.tag ++ (V1Pat.render v rest ++ k))).rest = v.tag ++ (V1Pat.render v rest ++ k) := rfl
      obtain ⟨st0, h0, hr0, hc0⟩ := hcons _ (fun h => by cases h) _ hsa
      obtain ⟨st1, h1, hr1, hc1⟩ := head_grp "tag".toList (altLits v1c_tags) _ st0 v.tag _ hsa h0 hr0
      have hb : ((Re.seq (.chr '-') (.grp "tag".toList (altLits v1c_tags))).m st).head? = some st1 :=
        head_seq _ _ st _ st1 (head_chr '-' st _ hst') h1
      have hlt : st1.rest.length < st.rest.length := by
        rw [hr1, hst']
        simp only [List.length_cons, List.length_append]
        omega
      have h1' := head_opt_present _ st st1 hb hlt
      obtain ⟨st2, h2, hr2, hc2⟩ := ihr F r' k st1 hwf.1 hv.2 hr' hk hr1
      refine ⟨st2, head_seqR _ _ st st1 st2 h1' h2, hr2, ?_⟩
      rw [hc2, hc1, hc0]
      simp only [V1Pat.caps, hz, Bool.false_eq_true, ↓reduceIte, List.reverse_cons,
        List.nil_append, List.append_assoc, List.cons_append, MSt.step]

/-- `re.match` on the rendered legacy version: consumed in full, captures = the rendered parts -/
theorem v1_compose_match (v : V1Info) (p : V1Pat) (r : Re) (hwf : V1Pat.wf p FSet.endOnly = true)
    (hv : V1Pat.vok v p = true) (hr : V1Pat.compile p = some r) :
    reMatch r (V1Pat.render v p) =
      some { start := 0, stop := (V1Pat.render v p).length, caps := (V1Pat.caps v p).reverse } := by
  obtain ⟨st', h, hr', hc⟩ := v1_compose_head v p FSet.endOnly r []
    { rest := V1Pat.render v p, start := true, caps := [] } hwf hv hr rfl (by simp)
  simp only [reMatch, h, hr', hc, List.length_nil, Nat.sub_zero, List.append_nil]

/-! ## Reading back -/

/-! ### group names of a compiled tree -/

/-- every supported part has a recogniser, and it contains no named group -/
theorem v1c_specs_re : (v1c_partSpecs.map (·.1)).all (fun n =>
    match v1c_partRe n with
    | some rx => (reGroupNames rx).isEmpty
    | none => false) = true := by
  decide +kernel

theorem v1c_partRe_of_spec (n : Str) (hs : (lookup n v1c_partSpecs).isSome = true) :
    ∃ rx, v1c_partRe n = some rx ∧ reGroupNames rx = [] := by
  have h := v1c_specs_re
  simp only [List.all_eq_true] at h
  have h := h n (lookup_isSome_mem n v1c_partSpecs hs)
  cases hrx : v1c_partRe n with
  | none => rw [hrx] at h; cases h
  | some rx =>
    rw [hrx] at h
    exact ⟨rx, rfl, by simpa using h⟩

theorem v1c_tag_spec : (lookup "tag".toList v1c_partSpecs).isSome = true := by decide

theorem v1c_wf_parts : ∀ (p : V1Pat) (F : FSet), V1Pat.wf p F = true → ∀ n ∈ p.parts,
    (lookup n v1c_partSpecs).isSome = true := by
  intro p
  induction p with
  | done => intro F _ n hn; simp [V1Pat.parts] at hn
  | lit c rest ih =>
    intro F hwf n hn
    simp only [V1Pat.wf] at hwf
    exact ih F hwf n (by simpa [V1Pat.parts] using hn)
  | part m rest ih =>
    intro F hwf n hn
    simp only [V1Pat.wf, Bool.and_eq_true] at hwf
    simp only [V1Pat.parts, List.mem_cons] at hn
    rcases hn with rfl | hn
    · exact hwf.1.1
    · exact ih F hwf.1.2 n hn
  | comp m body rest ihb ihr =>
    intro F hwf n hn
    simp only [V1Pat.wf, Bool.and_eq_true] at hwf
    simp only [V1Pat.parts, List.mem_append] at hn
    rcases hn with hn | hn
    · exact ihb _ hwf.1.2 n hn
    · exact ihr F hwf.2 n hn
  | rel rest ih =>
    intro F hwf n hn
    simp only [V1Pat.wf, Bool.and_eq_true] at hwf
    simp only [V1Pat.parts, List.mem_cons] at hn
    rcases hn with rfl | hn
    · exact v1c_tag_spec
    · exact ih F hwf.1 n hn

theorem v1c_groups_compile : ∀ (p : V1Pat) (F : FSet) (r : Re), V1Pat.wf p F = true →
    V1Pat.compile p = some r → reGroupNames r = p.groups := by
  intro p
  induction p with
  | done =>
    intro F r _ hr
    simp only [V1Pat.compile, Option.some.injEq] at hr
    subst hr; rfl
  | lit c rest ih =>
    intro F r hwf hr
    obtain ⟨r', hr', rfl⟩ := v1c_compile_lit_inv c rest r hr
    simp only [V1Pat.wf] at hwf
    rw [reGroupNames_seqR, ih F r' hwf hr']
    rfl
  | part n rest ih =>
    intro F r hwf hr
    obtain ⟨rx, r', hrx, hr', rfl⟩ := v1c_compile_part_inv n rest r hr
    simp only [V1Pat.wf, Bool.and_eq_true] at hwf
    obtain ⟨rx', hrx', hng⟩ := v1c_partRe_of_spec n hwf.1.1
    rw [hrx] at hrx'
    have e := Option.some.inj hrx'
    subst e
    rw [reGroupNames_seqR, ih F r' hwf.1.2 hr']
    simp only [reGroupNames, hng, V1Pat.groups, List.cons_append, List.nil_append]
  | comp n body rest ihb ihr =>
    intro F r hwf hr
    obtain ⟨b, r', hb, hr', rfl⟩ := v1c_compile_comp_inv n body rest r hr
    simp only [V1Pat.wf, Bool.and_eq_true] at hwf
    rw [reGroupNames_seqR, ihr F r' hwf.2 hr']
    simp only [reGroupNames, ihb _ b hwf.1.2 hb, V1Pat.groups, List.cons_append]
  | rel rest ih =>
    intro F r hwf hr
    obtain ⟨r', hr', rfl⟩ := v1c_compile_rel_inv rest r hr
    simp only [V1Pat.wf, Bool.and_eq_true] at hwf
    rw [reGroupNames_seqR, ih F r' hwf.1 hr']
    have e : reGroupNames (altLits v1c_tags) = [] := by decide
    simp only [reGroupNames, e, V1Pat.groups, List.nil_append, List.cons_append]

/-! ### the captures of the match: keys, and the text found under a part name -/

theorem v1c_parts_sub_groups : ∀ (p : V1Pat), ∀ n ∈ p.parts, n ∈ p.groups := by
  intro p
  induction p with
  | done => intro n hn; simp [V1Pat.parts] at hn
  | lit c rest ih => intro n hn; exact ih n (by simpa [V1Pat.parts] using hn)
  | part m rest ih =>
    intro n hn
    simp only [V1Pat.parts, List.mem_cons] at hn
    simp only [V1Pat.groups, List.mem_cons]
    rcases hn with rfl | hn
    · exact .inl rfl
    · exact .inr (ih n hn)
  | comp m body rest ihb ihr =>
    intro n hn
    simp only [V1Pat.parts, List.mem_append] at hn
    simp only [V1Pat.groups, List.mem_cons, List.mem_append]
    rcases hn with hn | hn
    · exact .inr (.inl (ihb n hn))
    · exact .inr (.inr (ihr n hn))
  | rel rest ih =>
    intro n hn
    simp only [V1Pat.parts, List.mem_cons] at hn
    simp only [V1Pat.groups, List.mem_cons]
    rcases hn with rfl | hn
    · exact .inl rfl
    · exact .inr (ih n hn)

theorem v1c_caps_keys_sub (v : V1Info) : ∀ (p : V1Pat), ∀ x ∈ (V1Pat.caps v p).map (·.1), x ∈ p.groups := by
  intro p
  induction p with
  | done => intro x hx; simp [V1Pat.caps] at hx
  | lit c rest ih => intro x hx; exact ih x (by simpa [V1Pat.caps] using hx)
  | part m rest ih =>
    intro x hx
    simp only [V1Pat.groups, List.mem_cons]
    simp only [V1Pat.caps] at hx
    split at hx
    · simp only [List.map_cons, List.mem_cons] at hx
      rcases hx with rfl | hx
      · exact .inl rfl
      · exact .inr (ih x hx)
    · exact .inr (ih x hx)
  | comp m body rest ihb ihr =>
    intro x hx
    simp only [V1Pat.groups, List.mem_cons, List.mem_append]
    simp only [V1Pat.caps, List.map_append, List.map_cons, List.mem_append, List.mem_cons] at hx
    rcases hx with hx | rfl | hx
    · exact .inr (.inl (ihb x hx))
    · exact .inl rfl
    · exact .inr (.inr (ihr x hx))
  | rel rest ih =>
    intro x hx
    simp only [V1Pat.groups, List.mem_cons]
    simp only [V1Pat.caps, List.map_append, List.mem_append] at hx
    rcases hx with hx | hx
    · split at hx
      · simp at hx
      · simp only [List.map_cons, List.map_nil, List.mem_singleton] at hx
        exact .inl hx
    · exact .inr (ih x hx)

theorem v1c_caps_keys_nodup (v : V1Info) : ∀ (p : V1Pat), p.groups.Nodup →
    ((V1Pat.caps v p).map (·.1)).Nodup := by
  intro p
  induction p with
  | done => intro _; simp [V1Pat.caps]
  | lit c rest ih => intro h; exact ih (by simpa [V1Pat.groups] using h)
  | part m rest ih =>
    intro h
    simp only [V1Pat.groups, List.nodup_cons] at h
    simp only [V1Pat.caps]
    split
    · simp only [List.map_cons, List.nodup_cons]
      exact ⟨fun hm => h.1 (v1c_caps_keys_sub v rest m hm), ih h.2⟩
    · exact ih h.2
  | comp m body rest ihb ihr =>
    intro h
    simp only [V1Pat.groups, List.nodup_cons, List.mem_append, not_or] at h
    obtain ⟨⟨hmb, hmr⟩, hbr⟩ := h
    have hbr' := List.nodup_append.mp hbr
    simp only [V1Pat.caps, List.map_append, List.map_cons]
    apply List.nodup_append.mpr
    refine ⟨ihb hbr'.1, ?_, ?_⟩
    · simp only [List.nodup_cons]
      exact ⟨fun hm => hmr (v1c_caps_keys_sub v rest m hm), ihr hbr'.2.1⟩
    · intro a ha b hb
      simp only [List.mem_cons] at hb
      have ha' := v1c_caps_keys_sub v body a ha
      rcases hb with rfl | hb
      · intro e; subst e; exact hmb ha'
      · exact hbr'.2.2 a ha' b (v1c_caps_keys_sub v rest b hb)
  | rel rest ih =>
    intro h
    simp only [V1Pat.groups, List.nodup_cons] at h
    simp only [V1Pat.caps]
    split
    · simpa using ih h.2
    · simp only [List.cons_append, List.nil_append, List.map_cons, List.nodup_cons]
      exact ⟨fun hm => h.1 (v1c_caps_keys_sub v rest _ hm), ih h.2⟩

theorem v1c_lookup_caps_none (v : V1Info) (p : V1Pat) (n : Str) (h : n ∉ p.groups) :
    lookup n (V1Pat.caps v p) = none :=
  lookup_none_of_not_mem n _ (fun hm => h (v1c_caps_keys_sub v p n hm))

theorem v1c_partText_some (v : V1Info) (n : Str) (hs : (lookup n v1c_partSpecs).isSome = true)
    (hok : v1c_partOk v n = true) : ∃ t, v1c_partText v n = some t := by
  obtain ⟨rx, hrx, _⟩ := v1c_partRe_of_spec n hs
  obtain ⟨t, ht, _⟩ := v1c_part_head v n hok rx hrx
  exact ⟨t, ht⟩

theorem v1c_lookup_cons_ne {α} (n m : Str) (x : α) (l : List (Str × α)) (h : n ≠ m) :
    lookup n ((m, x) :: l) = lookup n l := by
  simp only [lookup, h, ↓reduceIte]

/-- what the match reports under the name of a part of the pattern: its rendered text — or nothing,
    for the `tag` of an omitted `-tag` group (and then the tag is `final`) -/
theorem v1c_caps_lookup (v : V1Info) : ∀ (p : V1Pat) (F : FSet), V1Pat.wf p F = true →
    V1Pat.vok v p = true → p.groups.Nodup → ∀ n ∈ p.parts,
    (∃ t, v1c_partText v n = some t ∧ lookup n (V1Pat.caps v p) = some t) ∨
    (n = "tag".toList ∧ lookup n (V1Pat.caps v p) = none ∧ v1c_isFinal v = true) := by
  intro p
  induction p with
  | done => intro F _ _ _ n hn; simp [V1Pat.parts] at hn
  | lit c rest ih =>
    intro F hwf hv hnd n hn
    simp only [V1Pat.wf] at hwf
    simp only [V1Pat.vok] at hv
    exact ih F hwf hv (by simpa [V1Pat.groups] using hnd) n (by simpa [V1Pat.parts] using hn)
  | part m rest ih =>
    intro F hwf hv hnd n hn
    simp only [V1Pat.wf, Bool.and_eq_true] at hwf
    simp only [V1Pat.vok, Bool.and_eq_true] at hv
    simp only [V1Pat.groups, List.nodup_cons] at hnd
    simp only [V1Pat.parts, List.mem_cons] at hn
    obtain ⟨t, ht⟩ := v1c_partText_some v m hwf.1.1 hv.1
    rw [v1c_caps_part v m rest t ht]
    rcases hn with rfl | hn
    · exact .inl ⟨t, ht, by simp [lookup]⟩
    · have hne : n ≠ m := fun e => hnd.1 (e ▸ v1c_parts_sub_groups rest n hn)
      rw [v1c_lookup_cons_ne n m t _ hne]
      exact ih F hwf.1.2 hv.2 hnd.2 n hn
  | comp m body rest ihb ihr =>
    intro F hwf hv hnd n hn
    simp only [V1Pat.wf, Bool.and_eq_true] at hwf
    simp only [V1Pat.vok, Bool.and_eq_true] at hv
    simp only [V1Pat.groups, List.nodup_cons, List.mem_append, not_or] at hnd
    obtain ⟨⟨hmb, hmr⟩, hbr⟩ := hnd
    have hbr' := List.nodup_append.mp hbr
    simp only [V1Pat.parts, List.mem_append] at hn
    simp only [V1Pat.caps]
    rw [lookup_append_cl]
    rcases hn with hn | hn
    · have hng := v1c_parts_sub_groups body n hn
      rcases ihb _ hwf.1.2 hv.1 hbr'.1 n hn with ⟨t, ht, hl⟩ | ⟨hnt, hl, hf⟩
      · rw [hl]; exact .inl ⟨t, ht, rfl⟩
      · rw [hl]
        have hne : n ≠ m := fun e => hmb (e ▸ hng)
        simp only
        rw [v1c_lookup_cons_ne n m _ _ hne,
          v1c_lookup_caps_none v rest n (fun hr => hbr'.2.2 n hng n hr rfl)]
        exact .inr ⟨hnt, rfl, hf⟩
    · have hng := v1c_parts_sub_groups rest n hn
      have hnb : n ∉ body.groups := fun hb => hbr'.2.2 n hb n hng rfl
      have hne : n ≠ m := fun e => hmr (e ▸ hng)
      rw [v1c_lookup_caps_none v body n hnb]
      simp only
      rw [v1c_lookup_cons_ne n m _ _ hne]
      exact ihr F hwf.2 hv.2 hbr'.2.1 n hn
  | rel rest ih =>
    intro F hwf hv hnd n hn
    simp only [V1Pat.wf, Bool.and_eq_true] at hwf
    simp only [V1Pat.vok, Bool.and_eq_true] at hv
    simp only [V1Pat.groups, List.nodup_cons] at hnd
    simp only [V1Pat.parts, List.mem_cons] at hn
    simp only [V1Pat.caps]
    rcases hn with rfl | hn
    · cases hz : v1c_isFinal v with
      | true =>
        refine .inr ⟨rfl, ?_, rfl⟩
        simp only [↓reduceIte, List.nil_append]
        exact v1c_lookup_caps_none v rest _ hnd.1
      | false =>
        simp only [Bool.false_eq_true, ↓reduceIte, List.cons_append, List.nil_append]
        exact .inl ⟨v.tag, rfl, by simp [lookup]⟩
    · have hne : n ≠ "tag".toList := fun e => hnd.1 (e ▸ v1c_parts_sub_groups rest n hn)
      have e : lookup n ((if v1c_isFinal v = true then [] else [("tag".toList, v.tag)]) ++ V1Pat.caps v rest)
          = lookup n (V1Pat.caps v rest) := by
        split
        · rfl
        · exact v1c_lookup_cons_ne n _ _ _ hne
      rw [e]
      exact ih F hwf.1 hv.2 hnd.2 n hn

/-! ### `_parse_pattern_groups` on the group dictionary of the match -/

theorem v1c_items_keys {α} (c : Str × Str → Bool) (h : Str × Str → α) : ∀ (T : List (Str × Str)),
    (T.filterMap (fun pf => if c pf = true then some (pf.2, h pf) else none)).map (·.1) = (T.filter c).map (·.2) := by
  intro T
  induction T with
  | nil => rfl
  | cons pf T ih =>
    cases hc : c pf with
    | true => simp only [List.filterMap_cons, hc, ↓reduceIte, List.map_cons, List.filter_cons, ih]
    | false => simp only [List.filterMap_cons, hc, Bool.false_eq_true, ↓reduceIte, List.filter_cons, ih]

theorem v1c_items_lookup {α} (c : Str × Str → Bool) (h : Str × Str → α) (f : Str) : ∀ (T : List (Str × Str)),
    lookup f (T.filterMap (fun pf => if c pf = true then some (pf.2, h pf) else none)) =
      ((T.filter c).find? (fun pf => pf.2 == f)).map h := by
  intro T
  induction T with
  | nil => rfl
  | cons pf T ih =>
    cases hc : c pf with
    | true =>
      simp only [List.filterMap_cons, hc, ↓reduceIte, List.filter_cons, lookup, List.find?_cons]
      by_cases e : f = pf.2
      · subst e; simp
      · have : (pf.2 == f) = false := by rw [beq_eq_false_iff_ne]; exact fun x => e x.symm
        simp only [e, ↓reduceIte, this, ih]
    | false => simp only [List.filterMap_cons, hc, Bool.false_eq_true, ↓reduceIte, List.filter_cons, ih]

theorem v1c_fm_congr {α β} (l : List α) (f g : α → Option β) (h : ∀ x, f x = g x) :
    l.filterMap f = l.filterMap g := by
  congr 1; funext x; exact h x

theorem v1c_ppg (G : List Str) (g : Str → Option Str) (hok : v1c_groupsOk G = true) :
    v1ParsePatternGroups (G.map (fun n => (n, g n))) =
      .ok (Gen.v1PatternPartFields.filterMap
        (fun pf => if G.contains pf.1 = true then some (pf.2, g pf.1) else none)) := by
  simp only [v1c_groupsOk, Bool.and_eq_true, Bool.not_eq_true'] at hok
  unfold v1ParsePatternGroups
  rw [v1c_fm_congr Gen.v1PatternPartFields _
    (fun pf => if G.contains pf.1 = true then some (pf.2, g pf.1) else none) ?_]
  · simp only [List.any_map, Function.comp_def, hok.1, Bool.false_eq_true, ↓reduceIte, v1c_items_keys, hok.2]
  · intro pf
    rw [lookup_map_self]
    by_cases hm : pf.1 ∈ G
    · simp [hm]
    · simp [hm]

theorem v1c_nodup_of_count (l : List Str) (h : (l.any (fun f => decide (l.count f > 1))) = false) : l.Nodup := by
  rw [List.nodup_iff_count]
  intro a
  by_cases ha : a ∈ l
  · have := List.any_eq_false.mp h a ha
    simpa using this
  · rw [List.count_eq_zero_of_not_mem ha]; omega

/-- a table whose selected entries have distinct fields: the entry found for field `f` is THE entry -/
theorem v1c_find_unique (c : Str × Str → Bool) (n f : Str) : ∀ (T : List (Str × Str)),
    ((T.filter c).map (·.2)).Nodup → (n, f) ∈ T → c (n, f) = true →
    (T.filter c).find? (fun pf => pf.2 == f) = some (n, f) := by
  intro T
  induction T with
  | nil => intro _ h; cases h
  | cons pf T ih =>
    intro hnd hm hc
    cases hcp : c pf with
    | false =>
      simp only [List.filter_cons, hcp, Bool.false_eq_true, ↓reduceIte] at hnd ⊢
      rcases List.mem_cons.mp hm with e | hm'
      · rw [← e, hc] at hcp; cases hcp
      · exact ih hnd hm' hc
    | true =>
      simp only [List.filter_cons, hcp, ↓reduceIte, List.map_cons, List.nodup_cons] at hnd ⊢
      by_cases e : pf.2 = f
      · have : pf = (n, f) := by
          rcases List.mem_cons.mp hm with e' | hm'
          · exact e'.symm
          · exfalso
            apply hnd.1
            rw [e]
            exact List.mem_map.mpr ⟨(n, f), List.mem_filter.mpr ⟨hm', hc⟩, rfl⟩
        subst this
        simp
      · have hb : (pf.2 == f) = false := by rw [beq_eq_false_iff_ne]; exact e
        rw [List.find?_cons, hb]
        rcases List.mem_cons.mp hm with e' | hm'
        · subst e'; exact absurd rfl e
        · exact ih hnd.2 hm' hc

/-- the group dictionary of the match of `v1_compose_match` -/
theorem v1c_groupdict (v : V1Info) (p : V1Pat) (r : Re) (F : FSet) (hwf : V1Pat.wf p F = true)
    (hnd : p.groups.Nodup) (hr : V1Pat.compile p = some r) (a b : Nat) :
    groupdict r { start := a, stop := b, caps := (V1Pat.caps v p).reverse } =
      p.groups.map (fun n => (n, lookup n (V1Pat.caps v p))) := by
  simp only [groupdict, v1c_groups_compile p F r hwf hr, eraseDups_of_nodup _ hnd, Match.group]
  apply List.map_congr_left
  intro n _
  rw [lookup_reverse n _ (v1c_caps_keys_nodup v p hnd)]

/-- the field values `_parse_pattern_groups` hands to `_parse_field_values` -/
def v1c_fv (v : V1Info) (p : V1Pat) : FVals :=
  Gen.v1PatternPartFields.filterMap
    (fun pf => if p.groups.contains pf.1 = true then some (pf.2, lookup pf.1 (V1Pat.caps v p)) else none)

theorem v1c_parseGroups_eq (v : V1Info) (p : V1Pat) (hok : v1c_groupsOk p.groups = true) :
    v1ParseGroups (p.groups.map (fun n => (n, lookup n (V1Pat.caps v p)))) =
      v1ParseFieldValues (v1c_fv v p) := by
  unfold v1ParseGroups
  rw [v1c_ppg p.groups (fun n => lookup n (V1Pat.caps v p)) hok]
  rfl

theorem v1c_fv_lookup (v : V1Info) (p : V1Pat) (f : Str) :
    lookup f (v1c_fv v p) = (p.fieldPart f).map (fun n => lookup n (V1Pat.caps v p)) := by
  unfold v1c_fv V1Pat.fieldPart
  rw [v1c_items_lookup (fun pf => p.groups.contains pf.1) (fun pf => lookup pf.1 (V1Pat.caps v p)) f,
    Option.map_map]
  rfl

theorem v1c_fieldPart_inv (p : V1Pat) (f n : Str) (h : p.fieldPart f = some n) :
    n ∈ p.groups ∧ (n, f) ∈ Gen.v1PatternPartFields := by
  unfold V1Pat.fieldPart at h
  cases hf : (Gen.v1PatternPartFields.filter (fun pf => p.groups.contains pf.1)).find? (fun pf => pf.2 == f) with
  | none => rw [hf] at h; cases h
  | some pf =>
    rw [hf] at h
    simp only [Option.map_some, Option.some.injEq] at h
    have h1 := List.find?_some hf
    have h2 := List.mem_filter.mp (List.mem_of_find?_eq_some hf)
    simp only [beq_iff_eq] at h1
    obtain ⟨a, b⟩ := pf
    simp only at h h1 h2
    subst h h1
    exact ⟨by simpa using h2.2, h2.1⟩

theorem v1c_fieldPart_of (p : V1Pat) (hok : v1c_groupsOk p.groups = true) (n f : Str) (hn : n ∈ p.groups)
    (hT : (n, f) ∈ Gen.v1PatternPartFields) : p.fieldPart f = some n := by
  simp only [v1c_groupsOk, Bool.and_eq_true, Bool.not_eq_true'] at hok
  unfold V1Pat.fieldPart
  rw [v1c_find_unique (fun pf => p.groups.contains pf.1) n f _ (v1c_nodup_of_count _ hok.2) hT
    (by simpa using hn)]
  rfl

/-! ### composites are not parts with a field -/

theorem v1c_comp_not_field : Gen.v1CompositePartPatterns.all (fun c =>
    !(v1HasKey c.1 Gen.v1PatternPartFields)) = true := by decide +kernel

theorem v1c_mem_hasKey (k x : Str) : ∀ (l : List (Str × Str)), (k, x) ∈ l → v1HasKey k l = true := by
  intro l
  induction l with
  | nil => intro h; cases h
  | cons q l ih =>
    intro h
    obtain ⟨k', y⟩ := q
    unfold v1HasKey
    simp only [lookup]
    split
    · rfl
    · next hne =>
      rcases List.mem_cons.mp h with e | hm
      · simp only [Prod.mk.injEq] at e; exact absurd e.1 hne
      · exact ih hm

theorem v1c_groups_cases : ∀ (p : V1Pat) (F : FSet), V1Pat.wf p F = true → ∀ n ∈ p.groups,
    n ∈ p.parts ∨ v1HasKey n Gen.v1CompositePartPatterns = true := by
  intro p
  induction p with
  | done => intro F _ n hn; simp [V1Pat.groups] at hn
  | lit c rest ih =>
    intro F hwf n hn
    simp only [V1Pat.wf] at hwf
    exact ih F hwf n (by simpa [V1Pat.groups] using hn)
  | part m rest ih =>
    intro F hwf n hn
    simp only [V1Pat.wf, Bool.and_eq_true] at hwf
    simp only [V1Pat.groups, List.mem_cons] at hn
    simp only [V1Pat.parts, List.mem_cons]
    rcases hn with rfl | hn
    · exact .inl (.inl rfl)
    · rcases ih F hwf.1.2 n hn with h | h
      · exact .inl (.inr h)
      · exact .inr h
  | comp m body rest ihb ihr =>
    intro F hwf n hn
    simp only [V1Pat.wf, Bool.and_eq_true] at hwf
    simp only [V1Pat.groups, List.mem_cons, List.mem_append] at hn
    simp only [V1Pat.parts, List.mem_append]
    rcases hn with rfl | hn | hn
    · exact .inr hwf.1.1
    · rcases ihb _ hwf.1.2 n hn with h | h
      · exact .inl (.inl h)
      · exact .inr h
    · rcases ihr F hwf.2 n hn with h | h
      · exact .inl (.inr h)
      · exact .inr h
  | rel rest ih =>
    intro F hwf n hn
    simp only [V1Pat.wf, Bool.and_eq_true] at hwf
    simp only [V1Pat.groups, List.mem_cons] at hn
    simp only [V1Pat.parts, List.mem_cons]
    rcases hn with rfl | hn
    · exact .inl (.inl rfl)
    · rcases ih F hwf.1 n hn with h | h
      · exact .inl (.inr h)
      · exact .inr h

/-- the part a field is read from is a PART of the tree (not a composite) -/
theorem v1c_fieldPart_part (p : V1Pat) (F : FSet) (hwf : V1Pat.wf p F = true) (f n : Str)
    (h : p.fieldPart f = some n) : n ∈ p.parts ∧ (n, f) ∈ Gen.v1PatternPartFields := by
  obtain ⟨hg, hT⟩ := v1c_fieldPart_inv p f n h
  refine ⟨?_, hT⟩
  rcases v1c_groups_cases p F hwf n hg with h1 | h1
  · exact h1
  · exfalso
    have ht := v1c_comp_not_field
    simp only [List.all_eq_true, Bool.not_eq_true'] at ht
    have hm := lookup_isSome_mem n Gen.v1CompositePartPatterns h1
    obtain ⟨c, hc, rfl⟩ := List.mem_map.mp hm
    have := ht c hc
    rw [v1c_mem_hasKey _ _ _ hT] at this
    cases this

theorem v1c_vok_parts (v : V1Info) : ∀ (p : V1Pat), V1Pat.vok v p = true → ∀ n ∈ p.parts,
    v1c_partOk v n = true := by
  intro p
  induction p with
  | done => intro _ n hn; simp [V1Pat.parts] at hn
  | lit c rest ih =>
    intro hv n hn
    simp only [V1Pat.vok] at hv
    exact ih hv n (by simpa [V1Pat.parts] using hn)
  | part m rest ih =>
    intro hv n hn
    simp only [V1Pat.vok, Bool.and_eq_true] at hv
    simp only [V1Pat.parts, List.mem_cons] at hn
    rcases hn with rfl | hn
    · exact hv.1
    · exact ih hv.2 n hn
  | comp m body rest ihb ihr =>
    intro hv n hn
    simp only [V1Pat.vok, Bool.and_eq_true] at hv
    simp only [V1Pat.parts, List.mem_append] at hn
    rcases hn with hn | hn
    · exact ihb hv.1 n hn
    · exact ihr hv.2 n hn
  | rel rest ih =>
    intro hv n hn
    simp only [V1Pat.vok, Bool.and_eq_true] at hv
    simp only [V1Pat.parts, List.mem_cons] at hn
    rcases hn with rfl | hn
    · exact hv.1
    · exact ih hv.2 n hn

/-! ### which parts name a field -/

def v1c_cands (f : String) : List (Str × Str) := Gen.v1PatternPartFields.filter (fun pf => pf.2 == f.toList)

theorem v1c_cands_year : v1c_cands "year" = [("year".toList, "year".toList), ("yy".toList, "year".toList), ("yyyy".toList, "year".toList)] := by decide +kernel
theorem v1c_cands_month : v1c_cands "month" = [("month".toList, "month".toList), ("month_short".toList, "month".toList)] := by decide +kernel
theorem v1c_cands_dom : v1c_cands "dom" = [("dom".toList, "dom".toList), ("dom_short".toList, "dom".toList)] := by decide +kernel
theorem v1c_cands_doy : v1c_cands "doy" = [("doy".toList, "doy".toList), ("doy_short".toList, "doy".toList)] := by decide +kernel
theorem v1c_cands_quarter : v1c_cands "quarter" = [("quarter".toList, "quarter".toList)] := by decide +kernel
theorem v1c_cands_major : v1c_cands "major" = [("MAJOR".toList, "major".toList)] := by decide +kernel
theorem v1c_cands_minor : v1c_cands "minor" = [("MINOR".toList, "minor".toList), ("MM".toList, "minor".toList),
    ("MMM".toList, "minor".toList), ("MMMM".toList, "minor".toList), ("MMMMM".toList, "minor".toList)] := by decide +kernel
theorem v1c_cands_patch : v1c_cands "patch" = [("PP".toList, "patch".toList), ("PPP".toList, "patch".toList),
    ("PPPP".toList, "patch".toList), ("PPPPP".toList, "patch".toList), ("PATCH".toList, "patch".toList)] := by decide +kernel
theorem v1c_cands_bid : v1c_cands "bid" = [("build_no".toList, "bid".toList), ("bid".toList, "bid".toList),
    ("BID".toList, "bid".toList), ("BB".toList, "bid".toList), ("BBB".toList, "bid".toList), ("BBBB".toList, "bid".toList),
    ("BBBBB".toList, "bid".toList), ("BBBBBB".toList, "bid".toList), ("BBBBBBB".toList, "bid".toList)] := by decide +kernel
theorem v1c_cands_tag : v1c_cands "tag" = [("pep440_tag".toList, "tag".toList), ("tag".toList, "tag".toList)] := by decide +kernel

theorem v1c_mem_cands (n : Str) (f : String) (h : (n, f.toList) ∈ Gen.v1PatternPartFields) :
    (n, f.toList) ∈ v1c_cands f := by
  unfold v1c_cands
  exact List.mem_filter.mpr ⟨h, by simp⟩

/-- the only entry of `PATTERN_PART_FIELDS` for the part `tag` -/
theorem v1c_tag_field (f : Str) (h : ("tag".toList, f) ∈ Gen.v1PatternPartFields) : f = "tag".toList := by
  have e : Gen.v1PatternPartFields.filter (fun pf => pf.1 == "tag".toList) = [("tag".toList, "tag".toList)] := by
    decide +kernel
  have hm : ("tag".toList, f) ∈ Gen.v1PatternPartFields.filter (fun pf => pf.1 == "tag".toList) :=
    List.mem_filter.mpr ⟨h, by simp⟩
  rw [e] at hm
  simp only [List.mem_singleton, Prod.mk.injEq] at hm
  exact hm.2

/-! ### the table of supported parts, entry by entry -/

theorem v1c_pt_year (v : V1Info) : v1c_partText v "year".toList = v.year.map natToStr := rfl
theorem v1c_pt_yyyy (v : V1Info) : v1c_partText v "yyyy".toList = v.year.map natToStr := rfl
theorem v1c_pt_yy (v : V1Info) : v1c_partText v "yy".toList = v.year.map (fun y => last2 (natToStr y)) := rfl
theorem v1c_pt_quarter (v : V1Info) : v1c_partText v "quarter".toList = v.quarter.map natToStr := rfl
theorem v1c_pt_month (v : V1Info) : v1c_partText v "month".toList = v.month.map (fun m => zfill 2 (natToStr m)) := rfl
theorem v1c_pt_month_short (v : V1Info) : v1c_partText v "month_short".toList = v.month.map natToStr := rfl
theorem v1c_pt_dom (v : V1Info) : v1c_partText v "dom".toList = v.dom.map (fun d => zfill 2 (natToStr d)) := rfl
theorem v1c_pt_doy (v : V1Info) : v1c_partText v "doy".toList = v.doy.map (fun d => zfill 3 (natToStr d)) := rfl
theorem v1c_pt_MAJOR (v : V1Info) : v1c_partText v "MAJOR".toList = some (natToStr v.major) := rfl
theorem v1c_pt_MINOR (v : V1Info) : v1c_partText v "MINOR".toList = some (natToStr v.minor) := rfl
theorem v1c_pt_PATCH (v : V1Info) : v1c_partText v "PATCH".toList = some (natToStr v.patch) := rfl
theorem v1c_pt_MM (v : V1Info) : v1c_partText v "MM".toList = some (zfill 2 (natToStr v.minor)) := rfl
theorem v1c_pt_MMM (v : V1Info) : v1c_partText v "MMM".toList = some (zfill 3 (natToStr v.minor)) := rfl
theorem v1c_pt_MMMM (v : V1Info) : v1c_partText v "MMMM".toList = some (zfill 4 (natToStr v.minor)) := rfl
theorem v1c_pt_MMMMM (v : V1Info) : v1c_partText v "MMMMM".toList = some (zfill 5 (natToStr v.minor)) := rfl
theorem v1c_pt_PP (v : V1Info) : v1c_partText v "PP".toList = some (zfill 2 (natToStr v.patch)) := rfl
theorem v1c_pt_PPP (v : V1Info) : v1c_partText v "PPP".toList = some (zfill 3 (natToStr v.patch)) := rfl
theorem v1c_pt_PPPP (v : V1Info) : v1c_partText v "PPPP".toList = some (zfill 4 (natToStr v.patch)) := rfl
theorem v1c_pt_PPPPP (v : V1Info) : v1c_partText v "PPPPP".toList = some (zfill 5 (natToStr v.patch)) := rfl
theorem v1c_pt_build_no (v : V1Info) : v1c_partText v "build_no".toList = some v.bid := rfl
theorem v1c_pt_bid (v : V1Info) : v1c_partText v "bid".toList = some v.bid := rfl
theorem v1c_pt_BID (v : V1Info) : v1c_partText v "BID".toList = some (natToStr (strToNat v.bid)) := rfl
theorem v1c_pt_tag (v : V1Info) : v1c_partText v "tag".toList = some v.tag := rfl
theorem v1c_po_year (v : V1Info) : v1c_partOk v "year".toList = optIn v.year 1000 9999 := rfl
theorem v1c_po_yyyy (v : V1Info) : v1c_partOk v "yyyy".toList = optIn v.year 1000 9999 := rfl
theorem v1c_po_yy (v : V1Info) : v1c_partOk v "yy".toList = optIn v.year 2000 2099 := rfl
theorem v1c_po_quarter (v : V1Info) : v1c_partOk v "quarter".toList = optIn v.quarter 1 4 := rfl
theorem v1c_po_month (v : V1Info) : v1c_partOk v "month".toList = optIn v.month 1 12 := rfl
theorem v1c_po_month_short (v : V1Info) : v1c_partOk v "month_short".toList = optIn v.month 1 12 := rfl
theorem v1c_po_dom (v : V1Info) : v1c_partOk v "dom".toList = optIn v.dom 1 31 := rfl
theorem v1c_po_doy (v : V1Info) : v1c_partOk v "doy".toList = optIn v.doy 1 366 := rfl
theorem v1c_po_build_no (v : V1Info) : v1c_partOk v "build_no".toList = v1c_bidOk v := rfl
theorem v1c_po_bid (v : V1Info) : v1c_partOk v "bid".toList = v1c_bidOk v := rfl
theorem v1c_po_BID (v : V1Info) : v1c_partOk v "BID".toList = (isDigitStr v.bid && decide (1 ≤ strToNat v.bid)) := rfl
theorem v1c_po_tag (v : V1Info) : v1c_partOk v "tag".toList = v1c_tags.contains v.tag := rfl

theorem v1c_unsupported : ["dom_short", "doy_short", "BB", "BBB", "BBBB", "BBBBB", "BBBBBB", "BBBBBBB", "pep440_tag"].all (fun n => (lookup n.toList v1c_partSpecs).isNone) = true := by decide

/-! ### reading one field -/

/-- the hypotheses of the round trip, bundled -/
structure V1Ctx (v : V1Info) (p : V1Pat) : Prop where
  wf : V1Pat.wf p FSet.endOnly = true
  nd : p.groups.Nodup
  gok : v1c_groupsOk p.groups = true
  vok : V1Pat.vok v p = true

theorem v1c_ctx_of (v : V1Info) (p : V1Pat) (hwf : V1Pat.wfTop p = true) (hv : V1Pat.vok v p = true) :
    V1Ctx v p := by
  simp only [V1Pat.wfTop, Bool.and_eq_true] at hwf
  exact ⟨hwf.1.1, (nodupStr_iff _).mp hwf.1.2, hwf.2, hv⟩

theorem V1Ctx.field {v : V1Info} {p : V1Pat} (c : V1Ctx v p) (f n : Str) (h : p.fieldPart f = some n) :
    n ∈ p.parts ∧ (n, f) ∈ Gen.v1PatternPartFields ∧ v1c_partOk v n = true ∧
    (lookup n v1c_partSpecs).isSome = true := by
  obtain ⟨h1, h2⟩ := v1c_fieldPart_part p _ c.wf f n h
  exact ⟨h1, h2, v1c_vok_parts v p c.vok n h1, v1c_wf_parts p _ c.wf n h1⟩

/-- what `int(fvals[f])` sees -/
def v1c_rd (v : V1Info) (p : V1Pat) (f : String) : Option Nat :=
  (p.fieldPart f.toList).bind (fun n => (v1c_partText v n).map strToNat)

theorem v1c_intField {v : V1Info} {p : V1Pat} (c : V1Ctx v p) (f : String) (hf : f.toList ≠ "tag".toList) :
    v1IntField (v1c_fv v p) f = .ok (v1c_rd v p f) := by
  unfold v1IntField v1c_rd
  rw [v1c_fv_lookup]
  cases h : p.fieldPart f.toList with
  | none => rfl
  | some n =>
    obtain ⟨hp, hT, _, _⟩ := c.field _ n h
    rcases v1c_caps_lookup v p _ c.wf c.vok c.nd n hp with ⟨t, ht, hl⟩ | ⟨hn, _, _⟩
    · simp only [Option.map_some, hl, Option.bind_some, ht]
    · subst hn
      exact absurd (v1c_tag_field _ hT) hf

theorem v1c_rd_generic {v : V1Info} {p : V1Pat} (c : V1Ctx v p) (f : String) (val : Option Nat)
    (hc : ∀ n, (n, f.toList) ∈ v1c_cands f → (lookup n v1c_partSpecs).isSome = true →
      v1c_partOk v n = true → (v1c_partText v n).map strToNat = val) :
    v1c_rd v p f = if p.hasField f = true then val else none := by
  unfold v1c_rd V1Pat.hasField
  cases h : p.fieldPart f.toList with
  | none => rfl
  | some n =>
    obtain ⟨_, hT, hok, hs⟩ := c.field _ n h
    simp only [Option.bind_some, Option.isSome_some, ↓reduceIte]
    exact hc n (v1c_mem_cands n f hT) hs hok

theorem v1c_read_map (o : Option Nat) (fmt : Nat → Str) (h : ∀ x, strToNat (fmt x) = x) :
    (o.map fmt).map strToNat = o := by
  cases o with
  | none => rfl
  | some x => simp [h]

theorem v1c_zf (w x : Nat) : strToNat (zfill w (natToStr x)) = x := by
  rw [strToNat_zfill, strToNat_natToStr]

theorem v1c_rd_month {v : V1Info} {p : V1Pat} (c : V1Ctx v p) :
    v1c_rd v p "month" = if p.hasField "month" = true then v.month else none := by
  apply v1c_rd_generic c
  intro n hn hs _
  rw [v1c_cands_month] at hn
  simp only [List.mem_cons, Prod.mk.injEq, List.not_mem_nil, or_false] at hn
  rcases hn with ⟨rfl, _⟩ | ⟨rfl, _⟩
  · rw [v1c_pt_month]; exact v1c_read_map _ _ (v1c_zf 2)
  · rw [v1c_pt_month_short]; exact v1c_read_map _ _ strToNat_natToStr

theorem v1c_rd_dom {v : V1Info} {p : V1Pat} (c : V1Ctx v p) :
    v1c_rd v p "dom" = if p.hasField "dom" = true then v.dom else none := by
  apply v1c_rd_generic c
  intro n hn hs _
  rw [v1c_cands_dom] at hn
  simp only [List.mem_cons, Prod.mk.injEq, List.not_mem_nil, or_false] at hn
  rcases hn with ⟨rfl, _⟩ | ⟨rfl, _⟩
  · rw [v1c_pt_dom]; exact v1c_read_map _ _ (v1c_zf 2)
  · exact absurd hs (by decide)

theorem v1c_rd_doy {v : V1Info} {p : V1Pat} (c : V1Ctx v p) :
    v1c_rd v p "doy" = if p.hasField "doy" = true then v.doy else none := by
  apply v1c_rd_generic c
  intro n hn hs _
  rw [v1c_cands_doy] at hn
  simp only [List.mem_cons, Prod.mk.injEq, List.not_mem_nil, or_false] at hn
  rcases hn with ⟨rfl, _⟩ | ⟨rfl, _⟩
  · rw [v1c_pt_doy]; exact v1c_read_map _ _ (v1c_zf 3)
  · exact absurd hs (by decide)

theorem v1c_rd_quarter {v : V1Info} {p : V1Pat} (c : V1Ctx v p) :
    v1c_rd v p "quarter" = if p.hasField "quarter" = true then v.quarter else none := by
  apply v1c_rd_generic c
  intro n hn hs _
  rw [v1c_cands_quarter] at hn
  simp only [List.mem_cons, Prod.mk.injEq, List.not_mem_nil, or_false] at hn
  rcases hn with ⟨rfl, _⟩
  rw [v1c_pt_quarter]; exact v1c_read_map _ _ strToNat_natToStr

theorem v1c_rd_major {v : V1Info} {p : V1Pat} (c : V1Ctx v p) :
    v1c_rd v p "major" = if p.hasField "major" = true then some v.major else none := by
  apply v1c_rd_generic c
  intro n hn hs _
  rw [v1c_cands_major] at hn
  simp only [List.mem_cons, Prod.mk.injEq, List.not_mem_nil, or_false] at hn
  rcases hn with ⟨rfl, _⟩
  rw [v1c_pt_MAJOR]; simp only [Option.map_some, strToNat_natToStr]

theorem v1c_rd_minor {v : V1Info} {p : V1Pat} (c : V1Ctx v p) :
    v1c_rd v p "minor" = if p.hasField "minor" = true then some v.minor else none := by
  apply v1c_rd_generic c
  intro n hn hs _
  rw [v1c_cands_minor] at hn
  simp only [List.mem_cons, Prod.mk.injEq, List.not_mem_nil, or_false] at hn
  rcases hn with ⟨rfl, _⟩ | ⟨rfl, _⟩ | ⟨rfl, _⟩ | ⟨rfl, _⟩ | ⟨rfl, _⟩
  · rw [v1c_pt_MINOR]; simp only [Option.map_some, strToNat_natToStr]
  · rw [v1c_pt_MM]; simp only [Option.map_some, v1c_zf]
  · rw [v1c_pt_MMM]; simp only [Option.map_some, v1c_zf]
  · rw [v1c_pt_MMMM]; simp only [Option.map_some, v1c_zf]
  · rw [v1c_pt_MMMMM]; simp only [Option.map_some, v1c_zf]

theorem v1c_rd_patch {v : V1Info} {p : V1Pat} (c : V1Ctx v p) :
    v1c_rd v p "patch" = if p.hasField "patch" = true then some v.patch else none := by
  apply v1c_rd_generic c
  intro n hn hs _
  rw [v1c_cands_patch] at hn
  simp only [List.mem_cons, Prod.mk.injEq, List.not_mem_nil, or_false] at hn
  rcases hn with ⟨rfl, _⟩ | ⟨rfl, _⟩ | ⟨rfl, _⟩ | ⟨rfl, _⟩ | ⟨rfl, _⟩
  · rw [v1c_pt_PP]; simp only [Option.map_some, v1c_zf]
  · rw [v1c_pt_PPP]; simp only [Option.map_some, v1c_zf]
  · rw [v1c_pt_PPPP]; simp only [Option.map_some, v1c_zf]
  · rw [v1c_pt_PPPPP]; simp only [Option.map_some, v1c_zf]
  · rw [v1c_pt_PATCH]; simp only [Option.map_some, strToNat_natToStr]

/-- `int(year)`, `+ 2000` below 100 -/
def v1c_yadj (y : Nat) : Nat := if y < 100 then y + 2000 else y

/-- the year read back (with the two-digit rule) is the year of the record; it is at least 1000 -/
theorem v1c_rd_year {v : V1Info} {p : V1Pat} (c : V1Ctx v p) :
    (v1c_rd v p "year").map v1c_yadj = (if p.hasField "year" = true then v.year else none) ∧
    (p.hasField "year" = true → optIn v.year 1000 9999 = true) := by
  unfold v1c_rd V1Pat.hasField
  cases h : p.fieldPart "year".toList with
  | none => exact ⟨rfl, fun h => by cases h⟩
  | some n =>
    obtain ⟨_, hT, hok, hs⟩ := c.field _ n h
    simp only [Option.bind_some, Option.isSome_some, ↓reduceIte, forall_const]
    have hn := v1c_mem_cands n "year" hT
    rw [v1c_cands_year] at hn
    simp only [List.mem_cons, Prod.mk.injEq, List.not_mem_nil, or_false] at hn
    have big : ∀ y, 1000 ≤ y → v1c_yadj y = y := fun y hy => by simp only [v1c_yadj]; split <;> omega
    rcases hn with ⟨rfl, _⟩ | ⟨rfl, _⟩ | ⟨rfl, _⟩
    · rw [v1c_po_year] at hok
      refine ⟨?_, hok⟩
      rw [v1c_pt_year]
      cases hy : v.year with
      | none => rw [hy] at hok; cases hok
      | some y =>
        rw [hy] at hok
        simp only [optIn, Bool.and_eq_true, decide_eq_true_eq] at hok
        simp only [Option.map_some, strToNat_natToStr, big y hok.1]
    · rw [v1c_po_yy] at hok
      rw [v1c_pt_yy]
      cases hy : v.year with
      | none => rw [hy] at hok; cases hok
      | some y =>
        rw [hy] at hok
        simp only [optIn, Bool.and_eq_true, decide_eq_true_eq] at hok
        obtain ⟨_, _, hr⟩ := v1c_yy_facts y hok.1 hok.2
        refine ⟨?_, by simp only [optIn, Bool.and_eq_true, decide_eq_true_eq]; omega⟩
        simp only [Option.map_some, Option.some.injEq, v1c_yadj]
        split <;> omega
    · rw [v1c_po_yyyy] at hok
      refine ⟨?_, hok⟩
      rw [v1c_pt_yyyy]
      cases hy : v.year with
      | none => rw [hy] at hok; cases hok
      | some y =>
        rw [hy] at hok
        simp only [optIn, Bool.and_eq_true, decide_eq_true_eq] at hok
        simp only [Option.map_some, strToNat_natToStr, big y hok.1]


/-! ### `_parse_field_values` after its reads -/


/-- `_parse_field_values` after its reads -/
def v1c_core (tagF bidF : Option (Option Str)) (year0 doy0 m0 d0 quarter0 : Option Nat) (major minor patch : Nat) :
    Except V1Err V1Info := do
  let tag0 : Str := match tagF with
    | some (some t) => t
    | _ => "final".toList
  let tag := (lookup tag0 Gen.tagByPep440Tag).getD tag0
  let bid ← match bidF with
    | none => pure "0001".toList
    | some (some s) => pure s
    | some none => throw .unsupported
  let year := year0.map (fun y => if y < 100 then y + 2000 else y)
  let (month, dom) ←
    if truthy year && truthy doy0 then
      match dateFromDoy (year.getD 0) (doy0.getD 0) with
      | some d => pure (some d.2.1, some d.2.2)
      | none => throw .overflow
    else (pure (m0, d0) : Except V1Err _)
  let (doy, isoWeek, usWeek) ←
    if truthy year && truthy month && truthy dom then
      let y := year.getD 0
      let m := month.getD 0
      let d := dom.getD 0
      if validDate y m d then pure (some (dayOfYear y m d), some (weekW y m d), some (weekU y m d))
      else throw .valueError
    else (pure (doy0, none, none) : Except V1Err _)
  let quarter := match quarter0 with
    | some q => some q
    | none => if truthy month then some (quarterFromMonth (month.getD 0)) else none
  pure { year := year, quarter := quarter, month := month, dom := dom, doy := doy, isoWeek := isoWeek,
         usWeek := usWeek, major := major, minor := minor, patch := patch, bid := bid, tag := tag }

theorem v1c_pfv_eq (fv : FVals) (y0 j0 m0 d0 q0 a b c : Option Nat)
    (h1 : v1IntField fv "year" = .ok y0) (h2 : v1IntField fv "doy" = .ok j0)
    (h3 : v1IntField fv "month" = .ok m0) (h4 : v1IntField fv "dom" = .ok d0)
    (h5 : v1IntField fv "quarter" = .ok q0) (h6 : v1IntField fv "major" = .ok a)
    (h7 : v1IntField fv "minor" = .ok b) (h8 : v1IntField fv "patch" = .ok c) :
    v1ParseFieldValues fv =
      v1c_core (lookup "tag".toList fv) (lookup "bid".toList fv) y0 j0 m0 d0 q0 (a.getD 0) (b.getD 0) (c.getD 0) := by
  unfold v1ParseFieldValues v1IntFieldOr0
  rw [h1, h2, h3, h4, h5, h6, h7, h8]
  rfl

/-- the tag `_parse_field_values` makes of the `tag` entry -/
def v1c_tagOf (tagF : Option (Option Str)) : Str :=
  let tag0 : Str := match tagF with
    | some (some t) => t
    | _ => "final".toList
  (lookup tag0 Gen.tagByPep440Tag).getD tag0

def v1c_qOf (q0 month : Option Nat) : Option Nat :=
  match q0 with
  | some q => some q
  | none => if truthy month then some (quarterFromMonth (month.getD 0)) else none

theorem v1c_validDate_pos (y m d : Nat) (h : validDate y m d = true) : y ≠ 0 ∧ m ≠ 0 ∧ d ≠ 0 := by
  simp only [validDate, Bool.and_eq_true, decide_eq_true_eq] at h
  omega

theorem v1c_truthy_some (x : Nat) (h : x ≠ 0) : truthy (some x) = true := by simp [truthy, h]

/-- year and day of year shown: month and day come from `date_from_doy` -/
theorem v1c_core_doy (tagF : Option (Option Str)) (ob : Option Str) (y0 : Option Nat) (y j : Nat)
    (hY : y0.map v1c_yadj = some y) (hj : j ≠ 0) (d : Nat × Nat × Nat) (hd : dateFromDoy y j = some d)
    (hv : validDate y d.2.1 d.2.2 = true) (m0 d0 q0 : Option Nat) (a b c : Nat) :
    v1c_core tagF (ob.map some) y0 (some j) m0 d0 q0 a b c =
      .ok { year := some y, quarter := v1c_qOf q0 (some d.2.1), month := some d.2.1, dom := some d.2.2,
            doy := some (dayOfYear y d.2.1 d.2.2), isoWeek := some (weekW y d.2.1 d.2.2),
            usWeek := some (weekU y d.2.1 d.2.2), major := a, minor := b, patch := c,
            bid := ob.getD "0001".toList, tag := v1c_tagOf tagF } := by
  have hY' : y0.map (fun y => if y < 100 then y + 2000 else y) = some y := hY
  obtain ⟨hy, hm, hdd⟩ := v1c_validDate_pos _ _ _ hv
  have t1 := v1c_truthy_some y hy
  have t2 := v1c_truthy_some j hj
  have t3 := v1c_truthy_some _ hm
  have t4 := v1c_truthy_some _ hdd
  unfold v1c_core
  rw [hY']
  cases ob with
  | none =>
    simp only [Option.map_none, t1, t2, Bool.and_self, ↓reduceIte, Option.getD_some, hd, bind,
      Except.bind, pure, Except.pure, t3, t4, hv, v1c_qOf, v1c_tagOf, Option.getD_none]
  | some s =>
    simp only [Option.map_some, t1, t2, Bool.and_self, ↓reduceIte, Option.getD_some, hd, bind,
      Except.bind, pure, Except.pure, t3, t4, hv, v1c_qOf, v1c_tagOf]

/-- year, month and day shown (no day of year): the date is checked, the day of year computed -/
theorem v1c_core_ymd (tagF : Option (Option Str)) (ob : Option Str) (y0 : Option Nat) (y m d : Nat)
    (hY : y0.map v1c_yadj = some y) (hv : validDate y m d = true) (q0 : Option Nat) (a b c : Nat) :
    v1c_core tagF (ob.map some) y0 none (some m) (some d) q0 a b c =
      .ok { year := some y, quarter := v1c_qOf q0 (some m), month := some m, dom := some d,
            doy := some (dayOfYear y m d), isoWeek := some (weekW y m d),
            usWeek := some (weekU y m d), major := a, minor := b, patch := c,
            bid := ob.getD "0001".toList, tag := v1c_tagOf tagF } := by
  have hY' : y0.map (fun y => if y < 100 then y + 2000 else y) = some y := hY
  obtain ⟨hy, hm, hdd⟩ := v1c_validDate_pos _ _ _ hv
  have t1 := v1c_truthy_some y hy
  have t3 := v1c_truthy_some _ hm
  have t4 := v1c_truthy_some _ hdd
  have t0 : truthy none = false := rfl
  unfold v1c_core
  rw [hY']
  cases ob with
  | none =>
    simp only [Option.map_none, t1, t0, Bool.and_false, Bool.false_eq_true, Bool.and_self, ↓reduceIte,
      Option.getD_some, bind, Except.bind, pure, Except.pure, t3, t4, hv, v1c_qOf, v1c_tagOf, Option.getD_none]
  | some s =>
    simp only [Option.map_some, t1, t0, Bool.and_false, Bool.false_eq_true, Bool.and_self, ↓reduceIte,
      Option.getD_some, bind, Except.bind, pure, Except.pure, t3, t4, hv, v1c_qOf, v1c_tagOf]

/-- otherwise every calendar field is passed through -/
theorem v1c_core_pass (tagF : Option (Option Str)) (ob : Option Str) (y0 Y j0 m0 d0 q0 : Option Nat)
    (hY : y0.map v1c_yadj = Y) (h1 : (truthy Y && truthy j0) = false)
    (h2 : (truthy Y && truthy m0 && truthy d0) = false) (a b c : Nat) :
    v1c_core tagF (ob.map some) y0 j0 m0 d0 q0 a b c =
      .ok { year := Y, quarter := v1c_qOf q0 m0, month := m0, dom := d0,
            doy := j0, isoWeek := none, usWeek := none, major := a, minor := b, patch := c,
            bid := ob.getD "0001".toList, tag := v1c_tagOf tagF } := by
  have hY' : y0.map (fun y => if y < 100 then y + 2000 else y) = Y := hY
  unfold v1c_core
  rw [hY']
  cases ob with
  | none =>
    simp only [Option.map_none, h1, h2, Bool.false_eq_true, ↓reduceIte, bind, Except.bind, pure,
      Except.pure, v1c_qOf, v1c_tagOf, Option.getD_none]
  | some s =>
    simp only [Option.map_some, h1, h2, Bool.false_eq_true, ↓reduceIte, bind, Except.bind, pure,
      Except.pure, v1c_qOf, v1c_tagOf, Option.getD_some]


/-! ### domains of the calendar fields that are shown -/

theorem v1c_dom_month {v : V1Info} {p : V1Pat} (c : V1Ctx v p) (h : p.hasField "month" = true) :
    optIn v.month 1 12 = true := by
  unfold V1Pat.hasField at h
  cases hf : p.fieldPart "month".toList with
  | none => rw [hf] at h; cases h
  | some n =>
    obtain ⟨_, hT, hok, hs⟩ := c.field _ n hf
    have hn := v1c_mem_cands n "month" hT
    rw [v1c_cands_month] at hn
    simp only [List.mem_cons, Prod.mk.injEq, List.not_mem_nil, or_false] at hn
    rcases hn with ⟨rfl, _⟩ | ⟨rfl, _⟩
    · exact hok
    · exact hok

theorem v1c_dom_dom {v : V1Info} {p : V1Pat} (c : V1Ctx v p) (h : p.hasField "dom" = true) :
    optIn v.dom 1 31 = true := by
  unfold V1Pat.hasField at h
  cases hf : p.fieldPart "dom".toList with
  | none => rw [hf] at h; cases h
  | some n =>
    obtain ⟨_, hT, hok, hs⟩ := c.field _ n hf
    have hn := v1c_mem_cands n "dom" hT
    rw [v1c_cands_dom] at hn
    simp only [List.mem_cons, Prod.mk.injEq, List.not_mem_nil, or_false] at hn
    rcases hn with ⟨rfl, _⟩ | ⟨rfl, _⟩
    · exact hok
    · exact absurd hs (by decide)

theorem v1c_dom_doy {v : V1Info} {p : V1Pat} (c : V1Ctx v p) (h : p.hasField "doy" = true) :
    optIn v.doy 1 366 = true := by
  unfold V1Pat.hasField at h
  cases hf : p.fieldPart "doy".toList with
  | none => rw [hf] at h; cases h
  | some n =>
    obtain ⟨_, hT, hok, hs⟩ := c.field _ n hf
    have hn := v1c_mem_cands n "doy" hT
    rw [v1c_cands_doy] at hn
    simp only [List.mem_cons, Prod.mk.injEq, List.not_mem_nil, or_false] at hn
    rcases hn with ⟨rfl, _⟩ | ⟨rfl, _⟩
    · exact hok
    · exact absurd hs (by decide)

theorem v1c_dom_quarter {v : V1Info} {p : V1Pat} (c : V1Ctx v p) (h : p.hasField "quarter" = true) :
    optIn v.quarter 1 4 = true := by
  unfold V1Pat.hasField at h
  cases hf : p.fieldPart "quarter".toList with
  | none => rw [hf] at h; cases h
  | some n =>
    obtain ⟨_, hT, hok, hs⟩ := c.field _ n hf
    have hn := v1c_mem_cands n "quarter" hT
    rw [v1c_cands_quarter] at hn
    simp only [List.mem_cons, Prod.mk.injEq, List.not_mem_nil, or_false] at hn
    rcases hn with ⟨rfl, _⟩
    exact hok

theorem v1c_optIn_some (o : Option Nat) (lo hi : Nat) (h : optIn o lo hi = true) :
    ∃ x, o = some x ∧ lo ≤ x ∧ x ≤ hi := by
  cases o with
  | none => cases h
  | some x =>
    simp only [optIn, Bool.and_eq_true, decide_eq_true_eq] at h
    exact ⟨x, rfl, h.1, h.2⟩

/-! ### the id and the tag -/

theorem v1c_bid_read {v : V1Info} {p : V1Pat} (c : V1Ctx v p) :
    ∃ ob : Option Str, lookup "bid".toList (v1c_fv v p) = ob.map some ∧
      ∀ n, p.fieldPart "bid".toList = some n → ∃ t, ob = some t ∧ v1c_partText v n = some t ∧
        (n = "build_no".toList ∨ n = "bid".toList ∨ n = "BID".toList) := by
  rw [v1c_fv_lookup]
  cases h : p.fieldPart "bid".toList with
  | none => exact ⟨none, rfl, fun n hn => by cases hn⟩
  | some n =>
    obtain ⟨hp, hT, hok, hs⟩ := c.field _ n h
    rcases v1c_caps_lookup v p _ c.wf c.vok c.nd n hp with ⟨t, ht, hl⟩ | ⟨hn, _, _⟩
    · refine ⟨some t, by simp only [Option.map_some, hl], ?_⟩
      intro n' hn'
      have e := (Option.some.inj hn').symm
      subst e
      refine ⟨t, rfl, ht, ?_⟩
      have hn := v1c_mem_cands n' "bid" hT
      rw [v1c_cands_bid] at hn
      simp only [List.mem_cons, Prod.mk.injEq, List.not_mem_nil, or_false] at hn
      rcases hn with ⟨rfl, _⟩ | ⟨rfl, _⟩ | ⟨rfl, _⟩ | ⟨rfl, _⟩ | ⟨rfl, _⟩ | ⟨rfl, _⟩ | ⟨rfl, _⟩ | ⟨rfl, _⟩ | ⟨rfl, _⟩
      · exact .inl rfl
      · exact .inr (.inl rfl)
      · exact .inr (.inr rfl)
      all_goals exact absurd hs (by decide)
    · subst hn
      have := v1c_tag_field _ hT
      exact absurd this (by decide)

theorem v1c_tags_fixed : v1c_tags.all (fun t => (lookup t Gen.tagByPep440Tag).getD t == t) = true := by
  decide +kernel

theorem v1c_tag_read {v : V1Info} {p : V1Pat} (c : V1Ctx v p) (h : p.hasField "tag" = true) :
    v1c_tagOf (lookup "tag".toList (v1c_fv v p)) = v.tag := by
  rw [v1c_fv_lookup]
  unfold V1Pat.hasField at h
  cases hf : p.fieldPart "tag".toList with
  | none => rw [hf] at h; cases h
  | some n =>
    obtain ⟨hp, hT, hok, hs⟩ := c.field _ n hf
    have hn := v1c_mem_cands n "tag" hT
    rw [v1c_cands_tag] at hn
    simp only [List.mem_cons, Prod.mk.injEq, List.not_mem_nil, or_false] at hn
    rcases hn with ⟨rfl, _⟩ | ⟨rfl, _⟩
    · exact absurd hs (by decide)
    · rw [v1c_po_tag] at hok
      rcases v1c_caps_lookup v p _ c.wf c.vok c.nd _ hp with ⟨t, ht, hl⟩ | ⟨_, hl, hfin⟩
      · rw [v1c_pt_tag] at ht
        have e := (Option.some.inj ht).symm
        subst e
        simp only [Option.map_some, hl, v1c_tagOf]
        have ht := v1c_tags_fixed
        simp only [List.all_eq_true, beq_iff_eq] at ht
        exact ht v.tag (by simpa using hok)
      · simp only [Option.map_some, hl, v1c_tagOf]
        simp only [v1c_isFinal, beq_iff_eq] at hfin
        rw [hfin]
        decide

/-! ### the record read back agrees field by field -/

/-- "every field the pattern shows is read back" -/
structure V1FA (v v' : V1Info) (p : V1Pat) : Prop where
  year : p.hasField "year" = true → v'.year = v.year
  month : p.hasField "month" = true → v'.month = v.month
  dom : p.hasField "dom" = true → v'.dom = v.dom
  doy : p.hasField "doy" = true → v'.doy = v.doy
  quarter : p.hasField "quarter" = true → v'.quarter = v.quarter
  major : p.hasField "major" = true → v'.major = v.major
  minor : p.hasField "minor" = true → v'.minor = v.minor
  patch : p.hasField "patch" = true → v'.patch = v.patch
  bid : ∀ n, p.fieldPart "bid".toList = some n → v1c_partText v' n = v1c_partText v n
  tag : p.hasField "tag" = true → v'.tag = v.tag

theorem v1c_fa_of {v : V1Info} {p : V1Pat} (c : V1Ctx v p) (v' : V1Info) (M : Option Nat) (ob : Option Str)
    (hob : ∀ n, p.fieldPart "bid".toList = some n → ∃ t, ob = some t ∧ v1c_partText v n = some t ∧
        (n = "build_no".toList ∨ n = "bid".toList ∨ n = "BID".toList))
    (hq : v'.quarter = v1c_qOf (v1c_rd v p "quarter") M)
    (hmaj : v'.major = (v1c_rd v p "major").getD 0) (hmin : v'.minor = (v1c_rd v p "minor").getD 0)
    (hpat : v'.patch = (v1c_rd v p "patch").getD 0) (hbid : v'.bid = ob.getD "0001".toList)
    (htag : v'.tag = v1c_tagOf (lookup "tag".toList (v1c_fv v p)))
    (hy : p.hasField "year" = true → v'.year = v.year) (hm : p.hasField "month" = true → v'.month = v.month)
    (hd : p.hasField "dom" = true → v'.dom = v.dom) (hj : p.hasField "doy" = true → v'.doy = v.doy) :
    V1FA v v' p := by
  refine ⟨hy, hm, hd, hj, ?_, ?_, ?_, ?_, ?_, ?_⟩
  · intro h
    obtain ⟨q, hq', _, _⟩ := v1c_optIn_some _ _ _ (v1c_dom_quarter c h)
    rw [hq, v1c_rd_quarter c, h, hq']
    rfl
  · intro h
    rw [hmaj, v1c_rd_major c, h]; rfl
  · intro h
    rw [hmin, v1c_rd_minor c, h]; rfl
  · intro h
    rw [hpat, v1c_rd_patch c, h]; rfl
  · intro n hn
    obtain ⟨t, hobt, ht, hcases⟩ := hob n hn
    rw [hobt] at hbid
    simp only [Option.getD_some] at hbid
    rcases hcases with rfl | rfl | rfl
    · rw [v1c_pt_build_no, hbid, ht]
    · rw [v1c_pt_bid, hbid, ht]
    · rw [v1c_pt_BID] at ht
      have e := (Option.some.inj ht).symm
      rw [v1c_pt_BID, v1c_pt_BID, hbid, e, strToNat_natToStr]
  · intro h
    rw [htag, v1c_tag_read c h]

theorem v1c_truthy_none : truthy none = false := rfl

/-- `_parse_field_values` on the field values of the match: a record that agrees on every field shown -/
theorem v1c_readback {v : V1Info} {p : V1Pat} (c : V1Ctx v p) (hcal : V1Pat.calOk v p = true) :
    ∃ v', v1ParseFieldValues (v1c_fv v p) = .ok v' ∧ V1FA v v' p := by
  rw [v1c_pfv_eq (v1c_fv v p) _ _ _ _ _ _ _ _ (v1c_intField c "year" (by decide))
    (v1c_intField c "doy" (by decide)) (v1c_intField c "month" (by decide))
    (v1c_intField c "dom" (by decide)) (v1c_intField c "quarter" (by decide))
    (v1c_intField c "major" (by decide)) (v1c_intField c "minor" (by decide))
    (v1c_intField c "patch" (by decide))]
  obtain ⟨ob, hob, hobn⟩ := v1c_bid_read c
  rw [hob]
  obtain ⟨hyr, hydom⟩ := v1c_rd_year c
  have hmr := v1c_rd_month c
  have hdr := v1c_rd_dom c
  have hjr := v1c_rd_doy c
  cases hY : p.hasField "year" with
  | false =>
    -- no year: nothing is derived
    rw [hY] at hyr
    simp only [Bool.false_eq_true, ↓reduceIte] at hyr
    refine ⟨_, v1c_core_pass _ ob _ none _ _ _ _ hyr (by simp [v1c_truthy_none]) (by simp [v1c_truthy_none]) _ _ _,
      v1c_fa_of c _ _ ob hobn rfl rfl rfl rfl rfl rfl (fun h => by rw [hY] at h; cases h) ?_ ?_ ?_⟩
    · intro h; show v1c_rd v p "month" = v.month; rw [hmr, h]; rfl
    · intro h; show v1c_rd v p "dom" = v.dom; rw [hdr, h]; rfl
    · intro h; show v1c_rd v p "doy" = v.doy; rw [hjr, h]; rfl
  | true =>
    rw [hY] at hyr
    simp only [↓reduceIte] at hyr
    obtain ⟨y, hvy, hy1, _⟩ := v1c_optIn_some _ _ _ (hydom hY)
    rw [hvy] at hyr
    cases hJ : p.hasField "doy" with
    | true =>
      -- year and day of year: `date_from_doy`
      obtain ⟨j, hvj, hj1, _⟩ := v1c_optIn_some _ _ _ (v1c_dom_doy c hJ)
      rw [hJ, hvj] at hjr
      simp only [↓reduceIte] at hjr
      simp only [V1Pat.calOk, hY, hJ, Bool.and_self, ↓reduceIte, hvy, hvj] at hcal
      cases hdd : dateFromDoy y j with
      | none => rw [hdd] at hcal; cases hcal
      | some d =>
        rw [hdd] at hcal
        simp only [Bool.and_eq_true, Bool.or_eq_true, Bool.not_eq_true', beq_iff_eq] at hcal
        obtain ⟨⟨⟨hcm, hcd⟩, hval⟩, hdoy⟩ := hcal
        rw [hjr]
        refine ⟨_, v1c_core_doy _ ob _ y j hyr (by omega) d hdd hval _ _ _ _ _ _,
          v1c_fa_of c _ _ ob hobn rfl rfl rfl rfl rfl rfl ?_ ?_ ?_ ?_⟩
        · intro _; exact hvy.symm
        · intro h
          rcases hcm with h' | h'
          · rw [h] at h'; cases h'
          · exact h'.symm
        · intro h
          rcases hcd with h' | h'
          · rw [h] at h'; cases h'
          · exact h'.symm
        · intro _
          show some (dayOfYear y d.2.1 d.2.2) = v.doy
          rw [hdoy, hvj]
    | false =>
      rw [hJ] at hjr
      simp only [Bool.false_eq_true, ↓reduceIte] at hjr
      rw [hjr]
      cases hM : p.hasField "month" with
      | false =>
        rw [hM] at hmr
        simp only [Bool.false_eq_true, ↓reduceIte] at hmr
        rw [hmr]
        refine ⟨_, v1c_core_pass _ ob _ _ none none _ _ hyr (by simp [v1c_truthy_none])
          (by simp [v1c_truthy_none]) _ _ _,
          v1c_fa_of c _ _ ob hobn rfl rfl rfl rfl rfl rfl ?_ (fun h => by rw [hM] at h; cases h) ?_
            (fun h => by rw [hJ] at h; cases h)⟩
        · intro _; exact hvy.symm
        · intro h; show v1c_rd v p "dom" = v.dom; rw [hdr, h]; rfl
      | true =>
        rw [hM] at hmr
        simp only [↓reduceIte] at hmr
        obtain ⟨m, hvm, hm1, _⟩ := v1c_optIn_some _ _ _ (v1c_dom_month c hM)
        rw [hvm] at hmr
        rw [hmr]
        cases hD : p.hasField "dom" with
        | false =>
          rw [hD] at hdr
          simp only [Bool.false_eq_true, ↓reduceIte] at hdr
          rw [hdr]
          refine ⟨_, v1c_core_pass _ ob _ _ none _ none _ hyr (by simp [v1c_truthy_none])
            (by simp [v1c_truthy_none]) _ _ _,
            v1c_fa_of c _ _ ob hobn rfl rfl rfl rfl rfl rfl ?_ ?_ (fun h => by rw [hD] at h; cases h)
              (fun h => by rw [hJ] at h; cases h)⟩
          · intro _; exact hvy.symm
          · intro _; exact hvm.symm
        | true =>
          -- year, month and day: the date is checked
          rw [hD] at hdr
          simp only [↓reduceIte] at hdr
          obtain ⟨d, hvd, hd1, _⟩ := v1c_optIn_some _ _ _ (v1c_dom_dom c hD)
          rw [hvd] at hdr
          rw [hdr]
          simp only [V1Pat.calOk, hY, hJ, hM, hD, Bool.and_false, Bool.false_eq_true, Bool.and_self,
            ↓reduceIte, hvy, hvm, hvd] at hcal
          refine ⟨_, v1c_core_ymd _ ob _ y m d hyr hcal _ _ _ _,
            v1c_fa_of c _ _ ob hobn rfl rfl rfl rfl rfl rfl ?_ ?_ ?_ (fun h => by rw [hJ] at h; cases h)⟩
          · intro _; exact hvy.symm
          · intro _; exact hvm.symm
          · intro _; exact hvd.symm

/-! ### from fields to parts, and rendering again -/

theorem v1c_has_of_part {v : V1Info} {p : V1Pat} (c : V1Ctx v p) (n : Str) (f : String) (hn : n ∈ p.parts)
    (hT : (n, f.toList) ∈ Gen.v1PatternPartFields) :
    p.hasField f = true ∧ p.fieldPart f.toList = some n := by
  have h := v1c_fieldPart_of p c.gok n f.toList (v1c_parts_sub_groups p n hn) hT
  exact ⟨by unfold V1Pat.hasField; rw [h]; rfl, h⟩

theorem v1c_agree_of_fa {v : V1Info} {p : V1Pat} (c : V1Ctx v p) (v' : V1Info) (fa : V1FA v v' p) :
    ∀ n ∈ p.parts, v1c_partText v' n = v1c_partText v n := by
  intro n hn
  have hs := v1c_wf_parts p _ c.wf n hn
  cases hl : lookup n v1c_partSpecs with
  | none => rw [hl] at hs; cases hs
  | some s =>
    have hmem := lookup_mem_cl n v1c_partSpecs s hl
    simp only [v1c_partSpecs, List.mem_cons, Prod.mk.injEq, List.not_mem_nil, or_false] at hmem
    rcases hmem with ⟨rfl, _⟩ | ⟨rfl, _⟩ | ⟨rfl, _⟩ | ⟨rfl, _⟩ | ⟨rfl, _⟩ | ⟨rfl, _⟩ |
      ⟨rfl, _⟩ | ⟨rfl, _⟩ | ⟨rfl, _⟩ | ⟨rfl, _⟩ | ⟨rfl, _⟩ | ⟨rfl, _⟩ | ⟨rfl, _⟩ |
      ⟨rfl, _⟩ | ⟨rfl, _⟩ | ⟨rfl, _⟩ | ⟨rfl, _⟩ | ⟨rfl, _⟩ | ⟨rfl, _⟩ | ⟨rfl, _⟩ |
      ⟨rfl, _⟩ | ⟨rfl, _⟩ | ⟨rfl, _⟩
    · rw [v1c_pt_year, v1c_pt_year, fa.year (v1c_has_of_part c _ "year" hn (by decide)).1]
    · rw [v1c_pt_yyyy, v1c_pt_yyyy, fa.year (v1c_has_of_part c _ "year" hn (by decide)).1]
    · rw [v1c_pt_yy, v1c_pt_yy, fa.year (v1c_has_of_part c _ "year" hn (by decide)).1]
    · rw [v1c_pt_quarter, v1c_pt_quarter, fa.quarter (v1c_has_of_part c _ "quarter" hn (by decide)).1]
    · rw [v1c_pt_month, v1c_pt_month, fa.month (v1c_has_of_part c _ "month" hn (by decide)).1]
    · rw [v1c_pt_month_short, v1c_pt_month_short, fa.month (v1c_has_of_part c _ "month" hn (by decide)).1]
    · rw [v1c_pt_dom, v1c_pt_dom, fa.dom (v1c_has_of_part c _ "dom" hn (by decide)).1]
    · rw [v1c_pt_doy, v1c_pt_doy, fa.doy (v1c_has_of_part c _ "doy" hn (by decide)).1]
    · rw [v1c_pt_MAJOR, v1c_pt_MAJOR, fa.major (v1c_has_of_part c _ "major" hn (by decide)).1]
    · rw [v1c_pt_MINOR, v1c_pt_MINOR, fa.minor (v1c_has_of_part c _ "minor" hn (by decide)).1]
    · rw [v1c_pt_PATCH, v1c_pt_PATCH, fa.patch (v1c_has_of_part c _ "patch" hn (by decide)).1]
    · rw [v1c_pt_MM, v1c_pt_MM, fa.minor (v1c_has_of_part c _ "minor" hn (by decide)).1]
    · rw [v1c_pt_MMM, v1c_pt_MMM, fa.minor (v1c_has_of_part c _ "minor" hn (by decide)).1]
    · rw [v1c_pt_MMMM, v1c_pt_MMMM, fa.minor (v1c_has_of_part c _ "minor" hn (by decide)).1]
    · rw [v1c_pt_MMMMM, v1c_pt_MMMMM, fa.minor (v1c_has_of_part c _ "minor" hn (by decide)).1]
    · rw [v1c_pt_PP, v1c_pt_PP, fa.patch (v1c_has_of_part c _ "patch" hn (by decide)).1]
    · rw [v1c_pt_PPP, v1c_pt_PPP, fa.patch (v1c_has_of_part c _ "patch" hn (by decide)).1]
    · rw [v1c_pt_PPPP, v1c_pt_PPPP, fa.patch (v1c_has_of_part c _ "patch" hn (by decide)).1]
    · rw [v1c_pt_PPPPP, v1c_pt_PPPPP, fa.patch (v1c_has_of_part c _ "patch" hn (by decide)).1]
    · exact fa.bid _ (v1c_has_of_part c _ "bid" hn (by decide)).2
    · exact fa.bid _ (v1c_has_of_part c _ "bid" hn (by decide)).2
    · exact fa.bid _ (v1c_has_of_part c _ "bid" hn (by decide)).2
    · rw [v1c_pt_tag, v1c_pt_tag, fa.tag (v1c_has_of_part c _ "tag" hn (by decide)).1]

theorem v1c_render_of_agree (v v' : V1Info) : ∀ p : V1Pat,
    (∀ n ∈ p.parts, v1c_partText v' n = v1c_partText v n) → V1Pat.render v' p = V1Pat.render v p := by
  intro p
  induction p with
  | done => intro _; rfl
  | lit c rest ih =>
    intro h
    simp only [V1Pat.render, ih (fun n hn => h n (by simpa [V1Pat.parts] using hn))]
  | part m rest ih =>
    intro h
    simp only [V1Pat.render, h m (by simp [V1Pat.parts]),
      ih (fun n hn => h n (by simp [V1Pat.parts, hn]))]
  | comp m body rest ihb ihr =>
    intro h
    simp only [V1Pat.render, ihb (fun n hn => h n (by simp [V1Pat.parts, hn])),
      ihr (fun n hn => h n (by simp [V1Pat.parts, hn]))]
  | rel rest ih =>
    intro h
    have ht := h "tag".toList (by simp [V1Pat.parts])
    rw [v1c_pt_tag, v1c_pt_tag] at ht
    have ht := Option.some.inj ht
    have hr : v1c_relText v' = v1c_relText v := by
      unfold v1c_relText v1c_isFinal
      rw [ht]
    simp only [V1Pat.render, hr, ih (fun n hn => h n (by simp [V1Pat.parts, hn]))]

/-! ### THE ROUND TRIP -/

/-- `parse_version_info` is `compile_pattern` followed by `v1c_parseWithRe` -/
theorem v1c_parseVersionInfo_of (s raw : Str) (r : Re) (h : v1CompilePattern raw raw = .ok r) :
    v1ParseVersionInfo s raw = v1c_parseWithRe r s := by
  unfold v1ParseVersionInfo
  rw [h]
  rfl

theorem v1c_parseVersionInfo_err (s raw : Str) (e : V1Err) (h : v1CompilePattern raw raw = .error e) :
    v1ParseVersionInfo s raw = .error e := by
  unfold v1ParseVersionInfo
  rw [h]

/-- for a supported legacy pattern tree and a record in its domain whose calendar fields are
    consistent (`calOk`): the rendered text is matched in full, read back as a record that agrees
    on every part of the pattern, and rendering that record reproduces the text -/
theorem v1_roundtrip (p : V1Pat) (v : V1Info) (r : Re) (hwf : V1Pat.wfTop p = true)
    (hv : V1Pat.vok v p = true) (hc : V1Pat.calOk v p = true) (hr : V1Pat.compile p = some r) :
    ∃ v', v1c_parseWithRe r (V1Pat.render v p) = .ok v' ∧ V1Pat.agree v v' p = true ∧
      V1Pat.render v' p = V1Pat.render v p := by
  have c := v1c_ctx_of v p hwf hv
  obtain ⟨v', hp, fa⟩ := v1c_readback c hc
  have hag := v1c_agree_of_fa c v' fa
  refine ⟨v', ?_, ?_, v1c_render_of_agree v v' p hag⟩
  · unfold v1c_parseWithRe
    rw [v1_compose_match v p r c.wf hv hr]
    simp only [Nat.lt_irrefl, ↓reduceIte]
    rw [v1c_groupdict v p r _ c.wf c.nd hr, v1c_parseGroups_eq v p c.gok, hp]
  · unfold V1Pat.agree
    rw [List.all_eq_true]
    intro n hn
    rw [beq_iff_eq]
    exact hag n hn

/-- the calendar hypothesis holds for every record whose calendar fields are those of a date -/
theorem v1c_calOk_of_date (p : V1Pat) (v : V1Info) (y m d : Nat) (hd : validDate y m d = true)
    (hy : v.year = some y) (hm : v.month = some m) (hdm : v.dom = some d)
    (hj : v.doy = some (dayOfYear y m d)) : V1Pat.calOk v p = true := by
  unfold V1Pat.calOk
  rw [hy, hm, hdm, hj]
  split
  · simp only [dateFromDoy_of_valid y m d hd, BEq.rfl, Bool.or_true, Bool.and_self, hd]
  · split
    · exact hd
    · rfl


end BV
