/-
  Proofs/Tie_quarterFromMonth.lean — the definition GENERATED from the Python source of
  `version.quarter_from_month` (over `Int`, `//` = floor division) agrees with the hand model
  `BV.quarterFromMonth` (over `Nat`, truncated subtraction) for every month ≥ 1.
  For month = 0 they differ: Python gives (0 - 1) // 3 + 1 = 0, the model (0 - 1) / 3 + 1 = 1
  (the callers only pass months 1..12).
-/
import BumpverVerif.Gen.F_quarterFromMonth
import BumpverVerif.Model.Calendar
namespace BV

theorem tie_quarterFromMonth (month : Nat) (h : 1 ≤ month) :
    GenF.quarterFromMonth (month : Int) = (quarterFromMonth month : Int) := by
  simp only [GenF.quarterFromMonth, quarterFromMonth]
  rw [Int.fdiv_eq_ediv_of_nonneg _ (by omega)]
  omega

/-- non-vacuity, and the value at the boundary the hypothesis excludes -/
example : GenF.quarterFromMonth ((12 : Nat) : Int) = (quarterFromMonth 12 : Int) := tie_quarterFromMonth 12 (by decide)
example : GenF.quarterFromMonth 0 = 0 ∧ quarterFromMonth 0 = 1 := by decide

end BV
