/-
  Proofs/Tie_cmdShow.lean — the definition GENERATED from the Python source of the command `cli.show`
  (Gen/F_cmdShow.lean, `GenL.cmdShow`; harness/translate_commands.py) against the hand model of "the version an update
  starts from" (`BV.startVersion`, Model/Cli.lean; `UpdIn.decide.start`, Model/Update.lean).

    tie_cmdShow         (any pattern) plain `show` = the configuration as read, passed through `_update_cfg_from_vcs(cfg, fetch)`
                        exactly when `--ignore-vcs-tag` is absent (its VCS invocations, its exception — and none at all
                        under `--ignore-vcs-tag`), then the two lines `Current Version: <cfg.current_version>` and
                        `PEP440         : <cfg.pep440_version>` of the RESULTING record, exit 0.
    tie_cmdShow_new     new-style pattern: the trace is that of the model's `getTags e fetch (scope = branch)`; a failing VCS
                        invocation is exit 1 with nothing echoed; otherwise `Current Version: v` with
                        `startVersion scope pat cfgVersion today tags = .ok v` and `PEP440         : to_pep440 v`
                        (a crash of the tag parser propagates, nothing echoed).
    tie_cmdShow_legacy  pattern with braces: the same over the legacy parser's valid tags (`v1ParseVersionTags`, `latestOf`).
    cmdShow_reports_update_start   C08 / C09: the version `show` reports IS the version `bumpver update` (same configuration,
                        same flags, same tags) starts from: `(updateFull`'s `u.decide).start`.
    cmdShow_no_config   no configuration could be read: exit 1, nothing echoed, the VCS is not asked.

  `--env` / `--environ` (the KEY=value dump) are translated too (Gen/F_cmdShow.lean) but not tied: the per-field rendering is
  the uninterpreted parameter `env_dump`.
  Hypothesis `hpep` of the `PEP440` statement: the record read from the file has `pep440_version = to_pep440(current_version)`
  (config.py computes it so; the record is a parameter here).
-/
import BumpverVerif.Gen.F_cmdShow
import BumpverVerif.Proofs.Tie_cmdUpdate
set_option linter.unusedSimpArgs false
namespace BV
namespace TieL

/-- `"Current Version: "` -/
def currentVersionLabel : Str := ['C', 'u', 'r', 'r', 'e', 'n', 't', ' ', 'V', 'e', 'r', 's', 'i', 'o', 'n', ':', ' ']
/-- `"PEP440         : "` -/
def showPepLabel : Str := ['P', 'E', 'P', '4', '4', '0', ' ', ' ', ' ', ' ', ' ', ' ', ' ', ' ', ' ', ':', ' ']

theorem currentVersionLabel_eq : currentVersionLabel = "Current Version: ".toList := by decide
theorem showPepLabel_eq : showPepLabel = "PEP440         : ".toList := by decide

/-- the two lines of plain `show` for a record, echoed on top of `out` (most recent first) -/
def showOut {α : Type} (c : GenE.Config α) (out : List Str) : List Str :=
  (showPepLabel ++ c.pep440_version) :: (currentVersionLabel ++ c.current_version) :: out

/-- plain `show` after the (optional) tag lookup -/
def showAfter {α : Type} (r : CState × Except CStop (GenE.Config α)) : CState × Except CStop Unit :=
  match r with
  | (s', .ok c) => ({ s' with out := showOut c s'.out }, .ok ())
  | (s', .error x) => (s', .error x)

end TieL
open TieL

attribute [local irreducible] isValid parseVersionInfo v1IsValid v1ParseVersionInfo latestVersionTag startVersion BV.getTags

theorem tie_cmdShow {α Ctx : Type} (today : Date) (dump : String → VInfo → List Str) (vg verbose : Int) (ctx : Ctx)
    (cfg0 : GenE.Config α) (ignore fetch : Bool) (ce : CmdEnv) (s : CState) :
    GenL.cmdShow today dump vg (ctx, some cfg0) verbose ignore fetch false false ce s =
      showAfter (if ignore then (s, .ok cfg0) else GenL.updateCfgFromVcs today cfg0 fetch ce s) := by
  unfold GenL.cmdShow showAfter showOut
  cases ignore with
  | true => simp [Cmd.bind, Cmd.pure, Cmd.echo, currentVersionLabel, showPepLabel]
  | false =>
    simp only [Bool.false_eq_true, if_false, Cmd.bind, Cmd.pure]
    rcases GenL.updateCfgFromVcs today cfg0 fetch ce s with ⟨s', r⟩
    cases r <;> simp [Cmd.echo, currentVersionLabel, showPepLabel]

theorem cmdShow_no_config {α Ctx : Type} (today : Date) (dump : String → VInfo → List Str) (vg verbose : Int) (ctx : Ctx)
    (ignore fetch env environ : Bool) (ce : CmdEnv) (s : CState) :
    GenL.cmdShow (α := α) today dump vg (ctx, none) verbose ignore fetch env environ ce s
      = (s, .error (.eff (.exit 1))) := by
  unfold GenL.cmdShow
  rfl

/-- new-style pattern: trace of the model's `getTags`, the model's start version, its PEP 440 form -/
theorem tie_cmdShow_new {α Ctx : Type} (today : Date) (dump : String → VInfo → List Str) (vg verbose : Int) (ctx : Ctx)
    (cfg0 : GenE.Config α) (ignore fetch : Bool) (ce : CmdEnv) (s : CState)
    (hn : cfg0.is_new_pattern = true) (hrem : RemoteCoherent ce.eff)
    (hpep : cfg0.pep440_version = verStr (parseVersion cfg0.current_version)) :
    GenL.cmdShow today dump vg (ctx, some cfg0) verbose ignore fetch false false ce s =
      (match (if ignore then (s.p, Outcome.ok) else BV.getTags ce.eff.plan fetch (cfg0.tag_scope == .BRANCH) s.p) with
       | (p', .failed) => ({ s with p := p' }, .error (.eff .called))
       | (p', .ok) =>
         match (if ignore then .ok cfg0.current_version
                else startVersion (absScopeE cfg0.tag_scope) cfg0.version_pattern cfg0.current_version today
                  (tagsServed ce.eff cfg0.tag_scope s.p)) with
         | .error e => ({ s with p := p' }, .error (.exc (.v2 e)))
         | .ok v =>
           ({ p := p', out := (showPepLabel ++ verStr (parseVersion v)) :: (currentVersionLabel ++ v) :: s.out }, .ok ())) := by
  rw [tie_cmdShow]
  cases ignore with
  | true => simp [showAfter, showOut, hpep]
  | false =>
    simp only [Bool.false_eq_true, if_false]
    rw [tie_cmdUpdateCfgFromVcs_new today cfg0 fetch hn, tagsThen_run _ _ _ _ _ hrem, ← updCfg_startVersion]
    rcases BV.getTags ce.eff.plan fetch (cfg0.tag_scope == GenE.TagScope.BRANCH) s.p with ⟨p', o⟩
    cases o with
    | failed => rfl
    | ok =>
      simp only [showAfter]
      cases hl : latestVersionTag cfg0.version_pattern today (tagsServed ce.eff cfg0.tag_scope s.p) with
      | error e => rfl
      | ok l =>
        simp only [ofV2, Except.map, showOut]
        cases l with
        | none => simp [updCfg, hpep]
        | some t =>
          simp only [updCfg]
          split <;> simp [hpep]

/-- pattern with braces: the same over the legacy parser's valid tags -/
theorem tie_cmdShow_legacy {α Ctx : Type} (today : Date) (dump : String → VInfo → List Str) (vg verbose : Int) (ctx : Ctx)
    (cfg0 : GenE.Config α) (fetch : Bool) (ce : CmdEnv) (s : CState) (hn : cfg0.is_new_pattern = false) :
    GenL.cmdShow today dump vg (ctx, some cfg0) verbose false fetch false false ce s =
      showAfter (tagsThen fetch cfg0.tag_scope (fun tags =>
        ofV1 ((v1ParseVersionTags cfg0.version_pattern tags).map (fun vts => updCfg cfg0 (latestOf vts)))) ce s) := by
  rw [tie_cmdShow]
  simp only [Bool.false_eq_true, if_false]
  congr 1
  rw [tie_cmdUpdateCfgFromVcs]
  unfold Cmd.bind
  rw [tie_cmdGetLatest_legacy today cfg0 fetch hn]
  unfold tagsThen
  rcases GenE.getTags fetch cfg0.tag_scope ce.eff s.p with ⟨p', r⟩
  cases r with
  | error x => rfl
  | ok tags =>
    simp only []
    cases hl : v1ParseVersionTags cfg0.version_pattern tags <;> simp [hl, Cmd.pure, Except.map, ofV1]

/-- the start version of the composed update model, for a command line without `--tag-scope` -/
theorem TieL.updIn_decide_start {α : Type} (A : UpdArgs) (cfg0 : GenE.Config α) (e : EffEnv) (today date : Date)
    (dg tme : Bool) (fs : FS) (fps : List (Str × List CPat)) (hsc : A.tag_scope = none) :
    let u := updInOf A cfg0 e today date dg tme fs fps
    u.decide.start = (match (if A.ignore_vcs_tag then Except.ok cfg0.current_version
        else startVersion (absScopeE cfg0.tag_scope) cfg0.version_pattern cfg0.current_version today
          (tagsServed e cfg0.tag_scope ⟨[], 0⟩)) with
      | .ok v => v
      | .error _ => cfg0.current_version) := by
  intro u
  have hts : ∀ s, A.tag_scope = some s → (GenF.TagScope.ofValue s).isSome = true := by
    intro s h; rw [hsc] at h; cases h
  have hscopeE : scopeE A cfg0 = cfg0.tag_scope := by unfold scopeE; rw [hsc]
  have huscope : u.scope = absScopeE cfg0.tag_scope := by
    rw [← hscopeE]; exact updInOf_scope _ _ _ _ _ _ _ _ _ hts
  have hutags : u.tagsSeen = tagsServed e cfg0.tag_scope ⟨[], 0⟩ := by
    unfold UpdIn.tagsSeen tagsServed
    rw [isUsable_congr u.baseEnv e.plan rfl rfl]
    simp only [u, updInOf, hscopeE]
  have hds : u.decide.start = u.start := by
    unfold UpdIn.decide
    cases u.cand <;> rfl
  rw [hds]
  unfold UpdIn.start UpdIn.startE
  have e1 : u.a.ignoreVcsTag = A.ignore_vcs_tag := rfl
  have e2 : u.pat = cfg0.version_pattern := rfl
  have e3 : u.cfgVersion = cfg0.current_version := rfl
  have e4 : u.today = today := rfl
  rw [e1, huscope, hutags, e2, e3, e4]
  cases A.ignore_vcs_tag with
  | true => rfl
  | false =>
    simp only [Bool.false_eq_true, if_false]
    cases startVersion (absScopeE cfg0.tag_scope) cfg0.version_pattern cfg0.current_version today
      (tagsServed e cfg0.tag_scope ⟨[], 0⟩) <;> rfl

/-- C08 / C09: THE VERSION `show` REPORTS IS THE VERSION AN UPDATE STARTS FROM.  A successful plain `show` echoes exactly
    two lines, and the version on the `Current Version:` line is `(u.decide).start` of the composed update model
    (`updateFull`, Model/Update.lean) for the same configuration, the same `--ignore-vcs-tag` / `--fetch` flags, the same
    environment (tags served, failure position) — whatever the other options of the update are (no `--tag-scope`: `show`
    has none). -/
theorem cmdShow_reports_update_start {α Ctx : Type} (today date : Date) (dg tme : Bool) (fs : FS)
    (fps : List (Str × List CPat)) (dump : String → VInfo → List Str) (vg verbose : Int) (ctx : Ctx)
    (cfg0 : GenE.Config α) (A : UpdArgs) (ce : CmdEnv) (hsc : A.tag_scope = none)
    (hn : cfg0.is_new_pattern = true) (hrem : RemoteCoherent ce.eff) (s' : CState)
    (hrun : GenL.cmdShow today dump vg (ctx, some cfg0) verbose A.ignore_vcs_tag A.fetch false false ce ⟨⟨[], 0⟩, []⟩
      = (s', .ok ())) :
    ∃ pep, s'.out = [showPepLabel ++ pep,
      currentVersionLabel ++ (updInOf A cfg0 ce.eff today date dg tme fs fps).decide.start] := by
  have hst := updIn_decide_start A cfg0 ce.eff today date dg tme fs fps hsc
  simp only at hst
  rw [hst]
  rw [tie_cmdShow] at hrun
  cases hign : A.ignore_vcs_tag with
  | true =>
    rw [hign] at hrun
    simp only [if_true, showAfter, showOut] at hrun
    injection hrun with h1 _
    subst h1
    exact ⟨cfg0.pep440_version, rfl⟩
  | false =>
    rw [hign] at hrun
    simp only [Bool.false_eq_true, if_false] at hrun ⊢
    rw [tie_cmdUpdateCfgFromVcs_new today cfg0 A.fetch hn, tagsThen_run _ _ _ _ _ hrem] at hrun
    rw [← updCfg_startVersion]
    simp only [] at hrun
    rcases hg : BV.getTags ce.eff.plan A.fetch (cfg0.tag_scope == GenE.TagScope.BRANCH) ⟨[], 0⟩ with ⟨p', o⟩
    rw [hg] at hrun
    cases o with
    | failed => simp [showAfter] at hrun
    | ok =>
      cases hl : latestVersionTag cfg0.version_pattern today (tagsServed ce.eff cfg0.tag_scope ⟨[], 0⟩) with
      | error e => rw [hl] at hrun; simp [showAfter, ofV2, Except.map] at hrun
      | ok l =>
        rw [hl] at hrun
        simp only [showAfter, ofV2, Except.map, showOut] at hrun
        injection hrun with h1 _
        subst h1
        exact ⟨(updCfg cfg0 l).pep440_version, by simp [Except.map]⟩

end BV
