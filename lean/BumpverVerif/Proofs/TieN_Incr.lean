/-
  Proofs/TieN_Incr.lean — the hypothesis `hf` of `tie_incr` (Proofs/Tie_incr.lean: `_parse_pattern_fields(raw_pattern)`
  does not raise) is a THEOREM for the source text of every pattern tree of supported shape (`Pat.shapeOk`, part of
  `tokSafe`): `_parse_segtree` succeeds on such text (`parseSegtree_text`, Proofs/TokTie_Seg.lean), and
  `_parse_pattern_fields` raises nothing else.

      parsePatternFields_text : p.shapeOk → ∃ fs, parsePatternFields (Pat.text p) = .ok fs
      tie_incr_text           : tokSafe p → GenF.incr old (Pat.text p) … = incr old (Pat.text p) (TieA.mkFlags …) date today

  (the witness of `hf` in Tie_incr.lean is the pattern of two backslashes — no tree has that text: a backslash is
  no supported literal, `litOk`).  No Mathlib.
-/
import BumpverVerif.Props.C02Tie
import BumpverVerif.Proofs.Tie_incr
namespace BV

/-- `_parse_pattern_fields` does not raise on the source text of a tree of supported shape -/
theorem parsePatternFields_text (p : Pat) (h : p.shapeOk = true) :
    ∃ fs, parsePatternFields (Pat.text p) = .ok fs := by
  unfold parsePatternFields
  rw [parseSegtree_text p h]
  exact ⟨_, rfl⟩

/-- `tie_incr` for the text of a `tokSafe` tree: NO hypothesis -/
theorem tie_incr_text (p : Pat) (hs : tokSafe p = true) (old_version : Str) (major minor patch : Bool)
    (tag : Option Str) (tag_num pin_increments pin_date : Bool) (maybe_date : Option (Nat × Nat × Nat))
    (today : Nat × Nat × Nat) :
    GenF.incr old_version (Pat.text p) major minor patch tag tag_num pin_increments pin_date maybe_date today =
      incr old_version (Pat.text p) (TieA.mkFlags major minor patch tag tag_num pin_increments pin_date)
        (match maybe_date with | none => today | some d => d) today :=
  tie_incr old_version (Pat.text p) major minor patch tag tag_num pin_increments pin_date maybe_date today
    (parsePatternFields_text p (tokSafe_shapeOk p hs))

/-- for pattern TEXT `s` that tokenises to a `tokSafe` tree whose text it is (all decidable on `s`) -/
theorem tie_incr_str (s : Str) (p : Pat) (ht : tokenize s = some p) (hst : Pat.text p = s) (hs : tokSafe p = true)
    (old_version : Str) (major minor patch : Bool)
    (tag : Option Str) (tag_num pin_increments pin_date : Bool) (maybe_date : Option (Nat × Nat × Nat))
    (today : Nat × Nat × Nat) :
    GenF.incr old_version s major minor patch tag tag_num pin_increments pin_date maybe_date today =
      incr old_version s (TieA.mkFlags major minor patch tag tag_num pin_increments pin_date)
        (match maybe_date with | none => today | some d => d) today := by
  have _ := ht
  subst hst
  exact tie_incr_text p hs old_version major minor patch tag tag_num pin_increments pin_date maybe_date today

end BV
