/-
  Proofs/Tie_apiGetRemote.lean — `VCSAPI.get_remote` (GENERATED: Gen/F_apiGetRemote.lean) against the
  hand model `BV.getRemote` (Model/Plan.lean).

  The Python looks at what `git branch -vv` and `git config --get remote.origin.url` / `hg paths` PRINT;
  the hand model only has two Booleans (`branchRemote`, `urlRemote`).  `RemoteCoherent e` states the
  expansion explicitly: which function of the printed text each Boolean is.

  tie_apiGetRemote :  for every environment, state and failure position
      state after get_remote       = state after the model's getRemote
      truthiness of its result     = the model's Boolean          (and it never raises: `except Exception`)
-/
import BumpverVerif.Gen.F_apiGetRemote
import BumpverVerif.Proofs.EffLemmas
namespace BV
open GenE

/-- the loop of `get_remote` over the `BRANCH_RE` matches: the `remote` group of the first match whose
    `is_current` group is truthy (`some none` cannot happen for the real regex: the group is mandatory) -/
def currentRemote (ms : List GroupDict) : Option (Option Str) :=
  ms.findSome? (fun m => if (m "is_current" != none && m "is_current" != some []) then some (m "remote") else none)

/-- what the model's Booleans mean in terms of the printed text -/
structure RemoteCoherent (e : EffEnv) : Prop where
  /-- `branchRemote` = "`git branch -vv` shows a remote for the current branch" -/
  branch : e.plan.branchRemote = (currentRemote (e.branchMatches (e.output "ls_branches"))).isSome
  /-- fact about BRANCH_RE: the group `remote` is `[^/]+`, mandatory and non-empty -/
  remoteGroup : ∀ r, currentRemote (e.branchMatches (e.output "ls_branches")) = some r → truthyOS r = true
  /-- `urlRemote` = "`show_remotes` prints something other than white space" -/
  url : e.plan.urlRemote = !(strip (e.output "show_remotes")).isEmpty

/-- ANY loop body that, match by match, answers like the specification is `currentRemote` (used as a
    conditional rewrite rule: the side condition is discharged by a case split on the `is_current` group, so
    the generated body may test it with `if`, through a local variable, with a narrowing `match`, …) -/
theorem findSome_eq_currentRemote (F : GroupDict → Option (Option Str)) (ms : List GroupDict)
    (h : ∀ m, F m = if (m "is_current" != none && m "is_current" != some []) then some (m "remote") else none) :
    List.findSome? F ms = currentRemote ms := by
  unfold currentRemote
  congr 1
  funext m
  exact h m

theorem tie_apiGetRemote (e : EffEnv) (s : PState) (api : VcsApi) (hc : RemoteCoherent e)
    (hk : api.name = e.plan.kind.name) :
    ((apiGetRemote api e s).1, (apiGetRemote api e s).2.map truthyOS)
      = ((getRemote e.plan s).1, Except.ok (getRemote e.plan s).2) := by
  obtain ⟨hb, hr, hu⟩ := hc
  unfold apiGetRemote getRemote
  cases hkind : e.plan.kind <;> simp only [hkind, VcsKind.name] at hk <;>
    eff_simp [vcsCall] <;>
    (try simp (disch := (intro m; cases hm : m "is_current" <;> simp_all)) only [findSome_eq_currentRemote]) <;>
    eff_auto [vcsCall]

/-- the form in which callers use it -/
theorem getRemote_result (e : EffEnv) (s : PState) (api : VcsApi) (hc : RemoteCoherent e)
    (hk : api.name = e.plan.kind.name) :
    ∃ r, apiGetRemote api e s = ((getRemote e.plan s).1, .ok r) ∧ (getRemote e.plan s).2 = truthyOS r := by
  have h := tie_apiGetRemote e s api hc hk
  rcases hres : apiGetRemote api e s with ⟨s1, r⟩
  rw [hres] at h
  cases r with
  | error x => simp [Except.map] at h
  | ok a =>
    simp only [Except.map, Prod.mk.injEq, Except.ok.injEq] at h
    exact ⟨a, by rw [h.1], h.2.symm⟩

/-- "look up the remote; run `cmd` only when there is one" — the shape of `VCSAPI.fetch`, `push_tag` and
    `push`, written with the hand model's `getRemote` and `vcsCall` exactly as `getTags` / `commitPhase`
    (Model/Plan.lean) inline it -/
def remotePiece (e : PlanEnv) (cmd : String) (s : PState) : PState × Outcome :=
  let (s5, remote) := getRemote e s
  if remote then vcsCall e (.cmd cmd) s5 else (s5, .ok)

/-! non-vacuity: a coherent environment in which `git branch -vv` names a remote -/
private def exPlan : PlanEnv :=
  ⟨.git, true, none, true, false, false, true, true, true, true, true, [], [], []⟩
private def exEnv : EffEnv :=
  { plan := exPlan, output := fun _ => [],
    branchMatches := fun _ => [fun g => if g == "is_current" then some ['*'] else if g == "remote" then some ['o'] else none],
    excText := [], excStderr := [], osErrno := 0 }
example : RemoteCoherent exEnv := ⟨by decide, by decide, by decide⟩

end BV
