/-
  Proofs/Tie_parseVersionTags.lean — the definition GENERATED from the Python source of
  `cli._parse_version_tags` (Gen/F_parseVersionTags.lean) equals the hand model on all inputs:
  with `is_new_pattern = True` it is `BV.parseVersionTags` (Model/Cli.lean), with
  `is_new_pattern = False` it is `BV.v1ParseVersionTags` (Model/V1.lean); the error of the first
  tag whose `is_valid` raises something other than PatternError propagates, in both.

  The comprehension `[tag for tag in all_tags if version_parser.is_valid(tag, version_pattern)]`
  is the primitive `pyFilterM` (Model/CliPrims.lean); `version_parser` is a module-valued conditional
  which the translator distributes over the call.
-/
import BumpverVerif.Gen.F_parseVersionTags
import BumpverVerif.Proofs.TieCliLemmas
set_option linter.unusedSimpArgs false
namespace BV

/- whnf must not run into the regex compiler -/
attribute [local irreducible] isValid parseVersionInfo v1IsValid v1ParseVersionInfo pyV2IsValid pyV1IsValid

/-- the generated definition is the filter over the engine `is_new_pattern` selects -/
theorem parseVersionTags_gen (today : Date) (tags : List Str) (pat : Str) (isNew : Bool) :
    GenC.parseVersionTags today tags pat isNew
      = pyFilterM (fun t => if isNew then pyV2IsValid today t pat else pyV1IsValid t pat) tags := by
  unfold GenC.parseVersionTags
  first
    | -- the explicit loop `out = []; for tag in all_tags: if parser.is_valid(tag, pattern): out.append(tag)`
      (dsimp only
       cases isNew <;>
        (split <;>
          (rename_i h; rw [← h]; apply pyForM_filter_nil; intro acc x
           simp only [Bool.false_eq_true, if_false, if_true]
           first
             | (cases pyV2IsValid today x pat <;> (try rfl); rename_i b; cases b <;> rfl)
             | (cases pyV1IsValid x pat <;> (try rfl); rename_i b; cases b <;> rfl))))
    | -- the comprehension `[tag for tag in all_tags if parser.is_valid(tag, pattern)]`
      (cases isNew <;>
        (split <;> (rename_i h; rw [← h]; apply pyFilterM_congr; intro x; split <;> simp_all)))

theorem tie_parseVersionTags_new (today : Date) (tags : List Str) (pat : Str) :
    GenC.parseVersionTags today tags pat true = liftV2 (parseVersionTags pat today tags) := by
  rw [parseVersionTags_gen]; simpa using pyFilterM_v2 today pat tags

theorem tie_parseVersionTags_legacy (today : Date) (tags : List Str) (pat : Str) :
    GenC.parseVersionTags today tags pat false = liftV1 (v1ParseVersionTags pat tags) := by
  rw [parseVersionTags_gen]; simpa using pyFilterM_v1 pat tags

end BV
