/-
  Proofs/Tie_dateFromDoy.lean — the definition GENERATED from the Python source of
  `version.date_from_doy` (`dt.date(year, 1, 1) + dt.timedelta(days=doy - 1)`, harness/translate_parse.py)
  against the hand model `BV.dateFromDoy`.

  For a year 1 … 9999 the two agree on ALL `doy` (the model's `none` is Python's OverflowError).
  For a year outside 1 … 9999 they DIFFER in the class of the error: Python's `dt.date(year, 1, 1)` raises
  ValueError, the model reports an overflow (year ≥ 10000) resp. computes with a year 0.  Witnesses:
  `date_from_doy(10000, 1)` → ValueError, model `dateFromDoy 10000 1 = none` (OverflowError);
  `date_from_doy(0, 367)` → ValueError, model `some (2, 1, 2)` (it reads year 0 as year 1).
  The callers (`parse_field_values_to_cinfo`) only pass years that are truthy and were lifted to ≥ 1000, and the
  version regexes only admit four digits, so the model's callers never see the difference — and
  `parse_version_info` maps both error classes to PatternError.
-/
import BumpverVerif.Gen.F_dateFromDoy
import BumpverVerif.Proofs.TieParseLemmas
namespace BV

/-- what the Python function does, in terms of the model function -/
def dateFromDoyPy (year doy : Nat) : Except PErr PDate :=
  if 1 ≤ year ∧ year ≤ 9999 then
    match dateFromDoy year doy with
    | some d => .ok d
    | none => .error .overflow
  else .error .valueError

theorem ordinal_jan1 (y : Nat) : ordinal y 1 1 = daysBeforeYear y + 1 := by
  simp [ordinal, daysBeforeMonthL]

theorem validDate_jan1 (y : Nat) : validDate y 1 1 = (decide (1 ≤ y) && decide (y ≤ 9999)) := by
  simp [validDate, daysInMonth, daysInMonthL]

/-- the tie, on ALL inputs -/
theorem tie_dateFromDoy (year doy : Nat) : GenF.dateFromDoy year doy = dateFromDoyPy year doy := by
  unfold GenF.dateFromDoy dateFromDoyPy
  by_cases hy : 1 ≤ year ∧ year ≤ 9999
  · have h1 : (decide (1 ≤ year) && decide (year ≤ 9999)) = true := by simp [hy.1, hy.2]
    simp only [pyDate, validDate_jan1, h1, if_pos hy, if_true, exBind_ok, exBind_ok_right, pyDateAddDays, dateFromDoy,
      ordinal_jan1, Int.ofNat_eq_natCast]
    generalize daysBeforeYear year = b
    have hm : maxOrdinal = 3652059 := rfl
    rw [hm]
    -- both sides test "1 ≤ ordinal ≤ maxOrdinal" (over Int resp. Nat) and convert the same ordinal
    by_cases hn : 1 ≤ b + 1 + doy - 1 ∧ b + 1 + doy - 1 ≤ 3652059
    · simp only [if_pos hn]
      split
      · simp only [Except.ok.injEq]; congr 1; omega
      · exfalso; omega
    · simp only [if_neg hn]
      split
      · exfalso; omega
      · rfl
  · have h1 : (decide (1 ≤ year) && decide (year ≤ 9999)) = false := by
      simp only [Bool.and_eq_false_imp, decide_eq_true_eq, decide_eq_false_iff_not]; omega
    simp [pyDate, validDate_jan1, h1, hy]

/-- in the range of `datetime.date` years the generated function IS the model function -/
theorem tie_dateFromDoy_model (year doy : Nat) (hy : 1 ≤ year ∧ year ≤ 9999) :
    GenF.dateFromDoy year doy = match dateFromDoy year doy with
      | some d => .ok d
      | none => .error .overflow := by
  rw [tie_dateFromDoy, dateFromDoyPy, if_pos hy]

/-- outside it the model reports an overflow (or a date), Python a ValueError -/
theorem dateFromDoy_year_out_of_range (year doy : Nat) (hy : ¬ (1 ≤ year ∧ year ≤ 9999)) :
    GenF.dateFromDoy year doy = .error .valueError := by
  rw [tie_dateFromDoy, dateFromDoyPy, if_neg hy]

/-- for a year ≥ 10000 and a day of the year ≥ 1 the model has no date either
    (`dateFromDoy 10000 0 = some (9999, 12, 31)`) -/
theorem dateFromDoy_big_year (year doy : Nat) (hy : 10000 ≤ year) (hd : 1 ≤ doy) : dateFromDoy year doy = none := by
  unfold dateFromDoy
  simp only [ordinal_jan1]
  have hm : maxOrdinal = 3652059 := rfl
  have hb : 3652059 < daysBeforeYear year + 1 := by
    unfold daysBeforeYear
    omega
  generalize daysBeforeYear year = b at hb ⊢
  have h2 : ¬ (1 ≤ b + 1 + doy - 1 ∧ b + 1 + doy - 1 ≤ maxOrdinal) := by
    rw [hm]; omega
  rw [if_neg h2]

example : GenF.dateFromDoy 2018 11 = .ok (2018, 1, 11) := by decide
example : GenF.dateFromDoy 2021 366 = .ok (2022, 1, 1) := by decide
example : GenF.dateFromDoy 10000 1 = .error .valueError ∧ dateFromDoy 10000 1 = none := by decide
example : GenF.dateFromDoy 0 367 = .error .valueError ∧ dateFromDoy 0 367 = some (2, 1, 2) := by decide

end BV
