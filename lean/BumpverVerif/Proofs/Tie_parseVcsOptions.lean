/-
  Proofs/Tie_parseVcsOptions.lean — the definition GENERATED from the Python source of
  `cli._parse_vcs_options` (over the GENERATED structure `GenF.Config`, generated from the class
  definition `config.Config`, and the generated enum `GenF.TagScope`) commutes with the hand model
  `BV.parseVcsOptions` through the explicit abstraction functions `absCfg` / `absCli`.

  Hypotheses (both are guaranteed by click before `_parse_vcs_options` runs):
  * `hts`  : `--tag-scope`, when given, is the value of a `TagScope` member (`click.Choice`);
             otherwise Python raises ValueError from `config.TagScope(tag_scope)` — the generated
             definition answers `none` there (see `parseVcsOptions_bad_scope`), the model has no such input.
  * `hpre`/`hpost` : a hook given on the command line is not the empty string (`click.Path(exists=True)`).
             WITHOUT it model and code differ: with a hook configured and `--pre-commit-hook ""`
             Python replaces the configured hook by "" (no hook runs), the model keeps
             `preHook := c.preHook || true` (see `parseVcsOptions_empty_hook_differs`).
-/
import BumpverVerif.Gen.F_parseVcsOptions
import BumpverVerif.Model.Plan
namespace BV

/-- what the plan model keeps of a `config.Config`: the three VCS switches, "is a hook configured"
    (truthiness of the hook string), "is the tag scope `branch`"; `tme` (is the rendered tag message
    empty) is not a function of the fields `_parse_vcs_options` touches and is carried along. -/
def absCfg {α : Type} (tme : Bool) (c : GenF.Config α) : PlanCfg :=
  { commit := c.commit, tag := c.tag, push := c.push,
    preHook := !c.pre_commit_hook.isEmpty, postHook := !c.post_commit_hook.isEmpty,
    scopeBranch := c.tag_scope == .BRANCH, tagMsgEmpty := tme }

/-- what the plan model keeps of the command line options handed to `_parse_vcs_options`; the other
    fields of `PlanCli` (`dry`, `fetch`, …) are taken from `o`. -/
def absCli (commit tag_commit push : Option Bool) (tag_scope pre post : Option Str) (o : PlanCli) : PlanCli :=
  { o with commit := commit, tagCommit := tag_commit, push := push,
           preHook := pre.isSome, postHook := post.isSome,
           scopeBranch := tag_scope.map (fun s => GenF.TagScope.ofValue s == some .BRANCH) }

theorem hook_nonempty {h : Option Str} (hne : h ≠ some []) : ∀ p : Str, h = some p → p.isEmpty = false := by
  intro p hp; cases p with
  | nil => exact absurd hp hne
  | cons => rfl

/-- no `--tag-scope` -/
theorem tie_parseVcsOptions_noScope {α : Type} (tme : Bool) (o : PlanCli) (cfg : GenF.Config α)
    (commit tag_commit push : Option Bool) (pre post : Option Str)
    (hpre : pre ≠ some []) (hpost : post ≠ some []) :
    (GenF.parseVcsOptions cfg commit tag_commit push none pre post).map (absCfg tme)
      = parseVcsOptions (absCfg tme cfg) (absCli commit tag_commit push none pre post o) := by
  unfold GenF.parseVcsOptions parseVcsOptions
  have hp := hook_nonempty hpre
  have hq := hook_nonempty hpost
  rcases commit with _ | _ | _ <;> rcases tag_commit with _ | _ | _ <;> rcases push with _ | _ | _ <;>
    cases hc : cfg.commit <;> simp [absCfg, absCli, hc] <;>
    (rcases pre with _ | p <;> rcases post with _ | q <;> simp_all)

/-- `--tag-scope s` with `s` the value of the member `v` -/
theorem tie_parseVcsOptions_scope {α : Type} (tme : Bool) (o : PlanCli) (cfg : GenF.Config α)
    (commit tag_commit push : Option Bool) (s : Str) (v : GenF.TagScope) (pre post : Option Str)
    (hv : GenF.TagScope.ofValue s = some v)
    (hpre : pre ≠ some []) (hpost : post ≠ some []) :
    (GenF.parseVcsOptions cfg commit tag_commit push (some s) pre post).map (absCfg tme)
      = parseVcsOptions (absCfg tme cfg) (absCli commit tag_commit push (some s) pre post o) := by
  unfold GenF.parseVcsOptions parseVcsOptions
  have hp := hook_nonempty hpre
  have hq := hook_nonempty hpost
  rcases commit with _ | _ | _ <;> rcases tag_commit with _ | _ | _ <;> rcases push with _ | _ | _ <;>
    cases hc : cfg.commit <;> simp [absCfg, absCli, hc, hv] <;>
    (rcases pre with _ | p <;> rcases post with _ | q <;> simp_all)

theorem tie_parseVcsOptions {α : Type} (tme : Bool) (o : PlanCli) (cfg : GenF.Config α)
    (commit tag_commit push : Option Bool) (tag_scope pre post : Option Str)
    (hts : ∀ s, tag_scope = some s → (GenF.TagScope.ofValue s).isSome = true)
    (hpre : pre ≠ some []) (hpost : post ≠ some []) :
    (GenF.parseVcsOptions cfg commit tag_commit push tag_scope pre post).map (absCfg tme)
      = parseVcsOptions (absCfg tme cfg) (absCli commit tag_commit push tag_scope pre post o) := by
  rcases tag_scope with _ | s
  · exact tie_parseVcsOptions_noScope tme o cfg commit tag_commit push pre post hpre hpost
  · have hs := hts s rfl
    cases hv : GenF.TagScope.ofValue s with
    | none => rw [hv] at hs; cases hs
    | some v => exact tie_parseVcsOptions_scope tme o cfg commit tag_commit push s v pre post hv hpre hpost

/-- a tag scope that is no member value: ValueError (`none`) unless an earlier check already failed
    — either way the result is `none`. -/
theorem parseVcsOptions_bad_scope {α : Type} (cfg : GenF.Config α)
    (commit tag_commit push : Option Bool) (s : Str) (pre post : Option Str)
    (hv : GenF.TagScope.ofValue s = none) :
    GenF.parseVcsOptions cfg commit tag_commit push (some s) pre post = none := by
  unfold GenF.parseVcsOptions
  rcases commit with _ | _ | _ <;> rcases tag_commit with _ | _ | _ <;> rcases push with _ | _ | _ <;>
    cases hc : cfg.commit <;> simp [hc, hv]

/-! non-vacuity: the hypotheses are satisfiable, with a result on both sides -/
def exampleCfg : GenF.Config Unit :=
  { current_version := "1.0.0".toList, version_pattern := "MAJOR.MINOR.PATCH".toList,
    pep440_version := "1.0.0".toList, commit_message := [], tag_message := [], tag_scope := .DEFAULT,
    pre_commit_hook := [], post_commit_hook := "post.sh".toList, commit := false, tag := false,
    push := false, is_new_pattern := true, file_patterns := () }

def exampleCli : PlanCli :=
  { commit := none, tagCommit := none, push := none, preHook := false, postHook := false,
    scopeBranch := none, dry := false, fetch := true, ignoreVcsTag := false, setVersion := false }

example :
    (GenF.parseVcsOptions exampleCfg (some true) (some true) none (some "branch".toList)
        (some "pre.sh".toList) none).map (absCfg false)
      = parseVcsOptions (absCfg false exampleCfg)
          (absCli (some true) (some true) none (some "branch".toList) (some "pre.sh".toList) none exampleCli) :=
  tie_parseVcsOptions false exampleCli exampleCfg (some true) (some true) none (some "branch".toList)
    (some "pre.sh".toList) none (by intro s h; cases h; decide) (by decide) (by decide)

example : ((GenF.parseVcsOptions exampleCfg (some true) (some true) none (some "branch".toList)
    (some "pre.sh".toList) none).map (fun c => (c.commit, c.tag, c.tag_scope, c.pre_commit_hook)))
    = some (true, true, .BRANCH, "pre.sh".toList) := by decide

/-- FINDING (unreachable through click): with an EMPTY hook path on the command line the hand model
    and the code differ — the code replaces the configured hook by "", the model keeps a hook. -/
theorem parseVcsOptions_empty_hook_differs :
    (GenF.parseVcsOptions exampleCfg none none none none none (some [])).map
        (fun c => (absCfg false c).postHook) = some false ∧
    (parseVcsOptions (absCfg false exampleCfg) (absCli none none none none none (some []) exampleCli)).map
        (fun c => c.postHook) = some true := by
  constructor <;> decide

end BV
