/-
  Proofs/Tie_iterMatches.lean — the definition GENERATED from the Python source of
  `parse.iter_matches` (Gen/F_iterMatches.lean: nested loops over patterns and matches, the generator run
  to exhaustion) equals the hand model `BV.iterMatches` through the abstraction, for every list of lines
  and every list of well-formed patterns (`Pattern.Wf`: the regexp IS the compiled raw pattern — the
  Python object carries the compiled regex, the model recompiles it).

  The callees are the generated `GenF.iterForPattern` (tie_iterForPattern) and `GenF.hasOverlap`
  (tie_hasOverlap).  The proof is by two generic fold lemmas which only ask what ONE iteration of the
  inner / outer loop does to the pair (yielded matches, recorded spans).
-/
import BumpverVerif.Gen.F_iterMatches
import BumpverVerif.Proofs.Tie_iterForPattern
import BumpverVerif.Proofs.Tie_hasOverlap
namespace BV

open GenF (PatternMatch Pattern)

/-- the inner loop: every match is recorded, the non-overlapping ones are yielded -/
theorem foldl_inner_tie
    (g : List PatternMatch × List LineSpan → PatternMatch → List PatternMatch × List LineSpan)
    (hg : ∀ y s m, g (y, s) m = (if hasOverlap m.abs.span s then y else y ++ [m], s ++ [m.abs.span]))
    (l : List PatternMatch) (y : List PatternMatch) (s : List LineSpan) :
    ((List.foldl g (y, s) l).1).map PatternMatch.abs = y.map PatternMatch.abs ++ keptOf s (l.map PatternMatch.abs)
    ∧ (List.foldl g (y, s) l).2 = s ++ (l.map PatternMatch.abs).map PMatch.span := by
  induction l generalizing y s with
  | nil => simp [keptOf]
  | cons m l ih =>
    rw [List.foldl_cons, hg]
    obtain ⟨ih1, ih2⟩ := ih (if hasOverlap m.abs.span s then y else y ++ [m]) (s ++ [m.abs.span])
    refine ⟨?_, ?_⟩
    · rw [ih1]
      simp only [List.map_cons, keptOf]
      split <;> simp
    · rw [ih2]; simp

/-- the outer loop -/
theorem foldl_outer_tie (lines : List Str)
    (f : List PatternMatch × List LineSpan → Pattern → List PatternMatch × List LineSpan)
    (hf : ∀ y s (p : Pattern),
      ((f (y, s) p).1).map PatternMatch.abs
          = y.map PatternMatch.abs ++ keptOf s (iterForPatternGo p.regexp p.abs 0 lines)
      ∧ (f (y, s) p).2 = s ++ (iterForPatternGo p.regexp p.abs 0 lines).map PMatch.span)
    (ps : List Pattern) (hwf : ∀ p ∈ ps, p.Wf) (y : List PatternMatch) (s : List LineSpan) :
    ∃ rest, iterMatchesGo lines (ps.map Pattern.abs) s = some rest ∧
      ((List.foldl f (y, s) ps).1).map PatternMatch.abs = y.map PatternMatch.abs ++ rest := by
  induction ps generalizing y s with
  | nil => exact ⟨[], by simp [iterMatchesGo_nil]⟩
  | cons p ps ih =>
    have hp : compileRe p.abs.raw = some p.regexp := hwf p List.mem_cons_self
    obtain ⟨h1, h2⟩ := hf y s p
    obtain ⟨rest, hr1, hr2⟩ := ih (fun q hq => hwf q (List.mem_cons_of_mem _ hq)) (f (y, s) p).1 (f (y, s) p).2
    refine ⟨keptOf s (iterForPatternGo p.regexp p.abs 0 lines) ++ rest, ?_, ?_⟩
    · rw [List.map_cons, iterMatchesGo_cons, hp]
      simp only
      rw [← h2, hr1]
      rfl
    · rw [List.foldl_cons]
      have : f (y, s) p = ((f (y, s) p).1, (f (y, s) p).2) := rfl
      rw [this, hr2, h1, List.append_assoc]

/-- the model, from a fold with the right step -/
theorem iterMatches_of_fold (lines : List Str)
    (f : List PatternMatch × List LineSpan → Pattern → List PatternMatch × List LineSpan)
    (hf : ∀ y s (p : Pattern),
      ((f (y, s) p).1).map PatternMatch.abs
          = y.map PatternMatch.abs ++ keptOf s (iterForPatternGo p.regexp p.abs 0 lines)
      ∧ (f (y, s) p).2 = s ++ (iterForPatternGo p.regexp p.abs 0 lines).map PMatch.span)
    (ps : List Pattern) (hwf : ∀ p ∈ ps, p.Wf) :
    iterMatches lines (ps.map Pattern.abs) = some (((List.foldl f ([], []) ps).1).map PatternMatch.abs) := by
  obtain ⟨rest, h1, h2⟩ := foldl_outer_tie lines f hf ps hwf [] []
  unfold iterMatches
  rw [h1, h2]
  simp

theorem tie_iterMatches (lines : List Str) (patterns : List Pattern) (hwf : ∀ p ∈ patterns, p.Wf) :
    iterMatches lines (patterns.map Pattern.abs) = some ((GenF.iterMatches lines patterns).map PatternMatch.abs) := by
  unfold GenF.iterMatches
  refine iterMatches_of_fold lines _ ?_ patterns hwf
  intro y s p
  rw [← tie_iterForPattern]
  refine foldl_inner_tie _ ?_ (GenF.iterForPattern lines p) y s
  intro y s m
  simp only [tie_hasOverlap, PatternMatch.abs, PMatch.span]
  split <;> simp_all

/-! ### the yielded matches carry one of the given patterns (with its regexp) -/

theorem foldl_inner_mem
    (g : List PatternMatch × List LineSpan → PatternMatch → List PatternMatch × List LineSpan)
    (hg : ∀ y s m, g (y, s) m = (if hasOverlap m.abs.span s then y else y ++ [m], s ++ [m.abs.span]))
    (l : List PatternMatch) (y : List PatternMatch) (s : List LineSpan) :
    ∀ x ∈ (List.foldl g (y, s) l).1, x ∈ y ∨ x ∈ l := by
  induction l generalizing y s with
  | nil => intro x hx; exact .inl hx
  | cons m l ih =>
    intro x hx
    rw [List.foldl_cons, hg] at hx
    rcases ih _ _ x hx with h | h
    · split at h
      · exact .inl h
      · rcases List.mem_append.1 h with h | h
        · exact .inl h
        · exact .inr (by simp_all)
    · exact .inr (List.mem_cons_of_mem _ h)

theorem foldl_outer_mem
    (f : List PatternMatch × List LineSpan → Pattern → List PatternMatch × List LineSpan)
    (hf : ∀ y s (p : Pattern), ∀ x ∈ (f (y, s) p).1, x ∈ y ∨ x.pattern = p)
    (ps : List Pattern) (y : List PatternMatch) (s : List LineSpan) :
    ∀ x ∈ (List.foldl f (y, s) ps).1, x ∈ y ∨ x.pattern ∈ ps := by
  induction ps generalizing y s with
  | nil => intro x hx; exact .inl hx
  | cons p ps ih =>
    intro x hx
    rw [List.foldl_cons] at hx
    have : f (y, s) p = ((f (y, s) p).1, (f (y, s) p).2) := rfl
    rw [this] at hx
    rcases ih _ _ x hx with h | h
    · rcases hf y s p x h with h | h
      · exact .inl h
      · exact .inr (h ▸ List.mem_cons_self)
    · exact .inr (List.mem_cons_of_mem _ h)

theorem iterMatches_pattern_mem (lines : List Str) (patterns : List Pattern) :
    ∀ m ∈ GenF.iterMatches lines patterns, m.pattern ∈ patterns := by
  intro m hm
  unfold GenF.iterMatches at hm
  have := foldl_outer_mem _ ?_ patterns [] [] m hm
  · rcases this with h | h
    · cases h
    · exact h
  · intro y s p x hx
    have := foldl_inner_mem _ ?_ (GenF.iterForPattern lines p) y s x hx
    · rcases this with h | h
      · exact .inl h
      · exact .inr (iterForPattern_fields lines p x h).1
    · intro y s m
      simp only [tie_hasOverlap, PatternMatch.abs, PMatch.span]
      split <;> simp_all

end BV
