/-
  Proofs/Tie_iterGlobExpandedFilePatterns.lean — the definition GENERATED from the Python source of
  `config._iter_glob_expanded_file_patterns` (Gen/F_iterGlobExpandedFilePatterns.lean, harness/translate_filepatterns.py;
  a generator: `Py.PyGen`, the two `for` loops are the closed auxiliary definitions `….loop1` / `….loop2`) equals

  * `tie_iterGlobExpandedFilePatterns`       : the reference generator `iterGlobExpandedE` (Model/FilePatterns.lean) for
    EVERY glob function, including one that raises (`""`, `"."`, an absolute key);
  * `tie_iterGlobExpandedFilePatterns_model` : the hand model `iterGlobExpanded` (Model/Config.lean) when glob never
    raises — the generator then returns normally.

  The parameter `glob` stands for `[str(p) for p in pl.Path().glob(g)]`: a `pathlib.Path` is represented by its
  `str()` (normalised, relative to the working directory); see Model/FilePatterns.lean.
-/
import BumpverVerif.Gen.F_iterGlobExpandedFilePatterns
import BumpverVerif.Proofs.FilePatternsLemmas
namespace BV
open TieP Py

namespace TieP

/-- the inner loop `for filepath in filepaths: yield str(filepath), raw_patterns` -/
theorem iterGlob_loop2 (glob : Str → Except Str (List Str)) (pats : List Str) (fs : List Str) :
    GenF.iterGlobExpandedFilePatterns.loop2 glob pats fs = ofList (fs.map (fun f => (f, pats))) := by
  induction fs with
  | nil => rfl
  | cons f t ih => simp only [GenF.iterGlobExpandedFilePatterns.loop2, ih, yield_eq, ofList, List.map_cons]

theorem iterGlob_loop1 (glob : Str → Except Str (List Str)) (fps : FilePatterns) :
    GenF.iterGlobExpandedFilePatterns.loop1 glob fps = iterGlobExpandedE glob fps := by
  induction fps with
  | nil => rfl
  | cons hd rest ih =>
    obtain ⟨g, pats⟩ := hd
    simp only [GenF.iterGlobExpandedFilePatterns.loop1, iterGlobExpandedE, ih, iterGlob_loop2]
    rcases glob g with e | fs
    · rfl
    · rcases fs with _ | ⟨f, t⟩
      · simp [yield_eq]
      · simp [ofList_andThen]

end TieP

theorem tie_iterGlobExpandedFilePatterns (glob : Str → Except Str (List Str)) (fps : FilePatterns) :
    GenF.iterGlobExpandedFilePatterns glob fps = iterGlobExpandedE glob fps := by
  simp only [GenF.iterGlobExpandedFilePatterns, iterGlob_loop1, andThen_done]

theorem tie_iterGlobExpandedFilePatterns_model (glob : Str → List Str) (fps : FilePatterns) :
    GenF.iterGlobExpandedFilePatterns (fun g => .ok (glob g)) fps = ⟨iterGlobExpanded glob fps, none⟩ := by
  rw [tie_iterGlobExpandedFilePatterns, iterGlobExpandedE_total]

end BV
