/-
  Proofs/Digits.lean — helper lemmas about decimal digit strings
  (`natToStr`, `strToNat`, `zfill`, `strLt`) and about `nextId` / `padBid`.
  Helper lemmas only; property theorems live in Props/.
-/
import BumpverVerif.Model.LexId
namespace BV

/-! ### single digit characters -/

theorem isDigit_iff (c : Char) : isDigit c = true ↔ 48 ≤ c.toNat ∧ c.toNat ≤ 57 := by
  simp only [isDigit, Bool.and_eq_true, decide_eq_true_eq, Char.le_def]
  exact Iff.rfl

theorem char_lt_iff (a b : Char) : a < b ↔ a.toNat < b.toNat := by
  rw [Char.lt_def]; exact Iff.rfl

theorem digitChar_toNat (d : Nat) (h : d < 10) : (digitChar d).toNat = 48 + d := by
  have : ∀ d : Fin 10, (digitChar d.val).toNat = 48 + d.val := by decide
  exact this ⟨d, h⟩

theorem isDigit_digitChar (d : Nat) (h : d < 10) : isDigit (digitChar d) = true := by
  rw [isDigit_iff, digitChar_toNat d h]; omega

theorem digitVal_digitChar (d : Nat) (h : d < 10) : digitVal (digitChar d) = d := by
  simp only [digitVal, digitChar_toNat d h]; omega

theorem digitVal_lt (c : Char) (h : isDigit c = true) : digitVal c < 10 := by
  rw [isDigit_iff] at h; simp only [digitVal]; omega

theorem digitChar_digitVal (c : Char) (h : isDigit c = true) : digitChar (digitVal c) = c := by
  rw [isDigit_iff] at h
  apply Char.toNat_inj.mp
  rw [digitChar_toNat _ (by simp only [digitVal]; omega)]
  simp only [digitVal]; omega

theorem digit_lt_iff (a b : Char) (ha : isDigit a = true) (hb : isDigit b = true) :
    a < b ↔ digitVal a < digitVal b := by
  rw [isDigit_iff] at ha hb
  rw [char_lt_iff]; simp only [digitVal]; omega

theorem digitVal_inj (a b : Char) (ha : isDigit a = true) (hb : isDigit b = true)
    (h : digitVal a = digitVal b) : a = b := by
  rw [← digitChar_digitVal a ha, ← digitChar_digitVal b hb, h]

theorem char_eq_of_not_lt (a b : Char) (h1 : ¬ a < b) (h2 : ¬ b < a) : a = b := by
  rw [char_lt_iff] at h1 h2
  apply Char.toNat_inj.mp; omega


theorem digitChar_lt (d e : Nat) (he : e < 10) (h : d < e) : digitChar d < digitChar e := by
  rw [char_lt_iff, digitChar_toNat d (by omega), digitChar_toNat e he]; omega

/-! ### `natToStr` -/

theorem natToStrF_fuel (f : Nat) : ∀ (g n : Nat), n ≤ f → n ≤ g → natToStrF f n = natToStrF g n := by
  induction f with
  | zero =>
    intro g n hf hg
    have : n = 0 := by omega
    subst this
    cases g with
    | zero => rfl
    | succ g => simp [natToStrF]
  | succ f ih =>
    intro g n hf hg
    cases g with
    | zero =>
      have : n = 0 := by omega
      subst this
      simp [natToStrF]
    | succ g =>
      simp only [natToStrF]
      split
      · rfl
      · rw [ih g (n / 10) (by omega) (by omega)]

theorem natToStr_unfold (n : Nat) :
    natToStr n = if n < 10 then [digitChar n] else natToStr (n / 10) ++ [digitChar (n % 10)] := by
  cases n with
  | zero => simp [natToStr, natToStrF]
  | succ m =>
    simp only [natToStr, natToStrF]
    split
    · rfl
    · rw [natToStrF_fuel m ((m + 1) / 10) ((m + 1) / 10) (by omega) (Nat.le_refl _)]

theorem natToStr_lt10 (n : Nat) (h : n < 10) : natToStr n = [digitChar n] := by
  rw [natToStr_unfold, if_pos h]

theorem natToStr_ge10 (n : Nat) (h : 10 ≤ n) :
    natToStr n = natToStr (n / 10) ++ [digitChar (n % 10)] := by
  rw [natToStr_unfold, if_neg (by omega)]

theorem natToStr_ne_nil (n : Nat) : natToStr n ≠ [] := by
  rw [natToStr_unfold]; split <;> simp

theorem natToStr_length_pos (n : Nat) : 0 < (natToStr n).length := by
  have := natToStr_ne_nil n
  exact List.length_pos_iff.mpr this

theorem allDigits_natToStr (n : Nat) : allDigits (natToStr n) = true := by
  induction n using Nat.strongRecOn with
  | _ n ih =>
    rw [natToStr_unfold]
    split
    · next h => simp [allDigits, isDigit_digitChar n h]
    · next h =>
      have := ih (n / 10) (by omega)
      simp only [allDigits, List.all_append, List.all_cons, List.all_nil, Bool.and_true,
        Bool.and_eq_true] at this ⊢
      exact ⟨this, isDigit_digitChar _ (by omega)⟩

theorem isDigitStr_natToStr (n : Nat) : isDigitStr (natToStr n) = true := by
  simp only [isDigitStr, Bool.and_eq_true, Bool.not_eq_true', allDigits_natToStr, and_true]
  have := natToStr_ne_nil n
  simpa using this


/-! ### `strToNat` -/

theorem foldl_digits_acc (s : Str) : ∀ acc : Nat,
    s.foldl (fun acc c => acc * 10 + digitVal c) acc
      = acc * 10 ^ s.length + s.foldl (fun acc c => acc * 10 + digitVal c) 0 := by
  induction s with
  | nil => intro acc; simp
  | cons c cs ih =>
    intro acc
    simp only [List.foldl_cons, List.length_cons]
    rw [ih (acc * 10 + digitVal c), ih (0 * 10 + digitVal c), Nat.pow_succ]
    simp only [Nat.zero_mul, Nat.zero_add, Nat.add_mul, Nat.mul_assoc, Nat.add_assoc,
      Nat.mul_comm 10]

theorem strToNat_nil : strToNat [] = 0 := rfl

theorem strToNat_cons (c : Char) (s : Str) :
    strToNat (c :: s) = digitVal c * 10 ^ s.length + strToNat s := by
  simp only [strToNat, List.foldl_cons]
  rw [foldl_digits_acc]; simp

theorem strToNat_append (a b : Str) :
    strToNat (a ++ b) = strToNat a * 10 ^ b.length + strToNat b := by
  simp only [strToNat, List.foldl_append]
  rw [foldl_digits_acc]

theorem strToNat_snoc (a : Str) (c : Char) :
    strToNat (a ++ [c]) = strToNat a * 10 + digitVal c := by
  simp [strToNat, List.foldl_append]

theorem strToNat_replicate_zero (k : Nat) : strToNat (List.replicate k '0') = 0 := by
  induction k with
  | zero => rfl
  | succ k ih =>
    rw [List.replicate_succ, strToNat_cons, ih]
    have : digitVal '0' = 0 := by decide
    simp [this]

theorem strToNat_zfill (w : Nat) (s : Str) : strToNat (zfill w s) = strToNat s := by
  simp [zfill, strToNat_append, strToNat_replicate_zero]

theorem strToNat_natToStr (n : Nat) : strToNat (natToStr n) = n := by
  induction n using Nat.strongRecOn with
  | _ n ih =>
    rw [natToStr_unfold]
    split
    · next h =>
      rw [strToNat_cons, digitVal_digitChar n h]; simp [strToNat_nil]
    · next h =>
      rw [strToNat_snoc, ih (n / 10) (by omega), digitVal_digitChar _ (by omega)]
      omega

theorem natToStr_injective (a b : Nat) (h : natToStr a = natToStr b) : a = b := by
  rw [← strToNat_natToStr a, ← strToNat_natToStr b, h]

theorem allDigits_cons (c : Char) (s : Str) :
    allDigits (c :: s) = true ↔ isDigit c = true ∧ allDigits s = true := by
  simp [allDigits]

theorem allDigits_append (a b : Str) :
    allDigits (a ++ b) = true ↔ allDigits a = true ∧ allDigits b = true := by
  simp [allDigits]

theorem isDigitStr_iff (s : Str) : isDigitStr s = true ↔ s ≠ [] ∧ allDigits s = true := by
  simp [isDigitStr]

theorem strToNat_lt_pow (s : Str) (h : allDigits s = true) : strToNat s < 10 ^ s.length := by
  induction s with
  | nil => simp [strToNat_nil]
  | cons c cs ih =>
    rw [allDigits_cons] at h
    have h1 := digitVal_lt c h.1
    have h2 := ih h.2
    rw [strToNat_cons, List.length_cons, Nat.pow_succ]
    have : digitVal c * 10 ^ cs.length ≤ 9 * 10 ^ cs.length :=
      Nat.mul_le_mul_right _ (by omega)
    omega

/-! ### all-nines strings -/

theorem strToNat_all_nines (s : Str) (h : s.all (· == '9') = true) :
    strToNat s + 1 = 10 ^ s.length := by
  induction s with
  | nil => rfl
  | cons c cs ih =>
    simp only [List.all_cons, Bool.and_eq_true, beq_iff_eq] at h
    have h2 := ih h.2
    have h9 : digitVal '9' = 9 := by decide
    rw [strToNat_cons, h.1, h9, List.length_cons, Nat.pow_succ]
    omega

theorem strToNat_succ_lt_pow (s : Str) (hd : allDigits s = true)
    (h9 : s.all (· == '9') = false) : strToNat s + 1 < 10 ^ s.length := by
  induction s with
  | nil => simp at h9
  | cons c cs ih =>
    rw [allDigits_cons] at hd
    have hlt := strToNat_lt_pow cs hd.2
    rw [strToNat_cons, List.length_cons, Nat.pow_succ]
    by_cases hc : c = '9'
    · subst hc
      have h9' : cs.all (· == '9') = false := by simpa using h9
      have := ih hd.2 h9'
      have h9v : digitVal '9' = 9 := by decide
      rw [h9v]; omega
    · have hv : digitVal c ≤ 8 := by
        have := digitVal_lt c hd.1
        have h9v : digitVal '9' = 9 := by decide
        have : digitVal c ≠ 9 := fun h => hc (digitVal_inj c '9' hd.1 (by decide) (by rw [h, h9v]))
        omega
      have : digitVal c * 10 ^ cs.length ≤ 8 * 10 ^ cs.length := Nat.mul_le_mul_right _ hv
      omega

theorem all_nines_of_strToNat (s : Str) (hd : allDigits s = true)
    (h : strToNat s + 1 = 10 ^ s.length) : s.all (· == '9') = true := by
  cases h9 : s.all (· == '9') with
  | true => rfl
  | false => have := strToNat_succ_lt_pow s hd h9; omega

/-! ### length and leading digit of `natToStr` -/

theorem natToStr_length_le (k : Nat) : ∀ n : Nat, 1 ≤ k → n < 10 ^ k → (natToStr n).length ≤ k := by
  induction k with
  | zero => intro n hk; omega
  | succ k ih =>
    intro n _ hn
    by_cases h10 : n < 10
    · rw [natToStr_lt10 n h10]; simp
    · rw [natToStr_ge10 n (by omega)]
      have hk : 1 ≤ k := by
        cases k with
        | zero => simp at hn; omega
        | succ k => omega
      have : n / 10 < 10 ^ k := by
        rw [Nat.pow_succ] at hn
        exact Nat.div_lt_of_lt_mul (by omega)
      have := ih (n / 10) hk this
      simp only [List.length_append, List.length_cons, List.length_nil]
      omega

theorem natToStr_length_gt (k n : Nat) (h : 10 ^ k ≤ n) : k < (natToStr n).length := by
  have h1 := strToNat_lt_pow (natToStr n) (allDigits_natToStr n)
  rw [strToNat_natToStr] at h1
  have : 10 ^ k < 10 ^ (natToStr n).length := Nat.lt_of_le_of_lt h h1
  exact (Nat.pow_lt_pow_iff_right (by omega)).mp this

theorem natToStr_length_eq (k n : Nat) (hlo : 10 ^ k ≤ n) (hhi : n < 10 ^ (k + 1)) :
    (natToStr n).length = k + 1 := by
  have := natToStr_length_gt k n hlo
  have := natToStr_length_le (k + 1) n (by omega) hhi
  omega

/-- the leading digit of a digit string is determined by the value -/
theorem digitVal_head_eq (c : Char) (t : Str) (e : Nat) (hd : allDigits t = true)
    (hlo : e * 10 ^ t.length ≤ strToNat (c :: t))
    (hhi : strToNat (c :: t) < (e + 1) * 10 ^ t.length) : digitVal c = e := by
  have hlt := strToNat_lt_pow t hd
  rw [strToNat_cons] at hlo hhi
  rw [Nat.add_mul, Nat.one_mul] at hhi
  rcases Nat.lt_trichotomy (digitVal c) e with hlt' | heq | hgt
  · have : (digitVal c + 1) * 10 ^ t.length ≤ e * 10 ^ t.length := Nat.mul_le_mul_right _ hlt'
    rw [Nat.add_mul, Nat.one_mul] at this
    omega
  · exact heq
  · have : (e + 1) * 10 ^ t.length ≤ digitVal c * 10 ^ t.length := Nat.mul_le_mul_right _ hgt
    rw [Nat.add_mul, Nat.one_mul] at this
    omega

theorem head_eq_digitChar (c : Char) (t : Str) (e : Nat) (hc : isDigit c = true)
    (hd : allDigits t = true)
    (hlo : e * 10 ^ t.length ≤ strToNat (c :: t))
    (hhi : strToNat (c :: t) < (e + 1) * 10 ^ t.length) : c = digitChar e := by
  rw [← digitVal_head_eq c t e hd hlo hhi, digitChar_digitVal c hc]

/-- `str(n)` has no leading zero for `n > 0` -/
theorem natToStr_head_ne_zero (n : Nat) (hn : 0 < n) (c : Char) (t : Str)
    (h : natToStr n = c :: t) : c ≠ '0' := by
  intro hc
  subst hc
  have hd := allDigits_natToStr n
  rw [h, allDigits_cons] at hd
  have hv := strToNat_natToStr n
  rw [h, strToNat_cons] at hv
  have h0 : digitVal '0' = 0 := by decide
  rw [h0, Nat.zero_mul, Nat.zero_add] at hv
  have hlt := strToNat_lt_pow t hd.2
  rw [hv] at hlt
  cases ht : t.length with
  | zero => rw [ht] at hlt; simp at hlt; omega
  | succ k =>
    have := natToStr_length_le t.length n (by omega) hlt
    rw [h, List.length_cons] at this
    omega

/-! ### `strLt` -/

theorem strLt_cons_cons (a b : Char) (as bs : Str) :
    strLt (a :: as) (b :: bs) = if a < b then true else if b < a then false else strLt as bs := rfl

theorem strLt_of_head_lt (a b : Char) (as bs : Str) (h : a < b) :
    strLt (a :: as) (b :: bs) = true := by
  rw [strLt_cons_cons, if_pos h]

theorem strLt_cons_self (a : Char) (as bs : Str) :
    strLt (a :: as) (a :: bs) = strLt as bs := by
  rw [strLt_cons_cons, if_neg (Char.lt_irrefl a), if_neg (Char.lt_irrefl a)]

theorem strLt_irrefl (a : Str) : strLt a a = false := by
  induction a with
  | nil => rfl
  | cons c cs ih => rw [strLt_cons_self, ih]

theorem strLt_trans : ∀ (a b c : Str), strLt a b = true → strLt b c = true → strLt a c = true := by
  intro a
  induction a with
  | nil =>
    intro b c hab hbc
    cases b with
    | nil => simp [strLt] at hab
    | cons y ys =>
      cases c with
      | nil => simp [strLt] at hbc
      | cons z zs => rfl
  | cons x xs ih =>
    intro b c hab hbc
    cases b with
    | nil => simp [strLt] at hab
    | cons y ys =>
      cases c with
      | nil => simp [strLt] at hbc
      | cons z zs =>
        rw [strLt_cons_cons] at hab hbc
        by_cases hxy : x < y
        · by_cases hyz : y < z
          · exact strLt_of_head_lt _ _ _ _ (Char.lt_trans hxy hyz)
          · rw [if_neg hyz] at hbc
            by_cases hzy : z < y
            · rw [if_pos hzy] at hbc; cases hbc
            · have : y = z := char_eq_of_not_lt y z hyz hzy
              subst this
              exact strLt_of_head_lt _ _ _ _ hxy
        · rw [if_neg hxy] at hab
          by_cases hyx : y < x
          · rw [if_pos hyx] at hab; cases hab
          · rw [if_neg hyx] at hab
            have : x = y := char_eq_of_not_lt x y hxy hyx
            subst this
            by_cases hxz : x < z
            · exact strLt_of_head_lt _ _ _ _ hxz
            · rw [if_neg hxz] at hbc
              by_cases hzx : z < x
              · rw [if_pos hzx] at hbc; cases hbc
              · rw [if_neg hzx] at hbc
                have : x = z := char_eq_of_not_lt x z hxz hzx
                subst this
                rw [strLt_cons_self]
                exact ih ys zs hab hbc

/-- for digit strings of equal length the string order is the numeric order -/
theorem strLt_iff_of_length_eq : ∀ (a b : Str), allDigits a = true → allDigits b = true →
    a.length = b.length → (strLt a b = true ↔ strToNat a < strToNat b) := by
  intro a
  induction a with
  | nil =>
    intro b _ _ hl
    cases b with
    | nil => simp [strLt, strToNat_nil]
    | cons y ys => simp at hl
  | cons x xs ih =>
    intro b ha hb hl
    cases b with
    | nil => simp at hl
    | cons y ys =>
      rw [allDigits_cons] at ha hb
      simp only [List.length_cons, Nat.add_right_cancel_iff] at hl
      have hxs := strToNat_lt_pow xs ha.2
      have hys := strToNat_lt_pow ys hb.2
      rw [strToNat_cons, strToNat_cons, strLt_cons_cons, hl]
      rw [hl] at hxs
      by_cases hxy : x < y
      · rw [if_pos hxy]
        have hv := (digit_lt_iff x y ha.1 hb.1).mp hxy
        have : (digitVal x + 1) * 10 ^ ys.length ≤ digitVal y * 10 ^ ys.length :=
          Nat.mul_le_mul_right _ hv
        rw [Nat.add_mul, Nat.one_mul] at this
        simp only [true_iff]; omega
      · rw [if_neg hxy]
        by_cases hyx : y < x
        · rw [if_pos hyx]
          have hv := (digit_lt_iff y x hb.1 ha.1).mp hyx
          have : (digitVal y + 1) * 10 ^ ys.length ≤ digitVal x * 10 ^ ys.length :=
            Nat.mul_le_mul_right _ hv
          rw [Nat.add_mul, Nat.one_mul] at this
          simp only [Bool.false_eq_true, false_iff]; omega
        · rw [if_neg hyx]
          have : x = y := char_eq_of_not_lt x y hxy hyx
          subst this
          rw [ih ys ha.2 hb.2 hl]
          omega

/-! ### `zfill` -/

theorem allDigits_replicate_zero (k : Nat) : allDigits (List.replicate k '0') = true := by
  induction k with
  | zero => rfl
  | succ k ih => rw [List.replicate_succ, allDigits_cons]; exact ⟨by decide, ih⟩

theorem allDigits_zfill (w : Nat) (s : Str) (h : allDigits s = true) :
    allDigits (zfill w s) = true := by
  rw [zfill, allDigits_append]; exact ⟨allDigits_replicate_zero _, h⟩

theorem zfill_length (w : Nat) (s : Str) (h : s.length ≤ w) : (zfill w s).length = w := by
  simp only [zfill, List.length_append, List.length_replicate]; omega

/-! ### `nextId`, `padBid` -/

theorem nextId_none_iff (p : Str) : nextId p = none ↔ p.all (· == '9') = true := by
  unfold nextId
  split
  · next h => simp [h]
  · next h =>
    simp only [h]
    split <;> simp

/-- a digit string whose successor has the same width but another leading digit is `d99…9` -/
theorem head_change (c e : Char) (t u : Str) (hc : isDigit c = true) (he : isDigit e = true)
    (ht : allDigits t = true) (hu : allDigits u = true) (hl : u.length = t.length)
    (hne : c ≠ e) (hv : strToNat (e :: u) = strToNat (c :: t) + 1) :
    digitVal e = digitVal c + 1 ∧ strToNat (e :: u) = (digitVal c + 1) * 10 ^ t.length := by
  have htl := strToNat_lt_pow t ht
  have hul := strToNat_lt_pow u hu
  have hvne : digitVal c ≠ digitVal e := fun h => hne (digitVal_inj c e hc he h)
  rw [strToNat_cons, strToNat_cons, hl] at hv
  rw [hl] at hul
  rw [strToNat_cons, hl]
  rcases Nat.lt_or_gt_of_ne hvne with hlt | hgt
  · have h1 : (digitVal c + 1) * 10 ^ t.length ≤ digitVal e * 10 ^ t.length :=
      Nat.mul_le_mul_right _ hlt
    rw [Nat.add_mul, Nat.one_mul] at h1
    have h2 : digitVal e * 10 ^ t.length = (digitVal c + 1) * 10 ^ t.length := by
      rw [Nat.add_mul, Nat.one_mul]; omega
    have hP : 0 < 10 ^ t.length := Nat.pow_pos (by omega)
    refine ⟨Nat.eq_of_mul_eq_mul_right hP h2, ?_⟩
    rw [Nat.add_mul, Nat.one_mul]; omega
  · have h1 : (digitVal e + 1) * 10 ^ t.length ≤ digitVal c * 10 ^ t.length :=
      Nat.mul_le_mul_right _ hgt
    rw [Nat.add_mul, Nat.one_mul] at h1
    omega

/-- complete description of a successful `next_id` on a digit string -/
theorem nextId_spec (p b' : Str) (hp : isDigitStr p = true) (h : nextId p = some b') :
    isDigitStr b' = true ∧
    ((p.head? = b'.head? ∧ b'.length = p.length ∧ strToNat b' = strToNat p + 1) ∨
     (∃ d, d < 9 ∧ p.head? = some (digitChar d) ∧ b'.head? = some (digitChar (d + 1)) ∧
        b'.length = p.length + 1 ∧ strToNat b' = (strToNat p + 1) * 11)) := by
  rw [isDigitStr_iff] at hp
  obtain ⟨hpne, hpd⟩ := hp
  have hplen : 1 ≤ p.length := List.length_pos_iff.mpr hpne
  unfold nextId at h
  split at h
  · cases h
  · next h9 =>
    have h9' : p.all (· == '9') = false := by simpa using h9
    have hvlt := strToNat_succ_lt_pow p hpd h9'
    have hslen : (zfill p.length (natToStr (strToNat p + 1))).length = p.length :=
      zfill_length _ _ (natToStr_length_le _ _ hplen hvlt)
    have hsd : allDigits (zfill p.length (natToStr (strToNat p + 1))) = true :=
      allDigits_zfill _ _ (allDigits_natToStr _)
    have hsv : strToNat (zfill p.length (natToStr (strToNat p + 1))) = strToNat p + 1 := by
      rw [strToNat_zfill, strToNat_natToStr]
    simp only at h
    split at h
    · next hh =>
      have hh' := eq_of_beq hh
      injection h with h
      subst h
      refine ⟨?_, Or.inl ⟨hh', hslen, hsv⟩⟩
      rw [isDigitStr_iff]
      refine ⟨?_, hsd⟩
      intro hnil
      rw [hnil] at hslen
      simp at hslen; omega
    · next hh =>
      injection h with h
      subst h
      refine ⟨isDigitStr_natToStr _, Or.inr ?_⟩
      generalize hs : zfill p.length (natToStr (strToNat p + 1)) = s at *
      cases p with
      | nil => exact absurd rfl hpne
      | cons c t =>
        cases s with
        | nil => simp at hslen
        | cons e u =>
          rw [allDigits_cons] at hpd hsd
          simp only [List.length_cons, Nat.add_right_cancel_iff] at hslen
          have hne : c ≠ e := by
            intro hce; apply hh; simp [hce]
          obtain ⟨hde, hval⟩ := head_change c e t u hpd.1 hsd.1 hpd.2 hsd.2 hslen hne hsv
          have hdlt := digitVal_lt e hsd.1
          have hP : 0 < 10 ^ t.length := Nat.pow_pos (by omega)
          have hdP : digitVal c * 10 ^ t.length ≤ 8 * 10 ^ t.length :=
            Nat.mul_le_mul_right _ (by omega)
          rw [hsv] at hval
          rw [Nat.add_mul, Nat.one_mul] at hval
          have hlen : (natToStr ((strToNat (c :: t) + 1) * 11)).length = t.length + 1 + 1 := by
            apply natToStr_length_eq
            · rw [Nat.pow_succ]; omega
            · rw [Nat.pow_succ, Nat.pow_succ]; omega
          refine ⟨digitVal c, by omega, ?_, ?_, ?_, strToNat_natToStr _⟩
          · simp [digitChar_digitVal c hpd.1]
          · have hbd := allDigits_natToStr ((strToNat (c :: t) + 1) * 11)
            have hbv := strToNat_natToStr ((strToNat (c :: t) + 1) * 11)
            generalize natToStr ((strToNat (c :: t) + 1) * 11) = r at *
            cases r with
            | nil => simp at hlen
            | cons x xs =>
              rw [allDigits_cons] at hbd
              simp only [List.length_cons, Nat.add_right_cancel_iff] at hlen
              have hmul : (digitVal c + 1) * 10 ^ xs.length
                  = 10 * (digitVal c * 10 ^ t.length) + 10 * 10 ^ t.length := by
                rw [hlen, Nat.pow_succ, Nat.add_mul, Nat.one_mul]; 
                rw [← Nat.mul_assoc, Nat.mul_comm (digitVal c * 10 ^ t.length) 10]; omega
              have hx := head_eq_digitChar x xs (digitVal c + 1) hbd.1 hbd.2
                (by rw [hbv, hmul]; omega)
                (by rw [hbv, Nat.add_mul (digitVal c + 1) 1, Nat.one_mul, hmul, hlen, Nat.pow_succ]; omega)
              simp [hx]
          · rw [hlen]; simp

theorem padBid_of_ge (b : Str) (h : 1000 ≤ strToNat b) : padBid b = b := by
  rw [padBid, if_neg (by omega)]

theorem padBid_of_lt (b : Str) (h : strToNat b < 1000) :
    padBid b = natToStr (strToNat b + 1000) := by
  rw [padBid, if_pos h]

theorem isDigitStr_padBid (b : Str) (hb : isDigitStr b = true) : isDigitStr (padBid b) = true := by
  unfold padBid; split
  · exact isDigitStr_natToStr _
  · exact hb

theorem strToNat_padBid_ge (b : Str) :
    strToNat b ≤ strToNat (padBid b) ∧ 1000 ≤ strToNat (padBid b) := by
  unfold padBid; split
  · rw [strToNat_natToStr]; omega
  · omega

/-- below 1000 the padded id is a four-character string starting with `'1'` -/
theorem padBid_lt_shape (b : Str) (h : strToNat b < 1000) :
    ∃ t, padBid b = '1' :: t ∧ t.length = 3 := by
  rw [padBid_of_lt b h]
  have hlen := natToStr_length_eq 3 (strToNat b + 1000) (by omega) (by omega)
  have hd := allDigits_natToStr (strToNat b + 1000)
  have hv := strToNat_natToStr (strToNat b + 1000)
  generalize natToStr (strToNat b + 1000) = r at *
  cases r with
  | nil => simp at hlen
  | cons x xs =>
    rw [allDigits_cons] at hd
    simp only [List.length_cons, Nat.add_right_cancel_iff] at hlen
    have hx := head_eq_digitChar x xs 1 hd.1 hd.2 (by rw [hv, hlen]; omega) (by rw [hv, hlen]; omega)
    exact ⟨xs, by rw [hx]; rfl, hlen⟩

/-- a digit string of at least four characters whose value is below 1000 starts with `'0'` -/
theorem head_zero_of_lt_1000 (c : Char) (t : Str) (hc : isDigit c = true) (hl : 3 ≤ t.length)
    (h : strToNat (c :: t) < 1000) : c = '0' := by
  have hp : 10 ^ 3 ≤ 10 ^ t.length := Nat.pow_le_pow_right (by omega) hl
  rw [strToNat_cons] at h
  have h0 : digitVal c = 0 := by
    rcases Nat.eq_zero_or_pos (digitVal c) with h0 | hpos
    · exact h0
    · have : 1 * 10 ^ t.length ≤ digitVal c * 10 ^ t.length := Nat.mul_le_mul_right _ hpos
      omega
  exact digitVal_inj c '0' hc (by decide) (by rw [h0]; decide)

end BV
