/-
  Proofs/HistoryLemmas.lean — helper lemmas about Model/History.lean (property C08).
-/
import BumpverVerif.Model.History
import BumpverVerif.Proofs.CliLemmas
namespace BV

/- `whnf` must never run into the regex compiler or the increment pipeline. -/
attribute [local irreducible] parseVersionInfo incr

/-- a string that parses is a valid version of the pattern -/
theorem isValid_of_parse {s pat : Str} {today : Nat × Nat × Nat} {v : VInfo}
    (h : parseVersionInfo s pat today = .ok v) : isValid s pat today = .ok true := by
  unfold isValid
  rw [h]

attribute [local irreducible] isValid

/-- when every tag is valid, the filter keeps all of them -/
theorem parseVersionTags_all_valid (pat : Str) (today : Nat × Nat × Nat) (tags : List Str)
    (h : ∀ t ∈ tags, isValid t pat today = .ok true) :
    parseVersionTags pat today tags = .ok tags := by
  induction tags with
  | nil => exact parseVersionTags_nil pat today
  | cons t ts ih =>
    rw [parseVersionTags_cons, h t (by simp), ih (fun u hu => h u (by simp [hu]))]
    rfl

theorem Consistent.tags_ok {pat : Str} {today : Nat × Nat × Nat} {s : HState}
    (hc : Consistent pat today s) : parseVersionTags pat today s.tags = .ok s.tags :=
  parseVersionTags_all_valid pat today s.tags (fun t ht => (hc.2 t ht).1)

/-- in a consistent project the start version is the config value -/
theorem startVersion_consistent {pat : Str} {today : Nat × Nat × Nat} {s : HState}
    (hc : Consistent pat today s) :
    startVersion .default pat s.cfg today s.tags = .ok s.cfg := by
  rw [startVersion_of_tags hc.tags_ok]
  cases hl : latestOf s.tags with
  | none => rfl
  | some t =>
    have hmem := (latestOf_max s.tags t hl).1
    have hle := (hc.2 t hmem).2
    simp only [hle, if_true]

/-- inversion of a successful step -/
theorem hstep_ok_inv {pat : Str} {today : Nat × Nat × Nat} {s : HState} {op : HOp}
    (hok : (hstep pat today s op).2 = true) :
    ∃ start new, startVersion .default pat s.cfg today s.tags = .ok start ∧
      op.candidate = some new ∧ gate pat start new false [] today = .ok .accept ∧
      (hstep pat today s op).1 =
        { cfg := new, tags := if op.commit && op.tag then new :: s.tags else s.tags } := by
  unfold hstep at hok ⊢
  generalize hsv : startVersion .default pat s.cfg today s.tags = r at hok ⊢
  cases r with
  | error e => cases hok
  | ok start =>
    simp only at hok ⊢
    generalize hcand : op.candidate = c at hok ⊢
    cases c with
    | none => cases hok
    | some new =>
      simp only at hok ⊢
      generalize hg : gate pat start new false [] today = g at hok ⊢
      cases g with
      | error e => cases hok
      | ok v =>
        cases v with
        | accept => exact ⟨start, new, rfl, rfl, hg, rfl⟩
        | rejectPattern => cases hok
        | rejectNotGreater => cases hok
        | rejectNotUnique => cases hok

/-- a failed step leaves the state unchanged -/
theorem hstep_fail {pat : Str} {today : Nat × Nat × Nat} {s : HState} {op : HOp}
    (hfail : (hstep pat today s op).2 = false) : (hstep pat today s op).1 = s := by
  unfold hstep at hfail ⊢
  generalize startVersion .default pat s.cfg today s.tags = r at hfail ⊢
  cases r with
  | error e => rfl
  | ok start =>
    simp only at hfail ⊢
    generalize op.candidate = c at hfail ⊢
    cases c with
    | none => rfl
    | some new =>
      simp only at hfail ⊢
      generalize gate pat start new false [] today = g at hfail ⊢
      cases g with
      | error e => rfl
      | ok v =>
        cases v with
        | accept => cases hfail
        | rejectPattern => rfl
        | rejectNotGreater => rfl
        | rejectNotUnique => rfl

/-- inversion of a successful step in a consistent project: the gate ran against the config value -/
theorem hstep_ok_consistent {pat : Str} {today : Nat × Nat × Nat} {s : HState} {op : HOp}
    (hc : Consistent pat today s) (hok : (hstep pat today s op).2 = true) :
    ∃ new, op.candidate = some new ∧ isValid new pat today = .ok true ∧ pepLt s.cfg new = true ∧
      (hstep pat today s op).1 =
        { cfg := new, tags := if op.commit && op.tag then new :: s.tags else s.tags } := by
  obtain ⟨start, new, hsv, hcand, hg, hst⟩ := hstep_ok_inv hok
  rw [startVersion_consistent hc] at hsv
  injection hsv with hsv
  subst hsv
  obtain ⟨⟨v, hv⟩, hle, -⟩ := gate_accept hg
  exact ⟨new, hcand, isValid_of_parse hv, pepLt_of_not_le hle, hst⟩

/-- consistency is preserved by every step -/
theorem hstep_consistent {pat : Str} {today : Nat × Nat × Nat} {s : HState} {op : HOp}
    (hc : Consistent pat today s) : Consistent pat today (hstep pat today s op).1 := by
  cases hok : (hstep pat today s op).2 with
  | false => rw [hstep_fail hok]; exact hc
  | true =>
    obtain ⟨new, -, hval, hlt, hst⟩ := hstep_ok_consistent hc hok
    rw [hst]
    refine ⟨hval, fun t ht => ?_⟩
    have hold : ∀ u ∈ s.tags, isValid u pat today = .ok true ∧ pepLe u new = true :=
      fun u hu => ⟨(hc.2 u hu).1, pepLe_trans (hc.2 u hu).2 (pepLe_of_lt hlt)⟩
    simp only at ht
    split at ht
    · rcases List.mem_cons.1 ht with rfl | ht
      · exact ⟨hval, pepLe_refl _⟩
      · exact hold t ht
    · exact hold t ht

/-- the newest of `new :: tags` is `new` when every old tag is below `new` -/
theorem latestOf_cons_of_le (new : Str) (tags : List Str)
    (h : ∀ u ∈ tags, pepLe u new = true) : latestOf (new :: tags) = some new := by
  simp only [latestOf]
  cases hl : latestOf tags with
  | none => rfl
  | some u =>
    have hmem := (latestOf_max tags u hl).1
    have hle := h u hmem
    cases hlt : pepLt new u with
    | false => simp [hlt]
    | true =>
      have := pepLe_false_of_lt hlt
      rw [hle] at this
      cases this

/-- a step never decreases the config value -/
theorem hstep_mono {pat : Str} {today : Nat × Nat × Nat} {s : HState} {op : HOp}
    (hc : Consistent pat today s) : pepLe s.cfg (hstep pat today s op).1.cfg = true := by
  cases hok : (hstep pat today s op).2 with
  | false => rw [hstep_fail hok]; exact pepLe_refl _
  | true =>
    obtain ⟨new, -, -, hlt, hst⟩ := hstep_ok_consistent hc hok
    rw [hst]
    exact pepLe_of_lt hlt

/-- a valid greater candidate is accepted against the config value -/
theorem gate_accept_of {pat old new : Str} {today : Nat × Nat × Nat} {v : VInfo}
    (hv : parseVersionInfo new pat today = .ok v) (hg : pepLt old new = true) :
    gate pat old new false [] today = .ok .accept := by
  unfold gate
  rw [hv]
  simp [pepLe_false_of_lt hg]

end BV
