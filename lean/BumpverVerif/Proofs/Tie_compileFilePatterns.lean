/-
  Proofs/Tie_compileFilePatterns.lean — the definition GENERATED from the Python source of
  `config._compile_file_patterns` (Gen/F_compileFilePatterns.lean: the v2/v1 dispatch, the MERGE loop
  `for path, patterns in _file_pattern_items: if path in file_patterns: file_patterns[path].extend(patterns) else: …`
  as the closed loop `….loop1`, the exception that ended the generator re-raised after its last item).

  * `tie_compileFilePatterns`        : = the reference `compileFilePatternsD` (Model/FilePatterns.lean) for ALL raw dicts,
        glob functions (raising or not) and callees.
  * `tie_compileFilePatterns_model`  : for a raw dict that holds `version_pattern` as a str and `file_patterns`, a glob
        that never raises and callees as `CfgEnv.compileOk` describes them: the hand model's `compileFilePatterns`
        (Model/Config.lean, raw patterns) followed by the compilation of every pattern.
  * `tie_compileFilePatterns_compileOf`: the same as agent H's parameter `compileOf env` of `tie_parseConfig_full`.
  * the MERGE theorems about the RESULT of the generated function (`compileFilePatterns_merge_*`):
      each path occurs once (`_nodup`), in first-seen order (`_order`); under a path stand exactly the compiled
      patterns of all expanded items with that path, in order (`_lookup`); a (path, pattern) pair occurs in the
      result exactly under its path (`_exact`);
  * C04 (`compileFilePatterns_keys_configured`): every key of the resulting map is a path some configured key
      expands to — a glob result of the key, or the key itself when its glob is empty.  Files the configuration does not
      name are not in the map, so they are never rewritten (cli reads `cfg.file_patterns` only).
-/
import BumpverVerif.Gen.F_compileFilePatterns
import BumpverVerif.Proofs.Tie_compileV2FilePatterns
import BumpverVerif.Proofs.Tie_parseConfig
set_option linter.unusedSimpArgs false
namespace BV
open TieP Py TieH

namespace TieP

theorem compileFilePatterns_loop1 {π : Type} (glob : Str → Except Str (List Str)) (cp : RawVal → Str → Except Str π)
    (cps cps1 : RawVal → List Str → Except Str (List π)) (acc items : List (Str × List π)) :
    GenF.compileFilePatterns.loop1 glob cp cps cps1 acc items = .ok (items.foldl mergeIntoG acc) := by
  induction items generalizing acc with
  | nil => rfl
  | cons hd t ih =>
    obtain ⟨f, ps⟩ := hd
    unfold GenF.compileFilePatterns.loop1
    rw [List.foldl_cons]
    -- the test may be written `path in d` or `path not in d` (branches exchanged), the item unpacked in the loop
    -- header or by an assignment
    cases hl : lookup f acc with
    | none =>
      have hm : mergeIntoG acc (f, ps) = setOpt f ps acc := by
        simp only [mergeIntoG, hl]
        exact (setOpt_append_new f ps acc ((lookup_none_iff f acc).mp hl)).symm
      simp only [hl, Option.isSome_none, Bool.not_false, Bool.false_eq_true, if_false, if_true, ih, hm]
    | some old =>
      have hm : mergeIntoG acc (f, ps) = setOpt f (old ++ ps) acc := by simp only [mergeIntoG, hl]
      simp only [hl, Option.isSome_some, Bool.not_true, Bool.false_eq_true, if_false, if_true, ih, hm]

end TieP

theorem tie_compileFilePatterns {π : Type} (glob : Str → Except Str (List Str)) (c : CompileCallees π)
    (d : TomlSection) (isNew : Bool) :
    GenF.compileFilePatterns glob c.cp2 c.cps2 c.cps1 d isNew = compileFilePatternsD glob c d isNew := by
  unfold GenF.compileFilePatterns compileFilePatternsD
  simp only [compileFilePatterns_loop1]
  have hitems : (if isNew = true then GenF.compileV2FilePatterns glob c.cp2 c.cps2 d
      else GenF.compileV1FilePatterns glob c.cps1 d) = compileItemsD glob c isNew d := by
    cases isNew
    · simp only [Bool.false_eq_true, if_false, tie_compileV1FilePatterns]
    · simp only [if_true, tie_compileV2FilePatterns]
  rw [hitems]
  unfold compileItemsD compileFilePatternsE
  cases lookup "version_pattern".toList d.opts with
  | none => rfl
  | some vp =>
    cases d.filePatterns with
    | none => rfl
    | some fps =>
      simp only []
      cases (compileItemsE c isNew vp (iterGlobExpandedE glob fps).items (iterGlobExpandedE glob fps).exc).exc <;> rfl

/-- against the hand model: total glob, callees as `env.compileOk` says, `mk isNew p` = the compiled pattern -/
theorem tie_compileFilePatterns_model {π : Type} (env : CfgEnv) (c : CompileCallees π) (mk : Bool → Str → π)
    (d : TomlSection) (isNew : Bool) (vp : Str) (fps : FilePatterns)
    (hvp : lookup "version_pattern".toList d.opts = some (.str vp)) (hfp : d.filePatterns = some fps)
    (h : CalleesAgree env c mk vp) :
    GenF.compileFilePatterns (fun g => .ok (env.glob g)) c.cp2 c.cps2 c.cps1 d isNew =
      ((compileFilePatterns env isNew vp fps).mapError CfgErr.pyClass).map (mapVals (mk isNew)) := by
  rw [tie_compileFilePatterns]
  unfold compileFilePatternsD
  rw [hvp, hfp]
  exact compileFilePatternsE_model env c mk vp h isNew fps

/-- the same with agent H's `compileOf env` (the parameter of `tie_parseConfig_full`) -/
theorem tie_compileFilePatterns_compileOf {π : Type} (env : CfgEnv) (c : CompileCallees π) (mk : Bool → Str → π)
    (d : TomlSection) (isNew : Bool) (vp : Str) (fps : FilePatterns)
    (hvp : lookup "version_pattern".toList d.opts = some (.str vp)) (hfp : d.filePatterns = some fps)
    (h : CalleesAgree env c mk vp) :
    GenF.compileFilePatterns (fun g => .ok (env.glob g)) c.cp2 c.cps2 c.cps1 d isNew =
      (compileOf env d isNew).map (mapVals (mk isNew)) := by
  rw [tie_compileFilePatterns_model env c mk d isNew vp fps hvp hfp h]
  unfold compileOf rawStr
  rw [hvp, hfp]
  rfl

/-! ### what the RESULT of the generated `_compile_file_patterns` looks like (any glob, any callees) -/

/-- when `_compile_file_patterns` returns, the generator it consumed returned normally, and the result is the
    merge of its items -/
theorem compileFilePatterns_gen_ok {π : Type} (glob : Str → Except Str (List Str)) (c : CompileCallees π)
    (d : TomlSection) (isNew : Bool) (m : List (Str × List π))
    (h : GenF.compileFilePatterns glob c.cp2 c.cps2 c.cps1 d isNew = .ok m) :
    ∃ vp fps, lookup "version_pattern".toList d.opts = some vp ∧ d.filePatterns = some fps ∧
      (compileItemsE c isNew vp (iterGlobExpandedE glob fps).items (iterGlobExpandedE glob fps).exc).exc = none ∧
      m = (compileItemsE c isNew vp (iterGlobExpandedE glob fps).items (iterGlobExpandedE glob fps).exc).items.foldl
            mergeIntoG [] := by
  rw [tie_compileFilePatterns] at h
  unfold compileFilePatternsD compileFilePatternsE at h
  cases hvp : lookup "version_pattern".toList d.opts with
  | none => rw [hvp] at h; cases h
  | some vp =>
    cases hfp : d.filePatterns with
    | none => rw [hvp, hfp] at h; cases h
    | some fps =>
      rw [hvp, hfp] at h
      simp only [] at h
      refine ⟨vp, fps, rfl, rfl, ?_⟩
      cases he : (compileItemsE c isNew vp (iterGlobExpandedE glob fps).items (iterGlobExpandedE glob fps).exc).exc with
      | some e => rw [he] at h; cases h
      | none => rw [he] at h; cases h; exact ⟨rfl, rfl⟩

namespace TieP

/-- a generator of compiled items that returned normally yields one item per expanded item, with the same path -/
theorem compileItemsE_paths {π : Type} (c : CompileCallees π) (isNew : Bool) (vp : RawVal)
    (items : List (Str × List Str)) (tail : Option Str)
    (h : (compileItemsE c isNew vp items tail).exc = none) :
    (compileItemsE c isNew vp items tail).items.map Prod.fst = items.map Prod.fst ∧ tail = none := by
  induction items with
  | nil =>
    cases tail with
    | none => exact ⟨rfl, rfl⟩
    | some e => cases h
  | cons hd t ih =>
    obtain ⟨f, pats⟩ := hd
    unfold compileItemsE at h ⊢
    cases hc : compileItemE c isNew vp pats with
    | error e => rw [hc] at h; cases h
    | ok ps =>
      rw [hc] at h
      simp only [PyGen.yield] at h ⊢
      obtain ⟨h1, h2⟩ := ih h
      exact ⟨by simp [h1], h2⟩

/-- the paths the glob expansion yields: for every configured key its glob results, or the key itself -/
theorem iterGlobExpandedE_paths (glob : Str → Except Str (List Str)) (fps : FilePatterns) (k : Str)
    (hk : k ∈ (iterGlobExpandedE glob fps).items.map Prod.fst) :
    ∃ g pats, (g, pats) ∈ fps ∧ ∃ fs, glob g = .ok fs ∧ (k ∈ fs ∨ (fs = [] ∧ k = g)) := by
  induction fps with
  | nil => simp [iterGlobExpandedE, PyGen.done] at hk
  | cons hd t ih =>
    obtain ⟨g, pats⟩ := hd
    unfold iterGlobExpandedE at hk
    cases hg : glob g with
    | error e => rw [hg] at hk; simp [PyGen.raise] at hk
    | ok fs =>
      rw [hg] at hk
      simp only [List.map_append, List.mem_append] at hk
      rcases hk with hk | hk
      · refine ⟨g, pats, List.mem_cons_self, fs, hg, ?_⟩
        cases fs with
        | nil => simp at hk; exact .inr ⟨rfl, hk⟩
        | cons a b =>
          simp only [List.map_map, List.mem_map, Function.comp] at hk
          obtain ⟨x, hx, rfl⟩ := hk
          exact .inl hx
      · obtain ⟨g', pats', hm, rest⟩ := ih hk
        exact ⟨g', pats', List.mem_cons_of_mem _ hm, rest⟩

end TieP

/-- each path occurs ONCE in the result -/
theorem compileFilePatterns_merge_nodup {π : Type} (glob : Str → Except Str (List Str)) (c : CompileCallees π)
    (d : TomlSection) (isNew : Bool) (m : List (Str × List π))
    (h : GenF.compileFilePatterns glob c.cp2 c.cps2 c.cps1 d isNew = .ok m) : (m.map Prod.fst).Nodup := by
  obtain ⟨vp, fps, -, -, -, rfl⟩ := compileFilePatterns_gen_ok glob c d isNew m h
  exact nodup_keys_foldl_mergeIntoG _

/-- the paths of the result are the expanded paths in FIRST-SEEN order -/
theorem compileFilePatterns_merge_order {π : Type} (glob : Str → Except Str (List Str)) (c : CompileCallees π)
    (d : TomlSection) (isNew : Bool) (m : List (Str × List π))
    (h : GenF.compileFilePatterns glob c.cp2 c.cps2 c.cps1 d isNew = .ok m) :
    ∃ fps, d.filePatterns = some fps ∧ (iterGlobExpandedE glob fps).exc = none ∧
      m.map Prod.fst = firstSeen ((iterGlobExpandedE glob fps).items.map Prod.fst) := by
  obtain ⟨vp, fps, -, hfp, hexc, rfl⟩ := compileFilePatterns_gen_ok glob c d isNew m h
  obtain ⟨hp, ht⟩ := compileItemsE_paths c isNew vp _ _ hexc
  exact ⟨fps, hfp, ht, by rw [keys_foldl_mergeIntoG, hp]; rfl⟩

/-- under every path stand exactly the compiled patterns of all compiled items with that path, in their order -/
theorem compileFilePatterns_merge_lookup {π : Type} (glob : Str → Except Str (List Str)) (c : CompileCallees π)
    (d : TomlSection) (isNew : Bool) (m : List (Str × List π))
    (h : GenF.compileFilePatterns glob c.cp2 c.cps2 c.cps1 d isNew = .ok m) :
    ∃ vp fps, lookup "version_pattern".toList d.opts = some vp ∧ d.filePatterns = some fps ∧
      ∀ f, lookup f m =
        (let items := (compileItemsE c isNew vp (iterGlobExpandedE glob fps).items (iterGlobExpandedE glob fps).exc).items
         if f ∈ items.map Prod.fst then some (collectFor f items) else none) := by
  obtain ⟨vp, fps, hvp, hfp, -, rfl⟩ := compileFilePatterns_gen_ok glob c d isNew m h
  refine ⟨vp, fps, hvp, hfp, fun f => ?_⟩
  rw [lookup_foldl_mergeIntoG, lookup_nil]

/-- THE MERGE LEMMA on the generated function, against the hand model's raw patterns: when
    `_compile_file_patterns` returns `m` (glob total, callees as `env` says), a compiled pattern `mk isNew p` stands
    under the path `f` of `m` exactly when an item `(f, ps)` of the expanded configuration has `p ∈ ps`; and each path
    occurs once.  (`p` ranges over RAW patterns; `mk isNew` need not be injective, hence the existential.) -/
theorem compileFilePatterns_merge_exact {π : Type} (env : CfgEnv) (c : CompileCallees π) (mk : Bool → Str → π)
    (d : TomlSection) (isNew : Bool) (vp : Str) (fps : FilePatterns)
    (hvp : lookup "version_pattern".toList d.opts = some (.str vp)) (hfp : d.filePatterns = some fps)
    (hc : CalleesAgree env c mk vp) (m : List (Str × List π))
    (h : GenF.compileFilePatterns (fun g => .ok (env.glob g)) c.cp2 c.cps2 c.cps1 d isNew = .ok m) :
    (m.map Prod.fst).Nodup ∧
    ∀ (f : Str) (q : π), (∃ qs, lookup f m = some qs ∧ q ∈ qs) ↔
      ∃ ps p, (f, ps) ∈ iterGlobExpanded env.glob fps ∧ p ∈ ps ∧ q = mk isNew p := by
  refine ⟨compileFilePatterns_merge_nodup _ c d isNew m h, fun f q => ?_⟩
  rw [tie_compileFilePatterns_model env c mk d isNew vp fps hvp hfp hc] at h
  cases hm : compileFilePatterns env isNew vp fps with
  | error e => rw [hm] at h; cases h
  | ok r =>
    rw [hm] at h
    simp only [Except.mapError, Except.map, Except.ok.injEq] at h
    subst h
    rw [compileFilePatterns_ok env isNew vp fps r hm, foldl_mergeInto_eq, lookup_mapVals]
    constructor
    · rintro ⟨qs, hq, hmem⟩
      cases hl : lookup f (List.foldl mergeIntoG [] (iterGlobExpanded env.glob fps)) with
      | none => rw [hl] at hq; cases hq
      | some raws =>
        rw [hl] at hq
        simp only [Option.map_some, Option.some.injEq] at hq
        subst hq
        obtain ⟨p, hp, rfl⟩ := List.mem_map.mp hmem
        obtain ⟨ps, h1, h2⟩ := (merge_exact _ f p).mp ⟨raws, hl, hp⟩
        exact ⟨ps, p, h1, h2, rfl⟩
    · rintro ⟨ps, p, h1, h2, rfl⟩
      obtain ⟨raws, hl, hp⟩ := (merge_exact _ f p).mpr ⟨ps, h1, h2⟩
      exact ⟨raws.map (mk isNew), by rw [hl]; rfl, List.mem_map.mpr ⟨p, hp, rfl⟩⟩

/-- C04: every key of the resulting map comes from a configured key: it is one of the paths
    `pl.Path().glob(key)` answers, or — when that is empty — the key as written.  For ANY glob and ANY callees. -/
theorem compileFilePatterns_keys_configured {π : Type} (glob : Str → Except Str (List Str)) (c : CompileCallees π)
    (d : TomlSection) (isNew : Bool) (m : List (Str × List π))
    (h : GenF.compileFilePatterns glob c.cp2 c.cps2 c.cps1 d isNew = .ok m) :
    ∃ fps, d.filePatterns = some fps ∧
      ∀ k ∈ m.map Prod.fst, ∃ g pats, (g, pats) ∈ fps ∧ ∃ fs, glob g = .ok fs ∧ (k ∈ fs ∨ (fs = [] ∧ k = g)) := by
  obtain ⟨vp, fps, -, hfp, hexc, rfl⟩ := compileFilePatterns_gen_ok glob c d isNew m h
  obtain ⟨hp, -⟩ := compileItemsE_paths c isNew vp _ _ hexc
  refine ⟨fps, hfp, fun k hk => ?_⟩
  rw [mem_keys_foldl_mergeIntoG, hp] at hk
  exact iterGlobExpandedE_paths glob fps k hk

/-- … and conversely every configured key is represented: each path it expands to is a key of the map -/
theorem compileFilePatterns_keys_complete {π : Type} (glob : Str → Except Str (List Str)) (c : CompileCallees π)
    (d : TomlSection) (isNew : Bool) (m : List (Str × List π))
    (h : GenF.compileFilePatterns glob c.cp2 c.cps2 c.cps1 d isNew = .ok m) :
    ∃ fps, d.filePatterns = some fps ∧
      ∀ k ∈ (iterGlobExpandedE glob fps).items.map Prod.fst, k ∈ m.map Prod.fst := by
  obtain ⟨vp, fps, -, hfp, hexc, rfl⟩ := compileFilePatterns_gen_ok glob c d isNew m h
  obtain ⟨hp, -⟩ := compileItemsE_paths c isNew vp _ _ hexc
  refine ⟨fps, hfp, fun k hk => ?_⟩
  rw [mem_keys_foldl_mergeIntoG, hp]
  exact hk

end BV
