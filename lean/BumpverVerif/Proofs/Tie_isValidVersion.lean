/-
  Proofs/Tie_isValidVersion.lean — the definition GENERATED from the Python source of
  `cli._is_valid_version` (Gen/F_isValidVersion.lean) equals the hand model of the post-increment
  gate on ALL inputs:

  * a pattern without braces (`isNewPattern`): `BV.gate` (Model/Cli.lean), the gate of C01/C09;
  * a pattern with a brace: `BV.v1Gate` (Model/V1.lean), the gate of C20.

  Python returns a bool (and logs the reason); the model returns a `GateVerdict`.  The abstraction
  is `verdict == .accept`.  An exception other than PatternError escaping from the parser, or from
  `_parse_version_tags`, propagates in both.  `vcs.get_tags` is a parameter of the generated
  definition; the tie shows it is asked for `fetch=False, scope=TagScope.GLOBAL`, and only
  when `unique` holds and the version passed the first two tests.
-/
import BumpverVerif.Gen.F_isValidVersion
import BumpverVerif.Proofs.Tie_parseVersionTags
set_option linter.unusedSimpArgs false
namespace BV

attribute [local irreducible] isValid parseVersionInfo incr v1IsValid v1ParseVersionInfo v1Incr

/-- `True` exactly for `.accept` -/
def GateVerdict.toBool (v : GateVerdict) : Bool := v == .accept

theorem isNewPattern_gen (pat : Str) :
    ((!isInfix "{".toList pat) && (!isInfix "}".toList pat)) = isNewPattern pat := by
  rw [isInfix_lbrace, isInfix_rbrace]; rfl

/-- the same test written `not ("{" in p or "}" in p)` -/
theorem isNewPattern_gen' (pat : Str) :
    (!((isInfix "{".toList pat) || (isInfix "}".toList pat))) = isNewPattern pat := by
  rw [Bool.not_or, isNewPattern_gen]

theorem tie_isValidVersion_new (today : Date) (vcs_get_tags : Bool → GenC.TagScope → List Str)
    (pat old new : Str) (unique : Bool) (hp : isNewPattern pat = true) :
    GenC.isValidVersion today vcs_get_tags pat old new unique
      = liftV2 ((gate pat old new unique (vcs_get_tags false .GLOBAL) today).map GateVerdict.toBool) := by
  unfold GenC.isValidVersion
  simp only [isNewPattern_gen, isNewPattern_gen', hp, if_true]
  try simp only [verLt_eq_not_verLe, Bool.not_not]
  unfold gate pyV2ParseVersionInfo pepLe
  cases hpv : parseVersionInfo new pat today with
  | error e => cases e <;> simp [liftV2, Exc.isPatternError, Except.map, GateVerdict.toBool]
  | ok v =>
    simp only [liftV2]
    by_cases hle : verLe (parseVersion new) (parseVersion old) = true
    · simp [hle, Except.map, GateVerdict.toBool]
    · cases unique
      · simp [hle, Except.map, GateVerdict.toBool]
      · simp only [hle, tie_parseVersionTags_new]
        cases parseVersionTags pat today (vcs_get_tags false .GLOBAL) with
        | error e => simp [liftV2, Except.map]
        | ok vts => by_cases hm : vts.contains new = true <;> simp_all [liftV2, Except.map, GateVerdict.toBool]

theorem tie_isValidVersion_legacy (today : Date) (vcs_get_tags : Bool → GenC.TagScope → List Str)
    (pat old new : Str) (unique : Bool) (hp : isNewPattern pat = false) :
    GenC.isValidVersion today vcs_get_tags pat old new unique
      = liftV1 ((v1Gate pat old new unique (vcs_get_tags false .GLOBAL)).map GateVerdict.toBool) := by
  unfold GenC.isValidVersion
  simp only [isNewPattern_gen, isNewPattern_gen', hp, Bool.false_eq_true, if_false]
  try simp only [verLt_eq_not_verLe, Bool.not_not]
  unfold v1Gate pyV1ParseVersionInfo pepLe
  cases hpv : v1ParseVersionInfo new pat with
  | error e => cases e <;> simp [liftV1, Exc.isPatternError, Except.map, GateVerdict.toBool]
  | ok v =>
    simp only [liftV1]
    by_cases hle : verLe (parseVersion new) (parseVersion old) = true
    · simp [hle, Except.map, GateVerdict.toBool]
    · cases unique
      · simp [hle, Except.map, GateVerdict.toBool]
      · simp only [hle, tie_parseVersionTags_legacy]
        cases v1ParseVersionTags pat (vcs_get_tags false .GLOBAL) with
        | error e => simp [liftV1, Except.map]
        | ok vts => by_cases hm : vts.contains new = true <;> simp_all [liftV1, Except.map, GateVerdict.toBool]

/-- the verdict in words: the generated function answers `True` exactly when the model's gate accepts
    (new-style patterns) -/
theorem isValidVersion_true_iff_accept (today : Date) (vcs_get_tags : Bool → GenC.TagScope → List Str)
    (pat old new : Str) (unique : Bool) (hp : isNewPattern pat = true) :
    GenC.isValidVersion today vcs_get_tags pat old new unique = .ok true
      ↔ gate pat old new unique (vcs_get_tags false .GLOBAL) today = .ok .accept := by
  rw [tie_isValidVersion_new _ _ _ _ _ _ hp]
  cases gate pat old new unique (vcs_get_tags false .GLOBAL) today with
  | error e => simp [liftV2, Except.map]
  | ok v => cases v <;> simp [liftV2, Except.map, GateVerdict.toBool]

end BV
