/-
  Proofs/TokTie_Clean.lean — while `_format_segment` replaces part names by values (longest name first), the name
  `m` that is replaced next occurs in the partly rendered segment ONLY as a whole, not yet replaced token `m`
  (`cleanFor_of_mapped`): values and literals contain no upper-case letters, so an occurrence either lies in
  untouched text (where it is inside a token, by the adjacency condition) or would need leading zeros / a trailing
  digit from a value — excluded by the shapes of the part names.
-/
import BumpverVerif.Proofs.TokTie_Shape
namespace BV

def noUpper (w : Str) : Prop := ∀ c ∈ w, isUpper c = false

/-- `its` is `orig` with some tokens replaced by non-empty texts without upper-case letters; the tokens that remain
    are part names not longer than `m` -/
inductive Mapped (m : Str) : List Item → List Item → Prop
  | nil : Mapped m [] []
  | raw (s : Str) (r r' : List Item) (hs : s ≠ [] ∧ noUpper s) (h : Mapped m r r') :
      Mapped m (.raw s :: r) (.raw s :: r')
  | keep (n : Str) (r r' : List Item) (hn : n ∈ partNames ∧ n.length ≤ m.length) (h : Mapped m r r') :
      Mapped m (.tok n :: r) (.tok n :: r')
  | repl (n w : Str) (r r' : List Item) (hw : w ≠ [] ∧ noUpper w) (h : Mapped m r r') :
      Mapped m (.tok n :: r) (.raw w :: r')

theorem head_noUpper_mismatch {a w : Str} (Z : Str) (ha : ∃ c r, a = c :: r ∧ isUpper c = true)
    (hw : w ≠ [] ∧ noUpper w) : a.isPrefixOf (w ++ Z) = false := by
  obtain ⟨c, r, rfl, hc⟩ := ha
  cases w with
  | nil => exact absurd rfl hw.1
  | cons x xs =>
    have hx := hw.2 x List.mem_cons_self
    have : (c == x) = false := by
      cases hq : c == x with
      | false => rfl
      | true => have : c = x := by simpa using hq
                subst this; rw [hc] at hx; cases hx
    simp [List.isPrefixOf, this]

theorem allUpper_head {a : Str} (ha : ∀ c ∈ a, isUpper c = true) (hne : a ≠ []) :
    ∃ c r, a = c :: r ∧ isUpper c = true := by
  cases a with
  | nil => exact absurd rfl hne
  | cons c r => exact ⟨c, r, rfl, ha c List.mem_cons_self⟩

theorem getLast?_append_ne_nil {α} (a b : List α) (h : b ≠ []) : (a ++ b).getLast? = b.getLast? := by
  rw [List.getLast?_append]
  cases hb : b.getLast? with
  | none => simp [List.getLast?_eq_none_iff] at hb; exact absurd hb h
  | some x => simp

/-! ### all upper-case text matched in the rendered list is matched in the original -/

theorem pu_transfer (m : Str) {r r' : List Item} (hM : Mapped m r r') :
    ∀ a : Str, (∀ c ∈ a, isUpper c = true) → a.isPrefixOf (srcAll r') = true → a.isPrefixOf (srcAll r) = true := by
  induction hM with
  | nil => intro a _ h; exact h
  | raw s r r' hs _ ih =>
    intro a ha h
    by_cases hne : a = []
    · subst hne; simp
    · simp only [srcAll_cons, Item.src] at h
      rw [head_noUpper_mismatch _ (allUpper_head ha hne) hs] at h; cases h
  | keep n r r' hn _ ih =>
    intro a ha h
    simp only [srcAll_cons, Item.src] at h ⊢
    rcases prefix_append_split h with h1 | ⟨a', rfl, h2⟩
    · exact prefix_append_of_prefix _ h1
    · exact prefix_append_append n (ih a' (fun c hc => ha c (List.mem_append_right _ hc)) h2)
  | repl n w r r' hw _ ih =>
    intro a ha h
    by_cases hne : a = []
    · subst hne; simp
    · simp only [srcAll_cons, Item.src] at h
      rw [head_noUpper_mismatch _ (allUpper_head ha hne) hw] at h; cases h

/-! ### letters + one digit -/

theorem dt_transfer (m : Str) (d : Char) {r r' : List Item} (hM : Mapped m r r') :
    ∀ U : Str, U ≠ [] → (∀ c ∈ U, isUpper c = true) → (∀ t ∈ partNames, t.getLast? ≠ U.getLast?) →
      (U ++ [d]).isPrefixOf (srcAll r') = true → (U ++ [d]).isPrefixOf (srcAll r) = true := by
  induction hM with
  | nil => intro U _ _ _ h; exact h
  | raw s r r' hs _ ih =>
    intro U hne hU _ h
    obtain ⟨c, u, rfl, hc⟩ := allUpper_head hU hne
    simp only [srcAll_cons, Item.src] at h
    have := head_noUpper_mismatch (a := (c :: u) ++ [d]) (srcAll r') ⟨c, u ++ [d], rfl, hc⟩ hs
    rw [this] at h; cases h
  | keep n r r' hn _ ih =>
    intro U hne hU hlast h
    simp only [srcAll_cons, Item.src] at h ⊢
    rcases prefix_append_split h with h1 | ⟨a', e, h2⟩
    · exact prefix_append_of_prefix _ h1
    · -- n is a proper prefix of U ++ [d]
      have hnne := name_ne_nil hn.1
      by_cases hl : n.length ≤ U.length
      · -- n <+: U
        have hnU : n <+: U := by
          have p1 : n <+: U ++ [d] := ⟨a', e.symm⟩
          exact List.prefix_of_prefix_length_le p1 (List.prefix_append U [d]) hl
        obtain ⟨U'', hU''⟩ := hnU
        have ea : a' = U'' ++ [d] := by
          rw [← hU'', List.append_assoc] at e
          exact (List.append_cancel_left e).symm
        subst ea
        by_cases hne'' : U'' = []
        · subst hne''
          rw [List.append_nil] at hU''
          exact absurd (by rw [hU'']) (hlast n hn.1)
        · rw [← hU'', List.append_assoc]
          apply prefix_append_append n
          apply ih U'' hne'' (fun c hc => hU c (by rw [← hU'']; exact List.mem_append_right _ hc)) _ h2
          intro t ht
          have : U.getLast? = U''.getLast? := by
            rw [← hU'']; exact getLast?_append_ne_nil n U'' hne''
          rw [← this]; exact hlast t ht
      · -- n = U ++ [d]
        have hlen : (U ++ [d]).length = n.length + a'.length := by rw [e]; simp
        simp only [List.length_append, List.length_cons, List.length_nil] at hlen
        have ha' : a' = [] := by
          cases a' with
          | nil => rfl
          | cons _ _ => simp only [List.length_cons] at hlen; omega
        subst ha'
        rw [List.append_nil] at e
        rw [e]; simp
  | repl n w r r' hw _ ih =>
    intro U hne hU _ h
    obtain ⟨c, u, rfl, hc⟩ := allUpper_head hU hne
    simp only [srcAll_cons, Item.src] at h
    have := head_noUpper_mismatch (a := (c :: u) ++ [d]) (srcAll r') ⟨c, u ++ [d], rfl, hc⟩ hw
    rw [this] at h; cases h

/-! ### zeros + one letter -/

theorem name_shape {n : Str} (hn : n ∈ partNames) :
    isPureUpper n = true ∨ isDigitLed n = true ∨ isDigitTrailed n = true := by
  have := List.all_eq_true.mp tbl_shape n hn
  simpa [Bool.or_eq_true, or_assoc] using this

theorem shape_head_upper {n : Str} (h : isPureUpper n = true ∨ isDigitTrailed n = true) :
    ∃ c r, n = c :: r ∧ isUpper c = true := by
  rcases h with h | h
  · obtain ⟨hne, hu⟩ := pureUpper_form h
    exact allUpper_head hu hne
  · obtain ⟨U, d, hne, hu, -, rfl⟩ := digitTrailed_form h
    obtain ⟨c, r, rfl, hc⟩ := allUpper_head hu hne
    exact ⟨c, r ++ [d], rfl, hc⟩

theorem dlu {m n : Str} (hm : m ∈ partNames) (hn : n ∈ partNames) (h1 : isDigitLed m = true)
    (h2 : isDigitLed n = true) (h3 : m.getLast? = n.getLast?) : m = n := by
  have := List.all_eq_true.mp (List.all_eq_true.mp tbl_dlu m hm) n hn
  simpa [h1, h2, h3] using this

/-- in the rendered list, zeros + the letter of `m` can only be the whole token `m` -/
theorem dl_scan (m : Str) (k : Nat) (X : Char) (hm : m ∈ partNames) (hled : isDigitLed m = true)
    (hmk : m = zeros k ++ [X]) (hX : isUpper X = true) {r r' : List Item} (hM : Mapped m r r')
    (hhead : ∀ n, Item.tok n ∈ r' → n.head? ≠ some X) :
    ∀ j, j ≤ k → (zeros j ++ [X]).isPrefixOf (srcAll r') = true → j = k ∧ ∃ r'', r' = .tok m :: r'' := by
  induction hM with
  | nil => intro j _ h; simp [srcAll] at h
  | raw s r r' hs _ ih =>
    intro j hj h
    simp only [srcAll_cons, Item.src] at h
    obtain ⟨h1, h2⟩ := zeros_chunk s j X _ hX hs.2 h
    have hpos : 0 < s.length := List.length_pos_iff.mpr hs.1
    have := (ih (fun n hn => hhead n (List.mem_cons_of_mem _ hn)) (j - s.length) (by omega) h2).1
    omega
  | repl n w r r' hw _ ih =>
    intro j hj h
    simp only [srcAll_cons, Item.src] at h
    obtain ⟨h1, h2⟩ := zeros_chunk w j X _ hX hw.2 h
    have hpos : 0 < w.length := List.length_pos_iff.mpr hw.1
    have := (ih (fun n hn => hhead n (List.mem_cons_of_mem _ hn)) (j - w.length) (by omega) h2).1
    omega
  | keep n r r' hn _ ih =>
    intro j hj h
    simp only [srcAll_cons, Item.src] at h
    rcases name_shape hn.1 with hs | hs | hs
    · obtain ⟨c, t, rfl, hc⟩ := shape_head_upper (Or.inl hs)
      obtain ⟨-, e⟩ := zeros_upper j X c _ hc h
      exact absurd (by simp [e]) (hhead _ List.mem_cons_self)
    · obtain ⟨q, X', hq, hX', rfl⟩ := digitLed_form hs
      rw [List.append_assoc] at h
      obtain ⟨e1, e2⟩ := zeros_match j q X X' _ (upper_ne_zero hX) (upper_ne_zero hX') h
      subst e1; subst e2
      have : m = zeros j ++ [X] := dlu hm hn.1 hled hs (by rw [hmk]; simp)
      refine ⟨?_, r', by rw [this]⟩
      have hl := congrArg List.length (hmk.symm.trans this)
      simpa [zeros] using hl.symm
    · obtain ⟨c, t, rfl, hc⟩ := shape_head_upper (Or.inr hs)
      obtain ⟨-, e⟩ := zeros_upper j X c _ hc h
      exact absurd (by simp [e]) (hhead _ List.mem_cons_self)

/-! ### the theorem -/

theorem digit_not_upper {c : Char} (h : isDigit c = true) : isUpper c = false := by
  simp only [isDigit, isUpper, Bool.and_eq_true, decide_eq_true_eq] at h ⊢
  cases hu : (decide ('A' ≤ c) && decide (c ≤ 'Z')) with
  | false => rfl
  | true =>
    simp only [Bool.and_eq_true, decide_eq_true_eq] at hu
    have h1 : c.val ≤ '9'.val := h.2
    have h2 : 'A'.val ≤ c.val := hu.1
    have : ('9' : Char).val < ('A' : Char).val := by decide
    exact absurd (Nat.lt_of_lt_of_le (Nat.lt_of_le_of_lt h1 this) h2) (Nat.lt_irrefl _)

theorem noUpper_drop {w : Str} (h : noUpper w) (o : Nat) : noUpper (w.drop o) :=
  fun c hc => h c (List.mem_of_mem_drop hc)

theorem drop_ne_nil {w : Str} {o : Nat} (h : o < w.length) : w.drop o ≠ [] := by
  intro e
  have := congrArg List.length e
  simp only [List.length_drop, List.length_nil] at this
  omega

theorem final_step {n m X : Str} {o : Nat} (hle : o + m.length ≤ n.length) (hnm : n.length ≤ m.length)
    (h : m.isPrefixOf (n.drop o ++ X) = true) : Item.tok n = Item.tok m ∧ o = 0 := by
  have ho : o = 0 := by omega
  subst ho
  rw [List.drop_zero] at h
  have h1 := List.isPrefixOf_iff_prefix.mp h
  have h2 : n <+: n ++ X := List.prefix_append n X
  have := (List.prefix_of_prefix_length_le h1 h2 (by omega)).eq_of_length (by omega)
  exact ⟨by rw [this], rfl⟩

theorem zeros_drop (q o : Nat) (X : Char) (h : o ≤ q) : (zeros q ++ [X]).drop o = zeros (q - o) ++ [X] := by
  rw [List.drop_append_of_le_length (by simp [zeros]; exact h)]
  simp [zeros]

theorem cleanFor_pureUpper (m : Str) (hm : m ∈ partNames) (hu : isPureUpper m = true)
    {orig its : List Item} (hM : Mapped m orig its) (hs : safeItemsK orig []) : cleanFor m its := by
  obtain ⟨hne, hup⟩ := pureUpper_form hu
  have hhd := allUpper_head hup hne
  induction hM with
  | nil => trivial
  | raw s r r' hs' _ ih =>
    refine ⟨?_, ih hs.2⟩
    intro o ho h
    simp only [Item.src] at ho h
    rw [head_noUpper_mismatch _ hhd ⟨drop_ne_nil ho, noUpper_drop hs'.2 o⟩] at h; cases h
  | repl n w r r' hw _ ih =>
    refine ⟨?_, ih hs.2⟩
    intro o ho h
    simp only [Item.src] at ho h
    rw [head_noUpper_mismatch _ hhd ⟨drop_ne_nil ho, noUpper_drop hw.2 o⟩] at h; cases h
  | keep n r r' hn hM' ih =>
    refine ⟨?_, ih hs.2⟩
    intro o ho h
    simp only [Item.src] at ho h
    have horig : m.isPrefixOf (n.drop o ++ srcAll r) = true := by
      rcases prefix_append_split h with h1 | ⟨a', e, h2⟩
      · exact prefix_append_of_prefix _ h1
      · rw [e]
        exact prefix_append_append _ (pu_transfer m hM' a'
          (fun c hc => hup c (by rw [e]; exact List.mem_append_right _ hc)) h2)
    have := hs.1 o ho m hm (by rw [List.append_nil]; exact horig)
    exact final_step this hn.2 horig

theorem cleanFor_digitTrailed (m : Str) (hm : m ∈ partNames) (hu : isDigitTrailed m = true)
    {orig its : List Item} (hM : Mapped m orig its) (hs : safeItemsK orig []) : cleanFor m its := by
  obtain ⟨U, d, hne, hup, hd, rfl⟩ := digitTrailed_form hu
  obtain ⟨c0, u0, hU0, hc0⟩ := allUpper_head hup hne
  have hhd : ∃ c r, U ++ [d] = c :: r ∧ isUpper c = true := ⟨c0, u0 ++ [d], by rw [hU0]; rfl, hc0⟩
  have hlast : ∀ t ∈ partNames, t.getLast? ≠ U.getLast? := by
    intro t ht
    have := List.all_eq_true.mp (List.all_eq_true.mp tbl_tf2 _ hm) t ht
    simpa [hu] using this
  induction hM with
  | nil => trivial
  | raw s r r' hs' _ ih =>
    refine ⟨?_, ih hs.2⟩
    intro o ho h
    simp only [Item.src] at ho h
    rw [head_noUpper_mismatch _ hhd ⟨drop_ne_nil ho, noUpper_drop hs'.2 o⟩] at h; cases h
  | repl n w r r' hw _ ih =>
    refine ⟨?_, ih hs.2⟩
    intro o ho h
    simp only [Item.src] at ho h
    rw [head_noUpper_mismatch _ hhd ⟨drop_ne_nil ho, noUpper_drop hw.2 o⟩] at h; cases h
  | keep n r r' hn hM' ih =>
    refine ⟨?_, ih hs.2⟩
    intro o ho h
    simp only [Item.src] at ho h
    have hCne : n.drop o ≠ [] := drop_ne_nil ho
    have hClast : (n.drop o).getLast? = n.getLast? := by
      have := getLast?_append_ne_nil (n.take o) (n.drop o) hCne
      rw [List.take_append_drop] at this
      exact this.symm
    have horig : (U ++ [d]).isPrefixOf (n.drop o ++ srcAll r) = true := by
      rcases prefix_append_split h with h1 | ⟨a', e, h2⟩
      · exact prefix_append_of_prefix _ h1
      · by_cases hl : (n.drop o).length ≤ U.length
        · have hnU : n.drop o <+: U :=
            List.prefix_of_prefix_length_le ⟨a', e.symm⟩ (List.prefix_append U [d]) hl
          obtain ⟨U'', hU''⟩ := hnU
          have ea : a' = U'' ++ [d] := by
            rw [← hU'', List.append_assoc] at e
            exact (List.append_cancel_left e).symm
          subst ea
          by_cases hne'' : U'' = []
          · subst hne''
            rw [List.append_nil] at hU''
            exact absurd (by rw [← hClast, hU'']) (hlast n hn.1)
          · rw [← hU'', List.append_assoc]
            apply prefix_append_append
            apply dt_transfer _ d hM' U'' hne''
              (fun c hc => hup c (by rw [← hU'']; exact List.mem_append_right _ hc)) _ h2
            intro t ht
            have : U.getLast? = U''.getLast? := by
              rw [← hU'']; exact getLast?_append_ne_nil _ U'' hne''
            rw [← this]; exact hlast t ht
        · have hlen : (U ++ [d]).length = (n.drop o).length + a'.length := by rw [e]; simp
          simp only [List.length_append, List.length_cons, List.length_nil] at hlen
          have ha' : a' = [] := by
            cases a' with
            | nil => rfl
            | cons _ _ => simp only [List.length_cons] at hlen; omega
          subst ha'
          rw [List.append_nil] at e
          rw [e]; simp
    have := hs.1 o ho _ hm (by rw [List.append_nil]; exact horig)
    exact final_step this hn.2 horig

theorem cleanFor_digitLed (m : Str) (hm : m ∈ partNames) (hu : isDigitLed m = true)
    {orig its : List Item} (hM : Mapped m orig its)
    (hhead : ∀ n, Item.tok n ∈ its → n.head? ≠ m.getLast?) : cleanFor m its := by
  obtain ⟨k, X, hk, hX, hmk⟩ := digitLed_form hu
  have hlastm : m.getLast? = some X := by rw [hmk]; simp
  rw [hlastm] at hhead
  induction hM with
  | nil => trivial
  | raw s r r' hs' hM' ih =>
    have hh' : ∀ n, Item.tok n ∈ r' → n.head? ≠ some X := fun n hn => hhead n (List.mem_cons_of_mem _ hn)
    refine ⟨?_, ih hh'⟩
    intro o ho h
    simp only [Item.src] at ho h
    rw [hmk] at h
    obtain ⟨h1, h2⟩ := zeros_chunk _ k X _ hX (noUpper_drop hs'.2 o) h
    have := (dl_scan m k X hm hu hmk hX hM' hh' _ (by omega) h2).1
    simp only [List.length_drop] at h1 this
    omega
  | repl n w r r' hw hM' ih =>
    have hh' : ∀ n, Item.tok n ∈ r' → n.head? ≠ some X := fun n hn => hhead n (List.mem_cons_of_mem _ hn)
    refine ⟨?_, ih hh'⟩
    intro o ho h
    simp only [Item.src] at ho h
    rw [hmk] at h
    obtain ⟨h1, h2⟩ := zeros_chunk _ k X _ hX (noUpper_drop hw.2 o) h
    have := (dl_scan m k X hm hu hmk hX hM' hh' _ (by omega) h2).1
    simp only [List.length_drop] at h1 this
    omega
  | keep n r r' hn hM' ih =>
    have hh' : ∀ n, Item.tok n ∈ r' → n.head? ≠ some X := fun n hn => hhead n (List.mem_cons_of_mem _ hn)
    refine ⟨?_, ih hh'⟩
    intro o ho h
    simp only [Item.src] at ho h
    by_cases ho0 : o = 0
    · subst ho0
      rw [List.drop_zero, hmk] at h
      have hsc := dl_scan m k X hm hu hmk hX (Mapped.keep n r r' hn hM') hhead k (Nat.le_refl _)
        (by simpa [srcAll_cons, Item.src] using h)
      obtain ⟨-, r'', e⟩ := hsc
      injection e with e1 _
      exact ⟨e1, rfl⟩
    · exfalso
      rw [hmk] at h
      rcases name_shape hn.1 with hsn | hsn | hsn
      · obtain ⟨-, hup⟩ := pureUpper_form hsn
        obtain ⟨c, t, hct, hc⟩ := allUpper_head (fun c hc => hup c (List.mem_of_mem_drop hc)) (drop_ne_nil ho)
        rw [hct] at h
        have := (zeros_upper k X c _ hc h).1
        omega
      · obtain ⟨q, X', hq, hX', rfl⟩ := digitLed_form hsn
        have hoq : o ≤ q := by simp [zeros] at ho; omega
        rw [zeros_drop q o X' hoq, List.append_assoc] at h
        obtain ⟨e1, e2⟩ := zeros_match k (q - o) X X' _ (upper_ne_zero hX) (upper_ne_zero hX') h
        subst e2
        have hmn : m = zeros q ++ [X] := dlu hm hn.1 hu hsn (by rw [hmk]; simp)
        have hl := congrArg List.length (hmk.symm.trans hmn)
        simp [zeros] at hl
        omega
      · obtain ⟨U', d', hne', hup', hd', rfl⟩ := digitTrailed_form hsn
        by_cases hlt : o < U'.length
        · rw [List.drop_append_of_le_length (Nat.le_of_lt hlt)] at h
          obtain ⟨c, t, hct, hc⟩ := allUpper_head (fun c hc => hup' c (List.mem_of_mem_drop hc)) (drop_ne_nil hlt)
          rw [hct] at h
          have := (zeros_upper k X c _ hc h).1
          omega
        · have hoe : o = U'.length := by simp at ho; omega
          have hdrop : (U' ++ [d']).drop o = [d'] := by rw [hoe]; simp
          rw [hdrop] at h
          have hnu : noUpper [d'] := by
            intro c hc
            have : c = d' := by simpa using hc
            rw [this]; exact digit_not_upper hd'
          obtain ⟨h1, h2⟩ := zeros_chunk [d'] k X _ hX hnu h
          have := (dl_scan m k X hm hu hmk hX hM' hh' _ (by omega) h2).1
          simp only [List.length_cons, List.length_nil] at h1 this
          omega

/-- THE NEXT NAME OCCURS ONLY AS WHOLE TOKENS -/
theorem cleanFor_of_mapped (m : Str) (hm : m ∈ partNames) {orig its : List Item} (hM : Mapped m orig its)
    (hs : safeItemsK orig [])
    (hhead : isDigitLed m = true → ∀ n, Item.tok n ∈ its → n.head? ≠ m.getLast?) : cleanFor m its := by
  rcases name_shape hm with h | h | h
  · exact cleanFor_pureUpper m hm h hM hs
  · exact cleanFor_digitLed m hm h hM (hhead h)
  · exact cleanFor_digitTrailed m hm h hM hs

end BV
