/-
  Proofs/Tie_vcsCommit.lean — `vcs.commit(cfg, vcs_api, filepaths, new_version, commit_message,
  tag_message)` and the `VCSAPI` methods it calls (`add`, `commit`, `tag`, `push_tag`, `push`), all
  GENERATED from the Python AST (Gen/F_vcsCommit.lean, F_apiAdd, F_apiCommit, F_apiTag, F_apiPushTag,
  F_apiPush), against the hand model `BV.commitPhase` (Model/Plan.lean), which decides property C10.

    tie_vcsCommit          cfg.commit = true  →  (state, ok/failed) of the generated `commit`
                                                  = commitPhase e (absCfgE tag_message cfg) s
    tie_vcsCommit_off      cfg.commit = false →  nothing happens
  for EVERY configuration, list of files, failure position `failAt`, hook result and remote situation.

  Hypotheses (each is the explicit statement of something the hand model abstracts):
  * `RemoteCoherent e`, `api.name = kind.name`  — see Tie_apiGetRemote.lean;
  * `hold`, `hnew` : the hooks get `cfg.current_version` / `new_version`; the model's events carry
    `startVersion` / `announced`;
  * `notTracked` : ONLY for Mercurial (`kind = hg`): the failing command's OWN stderr does not contain
    "already tracked!" — exactly the case `VCSAPI.add` is meant to ignore
    (`vcsCommit_hg_already_tracked_ignored`: then the failing `add` is swallowed, by design, and the run goes on;
    the hand model has no such case).  For git there is NO hypothesis about any text (`tie_apiAdd_git`,
    `vcsCommit_git_stderr_irrelevant`): a failing `git add` always propagates.  What the test looks at is
    `self.name == 'hg' and … in (ex.stderr or b"")`, NOT `str(ex)`: `apiAdd_independent_of_excText` /
    `vcsCommit_independent_of_excText` prove that the text of the exception (it contains the argv, hence every
    configured PATH) does not matter.  (Until /repo commit 58b6007 the test was `"already tracked!" in str(ex)`:
    a path containing these words made a failing add disappear, for git and hg.)
-/
import BumpverVerif.Gen.F_vcsCommit
import BumpverVerif.Proofs.Tie_apiGetRemote
set_option linter.unusedSimpArgs false
namespace BV
open GenE

/-- the text `VCSAPI.add` looks for in the stderr of the failing command -/
def alreadyTracked : Str := ['a', 'l', 'r', 'e', 'a', 'd', 'y', ' ', 't', 'r', 'a', 'c', 'k', 'e', 'd', '!']

/-- `VCSAPI.add` in general: a failing invocation is swallowed iff the VCS is Mercurial AND its stderr says
    "already tracked!" -/
theorem apiAdd_spec (e : EffEnv) (s : PState) (api : VcsApi) (p : Str) :
    apiAdd api p e s =
      (match vcsCall e.plan (.add p) s with
       | (s', .ok) => (s', .ok ())
       | (s', .failed) =>
         if (api.name == ['h', 'g'] && isInfix alreadyTracked e.excStderr) then (s', .ok ())
         else (s', .error .called)) := by
  have hnil : isInfix ['a', 'l', 'r', 'e', 'a', 'd', 'y', ' ', 't', 'r', 'a', 'c', 'k', 'e', 'd', '!'] [] = false := by
    decide
  unfold alreadyTracked apiAdd
  -- the name test in both orientations (`self.name == 'hg'` / `'hg' == self.name`)
  have hname : (['h', 'g'] = api.name) = (api.name = ['h', 'g']) := propext ⟨Eq.symm, Eq.symm⟩
  by_cases hx : isInfix ['a', 'l', 'r', 'e', 'a', 'd', 'y', ' ', 't', 'r', 'a', 'c', 'k', 'e', 'd', '!'] e.excStderr = true
  · have hne : e.excStderr ≠ [] := by
      intro h; rw [h] at hx; revert hx; decide
    eff_simp [Eff.excStderr, hname]; eff_auto [Eff.excStderr, hname]
  · eff_simp [Eff.excStderr, hname]; eff_auto [Eff.excStderr, hname]

theorem tie_apiAdd (e : EffEnv) (s : PState) (api : VcsApi) (p : Str)
    (hx : (api.name == ['h', 'g'] && isInfix alreadyTracked e.excStderr) = false) :
    apiAdd api p e s = Eff.liftC () (vcsCall e.plan (.add p) s) := by
  rw [apiAdd_spec, hx]
  rcases vcsCall e.plan (.add p) s with ⟨s', o⟩
  cases o <;> rfl

/-- for git NO text plays a role: a failing `git add` always propagates -/
theorem tie_apiAdd_git (e : EffEnv) (s : PState) (api : VcsApi) (p : Str) (hk : api.name = ['g', 'i', 't']) :
    apiAdd api p e s = Eff.liftC () (vcsCall e.plan (.add p) s) :=
  tie_apiAdd e s api p (by rw [hk]; rfl)

/-- the text of the exception (`str(ex)`: "Command '[argv]' returned non-zero exit status N", i.e. the
    configured path) plays no role any more, for either VCS -/
theorem apiAdd_independent_of_excText (e : EffEnv) (s : PState) (api : VcsApi) (p t : Str) :
    apiAdd api p { e with excText := t } s = apiAdd api p e s := by
  rw [apiAdd_spec, apiAdd_spec]

theorem tie_apiCommit (e : EffEnv) (s : PState) (api : VcsApi) (m : Str) :
    apiCommit api m e s = Eff.liftC () (vcsCall e.plan (.cmd "commit") s) := by
  unfold apiCommit; eff_simp; eff_auto

/-- annotated tag when there is a tag message, lightweight tag otherwise -/
theorem tie_apiTag (e : EffEnv) (s : PState) (api : VcsApi) (t m : Str) :
    apiTag api t m e s = Eff.liftC () (vcsCall e.plan (.cmd (if m.isEmpty then "tag_light" else "tag")) s) := by
  unfold apiTag; eff_simp; eff_auto

/-! `push_tag` / `push`: look up the remote, push only when there is one (`remotePiece`) -/

theorem tie_apiPushTag (e : EffEnv) (s : PState) (api : VcsApi) (t : Str) (hc : RemoteCoherent e)
    (hk : api.name = e.plan.kind.name) :
    apiPushTag api t e s = Eff.liftC () (remotePiece e.plan "push_tag" s) := by
  obtain ⟨r, hr, ht⟩ := getRemote_result e s api hc hk
  rcases hg : getRemote e.plan s with ⟨s5, b⟩
  simp only [hg] at hr ht
  subst ht
  unfold apiPushTag remotePiece
  eff_simp; eff_auto

theorem tie_apiPush (e : EffEnv) (s : PState) (api : VcsApi) (hc : RemoteCoherent e)
    (hk : api.name = e.plan.kind.name) :
    apiPush api e s = Eff.liftC () (remotePiece e.plan "push" s) := by
  obtain ⟨r, hr, ht⟩ := getRemote_result e s api hc hk
  rcases hg : getRemote e.plan s with ⟨s5, b⟩
  simp only [hg] at hr ht
  subst ht
  unfold apiPush remotePiece
  eff_simp; eff_auto

/-- what the plan model keeps of a `config.Config` in the commit phase (`scopeBranch` plays no role there) -/
def absCfgE {α : Type} (tagMsg : Str) (c : Config α) : PlanCfg :=
  { commit := c.commit, tag := c.tag, push := c.push,
    preHook := !c.pre_commit_hook.isEmpty, postHook := !c.post_commit_hook.isEmpty,
    scopeBranch := c.tag_scope == .BRANCH, tagMsgEmpty := tagMsg.isEmpty }

/-- from "the object is the environment's VCS" and "hg's own stderr does not say already tracked" -/
theorem addGuard_false (e : EffEnv) (api : VcsApi) (hk : api.name = e.plan.kind.name)
    (hx : e.plan.kind = .hg → isInfix alreadyTracked e.excStderr = false) :
    (api.name == ['h', 'g'] && isInfix alreadyTracked e.excStderr) = false := by
  rw [hk]
  cases hkind : e.plan.kind with
  | git => rfl
  | hg => simp [VcsKind.name, hx hkind]

/-- everything the commit-phase tie assumes about the environment -/
structure CommitCoherent {α : Type} (e : EffEnv) (cfg : Config α) (api : VcsApi) (new_version : Str) : Prop where
  remote : RemoteCoherent e
  kind : api.name = e.plan.kind.name
  /-- only for Mercurial: the failing command's OWN stderr does not say "already tracked!" -/
  notTracked : e.plan.kind = .hg → isInfix alreadyTracked e.excStderr = false
  old : cfg.current_version = e.plan.startVersion
  new : new_version = e.plan.announced

theorem tie_vcsCommit {α : Type} (e : EffEnv) (s : PState) (cfg : Config α) (api : VcsApi)
    (new_version cm tm : Str) (h : CommitCoherent e cfg api new_version) (hcommit : cfg.commit = true) :
    Eff.view (vcsCommit cfg api e.plan.files new_version cm tm e s) = commitPhase e.plan (absCfgE tm cfg) s := by
  obtain ⟨hc, hk, hx0, hold, hnew⟩ := h
  have hx := addGuard_false e api hk hx0
  have hAdd := Eff.forIn_addAll e (vcsCommit.body_1 api)
    (by intro p s; unfold vcsCommit.body_1; eff_simp [tie_apiAdd e s api p hx]; eff_auto)
  have hCommit := fun m s => tie_apiCommit e s api m
  have hTag := fun t m s => tie_apiTag e s api t m
  have hPushTag := fun t s => tie_apiPushTag e s api t hc hk
  have hPush := fun s => tie_apiPush e s api hc hk
  unfold vcsCommit commitPhase
  eff_simp [absCfgE, remotePiece]
  eff_auto [absCfgE, remotePiece]

/-- with `commit` off, `vcs.commit` does nothing at all (no tag, no push: the guards `cfg.commit and …`) -/
theorem tie_vcsCommit_off {α : Type} (e : EffEnv) (s : PState) (cfg : Config α) (api : VcsApi)
    (files : List Str) (new_version cm tm : Str) (hcommit : cfg.commit = false) :
    vcsCommit cfg api files new_version cm tm e s = (s, .ok ()) := by
  unfold vcsCommit
  eff_simp

/-- the only ways the commit phase stops are a failing VCS invocation (CalledProcessError, turned into
    exit 1 by `_try_update`) and a failing hook (`sys.exit(1)`) -/
theorem vcsCommit_stop_kinds {α : Type} (e : EffEnv) (s : PState) (cfg : Config α) (api : VcsApi)
    (new_version cm tm : Str) (h : CommitCoherent e cfg api new_version) :
    match (vcsCommit cfg api e.plan.files new_version cm tm e s).2 with
    | .error x => x = .called ∨ x = .exit 1
    | .ok _ => True := by
  obtain ⟨hc, hk, hx0, hold, hnew⟩ := h
  have hx := addGuard_false e api hk hx0
  have hAdd := Eff.forIn_addAll e (vcsCommit.body_1 api)
    (by intro p s; unfold vcsCommit.body_1; eff_simp [tie_apiAdd e s api p hx]; eff_auto)
  have hCommit := fun m s => tie_apiCommit e s api m
  have hTag := fun t m s => tie_apiTag e s api t m
  have hPushTag := fun t s => tie_apiPushTag e s api t hc hk
  have hPush := fun s => tie_apiPush e s api hc hk
  unfold vcsCommit
  eff_simp [remotePiece]
  eff_auto [remotePiece]

/-! ### non-vacuity and the `already tracked!` finding -/

private def exCfg : Config Unit :=
  { current_version := ['1'], version_pattern := [], pep440_version := ['1'], commit_message := [],
    tag_message := [], tag_scope := .DEFAULT, pre_commit_hook := ['h'], post_commit_hook := [],
    commit := true, tag := true, push := true, is_new_pattern := true, file_patterns := () }
private def exPlan (k : VcsKind) (f : Option Nat) : PlanEnv :=
  ⟨k, true, f, true, false, false, true, true, true, true, true, [['a'], ['b']], ['1'], ['2']⟩
private def exEnv (k : VcsKind) (f : Option Nat) (err : Str) : EffEnv :=
  { plan := exPlan k f, output := fun _ => [],
    branchMatches := fun _ => [fun g => if g == "is_current" then some ['*'] else if g == "remote" then some ['o'] else none],
    excText := [], excStderr := err, osErrno := 0 }
private def exApi (k : VcsKind) : VcsApi := ⟨k.name⟩

example : CommitCoherent (exEnv .git (some 3) []) exCfg (exApi .git) ['2'] :=
  ⟨⟨by decide, by decide, by decide⟩, by decide, by decide, by decide, by decide⟩
/-- for git the hypotheses hold whatever the stderr says -/
example : CommitCoherent (exEnv .git (some 3) alreadyTracked) exCfg (exApi .git) ['2'] :=
  ⟨⟨by decide, by decide, by decide⟩, by decide, by decide, by decide, by decide⟩

/-- a full run: pre hook, two adds, commit, tag (lightweight: empty message), remote lookup, push_tag -/
example : (Eff.view (vcsCommit exCfg (exApi .git) (exPlan .git none).files ['2'] [] [] (exEnv .git none []) ⟨[], 0⟩)).1.evs.reverse
    = [.preHook ['1'] ['2'], .add ['a'], .add ['b'], .cmd "commit", .cmd "tag_light", .cmd "ls_branches",
       .cmd "push_tag"] := by decide

/-- the Mercurial case, BY DESIGN: when the failing `hg add` itself reports "already tracked!" on stderr, the
    failure is ignored and the run goes on to commit, tag and push.  The hand model has no such case (it stops
    at the failing `add`), hence the hypothesis `notTracked` of the tie. -/
theorem vcsCommit_hg_already_tracked_ignored :
    let e := exEnv .hg (some 0) alreadyTracked
    (Eff.view (vcsCommit exCfg (exApi .hg) e.plan.files ['2'] [] [] e ⟨[], 0⟩)).2 = .ok ∧
    (commitPhase e.plan (absCfgE [] exCfg) ⟨[], 0⟩).2 = .failed := by
  decide

/-- the same stderr under git: the failing add stops the run, as in the model (git quotes the path in its own
    messages, so its stderr must not be trusted either) -/
theorem vcsCommit_git_stderr_irrelevant :
    let e := exEnv .git (some 0) alreadyTracked
    (Eff.view (vcsCommit exCfg (exApi .git) e.plan.files ['2'] [] [] e ⟨[], 0⟩)).2 = .failed ∧
    (Eff.view (vcsCommit exCfg (exApi .git) e.plan.files ['2'] [] [] e ⟨[], 0⟩)).1.evs
      = (commitPhase e.plan (absCfgE [] exCfg) ⟨[], 0⟩).1.evs ∧
    (commitPhase e.plan (absCfgE [] exCfg) ⟨[], 0⟩).2 = .failed := by
  decide

/-- … whereas the words in the exception TEXT (a configured path named `… already tracked! …`) change nothing:
    the whole commit phase is independent of `excText` -/
theorem vcsCommit_independent_of_excText {α : Type} (e : EffEnv) (s : PState) (cfg : Config α) (api : VcsApi)
    (files : List Str) (new_version cm tm t : Str) :
    vcsCommit cfg api files new_version cm tm { e with excText := t } s
      = vcsCommit cfg api files new_version cm tm e s := by
  have hAdd := fun p s => apiAdd_independent_of_excText e s api p t
  have hBody : ∀ p s, vcsCommit.body_1 api p { e with excText := t } s = vcsCommit.body_1 api p e s := by
    intro p s; unfold vcsCommit.body_1; eff_simp <;> eff_auto
  have hLoop := fun s => Eff.forIn_env_congr (vcsCommit.body_1 api) { e with excText := t } e hBody files s
  have hRemote : ∀ s, apiGetRemote api { e with excText := t } s = apiGetRemote api e s := by
    intro s; unfold apiGetRemote; eff_simp <;> eff_auto
  have hCommit : ∀ m s, apiCommit api m { e with excText := t } s = apiCommit api m e s := by
    intro m s; unfold apiCommit; eff_simp <;> eff_auto
  have hTag : ∀ a b s, apiTag api a b { e with excText := t } s = apiTag api a b e s := by
    intro a b s; unfold apiTag; eff_simp <;> eff_auto
  have hPushTag : ∀ a s, apiPushTag api a { e with excText := t } s = apiPushTag api a e s := by
    intro a s; unfold apiPushTag; eff_simp <;> eff_auto
  have hPush : ∀ s, apiPush api { e with excText := t } s = apiPush api e s := by
    intro s; unfold apiPush; eff_simp <;> eff_auto
  unfold vcsCommit
  eff_simp <;> eff_auto

end BV
