/-
  Proofs/Tie_vcsCommit.lean — `vcs.commit(cfg, vcs_api, filepaths, new_version, commit_message,
  tag_message)` and the `VCSAPI` methods it calls (`add`, `commit`, `tag`, `push_tag`, `push`), all
  GENERATED from the Python AST (Gen/F_vcsCommit.lean, F_apiAdd, F_apiCommit, F_apiTag, F_apiPushTag,
  F_apiPush), against the hand model `BV.commitPhase` (Model/Plan.lean), which decides property C10.

    tie_vcsCommit          cfg.commit = true  →  (state, ok/failed) of the generated `commit`
                                                  = commitPhase e (absCfgE tag_message cfg) s
    tie_vcsCommit_off      cfg.commit = false →  nothing happens
  for EVERY configuration, list of files, failure position `failAt`, hook result and remote situation.

  Hypotheses (each is the explicit statement of something the hand model abstracts):
  * `RemoteCoherent e`, `api.name = kind.name`  — see Tie_apiGetRemote.lean;
  * `hold`, `hnew` : the hooks get `cfg.current_version` / `new_version`; the model's events carry
    `startVersion` / `announced`;
  * `hx`  : `str(ex)` of the CalledProcessError does not contain "already tracked!".  WITHOUT it model and
    code differ (`vcsCommit_already_tracked_differs`): `VCSAPI.add` swallows such a failure and goes on to
    commit.  `str(CalledProcessError)` is "Command '[...argv...]' returned non-zero exit status N": it
    contains the argv, not hg's stderr, so the test can only fire when a configured PATH contains the text.
-/
import BumpverVerif.Gen.F_vcsCommit
import BumpverVerif.Proofs.Tie_apiGetRemote
set_option linter.unusedSimpArgs false
namespace BV
open GenE

/-- the text `VCSAPI.add` looks for in `str(ex)` -/
def alreadyTracked : Str := ['a', 'l', 'r', 'e', 'a', 'd', 'y', ' ', 't', 'r', 'a', 'c', 'k', 'e', 'd', '!']

theorem tie_apiAdd (e : EffEnv) (s : PState) (api : VcsApi) (p : Str)
    (hx : isInfix alreadyTracked e.excText = false) :
    apiAdd api p e s = Eff.liftC () (vcsCall e.plan (.add p) s) := by
  unfold alreadyTracked at hx
  unfold apiAdd; eff_simp; eff_auto

theorem tie_apiCommit (e : EffEnv) (s : PState) (api : VcsApi) (m : Str) :
    apiCommit api m e s = Eff.liftC () (vcsCall e.plan (.cmd "commit") s) := by
  unfold apiCommit; eff_simp; eff_auto

/-- annotated tag when there is a tag message, lightweight tag otherwise -/
theorem tie_apiTag (e : EffEnv) (s : PState) (api : VcsApi) (t m : Str) :
    apiTag api t m e s = Eff.liftC () (vcsCall e.plan (.cmd (if m.isEmpty then "tag_light" else "tag")) s) := by
  unfold apiTag; eff_simp; eff_auto

/-! `push_tag` / `push`: look up the remote, push only when there is one (`remotePiece`) -/

theorem tie_apiPushTag (e : EffEnv) (s : PState) (api : VcsApi) (t : Str) (hc : RemoteCoherent e)
    (hk : api.name = e.plan.kind.name) :
    apiPushTag api t e s = Eff.liftC () (remotePiece e.plan "push_tag" s) := by
  obtain ⟨r, hr, ht⟩ := getRemote_result e s api hc hk
  rcases hg : getRemote e.plan s with ⟨s5, b⟩
  simp only [hg] at hr ht
  subst ht
  unfold apiPushTag remotePiece
  eff_simp; eff_auto

theorem tie_apiPush (e : EffEnv) (s : PState) (api : VcsApi) (hc : RemoteCoherent e)
    (hk : api.name = e.plan.kind.name) :
    apiPush api e s = Eff.liftC () (remotePiece e.plan "push" s) := by
  obtain ⟨r, hr, ht⟩ := getRemote_result e s api hc hk
  rcases hg : getRemote e.plan s with ⟨s5, b⟩
  simp only [hg] at hr ht
  subst ht
  unfold apiPush remotePiece
  eff_simp; eff_auto

/-- what the plan model keeps of a `config.Config` in the commit phase (`scopeBranch` plays no role there) -/
def absCfgE {α : Type} (tagMsg : Str) (c : Config α) : PlanCfg :=
  { commit := c.commit, tag := c.tag, push := c.push,
    preHook := !c.pre_commit_hook.isEmpty, postHook := !c.post_commit_hook.isEmpty,
    scopeBranch := c.tag_scope == .BRANCH, tagMsgEmpty := tagMsg.isEmpty }

/-- everything the commit-phase tie assumes about the environment -/
structure CommitCoherent {α : Type} (e : EffEnv) (cfg : Config α) (api : VcsApi) (new_version : Str) : Prop where
  remote : RemoteCoherent e
  kind : api.name = e.plan.kind.name
  notTracked : isInfix alreadyTracked e.excText = false
  old : cfg.current_version = e.plan.startVersion
  new : new_version = e.plan.announced

theorem tie_vcsCommit {α : Type} (e : EffEnv) (s : PState) (cfg : Config α) (api : VcsApi)
    (new_version cm tm : Str) (h : CommitCoherent e cfg api new_version) (hcommit : cfg.commit = true) :
    Eff.view (vcsCommit cfg api e.plan.files new_version cm tm e s) = commitPhase e.plan (absCfgE tm cfg) s := by
  obtain ⟨hc, hk, hx, hold, hnew⟩ := h
  have hAdd := Eff.forIn_addAll e (vcsCommit.body_1 api)
    (by intro p s; unfold vcsCommit.body_1; eff_simp [tie_apiAdd e s api p hx]; eff_auto)
  have hCommit := fun m s => tie_apiCommit e s api m
  have hTag := fun t m s => tie_apiTag e s api t m
  have hPushTag := fun t s => tie_apiPushTag e s api t hc hk
  have hPush := fun s => tie_apiPush e s api hc hk
  unfold vcsCommit commitPhase
  eff_simp [absCfgE, remotePiece]
  eff_auto [absCfgE, remotePiece]

/-- with `commit` off, `vcs.commit` does nothing at all (no tag, no push: the guards `cfg.commit and …`) -/
theorem tie_vcsCommit_off {α : Type} (e : EffEnv) (s : PState) (cfg : Config α) (api : VcsApi)
    (files : List Str) (new_version cm tm : Str) (hcommit : cfg.commit = false) :
    vcsCommit cfg api files new_version cm tm e s = (s, .ok ()) := by
  unfold vcsCommit
  eff_simp

/-- the only ways the commit phase stops are a failing VCS invocation (CalledProcessError, turned into
    exit 1 by `_try_update`) and a failing hook (`sys.exit(1)`) -/
theorem vcsCommit_stop_kinds {α : Type} (e : EffEnv) (s : PState) (cfg : Config α) (api : VcsApi)
    (new_version cm tm : Str) (h : CommitCoherent e cfg api new_version) :
    match (vcsCommit cfg api e.plan.files new_version cm tm e s).2 with
    | .error x => x = .called ∨ x = .exit 1
    | .ok _ => True := by
  obtain ⟨hc, hk, hx, hold, hnew⟩ := h
  have hAdd := Eff.forIn_addAll e (vcsCommit.body_1 api)
    (by intro p s; unfold vcsCommit.body_1; eff_simp [tie_apiAdd e s api p hx]; eff_auto)
  have hCommit := fun m s => tie_apiCommit e s api m
  have hTag := fun t m s => tie_apiTag e s api t m
  have hPushTag := fun t s => tie_apiPushTag e s api t hc hk
  have hPush := fun s => tie_apiPush e s api hc hk
  unfold vcsCommit
  eff_simp [remotePiece]
  eff_auto [remotePiece]

/-! ### non-vacuity and the `already tracked!` finding -/

private def exCfg : Config Unit :=
  { current_version := ['1'], version_pattern := [], pep440_version := ['1'], commit_message := [],
    tag_message := [], tag_scope := .DEFAULT, pre_commit_hook := ['h'], post_commit_hook := [],
    commit := true, tag := true, push := true, is_new_pattern := true, file_patterns := () }
private def exPlan (f : Option Nat) : PlanEnv :=
  ⟨.git, true, f, true, false, false, true, true, true, true, true, [['a'], ['b']], ['1'], ['2']⟩
private def exEnv (f : Option Nat) (txt : Str) : EffEnv :=
  { plan := exPlan f, output := fun _ => [],
    branchMatches := fun _ => [fun g => if g == "is_current" then some ['*'] else if g == "remote" then some ['o'] else none],
    excText := txt, osErrno := 0 }
private def exApi : VcsApi := ⟨['g', 'i', 't']⟩

example : CommitCoherent (exEnv (some 3) []) exCfg exApi ['2'] :=
  ⟨⟨by decide, by decide, by decide⟩, by decide, by decide, by decide, by decide⟩

/-- a full run: pre hook, two adds, commit, tag (lightweight: empty message), remote lookup, push_tag -/
example : (Eff.view (vcsCommit exCfg exApi (exPlan none).files ['2'] [] [] (exEnv none []) ⟨[], 0⟩)).1.evs.reverse
    = [.preHook ['1'] ['2'], .add ['a'], .add ['b'], .cmd "commit", .cmd "tag_light", .cmd "ls_branches",
       .cmd "push_tag"] := by decide

/-- FINDING: when the text of the CalledProcessError contains "already tracked!" (a configured path that
    contains these words), a failing `add` is swallowed by `VCSAPI.add` and the run goes on to commit,
    tag and push; the hand model stops at the failing `add`. -/
theorem vcsCommit_already_tracked_differs :
    let e := exEnv (some 0) alreadyTracked
    (Eff.view (vcsCommit exCfg exApi e.plan.files ['2'] [] [] e ⟨[], 0⟩)).2 = .ok ∧
    (commitPhase e.plan (absCfgE [] exCfg) ⟨[], 0⟩).2 = .failed := by
  decide

end BV
