/-
  Proofs/Tie_parsePatternFields.lean — the definition GENERATED from the Python source of
  `v2version._parse_pattern_fields` (Gen/F_parsePatternFields.lean) equals the hand model `BV.parsePatternFields` on ALL
  raw patterns (ValueError exactly when the model reports an error).

  Python: `parts = list(PATTERN_PART_FIELDS.keys()); parts.sort(key=len, reverse=True)`, then two nested loops that fill
  the dict `fields_by_index[(segment_index, part_index)] = field` (a later assignment to the same key overwrites the
  value, the key keeps its place), then `[field for _, field in sorted(fields_by_index.items())]`.
  Model : `sortByLenDesc`, a `flatMap`/`filterMap` list of entries, and a fold of `insertIdx` (insertion into a sorted
  list that REPLACES an entry with the same key).

  The proof: the loops build `E.foldl dictStep []` for the model's entry list `E` (`inner_loop`, `outer_loop`; no KeyError:
  every sorted part name has a field, checked on the generated table); and sorting the items of that dict is the
  model's fold (`dict_fold`: insertion sort output is sorted and a permutation, a new key is inserted alike
  (`insertIdxI_new`), an existing key is overwritten in place on both sides (`dictSet_old`, `insertIdxI_old`)).
-/
import BumpverVerif.Gen.F_parsePatternFields
import BumpverVerif.Proofs.Tie_formatPartValues
import BumpverVerif.Proofs.Tie_parseSegtree
import BumpverVerif.Proofs.Tie_iterFlatSegtree
namespace BV.TieF
open GenF GenF.FP
set_option linter.unusedSimpArgs false

abbrev IK := Int × Int
abbrev IE := IK × Str
abbrev NE := (Nat × Nat) × Str

def toIK (k : Nat × Nat) : IK := (Int.ofNat k.1, Int.ofNat k.2)
def toI (x : NE) : IE := (toIK x.1, x.2)

theorem toIK_inj {a b : Nat × Nat} (h : toIK a = toIK b) : a = b := by
  rcases a with ⟨a1, a2⟩; rcases b with ⟨b1, b2⟩
  simp only [toIK, Prod.mk.injEq, Int.ofNat_eq_natCast, Int.natCast_inj] at h
  simp [h.1, h.2]

theorem pairLt_iff (a b : IK) : pairLt a b = true ↔ a.1 < b.1 ∨ (a.1 = b.1 ∧ a.2 < b.2) := by
  simp [pairLt]

/-- the model's insertion, on `Int` keys -/
def insertIdxI (x : IE) : List IE → List IE
  | [] => [x]
  | y :: ys =>
    if x.1 = y.1 then x :: ys
    else if pairLt x.1 y.1 then x :: y :: ys
    else y :: insertIdxI x ys

theorem insertIdx_toI (x : NE) : ∀ (l : List NE), (insertIdx x l).map toI = insertIdxI (toI x) (l.map toI)
  | [] => rfl
  | y :: ys => by
    have ih := insertIdx_toI x ys
    simp only [insertIdx, insertIdxI, List.map_cons]
    by_cases h1 : x.1 = y.1
    · have : (toI x).1 = (toI y).1 := by simp [toI, h1]
      simp [h1, this]
    · have h1' : ¬ (toI x).1 = (toI y).1 := fun e => h1 (toIK_inj e)
      have hlt : (decide (x.1.1 < y.1.1) || (x.1.1 == y.1.1 && decide (x.1.2 < y.1.2))) = pairLt (toI x).1 (toI y).1 := by
        rw [Bool.eq_iff_iff, pairLt_iff]
        simp only [toI, toIK, Bool.or_eq_true, decide_eq_true_eq, Bool.and_eq_true, beq_iff_eq,
          Int.ofNat_eq_natCast]
        omega
      simp only [beq_iff_eq, h1, if_false, h1', hlt]
      split
      · rfl
      · simp [ih]

/-! ### insertion sort of the items of a dict -/

def Sorted (l : List IE) : Prop := l.Pairwise (fun a b => pairLt b.1 a.1 = false)

theorem mem_insertByPairKey (x : IE) : ∀ (l : List IE) (y : IE), y ∈ insertByPairKey x l ↔ y = x ∨ y ∈ l
  | [], y => by simp [insertByPairKey]
  | z :: zs, y => by
    simp only [insertByPairKey]
    split
    · simp
    · simp only [List.mem_cons, mem_insertByPairKey x zs y]
      constructor
      · rintro (h | h | h) <;> simp [h]
      · rintro (h | h | h) <;> simp [h]

theorem sorted_insertByPairKey (x : IE) : ∀ (l : List IE), Sorted l → Sorted (insertByPairKey x l)
  | [], _ => by simp [insertByPairKey, Sorted]
  | z :: zs, hs => by
    have hs' := List.pairwise_cons.mp hs
    simp only [insertByPairKey]
    split
    · rename_i hlt
      refine List.pairwise_cons.mpr ⟨?_, hs⟩
      intro b hb
      rcases List.mem_cons.mp hb with rfl | hb
      · rw [pairLt_iff] at hlt
        rw [← Bool.not_eq_true, pairLt_iff]
        omega
      · have := hs'.1 b hb
        rw [pairLt_iff] at hlt
        rw [← Bool.not_eq_true, pairLt_iff] at this ⊢
        omega
    · rename_i hlt
      refine List.pairwise_cons.mpr ⟨?_, sorted_insertByPairKey x zs hs'.2⟩
      intro b hb
      rcases (mem_insertByPairKey x zs b).mp hb with rfl | hb
      · simpa using hlt
      · exact hs'.1 b hb

theorem perm_insertByPairKey (x : IE) : ∀ (l : List IE), (insertByPairKey x l).Perm (x :: l)
  | [] => by simp [insertByPairKey]
  | z :: zs => by
    simp only [insertByPairKey]
    split
    · exact List.Perm.refl _
    · exact ((perm_insertByPairKey x zs).cons z).trans (List.Perm.swap x z zs)

theorem pySortedItems_snoc (d : List IE) (x : IE) :
    pySortedItems (d ++ [x]) = insertByPairKey x (pySortedItems d) := by
  simp [pySortedItems, List.foldl_append]

theorem sorted_foldl : ∀ (d acc : List IE), Sorted acc → Sorted (d.foldl (fun acc x => insertByPairKey x acc) acc)
  | [], _, h => h
  | x :: xs, acc, h => sorted_foldl xs _ (sorted_insertByPairKey x acc h)

theorem sorted_pySortedItems (d : List IE) : Sorted (pySortedItems d) :=
  sorted_foldl d [] List.Pairwise.nil

theorem perm_foldl : ∀ (d acc : List IE), (d.foldl (fun acc x => insertByPairKey x acc) acc).Perm (d.reverse ++ acc)
  | [], acc => by simp
  | x :: xs, acc => by
    refine (perm_foldl xs _).trans ?_
    simp only [List.reverse_cons, List.append_assoc, List.singleton_append]
    exact List.Perm.append_left _ (perm_insertByPairKey x acc)

theorem perm_pySortedItems (d : List IE) : (pySortedItems d).Perm d := by
  have := perm_foldl d []
  simp only [List.append_nil] at this
  exact this.trans (List.reverse_perm d)



/-! ### `d[k] = v` against the model's `insertIdx` -/

def setVal (k : IK) (v : Str) (kv : IE) : IE := if kv.1 = k then (kv.1, v) else kv

theorem setVal_fst (k : IK) (v : Str) (kv : IE) : (setVal k v kv).1 = kv.1 := by
  simp only [setVal]; split <;> rfl

theorem dictSet_new' (k : IK) (v : Str) : ∀ (d : List IE), k ∉ d.map (·.1) → dictSet d k v = d ++ [(k, v)]
  | [], _ => rfl
  | (k', v') :: rest, h => by
    have hne : (k' == k) = false := by
      have : k ≠ k' := fun e => h (by simp [e])
      simpa using fun e => this e.symm
    have ih := dictSet_new' k v rest (fun hm => h (by simp at hm ⊢; exact Or.inr hm))
    simp only [dictSet, hne, Bool.false_eq_true, if_false, ih, List.cons_append]

theorem map_setVal_of_not_mem (k : IK) (v : Str) : ∀ (d : List IE), k ∉ d.map (·.1) → d.map (setVal k v) = d
  | [], _ => rfl
  | kv :: rest, h => by
    have h1 : ¬ kv.1 = k := fun e => h (by simp [e])
    have ih := map_setVal_of_not_mem k v rest (fun hm => h (by simp at hm ⊢; exact Or.inr hm))
    simp only [List.map_cons, setVal, h1, if_false, ih]

theorem dictSet_old (k : IK) (v : Str) : ∀ (d : List IE), k ∈ d.map (·.1) → (d.map (·.1)).Nodup →
    dictSet d k v = d.map (setVal k v)
  | [], h, _ => by simp at h
  | (k', v') :: rest, h, hnd => by
    rw [List.map_cons] at hnd
    have hnd' := List.nodup_cons.mp hnd
    by_cases he : k' = k
    · subst he
      have : rest.map (setVal k' v) = rest := map_setVal_of_not_mem k' v rest hnd'.1
      simp [dictSet, setVal, this]
    · have hne : (k' == k) = false := by simpa using he
      have hm : k ∈ rest.map (·.1) := by
        simp only [List.map_cons, List.mem_cons] at h
        rcases h with e | hm
        · exact absurd e.symm he
        · exact hm
      simp only [dictSet, hne, Bool.false_eq_true, if_false, List.map_cons, setVal, he,
        dictSet_old k v rest hm hnd'.2]

theorem insertByPairKey_map (g : IE → IE) (hg : ∀ y, (g y).1 = y.1) (x : IE) :
    ∀ (l : List IE), (insertByPairKey x l).map g = insertByPairKey (g x) (l.map g)
  | [] => rfl
  | y :: ys => by
    simp only [insertByPairKey, List.map_cons, hg]
    split
    · rfl
    · simp [insertByPairKey_map g hg x ys]

theorem pySortedItems_map (g : IE → IE) (hg : ∀ y, (g y).1 = y.1) (d : List IE) :
    pySortedItems (d.map g) = (pySortedItems d).map g := by
  have : ∀ (d acc : List IE), (d.map g).foldl (fun acc x => insertByPairKey x acc) (acc.map g) =
      (d.foldl (fun acc x => insertByPairKey x acc) acc).map g := by
    intro d
    induction d with
    | nil => intro acc; rfl
    | cons x xs ih =>
      intro acc
      simp only [List.map_cons, List.foldl_cons, ← insertByPairKey_map g hg x acc, ih]
  exact this d []

/-- a key that is not there: the model inserts like the sort does -/
theorem insertIdxI_new (x : IE) : ∀ (l : List IE), x.1 ∉ l.map (·.1) → insertIdxI x l = insertByPairKey x l
  | [], _ => rfl
  | y :: ys, h => by
    have h1 : ¬ x.1 = y.1 := fun e => h (by simp [e])
    have ih := insertIdxI_new x ys (fun hm => h (by simp at hm ⊢; exact Or.inr hm))
    simp only [insertIdxI, insertByPairKey, h1, if_false, ih]

/-- a key that is there, in a sorted list with distinct keys: the model replaces the value in place -/
theorem insertIdxI_old (k : IK) (v : Str) : ∀ (l : List IE), Sorted l → (l.map (·.1)).Nodup → k ∈ l.map (·.1) →
    insertIdxI (k, v) l = l.map (setVal k v)
  | [], _, _, h => by simp at h
  | y :: ys, hs, hnd, hm => by
    rw [List.map_cons] at hnd
    have hnd' := List.nodup_cons.mp hnd
    have hs' := List.pairwise_cons.mp hs
    by_cases he : k = y.1
    · have : ys.map (setVal k v) = ys := map_setVal_of_not_mem k v ys (he ▸ hnd'.1)
      subst he
      simp [insertIdxI, setVal, this]
    · have hm' : k ∈ ys.map (·.1) := by
        simp only [List.map_cons, List.mem_cons] at hm
        rcases hm with e | hm
        · exact absurd e he
        · exact hm
      obtain ⟨e, he1, he2⟩ := List.mem_map.mp hm'
      have hnlt : pairLt k y.1 = false := by rw [← he2]; exact hs'.1 e he1
      have hy : ¬ y.1 = k := fun e => he e.symm
      simp only [insertIdxI, he, if_false, hnlt, Bool.false_eq_true, List.map_cons, setVal, hy,
        insertIdxI_old k v ys hs'.2 hnd'.2 hm']



/-- the dict the Python loops build from the model's entry list -/
def dictStep (d : List IE) (x : NE) : List IE := dictSet d (toIK x.1) x.2

theorem keys_dictSet_nodup (k : IK) (v : Str) (d : List IE) (hnd : (d.map (·.1)).Nodup) :
    ((dictSet d k v).map (·.1)).Nodup := by
  by_cases hm : k ∈ d.map (·.1)
  · rw [dictSet_old k v d hm hnd, List.map_map]
    have : ((fun x : IE => x.1) ∘ setVal k v) = (fun x : IE => x.1) := by
      funext y; exact setVal_fst k v y
    rw [this]; exact hnd
  · rw [dictSet_new' k v d hm, List.map_append]
    simp only [List.map_cons, List.map_nil]
    exact List.nodup_append.mpr ⟨hnd, by simp, by
      intro a ha b hb
      simp only [List.mem_singleton] at hb
      subst hb
      exact fun e => hm (e ▸ ha)⟩

/-- one `fields_by_index[key] = field` against one `insertIdx` -/
theorem dict_step (d : List IE) (s : List NE) (x : NE)
    (hR : pySortedItems d = s.map toI) (hnd : (d.map (·.1)).Nodup) :
    pySortedItems (dictStep d x) = (insertIdx x s).map toI := by
  have hperm := perm_pySortedItems d
  have hkeys : ∀ k, k ∈ (s.map toI).map (·.1) ↔ k ∈ d.map (·.1) := by
    intro k; rw [← hR]; exact (hperm.map (·.1)).mem_iff
  rw [insertIdx_toI, dictStep]
  by_cases hm : toIK x.1 ∈ d.map (·.1)
  · rw [dictSet_old _ _ d hm hnd, pySortedItems_map _ (setVal_fst _ _), hR]
    have hs : Sorted (s.map toI) := hR ▸ sorted_pySortedItems d
    have hnd' : ((s.map toI).map (·.1)).Nodup := by
      rw [← hR]; exact ((hperm.map (·.1)).nodup_iff).mpr hnd
    exact (insertIdxI_old (toIK x.1) x.2 (s.map toI) hs hnd' ((hkeys _).mpr hm)).symm
  · rw [dictSet_new' _ _ d hm, pySortedItems_snoc, hR]
    exact (insertIdxI_new (toI x) (s.map toI) (fun h => hm ((hkeys _).mp h))).symm

theorem dict_fold : ∀ (E : List NE) (d : List IE) (s : List NE),
    pySortedItems d = s.map toI → (d.map (·.1)).Nodup →
    pySortedItems (E.foldl dictStep d) = (E.foldl (fun acc x => insertIdx x acc) s).map toI
  | [], _, _, hR, _ => hR
  | x :: xs, d, s, hR, hnd =>
    dict_fold xs _ _ (dict_step d s x hR hnd) (keys_dictSet_nodup _ _ d hnd)

/-- `[field for _, field in sorted(fields_by_index.items())]` = the model's sorted entry list, fields only -/
theorem sorted_dict_fields (E : List NE) :
    (pySortedItems (E.foldl dictStep [])).map (·.2) = (E.foldl (fun acc x => insertIdx x acc) []).map (·.2) := by
  rw [dict_fold E [] [] rfl (by simp), List.map_map]
  rfl



/-! ### the two nested loops build that dict -/

/-- the model's entries for one segment -/
def innerEntries (parts : List Str) (si : Str × Nat) : List NE :=
  parts.filterMap (fun part =>
    match findIdx part si.1 with
    | some i => (lookup part Gen.partFields).map (fun f => ((si.2, i), f))
    | none => none)

theorem inner_loop (si : Str × Nat) (g : List IE → Str → Except PyExc (List IE))
    (hg : ∀ d part, g d part =
      if pyFind si.1 part ≥ 0 then
        bindE (dictGet Gen.partFields part) fun f => .ok (dictSet d (Int.ofNat si.2, pyFind si.1 part) f)
      else .ok d) :
    ∀ (parts : List Str) (d : List IE), (∀ part ∈ parts, (lookup part Gen.partFields).isSome = true) →
      foldlE g d parts = .ok ((innerEntries parts si).foldl dictStep d) := by
  intro parts
  induction parts with
  | nil => intro d _; simp [foldlE, innerEntries]
  | cons part rest ih =>
    intro d hp
    obtain ⟨f, hf⟩ := Option.isSome_iff_exists.mp (hp part (by simp))
    have hstep : g d part = .ok ((innerEntries [part] si).foldl dictStep d) := by
      rw [hg]
      cases hfi : findIdx part si.1 with
      | none => simp [pyFind, innerEntries, hfi]
      | some i =>
        have : (Int.ofNat i ≥ 0) := by simp
        simp only [pyFind, innerEntries, List.filterMap_cons, List.filterMap_nil, hfi, this, if_true,
          dictGet_eq_lookup, hf, bindE_ok', Option.map_some, List.foldl_cons, List.foldl_nil, dictStep, toIK]
    rw [foldlE, hstep]
    simp only []
    rw [ih _ (fun p hm => hp p (by simp [hm]))]
    have : innerEntries (part :: rest) si = innerEntries [part] si ++ innerEntries rest si := by
      simp only [innerEntries, List.filterMap_cons, List.filterMap_nil]
      split <;> simp
    rw [this, List.foldl_append]

theorem outer_loop (parts : List Str) (G : List IE → Str × Nat → Except PyExc (List IE))
    (hG : ∀ d si, G d si = .ok ((innerEntries parts si).foldl dictStep d)) :
    ∀ (sis : List (Str × Nat)) (d : List IE),
      foldlE G d sis = .ok ((sis.flatMap (innerEntries parts)).foldl dictStep d) := by
  intro sis
  induction sis with
  | nil => intro d; simp [foldlE]
  | cons si rest ih =>
    intro d
    rw [foldlE, hG]
    simp only []
    rw [ih, List.flatMap_cons, List.foldl_append]

/-- `parts.sort(key=len, reverse=True)` is the model's `sortByLenDesc` -/
theorem insertByKeyDesc_len (key : Str → Int) (hkey : ∀ x y, key x > key y ↔ x.length > y.length) (x : Str) :
    ∀ (l : List Str), insertByKeyDesc key x l = insertByLenDesc x l
  | [] => rfl
  | y :: ys => by
    simp only [insertByKeyDesc, insertByLenDesc, hkey, insertByKeyDesc_len key hkey x ys]

theorem pySortedByDesc_len (key : Str → Int) (hkey : ∀ x y, key x > key y ↔ x.length > y.length) (l : List Str) :
    pySortedByDesc key l = sortByLenDesc l := by
  simp only [pySortedByDesc, sortByLenDesc, insertByKeyDesc_len key hkey]

theorem sorted_parts_have_fields :
    ∀ part ∈ sortByLenDesc (Gen.partFields.map (·.1)), (lookup part Gen.partFields).isSome = true := by
  decide

/-- `_parse_pattern_fields(raw_pattern)` for ALL strings -/
theorem _root_.BV.tie_parsePatternFields (raw : Str) : GenF.parsePatternFields raw = absE (parsePatternFields raw) := by
  simp only [GenF.parsePatternFields, tie_parseSegtree, parsePatternFields]
  rw [pySortedByDesc_len _ (by intro x y; simp only [Int.ofNat_eq_natCast]; omega)]
  cases parseSegtree raw with
  | error e => simp [absE]
  | ok items =>
    simp only [absE, bindE_ok', tie_iterFlatSegtree]
    rw [outer_loop (sortByLenDesc (Gen.partFields.map (·.1))) _ (by
      intro d si
      rw [inner_loop si _ (by
        intro d part
        simp only [decide_eq_true_eq] <;>
          (by_cases hge : pyFind si.1 part ≥ 0 <;> simp [hge] <;> (try (intro hlt; omega)) <;> omega))
        _ _ sorted_parts_have_fields]
      rfl)]
    simp only [bindE_ok']
    rw [sorted_dict_fields]
    rfl

end BV.TieF
