/-
  Proofs/TokTie_Safe.lean — from the adjacency condition `Pat.safeK` (stated on the pattern SOURCE text) to
  the condition on items (`safeItemsK`, stated on the text after escaping and the bracket rewrite):
  whether a part name is a prefix of a text depends only on its leading run of name characters, and that
  run is the same before and after the two rewrites (`np_text_gtext`).
-/
import BumpverVerif.Proofs.TokTie_Items
namespace BV

/-- the leading run of part-name characters (upper-case letters and digits) -/
def np (s : Str) : Str := s.takeWhile nameChar

theorem np_cons (c : Char) (X : Str) : np (c :: X) = if nameChar c then c :: np X else [] := by
  simp only [np, List.takeWhile_cons]

theorem np_cons_congr (c : Char) {X Y : Str} (h : np X = np Y) : np (c :: X) = np (c :: Y) := by
  rw [np_cons, np_cons, h]

theorem np_name_append (n X : Str) (hn : ∀ c ∈ n, nameChar c = true) : np (n ++ X) = n ++ np X := by
  induction n with
  | nil => rfl
  | cons c r ih =>
    rw [List.cons_append, np_cons, hn c List.mem_cons_self, if_pos rfl,
      ih (fun d hd => hn d (List.mem_cons_of_mem _ hd))]
    rfl

theorem np_append_congr (n : Str) {X Y : Str} (hn : ∀ c ∈ n, nameChar c = true) (h : np X = np Y) :
    np (n ++ X) = np (n ++ Y) := by
  rw [np_name_append n X hn, np_name_append n Y hn, h]

theorem isPrefixOf_np (m X : Str) (hm : ∀ c ∈ m, nameChar c = true) :
    m.isPrefixOf X = m.isPrefixOf (np X) := by
  induction m generalizing X with
  | nil => simp
  | cons c r ih =>
    cases X with
    | nil => simp [np]
    | cons x X' =>
      have hc := hm c List.mem_cons_self
      rw [np_cons]
      by_cases hx : nameChar x = true
      · simp only [hx, if_true, List.isPrefixOf, ih X' (fun d hd => hm d (List.mem_cons_of_mem _ hd))]
      · have hx' : nameChar x = false := by simpa using hx
        have hne : (c == x) = false := by
          cases hcx : c == x with
          | false => rfl
          | true =>
            have : c = x := by simpa using hcx
            subst this
            rw [hc] at hx'; cases hx'
        simp [hx', List.isPrefixOf, hne]

theorem prefix_transfer {m X Y : Str} (hm : m ∈ partNames) (h : np X = np Y) :
    m.isPrefixOf X = m.isPrefixOf Y := by
  rw [isPrefixOf_np m X (name_chars hm), isPrefixOf_np m Y (name_chars hm), h]

theorem not_prefix_of_head {m : Str} (hm : m ∈ partNames) (x : Char) (X : Str) (hx : nameChar x = false) :
    m.isPrefixOf (x :: X) = false := by
  rw [isPrefixOf_np m _ (name_chars hm), np_cons, hx]
  have := name_ne_nil hm
  cases m with
  | nil => exact absurd rfl this
  | cons _ _ => simp

theorem litText_regexLit_np (c : Char) {X Y : Str} (h : np X = np Y) :
    np (litText c ++ X) = np (regexLit c ++ Y) := by
  have hb : nameChar '\\' = false := by decide
  by_cases hc : nameChar c = true
  · obtain ⟨h0, h1, h2, -⟩ := nameChar_not_special hc
    have e1 : litText c = [c] := by simp [litText, h1, h2]
    have e2 : regexLit c = [c] := by
      have h0' : c ∉ escList := by simpa using h0
      simp [regexLit, patEscChars_eq, h0', h1, h2]
    rw [e1, e2]
    exact np_cons_congr c h
  · have hc' : nameChar c = false := by simpa using hc
    have e1 : np (litText c ++ X) = [] := by
      unfold litText
      split <;> simp [np_cons, hb, hc']
    have e2 : np (regexLit c ++ Y) = [] := by
      unfold regexLit
      split <;> simp [np_cons, hb, hc']
    rw [e1, e2]

theorem np_text_gtext (p : Pat) (k k' : Str) (h : p.shapeOk = true) (hk : np k = np k') :
    np (p.text ++ k) = np (p.gtext ++ k') := by
  induction p generalizing k k' with
  | done => exact hk
  | lit c rest ih =>
    simp only [Pat.shapeOk, Bool.and_eq_true] at h
    simp only [Pat.text_lit, Pat.gtext, List.append_assoc]
    exact litText_regexLit_np c (ih k k' h.2 hk)
  | part n rest ih =>
    simp only [Pat.shapeOk, Bool.and_eq_true] at h
    simp only [Pat.text_part, Pat.gtext, List.append_assoc]
    exact np_append_congr n (name_chars (mem_partNames_of_lookup h.1.1)) (ih k k' h.2 hk)
  | opt body rest _ _ =>
    have e1 : nameChar '[' = false := by decide
    have e2 : nameChar '(' = false := by decide
    simp [Pat.text_opt, Pat.gtext, np_cons, e1, e2]

/-- the adjacency condition on the source text gives the adjacency condition on the items -/
theorem safeItems_of_safeK (p : Pat) (k k' : Str) (h : p.shapeOk = true) (hk : np k = np k')
    (hs : p.safeK k = true) : safeItemsK p.items k' := by
  induction p generalizing k k' with
  | done => trivial
  | lit c rest ih =>
    simp only [Pat.shapeOk, Bool.and_eq_true] at h
    simp only [Pat.safeK, Bool.and_eq_true] at hs
    refine ⟨?_, ih k k' h.2 hk hs.2⟩
    have hno : ∀ m ∈ partNames, m.isPrefixOf (c :: (srcAll rest.items ++ k')) = false := by
      intro m hm
      have := List.all_eq_true.mp hs.1 m hm
      rw [srcAll_items, ← prefix_transfer hm (np_cons_congr c (np_text_gtext rest k k' h.2 hk))]
      simpa using this
    have hb : nameChar '\\' = false := by decide
    intro o ho m hm
    rw [regexLit_eq] at ho ⊢
    rcases encChar_cases c with ⟨e, -⟩ | ⟨e, -⟩
    · rw [e] at ho ⊢
      simp only [List.length_cons, List.length_nil] at ho
      have : o = 0 ∨ o = 1 := by omega
      rcases this with rfl | rfl
      · exact not_prefix_of_head hm _ _ hb
      · exact hno m hm
    · rw [e] at ho ⊢
      simp only [List.length_cons, List.length_nil] at ho
      have : o = 0 := by omega
      subst this
      exact hno m hm
  | part n rest ih =>
    simp only [Pat.shapeOk, Bool.and_eq_true] at h
    simp only [Pat.safeK, Bool.and_eq_true] at hs
    refine ⟨?_, ih k k' h.2 hk hs.2⟩
    intro o ho m hm hp
    have hn := name_chars (mem_partNames_of_lookup h.1.1)
    have hdrop : ∀ c ∈ n.drop o, nameChar c = true := fun c hc => hn c (List.mem_of_mem_drop hc)
    have := List.all_eq_true.mp (List.all_eq_true.mp hs.1 o (List.mem_range.mpr ho)) m hm
    rw [srcAll_items, ← prefix_transfer hm (np_append_congr _ hdrop (np_text_gtext rest k k' h.2 hk))] at hp
    simpa [hp] using this
  | opt body rest ihb ihr =>
    simp only [Pat.shapeOk, Bool.and_eq_true] at h
    simp only [Pat.safeK, Bool.and_eq_true] at hs
    have n1 : nameChar '(' = false := by decide
    have n2 : nameChar '?' = false := by decide
    have n3 : nameChar ':' = false := by decide
    have n4 : nameChar ')' = false := by decide
    have n5 : nameChar ']' = false := by decide
    simp only [Pat.items, safeItemsK]
    refine ⟨?_, (safeItemsK_append _ _ _).mpr ⟨?_, ?_, ihr k k' h.2 hk hs.2⟩⟩
    · intro o ho m hm
      have : o = 0 ∨ o = 1 ∨ o = 2 := by simp at ho; omega
      rcases this with rfl | rfl | rfl
      · exact not_prefix_of_head hm _ _ n1
      · exact not_prefix_of_head hm _ _ n2
      · exact not_prefix_of_head hm _ _ n3
    · apply ihb (']' :: (rest.text ++ k)) _ h.1.2 _ hs.1
      simp [srcAll_cons, Item.src, np_cons, n4, n5]
    · intro o ho m hm
      have : o = 0 ∨ o = 1 := by simp at ho; omega
      rcases this with rfl | rfl
      · exact not_prefix_of_head hm _ _ n4
      · exact not_prefix_of_head hm _ _ n2

end BV
