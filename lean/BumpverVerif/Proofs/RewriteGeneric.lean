/-
  Proofs/RewriteGeneric.lean — the lemmas of Proofs/RewriteLemmas.lean about `iterMatches`,
  `applyMatches`, `rewriteLines`, `planWrites` proved ONCE for the rendering-parametric engine
  `RwEngine V` of Model/V1Rewrite.lean (any version-record type, any regex compiler, any renderer), and

    * `v2Engine_…` : the instance at `v2Engine` IS Model/Rewrite.lean, function by function
      (`iterMatches`, `applyMatches`, `rewriteLines`, `rewriteContent`, `planWrites`, `rewriteFiles`,
      `rewriteFilesLazy`), so the generic statements specialise to the v2 statements of
      Proofs/RewriteLemmas.lean (shown for `C03_every_occurrence` in Props/V1Rewrite.lean);
    * the instance at `v1Engine` is the legacy path (Props/V1Rewrite.lean).

  Everything that does not mention the renderer or the compiler (`splitOn`/`join`, `FS.write`, `setLine`,
  `sortMatches`, `keptOf`, `Disj`, `lineMatches`, `searchGo_bounds`, `mem_iterForPatternGo`, …) is REUSED from
  Proofs/RewriteLemmas.lean, not copied.
-/
import BumpverVerif.Model.V1Rewrite
import BumpverVerif.Proofs.RewriteLemmas
import BumpverVerif.Proofs.DiffLemmas
namespace BV
namespace RwEngine
variable {V : Type} (E : RwEngine V)

/-! ### `iterMatches` -/

theorem iterMatchesGo_nil (lines : List Str) (seen : List LineSpan) :
    E.iterMatchesGo lines [] seen = some [] := rfl

theorem iterMatchesGo_cons (lines : List Str) (p : CPat) (ps : List CPat) (seen : List LineSpan) :
    E.iterMatchesGo lines (p :: ps) seen =
      match E.compile p with
      | none => none
      | some r =>
        (E.iterMatchesGo lines ps (seen ++ (iterForPatternGo r p 0 lines).map PMatch.span)).map
          (keptOf seen (iterForPatternGo r p 0 lines) ++ ·) := by
  rw [iterMatchesGo]
  cases E.compile p with
  | none => rfl
  | some r => simp only [foldl_kept, List.nil_append]

theorem iterMatchesGo_inv (lines : List Str) (pats : List CPat) (seen : List LineSpan)
    (ms : List PMatch) (h : E.iterMatchesGo lines pats seen = some ms) :
    ms.Pairwise Disj ∧ ∀ m ∈ ms, (∀ s ∈ seen, NoOv s m) ∧
      ∃ p ∈ pats, ∃ r, E.compile p = some r ∧ m ∈ iterForPatternGo r p 0 lines := by
  induction pats generalizing seen ms with
  | nil =>
    simp only [iterMatchesGo_nil, Option.some.injEq] at h
    subst h
    simp
  | cons p ps ih =>
    rw [iterMatchesGo_cons] at h
    split at h
    · cases h
    · rename_i r hr
      obtain ⟨rest, hrest, rfl⟩ := Option.map_eq_some_iff.1 h
      obtain ⟨ih1, ih2⟩ := ih _ _ hrest
      refine ⟨?_, ?_⟩
      · rw [List.pairwise_append]
        refine ⟨keptOf_pairwise _ _, ih1, fun a ha b hb => ?_⟩
        have hal := (mem_keptOf ha).1
        have := (ih2 b hb).1 a.span
          (List.mem_append_right _ (List.mem_map.2 ⟨a, hal, rfl⟩))
        simpa [NoOv, Disj, PMatch.span] using this
      · intro m hm
        rcases List.mem_append.1 hm with hm | hm
        · exact ⟨(mem_keptOf hm).2, p, List.mem_cons_self, r, hr, (mem_keptOf hm).1⟩
        · obtain ⟨h1, p', hp', r', hr', hm'⟩ := ih2 m hm
          exact ⟨fun s hs => h1 s (List.mem_append_left _ hs), p', List.mem_cons_of_mem _ hp',
            r', hr', hm'⟩

/-- the surviving matches neither overlap nor touch, carry a configured pattern, are non-empty and lie
    inside their line — for EVERY engine -/
theorem iterMatches_facts (lines : List Str) (pats : List CPat) (ms : List PMatch)
    (h : E.iterMatches lines pats = some ms) :
    ms.Pairwise Disj ∧ ∀ m ∈ ms, m.pat ∈ pats ∧ m.start < m.stop ∧
      ∃ line, lines[m.lineno]? = some line ∧ m.stop ≤ line.length := by
  obtain ⟨h1, h2⟩ := E.iterMatchesGo_inv lines pats [] ms h
  refine ⟨h1, fun m hm => ?_⟩
  obtain ⟨-, p, hp, r, -, hmem⟩ := h2 m hm
  obtain ⟨e1, -, e3, line, e4, e5⟩ := mem_iterForPatternGo hmem
  exact ⟨e1 ▸ hp, e3, line, by simpa using e4, e5⟩

/-! ### `applyMatches`: what happens to ONE line -/

/-- the text a match is replaced with (`[]` when rendering fails; then `applyMatches` fails) -/
def replOf (v : V) (m : PMatch) : Str :=
  match E.render v m.pat with
  | .ok s => s
  | .error _ => []

end RwEngine

/-- the matches of one line spliced in list order, for ANY replacement function -/
def spliceLineG (repl : PMatch → Str) : List PMatch → Str → Str
  | [], cur => cur
  | m :: ms, cur => spliceLineG repl ms (cur.take m.start ++ repl m ++ cur.drop m.stop)

/-- growth of the line caused by replacing `m` -/
def growthG (repl : PMatch → Str) (m : PMatch) : Int :=
  ((repl m).length : Int) - ((m.stop : Int) - (m.start : Int))

theorem spliceLineG_append (repl : PMatch → Str) (L : List PMatch) (p q : Str)
    (hs : L.Pairwise (fun a b => b.stop < a.start))
    (hb : ∀ m ∈ L, m.start ≤ m.stop ∧ m.stop ≤ p.length) :
    spliceLineG repl L (p ++ q) = spliceLineG repl L p ++ q := by
  induction L generalizing p with
  | nil => rfl
  | cons m L ih =>
    rw [List.pairwise_cons] at hs
    have hm := hb m List.mem_cons_self
    simp only [spliceLineG]
    rw [List.take_append_of_le_length (by omega), List.drop_append_of_le_length (by omega),
      ← List.append_assoc]
    apply ih _ hs.2
    intro m' hm'
    have h1 := hs.1 m' hm'
    have h2 := hb m' (List.mem_cons_of_mem _ hm')
    simp only [List.length_append, List.length_take, List.length_drop]
    omega

theorem spliceLineG_length (repl : PMatch → Str) (L : List PMatch) (line : Str)
    (hs : L.Pairwise (fun a b => b.stop < a.start))
    (hb : ∀ m ∈ L, m.start ≤ m.stop ∧ m.stop ≤ line.length) :
    ((spliceLineG repl L line).length : Int) = (line.length : Int) + (L.map (growthG repl)).sum := by
  induction L generalizing line with
  | nil => simp [spliceLineG]
  | cons m L ih =>
    rw [List.pairwise_cons] at hs
    have hm := hb m List.mem_cons_self
    simp only [spliceLineG, List.map_cons, List.sum_cons]
    rw [ih _ hs.2]
    · simp only [List.length_append, List.length_take, List.length_drop, growthG]
      omega
    · intro m' hm'
      have h1 := hs.1 m' hm'
      have h2 := hb m' (List.mem_cons_of_mem _ hm')
      simp only [List.length_append, List.length_take, List.length_drop]
      omega

theorem spliceLineG_occ (repl : PMatch → Str) (L : List PMatch) (line : Str)
    (hs : L.Pairwise (fun a b => b.stop < a.start))
    (hb : ∀ m ∈ L, m.start ≤ m.stop ∧ m.stop ≤ line.length)
    (m : PMatch) (hm : m ∈ L) :
    ((spliceLineG repl L line).drop
        (Int.toNat ((m.start : Int) +
          ((L.filter (fun m' => decide (m'.stop < m.start))).map (growthG repl)).sum))).take
      (repl m).length = repl m := by
  induction L generalizing line with
  | nil => cases hm
  | cons a rest ih =>
    rw [List.pairwise_cons] at hs
    have ha := hb a List.mem_cons_self
    have hlt : (line.take a.start).length = a.start := by simp only [List.length_take]; omega
    have hb' : ∀ m' ∈ rest, m'.start ≤ m'.stop ∧ m'.stop ≤ (line.take a.start).length := by
      intro m' hm'
      have h1 := hs.1 m' hm'
      have h2 := hb m' (List.mem_cons_of_mem _ hm')
      omega
    have hsplit : spliceLineG repl (a :: rest) line =
        spliceLineG repl rest (line.take a.start) ++ (repl a ++ line.drop a.stop) := by
      simp only [spliceLineG]
      rw [List.append_assoc, spliceLineG_append repl rest _ _ hs.2 hb']
    rw [hsplit]
    rcases List.mem_cons.1 hm with rfl | hm'
    · have hf : (m :: rest).filter (fun m' => decide (m'.stop < m.start)) = rest := by
        rw [List.filter_cons]
        have : decide (m.stop < m.start) = false := by simp; omega
        simp only [this, Bool.false_eq_true, if_false]
        exact List.filter_eq_self.2 (fun b hb => by simpa using hs.1 b hb)
      have hlen := spliceLineG_length repl rest (line.take m.start) hs.2 hb'
      rw [hlt] at hlen
      rw [hf, ← hlen, Int.toNat_natCast, List.drop_left, List.take_left]
    · have h1 := hs.1 m hm'
      have h2 := hb m (List.mem_cons_of_mem _ hm')
      have hf : (a :: rest).filter (fun m' => decide (m'.stop < m.start)) =
          rest.filter (fun m' => decide (m'.stop < m.start)) := by
        rw [List.filter_cons]
        have : decide (a.stop < m.start) = false := by simp; omega
        simp [this]
      rw [hf]
      exact take_drop_append _ _ _ _ _ (ih _ hs.2 hb' hm') rfl

/-! ### the matches of one line, from the facts about the match list alone -/

theorem lineMatches_sorted_of_facts {ms : List PMatch} (hd : ms.Pairwise Disj)
    (hf : ∀ m ∈ ms, m.start < m.stop) (i : Nat) :
    (lineMatches ms i).Pairwise (fun a b => b.stop < a.start) := by
  have hd' : (sortMatches ms).Pairwise Disj :=
    (sortMatches_perm ms).symm.pairwise hd (fun h => h.symm)
  have hboth : (sortMatches ms).Pairwise (fun a b => mle a b ∧ Disj a b) :=
    List.pairwise_and_iff.2 ⟨sortMatches_sorted ms, hd'⟩
  have := hboth.filter (fun m => m.lineno == i)
  refine List.Pairwise.imp_of_mem ?_ this
  intro a b ha hb ⟨h1, h2⟩
  have ha' := mem_lineMatches.1 ha
  have hb' := mem_lineMatches.1 hb
  have := hf a ha'.1
  have := hf b hb'.1
  unfold mle at h1; unfold Disj at h2
  omega

theorem lineMatches_single_of_facts {ms : List PMatch} (hd : ms.Pairwise Disj)
    (hf : ∀ m ∈ ms, m.start < m.stop) (m : PMatch) (hmem : m ∈ ms)
    (honly : ∀ m' ∈ ms, m'.lineno = m.lineno → m' = m) : lineMatches ms m.lineno = [m] := by
  have hs := lineMatches_sorted_of_facts hd hf m.lineno
  have hin : m ∈ lineMatches ms m.lineno := mem_lineMatches.2 ⟨hmem, rfl⟩
  have hall : ∀ x ∈ lineMatches ms m.lineno, x = m := fun x hx =>
    honly x (mem_lineMatches.1 hx).1 (mem_lineMatches.1 hx).2
  have hlt := hf m hmem
  generalize lineMatches ms m.lineno = L at *
  match L, hs, hin, hall with
  | [], _, hin, _ => cases hin
  | [a], _, _, hall => rw [hall a List.mem_cons_self]
  | a :: b :: rest, hs, _, hall =>
    have ha := hall a List.mem_cons_self
    have hb := hall b (List.mem_cons_of_mem _ List.mem_cons_self)
    have := (List.pairwise_cons.1 hs).1 b List.mem_cons_self
    rw [ha, hb] at this
    omega

namespace RwEngine
variable {V : Type} (E : RwEngine V)

theorem applyMatches_ok (v : V) (ms : List PMatch) (lines new : List Str)
    (h : E.applyMatches v ms lines = .ok new) :
    (∀ m ∈ ms, E.render v m.pat = .ok (E.replOf v m)) ∧
    new.length = lines.length ∧
    ∀ i, new[i]? = (lines[i]?).map (spliceLineG (E.replOf v) (ms.filter (fun m => m.lineno == i))) := by
  induction ms generalizing lines with
  | nil =>
    simp only [applyMatches, Except.ok.injEq] at h
    subst h
    simp [spliceLineG]
  | cons m ms ih =>
    unfold applyMatches at h
    split at h
    · cases h
    · rename_i repl hrepl
      have hr : E.replOf v m = repl := by simp [replOf, hrepl]
      obtain ⟨h1, h2, h3⟩ := ih _ h
      refine ⟨?_, ?_, ?_⟩
      · intro m' hm'
        rcases List.mem_cons.1 hm' with rfl | hm'
        · rw [hr]; exact hrepl
        · exact h1 m' hm'
      · rw [h2, setLine_eq_set, List.length_set]
      · intro i
        rw [h3 i, setLine_eq_set, List.getElem?_set]
        by_cases hi : m.lineno = i
        · subst hi
          simp only [if_true, List.filter_cons, beq_self_eq_true]
          by_cases hlt : m.lineno < lines.length
          · simp [hlt, spliceLineG, hr, List.getD_eq_getElem?_getD]
          · simp [hlt]
        · have : (m.lineno == i) = false := by simpa using hi
          simp [hi, this]

/-! ### `rewriteLines` -/

theorem rewriteLines_ok {pats : List CPat} {v : V} {old new : List Str}
    (h : E.rewriteLines pats v old = .ok new) :
    ∃ ms, E.iterMatches old pats = some ms ∧ E.applyMatches v (sortMatches ms) old = .ok new ∧
      pats.all (fun p => ms.any (fun m => m.pat == p)) = true := by
  unfold rewriteLines at h
  split at h
  · cases h
  · rename_i ms hms
    split at h
    · cases h
    · rename_i nl hnl
      split at h
      · rename_i hall
        cases h
        exact ⟨ms, hms, hnl, hall⟩
      · cases h

theorem rewriteLines_line {pats : List CPat} {v : V} {old new : List Str} {ms : List PMatch}
    (hm : E.iterMatches old pats = some ms) (h : E.rewriteLines pats v old = .ok new) :
    (∀ m ∈ ms, E.render v m.pat = .ok (E.replOf v m)) ∧
    new.length = old.length ∧
    ∀ i, new[i]? = (old[i]?).map (spliceLineG (E.replOf v) (lineMatches ms i)) := by
  obtain ⟨ms', hms', happ, -⟩ := E.rewriteLines_ok h
  rw [hm] at hms'
  cases hms'
  obtain ⟨h1, h2, h3⟩ := E.applyMatches_ok v _ _ _ happ
  exact ⟨fun m hm' => h1 m ((sortMatches_perm ms).mem_iff.2 hm'), h2, h3⟩

theorem lineMatches_sorted {lines : List Str} {pats : List CPat} {ms : List PMatch}
    (hm : E.iterMatches lines pats = some ms) (i : Nat) :
    (lineMatches ms i).Pairwise (fun a b => b.stop < a.start) := by
  obtain ⟨hd, hf⟩ := E.iterMatches_facts lines pats ms hm
  exact lineMatches_sorted_of_facts hd (fun m hmm => (hf m hmm).2.1) i

theorem lineMatches_bounds {lines : List Str} {pats : List CPat} {ms : List PMatch}
    (hm : E.iterMatches lines pats = some ms) (i : Nat) (line : Str) (hl : lines[i]? = some line) :
    ∀ m ∈ lineMatches ms i, m.start ≤ m.stop ∧ m.stop ≤ line.length := by
  intro m hmem
  obtain ⟨h1, h2⟩ := mem_lineMatches.1 hmem
  obtain ⟨-, h3, l, h4, h5⟩ := (E.iterMatches_facts lines pats ms hm).2 m h1
  rw [h2, hl] at h4
  cases h4
  omega

theorem lineMatches_single {lines : List Str} {pats : List CPat} {ms : List PMatch}
    (hm : E.iterMatches lines pats = some ms) (m : PMatch) (hmem : m ∈ ms)
    (honly : ∀ m' ∈ ms, m'.lineno = m.lineno → m' = m) : lineMatches ms m.lineno = [m] := by
  obtain ⟨hd, hf⟩ := E.iterMatches_facts lines pats ms hm
  exact lineMatches_single_of_facts hd (fun m hmm => (hf m hmm).2.1) m hmem honly

/-- EVERY OCCURRENCE, several per line included, for every engine -/
theorem rewriteLines_occ {pats : List CPat} {v : V} {old new : List Str} {ms : List PMatch}
    (hm : E.iterMatches old pats = some ms) (h : E.rewriteLines pats v old = .ok new)
    (m : PMatch) (hmem : m ∈ ms) :
    ∃ newLine, new[m.lineno]? = some newLine ∧
      (newLine.drop (Int.toNat ((m.start : Int) +
          ((ms.filter (fun m' => m'.lineno == m.lineno && decide (m'.stop < m.start))).map
            (growthG (E.replOf v))).sum))).take (E.replOf v m).length = E.replOf v m := by
  obtain ⟨-, -, line, hl, -⟩ := (E.iterMatches_facts old pats ms hm).2 m hmem
  obtain ⟨-, -, h3⟩ := E.rewriteLines_line hm h
  refine ⟨spliceLineG (E.replOf v) (lineMatches ms m.lineno) line, by rw [h3, hl]; rfl, ?_⟩
  have hocc := spliceLineG_occ (E.replOf v) (lineMatches ms m.lineno) line (E.lineMatches_sorted hm _)
    (E.lineMatches_bounds hm _ line hl) m (mem_lineMatches.2 ⟨hmem, rfl⟩)
  have hperm : ((lineMatches ms m.lineno).filter (fun m' => decide (m'.stop < m.start))).Perm
      (ms.filter (fun m' => m'.lineno == m.lineno && decide (m'.stop < m.start))) := by
    unfold lineMatches
    rw [List.filter_filter]
    have := (sortMatches_perm ms).filter
      (fun m' => m'.lineno == m.lineno && decide (m'.stop < m.start))
    refine List.Perm.trans (List.Perm.of_eq ?_) this
    apply List.filter_congr
    intro x _
    exact Bool.and_comm _ _
  rw [sum_map_perm (growthG (E.replOf v)) hperm] at hocc
  exact hocc

/-! ### `planWrites`, `rewriteFiles` -/

theorem planWrites_paths (fs : FS) (v : V) (fps : List (Str × List CPat)) (ws : List (Str × Str))
    (h : E.planWrites fs v fps = .ok ws) : ws.map (·.1) = fps.map (·.1) := by
  induction fps generalizing ws with
  | nil => simp [planWrites] at h; subst h; rfl
  | cons fp rest ih =>
    obtain ⟨path, pats⟩ := fp
    unfold planWrites at h
    split at h
    · cases h
    · split at h
      · cases h
      · split at h
        · cases h
        · rename_i ws' hws'
          cases h
          simp [ih _ hws']

theorem planWrites_error_iff (fs : FS) (v : V) (fps : List (Str × List CPat)) :
    (∃ e, E.planWrites fs v fps = .error e) ↔
      ∃ fp ∈ fps, lookup fp.1 fs = none ∨
        ∃ c e, lookup fp.1 fs = some c ∧ E.rewriteContent fp.2 v c = .error e := by
  induction fps with
  | nil => simp [planWrites]
  | cons fp rest ih =>
    obtain ⟨path, pats⟩ := fp
    unfold planWrites
    cases hl : lookup path fs with
    | none => simp [hl]
    | some content =>
      cases hr : E.rewriteContent pats v content with
      | error e => simp [hl, hr]
      | ok nc =>
        simp only [List.mem_cons, exists_eq_or_imp, hl, hr]
        cases hp : E.planWrites fs v rest with
        | error e =>
          have := ih.1 (hp ▸ ⟨e, rfl⟩)
          simp only [hp] at ih
          simp
          exact .inr (by simpa using this)
        | ok ws =>
          have : ¬ ∃ e, E.planWrites fs v rest = .error e := by simp [hp]
          rw [ih] at this
          constructor
          · rintro ⟨e, he⟩; cases he
          · rintro (h | ⟨fp, hfp, h⟩)
            · rcases h with h | ⟨c, e, hc, he⟩
              · cases h
              · cases hc; rw [hr] at he; cases he
            · exact absurd ⟨fp, hfp, h⟩ this

/-- one step of `planWrites` as a `match` on the file's outcome -/
theorem planWrites_cons (fs : FS) (v : V) (path : Str) (pats : List CPat) (rest : List (Str × List CPat)) :
    E.planWrites fs v ((path, pats) :: rest) =
      match lookup path fs with
      | none => .error .missingFile
      | some content =>
        match E.rewriteContent pats v content with
        | .error e => .error e
        | .ok newContent =>
          match E.planWrites fs v rest with
          | .error e => .error e
          | .ok ws => .ok ((path, newContent) :: ws) := rfl

end RwEngine

/-! ### Model/Rewrite.lean IS the instance at `v2Engine` -/

attribute [local irreducible] compileRe in
theorem v2Engine_compile (p : CPat) : v2Engine.compile p = compileRe p.raw := rfl

attribute [local irreducible] formatVersion normalizePattern in
theorem v2Engine_render (v : VInfo) (p : CPat) :
    v2Engine.render v p = formatVersion v (normalizePattern p.vp p.raw) := rfl

theorem v2Engine_iterMatchesGo (lines : List Str) (pats : List CPat) (seen : List LineSpan) :
    v2Engine.iterMatchesGo lines pats seen = iterMatchesGo lines pats seen := by
  induction pats generalizing seen with
  | nil => rfl
  | cons p ps ih =>
    rw [RwEngine.iterMatchesGo_cons, iterMatchesGo_cons]
    rw [v2Engine_compile]
    generalize compileRe p.raw = o
    cases o with
    | none => rfl
    | some r => simp only [ih]

theorem v2Engine_iterMatches (lines : List Str) (pats : List CPat) :
    v2Engine.iterMatches lines pats = iterMatches lines pats :=
  v2Engine_iterMatchesGo lines pats []

theorem v2Engine_applyMatches (v : VInfo) (ms : List PMatch) (lines : List Str) :
    v2Engine.applyMatches v ms lines = applyMatches v ms lines := by
  induction ms generalizing lines with
  | nil => rfl
  | cons m ms ih =>
    simp only [RwEngine.applyMatches, applyMatches]
    rw [v2Engine_render]
    generalize formatVersion v (normalizePattern m.pat.vp m.pat.raw) = o
    cases o with
    | error e => rfl
    | ok repl => exact ih _

theorem v2Engine_rewriteLines (pats : List CPat) (v : VInfo) (old : List Str) :
    v2Engine.rewriteLines pats v old = rewriteLines pats v old := by
  unfold RwEngine.rewriteLines rewriteLines
  rw [v2Engine_iterMatches]
  cases iterMatches old pats with
  | none => rfl
  | some ms =>
    simp only [v2Engine_applyMatches]
    cases applyMatches v (sortMatches ms) old <;> rfl

theorem v2Engine_rewriteContent (pats : List CPat) (v : VInfo) (content : Str) :
    v2Engine.rewriteContent pats v content = rewriteContent pats v content := by
  unfold RwEngine.rewriteContent rewriteContent
  simp only [v2Engine_rewriteLines]
  cases rewriteLines pats v (splitOn (detectLineSep content) content) <;> rfl

theorem v2Engine_planWrites (fs : FS) (v : VInfo) (fps : List (Str × List CPat)) :
    v2Engine.planWrites fs v fps = planWrites fs v fps := by
  induction fps with
  | nil => rfl
  | cons fp rest ih =>
    obtain ⟨path, pats⟩ := fp
    simp only [RwEngine.planWrites, planWrites, v2Engine_rewriteContent, ih]
    cases lookup path fs with
    | none => rfl
    | some content =>
      simp only []
      cases rewriteContent pats v content with
      | error e => rfl
      | ok nc => simp only []; cases planWrites fs v rest <;> rfl

theorem v2Engine_rewriteFiles (fs : FS) (fps : List (Str × List CPat)) (v : VInfo) :
    v2Engine.rewriteFiles fs fps v = rewriteFiles fs fps v := by
  unfold RwEngine.rewriteFiles rewriteFiles
  rw [v2Engine_planWrites]
  cases planWrites fs v fps <;> rfl

theorem v2Engine_rewriteFilesLazy (v : VInfo) (fs : FS) (fps : List (Str × List CPat)) :
    v2Engine.rewriteFilesLazy v fs fps = rewriteFilesLazy v fs fps := by
  induction fps generalizing fs with
  | nil => rfl
  | cons fp rest ih =>
    obtain ⟨path, pats⟩ := fp
    simp only [RwEngine.rewriteFilesLazy, rewriteFilesLazy, v2Engine_rewriteContent, ih]
    cases lookup path fs with
    | none => rfl
    | some content =>
      simp only []
      cases rewriteContent pats v content <;> rfl

/-- the replacement text of the generic engine at `v2Engine` is `replOfL` of Proofs/RewriteLemmas.lean -/
theorem v2Engine_replOf (v : VInfo) : v2Engine.replOf v = replOfL v := by
  funext m
  simp only [RwEngine.replOf, replOfL, v2Engine_render]
  generalize formatVersion v (normalizePattern m.pat.vp m.pat.raw) = o
  cases o <;> rfl

end BV
