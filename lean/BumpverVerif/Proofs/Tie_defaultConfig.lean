/-
  Proofs/Tie_defaultConfig.lean — the definition GENERATED from the Python source of
  `config.default_config` (Gen/F_defaultConfig.lean) equals the hand model `BV.defaultConfigText`
  for every project directory, every initial version and every project context whose
  `config_format` is the suffix of its config file (`hfmt`: what `_parse_config_and_format` computes,
  `config_filepath.suffix[1:]` — that function is not translated, see harness/TRANSLATE_CONFIG.md).

  * `_initial_version()` (a `strftime` on `utils.now()`) stays a parameter `iv`.
  * The file system is a parameter `fs : ProjFS`; `(ctx.path / name).exists()` is `(fs name).isSome`;
    the hand model sees it through `worldOf fs`.
  * The templates and tables are module constants / literals of the function body: the generated file
    holds them as generated definitions `GenF.defaultConfig.C_<NAME>`; the tie compares them with the
    generated tables `Gen.baseTmplCfg`, `Gen.defaultPatternStrsCfg`, … by kernel evaluation, so the proof
    text does not contain any template text.
  * Errors: `ValueError` for an unknown format, the class of a failing `str.format`
    (`Py.fmtErrClass`) — `InitErr.pyClass`.
-/
import BumpverVerif.Gen.F_defaultConfig
import BumpverVerif.Proofs.Tie_pickConfigFile
set_option linter.unusedSimpArgs false
namespace BV
open TieH
open GenF

/-- the exception class of `default_config`'s two failures -/
def InitErr.pyClass : InitErr → Str
  | .badFormat => "ValueError".toList
  | .fmt e => Py.fmtErrClass e

namespace TieH

theorem InitErr.pyClass_fmt (e : FmtErr) : InitErr.pyClass (.fmt e) = Py.fmtErrClass e := rfl
theorem InitErr.pyClass_badFormat : InitErr.pyClass .badFormat = "ValueError".toList := rfl

theorem foldl_appendExisting (fs : ProjFS) (table : List (Str × Str)) (init : Str) :
    table.foldl (fun st kv => if (fs kv.1).isSome then st ++ kv.2 else st) init
      = init ++ appendExisting (worldOf fs) table := by
  induction table generalizing init with
  | nil => simp [appendExisting]
  | cons a t ih =>
    obtain ⟨f, s⟩ := a
    simp only [List.foldl_cons, appendExisting, exists_worldOf]
    cases (fs f).isSome <;> simp [ih]

theorem format_tmpl_eq (kw : List (Str × Str)) (t t' : Str) (h : t = t') : Py.format kw t = Py.format kw t' := by rw [h]
theorem any_list_eq {α} (p : α → Bool) (l l' : List α) (h : l = l') : l.any p = l'.any p := by rw [h]

theorem append_right_eq (x a a' : Str) (h : a = a') : x ++ a = x ++ a' := by rw [h]

end TieH

theorem tie_defaultConfig (iv : Str) (fs : ProjFS) (ctx : Cfg.ProjectContext)
    (hfmt : ctx.config_format = configFormat ctx.config_filepath) :
    GenF.defaultConfig iv fs ctx =
      (defaultConfigText (worldOf fs) ctx.config_filepath iv).mapError InitErr.pyClass := by
  unfold GenF.defaultConfig defaultConfigText
  rw [← hfmt]
  by_cases hcfg : (ctx.config_format == "cfg".toList) = true
  · have htoml : (ctx.config_format == "toml".toList) = false := by
      rw [beq_iff_eq] at hcfg; rw [hcfg]; decide
    simp only [hcfg, htoml, if_true, Bool.not_true, Bool.false_and, Bool.false_eq_true, if_false,
      exists_worldOf, tagScope_default]
    rw [format_tmpl_eq _ _ Gen.baseTmplCfg (by decide +kernel)]
    unfold Py.format
    rcases pyFormat _ Gen.baseTmplCfg with e | head <;> simp only [Except.mapError, InitErr.pyClass_fmt]
    rw [foldl_list_eq _ _ _ Gen.defaultPatternStrsCfg (by decide +kernel),
      any_list_eq _ _ Gen.supportedConfigs (by decide +kernel),
      append_right_eq (List.foldl _ _ _) _ Gen.fallbackStrCfg (by decide +kernel)]
    simp only [foldl_appendExisting]
    cases Gen.supportedConfigs.any fun f => (fs f).isSome <;> simp
  · by_cases htoml : (ctx.config_format == "toml".toList) = true
    · -- the pyproject test may be written `==` or `!=` (with the branches exchanged)
      by_cases hpy : (ctx.config_filepath == "pyproject.toml".toList) = true
      · simp only [hcfg, htoml, hpy, bne, if_true, Bool.not_true, Bool.not_false, Bool.and_false, Bool.false_eq_true, if_false,
          exists_worldOf, tagScope_default]
        rw [format_tmpl_eq _ _ Gen.baseTmplPyproject (by decide +kernel)]
        unfold Py.format
        rcases pyFormat _ Gen.baseTmplPyproject with e | head <;> simp only [Except.mapError, InitErr.pyClass_fmt]
        rw [foldl_list_eq _ _ _ Gen.defaultPatternStrsToml (by decide +kernel),
          any_list_eq _ _ Gen.supportedConfigs (by decide +kernel),
          append_right_eq (List.foldl _ _ _) _ Gen.fallbackStrToml (by decide +kernel)]
        simp only [foldl_appendExisting]
        cases Gen.supportedConfigs.any fun f => (fs f).isSome <;> simp
      · have hpy' : (ctx.config_filepath == "pyproject.toml".toList) = false := by simpa using hpy
        simp only [hcfg, htoml, hpy', bne, if_true, Bool.not_true, Bool.not_false, Bool.and_false, Bool.false_eq_true, if_false,
          exists_worldOf, tagScope_default]
        rw [format_tmpl_eq _ _ Gen.baseTmplToml (by decide +kernel)]
        unfold Py.format
        rcases pyFormat _ Gen.baseTmplToml with e | head <;> simp only [Except.mapError, InitErr.pyClass_fmt]
        rw [foldl_list_eq _ _ _ Gen.defaultPatternStrsToml (by decide +kernel),
          any_list_eq _ _ Gen.supportedConfigs (by decide +kernel),
          append_right_eq (List.foldl _ _ _) _ Gen.fallbackStrToml (by decide +kernel)]
        simp only [foldl_appendExisting]
        cases Gen.supportedConfigs.any fun f => (fs f).isSome <;> simp
    · simp only [hcfg, htoml, if_true, Bool.not_true, Bool.not_false, Bool.and_true, Bool.and_self, Bool.false_eq_true, if_false,
        Except.mapError, InitErr.pyClass_badFormat]

end BV
