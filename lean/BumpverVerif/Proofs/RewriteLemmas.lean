/-
  Proofs/RewriteLemmas.lean — helper lemmas about Model/Basic.lean string functions
  (`splitOn`, `join`, `replaceAll`) and Model/Rewrite.lean.
-/
import BumpverVerif.Model.Rewrite
import BumpverVerif.Model.Plan
import BumpverVerif.Proofs.PlanLemmas
namespace BV

/-! ### `splitOn` / `join` -/

theorem splitOnF_ne_nil (f : Nat) (sep cur s : Str) : splitOnF f sep cur s ≠ [] := by
  induction f generalizing cur s with
  | zero => simp [splitOnF]
  | succ f ih =>
    cases s with
    | nil => simp [splitOnF]
    | cons c cs =>
      unfold splitOnF
      split
      · simp
      · exact ih _ _

theorem join_cons_of_ne_nil (sep p : Str) {l : List Str} (h : l ≠ []) :
    join sep (p :: l) = p ++ sep ++ join sep l := by
  cases l with
  | nil => exact absurd rfl h
  | cons q qs => rfl

theorem join_splitOnF (sep : Str) (hsep : sep ≠ []) (f : Nat) (cur s : Str) (hf : s.length < f) :
    join sep (splitOnF f sep cur s) = cur.reverse ++ s := by
  induction f generalizing cur s with
  | zero => omega
  | succ f ih =>
    cases s with
    | nil => simp [splitOnF, join]
    | cons c cs =>
      unfold splitOnF
      split
      · rename_i hc
        simp only [Bool.and_eq_true] at hc
        have hpre : sep ++ (c :: cs).drop sep.length = c :: cs :=
          List.prefix_iff_eq_append.1 (List.isPrefixOf_iff_prefix.1 hc.2)
        have hlen : ((c :: cs).drop sep.length).length < f := by
          have h1 : sep.length ≥ 1 := by
            cases sep with
            | nil => exact absurd rfl hsep
            | cons _ _ => simp
          have h2 := congrArg List.length hpre
          simp only [List.length_append] at h2
          omega
        rw [join_cons_of_ne_nil _ _ (splitOnF_ne_nil _ _ _ _), ih _ _ hlen]
        simp only [List.reverse_nil, List.nil_append, List.append_assoc]
        rw [hpre]
      · rw [ih _ _ (by simpa using hf)]
        simp

/-! ### `FS.write`, `planWrites` -/

theorem lookup_write (fs : FS) (path content q : Str) :
    lookup q (FS.write fs path content) = if q = path then some content else lookup q fs := by
  induction fs with
  | nil => simp [FS.write, lookup]
  | cons pc rest ih =>
    obtain ⟨p, c⟩ := pc
    unfold FS.write
    split
    · rename_i hp
      have hp' : p = path := by simpa using hp
      subst hp'
      simp only [lookup]
      split <;> rfl
    · rename_i hp
      have hp' : p ≠ path := by simpa using hp
      simp only [lookup, ih]
      by_cases hq : q = p
      · subst hq; simp [hp']
      · simp [hq]

theorem lookup_foldl_write (ws : List (Str × Str)) (fs : FS) (q : Str)
    (h : ∀ w ∈ ws, w.1 ≠ q) :
    lookup q (ws.foldl (fun acc w => FS.write acc w.1 w.2) fs) = lookup q fs := by
  induction ws generalizing fs with
  | nil => rfl
  | cons w ws ih =>
    simp only [List.foldl_cons]
    rw [ih _ (fun w' hw' => h w' (List.mem_cons_of_mem _ hw')), lookup_write]
    have := h w (List.mem_cons_self)
    simp [Ne.symm this]

theorem planWrites_paths (fs : FS) (v : VInfo) (fps : List (Str × List CPat)) (ws : List (Str × Str))
    (h : planWrites fs v fps = .ok ws) : ws.map (·.1) = fps.map (·.1) := by
  induction fps generalizing ws with
  | nil => simp [planWrites] at h; subst h; rfl
  | cons fp rest ih =>
    obtain ⟨path, pats⟩ := fp
    unfold planWrites at h
    split at h
    · cases h
    · split at h
      · cases h
      · split at h
        · cases h
        · rename_i ws' hws'
          cases h
          simp [ih _ hws']

theorem planWrites_error_iff (fs : FS) (v : VInfo) (fps : List (Str × List CPat)) :
    (∃ e, planWrites fs v fps = .error e) ↔
      ∃ fp ∈ fps, lookup fp.1 fs = none ∨
        ∃ c e, lookup fp.1 fs = some c ∧ rewriteContent fp.2 v c = .error e := by
  induction fps with
  | nil => simp [planWrites]
  | cons fp rest ih =>
    obtain ⟨path, pats⟩ := fp
    unfold planWrites
    cases hl : lookup path fs with
    | none => simp [hl]
    | some content =>
      cases hr : rewriteContent pats v content with
      | error e => simp [hl, hr]
      | ok nc =>
        simp only [List.mem_cons, exists_eq_or_imp, hl, hr]
        cases hp : planWrites fs v rest with
        | error e =>
          have := ih.1 (hp ▸ ⟨e, rfl⟩)
          simp only [hp] at ih
          simp
          exact .inr (by simpa using this)
        | ok ws =>
          have : ¬ ∃ e, planWrites fs v rest = .error e := by simp [hp]
          rw [ih] at this
          constructor
          · rintro ⟨e, he⟩; cases he
          · rintro (h | ⟨fp, hfp, h⟩)
            · rcases h with h | ⟨c, e, hc, he⟩
              · cases h
              · cases hc; rw [hr] at he; cases he
            · exact absurd ⟨fp, hfp, h⟩ this

/-! ### `setLine`, `sortMatches`, `applyMatches` -/

theorem setLine_eq_set (ls : List Str) (n : Nat) (s : Str) : setLine ls n s = ls.set n s := by
  induction ls generalizing n with
  | nil => rfl
  | cons l ls ih => cases n <;> simp [setLine, ih]

/-- the text a match is replaced with (`[]` when rendering fails; then `applyMatches` fails) -/
def replOfL (v : VInfo) (m : PMatch) : Str :=
  match formatVersion v (normalizePattern m.pat.vp m.pat.raw) with
  | .ok s => s
  | .error _ => []

/-- what `applyMatches` does to ONE line: the matches of that line, in list order -/
def spliceLine (v : VInfo) : List PMatch → Str → Str
  | [], cur => cur
  | m :: ms, cur => spliceLine v ms (cur.take m.start ++ replOfL v m ++ cur.drop m.stop)

theorem applyMatches_ok (v : VInfo) (ms : List PMatch) (lines new : List Str)
    (h : applyMatches v ms lines = .ok new) :
    (∀ m ∈ ms, formatVersion v (normalizePattern m.pat.vp m.pat.raw) = .ok (replOfL v m)) ∧
    new.length = lines.length ∧
    ∀ i, new[i]? = (lines[i]?).map (spliceLine v (ms.filter (fun m => m.lineno == i))) := by
  induction ms generalizing lines with
  | nil =>
    simp only [applyMatches, Except.ok.injEq] at h
    subst h
    simp [spliceLine]
  | cons m ms ih =>
    unfold applyMatches at h
    split at h
    · cases h
    · rename_i repl hrepl
      have hr : replOfL v m = repl := by simp [replOfL, hrepl]
      obtain ⟨h1, h2, h3⟩ := ih _ h
      refine ⟨?_, ?_, ?_⟩
      · intro m' hm'
        rcases List.mem_cons.1 hm' with rfl | hm'
        · rw [hr]; exact hrepl
        · exact h1 m' hm'
      · rw [h2, setLine_eq_set, List.length_set]
      · intro i
        rw [h3 i, setLine_eq_set, List.getElem?_set]
        by_cases hi : m.lineno = i
        · subst hi
          simp only [if_true, List.filter_cons, beq_self_eq_true]
          by_cases hlt : m.lineno < lines.length
          · simp [hlt, spliceLine, hr, List.getD_eq_getElem?_getD]
          · simp [hlt]
        · have : (m.lineno == i) = false := by simpa using hi
          simp [hi, this]

def mle (a b : PMatch) : Prop := a.lineno < b.lineno ∨ (a.lineno = b.lineno ∧ b.start ≤ a.start)

theorem mle_trans {a b c : PMatch} (h1 : mle a b) (h2 : mle b c) : mle a c := by
  unfold mle at *; omega

theorem insertMatch_perm (x : PMatch) (ys : List PMatch) : (insertMatch x ys).Perm (x :: ys) := by
  induction ys with
  | nil => exact .refl _
  | cons y ys ih =>
    unfold insertMatch
    split
    · exact .refl _
    · exact (List.Perm.cons y ih).trans (List.Perm.swap x y ys)

theorem sortMatches_perm (ms : List PMatch) : (sortMatches ms).Perm ms := by
  induction ms with
  | nil => exact .refl _
  | cons m ms ih =>
    show (insertMatch m (sortMatches ms)).Perm (m :: ms)
    exact (insertMatch_perm _ _).trans (List.Perm.cons m ih)

theorem insertMatch_sorted (x : PMatch) (ys : List PMatch) (h : ys.Pairwise mle) :
    (insertMatch x ys).Pairwise mle := by
  induction ys with
  | nil => simp [insertMatch]
  | cons y ys ih =>
    rw [List.pairwise_cons] at h
    unfold insertMatch
    split
    · rename_i hc
      have hxy : mle x y := by
        simp only [Bool.or_eq_true, decide_eq_true_eq, Bool.and_eq_true, beq_iff_eq] at hc
        unfold mle; omega
      rw [List.pairwise_cons]
      refine ⟨fun z hz => ?_, List.pairwise_cons.2 h⟩
      rcases List.mem_cons.1 hz with rfl | hz
      · exact hxy
      · exact mle_trans hxy (h.1 z hz)
    · rename_i hc
      have hyx : mle y x := by
        simp only [Bool.or_eq_true, decide_eq_true_eq, Bool.and_eq_true, beq_iff_eq] at hc
        unfold mle; omega
      rw [List.pairwise_cons]
      refine ⟨fun z hz => ?_, ih h.2⟩
      rcases List.mem_cons.1 ((insertMatch_perm x ys).mem_iff.1 hz) with rfl | hz
      · exact hyx
      · exact h.1 z hz

theorem sortMatches_sorted (ms : List PMatch) : (sortMatches ms).Pairwise mle := by
  induction ms with
  | nil => simp [sortMatches]
  | cons m ms ih => exact insertMatch_sorted m _ ih

/-! ### several matches on one line -/

/-- growth of the line caused by replacing `m` -/
def growth (v : VInfo) (m : PMatch) : Int := ((replOfL v m).length : Int) - ((m.stop : Int) - (m.start : Int))

theorem spliceLine_append (v : VInfo) (L : List PMatch) (p q : Str)
    (hs : L.Pairwise (fun a b => b.stop < a.start))
    (hb : ∀ m ∈ L, m.start ≤ m.stop ∧ m.stop ≤ p.length) :
    spliceLine v L (p ++ q) = spliceLine v L p ++ q := by
  induction L generalizing p with
  | nil => rfl
  | cons m L ih =>
    rw [List.pairwise_cons] at hs
    have hm := hb m List.mem_cons_self
    simp only [spliceLine]
    rw [List.take_append_of_le_length (by omega), List.drop_append_of_le_length (by omega),
      ← List.append_assoc]
    apply ih _ hs.2
    intro m' hm'
    have h1 := hs.1 m' hm'
    have h2 := hb m' (List.mem_cons_of_mem _ hm')
    simp only [List.length_append, List.length_take, List.length_drop]
    omega

theorem spliceLine_length (v : VInfo) (L : List PMatch) (line : Str)
    (hs : L.Pairwise (fun a b => b.stop < a.start))
    (hb : ∀ m ∈ L, m.start ≤ m.stop ∧ m.stop ≤ line.length) :
    ((spliceLine v L line).length : Int) = (line.length : Int) + (L.map (growth v)).sum := by
  induction L generalizing line with
  | nil => simp [spliceLine]
  | cons m L ih =>
    rw [List.pairwise_cons] at hs
    have hm := hb m List.mem_cons_self
    simp only [spliceLine, List.map_cons, List.sum_cons]
    rw [ih _ hs.2]
    · simp only [List.length_append, List.length_take, List.length_drop, growth]
      omega
    · intro m' hm'
      have h1 := hs.1 m' hm'
      have h2 := hb m' (List.mem_cons_of_mem _ hm')
      simp only [List.length_append, List.length_take, List.length_drop]
      omega

theorem take_drop_append {α} (X Y r : List α) (k n : Nat) (h : (X.drop k).take n = r)
    (hn : r.length = n) : ((X ++ Y).drop k).take n = r := by
  have hl := congrArg List.length h
  simp only [List.length_take, List.length_drop] at hl
  rw [List.drop_append, List.take_append]
  have : n - (X.drop k).length = 0 := by simp only [List.length_drop]; omega
  rw [this, h]; simp

theorem spliceLine_occ (v : VInfo) (L : List PMatch) (line : Str)
    (hs : L.Pairwise (fun a b => b.stop < a.start))
    (hb : ∀ m ∈ L, m.start ≤ m.stop ∧ m.stop ≤ line.length)
    (m : PMatch) (hm : m ∈ L) :
    ((spliceLine v L line).drop
        (Int.toNat ((m.start : Int) +
          ((L.filter (fun m' => decide (m'.stop < m.start))).map (growth v)).sum))).take
      (replOfL v m).length = replOfL v m := by
  induction L generalizing line with
  | nil => cases hm
  | cons a rest ih =>
    rw [List.pairwise_cons] at hs
    have ha := hb a List.mem_cons_self
    have hlt : (line.take a.start).length = a.start := by simp only [List.length_take]; omega
    have hb' : ∀ m' ∈ rest, m'.start ≤ m'.stop ∧ m'.stop ≤ (line.take a.start).length := by
      intro m' hm'
      have h1 := hs.1 m' hm'
      have h2 := hb m' (List.mem_cons_of_mem _ hm')
      omega
    have hsplit : spliceLine v (a :: rest) line =
        spliceLine v rest (line.take a.start) ++ (replOfL v a ++ line.drop a.stop) := by
      simp only [spliceLine]
      rw [List.append_assoc, spliceLine_append v rest _ _ hs.2 hb']
    rw [hsplit]
    rcases List.mem_cons.1 hm with rfl | hm'
    · have hf : (m :: rest).filter (fun m' => decide (m'.stop < m.start)) = rest := by
        rw [List.filter_cons]
        have : decide (m.stop < m.start) = false := by simp; omega
        simp only [this, Bool.false_eq_true, if_false]
        exact List.filter_eq_self.2 (fun b hb => by simpa using hs.1 b hb)
      have hlen := spliceLine_length v rest (line.take m.start) hs.2 hb'
      rw [hlt] at hlen
      rw [hf, ← hlen, Int.toNat_natCast, List.drop_left, List.take_left]
    · have h1 := hs.1 m hm'
      have h2 := hb m (List.mem_cons_of_mem _ hm')
      have hf : (a :: rest).filter (fun m' => decide (m'.stop < m.start)) =
          rest.filter (fun m' => decide (m'.stop < m.start)) := by
        rw [List.filter_cons]
        have : decide (a.stop < m.start) = false := by simp; omega
        simp [this]
      rw [hf]
      exact take_drop_append _ _ _ _ _ (ih _ hs.2 hb' hm') rfl

end BV
