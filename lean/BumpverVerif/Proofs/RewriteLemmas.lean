/-
  Proofs/RewriteLemmas.lean — helper lemmas about Model/Basic.lean string functions
  (`splitOn`, `join`, `replaceAll`) and Model/Rewrite.lean.
-/
import BumpverVerif.Model.Rewrite
namespace BV

end BV
