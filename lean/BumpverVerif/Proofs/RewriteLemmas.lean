/-
  Proofs/RewriteLemmas.lean — helper lemmas about Model/Basic.lean string functions
  (`splitOn`, `join`, `replaceAll`) and Model/Rewrite.lean.
-/
import BumpverVerif.Model.Rewrite
import BumpverVerif.Model.Plan
import BumpverVerif.Proofs.PlanLemmas
namespace BV

/-! ### `splitOn` / `join` -/

theorem splitOnF_ne_nil (f : Nat) (sep cur s : Str) : splitOnF f sep cur s ≠ [] := by
  induction f generalizing cur s with
  | zero => simp [splitOnF]
  | succ f ih =>
    cases s with
    | nil => simp [splitOnF]
    | cons c cs =>
      unfold splitOnF
      split
      · simp
      · exact ih _ _

theorem join_cons_of_ne_nil (sep p : Str) {l : List Str} (h : l ≠ []) :
    join sep (p :: l) = p ++ sep ++ join sep l := by
  cases l with
  | nil => exact absurd rfl h
  | cons q qs => rfl

theorem join_splitOnF (sep : Str) (hsep : sep ≠ []) (f : Nat) (cur s : Str) (hf : s.length < f) :
    join sep (splitOnF f sep cur s) = cur.reverse ++ s := by
  induction f generalizing cur s with
  | zero => omega
  | succ f ih =>
    cases s with
    | nil => simp [splitOnF, join]
    | cons c cs =>
      unfold splitOnF
      split
      · rename_i hc
        simp only [Bool.and_eq_true] at hc
        have hpre : sep ++ (c :: cs).drop sep.length = c :: cs :=
          List.prefix_iff_eq_append.1 (List.isPrefixOf_iff_prefix.1 hc.2)
        have hlen : ((c :: cs).drop sep.length).length < f := by
          have h1 : sep.length ≥ 1 := by
            cases sep with
            | nil => exact absurd rfl hsep
            | cons _ _ => simp
          have h2 := congrArg List.length hpre
          simp only [List.length_append] at h2
          omega
        rw [join_cons_of_ne_nil _ _ (splitOnF_ne_nil _ _ _ _), ih _ _ hlen]
        simp only [List.reverse_nil, List.nil_append, List.append_assoc]
        rw [hpre]
      · rw [ih _ _ (by simpa using hf)]
        simp

/-! ### `FS.write`, `planWrites` -/

theorem lookup_write (fs : FS) (path content q : Str) :
    lookup q (FS.write fs path content) = if q = path then some content else lookup q fs := by
  induction fs with
  | nil => simp [FS.write, lookup]
  | cons pc rest ih =>
    obtain ⟨p, c⟩ := pc
    unfold FS.write
    split
    · rename_i hp
      have hp' : p = path := by simpa using hp
      subst hp'
      simp only [lookup]
      split <;> rfl
    · rename_i hp
      have hp' : p ≠ path := by simpa using hp
      simp only [lookup, ih]
      by_cases hq : q = p
      · subst hq; simp [hp']
      · simp [hq]

theorem lookup_foldl_write (ws : List (Str × Str)) (fs : FS) (q : Str)
    (h : ∀ w ∈ ws, w.1 ≠ q) :
    lookup q (ws.foldl (fun acc w => FS.write acc w.1 w.2) fs) = lookup q fs := by
  induction ws generalizing fs with
  | nil => rfl
  | cons w ws ih =>
    simp only [List.foldl_cons]
    rw [ih _ (fun w' hw' => h w' (List.mem_cons_of_mem _ hw')), lookup_write]
    have := h w (List.mem_cons_self)
    simp [Ne.symm this]

theorem planWrites_paths (fs : FS) (v : VInfo) (fps : List (Str × List CPat)) (ws : List (Str × Str))
    (h : planWrites fs v fps = .ok ws) : ws.map (·.1) = fps.map (·.1) := by
  induction fps generalizing ws with
  | nil => simp [planWrites] at h; subst h; rfl
  | cons fp rest ih =>
    obtain ⟨path, pats⟩ := fp
    unfold planWrites at h
    split at h
    · cases h
    · split at h
      · cases h
      · split at h
        · cases h
        · rename_i ws' hws'
          cases h
          simp [ih _ hws']

theorem planWrites_error_iff (fs : FS) (v : VInfo) (fps : List (Str × List CPat)) :
    (∃ e, planWrites fs v fps = .error e) ↔
      ∃ fp ∈ fps, lookup fp.1 fs = none ∨
        ∃ c e, lookup fp.1 fs = some c ∧ rewriteContent fp.2 v c = .error e := by
  induction fps with
  | nil => simp [planWrites]
  | cons fp rest ih =>
    obtain ⟨path, pats⟩ := fp
    unfold planWrites
    cases hl : lookup path fs with
    | none => simp [hl]
    | some content =>
      cases hr : rewriteContent pats v content with
      | error e => simp [hl, hr]
      | ok nc =>
        simp only [List.mem_cons, exists_eq_or_imp, hl, hr]
        cases hp : planWrites fs v rest with
        | error e =>
          have := ih.1 (hp ▸ ⟨e, rfl⟩)
          simp only [hp] at ih
          simp
          exact .inr (by simpa using this)
        | ok ws =>
          have : ¬ ∃ e, planWrites fs v rest = .error e := by simp [hp]
          rw [ih] at this
          constructor
          · rintro ⟨e, he⟩; cases he
          · rintro (h | ⟨fp, hfp, h⟩)
            · rcases h with h | ⟨c, e, hc, he⟩
              · cases h
              · cases hc; rw [hr] at he; cases he
            · exact absurd ⟨fp, hfp, h⟩ this

/-! ### `setLine`, `sortMatches`, `applyMatches` -/

theorem setLine_eq_set (ls : List Str) (n : Nat) (s : Str) : setLine ls n s = ls.set n s := by
  induction ls generalizing n with
  | nil => rfl
  | cons l ls ih => cases n <;> simp [setLine, ih]

/-- the text a match is replaced with (`[]` when rendering fails; then `applyMatches` fails) -/
def replOfL (v : VInfo) (m : PMatch) : Str :=
  match formatVersion v (normalizePattern m.pat.vp m.pat.raw) with
  | .ok s => s
  | .error _ => []

/-- what `applyMatches` does to ONE line: the matches of that line, in list order -/
def spliceLine (v : VInfo) : List PMatch → Str → Str
  | [], cur => cur
  | m :: ms, cur => spliceLine v ms (cur.take m.start ++ replOfL v m ++ cur.drop m.stop)

theorem applyMatches_ok (v : VInfo) (ms : List PMatch) (lines new : List Str)
    (h : applyMatches v ms lines = .ok new) :
    (∀ m ∈ ms, formatVersion v (normalizePattern m.pat.vp m.pat.raw) = .ok (replOfL v m)) ∧
    new.length = lines.length ∧
    ∀ i, new[i]? = (lines[i]?).map (spliceLine v (ms.filter (fun m => m.lineno == i))) := by
  induction ms generalizing lines with
  | nil =>
    simp only [applyMatches, Except.ok.injEq] at h
    subst h
    simp [spliceLine]
  | cons m ms ih =>
    unfold applyMatches at h
    split at h
    · cases h
    · rename_i repl hrepl
      have hr : replOfL v m = repl := by simp [replOfL, hrepl]
      obtain ⟨h1, h2, h3⟩ := ih _ h
      refine ⟨?_, ?_, ?_⟩
      · intro m' hm'
        rcases List.mem_cons.1 hm' with rfl | hm'
        · rw [hr]; exact hrepl
        · exact h1 m' hm'
      · rw [h2, setLine_eq_set, List.length_set]
      · intro i
        rw [h3 i, setLine_eq_set, List.getElem?_set]
        by_cases hi : m.lineno = i
        · subst hi
          simp only [if_true, List.filter_cons, beq_self_eq_true]
          by_cases hlt : m.lineno < lines.length
          · simp [hlt, spliceLine, hr, List.getD_eq_getElem?_getD]
          · simp [hlt]
        · have : (m.lineno == i) = false := by simpa using hi
          simp [hi, this]

def mle (a b : PMatch) : Prop := a.lineno < b.lineno ∨ (a.lineno = b.lineno ∧ b.start ≤ a.start)

theorem mle_trans {a b c : PMatch} (h1 : mle a b) (h2 : mle b c) : mle a c := by
  unfold mle at *; omega

theorem insertMatch_perm (x : PMatch) (ys : List PMatch) : (insertMatch x ys).Perm (x :: ys) := by
  induction ys with
  | nil => exact .refl _
  | cons y ys ih =>
    unfold insertMatch
    split
    · exact .refl _
    · exact (List.Perm.cons y ih).trans (List.Perm.swap x y ys)

theorem sortMatches_perm (ms : List PMatch) : (sortMatches ms).Perm ms := by
  induction ms with
  | nil => exact .refl _
  | cons m ms ih =>
    show (insertMatch m (sortMatches ms)).Perm (m :: ms)
    exact (insertMatch_perm _ _).trans (List.Perm.cons m ih)

theorem insertMatch_sorted (x : PMatch) (ys : List PMatch) (h : ys.Pairwise mle) :
    (insertMatch x ys).Pairwise mle := by
  induction ys with
  | nil => simp [insertMatch]
  | cons y ys ih =>
    rw [List.pairwise_cons] at h
    unfold insertMatch
    split
    · rename_i hc
      have hxy : mle x y := by
        simp only [Bool.or_eq_true, decide_eq_true_eq, Bool.and_eq_true, beq_iff_eq] at hc
        unfold mle; omega
      rw [List.pairwise_cons]
      refine ⟨fun z hz => ?_, List.pairwise_cons.2 h⟩
      rcases List.mem_cons.1 hz with rfl | hz
      · exact hxy
      · exact mle_trans hxy (h.1 z hz)
    · rename_i hc
      have hyx : mle y x := by
        simp only [Bool.or_eq_true, decide_eq_true_eq, Bool.and_eq_true, beq_iff_eq] at hc
        unfold mle; omega
      rw [List.pairwise_cons]
      refine ⟨fun z hz => ?_, ih h.2⟩
      rcases List.mem_cons.1 ((insertMatch_perm x ys).mem_iff.1 hz) with rfl | hz
      · exact hyx
      · exact h.1 z hz

theorem sortMatches_sorted (ms : List PMatch) : (sortMatches ms).Pairwise mle := by
  induction ms with
  | nil => simp [sortMatches]
  | cons m ms ih => exact insertMatch_sorted m _ ih

/-! ### several matches on one line -/

/-- growth of the line caused by replacing `m` -/
def growth (v : VInfo) (m : PMatch) : Int := ((replOfL v m).length : Int) - ((m.stop : Int) - (m.start : Int))

theorem spliceLine_append (v : VInfo) (L : List PMatch) (p q : Str)
    (hs : L.Pairwise (fun a b => b.stop < a.start))
    (hb : ∀ m ∈ L, m.start ≤ m.stop ∧ m.stop ≤ p.length) :
    spliceLine v L (p ++ q) = spliceLine v L p ++ q := by
  induction L generalizing p with
  | nil => rfl
  | cons m L ih =>
    rw [List.pairwise_cons] at hs
    have hm := hb m List.mem_cons_self
    simp only [spliceLine]
    rw [List.take_append_of_le_length (by omega), List.drop_append_of_le_length (by omega),
      ← List.append_assoc]
    apply ih _ hs.2
    intro m' hm'
    have h1 := hs.1 m' hm'
    have h2 := hb m' (List.mem_cons_of_mem _ hm')
    simp only [List.length_append, List.length_take, List.length_drop]
    omega

theorem spliceLine_length (v : VInfo) (L : List PMatch) (line : Str)
    (hs : L.Pairwise (fun a b => b.stop < a.start))
    (hb : ∀ m ∈ L, m.start ≤ m.stop ∧ m.stop ≤ line.length) :
    ((spliceLine v L line).length : Int) = (line.length : Int) + (L.map (growth v)).sum := by
  induction L generalizing line with
  | nil => simp [spliceLine]
  | cons m L ih =>
    rw [List.pairwise_cons] at hs
    have hm := hb m List.mem_cons_self
    simp only [spliceLine, List.map_cons, List.sum_cons]
    rw [ih _ hs.2]
    · simp only [List.length_append, List.length_take, List.length_drop, growth]
      omega
    · intro m' hm'
      have h1 := hs.1 m' hm'
      have h2 := hb m' (List.mem_cons_of_mem _ hm')
      simp only [List.length_append, List.length_take, List.length_drop]
      omega

theorem take_drop_append {α} (X Y r : List α) (k n : Nat) (h : (X.drop k).take n = r)
    (hn : r.length = n) : ((X ++ Y).drop k).take n = r := by
  have hl := congrArg List.length h
  simp only [List.length_take, List.length_drop] at hl
  rw [List.drop_append, List.take_append]
  have : n - (X.drop k).length = 0 := by simp only [List.length_drop]; omega
  rw [this, h]; simp

theorem spliceLine_occ (v : VInfo) (L : List PMatch) (line : Str)
    (hs : L.Pairwise (fun a b => b.stop < a.start))
    (hb : ∀ m ∈ L, m.start ≤ m.stop ∧ m.stop ≤ line.length)
    (m : PMatch) (hm : m ∈ L) :
    ((spliceLine v L line).drop
        (Int.toNat ((m.start : Int) +
          ((L.filter (fun m' => decide (m'.stop < m.start))).map (growth v)).sum))).take
      (replOfL v m).length = replOfL v m := by
  induction L generalizing line with
  | nil => cases hm
  | cons a rest ih =>
    rw [List.pairwise_cons] at hs
    have ha := hb a List.mem_cons_self
    have hlt : (line.take a.start).length = a.start := by simp only [List.length_take]; omega
    have hb' : ∀ m' ∈ rest, m'.start ≤ m'.stop ∧ m'.stop ≤ (line.take a.start).length := by
      intro m' hm'
      have h1 := hs.1 m' hm'
      have h2 := hb m' (List.mem_cons_of_mem _ hm')
      omega
    have hsplit : spliceLine v (a :: rest) line =
        spliceLine v rest (line.take a.start) ++ (replOfL v a ++ line.drop a.stop) := by
      simp only [spliceLine]
      rw [List.append_assoc, spliceLine_append v rest _ _ hs.2 hb']
    rw [hsplit]
    rcases List.mem_cons.1 hm with rfl | hm'
    · have hf : (m :: rest).filter (fun m' => decide (m'.stop < m.start)) = rest := by
        rw [List.filter_cons]
        have : decide (m.stop < m.start) = false := by simp; omega
        simp only [this, Bool.false_eq_true, if_false]
        exact List.filter_eq_self.2 (fun b hb => by simpa using hs.1 b hb)
      have hlen := spliceLine_length v rest (line.take m.start) hs.2 hb'
      rw [hlt] at hlen
      rw [hf, ← hlen, Int.toNat_natCast, List.drop_left, List.take_left]
    · have h1 := hs.1 m hm'
      have h2 := hb m (List.mem_cons_of_mem _ hm')
      have hf : (a :: rest).filter (fun m' => decide (m'.stop < m.start)) =
          rest.filter (fun m' => decide (m'.stop < m.start)) := by
        rw [List.filter_cons]
        have : decide (a.stop < m.start) = false := by simp; omega
        simp [this]
      rw [hf]
      exact take_drop_append _ _ _ _ _ (ih _ hs.2 hb' hm') rfl

/-! ### `iterMatches` -/

/-- span `s` neither overlaps nor touches match `m` -/
def NoOv (s : LineSpan) (m : PMatch) : Prop :=
  s.lineno ≠ m.lineno ∨ s.stop < m.start ∨ m.stop < s.start

/-- two matches neither overlap nor touch -/
def Disj (a b : PMatch) : Prop := a.lineno ≠ b.lineno ∨ a.stop < b.start ∨ b.stop < a.start

theorem Disj.symm {a b : PMatch} (h : Disj a b) : Disj b a := by unfold Disj at *; omega

theorem hasOverlap_false_iff (m : PMatch) (seen : List LineSpan) :
    hasOverlap m.span seen = false ↔ ∀ s ∈ seen, NoOv s m := by
  unfold hasOverlap
  rw [List.any_eq_false]
  constructor
  · intro h s hs
    have := h s hs
    simp [PMatch.span] at this
    unfold NoOv
    by_cases h1 : s.lineno = m.lineno
    · by_cases h2 : m.start ≤ s.stop
      · have := this h1 (decide_eq_true h2); omega
      · omega
    · exact .inl h1
  · intro h s hs
    have := h s hs
    simp [PMatch.span]
    intro h1 h2
    have h2' := of_decide_eq_true h2
    unfold NoOv at this; omega

/-- the matches of one pattern that survive the `seen` filter -/
def keptOf : List LineSpan → List PMatch → List PMatch
  | _, [] => []
  | seen, m :: l => (if hasOverlap m.span seen then [] else [m]) ++ keptOf (seen ++ [m.span]) l

theorem foldl_kept (l : List PMatch) (k : List PMatch) (seen : List LineSpan) :
    l.foldl (fun (acc : List PMatch × List LineSpan) m =>
        (if hasOverlap m.span acc.2 then acc.1 else acc.1 ++ [m], acc.2 ++ [m.span])) (k, seen)
      = (k ++ keptOf seen l, seen ++ l.map PMatch.span) := by
  induction l generalizing k seen with
  | nil => simp [keptOf]
  | cons m l ih =>
    simp only [List.foldl_cons, ih, keptOf]
    split <;> simp

/-- one unfolding step of `iterMatchesGo`, with the recursive call abstracted (the equation
    lemmas of `iterMatchesGo` cannot be generated: `whnf` runs into `compileRe`) -/
def iterBody (lines : List Str) (p : CPat) (seen : List LineSpan)
    (rec : List LineSpan → Option (List PMatch)) (o : Option Re) : Option (List PMatch) :=
  match o with
  | none => none
  | some r =>
    let ms := iterForPatternGo r p 0 lines
    let ks := ms.foldl (fun (acc : List PMatch × List LineSpan) m =>
      (if hasOverlap m.span acc.2 then acc.1 else acc.1 ++ [m], acc.2 ++ [m.span])) ([], seen)
    (rec ks.2).map (ks.1 ++ ·)

theorem iterMatchesGo_nil (lines : List Str) (seen : List LineSpan) :
    iterMatchesGo lines [] seen = some [] := rfl

attribute [local irreducible] compileRe in
theorem iterMatchesGo_cons_body (lines : List Str) (p : CPat) (ps : List CPat)
    (seen : List LineSpan) :
    iterMatchesGo lines (p :: ps) seen =
      iterBody lines p seen (iterMatchesGo lines ps) (compileRe p.raw) := rfl

theorem iterMatchesGo_cons (lines : List Str) (p : CPat) (ps : List CPat) (seen : List LineSpan) :
    iterMatchesGo lines (p :: ps) seen =
      match compileRe p.raw with
      | none => none
      | some r =>
        (iterMatchesGo lines ps (seen ++ (iterForPatternGo r p 0 lines).map PMatch.span)).map
          (keptOf seen (iterForPatternGo r p 0 lines) ++ ·) := by
  rw [iterMatchesGo_cons_body]
  generalize compileRe p.raw = o
  cases o with
  | none => rfl
  | some r => simp only [iterBody, foldl_kept, List.nil_append]

theorem mem_keptOf {seen : List LineSpan} {l : List PMatch} {m : PMatch} (h : m ∈ keptOf seen l) :
    m ∈ l ∧ ∀ s ∈ seen, NoOv s m := by
  induction l generalizing seen with
  | nil => cases h
  | cons x l ih =>
    simp only [keptOf, List.mem_append] at h
    rcases h with h | h
    · split at h
      · cases h
      · rename_i hov
        simp only [List.mem_singleton] at h
        subst h
        exact ⟨List.mem_cons_self, (hasOverlap_false_iff _ _).1 (by simpa using hov)⟩
    · obtain ⟨h1, h2⟩ := ih h
      exact ⟨List.mem_cons_of_mem _ h1, fun s hs => h2 s (List.mem_append_left _ hs)⟩

theorem keptOf_pairwise (seen : List LineSpan) (l : List PMatch) : (keptOf seen l).Pairwise Disj := by
  induction l generalizing seen with
  | nil => simp [keptOf]
  | cons x l ih =>
    simp only [keptOf]
    rw [List.pairwise_append]
    refine ⟨by split <;> simp, ih _, fun a ha b hb => ?_⟩
    split at ha
    · cases ha
    · simp only [List.mem_singleton] at ha
      subst ha
      have := (mem_keptOf hb).2 a.span (by simp)
      simpa [NoOv, Disj, PMatch.span] using this

theorem iterMatchesGo_inv (lines : List Str) (pats : List CPat) (seen : List LineSpan)
    (ms : List PMatch) (h : iterMatchesGo lines pats seen = some ms) :
    ms.Pairwise Disj ∧ ∀ m ∈ ms, (∀ s ∈ seen, NoOv s m) ∧
      ∃ p ∈ pats, ∃ r, compileRe p.raw = some r ∧ m ∈ iterForPatternGo r p 0 lines := by
  induction pats generalizing seen ms with
  | nil =>
    simp only [iterMatchesGo_nil, Option.some.injEq] at h
    subst h
    simp
  | cons p ps ih =>
    rw [iterMatchesGo_cons] at h
    split at h
    · cases h
    · rename_i r hr
      obtain ⟨rest, hrest, rfl⟩ := Option.map_eq_some_iff.1 h
      obtain ⟨ih1, ih2⟩ := ih _ _ hrest
      refine ⟨?_, ?_⟩
      · rw [List.pairwise_append]
        refine ⟨keptOf_pairwise _ _, ih1, fun a ha b hb => ?_⟩
        have hal := (mem_keptOf ha).1
        have := (ih2 b hb).1 a.span
          (List.mem_append_right _ (List.mem_map.2 ⟨a, hal, rfl⟩))
        simpa [NoOv, Disj, PMatch.span] using this
      · intro m hm
        rcases List.mem_append.1 hm with hm | hm
        · exact ⟨(mem_keptOf hm).2, p, List.mem_cons_self, r, hr, (mem_keptOf hm).1⟩
        · obtain ⟨h1, p', hp', r', hr', hm'⟩ := ih2 m hm
          exact ⟨fun s hs => h1 s (List.mem_append_left _ hs), p', List.mem_cons_of_mem _ hp',
            r', hr', hm'⟩

theorem searchGo_bounds (r : Re) (idx : Nat) (s : Str) (mm : Match)
    (h : searchGo r idx s = some mm) :
    idx ≤ mm.start ∧ mm.start ≤ mm.stop ∧ mm.stop ≤ idx + s.length := by
  induction s generalizing idx with
  | nil =>
    unfold searchGo at h
    split at h
    · cases h; simp
    · cases h
  | cons c cs ih =>
    unfold searchGo at h
    split at h
    · cases h
      simp only [List.length_cons]
      omega
    · have := ih _ h
      simp only [List.length_cons]
      omega

theorem mem_iterForPatternGo {r : Re} {p : CPat} {n : Nat} {lines : List Str} {m : PMatch}
    (h : m ∈ iterForPatternGo r p n lines) :
    m.pat = p ∧ n ≤ m.lineno ∧ m.start < m.stop ∧
      ∃ line, lines[m.lineno - n]? = some line ∧ m.stop ≤ line.length := by
  induction lines generalizing n with
  | nil => cases h
  | cons line rest ih =>
    have hrec : m ∈ iterForPatternGo r p (n + 1) rest →
        m.pat = p ∧ n ≤ m.lineno ∧ m.start < m.stop ∧
          ∃ l, (line :: rest)[m.lineno - n]? = some l ∧ m.stop ≤ l.length := by
      intro h'
      obtain ⟨h1, h2, h3, l, h4, h5⟩ := ih h'
      refine ⟨h1, by omega, h3, l, ?_, h5⟩
      have : m.lineno - n = (m.lineno - (n + 1)) + 1 := by omega
      rw [this, List.getElem?_cons_succ]
      exact h4
    unfold iterForPatternGo at h
    split at h
    · rename_i mm hmm
      split at h
      · rename_i hlt
        rcases List.mem_cons.1 h with rfl | h
        · have := searchGo_bounds r 0 line mm hmm
          refine ⟨rfl, Nat.le_refl _, hlt, line, by simp, ?_⟩
          simp only
          omega
        · exact hrec h
      · exact hrec h
    · exact hrec h

theorem iterMatches_facts (lines : List Str) (pats : List CPat) (ms : List PMatch)
    (h : iterMatches lines pats = some ms) :
    ms.Pairwise Disj ∧ ∀ m ∈ ms, m.pat ∈ pats ∧ m.start < m.stop ∧
      ∃ line, lines[m.lineno]? = some line ∧ m.stop ≤ line.length := by
  obtain ⟨h1, h2⟩ := iterMatchesGo_inv lines pats [] ms h
  refine ⟨h1, fun m hm => ?_⟩
  obtain ⟨-, p, hp, r, -, hmem⟩ := h2 m hm
  obtain ⟨e1, -, e3, line, e4, e5⟩ := mem_iterForPatternGo hmem
  exact ⟨e1 ▸ hp, e3, line, by simpa using e4, e5⟩

/-! ### `rewriteLines` -/

theorem rewriteLines_ok {pats : List CPat} {v : VInfo} {old new : List Str}
    (h : rewriteLines pats v old = .ok new) :
    ∃ ms, iterMatches old pats = some ms ∧ applyMatches v (sortMatches ms) old = .ok new ∧
      pats.all (fun p => ms.any (fun m => m.pat == p)) = true := by
  unfold rewriteLines at h
  split at h
  · cases h
  · rename_i ms hms
    split at h
    · cases h
    · rename_i nl hnl
      split at h
      · rename_i hall
        cases h
        exact ⟨ms, hms, hnl, hall⟩
      · cases h

/-- the matches of line `i`, in the order `applyMatches` processes them -/
def lineMatches (ms : List PMatch) (i : Nat) : List PMatch :=
  (sortMatches ms).filter (fun m => m.lineno == i)

theorem mem_lineMatches {ms : List PMatch} {i : Nat} {m : PMatch} :
    m ∈ lineMatches ms i ↔ m ∈ ms ∧ m.lineno = i := by
  simp [lineMatches, (sortMatches_perm ms).mem_iff]

theorem rewriteLines_line {pats : List CPat} {v : VInfo} {old new : List Str} {ms : List PMatch}
    (hm : iterMatches old pats = some ms) (h : rewriteLines pats v old = .ok new) :
    (∀ m ∈ ms, formatVersion v (normalizePattern m.pat.vp m.pat.raw) = .ok (replOfL v m)) ∧
    new.length = old.length ∧
    ∀ i, new[i]? = (old[i]?).map (spliceLine v (lineMatches ms i)) := by
  obtain ⟨ms', hms', happ, -⟩ := rewriteLines_ok h
  rw [hm] at hms'
  cases hms'
  obtain ⟨h1, h2, h3⟩ := applyMatches_ok v _ _ _ happ
  exact ⟨fun m hm' => h1 m ((sortMatches_perm ms).mem_iff.2 hm'), h2, h3⟩

theorem lineMatches_sorted {lines : List Str} {pats : List CPat} {ms : List PMatch}
    (hm : iterMatches lines pats = some ms) (i : Nat) :
    (lineMatches ms i).Pairwise (fun a b => b.stop < a.start) := by
  obtain ⟨hd, hf⟩ := iterMatches_facts lines pats ms hm
  have hd' : (sortMatches ms).Pairwise Disj :=
    (sortMatches_perm ms).symm.pairwise hd (fun h => h.symm)
  have hboth : (sortMatches ms).Pairwise (fun a b => mle a b ∧ Disj a b) :=
    List.pairwise_and_iff.2 ⟨sortMatches_sorted ms, hd'⟩
  have := hboth.filter (fun m => m.lineno == i)
  refine List.Pairwise.imp_of_mem ?_ this
  intro a b ha hb ⟨h1, h2⟩
  have ha' := mem_lineMatches.1 ha
  have hb' := mem_lineMatches.1 hb
  have := (hf a ha'.1).2.1
  have := (hf b hb'.1).2.1
  unfold mle at h1; unfold Disj at h2
  omega

theorem lineMatches_bounds {lines : List Str} {pats : List CPat} {ms : List PMatch}
    (hm : iterMatches lines pats = some ms) (i : Nat) (line : Str) (hl : lines[i]? = some line) :
    ∀ m ∈ lineMatches ms i, m.start ≤ m.stop ∧ m.stop ≤ line.length := by
  intro m hmem
  obtain ⟨h1, h2⟩ := mem_lineMatches.1 hmem
  obtain ⟨-, h3, l, h4, h5⟩ := (iterMatches_facts lines pats ms hm).2 m h1
  rw [h2, hl] at h4
  cases h4
  omega

theorem sum_map_perm {α} (f : α → Int) {l1 l2 : List α} (h : l1.Perm l2) :
    (l1.map f).sum = (l2.map f).sum := by
  induction h with
  | nil => rfl
  | cons x _ ih => simp [ih]
  | swap x y l => simp only [List.map_cons, List.sum_cons]; omega
  | trans _ _ ih1 ih2 => exact ih1.trans ih2

/-! ### one line with one or several matches, in terms of the original match list -/

theorem lineMatches_single {lines : List Str} {pats : List CPat} {ms : List PMatch}
    (hm : iterMatches lines pats = some ms) (m : PMatch) (hmem : m ∈ ms)
    (honly : ∀ m' ∈ ms, m'.lineno = m.lineno → m' = m) : lineMatches ms m.lineno = [m] := by
  have hs := lineMatches_sorted hm m.lineno
  have hin : m ∈ lineMatches ms m.lineno := mem_lineMatches.2 ⟨hmem, rfl⟩
  have hall : ∀ x ∈ lineMatches ms m.lineno, x = m := fun x hx =>
    honly x (mem_lineMatches.1 hx).1 (mem_lineMatches.1 hx).2
  have hlt := ((iterMatches_facts lines pats ms hm).2 m hmem).2.1
  generalize lineMatches ms m.lineno = L at *
  match L, hs, hin, hall with
  | [], _, hin, _ => cases hin
  | [a], _, _, hall => rw [hall a List.mem_cons_self]
  | a :: b :: rest, hs, _, hall =>
    have ha := hall a List.mem_cons_self
    have hb := hall b (List.mem_cons_of_mem _ List.mem_cons_self)
    have := (List.pairwise_cons.1 hs).1 b List.mem_cons_self
    rw [ha, hb] at this
    omega

theorem rewriteLines_occ {pats : List CPat} {v : VInfo} {old new : List Str} {ms : List PMatch}
    (hm : iterMatches old pats = some ms) (h : rewriteLines pats v old = .ok new)
    (m : PMatch) (hmem : m ∈ ms) :
    ∃ newLine, new[m.lineno]? = some newLine ∧
      (newLine.drop (Int.toNat ((m.start : Int) +
          ((ms.filter (fun m' => m'.lineno == m.lineno && decide (m'.stop < m.start))).map
            (growth v)).sum))).take (replOfL v m).length = replOfL v m := by
  obtain ⟨-, -, line, hl, -⟩ := (iterMatches_facts old pats ms hm).2 m hmem
  obtain ⟨-, -, h3⟩ := rewriteLines_line hm h
  refine ⟨spliceLine v (lineMatches ms m.lineno) line, by rw [h3, hl]; rfl, ?_⟩
  have hocc := spliceLine_occ v (lineMatches ms m.lineno) line (lineMatches_sorted hm _)
    (lineMatches_bounds hm _ line hl) m (mem_lineMatches.2 ⟨hmem, rfl⟩)
  have hperm : ((lineMatches ms m.lineno).filter (fun m' => decide (m'.stop < m.start))).Perm
      (ms.filter (fun m' => m'.lineno == m.lineno && decide (m'.stop < m.start))) := by
    unfold lineMatches
    rw [List.filter_filter]
    have := (sortMatches_perm ms).filter
      (fun m' => m'.lineno == m.lineno && decide (m'.stop < m.start))
    refine List.Perm.trans (List.Perm.of_eq ?_) this
    apply List.filter_congr
    intro x _
    exact Bool.and_comm _ _
  rw [sum_map_perm (growth v) hperm] at hocc
  exact hocc

/-! ### `replaceAll` on the pattern itself -/

theorem replaceAllF_nil (f : Nat) (pat rep : Str) : replaceAllF f pat rep [] = [] := by
  cases f <;> rfl

theorem replaceAll_self (p rep : Str) (h : p ≠ []) : replaceAll p rep p = rep := by
  cases p with
  | nil => exact absurd rfl h
  | cons c cs =>
    have hpre : (c :: cs).isPrefixOf (c :: cs) = true :=
      List.isPrefixOf_iff_prefix.2 (List.prefix_refl _)
    unfold replaceAll
    show replaceAllF ((c :: cs).length + 1) (c :: cs) rep (c :: cs) = rep
    rw [replaceAllF]
    simp only [List.isEmpty_cons, Bool.false_eq_true, if_false, hpre, if_true, List.drop_length,
      replaceAllF_nil, List.append_nil]

/-! ### `plan` when the rewrite phase fails -/

theorem plan_rewrite_fail' (c0 : PlanCfg) (a : PlanCli) (e : PlanEnv) (hr : e.rewriteOk = false)
    (r : List Ev × Nat) (h : plan c0 a e = r) :
    r.2 = 1 ∧ ∀ ev ∈ r.1, TagEv a.fetch ev ∨ ev = .cmd "status" := by
  have fin : ∀ s : PState, EvExt (fun ev => TagEv a.fetch ev ∨ ev = .cmd "status") [] s.evs →
      ∀ ev ∈ s.evs.reverse, TagEv a.fetch ev ∨ ev = .cmd "status" := by
    intro s ⟨T, hT, hm⟩ ev hev
    rw [hT] at hev
    exact hm ev (by simpa using hev)
  unfold plan at h
  split at h
  · subst h; simp
  rename_i c hc
  extract_lets s0 at h
  split at h
  rename_i s1 o1 h1
  have e1 : EvExt (TagEv a.fetch) [] s1.evs := by
    split at h1
    · simp only [Prod.mk.injEq] at h1; rw [← h1.1]; exact .refl _
    · have := getTags_ext e a.fetch c.scopeBranch s0
      rw [h1] at this; exact this
  clear h1
  split at h
  · subst h; exact ⟨rfl, fin _ (e1.mono fun _ => .inl)⟩
  split at h
  · subst h; exact ⟨rfl, fin _ (e1.mono fun _ => .inl)⟩
  split at h
  rename_i s2 o2 h2
  have e2 : EvExt (TagEv a.fetch) [] s2.evs := by
    split at h2
    · have := (getTags_ext e false false s1).mono (Q := TagEv a.fetch) (fun _ => TagEv.of_false)
      rw [h2] at this; exact e1.trans this
    · simp only [Prod.mk.injEq] at h2; rw [← h2.1]; exact e1
  clear h2 e1
  split at h
  · subst h; exact ⟨rfl, fin _ (e2.mono fun _ => .inl)⟩
  split at h
  · subst h; exact ⟨rfl, fin _ (e2.mono fun _ => .inl)⟩
  split at h
  · subst h; exact ⟨by simp [hr], fin _ (e2.mono fun _ => .inl)⟩
  split at h
  rename_i s3 usable h3
  have e3 : EvExt (fun ev => TagEv a.fetch ev ∨ ev = .cmd "status") [] s3.evs := by
    split at h3
    · rcases isUsable_shape e s2 with ⟨hu, _⟩ | hu <;> rw [h3] at hu <;> simp only at hu <;> rw [hu]
      · exact e2.mono fun _ => .inl
      · exact .cons (.inl (.inl rfl)) (e2.mono fun _ => .inl)
    · simp only [Prod.mk.injEq] at h3; rw [← h3.1]; exact e2.mono fun _ => .inl
  clear h3 e2
  split at h
  rename_i s4 o4 h4
  have e4 : EvExt (fun ev => TagEv a.fetch ev ∨ ev = .cmd "status") [] s4.evs := by
    split at h4
    · have := congrArg (fun r => r.1.evs) h4
      simp only [vcsCall_evs] at this
      rw [← this]
      exact .cons (.inr rfl) e3
    · simp only [Prod.mk.injEq] at h4; rw [← h4.1]; exact e3
  clear h4 e3
  split at h
  · subst h; exact ⟨rfl, fin _ e4⟩
  split at h
  · subst h; exact ⟨rfl, fin _ e4⟩
  split at h
  · subst h; exact ⟨rfl, fin _ e4⟩
  · rename_i hx
    simp [hr] at hx

theorem plan_rewrite_fail (c0 : PlanCfg) (a : PlanCli) (e : PlanEnv) (hr : e.rewriteOk = false) :
    (plan c0 a e).2 = 1 ∧ ∀ ev ∈ (plan c0 a e).1, TagEv a.fetch ev ∨ ev = .cmd "status" :=
  plan_rewrite_fail' c0 a e hr _ rfl

end BV
