/-
  Proofs/Tie_patternsSort.lean — `sorted(dict(pairs).items())` for pairs keyed by `(int, int)`:
  the primitives `PyP.dictOfPairs` (CPython dict: a repeated key keeps its position and takes the new
  value) followed by `PyP.sorted` (stable sort by tuple comparison) is the insertion sort BY KEY in which an
  equal key REPLACES the earlier entry (`insRepl`, the shape of the model's `insertSorted`/`sortParts`).
-/
import BumpverVerif.Gen.PatternsPrims
namespace BV.PyP

abbrev IKey := Int × Int

/-! ### `<` on `(int, int)` is a strict total order -/

theorem ltK_iff (a b : IKey) : PyOrd.lt a b = true ↔ (a.1 < b.1 ∨ (a.1 = b.1 ∧ a.2 < b.2)) := by
  show (if a.1 == b.1 then PyOrd.lt a.2 b.2 else PyOrd.lt a.1 b.1) = true ↔ _
  by_cases h : a.1 = b.1
  · simp only [h, beq_self_eq_true, if_true]
    show decide (a.2 < b.2) = true ↔ _
    simp
  · have : (a.1 == b.1) = false := by simpa using h
    simp only [this, Bool.false_eq_true, if_false]
    show decide (a.1 < b.1) = true ↔ _
    simp [h]

theorem ltK_irrefl (a : IKey) : ¬ PyOrd.lt a a = true := by
  rw [ltK_iff]; omega

theorem ltK_trans {a b c : IKey} (h1 : PyOrd.lt a b = true) (h2 : PyOrd.lt b c = true) : PyOrd.lt a c = true := by
  rw [ltK_iff] at *; omega

theorem ltK_tri {a b : IKey} (hne : a ≠ b) (h : ¬ PyOrd.lt a b = true) : PyOrd.lt b a = true := by
  rw [ltK_iff] at *
  have : a.1 ≠ b.1 ∨ a.2 ≠ b.2 := by
    by_cases h1 : a.1 = b.1
    · right; intro h2; exact hne (Prod.ext h1 h2)
    · left; exact h1
  omega

theorem ltK_ne {a b : IKey} (h : PyOrd.lt a b = true) : a ≠ b := by
  intro e; subst e; exact ltK_irrefl a h

variable {ν : Type}

/-- tuple comparison of two entries with different keys looks at the keys only -/
theorem lt_pair_of_ne [PyOrd ν] (x y : IKey × ν) (h : x.1 ≠ y.1) : PyOrd.lt x y = PyOrd.lt x.1 y.1 := by
  show (if x.1 == y.1 then PyOrd.lt x.2 y.2 else PyOrd.lt x.1 y.1) = _
  have : (x.1 == y.1) = false := by simpa using h
  simp [this]

/-- strictly increasing keys -/
def SK (l : List (IKey × ν)) : Prop := l.Pairwise (fun a b => PyOrd.lt a.1 b.1 = true)

/-- pairwise different keys -/
def NK (l : List (IKey × ν)) : Prop := l.Pairwise (fun a b => a.1 ≠ b.1)

/-- insertion by key; an entry with the same key is replaced -/
def insRepl (x : IKey × ν) : List (IKey × ν) → List (IKey × ν)
  | [] => [x]
  | y :: ys =>
    if y.1 == x.1 then x :: ys
    else if PyOrd.lt x.1 y.1 then x :: y :: ys
    else y :: insRepl x ys

/-! ### two lists with strictly increasing keys and the same members are equal -/

theorem SK_ext : ∀ (A B : List (IKey × ν)), SK A → SK B → (∀ e, e ∈ A ↔ e ∈ B) → A = B
  | [], [], _, _, _ => rfl
  | [], b :: B, _, _, h => by have := (h b).2 List.mem_cons_self; simp at this
  | a :: A, [], _, _, h => by have := (h a).1 List.mem_cons_self; simp at this
  | a :: A, b :: B, hA, hB, h => by
    have hA' := List.pairwise_cons.mp hA
    have hB' := List.pairwise_cons.mp hB
    have hab : a = b := by
      by_cases e : a = b
      · exact e
      · exfalso
        have h1 : a ∈ B := by
          have := (h a).1 List.mem_cons_self
          rcases List.mem_cons.mp this with r | r
          · exact absurd r e
          · exact r
        have h2 : b ∈ A := by
          have := (h b).2 List.mem_cons_self
          rcases List.mem_cons.mp this with r | r
          · exact absurd r.symm e
          · exact r
        exact ltK_irrefl _ (ltK_trans (hA'.1 b h2) (hB'.1 a h1))
    subst hab
    have hnA : a ∉ A := fun hm => ltK_irrefl _ (hA'.1 a hm)
    have hnB : a ∉ B := fun hm => ltK_irrefl _ (hB'.1 a hm)
    have : A = B := SK_ext A B hA'.2 hB'.2 (by
      intro e
      constructor
      · intro he
        have := (h e).1 (List.mem_cons_of_mem _ he)
        rcases List.mem_cons.mp this with r | r
        · subst r; exact absurd he hnA
        · exact r
      · intro he
        have := (h e).2 (List.mem_cons_of_mem _ he)
        rcases List.mem_cons.mp this with r | r
        · subst r; exact absurd he hnB
        · exact r)
    rw [this]

/-! ### `insRepl` -/

theorem mem_insRepl (x : IKey × ν) : ∀ (A : List (IKey × ν)), SK A →
    ∀ e, e ∈ insRepl x A ↔ (e = x ∨ (e ∈ A ∧ e.1 ≠ x.1))
  | [], _, e => by simp [insRepl]
  | y :: ys, hA, e => by
    have hA' := List.pairwise_cons.mp hA
    simp only [insRepl]
    by_cases h1 : y.1 = x.1
    · simp only [h1, beq_self_eq_true, if_true, List.mem_cons]
      constructor
      · rintro (r | r)
        · exact Or.inl r
        · exact Or.inr ⟨Or.inr r, fun he => ltK_irrefl _ (by have := hA'.1 e r; rwa [he, ← h1] at this)⟩
      · rintro (r | ⟨r | r, hne⟩)
        · exact Or.inl r
        · subst r; exact absurd h1 hne
        · exact Or.inr r
    · have h1' : (y.1 == x.1) = false := by simpa using h1
      simp only [h1', Bool.false_eq_true, if_false]
      by_cases h2 : PyOrd.lt x.1 y.1 = true
      · simp only [h2, if_true, List.mem_cons]
        constructor
        · rintro (r | r | r)
          · exact Or.inl r
          · subst r; exact Or.inr ⟨Or.inl rfl, h1⟩
          · exact Or.inr ⟨Or.inr r, fun he => ltK_irrefl _ (by
              have := ltK_trans h2 (hA'.1 e r); rwa [he] at this)⟩
        · rintro (r | ⟨r | r, _⟩)
          · exact Or.inl r
          · exact Or.inr (Or.inl r)
          · exact Or.inr (Or.inr r)
      · simp only [h2, Bool.false_eq_true, if_false, List.mem_cons, mem_insRepl x ys hA'.2 e]
        constructor
        · rintro (r | r | ⟨r, hne⟩)
          · subst r; exact Or.inr ⟨Or.inl rfl, h1⟩
          · exact Or.inl r
          · exact Or.inr ⟨Or.inr r, hne⟩
        · rintro (r | ⟨r | r, hne⟩)
          · exact Or.inr (Or.inl r)
          · exact Or.inl r
          · exact Or.inr (Or.inr ⟨r, hne⟩)

theorem SK_insRepl (x : IKey × ν) : ∀ (A : List (IKey × ν)), SK A → SK (insRepl x A)
  | [], _ => by simp [insRepl, SK]
  | y :: ys, hA => by
    have hA' := List.pairwise_cons.mp hA
    simp only [insRepl]
    by_cases h1 : y.1 = x.1
    · simp only [h1, beq_self_eq_true, if_true]
      exact List.pairwise_cons.mpr ⟨fun z hz => by rw [← h1]; exact hA'.1 z hz, hA'.2⟩
    · have h1' : (y.1 == x.1) = false := by simpa using h1
      simp only [h1', Bool.false_eq_true, if_false]
      by_cases h2 : PyOrd.lt x.1 y.1 = true
      · simp only [h2, if_true]
        refine List.pairwise_cons.mpr ⟨?_, hA⟩
        intro z hz
        rcases List.mem_cons.mp hz with r | r
        · subst r; exact h2
        · exact ltK_trans h2 (hA'.1 z r)
      · simp only [h2, Bool.false_eq_true, if_false]
        refine List.pairwise_cons.mpr ⟨?_, SK_insRepl x ys hA'.2⟩
        intro z hz
        rcases (mem_insRepl x ys hA'.2 z).mp hz with r | ⟨r, _⟩
        · subst r; exact ltK_tri (fun e => h1 e.symm) h2
        · exact hA'.1 z r

/-! ### `dictSet` -/

theorem mem_dictSet (k : IKey) (v : ν) : ∀ (D : List (IKey × ν)), NK D →
    ∀ e, e ∈ dictSet k v D ↔ (e = (k, v) ∨ (e ∈ D ∧ e.1 ≠ k))
  | [], _, e => by simp [dictSet]
  | (k', v') :: rest, hD, e => by
    have hD' := List.pairwise_cons.mp hD
    simp only [dictSet]
    by_cases h1 : k' = k
    · subst h1
      simp only [beq_self_eq_true, if_true, List.mem_cons]
      constructor
      · rintro (r | r)
        · exact Or.inl r
        · exact Or.inr ⟨Or.inr r, fun he => hD'.1 e r he.symm⟩
      · rintro (r | ⟨r | r, hne⟩)
        · exact Or.inl r
        · subst r; exact absurd rfl hne
        · exact Or.inr r
    · have h1' : (k' == k) = false := by simpa using h1
      simp only [h1', Bool.false_eq_true, if_false, List.mem_cons, mem_dictSet k v rest hD'.2 e]
      constructor
      · rintro (r | r | ⟨r, hne⟩)
        · subst r; exact Or.inr ⟨Or.inl rfl, h1⟩
        · exact Or.inl r
        · exact Or.inr ⟨Or.inr r, hne⟩
      · rintro (r | ⟨r | r, hne⟩)
        · exact Or.inr (Or.inl r)
        · exact Or.inl r
        · exact Or.inr (Or.inr ⟨r, hne⟩)

theorem NK_dictSet (k : IKey) (v : ν) : ∀ (D : List (IKey × ν)), NK D → NK (dictSet k v D)
  | [], _ => by simp [dictSet, NK]
  | (k', v') :: rest, hD => by
    have hD' := List.pairwise_cons.mp hD
    simp only [dictSet]
    by_cases h1 : k' = k
    · subst h1
      simp only [beq_self_eq_true, if_true]
      exact List.pairwise_cons.mpr ⟨fun z hz => hD'.1 z hz, hD'.2⟩
    · have h1' : (k' == k) = false := by simpa using h1
      simp only [h1', Bool.false_eq_true, if_false]
      refine List.pairwise_cons.mpr ⟨?_, NK_dictSet k v rest hD'.2⟩
      intro z hz
      rcases (mem_dictSet k v rest hD'.2 z).mp hz with r | ⟨r, _⟩
      · subst r; exact h1
      · exact hD'.1 z r

/-! ### `sorted` on entries with pairwise different keys -/

theorem mem_insertSortedBy {α : Type} (lt : α → α → Bool) (x : α) : ∀ (l : List α) (e : α),
    e ∈ insertSortedBy lt x l ↔ (e = x ∨ e ∈ l)
  | [], e => by simp [insertSortedBy]
  | y :: ys, e => by
    simp only [insertSortedBy]
    split
    · simp
    · simp only [List.mem_cons, mem_insertSortedBy lt x ys e]
      constructor
      · rintro (r | r | r)
        · exact Or.inr (Or.inl r)
        · exact Or.inl r
        · exact Or.inr (Or.inr r)
      · rintro (r | r | r)
        · exact Or.inr (Or.inl r)
        · exact Or.inl r
        · exact Or.inr (Or.inr r)

theorem SK_insertSortedBy [PyOrd ν] (x : IKey × ν) : ∀ (A : List (IKey × ν)), SK A → (∀ y ∈ A, y.1 ≠ x.1) →
    SK (insertSortedBy PyOrd.lt x A)
  | [], _, _ => by simp [insertSortedBy, SK]
  | y :: ys, hA, hk => by
    have hA' := List.pairwise_cons.mp hA
    have hy : x.1 ≠ y.1 := fun e => hk y List.mem_cons_self e.symm
    simp only [insertSortedBy, lt_pair_of_ne x y hy]
    by_cases h2 : PyOrd.lt x.1 y.1 = true
    · simp only [h2, if_true]
      refine List.pairwise_cons.mpr ⟨?_, hA⟩
      intro z hz
      rcases List.mem_cons.mp hz with r | r
      · subst r; exact h2
      · exact ltK_trans h2 (hA'.1 z r)
    · simp only [h2, Bool.false_eq_true, if_false]
      refine List.pairwise_cons.mpr ⟨?_, SK_insertSortedBy x ys hA'.2 (fun z hz => hk z (List.mem_cons_of_mem _ hz))⟩
      intro z hz
      rcases (mem_insertSortedBy _ x ys z).mp hz with r | r
      · subst r; exact ltK_tri hy h2
      · exact hA'.1 z r

theorem sorted_foldl_spec [PyOrd ν] : ∀ (l A : List (IKey × ν)), SK A → NK l → (∀ x ∈ l, ∀ y ∈ A, y.1 ≠ x.1) →
    SK (l.foldl (fun acc x => insertSortedBy PyOrd.lt x acc) A) ∧
    ∀ e, e ∈ l.foldl (fun acc x => insertSortedBy PyOrd.lt x acc) A ↔ (e ∈ A ∨ e ∈ l)
  | [], A, hA, _, _ => by simp [hA]
  | x :: xs, A, hA, hl, hk => by
    have hl' := List.pairwise_cons.mp hl
    simp only [List.foldl_cons]
    have hA2 := SK_insertSortedBy x A hA (fun y hy => hk x List.mem_cons_self y hy)
    have hk2 : ∀ z ∈ xs, ∀ y ∈ insertSortedBy PyOrd.lt x A, y.1 ≠ z.1 := by
      intro z hz y hy
      rcases (mem_insertSortedBy _ x A y).mp hy with r | r
      · subst r; exact hl'.1 z hz
      · exact hk z (List.mem_cons_of_mem _ hz) y r
    obtain ⟨s1, s2⟩ := sorted_foldl_spec xs _ hA2 hl'.2 hk2
    refine ⟨s1, ?_⟩
    intro e
    rw [s2 e, mem_insertSortedBy]
    simp only [List.mem_cons]
    constructor
    · rintro ((r | r) | r)
      · exact Or.inr (Or.inl r)
      · exact Or.inl r
      · exact Or.inr (Or.inr r)
    · rintro (r | r | r)
      · exact Or.inl (Or.inr r)
      · exact Or.inl (Or.inl r)
      · exact Or.inr r

theorem sorted_spec [PyOrd ν] (D : List (IKey × ν)) (hD : NK D) : SK (sorted D) ∧ ∀ e, e ∈ sorted D ↔ e ∈ D := by
  have := sorted_foldl_spec D [] (by simp [SK]) hD (by simp)
  refine ⟨this.1, fun e => ?_⟩
  have h := this.2 e
  simpa [sorted] using h

/-! ### the main statement -/

theorem foldl_dict_insRepl : ∀ (l D A : List (IKey × ν)), NK D → SK A → (∀ e, e ∈ A ↔ e ∈ D) →
    NK (l.foldl (fun d kv => dictSet kv.1 kv.2 d) D) ∧ SK (l.foldl (fun acc x => insRepl x acc) A) ∧
    ∀ e, e ∈ l.foldl (fun acc x => insRepl x acc) A ↔ e ∈ l.foldl (fun d kv => dictSet kv.1 kv.2 d) D
  | [], D, A, hD, hA, h => ⟨hD, hA, h⟩
  | x :: xs, D, A, hD, hA, h => by
    simp only [List.foldl_cons]
    refine foldl_dict_insRepl xs _ _ (NK_dictSet x.1 x.2 D hD) (SK_insRepl x A hA) ?_
    intro e
    rw [mem_insRepl x A hA e, mem_dictSet x.1 x.2 D hD e, h e]

/-- `sorted(dict(pairs).items())` = insertion by key with replacement -/
theorem sorted_dictOfPairs [PyOrd ν] (l : List (IKey × ν)) :
    sorted (dictOfPairs l) = l.foldl (fun acc x => insRepl x acc) [] := by
  obtain ⟨h1, h2, h3⟩ := foldl_dict_insRepl l [] [] (by simp [NK]) (by simp [SK]) (by simp)
  obtain ⟨s1, s2⟩ := sorted_spec (dictOfPairs l) h1
  exact SK_ext _ _ s1 h2 (fun e => by rw [s2 e, h3 e]; rfl)

end BV.PyP
