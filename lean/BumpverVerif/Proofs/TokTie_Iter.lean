/-
  Proofs/TokTie_Iter.lean — `_iter_part_patterns` as ONE pass over the list of all found occurrences
  (`iterPartPatterns_eq`), the shape of its items (`goParts_shape`), and when an occurrence gets the plain
  group name (no `_N` suffix): when no earlier occurrence has the same field (`goParts_plain`).
-/
import BumpverVerif.Proofs.TokTie_Find
namespace BV

/-- an occurrence: part name, its regex, start index -/
abbrev Occ := Str × Str × Nat

def occField (pf : List (Str × Str)) (o : Occ) : Str := (lookup o.1 pf).getD []

/-- one step of the inner loop of `_iter_part_patterns` -/
def mkPart (pf : List (Str × Str)) (used : List Str) (o : Occ) : PosPart × List Str :=
  let field := occField pf o
  let gname := if memStr field used then field ++ ['_'] ++ natToStr used.length else field
  ({ start := o.2.2, stop := o.2.2 + o.1.length, name := o.1,
     text := "(?P<".toList ++ gname ++ ">".toList ++ o.2.1 ++ ")".toList },
   if memStr field used then used else used ++ [field])

def goParts (pf : List (Str × Str)) : List Str → List Occ → List PosPart × List Str
  | used, [] => ([], used)
  | used, o :: os =>
    let r := goParts pf (mkPart pf used o).2 os
    ((mkPart pf used o).1 :: r.1, r.2)

/-- the item of an occurrence with the plain group name -/
def plainOf (pf : List (Str × Str)) (o : Occ) : PosPart :=
  { start := o.2.2, stop := o.2.2 + o.1.length, name := o.1,
    text := "(?P<".toList ++ occField pf o ++ ">".toList ++ o.2.1 ++ ")".toList }

def occsOfEntry (G : Str) (e : Str × Str) : List Occ :=
  (findAllFrom e.1 (G.length + 1) 0 G).map (fun st => (e.1, e.2, st))

/-- all occurrences in iteration order: table order, then left to right -/
def occsOf (pp : List (Str × Str)) (G : Str) : List Occ := pp.flatMap (occsOfEntry G)

theorem goParts_append (pf : List (Str × Str)) (used : List Str) (A B : List Occ) :
    goParts pf used (A ++ B) =
      ((goParts pf used A).1 ++ (goParts pf (goParts pf used A).2 B).1, (goParts pf (goParts pf used A).2 B).2) := by
  induction A generalizing used with
  | nil => simp [goParts]
  | cons o A ih => simp [goParts, ih]

/-- the inner `foldl` (over the starts of one part name) -/
theorem inner_fold (pf : List (Str × Str)) (name rx : Str) (starts : List Nat) (acc : List PosPart) (used : List Str) :
    starts.foldl (fun (acc : List PosPart × List Str) start =>
        let used := acc.2
        let field := (lookup name pf).getD []
        let gname := if memStr field used then field ++ ['_'] ++ natToStr used.length else field
        let text := "(?P<".toList ++ gname ++ ">".toList ++ rx ++ ")".toList
        let used' := if memStr field used then used else used ++ [field]
        (acc.1 ++ [{ start := start, stop := start + name.length, name := name, text := text }], used')) (acc, used)
      = (acc ++ (goParts pf used (starts.map (fun st => (name, rx, st)))).1,
         (goParts pf used (starts.map (fun st => (name, rx, st)))).2) := by
  induction starts generalizing acc used with
  | nil => simp [goParts]
  | cons st starts ih =>
    rw [List.foldl_cons, List.map_cons]
    simp only [goParts]
    rw [ih]
    simp [mkPart, occField]
    exact ⟨rfl, rfl⟩

theorem iterPartPatterns_eq (pp pf : List (Str × Str)) (G : Str) :
    iterPartPatterns pp pf G = (goParts pf [] (occsOf pp G)).1 := by
  unfold iterPartPatterns
  suffices H : ∀ (l : List (Str × Str)) (acc : List PosPart) (used : List Str),
      l.foldl (fun (acc : List PosPart × List Str) (pp : Str × Str) =>
        (findAllFrom pp.1 (G.length + 1) 0 G).foldl (fun (acc : List PosPart × List Str) start =>
          let used := acc.2
          let field := (lookup pp.1 pf).getD []
          let gname := if memStr field used then field ++ ['_'] ++ natToStr used.length else field
          let text := "(?P<".toList ++ gname ++ ">".toList ++ pp.2 ++ ")".toList
          let used' := if memStr field used then used else used ++ [field]
          (acc.1 ++ [{ start := start, stop := start + pp.1.length, name := pp.1, text := text }], used')) acc)
        (acc, used) = (acc ++ (goParts pf used (occsOf l G)).1, (goParts pf used (occsOf l G)).2) by
    have := H pp [] []
    simp only [List.nil_append] at this
    exact congrArg Prod.fst this
  intro l
  induction l with
  | nil => intro acc used; simp [occsOf, goParts]
  | cons e l ih =>
    intro acc used
    rw [List.foldl_cons]
    have hin := inner_fold pf e.1 e.2 (findAllFrom e.1 (G.length + 1) 0 G) acc used
    rw [hin, ih]
    have : occsOf (e :: l) G = occsOfEntry G e ++ occsOf l G := by simp [occsOf]
    rw [this, goParts_append]
    simp [occsOfEntry, List.append_assoc]

/-! ### shape and keys of the items -/

theorem goParts_keys (pf : List (Str × Str)) (used : List Str) (occs : List Occ) :
    (goParts pf used occs).1.map (fun x => (x.name, x.start)) = occs.map (fun o => (o.1, o.2.2)) := by
  induction occs generalizing used with
  | nil => rfl
  | cons o os ih => simp [goParts, ih, mkPart]

theorem goParts_shape (pf : List (Str × Str)) (used : List Str) (occs : List Occ) :
    ∀ x ∈ (goParts pf used occs).1, ∃ o ∈ occs, x.start = o.2.2 ∧ x.stop = o.2.2 + o.1.length ∧ x.name = o.1 := by
  induction occs generalizing used with
  | nil => intro x hx; cases hx
  | cons o os ih =>
    intro x hx
    simp only [goParts] at hx
    rcases List.mem_cons.mp hx with e | e
    · subst e
      exact ⟨o, List.mem_cons_self, rfl, rfl, rfl⟩
    · obtain ⟨o', ho', h⟩ := ih _ x e
      exact ⟨o', List.mem_cons_of_mem _ ho', h⟩

theorem memStr_iff (x : Str) (l : List Str) : memStr x l = true ↔ x ∈ l := by
  simp [memStr]

/-- the `used_fields` after a run: the old ones and the fields of the processed occurrences -/
theorem goParts_used (pf : List (Str × Str)) (used : List Str) (occs : List Occ) (f : Str) :
    f ∈ (goParts pf used occs).2 ↔ f ∈ used ∨ f ∈ occs.map (occField pf) := by
  induction occs generalizing used with
  | nil => simp [goParts]
  | cons o os ih =>
    simp only [goParts, ih, mkPart, List.map_cons, List.mem_cons]
    by_cases hm : memStr (occField pf o) used = true
    · simp only [hm, if_true]
      rw [memStr_iff] at hm
      constructor
      · rintro (h | h)
        · exact Or.inl h
        · exact Or.inr (Or.inr h)
      · rintro (h | h | h)
        · exact Or.inl h
        · subst h; exact Or.inl hm
        · exact Or.inr h
    · simp only [hm, Bool.false_eq_true, if_false, List.mem_append, List.mem_singleton]
      constructor
      · rintro ((h | h) | h)
        · exact Or.inl h
        · exact Or.inr (Or.inl h)
        · exact Or.inr (Or.inr h)
      · rintro (h | h | h)
        · exact Or.inl (Or.inl h)
        · exact Or.inl (Or.inr h)
        · exact Or.inr h

/-- an occurrence whose field no earlier occurrence has gets the plain group name -/
theorem goParts_plain (pf : List (Str × Str)) (A B : List Occ) (o : Occ)
    (h : ∀ o' ∈ A, occField pf o' ≠ occField pf o) :
    plainOf pf o ∈ (goParts pf [] (A ++ o :: B)).1 := by
  rw [goParts_append]
  apply List.mem_append_right
  simp only [goParts]
  apply List.mem_cons.mpr
  left
  have hnot : memStr (occField pf o) (goParts pf [] A).2 = false := by
    cases hm : memStr (occField pf o) (goParts pf [] A).2 with
    | false => rfl
    | true =>
      rw [memStr_iff, goParts_used] at hm
      rcases hm with hm | hm
      · cases hm
      · obtain ⟨o', ho', e⟩ := List.mem_map.mp hm
        exact absurd e (h o' ho')
  simp [mkPart, plainOf, hnot]

/-- membership in the occurrence list -/
theorem mem_occsOf {pp : List (Str × Str)} {G : Str} {o : Occ} (h : o ∈ occsOf pp G) :
    ∃ e ∈ pp, o.1 = e.1 ∧ o.2.1 = e.2 ∧ o.2.2 ∈ findAllFrom e.1 (G.length + 1) 0 G := by
  simp only [occsOf, List.mem_flatMap, occsOfEntry, List.mem_map] at h
  obtain ⟨e, he, st, hst, rfl⟩ := h
  exact ⟨e, he, rfl, rfl, hst⟩

/-- splitting the occurrence list at a given occurrence of a given table entry -/
theorem occsOf_split (pp1 pp2 : List (Str × Str)) (e : Str × Str) (G : Str) (st : Nat)
    (hst : st ∈ findAllFrom e.1 (G.length + 1) 0 G) :
    ∃ S1 S2 : List Nat, (∀ s ∈ S1, s ∈ findAllFrom e.1 (G.length + 1) 0 G ∧ s ≠ st) ∧
      occsOf (pp1 ++ e :: pp2) G =
        (occsOf pp1 G ++ S1.map (fun s => (e.1, e.2, s))) ++ (e.1, e.2, st) ::
          (S2.map (fun s => (e.1, e.2, s)) ++ occsOf pp2 G) := by
  obtain ⟨S1, S2, hS⟩ := List.append_of_mem hst
  have hnd := findAllFrom_nodup e.1 (G.length + 1) 0 G
  refine ⟨S1, S2, ?_, ?_⟩
  · intro s hs
    refine ⟨by rw [hS]; simp [hs], ?_⟩
    rw [hS] at hnd
    have := List.nodup_append.mp hnd
    intro e'
    subst e'
    exact this.2.2 s hs s List.mem_cons_self rfl
  · simp only [occsOf, List.flatMap_append, List.flatMap_cons, occsOfEntry]
    rw [hS]
    simp [List.append_assoc]

end BV
