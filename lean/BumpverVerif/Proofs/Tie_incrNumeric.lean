/-
  Proofs/Tie_incrNumeric.lean — the definition GENERATED from the Python source of
  `v2version._incr_numeric` equals the hand model `BV.incrNumeric`.

  The abstraction, made explicit in the statement:
  * the six keyword arguments major … pin_increments are the fields of the model's `IncrFlags` record
    (`pinDate` is not an argument of `_incr_numeric`; the model ignores it here, it is universally
    quantified);
  * `_parse_pattern_fields(raw_pattern)` (evaluated inside `_reset_rollover_fields`, i.e. LAST) is the
    parameter `fields` of the model; in the generated definition it is an `Except` that is only looked at
    after every other step succeeded (`tie_incrNumeric_fields_error`);
  * `lexid.next_id` is the trusted primitive `nextId` on both sides; `int(s)` is `pyInt`
    (ValueError unless `s` is a non-empty ASCII digit string — the model's `!allDigits ∨ isEmpty`);
  * `version.PEP440_TAG_BY_TAG[tag]` is `lookup` in the GENERATED table, `none` = KeyError.

  The proof follows the model's own decomposition `incrNumeric_eq` (Proofs/V2Lemmas.lean):
  flag increments (`incStep`), the tag step (`tagStep`), final/auto increments (`finStep`), BUILD
  (`bidStep`), then `tie_resetRolloverFields`.

  HYPOTHESIS `hk`: as for `tie_iterResetFieldItems` (every element of `fields` is a field name).
-/
import BumpverVerif.Gen.F_incrNumeric
import BumpverVerif.Proofs.Tie_resetRolloverFields
namespace BV

/-! helper definitions and lemmas live in `BV.TieA` (no clashes with other proof files); the `tie_…` theorems in `BV` -/
namespace TieA

theorem isDigitStr_eq_not (s : Str) : isDigitStr s = !(!allDigits s || s.isEmpty) := by
  unfold isDigitStr
  cases allDigits s <;> cases s.isEmpty <;> rfl

/-- THE ABSTRACTION of the keyword arguments of `_incr_numeric` / `incr`: the model's flag record -/
def mkFlags (major minor patch : Bool) (tag : Option Str) (tag_num pin_increments pin_date : Bool) : IncrFlags :=
  { major := major, minor := minor, patch := patch, tag := tag, tagNum := tag_num,
    pinIncrements := pin_increments, pinDate := pin_date }

end TieA
open TieA

/-- `T = tagStep (incStep cur fl) tag` for the scrutinee `T` of the generated join.  The four flag increments
    are compared after a case split on the flags (independent `_replace` blocks commute only then). -/
local macro "tag_step_eq" major:ident minor:ident patch:ident tag_num:ident tag:ident : tactic =>
  `(tactic| (
      unfold tagStep incStep
      cases $major:ident <;> cases $minor:ident <;> cases $patch:ident <;> cases $tag_num:ident <;>
      simp (config := {zetaDelta := true}) only [mkFlags, if_true, if_false, Bool.false_eq_true] <;>
      (cases $tag:ident with
       | none => rfl
       | some t =>
         simp only
         cases t.isEmpty with
         | true => rfl
         | false =>
           simp only [Bool.not_false, if_true, Bool.false_eq_true, if_false]
           cases lookup t Gen.pep440TagByTag <;> rfl)))

theorem tie_incrNumeric (raw_pattern : Str) (fields : List Str) (old_vinfo cur_vinfo : VInfo)
    (major minor patch : Bool) (tag : Option Str) (tag_num pin_increments pinDate : Bool)
    (hk : ∀ f ∈ fields, f ∈ GenF.fieldNamesVInfo) :
    GenF.incrNumeric raw_pattern old_vinfo cur_vinfo major minor patch tag tag_num pin_increments (.ok fields) =
      incrNumeric fields old_vinfo cur_vinfo (mkFlags major minor patch tag tag_num pin_increments pinDate) := by
  have hfl : (mkFlags major minor patch tag tag_num pin_increments pinDate).tag = tag := rfl
  rw [incrNumeric_eq, hfl]
  unfold GenF.incrNumeric
  -- the flag increments stay `let`s in the context; they are `incStep` by unfolding
  extract_lets
  -- the tag step is the scrutinee of the generated join
  have htag : ∀ (T r : Except PErr VInfo), T = r →
      (T = tagStep (incStep cur_vinfo (mkFlags major minor patch tag tag_num pin_increments pinDate)) tag) →
      tagStep (incStep cur_vinfo (mkFlags major minor patch tag tag_num pin_increments pinDate)) tag = r :=
    fun T r h1 h2 => h2 ▸ h1
  split
  · next err heq =>
    rw [htag _ _ heq (by tag_step_eq major minor patch tag_num tag)]
  · next c5 heq =>
    rw [htag _ _ heq (by tag_step_eq major minor patch tag_num tag)]
    -- final release / auto increments: the last `let` before the BUILD step is the model's `finStep`
    simp (config := {zeta := false}) only []
    extract_lets
    rename_i c6
    have hc6 : finStep c5 (mkFlags major minor patch tag tag_num pin_increments pinDate) = c6 := by
      cases pin_increments <;> rfl
    rw [hc6]
    clear hc6
    clear_value c6
    -- BUILD, then `_reset_rollover_fields`
    unfold bidStep GenF.pyInt padBid
    have hdig := isDigitStr_eq_not c6.bid
    cases hd : (!allDigits c6.bid || c6.bid.isEmpty) <;> rw [hd] at hdig
    · by_cases hlt : strToNat c6.bid < 1000
      · cases hn : nextId (natToStr (strToNat c6.bid + 1000)) <;>
          simp [hdig, hlt, hn, tie_resetRolloverFields _ _ _ _ hk] <;> rfl
      · cases hn : nextId c6.bid <;>
          simp [hdig, hlt, hn, tie_resetRolloverFields _ _ _ _ hk] <;> rfl
    · simp [hdig]; rfl

/-- `_parse_pattern_fields(raw_pattern)` is evaluated LAST: when it raises `e`, every exception of the
    earlier steps (KeyError of the tag table, ValueError of `int(bid)`, OverflowError of `next_id`) still
    comes first, and only if none of them occurs the result is `e`. -/
theorem tie_incrNumeric_fields_error (raw_pattern : Str) (old_vinfo cur_vinfo : VInfo)
    (major minor patch : Bool) (tag : Option Str) (tag_num pin_increments pinDate : Bool) (e : PErr) :
    GenF.incrNumeric raw_pattern old_vinfo cur_vinfo major minor patch tag tag_num pin_increments (.error e) =
      match incrNumeric [] old_vinfo cur_vinfo (mkFlags major minor patch tag tag_num pin_increments pinDate) with
      | .error e' => .error e'
      | .ok _ => .error e := by
  have hfl : (mkFlags major minor patch tag tag_num pin_increments pinDate).tag = tag := rfl
  rw [incrNumeric_eq, hfl]
  unfold GenF.incrNumeric
  extract_lets
  have htag : ∀ (T r : Except PErr VInfo), T = r →
      (T = tagStep (incStep cur_vinfo (mkFlags major minor patch tag tag_num pin_increments pinDate)) tag) →
      tagStep (incStep cur_vinfo (mkFlags major minor patch tag tag_num pin_increments pinDate)) tag = r :=
    fun T r h1 h2 => h2 ▸ h1
  split
  · next err heq =>
    rw [htag _ _ heq (by tag_step_eq major minor patch tag_num tag)]
  · next c5 heq =>
    rw [htag _ _ heq (by tag_step_eq major minor patch tag_num tag)]
    simp (config := {zeta := false}) only []
    extract_lets
    rename_i c6
    have hc6 : finStep c5 (mkFlags major minor patch tag tag_num pin_increments pinDate) = c6 := by
      cases pin_increments <;> rfl
    rw [hc6]
    clear hc6
    clear_value c6
    unfold bidStep GenF.pyInt padBid
    have hdig := isDigitStr_eq_not c6.bid
    cases hd : (!allDigits c6.bid || c6.bid.isEmpty) <;> rw [hd] at hdig
    · by_cases hlt : strToNat c6.bid < 1000
      · cases hn : nextId (natToStr (strToNat c6.bid + 1000)) <;>
          simp [hdig, hlt, hn, tie_resetRolloverFields_error] <;> rfl
      · cases hn : nextId c6.bid <;>
          simp [hdig, hlt, hn, tie_resetRolloverFields_error] <;> rfl
    · simp [hdig]; rfl

end BV
