/-
  Proofs/Tie_pepParse.lean — the definitions GENERATED from the Python source of `setuptools_v65_version.parse`,
  `version.parse_version` and `version.to_pep440` (Gen/F_pepParse.lean, F_pepParseVersion.lean, F_pepToPep440.lean)
  against the hand model's `parseVersion`, `keyOf`, `verStr` (Model/Pep440.lean, section 5).

  Two trusted primitives are PARAMETERS of the generated definitions: the matcher `regex_search` of
  `Version._regex` and `legacy_split` = `_legacy_version_component_re.split`.
  * `TieQ.SplitOk legacy_split` : its non-empty items are the model's `legacyTokens` (what the model says about that regex);
  * `TieQ.SearchOk regex_search`: the groups it reports denote the version the model's recogniser `parsePep` reads
       (`none` exactly when `parsePep` fails).  `groupsOf` (Model/PepGroups.lean) is a matcher written by hand from the
       model's recogniser; Proofs/TieQ_Groups.lean proves `TieQ.SearchOk groupsOf`.

  * `tie_pepParse`, `tie_pepParseVersion` : never raise; the object is `TieQ.pyOf regex_search s` — a `Version` built from
       the groups when the regex matches, else the `LegacyVersion` of the text (for EVERY matcher);
  * `tie_pepToPep440`      : `to_pep440(s)` = the text of that object;
  * `tie_pepParse_model`, `tie_pepParse_key`, `tie_pepToPep440_model` : under `SearchOk`, the object abstracts to the
       model's `parseVersion s`, its `_key` to `keyOf (parseVersion s)`, and `to_pep440(s) = verStr (parseVersion s)`.
-/
import BumpverVerif.Gen.F_pepToPep440
import BumpverVerif.Proofs.Tie_pepVersionStr
import BumpverVerif.Proofs.Tie_pepLegacy
namespace BV
namespace TieQ

/-- what the model says about `_legacy_version_component_re.split` -/
def SplitOk (legacy_split : Str → List Str) : Prop :=
  ∀ t, (legacy_split t).filter (fun p => !p.isEmpty) = legacyTokens t

/-- the matcher agrees with the model's recogniser -/
def SearchOk (regex_search : Str → Option PepGroups) : Prop :=
  ∀ s, (regex_search s).map ofGroups = parsePep s

/-- the `LegacyVersion` object of a text -/
def legacyObjOf (s : Str) : LegacyObj := { _version := s, _key := (-1, legacyKeyParts s) }

/-- what `parse(s)` returns -/
def pyOf (regex_search : Str → Option PepGroups) (s : Str) : PyVersion :=
  match regex_search s with
  | none => .legacy (legacyObjOf s)
  | some g => .pep (objOfGroups g)

/-- the model value of an object -/
def absPy : PyVersion → Parsed
  | .pep o => .pep o._version.abs
  | .legacy o => .legacy o._version o._key.2

/-- the model key of an object's `_key` tuple -/
def keyPy : PyVersion → Key
  | .pep o => absKey o._key
  | .legacy o => .legacy o._key.2

/-- `str(obj)` through the generated `__str__` methods -/
def strPy : PyVersion → Str
  | .pep o => GenQ.pepVersionStr o
  | .legacy o => GenQ.pepLegacyStr o

end TieQ
open TieQ

theorem tie_pepParse (regex_search : Str → Option PepGroups) (legacy_split : Str → List Str) (s : Str)
    (hs : SplitOk legacy_split) :
    GenQ.pepParse regex_search legacy_split s = .ok (pyOf regex_search s) := by
  simp only [GenQ.pepParse, tie_pepVersionInit, pyOf, tie_pepLegacyInit legacy_split s (hs _)]
  cases regex_search s <;> rfl

theorem tie_pepParseVersion (regex_search : Str → Option PepGroups) (legacy_split : Str → List Str) (s : Str)
    (hs : SplitOk legacy_split) :
    GenQ.pepParseVersion regex_search legacy_split s = .ok (pyOf regex_search s) := by
  simp only [GenQ.pepParseVersion, tie_pepParse regex_search legacy_split s hs]

theorem tie_pepToPep440 (regex_search : Str → Option PepGroups) (legacy_split : Str → List Str) (s : Str)
    (hs : SplitOk legacy_split) :
    GenQ.pepToPep440 regex_search legacy_split s = .ok (strPy (pyOf regex_search s)) := by
  simp only [GenQ.pepToPep440, tie_pepParseVersion regex_search legacy_split s hs]
  cases pyOf regex_search s <;> rfl

/-- under `SearchOk` the object `parse(s)` returns is the model's `parseVersion s` -/
theorem tie_pepParse_model (regex_search : Str → Option PepGroups) (s : Str) (hr : SearchOk regex_search) :
    absPy (pyOf regex_search s) = parseVersion s := by
  have h := hr s
  simp only [pyOf, parseVersion]
  cases hm : regex_search s with
  | none => rw [hm] at h; simp only [Option.map_none] at h; rw [← h]; rfl
  | some g => rw [hm] at h; simp only [Option.map_some] at h; rw [← h]; rfl

/-- … and its `_key` is the model's key -/
theorem tie_pepParse_key (regex_search : Str → Option PepGroups) (s : Str) (hr : SearchOk regex_search) :
    keyPy (pyOf regex_search s) = keyOf (parseVersion s) := by
  have h := hr s
  simp only [pyOf, parseVersion]
  cases hm : regex_search s with
  | none => rw [hm] at h; simp only [Option.map_none] at h; rw [← h]; rfl
  | some g =>
    rw [hm] at h; simp only [Option.map_some] at h; rw [← h]
    simp only [keyPy, keyOf, objOfGroups]
    exact absKey_cmpkey_raw (rawOfGroups g)

/-- the text of the object is the model's `verStr` of its model value -/
theorem TieQ.strPy_pyOf (regex_search : Str → Option PepGroups) (s : Str) :
    strPy (pyOf regex_search s) = verStr (absPy (pyOf regex_search s)) := by
  simp only [pyOf]
  cases regex_search s with
  | none => rfl
  | some g =>
    simp only [strPy, absPy, verStr]
    exact tie_pepVersionStr _ (objOfGroups_loc_ne_nil g)

/-- `to_pep440(s) = str(parse(s))` of the model -/
theorem tie_pepToPep440_model (regex_search : Str → Option PepGroups) (legacy_split : Str → List Str) (s : Str)
    (hs : SplitOk legacy_split) (hr : SearchOk regex_search) :
    GenQ.pepToPep440 regex_search legacy_split s = .ok (verStr (parseVersion s)) := by
  rw [tie_pepToPep440 regex_search legacy_split s hs, TieQ.strPy_pyOf, tie_pepParse_model regex_search s hr]

end BV
