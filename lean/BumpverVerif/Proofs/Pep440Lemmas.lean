/-
  Proofs/Pep440Lemmas.lean — helper lemmas for property C16 (Model/Pep440.lean).
  Helper lemmas only; property theorems live in Props/C16.lean.

  Part A: comparators. `LawfulCmp cmp` bundles "`.eq` exactly on equal values, swapping the
          arguments swaps the answer, `.lt` is transitive"; it is preserved by every
          combinator the key comparison is built from.
-/
import BumpverVerif.Model.Pep440
import BumpverVerif.Proofs.Digits
namespace BV

/-! ## Part A: lawful comparators -/

structure LawfulCmp {α : Type} (cmp : α → α → Ordering) : Prop where
  eq_iff : ∀ a b, cmp a b = .eq ↔ a = b
  swap : ∀ a b, cmp b a = (cmp a b).swap
  trans : ∀ a b c, cmp a b = .lt → cmp b c = .lt → cmp a c = .lt

namespace LawfulCmp
variable {α : Type} {cmp : α → α → Ordering}

theorem refl (h : LawfulCmp cmp) (a : α) : cmp a a = .eq := (h.eq_iff a a).mpr rfl

theorem lt_iff_gt (h : LawfulCmp cmp) (a b : α) : cmp a b = .lt ↔ cmp b a = .gt := by
  rw [h.swap a b]; cases cmp a b <;> simp [Ordering.swap]

theorem gt_iff_lt (h : LawfulCmp cmp) (a b : α) : cmp a b = .gt ↔ cmp b a = .lt := by
  rw [h.swap a b]; cases cmp a b <;> simp [Ordering.swap]

/-- `≤` (= "not `.gt`") is transitive -/
theorem le_trans (h : LawfulCmp cmp) (a b c : α) (hab : cmp a b ≠ .gt) (hbc : cmp b c ≠ .gt) :
    cmp a c ≠ .gt := by
  cases h1 : cmp a b with
  | gt => exact absurd h1 hab
  | eq => rw [(h.eq_iff a b).mp h1]; exact hbc
  | lt =>
    cases h2 : cmp b c with
    | gt => exact absurd h2 hbc
    | eq => rw [← (h.eq_iff b c).mp h2, h1]; simp
    | lt => rw [h.trans a b c h1 h2]; simp

theorem le_total (h : LawfulCmp cmp) (a b : α) : cmp a b ≠ .gt ∨ cmp b a ≠ .gt := by
  rw [h.swap a b]; cases cmp a b <;> simp [Ordering.swap]

end LawfulCmp

theorem cmpNat_lt (a b : Nat) : cmpNat a b = .lt ↔ a < b := by
  unfold cmpNat; split
  · simp [*]
  · split <;> simp [*]

theorem cmpNat_eq (a b : Nat) : cmpNat a b = .eq ↔ a = b := by
  unfold cmpNat; split
  · simp; omega
  · split
    · simp; omega
    · simp; omega

theorem cmpNat_gt (a b : Nat) : cmpNat a b = .gt ↔ b < a := by
  unfold cmpNat; split
  · simp; omega
  · split <;> simp [*]

theorem lawful_cmpNat : LawfulCmp cmpNat where
  eq_iff := cmpNat_eq
  swap a b := by
    unfold cmpNat
    split <;> split <;> simp [Ordering.swap] <;> omega
  trans a b c h1 h2 := by
    rw [cmpNat_lt] at *; omega

theorem lawful_cmpChar : LawfulCmp cmpChar where
  eq_iff a b := by unfold cmpChar; rw [cmpNat_eq]; exact Char.toNat_inj
  swap a b := lawful_cmpNat.swap _ _
  trans a b c := lawful_cmpNat.trans _ _ _

theorem then_swap_aux (o1 o2 p1 p2 : Ordering) (h1 : p1 = o1.swap) (h2 : p2 = o2.swap) :
    p1.then p2 = (o1.then o2).swap := by
  subst h1 h2; rw [Ordering.swap_then]

theorem lawful_cmpList {α : Type} {cmp : α → α → Ordering} (h : LawfulCmp cmp) :
    LawfulCmp (cmpList cmp) where
  eq_iff := by
    intro a
    induction a with
    | nil => intro b; cases b <;> simp [cmpList]
    | cons x xs ih =>
      intro b
      cases b with
      | nil => simp [cmpList]
      | cons y ys =>
        simp only [cmpList, Ordering.then_eq_eq, List.cons.injEq]
        rw [h.eq_iff, ih]
  swap := by
    intro a
    induction a with
    | nil => intro b; cases b <;> simp [cmpList, Ordering.swap]
    | cons x xs ih =>
      intro b
      cases b with
      | nil => simp [cmpList, Ordering.swap]
      | cons y ys =>
        simp only [cmpList]
        exact then_swap_aux _ _ _ _ (h.swap _ _) (ih ys)
  trans := by
    intro a
    induction a with
    | nil =>
      intro b c h1 h2
      cases b with
      | nil => simp [cmpList] at h1
      | cons y ys => cases c <;> simp [cmpList] at h2 ⊢
    | cons x xs ih =>
      intro b c h1 h2
      cases b with
      | nil => simp [cmpList] at h1
      | cons y ys =>
        cases c with
        | nil => simp [cmpList] at h2
        | cons z zs =>
          simp only [cmpList, Ordering.then_eq_lt] at h1 h2 ⊢
          rcases h1 with h1 | ⟨h1, h1'⟩
          · rcases h2 with h2 | ⟨h2, _⟩
            · exact Or.inl (h.trans _ _ _ h1 h2)
            · rw [← (h.eq_iff _ _).mp h2]; exact Or.inl h1
          · rw [(h.eq_iff _ _).mp h1]
            rcases h2 with h2 | ⟨h2, h2'⟩
            · exact Or.inl h2
            · exact Or.inr ⟨h2, ih _ _ h1' h2'⟩

theorem lawful_cmpStr : LawfulCmp cmpStr := lawful_cmpList lawful_cmpChar

/-- lexicographic product -/
def cmpProd {α β : Type} (c1 : α → α → Ordering) (c2 : β → β → Ordering) (a b : α × β) : Ordering :=
  (c1 a.1 b.1).then (c2 a.2 b.2)

theorem lawful_cmpProd {α β : Type} {c1 : α → α → Ordering} {c2 : β → β → Ordering}
    (h1 : LawfulCmp c1) (h2 : LawfulCmp c2) : LawfulCmp (cmpProd c1 c2) where
  eq_iff := by
    intro ⟨a1, a2⟩ ⟨b1, b2⟩
    simp only [cmpProd, Ordering.then_eq_eq, Prod.mk.injEq]
    rw [h1.eq_iff, h2.eq_iff]
  swap := by
    intro ⟨a1, a2⟩ ⟨b1, b2⟩
    exact then_swap_aux _ _ _ _ (h1.swap _ _) (h2.swap _ _)
  trans := by
    intro ⟨a1, a2⟩ ⟨b1, b2⟩ ⟨c1', c2'⟩ hab hbc
    simp only [cmpProd, Ordering.then_eq_lt] at hab hbc ⊢
    rcases hab with hab | ⟨hab, hab'⟩
    · rcases hbc with hbc | ⟨hbc, _⟩
      · exact Or.inl (h1.trans _ _ _ hab hbc)
      · rw [← (h1.eq_iff _ _).mp hbc]; exact Or.inl hab
    · rw [(h1.eq_iff _ _).mp hab]
      rcases hbc with hbc | ⟨hbc, hbc'⟩
      · exact Or.inl hbc
      · exact Or.inr ⟨hbc, h2.trans _ _ _ hab' hbc'⟩

theorem lawful_cmpLetNum : LawfulCmp cmpLetNum := lawful_cmpProd lawful_cmpStr lawful_cmpNat

theorem lawful_cmpExt {α : Type} {cmp : α → α → Ordering} (h : LawfulCmp cmp) :
    LawfulCmp (cmpExt cmp) where
  eq_iff := by
    intro a b
    cases a <;> cases b <;> simp [cmpExt]
    exact h.eq_iff _ _
  swap := by
    intro a b
    cases a <;> cases b <;> simp [cmpExt, Ordering.swap]
    exact h.swap _ _
  trans := by
    intro a b c h1 h2
    cases a <;> cases b <;> cases c <;> simp [cmpExt] at h1 h2 ⊢
    exact h.trans _ _ _ h1 h2

theorem lawful_cmpSeg : LawfulCmp cmpSeg where
  eq_iff := by
    intro a b
    cases a <;> cases b <;> simp [cmpSeg]
    · exact cmpNat_eq _ _
    · exact lawful_cmpStr.eq_iff _ _
  swap := by
    intro a b
    cases a <;> cases b <;> simp [cmpSeg, Ordering.swap]
    · exact lawful_cmpNat.swap _ _
    · exact lawful_cmpStr.swap _ _
  trans := by
    intro a b c h1 h2
    cases a <;> cases b <;> cases c <;> simp [cmpSeg] at h1 h2 ⊢
    · exact lawful_cmpNat.trans _ _ _ h1 h2
    · exact lawful_cmpStr.trans _ _ _ h1 h2

/-- the comparator of the six items of a PEP 440 key, as a nested lexicographic product -/
def cmpPepTuple :
    Nat × List Nat × Ext (Str × Nat) × Ext Nat × Ext Nat × Ext (List LocalSeg) →
    Nat × List Nat × Ext (Str × Nat) × Ext Nat × Ext Nat × Ext (List LocalSeg) → Ordering :=
  cmpProd cmpNat <| cmpProd (cmpList cmpNat) <| cmpProd (cmpExt cmpLetNum) <|
    cmpProd (cmpExt cmpNat) <| cmpProd (cmpExt cmpNat) (cmpExt (cmpList cmpSeg))

theorem lawful_cmpPepTuple : LawfulCmp cmpPepTuple :=
  lawful_cmpProd lawful_cmpNat <| lawful_cmpProd (lawful_cmpList lawful_cmpNat) <|
    lawful_cmpProd (lawful_cmpExt lawful_cmpLetNum) <| lawful_cmpProd (lawful_cmpExt lawful_cmpNat) <|
      lawful_cmpProd (lawful_cmpExt lawful_cmpNat) (lawful_cmpExt (lawful_cmpList lawful_cmpSeg))

theorem cmpKey_pep_pep (e : Nat) (r : List Nat) (p : Ext (Str × Nat)) (po d : Ext Nat)
    (l : Ext (List LocalSeg)) (e' : Nat) (r' : List Nat) (p' : Ext (Str × Nat)) (po' d' : Ext Nat)
    (l' : Ext (List LocalSeg)) :
    cmpKey (.pep e r p po d l) (.pep e' r' p' po' d' l')
      = cmpPepTuple (e, r, p, po, d, l) (e', r', p', po', d', l') := rfl

theorem lawful_cmpKey : LawfulCmp cmpKey where
  eq_iff := by
    intro a b
    cases a with
    | legacy p =>
      cases b with
      | legacy q => simp only [cmpKey, Key.legacy.injEq]; exact (lawful_cmpList lawful_cmpStr).eq_iff _ _
      | pep => simp [cmpKey]
    | pep e r p po d l =>
      cases b with
      | legacy q => simp [cmpKey]
      | pep e' r' p' po' d' l' =>
        rw [cmpKey_pep_pep, lawful_cmpPepTuple.eq_iff]
        simp only [Prod.mk.injEq, Key.pep.injEq]
  swap := by
    intro a b
    cases a with
    | legacy p =>
      cases b with
      | legacy q => exact (lawful_cmpList lawful_cmpStr).swap _ _
      | pep => simp [cmpKey, Ordering.swap]
    | pep e r p po d l =>
      cases b with
      | legacy q => simp [cmpKey, Ordering.swap]
      | pep e' r' p' po' d' l' =>
        rw [cmpKey_pep_pep, cmpKey_pep_pep]; exact lawful_cmpPepTuple.swap _ _
  trans := by
    intro a b c h1 h2
    cases a with
    | legacy p =>
      cases b with
      | legacy q =>
        cases c with
        | legacy r => exact (lawful_cmpList lawful_cmpStr).trans _ _ _ h1 h2
        | pep => rfl
      | pep =>
        cases c with
        | legacy r => simp [cmpKey] at h2
        | pep => rfl
    | pep e r p po d l =>
      cases b with
      | legacy q => simp [cmpKey] at h1
      | pep e' r' p' po' d' l' =>
        cases c with
        | legacy r => simp [cmpKey] at h2
        | pep e'' r'' p'' po'' d'' l'' =>
          rw [cmpKey_pep_pep] at *
          exact lawful_cmpPepTuple.trans _ _ _ h1 h2

/-- `cmpStr` is Python's `str` order: its `.lt` is `strLt` of Model/Basic -/
theorem cmpStr_lt_iff_strLt : ∀ (a b : Str), cmpStr a b = .lt ↔ strLt a b = true := by
  intro a
  induction a with
  | nil => intro b; cases b <;> simp [cmpStr, cmpList, strLt]
  | cons x xs ih =>
    intro b
    cases b with
    | nil => simp [cmpStr, cmpList, strLt]
    | cons y ys =>
      have ih' := ih ys
      simp only [cmpStr] at ih'
      simp only [cmpStr, cmpList, Ordering.then_eq_lt, strLt_cons_cons, cmpChar, cmpNat_lt, cmpNat_eq]
      rw [ih', Char.toNat_inj]
      by_cases hxy : x < y
      · simp [hxy, (char_lt_iff x y).mp hxy]
      · by_cases hyx : y < x
        · have h1 := (char_lt_iff y x).mp hyx
          have : ¬ x.toNat < y.toNat := by omega
          have hne : x ≠ y := by intro h; subst h; omega
          simp [hxy, hyx, this, hne]
        · have : x = y := char_eq_of_not_lt x y hxy hyx
          subst this
          simp [Char.lt_irrefl]

/-! ## Part B: release comparison — stripping trailing zeros vs padding with zeros -/

theorem stripTrailingZeros_nil : stripTrailingZeros [] = [] := rfl

theorem stripTrailingZeros_cons (x : Nat) (xs : List Nat) :
    stripTrailingZeros (x :: xs)
      = if x = 0 ∧ stripTrailingZeros xs = [] then [] else x :: stripTrailingZeros xs := by
  unfold stripTrailingZeros
  rw [List.reverse_cons, List.dropWhile_append]
  by_cases h : (List.dropWhile (· == 0) xs.reverse) = []
  · rw [h]
    by_cases hx : x = 0
    · simp [hx]
    · simp [hx]
  · have h' : (List.dropWhile (· == 0) xs.reverse).isEmpty = false := by
      cases hh : List.dropWhile (· == 0) xs.reverse with
      | nil => exact absurd hh h
      | cons _ _ => rfl
    rw [h']
    simp [h]

/-- compare after padding the shorter list with zeros -/
def cmpPad : List Nat → List Nat → Ordering
  | [], [] => .eq
  | [], y :: ys => (cmpNat 0 y).then (cmpPad [] ys)
  | x :: xs, [] => (cmpNat x 0).then (cmpPad xs [])
  | x :: xs, y :: ys => (cmpNat x y).then (cmpPad xs ys)

theorem cmpPad_nil_left (s : List Nat) :
    cmpPad [] s = if stripTrailingZeros s = [] then .eq else .lt := by
  induction s with
  | nil => simp [cmpPad, stripTrailingZeros_nil]
  | cons y ys ih =>
    rw [cmpPad, ih, stripTrailingZeros_cons]
    by_cases hy : y = 0
    · subst hy
      by_cases h : stripTrailingZeros ys = [] <;> simp [h, cmpNat]
    · have : cmpNat 0 y = .lt := (cmpNat_lt 0 y).mpr (by omega)
      simp [hy, this]

theorem cmpPad_nil_right (r : List Nat) :
    cmpPad r [] = if stripTrailingZeros r = [] then .eq else .gt := by
  induction r with
  | nil => simp [cmpPad, stripTrailingZeros_nil]
  | cons x xs ih =>
    rw [cmpPad, ih, stripTrailingZeros_cons]
    by_cases hx : x = 0
    · subst hx
      by_cases h : stripTrailingZeros xs = [] <;> simp [h, cmpNat]
    · have : cmpNat x 0 = .gt := (cmpNat_gt x 0).mpr (by omega)
      simp [hx, this]

theorem cmpList_nil_left {α : Type} (cmp : α → α → Ordering) (s : List α) :
    cmpList cmp [] s = if s = [] then .eq else .lt := by
  cases s <;> simp [cmpList]

theorem cmpList_nil_right {α : Type} (cmp : α → α → Ordering) (r : List α) :
    cmpList cmp r [] = if r = [] then .eq else .gt := by
  cases r <;> simp [cmpList]

/-- the implementation's release comparison (strip, then tuple order) is "pad, then compare" -/
theorem cmp_strip_eq_cmpPad : ∀ (r s : List Nat),
    cmpList cmpNat (stripTrailingZeros r) (stripTrailingZeros s) = cmpPad r s := by
  intro r
  induction r with
  | nil => intro s; rw [stripTrailingZeros_nil, cmpList_nil_left, cmpPad_nil_left]
  | cons x xs ih =>
    intro s
    cases s with
    | nil => rw [stripTrailingZeros_nil, cmpList_nil_right, cmpPad_nil_right]
    | cons y ys =>
      rw [cmpPad, ← ih ys, stripTrailingZeros_cons, stripTrailingZeros_cons]
      by_cases h1 : x = 0 ∧ stripTrailingZeros xs = []
      · rw [if_pos h1, h1.1, h1.2]
        by_cases h2 : y = 0 ∧ stripTrailingZeros ys = []
        · rw [if_pos h2, h2.1, h2.2]; rfl
        · rw [if_neg h2]
          simp only [cmpList]
          by_cases hy : y = 0
          · have : stripTrailingZeros ys ≠ [] := fun h => h2 ⟨hy, h⟩
            subst hy
            rw [cmpList_nil_left, if_neg this]; rfl
          · rw [(cmpNat_lt 0 y).mpr (by omega)]; rfl
      · rw [if_neg h1]
        by_cases h2 : y = 0 ∧ stripTrailingZeros ys = []
        · rw [if_pos h2, h2.1, h2.2]
          simp only [cmpList]
          by_cases hx : x = 0
          · have : stripTrailingZeros xs ≠ [] := fun h => h1 ⟨hx, h⟩
            subst hx
            rw [cmpList_nil_right, if_neg this]; rfl
          · rw [(cmpNat_gt x 0).mpr (by omega)]; rfl
        · rw [if_neg h2]; rfl

theorem exists_nat_split (P : Nat → Prop) : (∃ i, P i) ↔ P 0 ∨ ∃ i, P (i + 1) := by
  constructor
  · rintro ⟨i, hi⟩
    cases i with
    | zero => exact Or.inl hi
    | succ k => exact Or.inr ⟨k, hi⟩
  · rintro (h | ⟨i, hi⟩)
    · exact ⟨0, h⟩
    · exact ⟨i + 1, hi⟩

theorem forall_nat_split (P : Nat → Prop) : (∀ i, P i) ↔ P 0 ∧ ∀ i, P (i + 1) := by
  constructor
  · intro h; exact ⟨h 0, fun i => h (i + 1)⟩
  · rintro ⟨h0, hs⟩ i
    cases i with
    | zero => exact h0
    | succ k => exact hs k

theorem forall_lt_succ_split (P : Nat → Prop) (i : Nat) :
    (∀ j, j < i + 1 → P j) ↔ P 0 ∧ ∀ j, j < i → P (j + 1) := by
  constructor
  · intro h; exact ⟨h 0 (by omega), fun j hj => h (j + 1) (by omega)⟩
  · rintro ⟨h0, hs⟩ j hj
    cases j with
    | zero => exact h0
    | succ k => exact hs k (by omega)

/-- "first differing component decides", on component functions -/
theorem lexLt_fun_step (f g : Nat → Nat) :
    (∃ i, (∀ j, j < i → f j = g j) ∧ f i < g i) ↔
      f 0 < g 0 ∨ (f 0 = g 0 ∧ ∃ i, (∀ j, j < i → f (j + 1) = g (j + 1)) ∧ f (i + 1) < g (i + 1)) := by
  rw [exists_nat_split]
  constructor
  · rintro (⟨_, h⟩ | ⟨i, hi, hlt⟩)
    · exact Or.inl h
    · rw [forall_lt_succ_split] at hi
      exact Or.inr ⟨hi.1, i, hi.2, hlt⟩
  · rintro (h | ⟨h0, i, hi, hlt⟩)
    · exact Or.inl ⟨fun j hj => absurd hj (by omega), h⟩
    · exact Or.inr ⟨i, (forall_lt_succ_split _ i).mpr ⟨h0, hi⟩, hlt⟩

theorem cmpPad_lt_iff : ∀ (r s : List Nat), cmpPad r s = .lt ↔
    ∃ i, (∀ j, j < i → r.getD j 0 = s.getD j 0) ∧ r.getD i 0 < s.getD i 0 := by
  intro r
  induction r with
  | nil =>
    intro s
    induction s with
    | nil => simp [cmpPad]
    | cons y ys ih =>
      rw [lexLt_fun_step, cmpPad, Ordering.then_eq_lt, cmpNat_lt, cmpNat_eq, ih]
      simp only [List.getD_nil, List.getD_cons_zero, List.getD_cons_succ]
  | cons x xs ih =>
    intro s
    cases s with
    | nil =>
      rw [lexLt_fun_step, cmpPad, Ordering.then_eq_lt, cmpNat_lt, cmpNat_eq, ih]
      simp only [List.getD_nil, List.getD_cons_zero, List.getD_cons_succ]
    | cons y ys =>
      rw [lexLt_fun_step, cmpPad, Ordering.then_eq_lt, cmpNat_lt, cmpNat_eq, ih]
      simp only [List.getD_cons_zero, List.getD_cons_succ]

theorem cmpPad_eq_iff : ∀ (r s : List Nat), cmpPad r s = .eq ↔ ∀ i, r.getD i 0 = s.getD i 0 := by
  intro r
  induction r with
  | nil =>
    intro s
    induction s with
    | nil => simp [cmpPad]
    | cons y ys ih =>
      rw [forall_nat_split, cmpPad, Ordering.then_eq_eq, cmpNat_eq, ih]
      simp only [List.getD_nil, List.getD_cons_zero, List.getD_cons_succ]
  | cons x xs ih =>
    intro s
    cases s with
    | nil =>
      rw [forall_nat_split, cmpPad, Ordering.then_eq_eq, cmpNat_eq, ih]
      simp only [List.getD_nil, List.getD_cons_zero, List.getD_cons_succ]
    | cons y ys =>
      rw [forall_nat_split, cmpPad, Ordering.then_eq_eq, cmpNat_eq, ih]
      simp only [List.getD_cons_zero, List.getD_cons_succ]

theorem cmp_release_lt_iff (r s : List Nat) :
    cmpList cmpNat (stripTrailingZeros r) (stripTrailingZeros s) = .lt ↔
      ∃ i, (∀ j, j < i → r.getD j 0 = s.getD j 0) ∧ r.getD i 0 < s.getD i 0 := by
  rw [cmp_strip_eq_cmpPad, cmpPad_lt_iff]

theorem cmp_release_eq_iff (r s : List Nat) :
    cmpList cmpNat (stripTrailingZeros r) (stripTrailingZeros s) = .eq ↔
      ∀ i, r.getD i 0 = s.getD i 0 := by
  rw [cmp_strip_eq_cmpPad, cmpPad_eq_iff]

/-! ## Part C: tuple order as "first differing position, or proper prefix" -/

theorem cmpList_lt_iff {α : Type} {cmp : α → α → Ordering} (h : LawfulCmp cmp) :
    ∀ (a b : List α), cmpList cmp a b = .lt ↔
      (∃ p x y a' b', a = p ++ x :: a' ∧ b = p ++ y :: b' ∧ cmp x y = .lt) ∨
      (∃ y t, b = a ++ y :: t) := by
  intro a
  induction a with
  | nil =>
    intro b
    cases b with
    | nil => simp [cmpList]
    | cons y ys =>
      simp only [cmpList, true_iff]
      exact Or.inr ⟨y, ys, rfl⟩
  | cons x xs ih =>
    intro b
    cases b with
    | nil => 
      simp only [cmpList, reduceCtorEq, false_iff]
      rintro (⟨p, x', y', a', b', _, hb, _⟩ | ⟨y, t, hb⟩)
      · cases p <;> simp at hb
      · simp at hb
    | cons y ys =>
      simp only [cmpList, Ordering.then_eq_lt]
      constructor
      · rintro (hlt | ⟨heq, hrest⟩)
        · exact Or.inl ⟨[], x, y, xs, ys, rfl, rfl, hlt⟩
        · have hxy := (h.eq_iff x y).mp heq
          subst hxy
          rcases (ih ys).mp hrest with ⟨p, x', y', a', b', ha, hb, hlt⟩ | ⟨y', t, hb⟩
          · exact Or.inl ⟨x :: p, x', y', a', b', by rw [ha]; rfl, by rw [hb]; rfl, hlt⟩
          · exact Or.inr ⟨y', t, by rw [hb]; rfl⟩
      · rintro (⟨p, x', y', a', b', ha, hb, hlt⟩ | ⟨y', t, hb⟩)
        · cases p with
          | nil =>
            simp only [List.nil_append, List.cons.injEq] at ha hb
            rw [ha.1, hb.1]; exact Or.inl hlt
          | cons z p' =>
            simp only [List.cons_append, List.cons.injEq] at ha hb
            rw [ha.1, hb.1]
            exact Or.inr ⟨h.refl z, (ih ys).mpr (Or.inl ⟨p', x', y', a', b', ha.2, hb.2, hlt⟩)⟩
        · simp only [List.cons_append, List.cons.injEq] at hb
          rw [hb.1]
          exact Or.inr ⟨h.refl x, (ih ys).mpr (Or.inr ⟨y', t, hb.2⟩)⟩

/-! ## Part D: small facts used by the bridge to the specification -/

theorem preKeyOf_some (v : PepVersion) (p : Str × Nat) (h : v.pre = some p) : preKeyOf v = .val p := by
  unfold preKeyOf; rw [h]

theorem bridge_letters :
    cmpStr ['a'] ['a'] = .eq ∧ cmpStr ['a'] ['b'] = .lt ∧ cmpStr ['a'] ['r', 'c'] = .lt ∧
    cmpStr ['b'] ['a'] = .gt ∧ cmpStr ['b'] ['b'] = .eq ∧ cmpStr ['b'] ['r', 'c'] = .lt ∧
    cmpStr ['r', 'c'] ['a'] = .gt ∧ cmpStr ['r', 'c'] ['b'] = .gt ∧ cmpStr ['r', 'c'] ['r', 'c'] = .eq := by
  decide

theorem then_assoc4 (a b c d : Ordering) :
    a.then (b.then (c.then d)) = (a.then (b.then c)).then d := by
  cases a <;> cases b <;> cases c <;> rfl

/-! ## Part E: the recogniser on canonical text (round trip) and what it can produce -/

/-- the pre-release letter is one of the three normal forms -/
def WfPre (v : PepVersion) : Prop :=
  ∀ l n, v.pre = some (l, n) → l = ['a'] ∨ l = ['b'] ∨ l = ['r', 'c']

theorem WfPre_of_wfPep (v : PepVersion) (h : wfPep v = true) : WfPre v := by
  intro l n hp
  simp only [wfPep, hp, Bool.and_eq_true, Bool.or_eq_true, beq_iff_eq] at h
  exact (by simpa [or_assoc] using h.1.2)

/-! ### digit strings followed by a non-digit -/

/-- the text does not start with a digit -/
def NoDigitHead (s : Str) : Prop := ∀ c t, s = c :: t → isDigit c = false

theorem takeWhile_digits_append (a b : Str) (ha : allDigits a = true) (hb : NoDigitHead b) :
    (a ++ b).takeWhile isDigit = a ∧ (a ++ b).dropWhile isDigit = b := by
  induction a with
  | nil =>
    cases b with
    | nil => simp
    | cons c t => simp [hb c t rfl]
  | cons x xs ih =>
    rw [allDigits_cons] at ha
    have := ih ha.2
    simp [ha.1, this.1, this.2]

theorem natToStr_cons (n : Nat) : ∃ c t, natToStr n = c :: t ∧ isDigit c = true := by
  have h := allDigits_natToStr n
  cases hs : natToStr n with
  | nil => exact absurd hs (natToStr_ne_nil n)
  | cons c t =>
    rw [hs, allDigits_cons] at h
    exact ⟨c, t, rfl, h.1⟩

theorem noDigitHead_nil : NoDigitHead [] := by intro c t h; cases h

theorem noDigitHead_cons (c : Char) (t : Str) (h : isDigit c = false) : NoDigitHead (c :: t) := by
  intro c' t' h'
  cases h'; exact h

/-! ### characters -/

theorem isDigit_toNat (c : Char) (h : isDigit c = true) : 48 ≤ c.toNat ∧ c.toNat ≤ 57 :=
  (isDigit_iff c).mp h

theorem isLower_iff (c : Char) : isLower c = true ↔ 97 ≤ c.toNat ∧ c.toNat ≤ 122 := by
  simp only [isLower, Bool.and_eq_true, decide_eq_true_eq, Char.le_def]
  exact Iff.rfl

theorem isUpper_iff (c : Char) : isUpper c = true ↔ 65 ≤ c.toNat ∧ c.toNat ≤ 90 := by
  simp only [isUpper, Bool.and_eq_true, decide_eq_true_eq, Char.le_def]
  exact Iff.rfl

theorem char_ne_of_toNat_ne (c d : Char) (h : c.toNat ≠ d.toNat) : c ≠ d := by
  intro hcd; subst hcd; exact h rfl

/-- characters of canonical text: digits, lower-case letters, `.`, `!`, `+` -/
def isCanon (c : Char) : Bool := isDigit c || isLower c || c == '.' || c == '!' || c == '+'

theorem isCanon_toNat (c : Char) (h : isCanon c = true) :
    (48 ≤ c.toNat ∧ c.toNat ≤ 57) ∨ (97 ≤ c.toNat ∧ c.toNat ≤ 122) ∨ c.toNat = 46 ∨ c.toNat = 33 ∨
      c.toNat = 43 := by
  simp only [isCanon, Bool.or_eq_true, beq_iff_eq] at h
  rcases h with (((h | h) | h) | h) | h
  · exact Or.inl ((isDigit_iff c).mp h)
  · exact Or.inr (Or.inl ((isLower_iff c).mp h))
  · subst h; decide
  · subst h; decide
  · subst h; decide

theorem toLower_of_canon (c : Char) (h : isCanon c = true) : toLowerAscii c = c := by
  have h' := isCanon_toNat c h
  have : isUpper c = false := by
    cases hu : isUpper c with
    | false => rfl
    | true => have := (isUpper_iff c).mp hu; omega
  simp [toLowerAscii, this]

theorem notSpace_of_canon (c : Char) (h : isCanon c = true) : isReSpace c = false := by
  have h' := isCanon_toNat c h
  simp only [isReSpace, Bool.or_eq_false_iff, Bool.and_eq_false_iff, decide_eq_false_iff_not]
  omega

theorem lowerStr_of_canon (s : Str) (h : s.all isCanon = true) : lowerStr s = s := by
  induction s with
  | nil => rfl
  | cons c cs ih =>
    simp only [List.all_cons, Bool.and_eq_true] at h
    simp only [lowerStr, List.map_cons, List.cons.injEq] at ih ⊢
    exact ⟨toLower_of_canon c h.1, ih h.2⟩

theorem dropWhile_of_all_false {α : Type} (p : α → Bool) (s : List α) (h : ∀ c ∈ s, p c = false) :
    s.dropWhile p = s := by
  cases s with
  | nil => rfl
  | cons c cs => simp [h c (by simp)]

theorem reStrip_of_canon (s : Str) (h : s.all isCanon = true) : reStrip s = s := by
  have h1 : ∀ c ∈ s, isReSpace c = false := by
    intro c hc
    exact notSpace_of_canon c (List.all_eq_true.mp h c hc)
  unfold reStrip
  rw [dropWhile_of_all_false _ s h1, dropWhile_of_all_false _ s.reverse (by simpa using h1)]
  simp

theorem dropV_of_digit (c : Char) (t : Str) (h : isDigit c = true) : dropV (c :: t) = c :: t := by
  unfold dropV
  split
  · next r heq =>
    cases heq
    exact absurd h (by decide)
  · rfl

/-! ### epoch and first release component -/

theorem headSeg_noEpoch (ds X : Str) (hne : ds ≠ []) (hd : allDigits ds = true) (hX : NoDigitHead X)
    (hb : ∀ t, X ≠ '!' :: t) : headSeg (ds ++ X) = some (0, ds, X) := by
  have h := takeWhile_digits_append ds X hd hX
  have hemp : ds.isEmpty = false := by cases ds <;> simp_all
  simp only [headSeg, h.1, h.2, hemp, Bool.false_eq_true, ↓reduceIte]

theorem headSeg_epoch (es ds X : Str) (hes : es ≠ []) (hed : allDigits es = true) (hne : ds ≠ [])
    (hd : allDigits ds = true) (hX : NoDigitHead X) :
    headSeg (es ++ '!' :: (ds ++ X)) = some (strToNat es, ds, X) := by
  have h := takeWhile_digits_append es ('!' :: (ds ++ X)) hed (noDigitHead_cons _ _ (by decide))
  have h2 := takeWhile_digits_append ds X hd hX
  have hemp : es.isEmpty = false := by cases es <;> simp_all
  have hemp2 : ds.isEmpty = false := by cases ds <;> simp_all
  simp only [headSeg, h.1, h.2, hemp, h2.1, h2.2, hemp2]
  rfl

/-! ### further release components -/

/-- the text does not continue the release: no `.digit` -/
def StopsRel (s : Str) : Prop := ∀ c t, s = '.' :: c :: t → isDigit c = false

theorem relTailF_stop (f : Nat) (T : Str) (h : StopsRel T) : relTailF f T = ([], T) := by
  unfold relTailF
  split
  · rfl
  · next c cs => simp [h c cs rfl]
  · rfl

/-- `.N.M…` -/
def relTailStr : List Nat → Str
  | [] => []
  | n :: rs => '.' :: (natToStr n ++ relTailStr rs)

theorem join_release (r0 : Nat) (rs : List Nat) :
    join ['.'] ((r0 :: rs).map natToStr) = natToStr r0 ++ relTailStr rs := by
  induction rs generalizing r0 with
  | nil => simp [join, relTailStr]
  | cons n rs ih =>
    have := ih n
    simp only [List.map_cons] at this ⊢
    simp only [join, this, relTailStr, List.append_assoc, List.cons_append, List.nil_append]

theorem noDigitHead_relTail (rs : List Nat) (T : Str) (hT : NoDigitHead T) :
    NoDigitHead (relTailStr rs ++ T) := by
  cases rs with
  | nil => exact hT
  | cons n rs => exact noDigitHead_cons _ _ (by decide)

theorem relTailF_canon (rs : List Nat) (T : Str) (hT : StopsRel T) (hT2 : NoDigitHead T) :
    ∀ f, rs.length ≤ f → relTailF f (relTailStr rs ++ T) = (rs.map natToStr, T) := by
  induction rs with
  | nil => intro f _; exact relTailF_stop f T hT
  | cons n rs ih =>
    intro f hf
    cases f with
    | zero => simp at hf
    | succ f =>
      obtain ⟨c, t, hn, hc⟩ := natToStr_cons n
      have h := takeWhile_digits_append (natToStr n) (relTailStr rs ++ T) (allDigits_natToStr n)
        (noDigitHead_relTail rs T hT2)
      rw [hn] at h
      simp only [List.cons_append] at h
      simp only [relTailStr, hn, List.cons_append, List.append_assoc, relTailF, hc, if_true, h.1, h.2,
        ih f (by simpa using hf), List.map_cons]

/-! ### letter segments -/

theorem isSep_digit (c : Char) (h : isDigit c = true) : isSep c = false := by
  have := (isDigit_iff c).mp h
  simp only [isSep, Bool.or_eq_false_iff, beq_eq_false_iff_ne, ne_eq]
  refine ⟨⟨?_, ?_⟩, ?_⟩ <;> (apply char_ne_of_toNat_ne; simp; omega)

theorem dropOptSep_digits (ds T : Str) (hd : allDigits ds = true) (hne : ds ≠ []) :
    dropOptSep (ds ++ T) = ds ++ T := by
  cases ds with
  | nil => exact absurd rfl hne
  | cons c t =>
    rw [allDigits_cons] at hd
    simp [dropOptSep, isSep_digit c hd.1]

theorem digit_ne_letter (c x : Char) (h : isDigit c = true) (hx : 58 ≤ x.toNat) : ¬ x = c := by
  have := (isDigit_iff c).mp h
  intro hxc; subst hxc; omega

/-- after the letter: optional separator (none), digits, rest -/
theorem letterSeg_tail (ds T : Str) (hd : allDigits ds = true) (hne : ds ≠ []) (hT : NoDigitHead T) :
    (dropOptSep (ds ++ T)).takeWhile isDigit = ds ∧ (dropOptSep (ds ++ T)).dropWhile isDigit = T := by
  rw [dropOptSep_digits ds T hd hne]
  exact takeWhile_digits_append ds T hd hT

theorem letterSeg_of_firstPrefix (ws : List (Str × Str)) (s l ds T : Str)
    (h : firstPrefix ws (dropOptSep s) = some (l, ds ++ T))
    (hd : allDigits ds = true) (hne : ds ≠ []) (hT : NoDigitHead T) :
    letterSeg ws s = some ((l, strToNat ds), T) := by
  have ht := letterSeg_tail ds T hd hne hT
  simp only [letterSeg, h, ht.1, ht.2]

theorem letterSeg_pre_a (ds T : Str) (hd : allDigits ds = true) (hne : ds ≠ []) (hT : NoDigitHead T) :
    letterSeg preWords ('a' :: (ds ++ T)) = some ((['a'], strToNat ds), T) := by
  apply letterSeg_of_firstPrefix _ _ _ _ _ _ hd hne hT
  cases ds with
  | nil => exact absurd rfl hne
  | cons c t =>
    have hc := ((allDigits_cons c t).mp hd).1
    have h1 := digit_ne_letter c 'l' hc (by decide)
    simp [dropOptSep, isSep, preWords, firstPrefix, dropPrefix?, h1]

theorem letterSeg_pre_b (ds T : Str) (hd : allDigits ds = true) (hne : ds ≠ []) (hT : NoDigitHead T) :
    letterSeg preWords ('b' :: (ds ++ T)) = some ((['b'], strToNat ds), T) := by
  apply letterSeg_of_firstPrefix _ _ _ _ _ _ hd hne hT
  cases ds with
  | nil => exact absurd rfl hne
  | cons c t =>
    have hc := ((allDigits_cons c t).mp hd).1
    have h1 := digit_ne_letter c 'e' hc (by decide)
    simp [dropOptSep, isSep, preWords, firstPrefix, dropPrefix?, h1]

theorem letterSeg_pre_rc (ds T : Str) (hd : allDigits ds = true) (hne : ds ≠ []) (hT : NoDigitHead T) :
    letterSeg preWords ('r' :: 'c' :: (ds ++ T)) = some ((['r', 'c'], strToNat ds), T) := by
  apply letterSeg_of_firstPrefix _ _ _ _ _ _ hd hne hT
  simp [dropOptSep, isSep, preWords, firstPrefix, dropPrefix?]

theorem letterSeg_post (ds T : Str) (hd : allDigits ds = true) (hne : ds ≠ []) (hT : NoDigitHead T) :
    letterSeg postWords (".post".toList ++ (ds ++ T)) = some ((['p', 'o', 's', 't'], strToNat ds), T) := by
  apply letterSeg_of_firstPrefix _ _ _ _ _ _ hd hne hT
  simp [dropOptSep, isSep, postWords, firstPrefix, dropPrefix?]

theorem letterSeg_dev (ds T : Str) (hd : allDigits ds = true) (hne : ds ≠ []) (hT : NoDigitHead T) :
    letterSeg devWords (".dev".toList ++ (ds ++ T)) = some ((['d', 'e', 'v'], strToNat ds), T) := by
  apply letterSeg_of_firstPrefix _ _ _ _ _ _ hd hne hT
  simp [dropOptSep, isSep, devWords, firstPrefix, dropPrefix?]

/-! ### the text after the release: shapes of its beginning -/

theorem stopsRel_nil : StopsRel [] := by intro c t h; cases h

theorem stopsRel_cons_ne (c : Char) (t : Str) (h : c ≠ '.') : StopsRel (c :: t) := by
  intro c' t' h'
  injection h' with h1 _
  exact absurd h1 h

theorem stopsRel_dot (c : Char) (t : Str) (h : isDigit c = false) : StopsRel ('.' :: c :: t) := by
  intro c' t' h'
  injection h' with _ h2
  injection h2 with h3 _
  rw [← h3]; exact h

/-- a beginning that cannot continue a number, a release, or be taken for `!` -/
def TailOK (s : Str) : Prop := NoDigitHead s ∧ StopsRel s ∧ ∀ t, s ≠ '!' :: t

theorem tailOK_nil : TailOK [] := ⟨noDigitHead_nil, stopsRel_nil, fun _ h => by cases h⟩

theorem tailOK_cons (c : Char) (t : Str) (h1 : isDigit c = false) (h2 : c ≠ '.') (h3 : c ≠ '!') :
    TailOK (c :: t) :=
  ⟨noDigitHead_cons c t h1, stopsRel_cons_ne c t h2, fun _ h => by injection h with h _; exact h3 h⟩

theorem tailOK_dot (c : Char) (t : Str) (h : isDigit c = false) : TailOK ('.' :: c :: t) :=
  ⟨noDigitHead_cons _ _ (by decide), stopsRel_dot c t h, fun _ h => by injection h with h _; cases h⟩

theorem tailOK_loc (loc : Option (List LocalSeg)) : TailOK (locStr loc) := by
  cases loc with
  | none => exact tailOK_nil
  | some l => exact tailOK_cons _ _ (by decide) (by decide) (by decide)

theorem tailOK_dev (dev : Option Nat) (loc : Option (List LocalSeg)) :
    TailOK (devStr dev ++ locStr loc) := by
  cases dev with
  | none => exact tailOK_loc loc
  | some n => exact tailOK_dot _ _ (by decide)

theorem tailOK_post (post dev : Option Nat) (loc : Option (List LocalSeg)) :
    TailOK (postStr post ++ (devStr dev ++ locStr loc)) := by
  cases post with
  | none => exact tailOK_dev dev loc
  | some n => exact tailOK_dot _ _ (by decide)

theorem tailOK_pre (pre : Option (Str × Nat)) (post dev : Option Nat) (loc : Option (List LocalSeg))
    (hpre : ∀ l n, pre = some (l, n) → l = ['a'] ∨ l = ['b'] ∨ l = ['r', 'c']) :
    TailOK (preStr pre ++ (postStr post ++ (devStr dev ++ locStr loc))) := by
  cases pre with
  | none => exact tailOK_post post dev loc
  | some p =>
    obtain ⟨l, n⟩ := p
    rcases hpre l n rfl with rfl | rfl | rfl <;>
      exact tailOK_cons _ _ (by decide) (by decide) (by decide)

/-! ### the optional groups on canonical text -/

theorem preSeg_some (l : Str) (n : Nat) (T : Str) (hl : l = ['a'] ∨ l = ['b'] ∨ l = ['r', 'c'])
    (hT : NoDigitHead T) : preSeg (preStr (some (l, n)) ++ T) = (some (l, n), T) := by
  have hd := allDigits_natToStr n
  have hne := natToStr_ne_nil n
  rcases hl with rfl | rfl | rfl
  · simp only [preSeg, preStr, List.cons_append, List.nil_append,
      letterSeg_pre_a _ T hd hne hT, strToNat_natToStr]
  · simp only [preSeg, preStr, List.cons_append, List.nil_append,
      letterSeg_pre_b _ T hd hne hT, strToNat_natToStr]
  · simp only [preSeg, preStr, List.cons_append, List.nil_append,
      letterSeg_pre_rc _ T hd hne hT, strToNat_natToStr]

theorem preSeg_none (post dev : Option Nat) (loc : Option (List LocalSeg)) :
    preSeg (postStr post ++ (devStr dev ++ locStr loc)) = (none, postStr post ++ (devStr dev ++ locStr loc)) := by
  cases post <;> cases dev <;> cases loc <;>
    simp [preSeg, letterSeg, postStr, devStr, locStr, dropOptSep, isSep, preWords, firstPrefix, dropPrefix?]

theorem postSeg_some (n : Nat) (T : Str) (hT : NoDigitHead T) :
    postSeg (postStr (some n) ++ T) = (some n, T) := by
  have h : letterSeg postWords ('.' :: 'p' :: 'o' :: 's' :: 't' :: (natToStr n ++ T))
      = some ((['p', 'o', 's', 't'], strToNat (natToStr n)), T) :=
    letterSeg_post (natToStr n) T (allDigits_natToStr n) (natToStr_ne_nil n) hT
  simp [postSeg, postStr, h, strToNat_natToStr]

theorem postSeg_none (dev : Option Nat) (loc : Option (List LocalSeg)) :
    postSeg (devStr dev ++ locStr loc) = (none, devStr dev ++ locStr loc) := by
  cases dev <;> cases loc <;>
    simp [postSeg, letterSeg, devStr, locStr, dropOptSep, isSep, postWords, firstPrefix, dropPrefix?]

theorem devSeg_some (n : Nat) (T : Str) (hT : NoDigitHead T) :
    devSeg (devStr (some n) ++ T) = (some n, T) := by
  have h : letterSeg devWords ('.' :: 'd' :: 'e' :: 'v' :: (natToStr n ++ T))
      = some ((['d', 'e', 'v'], strToNat (natToStr n)), T) :=
    letterSeg_dev (natToStr n) T (allDigits_natToStr n) (natToStr_ne_nil n) hT
  simp [devSeg, devStr, h, strToNat_natToStr]

theorem devSeg_none (loc : Option (List LocalSeg)) : devSeg (locStr loc) = (none, locStr loc) := by
  cases loc <;>
    simp [devSeg, letterSeg, locStr, dropOptSep, isSep, devWords, firstPrefix, dropPrefix?]

/-! ### the local segment -/

theorem isLocalChar_toNat (c : Char) (h : isLocalChar c = true) :
    (48 ≤ c.toNat ∧ c.toNat ≤ 57) ∨ (97 ≤ c.toNat ∧ c.toNat ≤ 122) := by
  simp only [isLocalChar, Bool.or_eq_true] at h
  rcases h with h | h
  · exact Or.inr ((isLower_iff c).mp h)
  · exact Or.inl ((isDigit_iff c).mp h)

theorem isSep_of_localChar (c : Char) (h : isLocalChar c = true) : isSep c = false := by
  have := isLocalChar_toNat c h
  simp only [isSep, Bool.or_eq_false_iff, beq_eq_false_iff_ne, ne_eq]
  refine ⟨⟨?_, ?_⟩, ?_⟩ <;> (apply char_ne_of_toNat_ne; simp; omega)

theorem isCanon_of_localChar (c : Char) (h : isLocalChar c = true) : isCanon c = true := by
  simp only [isLocalChar, Bool.or_eq_true] at h
  simp only [isCanon, Bool.or_eq_true]
  rcases h with h | h
  · exact Or.inl (Or.inl (Or.inl (Or.inr h)))
  · exact Or.inl (Or.inl (Or.inl (Or.inl h)))

theorem isLocalChar_of_digit (c : Char) (h : isDigit c = true) : isLocalChar c = true := by
  simp [isLocalChar, h]

theorem splitSeps_append (p : Str) (hp : ∀ c ∈ p, isSep c = false) :
    ∀ (cur rest : Str), splitSeps cur (p ++ rest) = splitSeps (p.reverse ++ cur) rest := by
  induction p with
  | nil => intro cur rest; rfl
  | cons c cs ih =>
    intro cur rest
    have hc := hp c (by simp)
    simp only [List.cons_append, splitSeps, hc, Bool.false_eq_true, if_false]
    rw [ih (fun d hd => hp d (by simp [hd]))]
    simp

theorem splitSeps_join (l : List Str) (hne : l ≠ []) (hl : ∀ p ∈ l, ∀ c ∈ p, isSep c = false) :
    splitSeps [] (join ['.'] l) = l := by
  induction l with
  | nil => exact absurd rfl hne
  | cons p ps ih =>
    cases ps with
    | nil =>
      have := splitSeps_append p (hl p (by simp)) [] []
      simp only [List.append_nil] at this
      simp [join, this, splitSeps]
    | cons q qs =>
      have h1 := splitSeps_append p (hl p (by simp)) [] ('.' :: join ['.'] (q :: qs))
      have h2 := ih (by simp) (fun p' hp' => hl p' (by simp [hp']))
      simp only [join, List.append_assoc, List.cons_append, List.nil_append, h1]
      simp [splitSeps, isSep, h2]

/-- the text of a well-formed local part reads back as that part -/
theorem localSegStr_props (seg : LocalSeg) (h : wfLocalSeg seg = true) :
    (localSegStr seg).isEmpty = false ∧ (localSegStr seg).all isLocalChar = true ∧
      parseLocalPart (localSegStr seg) = seg := by
  cases seg with
  | num n =>
    have hd := allDigits_natToStr n
    have hne := natToStr_ne_nil n
    refine ⟨by cases h' : natToStr n <;> simp_all [localSegStr], ?_, ?_⟩
    · simp only [localSegStr, List.all_eq_true]
      intro c hc
      exact isLocalChar_of_digit c (List.all_eq_true.mp hd c hc)
    · simp [parseLocalPart, localSegStr, isDigitStr_natToStr, strToNat_natToStr]
  | str s =>
    simp only [wfLocalSeg, Bool.and_eq_true, Bool.not_eq_true'] at h
    refine ⟨h.1.1, h.1.2, ?_⟩
    simp [parseLocalPart, localSegStr, isDigitStr, h.2]

theorem localSeg_canon (loc : Option (List LocalSeg))
    (h : ∀ l, loc = some l → l ≠ [] ∧ l.all wfLocalSeg = true) : localSeg (locStr loc) = some loc := by
  cases loc with
  | none => rfl
  | some l =>
    obtain ⟨hne, hall⟩ := h l rfl
    have hprops : ∀ seg ∈ l, _ := fun seg hs => localSegStr_props seg (List.all_eq_true.mp hall seg hs)
    have hsplit : splitSeps [] (join ['.'] (l.map localSegStr)) = l.map localSegStr := by
      apply splitSeps_join
      · simpa using hne
      · intro p hp c hc
        obtain ⟨seg, hs, rfl⟩ := List.mem_map.mp hp
        exact isSep_of_localChar c (List.all_eq_true.mp (hprops seg hs).2.1 c hc)
    have hok : (l.map localSegStr).all (fun p => !p.isEmpty && p.all isLocalChar) = true := by
      simp only [List.all_map, List.all_eq_true, Function.comp]
      intro seg hs
      simp [(hprops seg hs).1, (hprops seg hs).2.1]
    have hmap : (l.map localSegStr).map parseLocalPart = l := by
      rw [List.map_map]
      conv => rhs; rw [← List.map_id l]
      apply List.map_congr_left
      intro seg hs
      exact (hprops seg hs).2.2
    simp only [locStr, localSeg, hsplit, hok, if_true, hmap]

/-! ### canonical text has canonical characters -/

theorem all_join (P : Char → Bool) (sep : Char) (hsep : P sep = true) (l : List Str)
    (hl : ∀ p ∈ l, p.all P = true) : (join [sep] l).all P = true := by
  induction l with
  | nil => rfl
  | cons p ps ih =>
    cases ps with
    | nil => simpa [join] using hl p (by simp)
    | cons q qs =>
      have := ih (fun p' hp' => hl p' (by simp [hp']))
      simp only [join, List.all_append, List.all_cons, List.all_nil, Bool.and_true, Bool.and_eq_true]
      exact ⟨⟨hl p (by simp), hsep⟩, this⟩

theorem all_canon_natToStr (n : Nat) : (natToStr n).all isCanon = true := by
  simp only [List.all_eq_true]
  intro c hc
  have := List.all_eq_true.mp (allDigits_natToStr n) c hc
  simp [isCanon, this]

theorem all_canon_pepStr (v : PepVersion) (h : wfPep v = true) : (pepStr v).all isCanon = true := by
  have hpre := WfPre_of_wfPep v h
  obtain ⟨e, r, pre, post, dev, loc⟩ := v
  simp only [pepStr, List.all_append, Bool.and_eq_true]
  refine ⟨?_, ?_, ?_, ?_, ?_, ?_⟩
  · unfold epochStr; split
    · simp [all_canon_natToStr, isCanon]
    · rfl
  · apply all_join isCanon '.' (by decide)
    intro p hp
    obtain ⟨n, _, rfl⟩ := List.mem_map.mp hp
    exact all_canon_natToStr n
  · cases pre with
    | none => rfl
    | some p =>
      obtain ⟨l, n⟩ := p
      rcases hpre l n rfl with rfl | rfl | rfl <;> simp [preStr, all_canon_natToStr, isCanon, isLower]
  · cases post with
    | none => rfl
    | some n => simp [postStr, all_canon_natToStr, isCanon, isLower]
  · cases dev with
    | none => rfl
    | some n => simp [devStr, all_canon_natToStr, isCanon, isLower]
  · cases loc with
    | none => rfl
    | some l =>
      simp only [wfPep, Bool.and_eq_true] at h
      have hall := h.2.2
      simp only [locStr, List.all_cons, Bool.and_eq_true]
      refine ⟨by decide, ?_⟩
      apply all_join isCanon '.' (by decide)
      intro p hp
      obtain ⟨seg, hs, rfl⟩ := List.mem_map.mp hp
      have := (localSegStr_props seg (List.all_eq_true.mp hall seg hs)).2.1
      simp only [List.all_eq_true] at this ⊢
      intro c hc
      exact isCanon_of_localChar c (this c hc)

/-! ### assembling the round trip -/

theorem parseCore_eq (s : Str) (e : Nat) (first r2 : Str) (rels : List Str) (T3 : Str)
    (pre : Option (Str × Nat)) (T4 : Str) (post : Option Nat) (T5 : Str) (dev : Option Nat) (T6 : Str)
    (loc : Option (List LocalSeg))
    (h1 : headSeg s = some (e, first, r2)) (h2 : relTailF r2.length r2 = (rels, T3))
    (h3 : preSeg T3 = (pre, T4)) (h4 : postSeg T4 = (post, T5)) (h5 : devSeg T5 = (dev, T6))
    (h6 : localSeg T6 = some loc) :
    parseCore s = some ⟨e, (first :: rels).map strToNat, pre, post, dev, loc⟩ := by
  simp only [parseCore, h1, h2, h3, h4, h5, h6]

theorem relTailStr_length (rs : List Nat) : rs.length ≤ (relTailStr rs).length := by
  induction rs with
  | nil => simp [relTailStr]
  | cons n rs ih => simp only [relTailStr, List.length_cons, List.length_append]; omega

theorem map_strToNat_natToStr (rs : List Nat) : (rs.map natToStr).map strToNat = rs := by
  induction rs with
  | nil => rfl
  | cons n rs ih => simp [strToNat_natToStr, ih]

theorem tailOK_relTail (rs : List Nat) (T : Str) (hT : TailOK T) :
    NoDigitHead (relTailStr rs ++ T) ∧ ∀ t, relTailStr rs ++ T ≠ '!' :: t := by
  cases rs with
  | nil => exact ⟨hT.1, hT.2.2⟩
  | cons n rs =>
    refine ⟨noDigitHead_cons _ _ (by decide), ?_⟩
    intro t h
    simp only [relTailStr, List.cons_append] at h
    injection h with h _
    cases h

/-- the optional groups read back -/
theorem groups_canon (pre : Option (Str × Nat)) (post dev : Option Nat) (loc : Option (List LocalSeg))
    (hpre : ∀ l n, pre = some (l, n) → l = ['a'] ∨ l = ['b'] ∨ l = ['r', 'c']) :
    preSeg (preStr pre ++ (postStr post ++ (devStr dev ++ locStr loc)))
      = (pre, postStr post ++ (devStr dev ++ locStr loc)) ∧
    postSeg (postStr post ++ (devStr dev ++ locStr loc)) = (post, devStr dev ++ locStr loc) ∧
    devSeg (devStr dev ++ locStr loc) = (dev, locStr loc) := by
  refine ⟨?_, ?_, ?_⟩
  · cases pre with
    | none => exact preSeg_none post dev loc
    | some p =>
      obtain ⟨l, n⟩ := p
      exact preSeg_some l n _ (hpre l n rfl) (tailOK_post post dev loc).1
  · cases post with
    | none => exact postSeg_none dev loc
    | some n => exact postSeg_some n _ (tailOK_dev dev loc).1
  · cases dev with
    | none => exact devSeg_none loc
    | some n => exact devSeg_some n _ (tailOK_loc loc).1

theorem parseCore_pepStr (v : PepVersion) (h : wfPep v = true) : parseCore (pepStr v) = some v := by
  have hpre := WfPre_of_wfPep v h
  obtain ⟨e, r, pre, post, dev, loc⟩ := v
  have hloc : ∀ l, loc = some l → l ≠ [] ∧ l.all wfLocalSeg = true := by
    intro l hl
    subst hl
    simp only [wfPep, Bool.and_eq_true, Bool.not_eq_true'] at h
    exact ⟨by intro hn; subst hn; simp at h, h.2.2⟩
  cases r with
  | nil => simp [wfPep] at h
  | cons r0 rs =>
    have hT3 := tailOK_pre pre post dev loc hpre
    obtain ⟨g1, g2, g3⟩ := groups_canon pre post dev loc hpre
    have hX := tailOK_relTail rs _ hT3
    have hrel := relTailF_canon rs _ hT3.2.1 hT3.1 (relTailStr rs ++ (preStr pre ++ (postStr post ++
      (devStr dev ++ locStr loc)))).length
      (by rw [List.length_append]; have := relTailStr_length rs; omega)
    have hhead : headSeg (pepStr ⟨e, r0 :: rs, pre, post, dev, loc⟩)
        = some (e, natToStr r0, relTailStr rs ++ (preStr pre ++ (postStr post ++ (devStr dev ++ locStr loc)))) := by
      simp only [pepStr, join_release, List.append_assoc]
      by_cases he : e = 0
      · subst he
        simp only [epochStr, bne_self_eq_false, Bool.false_eq_true, if_false, List.nil_append]
        exact headSeg_noEpoch _ _ (natToStr_ne_nil r0) (allDigits_natToStr r0) hX.1 hX.2
      · have : (e != 0) = true := by simpa using he
        simp only [epochStr, this, if_true, List.append_assoc, List.cons_append, List.nil_append]
        have := headSeg_epoch (natToStr e) (natToStr r0) _ (natToStr_ne_nil e) (allDigits_natToStr e)
          (natToStr_ne_nil r0) (allDigits_natToStr r0) hX.1
        rw [strToNat_natToStr] at this
        exact this
    have := parseCore_eq _ _ _ _ _ _ _ _ _ _ _ _ _ hhead hrel g1 g2 g3 (localSeg_canon loc hloc)
    rw [this]
    simp only [List.map_cons, strToNat_natToStr, map_strToNat_natToStr]

theorem head_digit_append (a b : Str) (h : ∃ c t, a = c :: t ∧ isDigit c = true) :
    ∃ c t, a ++ b = c :: t ∧ isDigit c = true := by
  obtain ⟨c, t, rfl, hc⟩ := h
  exact ⟨c, t ++ b, rfl, hc⟩

theorem pepStr_head_digit (v : PepVersion) (h : wfPep v = true) :
    ∃ c t, pepStr v = c :: t ∧ isDigit c = true := by
  obtain ⟨e, r, pre, post, dev, loc⟩ := v
  cases r with
  | nil => simp [wfPep] at h
  | cons r0 rs =>
    simp only [pepStr, join_release]
    by_cases he : e = 0
    · subst he
      simp only [epochStr, bne_self_eq_false, Bool.false_eq_true, if_false, List.nil_append,
        List.append_assoc]
      exact head_digit_append _ _ (natToStr_cons r0)
    · have : (e != 0) = true := by simpa using he
      simp only [epochStr, this, if_true, List.append_assoc]
      exact head_digit_append _ _ (natToStr_cons e)

/-- round trip: canonical text parses back to the version it was printed from -/
theorem parsePep_pepStr (v : PepVersion) (h : wfPep v = true) : parsePep (pepStr v) = some v := by
  have hc := all_canon_pepStr v h
  obtain ⟨c, t, hs, hd⟩ := pepStr_head_digit v h
  unfold parsePep
  rw [lowerStr_of_canon _ hc, reStrip_of_canon _ hc, hs, dropV_of_digit c t hd, ← hs]
  exact parseCore_pepStr v h

/-! ### what the recogniser can produce -/

theorem firstPrefix_mem (ws : List (Str × Str)) (s l r : Str) (h : firstPrefix ws s = some (l, r)) :
    ∃ w, (w, l) ∈ ws := by
  induction ws with
  | nil => simp [firstPrefix] at h
  | cons x xs ih =>
    obtain ⟨w, nm⟩ := x
    simp only [firstPrefix] at h
    split at h
    · injection h with h
      injection h with h1 _
      exact ⟨w, by simp [h1]⟩
    · obtain ⟨w', hw'⟩ := ih h
      exact ⟨w', by simp [hw']⟩

theorem preSeg_wf (s : Str) (l : Str) (n : Nat) (h : (preSeg s).1 = some (l, n)) :
    l = ['a'] ∨ l = ['b'] ∨ l = ['r', 'c'] := by
  unfold preSeg at h
  split at h
  · next p r heq =>
    simp only [Option.some.injEq] at h
    subst h
    unfold letterSeg at heq
    split at heq
    · cases heq
    · next l' r' hfp =>
      simp only [Option.some.injEq, Prod.mk.injEq] at heq
      obtain ⟨w, hw⟩ := firstPrefix_mem _ _ _ _ hfp
      have hl : l' = l := heq.1.1
      subst hl
      simp [preWords] at hw
      rcases hw with h | h | h | h | h | h | h | h <;> simp [h.2]
  · cases h

theorem splitSeps_ne_nil : ∀ (s cur : Str), splitSeps cur s ≠ [] := by
  intro s
  induction s with
  | nil => intro cur; simp [splitSeps]
  | cons c cs ih =>
    intro cur
    simp only [splitSeps]
    split
    · simp
    · exact ih _

theorem wfLocalSeg_parseLocalPart (p : Str) (h1 : p.isEmpty = false) (h2 : p.all isLocalChar = true) :
    wfLocalSeg (parseLocalPart p) = true := by
  unfold parseLocalPart
  split
  · rfl
  · next hd =>
    simp only [isDigitStr, h1, Bool.not_false, Bool.true_and, Bool.not_eq_true] at hd
    simp [wfLocalSeg, h1, h2, hd]

theorem localSeg_wf (s : Str) (l : List LocalSeg) (h : localSeg s = some (some l)) :
    l.isEmpty = false ∧ l.all wfLocalSeg = true := by
  unfold localSeg at h
  split at h
  · cases h
  · next rest =>
    simp only at h
    split at h
    · next hall =>
      simp only [Option.some.injEq] at h
      subst h
      refine ⟨?_, ?_⟩
      · have := splitSeps_ne_nil rest []
        cases hs : splitSeps [] rest with
        | nil => exact absurd hs this
        | cons _ _ => rfl
      · simp only [List.all_map, List.all_eq_true, Function.comp] at hall ⊢
        intro p hp
        have := hall p hp
        simp only [Bool.and_eq_true, Bool.not_eq_true'] at this
        exact wfLocalSeg_parseLocalPart p this.1 this.2
    · cases h
  · cases h

theorem parseCore_wf (s : Str) (v : PepVersion) (h : parseCore s = some v) : wfPep v = true := by
  unfold parseCore at h
  split at h
  · cases h
  · next e first r2 hh =>
    simp only at h
    split at h
    · cases h
    · next loc hl =>
      simp only [Option.some.injEq] at h
      subst h
      simp only [wfPep, List.map_cons, List.isEmpty_cons, Bool.not_false, Bool.true_and, Bool.and_eq_true]
      refine ⟨?_, ?_⟩
      · split
        · rfl
        · next l n hp =>
          rcases preSeg_wf _ l n hp with rfl | rfl | rfl <;> decide
      · cases loc with
        | none => rfl
        | some l =>
          have := localSeg_wf _ l hl
          simp [this.1, this.2]

theorem parsePep_wf (s : Str) (v : PepVersion) (h : parsePep s = some v) : wfPep v = true :=
  parseCore_wf _ v h

end BV
