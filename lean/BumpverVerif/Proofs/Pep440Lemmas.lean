/-
  Proofs/Pep440Lemmas.lean — helper lemmas for property C16 (Model/Pep440.lean).
  Helper lemmas only; property theorems live in Props/C16.lean.

  Part A: comparators. `LawfulCmp cmp` bundles "`.eq` exactly on equal values, swapping the
          arguments swaps the answer, `.lt` is transitive"; it is preserved by every
          combinator the key comparison is built from.
-/
import BumpverVerif.Model.Pep440
import BumpverVerif.Proofs.Digits
namespace BV

/-! ## Part A: lawful comparators -/

structure LawfulCmp {α : Type} (cmp : α → α → Ordering) : Prop where
  eq_iff : ∀ a b, cmp a b = .eq ↔ a = b
  swap : ∀ a b, cmp b a = (cmp a b).swap
  trans : ∀ a b c, cmp a b = .lt → cmp b c = .lt → cmp a c = .lt

namespace LawfulCmp
variable {α : Type} {cmp : α → α → Ordering}

theorem refl (h : LawfulCmp cmp) (a : α) : cmp a a = .eq := (h.eq_iff a a).mpr rfl

theorem lt_iff_gt (h : LawfulCmp cmp) (a b : α) : cmp a b = .lt ↔ cmp b a = .gt := by
  rw [h.swap a b]; cases cmp a b <;> simp [Ordering.swap]

theorem gt_iff_lt (h : LawfulCmp cmp) (a b : α) : cmp a b = .gt ↔ cmp b a = .lt := by
  rw [h.swap a b]; cases cmp a b <;> simp [Ordering.swap]

/-- `≤` (= "not `.gt`") is transitive -/
theorem le_trans (h : LawfulCmp cmp) (a b c : α) (hab : cmp a b ≠ .gt) (hbc : cmp b c ≠ .gt) :
    cmp a c ≠ .gt := by
  cases h1 : cmp a b with
  | gt => exact absurd h1 hab
  | eq => rw [(h.eq_iff a b).mp h1]; exact hbc
  | lt =>
    cases h2 : cmp b c with
    | gt => exact absurd h2 hbc
    | eq => rw [← (h.eq_iff b c).mp h2, h1]; simp
    | lt => rw [h.trans a b c h1 h2]; simp

theorem le_total (h : LawfulCmp cmp) (a b : α) : cmp a b ≠ .gt ∨ cmp b a ≠ .gt := by
  rw [h.swap a b]; cases cmp a b <;> simp [Ordering.swap]

end LawfulCmp

theorem cmpNat_lt (a b : Nat) : cmpNat a b = .lt ↔ a < b := by
  unfold cmpNat; split
  · simp [*]
  · split <;> simp [*]

theorem cmpNat_eq (a b : Nat) : cmpNat a b = .eq ↔ a = b := by
  unfold cmpNat; split
  · simp; omega
  · split
    · simp; omega
    · simp; omega

theorem cmpNat_gt (a b : Nat) : cmpNat a b = .gt ↔ b < a := by
  unfold cmpNat; split
  · simp; omega
  · split <;> simp [*]

theorem lawful_cmpNat : LawfulCmp cmpNat where
  eq_iff := cmpNat_eq
  swap a b := by
    unfold cmpNat
    split <;> split <;> simp [Ordering.swap] <;> omega
  trans a b c h1 h2 := by
    rw [cmpNat_lt] at *; omega

theorem lawful_cmpChar : LawfulCmp cmpChar where
  eq_iff a b := by unfold cmpChar; rw [cmpNat_eq]; exact Char.toNat_inj
  swap a b := lawful_cmpNat.swap _ _
  trans a b c := lawful_cmpNat.trans _ _ _

theorem then_swap_aux (o1 o2 p1 p2 : Ordering) (h1 : p1 = o1.swap) (h2 : p2 = o2.swap) :
    p1.then p2 = (o1.then o2).swap := by
  subst h1 h2; rw [Ordering.swap_then]

theorem lawful_cmpList {α : Type} {cmp : α → α → Ordering} (h : LawfulCmp cmp) :
    LawfulCmp (cmpList cmp) where
  eq_iff := by
    intro a
    induction a with
    | nil => intro b; cases b <;> simp [cmpList]
    | cons x xs ih =>
      intro b
      cases b with
      | nil => simp [cmpList]
      | cons y ys =>
        simp only [cmpList, Ordering.then_eq_eq, List.cons.injEq]
        rw [h.eq_iff, ih]
  swap := by
    intro a
    induction a with
    | nil => intro b; cases b <;> simp [cmpList, Ordering.swap]
    | cons x xs ih =>
      intro b
      cases b with
      | nil => simp [cmpList, Ordering.swap]
      | cons y ys =>
        simp only [cmpList]
        exact then_swap_aux _ _ _ _ (h.swap _ _) (ih ys)
  trans := by
    intro a
    induction a with
    | nil =>
      intro b c h1 h2
      cases b with
      | nil => simp [cmpList] at h1
      | cons y ys => cases c <;> simp [cmpList] at h2 ⊢
    | cons x xs ih =>
      intro b c h1 h2
      cases b with
      | nil => simp [cmpList] at h1
      | cons y ys =>
        cases c with
        | nil => simp [cmpList] at h2
        | cons z zs =>
          simp only [cmpList, Ordering.then_eq_lt] at h1 h2 ⊢
          rcases h1 with h1 | ⟨h1, h1'⟩
          · rcases h2 with h2 | ⟨h2, _⟩
            · exact Or.inl (h.trans _ _ _ h1 h2)
            · rw [← (h.eq_iff _ _).mp h2]; exact Or.inl h1
          · rw [(h.eq_iff _ _).mp h1]
            rcases h2 with h2 | ⟨h2, h2'⟩
            · exact Or.inl h2
            · exact Or.inr ⟨h2, ih _ _ h1' h2'⟩

theorem lawful_cmpStr : LawfulCmp cmpStr := lawful_cmpList lawful_cmpChar

/-- lexicographic product -/
def cmpProd {α β : Type} (c1 : α → α → Ordering) (c2 : β → β → Ordering) (a b : α × β) : Ordering :=
  (c1 a.1 b.1).then (c2 a.2 b.2)

theorem lawful_cmpProd {α β : Type} {c1 : α → α → Ordering} {c2 : β → β → Ordering}
    (h1 : LawfulCmp c1) (h2 : LawfulCmp c2) : LawfulCmp (cmpProd c1 c2) where
  eq_iff := by
    intro ⟨a1, a2⟩ ⟨b1, b2⟩
    simp only [cmpProd, Ordering.then_eq_eq, Prod.mk.injEq]
    rw [h1.eq_iff, h2.eq_iff]
  swap := by
    intro ⟨a1, a2⟩ ⟨b1, b2⟩
    exact then_swap_aux _ _ _ _ (h1.swap _ _) (h2.swap _ _)
  trans := by
    intro ⟨a1, a2⟩ ⟨b1, b2⟩ ⟨c1', c2'⟩ hab hbc
    simp only [cmpProd, Ordering.then_eq_lt] at hab hbc ⊢
    rcases hab with hab | ⟨hab, hab'⟩
    · rcases hbc with hbc | ⟨hbc, _⟩
      · exact Or.inl (h1.trans _ _ _ hab hbc)
      · rw [← (h1.eq_iff _ _).mp hbc]; exact Or.inl hab
    · rw [(h1.eq_iff _ _).mp hab]
      rcases hbc with hbc | ⟨hbc, hbc'⟩
      · exact Or.inl hbc
      · exact Or.inr ⟨hbc, h2.trans _ _ _ hab' hbc'⟩

theorem lawful_cmpLetNum : LawfulCmp cmpLetNum := lawful_cmpProd lawful_cmpStr lawful_cmpNat

theorem lawful_cmpExt {α : Type} {cmp : α → α → Ordering} (h : LawfulCmp cmp) :
    LawfulCmp (cmpExt cmp) where
  eq_iff := by
    intro a b
    cases a <;> cases b <;> simp [cmpExt]
    exact h.eq_iff _ _
  swap := by
    intro a b
    cases a <;> cases b <;> simp [cmpExt, Ordering.swap]
    exact h.swap _ _
  trans := by
    intro a b c h1 h2
    cases a <;> cases b <;> cases c <;> simp [cmpExt] at h1 h2 ⊢
    exact h.trans _ _ _ h1 h2

theorem lawful_cmpSeg : LawfulCmp cmpSeg where
  eq_iff := by
    intro a b
    cases a <;> cases b <;> simp [cmpSeg]
    · exact cmpNat_eq _ _
    · exact lawful_cmpStr.eq_iff _ _
  swap := by
    intro a b
    cases a <;> cases b <;> simp [cmpSeg, Ordering.swap]
    · exact lawful_cmpNat.swap _ _
    · exact lawful_cmpStr.swap _ _
  trans := by
    intro a b c h1 h2
    cases a <;> cases b <;> cases c <;> simp [cmpSeg] at h1 h2 ⊢
    · exact lawful_cmpNat.trans _ _ _ h1 h2
    · exact lawful_cmpStr.trans _ _ _ h1 h2

/-- the comparator of the six items of a PEP 440 key, as a nested lexicographic product -/
def cmpPepTuple :
    Nat × List Nat × Ext (Str × Nat) × Ext Nat × Ext Nat × Ext (List LocalSeg) →
    Nat × List Nat × Ext (Str × Nat) × Ext Nat × Ext Nat × Ext (List LocalSeg) → Ordering :=
  cmpProd cmpNat <| cmpProd (cmpList cmpNat) <| cmpProd (cmpExt cmpLetNum) <|
    cmpProd (cmpExt cmpNat) <| cmpProd (cmpExt cmpNat) (cmpExt (cmpList cmpSeg))

theorem lawful_cmpPepTuple : LawfulCmp cmpPepTuple :=
  lawful_cmpProd lawful_cmpNat <| lawful_cmpProd (lawful_cmpList lawful_cmpNat) <|
    lawful_cmpProd (lawful_cmpExt lawful_cmpLetNum) <| lawful_cmpProd (lawful_cmpExt lawful_cmpNat) <|
      lawful_cmpProd (lawful_cmpExt lawful_cmpNat) (lawful_cmpExt (lawful_cmpList lawful_cmpSeg))

theorem cmpKey_pep_pep (e : Nat) (r : List Nat) (p : Ext (Str × Nat)) (po d : Ext Nat)
    (l : Ext (List LocalSeg)) (e' : Nat) (r' : List Nat) (p' : Ext (Str × Nat)) (po' d' : Ext Nat)
    (l' : Ext (List LocalSeg)) :
    cmpKey (.pep e r p po d l) (.pep e' r' p' po' d' l')
      = cmpPepTuple (e, r, p, po, d, l) (e', r', p', po', d', l') := rfl

theorem lawful_cmpKey : LawfulCmp cmpKey where
  eq_iff := by
    intro a b
    cases a with
    | legacy p =>
      cases b with
      | legacy q => simp only [cmpKey, Key.legacy.injEq]; exact (lawful_cmpList lawful_cmpStr).eq_iff _ _
      | pep => simp [cmpKey]
    | pep e r p po d l =>
      cases b with
      | legacy q => simp [cmpKey]
      | pep e' r' p' po' d' l' =>
        rw [cmpKey_pep_pep, lawful_cmpPepTuple.eq_iff]
        simp only [Prod.mk.injEq, Key.pep.injEq]
  swap := by
    intro a b
    cases a with
    | legacy p =>
      cases b with
      | legacy q => exact (lawful_cmpList lawful_cmpStr).swap _ _
      | pep => simp [cmpKey, Ordering.swap]
    | pep e r p po d l =>
      cases b with
      | legacy q => simp [cmpKey, Ordering.swap]
      | pep e' r' p' po' d' l' =>
        rw [cmpKey_pep_pep, cmpKey_pep_pep]; exact lawful_cmpPepTuple.swap _ _
  trans := by
    intro a b c h1 h2
    cases a with
    | legacy p =>
      cases b with
      | legacy q =>
        cases c with
        | legacy r => exact (lawful_cmpList lawful_cmpStr).trans _ _ _ h1 h2
        | pep => rfl
      | pep =>
        cases c with
        | legacy r => simp [cmpKey] at h2
        | pep => rfl
    | pep e r p po d l =>
      cases b with
      | legacy q => simp [cmpKey] at h1
      | pep e' r' p' po' d' l' =>
        cases c with
        | legacy r => simp [cmpKey] at h2
        | pep e'' r'' p'' po'' d'' l'' =>
          rw [cmpKey_pep_pep] at *
          exact lawful_cmpPepTuple.trans _ _ _ h1 h2

/-- `cmpStr` is Python's `str` order: its `.lt` is `strLt` of Model/Basic -/
theorem cmpStr_lt_iff_strLt : ∀ (a b : Str), cmpStr a b = .lt ↔ strLt a b = true := by
  intro a
  induction a with
  | nil => intro b; cases b <;> simp [cmpStr, cmpList, strLt]
  | cons x xs ih =>
    intro b
    cases b with
    | nil => simp [cmpStr, cmpList, strLt]
    | cons y ys =>
      have ih' := ih ys
      simp only [cmpStr] at ih'
      simp only [cmpStr, cmpList, Ordering.then_eq_lt, strLt_cons_cons, cmpChar, cmpNat_lt, cmpNat_eq]
      rw [ih', Char.toNat_inj]
      by_cases hxy : x < y
      · simp [hxy, (char_lt_iff x y).mp hxy]
      · by_cases hyx : y < x
        · have h1 := (char_lt_iff y x).mp hyx
          have : ¬ x.toNat < y.toNat := by omega
          have hne : x ≠ y := by intro h; subst h; omega
          simp [hxy, hyx, this, hne]
        · have : x = y := char_eq_of_not_lt x y hxy hyx
          subst this
          simp [Char.lt_irrefl]

end BV
