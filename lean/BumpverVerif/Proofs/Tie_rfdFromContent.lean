/-
  Proofs/Tie_rfdFromContent.lean — the definition GENERATED from the Python source of
  `v2rewrite.rfd_from_content` (Gen/F_rfdFromContent.lean) against the hand model:

  * `tie_rfdFromContent`        : the record it returns is (path, detected separator, the content split
                                    at that separator, the model's `rewriteLines` of those lines);
  * `tie_rfdFromContent_content`: joining `new_lines` with `line_sep` (what `rewrite_files` writes) is the
                                    model's `rewriteContent`.

  `content.split(line_sep)` is translated with its ValueError for an empty separator made explicit
  (`pySplit`); the proof shows that `detect_line_sep` never returns the empty string.
-/
import BumpverVerif.Gen.F_rfdFromContent
import BumpverVerif.Proofs.Tie_rewriteLines
import BumpverVerif.Proofs.Tie_detectLineSep
namespace BV

open GenF (PatternMatch Pattern RewrittenFileData)

theorem detectLineSep_ne_nil (content : Str) : detectLineSep content ≠ [] := by
  unfold detectLineSep
  split
  · decide
  · split <;> decide

theorem GenF.pySplit_ok (s sep : Str) (h : sep ≠ []) : GenF.pySplit s sep = .ok (splitOn sep s) := by
  cases sep with
  | nil => exact absurd rfl h
  | cons c cs => rfl

theorem tie_rfdFromContent (patterns : List Pattern) (new_vinfo : VInfo) (content path : Str)
    (hwf : ∀ p ∈ patterns, p.Wf) :
    GenF.rfdFromContent patterns new_vinfo content path =
      (rewriteLines (patterns.map Pattern.abs) new_vinfo (splitOn (detectLineSep content) content)).map
        (fun newLines => ({ path := path, line_sep := detectLineSep content,
                            old_lines := splitOn (detectLineSep content) content,
                            new_lines := newLines } : RewrittenFileData)) := by
  unfold GenF.rfdFromContent
  simp only [tie_detectLineSep, GenF.pySplit_ok _ _ (detectLineSep_ne_nil content),
    tie_rewriteLines _ _ _ hwf]
  cases rewriteLines (patterns.map Pattern.abs) new_vinfo (splitOn (detectLineSep content) content) <;> rfl

/-- what `rewrite_files` writes for one file -/
def GenF.RewrittenFileData.newContent (rfd : RewrittenFileData) : Str := join rfd.line_sep rfd.new_lines

theorem tie_rfdFromContent_content (patterns : List Pattern) (new_vinfo : VInfo) (content path : Str)
    (hwf : ∀ p ∈ patterns, p.Wf) :
    (GenF.rfdFromContent patterns new_vinfo content path).map RewrittenFileData.newContent =
      rewriteContent (patterns.map Pattern.abs) new_vinfo content := by
  rw [tie_rfdFromContent _ _ _ _ hwf]
  unfold rewriteContent
  simp only []
  cases rewriteLines (patterns.map Pattern.abs) new_vinfo (splitOn (detectLineSep content) content) <;> rfl

end BV
