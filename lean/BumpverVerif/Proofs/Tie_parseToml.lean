/-
  Proofs/Tie_parseToml.lean — the definition GENERATED from the Python source of
  `config._parse_toml` (Gen/F_parseToml.lean) equals the hand model `BV.parseTomlPost` (the part of
  `_parse_toml` after `toml.load`) on every loaded document.

  `toml.load` stays a parameter.  The generated definition sees its result as `Py.TomlFull`
  (the keys 'tool', 'bumpver', 'pycalver' of the top level dict and 'bumpver' of `['tool']`, each
  possibly absent); the hand model's `TomlDoc` merges the two tests `'tool' in d and 'bumpver' in
  d['tool']` into one field: `absToml`.
  Result abstraction: `embedRaw` (the Python dict has the key 'file_patterns').
-/
import BumpverVerif.Gen.F_parseToml
import BumpverVerif.Proofs.Tie_setRawConfigDefaults
set_option linter.unusedSimpArgs false
namespace BV
open TieH

/-- the hand model's view of a loaded TOML document -/
def absToml (full : Py.TomlFull) : TomlDoc :=
  { toolBumpver := full.tool.bind (·.bumpver), bumpver := full.bumpver, pycalver := full.pycalver }

/-- after the section is known: the BOOL_OPTIONS loop and `_set_raw_config_defaults` -/
macro "parse_toml_tail" : tactic => `(tactic|
  (rw [foldl_congr_step (g := fun st od => { st with opts := tomlBoolStep st.opts od })]
   · rw [foldl_list_eq _ _ _ Gen.boolOptions (by decide), foldl_opts]
     simp only [tomlBoolLoop, tie_setRawConfigDefaults, withFilePatterns, embedRaw]
     generalize setRawConfigDefaults _ = r
     rcases r with e | ⟨⟩ <;> rfl
   · intro st od
     rfl))

theorem tie_parseToml (full : Py.TomlFull) :
    GenF.parseToml full = ((parseTomlPost (absToml full)).mapError CfgErr.pyClass).map embedRaw := by
  unfold GenF.parseToml parseTomlPost tomlMainSection absToml
  obtain ⟨tool, bv, pc⟩ := full
  rcases tool with _ | ⟨_ | tb⟩ <;> rcases bv with _ | bv <;> rcases pc with _ | pc <;>
    simp only [Option.isSome_none, Option.isSome_some, Bool.false_eq_true, if_true, if_false, Option.bind_none,
      Option.bind_some, Option.bind] <;>
    parse_toml_tail

end BV
