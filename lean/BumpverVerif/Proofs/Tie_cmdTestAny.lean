/-
  Proofs/Tie_cmdTestAny.lean — the GENERATED `cli.test` (Gen/F_cmdTest.lean) for ANY pattern, new-style or legacy:

    tie_cmdTest_any    (echoed lines, ending) of the translated command = `resultView (testRef …)`, where `TieL.testRef`
                       is `bumpver test` written by hand over BOTH engines: `incr_dispatch` picks the engine by
                       `hasV1Part`, `_normalize_set_version` and the gate pick it by `isNewPattern`.
    testRef_new        for a new-style pattern `testRef` is the hand model `cliTest` (so `tie_cmdTest` is the special case)
    testRef_no_set_version   without `--set-version`, `testRef` collapses to the hand model `dispatchCliTest` (Model/V1.lean,
                       the model of C20)

  FINDING (reported): WITH `--set-version`, `dispatchCliTest` takes the text as it is (`| some v => .new v`); the code
  normalises it through the pattern — through the LEGACY engine for a pattern with braces
  (`tie_normalizeSetVersion_legacy`).  Witness on the real CLI: `bumpver test 1.0.0 '{semver}' --set-version 1.02.3`
  announces `1.2.3`, `dispatchCliTest` announces `1.02.3`.  `testRef` is the repaired reading.
-/
import BumpverVerif.Proofs.Tie_cmdTest
set_option linter.unusedSimpArgs false
namespace BV
namespace TieL

/-- `_normalize_set_version` for any pattern -/
def dispatchNormalize (pat v : Str) (today : Date) : Except Exc Str :=
  if isNewPattern pat then liftV2 (normalizeSetVersion pat v today) else liftV1 (v1NormalizeSetVersion pat v)

/-- `_is_valid_version(pattern, old, new)` (no uniqueness check) for any pattern -/
def dispatchGateExc (pat old new : Str) (today : Date) : Except Exc GateVerdict :=
  if isNewPattern pat then liftV2 (gate pat old new false [] today) else liftV1 (v1Gate pat old new false [])

/-- outcome of `bumpver test` with the exception kept -/
inductive TestResult
  | announce (new pep : Str)
  | exit1
  | crash (e : Exc)
  deriving DecidableEq, Repr

/-- candidate, gate, announcement — over both engines -/
def testCoreAny (old pat : Str) (fl : IncrFlags) (date today : Date) (setVersion : Option Str) : TestResult :=
  let cand : Except Exc (Option Str) := match setVersion with
    | some v => (dispatchNormalize pat v today).map some
    | none => dispatchIncrExc old pat fl date today
  match cand with
  | .error e => .crash e
  | .ok none => .exit1
  | .ok (some new) =>
    match dispatchGateExc pat old new today with
    | .error e => .crash e
    | .ok .accept => .announce new (verStr (parseVersion new))
    | .ok _ => .exit1

/-- `bumpver test OLD PATTERN [flags] [--date D] [--set-version V]` for any pattern, the `--date` text read by `strptime` -/
def testRef {DateTime : Type} (strptime : Str → Str → Option DateTime) (dateOf : DateTime → Date)
    (old pat : Str) (fl : IncrFlags) (date : Option Str) (today : Date) (setVersion : Option Str) : TestResult :=
  if !validReleaseTag fl.tag then .exit1
  else if !validFlags pat fl then .exit1
  else match date with
    | none => testCoreAny old pat fl today today setVersion
    | some d =>
      if !d.isEmpty && fl.pinDate then .exit1
      else match strptime d "%Y-%m-%d".toList with
        | none => .exit1
        | some dt => testCoreAny old pat fl (dateOf dt) today setVersion

def resultView : TestResult → List Str × Ending
  | .announce new pep =>
    ((newVersionLabel ++ new) :: (if new != pep then [pep440Label ++ pep] else []), .ok)
  | .exit1 => ([], .exit 1)
  | .crash e => ([], ending (.error (.exc e) : Except CStop Unit))

/-- what `-v` needs: the pattern compiles with the engine `incr_dispatch` picks -/
def CompilesForLog (pat : Str) : Prop :=
  if hasV1Part pat then ∃ r, pyV1CompilePattern pat = .ok r else ∃ r, pyV2CompilePattern pat = .ok r

end TieL
open TieL

attribute [local irreducible] isValid parseVersionInfo incr v1IsValid v1ParseVersionInfo v1Incr formatVersion
  v1FormatVersion normalizeSetVersion v1NormalizeSetVersion gate v1Gate

/-- `incr_dispatch` for any pattern, whatever `_VERBOSE` is (given that the logged compilation succeeds) -/
theorem TieL.incrDispatch_any (today : Date) (b : Bool) (old pat : Str) (fl : IncrFlags) (maybe_date : Option Date)
    (hc : b = true → CompilesForLog pat) :
    GenC.incrDispatch today b old pat fl.major fl.minor fl.patch fl.tag fl.tagNum fl.pinIncrements
        fl.pinDate maybe_date
      = dispatchIncrExc old pat fl (maybe_date.getD today) today := by
  cases b with
  | false => exact tie_incrDispatch today old pat fl maybe_date
  | true =>
    rw [← tie_incrDispatch]
    have h := hc rfl
    unfold CompilesForLog at h
    first
      | -- `has_v1_part = any(… for part in v1_parts)`
        (have hv : (List.any ((Gen.v1PartPatterns.map (·.1)) ++ (Gen.v1FullPartFormats.map (·.1)))
            (fun part => isInfix (("{".toList ++ part) ++ "}".toList) pat)) = hasV1Part pat := rfl
         unfold GenC.incrDispatch
         cases hp : hasV1Part pat
         · rw [hp] at h; simp only [Bool.false_eq_true, if_false] at h
           obtain ⟨r, hr⟩ := h
           simp only [hv, hp, hr, Bool.false_eq_true, if_false, if_true, Bool.not_false, Bool.not_true]
           done
         · rw [hp] at h; simp only [if_true] at h
           obtain ⟨r, hr⟩ := h
           simp only [hv, hp, hr, Bool.false_eq_true, if_false, if_true, Bool.not_false, Bool.not_true]
           done)
      | -- the searching loop
        (unfold GenC.incrDispatch
         dsimp only
         cases hfind : List.find? (fun part => isInfix (("{".toList ++ part) ++ "}".toList) pat)
             ((Gen.v1PartPatterns.map (·.1)) ++ (Gen.v1FullPartFormats.map (·.1))) with
         | none =>
           rw [hasV1Part_of_find_none pat hfind] at h
           simp only [Bool.false_eq_true, if_false] at h
           obtain ⟨r, hr⟩ := h
           simp only [hr, Bool.false_eq_true, if_false, if_true, Bool.not_false, Bool.not_true]
         | some part =>
           rw [hasV1Part_of_find_some pat part hfind] at h
           simp only [if_true] at h
           obtain ⟨r, hr⟩ := h
           simp only [hr, Bool.false_eq_true, if_false, if_true, Bool.not_false, Bool.not_true])

theorem TieL.cmdIsValidVersion_not_unique_legacy (today : Date) (pat old new : Str) (hp : isNewPattern pat = false)
    (ce : CmdEnv) (s : CState) :
    GenL.isValidVersion today pat old new false ce s
      = (s, ofV1 ((v1Gate pat old new false []).map GateVerdict.toBool)) := by
  rw [tie_cmdIsValidVersion_legacy today pat old new false hp]
  unfold v1GateCmd
  cases v1Gate pat old new false [] with
  | error e => rfl
  | ok v => cases v <;> rfl

/-- `_is_valid_version(pattern, old, new)` for any pattern -/
theorem TieL.cmdIsValidVersion_any (today : Date) (pat old new : Str) (ce : CmdEnv) (s : CState) :
    GenL.isValidVersion today pat old new false ce s
      = (s, ofExc ((dispatchGateExc pat old new today).map GateVerdict.toBool)) := by
  unfold dispatchGateExc
  cases hp : isNewPattern pat
  · rw [cmdIsValidVersion_not_unique_legacy today pat old new hp]
    simp only [Bool.false_eq_true, if_false]
    cases v1Gate pat old new false [] <;> rfl
  · rw [cmdIsValidVersion_not_unique today pat old new hp]
    simp only [if_true]
    cases gate pat old new false [] today <;> rfl

/-- `_normalize_set_version` for any pattern -/
theorem TieL.normalizeSetVersion_any (today : Date) (pat v : Str) (ce : CmdEnv) (s : CState) :
    GenL.normalizeSetVersion today pat v ce s = (s, ofExc (dispatchNormalize pat v today)) := by
  unfold dispatchNormalize
  cases hp : isNewPattern pat
  · rw [tie_normalizeSetVersion_legacy today pat v hp]
    simp only [Bool.false_eq_true, if_false]
    cases v1NormalizeSetVersion pat v <;> rfl
  · rw [tie_normalizeSetVersion_new today pat v hp]
    simp only [if_true]
    cases normalizeSetVersion pat v today <;> rfl

/-- the command once its three validations have passed -/
theorem TieL.cmdTest_valid_any {DateTime : Type} (today : Date) (strptime : Str → Str → Option DateTime)
    (dateOf : DateTime → Date) (vg verbose : Int) (old pat : Str) (fl : IncrFlags) (date setVersion : Option Str)
    (md : Option Date)
    (hverb : pyMaxInt vg verbose ≠ 0 → CompilesForLog pat)
    (hrt : validReleaseTag fl.tag = true) (hvf : validFlags pat fl = true)
    (hvd : GenC.validateDate strptime dateOf date fl.pinDate = .ok md)
    (ce : CmdEnv) (s0 : CState) (hout : s0.out = []) :
    let r := GenL.test today strptime dateOf vg old pat verbose fl.major fl.minor fl.patch fl.tag fl.tagNum
      fl.pinIncrements fl.pinDate date setVersion ce s0
    r.1.p = s0.p ∧
    (r.1.out.reverse, ending r.2) = resultView (testCoreAny old pat fl (md.getD today) today setVersion) := by
  intro r
  simp only [r]
  have hc : (pyMaxInt vg verbose != 0) = true → CompilesForLog pat :=
    fun h => hverb ((pyMaxInt_ne_zero_iff vg verbose).mp h)
  have hG := fun nv s => cmdIsValidVersion_any today pat old nv ce s
  have hI := incrDispatch_any today (pyMaxInt vg verbose != 0) old pat fl md hc
  have hN := fun sv s => normalizeSetVersion_any today pat sv ce s
  unfold GenL.test testCoreAny
  simp only [Cmd.bind_liftExc, tie_validateReleaseTag, tie_validateFlags, hrt, hvf, hvd, if_true]
  cases setVersion with
  | none =>
    simp only [Cmd.bind, Cmd.liftExc, hI]
    cases hn : dispatchIncrExc old pat fl (md.getD today) today with
    | error e => cases e <;> simp [resultView, ending, hout]
    | ok o =>
      cases o with
      | none => simp [Cmd.pure, Cmd.exit, Cmd.throw, resultView, ending, hout]
      | some nv =>
        simp only [Cmd.pure, Cmd.bind, hG]
        cases hg : dispatchGateExc pat old nv today with
        | error e => cases e <;> simp [ofExc, Except.map, resultView, ending, hout]
        | ok v =>
          cases v <;>
            simp [ofExc, Except.map, resultView, ending, GateVerdict.toBool, Cmd.exit, Cmd.throw, Cmd.echo, Cmd.pure,
              Cmd.ite_run, pyToPep440, hout, newVersionLabel, pep440Label]
          by_cases hne : nv = verStr (parseVersion nv)
          · simp [if_pos hne, ending, Cmd.bind, Cmd.echo, Cmd.pure, Cmd.ite_run, hout]
          · simp [if_neg hne, ending, Cmd.bind, Cmd.echo, Cmd.pure, Cmd.ite_run, hout]
  | some sv =>
    simp only [Cmd.bind, hN]
    cases hn : dispatchNormalize pat sv today with
    | error e => cases e <;> simp [ofExc, Except.map, resultView, ending, hout]
    | ok nv =>
      simp only [ofExc, Cmd.pure, Cmd.bind, Except.map, hG]
      cases hg : dispatchGateExc pat old nv today with
      | error e => cases e <;> simp [ofExc, Except.map, resultView, ending, hout]
      | ok v =>
        cases v <;>
          simp [ofExc, Except.map, resultView, ending, GateVerdict.toBool, Cmd.exit, Cmd.throw, Cmd.echo, Cmd.pure,
            Cmd.ite_run, pyToPep440, hout, newVersionLabel, pep440Label]
        by_cases hne : nv = verStr (parseVersion nv)
        · simp [if_pos hne, ending, Cmd.bind, Cmd.echo, Cmd.pure, Cmd.ite_run, hout]
        · simp [if_neg hne, ending, Cmd.bind, Cmd.echo, Cmd.pure, Cmd.ite_run, hout]

theorem tie_cmdTest_any {DateTime : Type} (today : Date) (strptime : Str → Str → Option DateTime)
    (dateOf : DateTime → Date) (vg verbose : Int) (old pat : Str) (fl : IncrFlags) (date setVersion : Option Str)
    (hverb : pyMaxInt vg verbose ≠ 0 → CompilesForLog pat)
    (ce : CmdEnv) (s0 : CState) (hout : s0.out = []) :
    let r := GenL.test today strptime dateOf vg old pat verbose fl.major fl.minor fl.patch fl.tag fl.tagNum
      fl.pinIncrements fl.pinDate date setVersion ce s0
    r.1.p = s0.p ∧
    (r.1.out.reverse, ending r.2) = resultView (testRef strptime dateOf old pat fl date today setVersion) := by
  intro r
  simp only [r]
  have hinv := fun h => cmdTest_invalid today strptime dateOf vg verbose old pat fl date setVersion h ce s0
  unfold testRef
  by_cases hrt : validReleaseTag fl.tag = true
  · by_cases hvf : validFlags pat fl = true
    · simp only [hrt, hvf, Bool.not_true, Bool.false_eq_true, if_false]
      have hval := fun md hvd => cmdTest_valid_any today strptime dateOf vg verbose old pat fl date setVersion md hverb
        hrt hvf hvd ce s0 hout
      cases date with
      | none =>
        have := hval none (validateDate_absent strptime dateOf fl.pinDate)
        simpa only [Option.getD_none] using this
      | some d =>
        have hvd := tie_validateDate strptime dateOf (some d) fl.pinDate
        unfold validateDateRef at hvd
        simp only at hvd ⊢
        by_cases hcf : (!d.isEmpty && fl.pinDate) = true
        · have hx : GenC.validateDate strptime dateOf (some d) fl.pinDate = .error (.sysExit 1) := by
            rw [hvd]; simp only [hcf, if_true]
          rw [hinv (Or.inr (Or.inr hx))]
          simp only [hcf, if_true]
          simp [resultView, ending, hout]
        · simp only [hcf, Bool.false_eq_true, if_false] at hvd ⊢
          cases hsp : strptime d "%Y-%m-%d".toList with
          | none =>
            have hx : GenC.validateDate strptime dateOf (some d) fl.pinDate = .error (.sysExit 1) := by
              rw [hvd, hsp]
            rw [hinv (Or.inr (Or.inr hx))]
            simp [resultView, ending, hout]
          | some dt =>
            have hx : GenC.validateDate strptime dateOf (some d) fl.pinDate = .ok (some (dateOf dt)) := by
              rw [hvd, hsp]
            have := hval _ hx
            simpa only [Option.getD_some] using this
    · have hvf' : validFlags pat fl = false := by simpa using hvf
      rw [hinv (Or.inr (Or.inl hvf'))]
      simp [hrt, hvf', resultView, ending, hout]
  · have hrt' : validReleaseTag fl.tag = false := by simpa using hrt
    rw [hinv (Or.inl hrt')]
    simp [hrt', resultView, ending, hout]

/-! ### `testRef` and the hand models -/

/-- for a new-style pattern the reference is the hand model `cliTest` (Model/Cli.lean) -/
theorem TieL.testCoreAny_new (old pat : Str) (fl : IncrFlags) (date today : Date) (setVersion : Option Str)
    (hp : isNewPattern pat = true) :
    resultView (testCoreAny old pat fl date today setVersion) = outcomeView (testCore old pat fl date today setVersion) := by
  have hv1 : hasV1Part pat = false := by
    cases h : hasV1Part pat
    · rfl
    · have := not_new_of_hasV1Part pat h; rw [hp] at this; cases this
  unfold testCoreAny testCore candidateE dispatchNormalize dispatchGateExc dispatchIncrExc
  simp only [hp, hv1, if_true, Bool.false_eq_true, if_false]
  cases setVersion with
  | some v =>
    simp only
    cases hn : normalizeSetVersion pat v today with
    | error e => cases e <;> simp [liftV2, Except.map, resultView, outcomeView, ending]
    | ok nv =>
      simp only [liftV2, Except.map]
      cases hg : gate pat old nv false [] today with
      | error e => cases e <;> simp [liftV2, resultView, outcomeView, ending]
      | ok v => cases v <;> simp [liftV2, resultView, outcomeView]
  | none =>
    simp only
    cases hn : incr old pat fl date today with
    | error e => cases e <;> simp [liftV2, resultView, outcomeView, ending]
    | ok o =>
      cases o with
      | none => simp [liftV2, resultView, outcomeView]
      | some nv =>
        simp only [liftV2]
        cases hg : gate pat old nv false [] today with
        | error e => cases e <;> simp [liftV2, resultView, outcomeView, ending]
        | ok v => cases v <;> simp [liftV2, resultView, outcomeView]

/-- `TestResult` with the exception collapsed the way `TestOutcome` (Model/V1.lean) does -/
def TieL.collapseResult : TestResult → TestOutcome
  | .announce n p => .announce n p
  | .exit1 => .exit1
  | .crash (.v1 .unsupported) => .unsupported
  | .crash (.v2 .unsupported) => .unsupported
  | .crash _ => .crash

/-- WITHOUT `--set-version` the reference collapses to the hand model of C20, `dispatchCliTest` — for every pattern.
    (WITH `--set-version` the two differ: see the header.) -/
theorem TieL.dispatchCliTest_eq_testCoreAny (old pat : Str) (fl : IncrFlags) (dg : Bool) (date today : Date)
    (hrt : validReleaseTag fl.tag = true) (hvf : validFlags pat fl = true) (hd : (dg && fl.pinDate) = false) :
    dispatchCliTest old pat fl dg date today none = collapseResult (testCoreAny old pat fl date today none) := by
  unfold dispatchCliTest testCoreAny dispatchIncr dispatchIncrExc dispatchGate dispatchGateExc
  simp only [hrt, hvf, hd, Bool.not_true, Bool.false_eq_true, if_false]
  cases hv1 : hasV1Part pat
  · simp only [Bool.false_eq_true, if_false]
    cases hi : incr old pat fl date today with
    | error e => cases e <;> simp [liftV2, collapseResult]
    | ok o =>
      cases o with
      | none => simp [liftV2, collapseResult]
      | some nv =>
        simp only [liftV2]
        cases hnp : isNewPattern pat
        · simp only [Bool.false_eq_true, if_false]
          cases hg : v1Gate pat old nv false [] with
          | error e => cases e <;> simp [liftV1, collapseResult]
          | ok v => cases v <;> simp [liftV1, collapseResult]
        · simp only [if_true]
          cases hg : gate pat old nv false [] today with
          | error e => cases e <;> simp [liftV2, collapseResult]
          | ok v => cases v <;> simp [liftV2, collapseResult]
  · simp only [if_true]
    cases hi : v1Incr old pat fl.toV1 date with
    | error e => cases e <;> simp [liftV1, collapseResult]
    | ok o =>
      cases o with
      | none => simp [liftV1, collapseResult]
      | some nv =>
        simp only [liftV1]
        cases hnp : isNewPattern pat
        · simp only [Bool.false_eq_true, if_false]
          cases hg : v1Gate pat old nv false [] with
          | error e => cases e <;> simp [liftV1, collapseResult]
          | ok v => cases v <;> simp [liftV1, collapseResult]
        · simp only [if_true]
          cases hg : gate pat old nv false [] today with
          | error e => cases e <;> simp [liftV2, collapseResult]
          | ok v => cases v <;> simp [liftV2, collapseResult]

end BV
