/-
  Proofs/Tie_v1Diff.lean — the definition GENERATED from the Python source of `v1rewrite.diff`
  (Gen/F_v1Diff.lean; `difflib` stays the parameter `diff_lines`) against the legacy dry path of the hand
  model (`v1HasUpdatedVersion`, `v1DiffFile`, `v1DiffFiles`, `v1DiffAll`, Model/V1Rewrite.lean), up to
  (old_lines, new_lines):

  * `tie_v1Diff` : the file system is untouched; if a configured file is missing the result is the IOError
    (ALL files are checked first: `sorted(...)` runs `iter_path_patterns_items` to exhaustion); otherwise the
    files are processed in the order of their paths and each contributes `"\n".join(diff_lines(rfd)) + "\n"`
    where `rfd` carries exactly the (old_lines, new_lines) of the model's `v1DiffFile` — or the whole call fails
    with `v1DiffFile`'s error.  The `has_updated_version` loop runs BEFORE `rfd_from_content` and propagates the
    exceptions of `format_version`; the model `v1DiffFile` has the same order, so — unlike `tie_diff` of the v2
    path — NO hypothesis about `format_version` is needed;
  * `tie_v1Diff_outcome` : success / the error of `diff` is success / the error of the model's `v1DiffAll`;
  * `tie_v1Diff_pure` : `diff` never writes.

  Explicit hypotheses:
  * `hdl` : `diff_lines rfd` is empty iff old_lines = new_lines (the model tests `old == new`, Python tests
            `len(lines) == 0` on difflib's output; difflib itself is not modelled);
  * `hwf` : the patterns were made by the legacy compiler (`TieM.Wf1`).
-/
import BumpverVerif.Gen.F_v1Diff
import BumpverVerif.Proofs.Tie_v1IterRewritten
import BumpverVerif.Proofs.Tie_iterPathPatternsItems
namespace BV

open GenF (Pattern RewrittenFileData)

namespace TieM

/-- one iteration of the `has_updated_version` loop, as a function of the two renderings -/
def updStep (a b : Except PErr Str) (st : Bool) : Except RwErr Bool :=
  match a, b with
  | .error e, _ => .error (.crash e)
  | .ok _, .error e => .error (.crash e)
  | .ok x, .ok y => .ok ((x != y) || st)

/-- the loop that computes `has_updated_version` is the model's `v1HasUpdatedVersion` -/
theorem pyForFS_hasUpdated (old new : V1Info) (body : Pattern → Bool → FS → FS × Except RwErr Bool)
    (hb : ∀ p st fs, body p st fs = (fs, updStep (v1Render old p.abs) (v1Render new p.abs) st))
    (l : List Pattern) (st : Bool) (fs : FS) :
    GenF.pyForFS l body st fs = (fs, (v1HasUpdatedVersion old new (l.map Pattern.abs)).map (fun r => st || r)) := by
  induction l generalizing st with
  | nil => simp [GenF.pyForFS_nil, v1HasUpdatedVersion, Except.map]
  | cons p l ih =>
    rw [GenF.pyForFS_cons, hb]
    simp only [List.map_cons, v1HasUpdatedVersion, updStep]
    cases v1Render old p.abs with
    | error e => rfl
    | ok a =>
      cases v1Render new p.abs with
      | error e => rfl
      | ok b =>
        simp only []
        rw [ih]
        cases v1HasUpdatedVersion old new (l.map Pattern.abs) with
        | error e => rfl
        | ok r =>
          simp only [Except.map]
          cases (a != b) <;> cases st <;> cases r <;> rfl

/-- one file of the dry path: the text appended to the diff so far -/
def diffStep (diff_lines : RewrittenFileData → List Str) (fs : FS) (old new : V1Info)
    (it : Str × List Pattern) (acc : Str) : Except RwErr Str :=
  match lookup it.1 fs with
  | none => .error .missingFile
  | some c =>
    match v1DiffFile fs old new it.1 (it.2.map Pattern.abs) with
    | .error e => .error e
    | .ok r => .ok (acc ++ (join "\n".toList (diff_lines (rfdOf it.1 c r.2)) ++ "\n".toList))

/-- all files, in the given order -/
def diffFold (diff_lines : RewrittenFileData → List Str) (fs : FS) (old new : V1Info) :
    List (Str × List Pattern) → Str → Except RwErr Str
  | [], acc => .ok acc
  | it :: rest, acc =>
    match diffStep diff_lines fs old new it acc with
    | .error e => .error e
    | .ok acc' => diffFold diff_lines fs old new rest acc'

theorem pyForFS_eq_diffFold (diff_lines : RewrittenFileData → List Str) (old new : V1Info)
    (body : Str × List Pattern → Str → FS → FS × Except RwErr Str)
    (hb : ∀ it acc fs, (∀ p ∈ it.2, Wf1 p) → body it acc fs = (fs, diffStep diff_lines fs old new it acc))
    (l : List (Str × List Pattern)) (hl : ∀ it ∈ l, ∀ p ∈ it.2, Wf1 p) (acc : Str) (fs : FS) :
    GenF.pyForFS l body acc fs = (fs, diffFold diff_lines fs old new l acc) := by
  induction l generalizing acc with
  | nil => rfl
  | cons it l ih =>
    rw [GenF.pyForFS_cons, hb it acc fs (hl it List.mem_cons_self)]
    simp only [diffFold]
    cases diffStep diff_lines fs old new it acc with
    | error e => rfl
    | ok acc' => exact ih (fun x hx => hl x (List.mem_cons_of_mem _ hx)) acc'

/-! the sort by path: Python's `sorted(items)` on the objects, `sortByPath` on the abstraction -/

theorem map_pyInsertBy_path (x : Str × List Pattern) (ys : List (Str × List Pattern)) :
    GenF.absFilePatterns (GenF.pyInsertBy (fun a b => !(strLt b.1 a.1)) x ys)
      = insertByPath (x.1, x.2.map Pattern.abs) (GenF.absFilePatterns ys) := by
  induction ys with
  | nil => rfl
  | cons y ys ih =>
    simp only [GenF.pyInsertBy, GenF.absFilePatterns, List.map_cons, insertByPath]
    by_cases h : strLt y.1 x.1 = true
    · simp only [h, Bool.not_true, Bool.false_eq_true, if_false, if_true, List.map_cons]
      have := ih
      simp only [GenF.absFilePatterns] at this
      rw [this]
    · simp [h]

theorem abs_sortedByPath (l : List (Str × List Pattern)) :
    GenF.absFilePatterns (GenF.pySortedBy (fun x => x.1) (fun a b => strLt a b) l)
      = sortByPath (GenF.absFilePatterns l) := by
  unfold GenF.pySortedBy
  induction l with
  | nil => rfl
  | cons x l ih =>
    rw [List.foldr_cons, map_pyInsertBy_path, ih]
    rfl

theorem diffStep_outcome (diff_lines : RewrittenFileData → List Str) (fs : FS) (old new : V1Info)
    (it : Str × List Pattern) (acc : Str) :
    (diffStep diff_lines fs old new it acc).map (fun _ => ()) =
      (v1DiffFile fs old new it.1 (it.2.map Pattern.abs)).map (fun _ => ()) := by
  unfold diffStep
  cases hl : lookup it.1 fs with
  | none => simp [v1DiffFile, hl, Except.map]
  | some c =>
    simp only []
    cases v1DiffFile fs old new it.1 (it.2.map Pattern.abs) <;> rfl

/-- success, or the error, of the per-file fold of `diff` is success, or the error, of the model's
    `v1DiffFiles` on the same list of files -/
theorem diffFold_outcome (diff_lines : RewrittenFileData → List Str) (fs : FS) (old new : V1Info)
    (l : List (Str × List Pattern)) (acc : Str) :
    (diffFold diff_lines fs old new l acc).map (fun _ => ()) =
      (v1DiffFiles fs old new (GenF.absFilePatterns l)).map (fun _ => ()) := by
  induction l generalizing acc with
  | nil => rfl
  | cons it l ih =>
    have hcons : GenF.absFilePatterns (it :: l) = (it.1, it.2.map Pattern.abs) :: GenF.absFilePatterns l := rfl
    have hs := diffStep_outcome diff_lines fs old new it acc
    rw [hcons]
    simp only [diffFold, v1DiffFiles]
    cases hd : diffStep diff_lines fs old new it acc with
    | error e =>
      rw [hd] at hs
      cases hf : v1DiffFile fs old new it.1 (it.2.map Pattern.abs) with
      | error e' => rw [hf] at hs; simpa [Except.map] using hs
      | ok r => rw [hf] at hs; simp [Except.map] at hs
    | ok acc' =>
      rw [hd] at hs
      cases hf : v1DiffFile fs old new it.1 (it.2.map Pattern.abs) with
      | error e' => rw [hf] at hs; simp [Except.map] at hs
      | ok r =>
        simp only []
        rw [ih acc']
        cases v1DiffFiles fs old new (GenF.absFilePatterns l) <;> rfl

end TieM

theorem tie_v1Diff (old_vinfo new_vinfo : V1Info) (file_patterns : List (Str × List Pattern))
    (diff_lines : RewrittenFileData → List Str) (fs : FS)
    (hdl : ∀ rfd, (diff_lines rfd).length = 0 ↔ rfd.old_lines = rfd.new_lines)
    (hwf : TieM.WfFilePatterns1 file_patterns) :
    GenF.v1Diff old_vinfo new_vinfo file_patterns diff_lines fs =
      (fs, if file_patterns.all (fun it => (lookup it.1 fs).isSome) then
             (TieM.diffFold diff_lines fs old_vinfo new_vinfo
               (GenF.pySortedBy (fun x => x.1) (fun a b => strLt a b) file_patterns) []).map
                 (rstripChars "\n".toList)
           else .error .missingFile) := by
  unfold GenF.v1Diff
  simp only [tie_iterPathPatternsItems]
  by_cases hall : file_patterns.all (fun it => (lookup it.1 fs).isSome) = true
  · simp only [hall, if_true]
    rw [TieM.pyForFS_eq_diffFold diff_lines old_vinfo new_vinfo _ ?hb _ ?hl]
    case hl =>
      intro it hit
      unfold GenF.pySortedBy at hit
      exact hwf it ((GenF.mem_foldr_pyInsertBy _ it _).1 hit)
    case hb =>
      intro it acc fs' hit
      simp only [GenF.pyRead, TieM.diffStep, v1DiffFile]
      have hl : lookup it.1 fs' = none ∨ ∃ c, lookup it.1 fs' = some c := by
        cases lookup it.1 fs' <;> simp
      rcases hl with hl | ⟨content, hl⟩
      · simp [hl]
      · simp only [hl]
        rw [TieM.pyForFS_hasUpdated old_vinfo new_vinfo _ ?hu]
        case hu =>
          intro p st fs''
          have e1 : p.abs.raw = p.raw_pattern := rfl
          simp only [TieM.updStep, v1Render, e1]
          cases v1FormatVersion old_vinfo p.raw_pattern with
          | error e => rfl
          | ok a =>
            cases v1FormatVersion new_vinfo p.raw_pattern with
            | error e => rfl
            | ok b =>
              simp only []
              -- `if old != new: flag = True`, `if old == new: pass else: flag = True`, `flag = flag or old != new` … all mean the same
              by_cases hab : a = b
              · subst hab; cases st <;> simp
              · cases st <;> simp [hab]
        simp only [tie_v1RfdFromContent it.2 new_vinfo content _ hit, Bool.false_or]
        cases v1HasUpdatedVersion old_vinfo new_vinfo (it.2.map Pattern.abs) with
        | error e => rfl
        | ok upd =>
          simp only [Except.map]
          cases v1RewriteLines (it.2.map Pattern.abs) new_vinfo (splitOn (detectLineSep content) content) with
          | error e =>
            simp only []
            split <;> simp_all
          | ok nl =>
            simp only []
            have h1 := hdl (rfdOf it.1 content nl)
            by_cases heq : splitOn (detectLineSep content) content = nl
            · have hz : diff_lines (rfdOf it.1 content nl) = [] := List.length_eq_zero_iff.1 (h1.2 heq)
              subst heq
              simp only [rfdOf] at hz
              cases upd <;> simp [hz, rfdOf]
            · have hz : ¬ diff_lines (rfdOf it.1 content nl) = [] :=
                fun h => heq (h1.1 (List.length_eq_zero_iff.2 h))
              simp only [rfdOf] at hz
              simp [hz, heq, rfdOf]
    rw [show ("".toList : Str) = [] from rfl]
    cases TieM.diffFold diff_lines fs old_vinfo new_vinfo
      (GenF.pySortedBy (fun x => x.1) (fun a b => strLt a b) file_patterns) [] <;> rfl
  · simp [hall]

/-- `diff` never writes: whatever the parameters, the file system comes back unchanged -/
theorem tie_v1Diff_pure (old_vinfo new_vinfo : V1Info) (file_patterns : List (Str × List Pattern))
    (diff_lines : RewrittenFileData → List Str) (fs : FS) :
    (GenF.v1Diff old_vinfo new_vinfo file_patterns diff_lines fs).1 = fs := by
  unfold GenF.v1Diff
  simp only [tie_iterPathPatternsItems]
  by_cases hall : file_patterns.all (fun it => (lookup it.1 fs).isSome) = true
  · simp only [hall, if_true]
    generalize hres : GenF.pyForFS _ _ _ _ = res
    have h1 : res.1 = fs := by
      rw [← hres]
      refine GenF.pyForFS_fst _ ?_ _ _ _
      intro x st fs'
      split
      · rfl
      · generalize hin : GenF.pyForFS _ _ _ _ = inner
        have h2 : inner.1 = fs' := by
          rw [← hin]
          refine GenF.pyForFS_fst _ ?_ _ _ _
          intro p b fs''
          repeat' split
          all_goals rfl
        obtain ⟨fi, ri⟩ := inner
        simp only at h2
        subst h2
        cases ri with
        | error e => rfl
        | ok b =>
          simp only []
          repeat' split
          all_goals rfl
    obtain ⟨a, r⟩ := res
    simp only at h1
    subst h1
    cases r <;> rfl
  · simp [hall]

/-- success / the error of `v1rewrite.diff` is success / the error of the model's `v1DiffAll` -/
theorem tie_v1Diff_outcome (old_vinfo new_vinfo : V1Info) (file_patterns : List (Str × List Pattern))
    (diff_lines : RewrittenFileData → List Str) (fs : FS)
    (hdl : ∀ rfd, (diff_lines rfd).length = 0 ↔ rfd.old_lines = rfd.new_lines)
    (hwf : TieM.WfFilePatterns1 file_patterns) :
    (GenF.v1Diff old_vinfo new_vinfo file_patterns diff_lines fs).2.map (fun _ => ()) =
      (v1DiffAll fs old_vinfo new_vinfo (GenF.absFilePatterns file_patterns)).map (fun _ => ()) := by
  rw [tie_v1Diff _ _ _ _ _ hdl hwf]
  unfold v1DiffAll
  have hall : (GenF.absFilePatterns file_patterns).all (fun it => (lookup it.1 fs).isSome)
      = file_patterns.all (fun it => (lookup it.1 fs).isSome) := by
    simp [GenF.absFilePatterns, List.all_map, Function.comp_def]
  rw [hall, ← TieM.abs_sortedByPath]
  by_cases h : file_patterns.all (fun it => (lookup it.1 fs).isSome) = true
  · simp only [h, if_true]
    rw [← TieM.diffFold_outcome diff_lines]
    cases TieM.diffFold diff_lines fs old_vinfo new_vinfo
      (GenF.pySortedBy (fun x => x.1) (fun a b => strLt a b) file_patterns) [] <;> rfl
  · simp [h, Except.map]

end BV
