/-
  Proofs/Tie_formatPartValues.lean — the definition GENERATED from the Python source of
  `v2version._format_part_values` (Gen/F_formatPartValues.lean) equals the hand model `BV.formatPartValues`:
  for EVERY version info the Python function raises nothing and returns the model's list.

  Python: a loop over `PATTERN_PART_FIELDS.items()` that fills the dict `kwargs` (`vinfo._asdict()[field]`,
  `PART_FORMATS[part]` — both can raise KeyError as far as the translator knows), then
  `sorted(kwargs.items(), key=lambda item: -len(item[0]))`.
  Model : `filterMap` over the generated table (a missing formatter is skipped silently), then a fold of
  `insertByKeyLenDesc`.

  The proof checks on the GENERATED tables that no KeyError can happen (every field of `Gen.partFields` is a field of
  `V2VersionInfo`, every part has a formatter) and that the part names are distinct (so `kwargs[part] = …` always appends).
  The formatter functions themselves are table data (`Gen.FmtKind`, classified by harness/gen_tables.py) applied by the
  model's `fmtValue` on both sides.
-/
import BumpverVerif.Gen.F_formatPartValues
namespace BV.TieF
open GenF GenF.FP
set_option linter.unusedSimpArgs false

theorem bindE_ok' {α β : Type} (a : α) (f : α → Except PyExc β) : bindE (.ok a) f = f a := rfl

/-- `d[k]` on a str-keyed table is the model's `lookup` -/
theorem dictGet_eq_lookup {ν : Type} (k : Str) : ∀ (d : List (Str × ν)),
    dictGet d k = match lookup k d with | some v => .ok v | none => .error .keyError
  | [] => rfl
  | (k', v) :: rest => by
    have ih := dictGet_eq_lookup k rest
    simp only [dictGet, List.find?_cons, lookup] at ih ⊢
    by_cases h : k = k'
    · subst h; simp
    · have h' : (k' == k) = false := by simpa using fun e => h e.symm
      simp only [h', h, if_false]
      exact ih

/-- `d[k] = v` for a new key appends -/
theorem dictSet_new {ν : Type} (k : Str) (v : ν) : ∀ (d : List (Str × ν)), k ∉ d.map (·.1) →
    dictSet d k v = d ++ [(k, v)]
  | [], _ => rfl
  | (k', v') :: rest, h => by
    have hne : (k' == k) = false := by
      have : k ≠ k' := fun e => h (by simp [e])
      simpa using fun e => this e.symm
    have ih := dictSet_new k v rest (fun hm => h (by simp at hm ⊢; exact Or.inr hm))
    simp only [dictSet, hne, Bool.false_eq_true, if_false, ih, List.cons_append]

/-- one entry of the model's `filterMap` -/
def partValueOf (v : VInfo) (pf : Str × Str) : Option (Str × Str) :=
  match v.get pf.2 with
  | .none => none
  | fvv => match lookup pf.1 Gen.partFormats with
    | some k => some (pf.1, fmtValue k fvv)
    | none => none

/-- the filling loop, for any step function that behaves like the Python loop body -/
theorem foldlE_kwargs (v : VInfo) (g : List (Str × Str) → Str × Str → Except PyExc (List (Str × Str)))
    (hg : ∀ acc pf, g acc pf =
      bindE (vinfoGet v pf.2) fun fv =>
        if fv != FV.none then bindE (dictGet Gen.partFormats pf.1) fun k => .ok (dictSet acc pf.1 (fmtValue k fv))
        else .ok acc) :
    ∀ (l : List (Str × Str)) (acc : List (Str × Str)),
      (∀ pf ∈ l, Gen.versionFields.elem pf.2 = true) →
      (∀ pf ∈ l, (lookup pf.1 Gen.partFormats).isSome = true) →
      (l.map (·.1)).Nodup → (∀ pf ∈ l, pf.1 ∉ acc.map (·.1)) →
      foldlE g acc l = .ok (acc ++ l.filterMap (partValueOf v)) := by
  intro l
  induction l with
  | nil => intro acc _ _ _ _; simp [foldlE]
  | cons pf rest ih =>
    intro acc h1 h2 h3 h4
    have hf := h1 pf (by simp)
    obtain ⟨k, hk⟩ := Option.isSome_iff_exists.mp (h2 pf (by simp))
    rw [List.map_cons] at h3
    have hnd := List.nodup_cons.mp h3
    have hstep : g acc pf = .ok (acc ++ (partValueOf v pf).toList) := by
      rw [hg]
      simp only [vinfoGet, hf, if_true, bindE_ok', dictGet_eq_lookup, hk, partValueOf]
      cases hv : v.get pf.2 <;> simp [bindE_ok', dictSet_new _ _ _ (h4 pf (by simp))]
    rw [foldlE, hstep]
    simp only []
    rw [ih _ (fun p hp => h1 p (by simp [hp])) (fun p hp => h2 p (by simp [hp])) hnd.2]
    · simp only [List.filterMap_cons]
      cases partValueOf v pf <;> simp
    · intro p hp
      cases hpv : partValueOf v pf with
      | none => simpa using h4 p (by simp [hp])
      | some kv =>
        have hkv : kv.1 = pf.1 := by
          simp only [partValueOf] at hpv
          split at hpv
          · cases hpv
          · split at hpv
            · cases hpv; rfl
            · cases hpv
        simp only [Option.toList_some, List.map_append, List.map_cons, List.map_nil, List.mem_append,
          List.mem_singleton, hkv, not_or]
        refine ⟨h4 p (by simp [hp]), ?_⟩
        intro e
        exact hnd.1 (by rw [← e]; exact List.mem_map_of_mem hp)

/-- `sorted(items, key=lambda item: -len(item[0]))` is the model's insertion by descending name length -/
theorem insertByKey_len (key : Str × Str → Int) (hkey : ∀ x y, key x < key y ↔ x.1.length > y.1.length)
    (x : Str × Str) : ∀ (l : List (Str × Str)), insertByKey key x l = insertByKeyLenDesc x l
  | [] => rfl
  | y :: ys => by
    have ih := insertByKey_len key hkey x ys
    simp only [insertByKey, insertByKeyLenDesc, hkey, ih]

theorem pySortedBy_len (key : Str × Str → Int) (hkey : ∀ x y, key x < key y ↔ x.1.length > y.1.length)
    (l : List (Str × Str)) : pySortedBy key l = l.foldl (fun acc x => insertByKeyLenDesc x acc) [] := by
  simp only [pySortedBy, insertByKey_len key hkey]

/-- the same for `sorted(items, key=lambda item: len(item[0]), reverse=True)` (Python keeps `reverse=True` stable) -/
theorem insertByKeyDesc_len' (key : Str × Str → Int) (hkey : ∀ x y, key x > key y ↔ x.1.length > y.1.length)
    (x : Str × Str) : ∀ (l : List (Str × Str)), insertByKeyDesc key x l = insertByKeyLenDesc x l
  | [] => rfl
  | y :: ys => by
    have ih := insertByKeyDesc_len' key hkey x ys
    simp only [insertByKeyDesc, insertByKeyLenDesc, hkey, ih]

theorem pySortedByDesc_len' (key : Str × Str → Int) (hkey : ∀ x y, key x > key y ↔ x.1.length > y.1.length)
    (l : List (Str × Str)) : pySortedByDesc key l = l.foldl (fun acc x => insertByKeyLenDesc x acc) [] := by
  simp only [pySortedByDesc, insertByKeyDesc_len' key hkey]

/-- no part name of the generated table is empty (discharges the hypothesis of `tie_formatSegment`) -/
theorem _root_.BV.partFields_keys_ne : ∀ pf ∈ Gen.partFields, pf.1 ≠ [] := by decide

theorem _root_.BV.tie_formatPartValues (v : VInfo) : GenF.formatPartValues v = .ok (formatPartValues v) := by
  simp only [GenF.formatPartValues]
  rw [foldlE_kwargs v _ (by
    intro acc pf
    first
      | rfl
      | (rcases hx : vinfoGet v pf.2 with e | x
         · simp [bindE]
         · rcases hk : dictGet Gen.partFormats pf.1 with e2 | k <;>
             by_cases hn : x = FV.none <;> simp [bindE, hn]))
    Gen.partFields [] (by decide) (by decide) (by decide) (by simp)]
  simp only [bindE_ok', List.nil_append]
  first
    | rw [pySortedBy_len _ (by intro x y; simp only [Int.ofNat_eq_natCast]; omega)]
    | rw [pySortedByDesc_len' _ (by intro x y; simp only [Int.ofNat_eq_natCast]; omega)]
  simp only [formatPartValues]
  congr 2

/-- every key the function returns is a part name of the table, hence non-empty -/
theorem mem_insertByKeyLenDesc (x : Str × Str) : ∀ (l : List (Str × Str)) (y : Str × Str),
    y ∈ insertByKeyLenDesc x l → y = x ∨ y ∈ l
  | [], y, h => by simp [insertByKeyLenDesc] at h; exact Or.inl h
  | z :: zs, y, h => by
    simp only [insertByKeyLenDesc] at h
    split at h
    · simpa using h
    · rcases List.mem_cons.mp h with e | hm
      · exact Or.inr (by simp [e])
      · rcases mem_insertByKeyLenDesc x zs y hm with e | hm'
        · exact Or.inl e
        · exact Or.inr (by simp [hm'])

theorem mem_foldl_insert : ∀ (items acc : List (Str × Str)) (y : Str × Str),
    y ∈ items.foldl (fun acc x => insertByKeyLenDesc x acc) acc → y ∈ items ∨ y ∈ acc
  | [], acc, y, h => Or.inr h
  | x :: xs, acc, y, h => by
    rcases mem_foldl_insert xs _ y h with hm | hm
    · exact Or.inl (by simp [hm])
    · rcases mem_insertByKeyLenDesc x acc y hm with e | hm'
      · exact Or.inl (by simp [e])
      · exact Or.inr hm'

theorem _root_.BV.formatPartValues_keys_ne (v : VInfo) : ∀ pv ∈ formatPartValues v, pv.1 ≠ [] := by
  intro pv hpv
  simp only [formatPartValues] at hpv
  rcases mem_foldl_insert _ _ _ hpv with hm | hm
  · obtain ⟨pf, hpf, hsome⟩ := List.mem_filterMap.mp hm
    have hk : pv.1 = pf.1 := by
      split at hsome
      · cases hsome
      · split at hsome
        · cases hsome; rfl
        · cases hsome
    rw [hk]
    exact partFields_keys_ne pf hpf
  · cases hm

end BV.TieF
