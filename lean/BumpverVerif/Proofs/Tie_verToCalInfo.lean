/-
  Proofs/Tie_verToCalInfo.lean — the definition GENERATED from the Python source of
  `v2version._ver_to_cal_info` equals the hand model `BV.verToCalInfo` on all inputs
  (`cal_info(version.TODAY)` is the parameter `dflt` on both sides).
  Proved field by field: each field is a case distinction on one `Option Nat`.
-/
import BumpverVerif.Gen.F_verToCalInfo
import BumpverVerif.Model.V2Version
namespace BV

theorem tie_verToCalInfo (vinfo : VInfo) (dflt : CalInfo) :
    GenF.verToCalInfo vinfo dflt = verToCalInfo vinfo dflt := by
  simp only [GenF.verToCalInfo, verToCalInfo, CalInfo.toOpt, CalOpt.mk.injEq]
  and_intros <;> (split <;> split <;> simp_all)

end BV
