/-
  Proofs/Tie_v1FormatVersion.lean — the definition GENERATED from `v1version.format_version(vinfo, raw_pattern)` equals
  the hand model `BV.v1FormatVersion` (Model/V1.lean) for every record whose `bid` is a digit string:

   * `full_pattern`: one `str.replace("{" + part + "}", format)` per entry of `FULL_PART_FORMATS`, in table order;
   * `kwargs`: `vinfo._asdict()`, then `release` / `pep440_tag` (empty for `final`; `"-" + tag` and
     `PEP440_TAG_BY_TAG[tag] + "0"` otherwise — KeyError for an unknown tag), `release_tag`, `yy` / `yyyy` only for a
     truthy year, `BID = int(bid)`, then the loop over `ID_FIELDS_BY_PART` (the part named like its field gets the
     integer, the repeated-letter parts the zero-filled text);
   * `full_pattern.format(**kwargs)` (callee: the model's `v1PyFormat`, a trusted primitive).
  The dict is an association list with the NEWEST binding first on both sides, so the tie is an equality of lists.

  Hypothesis `hbid : isDigitStr v.bid`: `int(vinfo.bid, 10)` is rendered as `strToNat`; the model answers
  `unsupported` for anything that is not a digit string (Python's `int` accepts `" 12 "`, `"+1"`, `"1_0"` …).
  The loop can raise KeyError (`kwargs[field]`) and AssertionError in Python; with the GENERATED table
  `ID_FIELDS_BY_PART` neither happens (`v1IdFieldsByPart_ok`, kernel-checked over the 22 entries), which is why the
  model's loop is a pure fold.
-/
import BumpverVerif.Gen.F_v1FormatVersion
import BumpverVerif.Proofs.TieV1Spec
set_option linter.unusedSimpArgs false
set_option linter.unusedVariables false
namespace BV
open GenV1

/-! ### generic: a monadic fold that cannot fail -/

/-- a monadic fold whose every step succeeds (under an invariant `K` of the state and a property `P` of the
    elements) is the pure fold -/
theorem v1_foldlM_eq_ok {σ β : Type} (K : σ → Prop) (P : β → Prop) (stepM : σ → β → Except V1Err σ) (step : σ → β → σ)
    (h : ∀ s b, K s → P b → stepM s b = .ok (step s b) ∧ K (step s b)) :
    ∀ (l : List β) (s : σ), (∀ b ∈ l, P b) → K s →
      List.foldlM (m := Except V1Err) stepM s l = .ok (List.foldl step s l) := by
  intro l
  induction l with
  | nil => intro s _ _; rfl
  | cons b l ih =>
    intro s hP hK
    obtain ⟨h1, h2⟩ := h s b hK (hP b List.mem_cons_self)
    simp only [List.foldlM_cons, List.foldl_cons, h1]
    exact ih (step s b) (fun b' hb' => hP b' (List.mem_cons_of_mem _ hb')) h2

theorem v1_lookup_isSome_eq_keys {α} (f : Str) (kw : List (Str × α)) :
    (lookup f kw).isSome = (kw.map (fun kv => kv.1)).contains f := by
  induction kw with
  | nil => rfl
  | cons kv kw ih =>
    obtain ⟨k, v⟩ := kv
    simp only [lookup, List.map_cons, List.contains_cons]
    by_cases h : f = k
    · simp [h]
    · simp [h, ih]

theorem v1_lookup_isSome_append {α} (f : Str) (a b : List (Str × α)) (h : (lookup f b).isSome = true) :
    (lookup f (a ++ b)).isSome = true := by
  induction a with
  | nil => exact h
  | cons kv a ih =>
    obtain ⟨k, v⟩ := kv
    simp only [List.cons_append, lookup]
    split <;> simp [ih]

/-! ### the model as a chain: head (release / pep440_tag), kwargs before the loop, the loop step -/

/-- `release` and `pep440_tag` -/
def fmtHead (v : V1Info) : Except V1Err (Str × Str) :=
  if v.tag == "final".toList then .ok ([], [])
  else match lookup v.tag Gen.pep440TagByTag with
    | some p => .ok ('-' :: v.tag, p ++ ['0'])
    | none => .error .keyError

/-- `vinfo._asdict()` -/
def fmtBase (v : V1Info) : List (Str × FV) := [
    ("year".toList, optNat v.year), ("quarter".toList, optNat v.quarter), ("month".toList, optNat v.month),
    ("dom".toList, optNat v.dom), ("doy".toList, optNat v.doy), ("iso_week".toList, optNat v.isoWeek),
    ("us_week".toList, optNat v.usWeek), ("major".toList, .nat v.major), ("minor".toList, .nat v.minor),
    ("patch".toList, .nat v.patch), ("bid".toList, .str v.bid), ("tag".toList, .str v.tag)]

/-- what is bound on top of `vinfo._asdict()` before the loop, newest first -/
def fmtPre (v : V1Info) (rp : Str × Str) : List (Str × FV) :=
  ("BID".toList, .nat (strToNat v.bid)) ::
    ((match v.year with
      | some y => if y != 0 then [("yyyy".toList, FV.nat y), ("yy".toList, FV.str (last2 (natToStr y)))] else []
      | none => []) ++
     [("release_tag".toList, .str v.tag), ("pep440_tag".toList, .str rp.2), ("release".toList, .str rp.1)])

/-- the model's step of the loop over `ID_FIELDS_BY_PART` -/
def idStep (kw : List (Str × FV)) (pf : Str × Str) : List (Str × FV) :=
  let val : FV := (lookup pf.2 kw).getD .none
  if lowerStr pf.1 == lowerStr pf.2 then
    match val with
    | .str s => (pf.1, .nat (strToNat s)) :: kw
    | x => (pf.1, x) :: kw
  else
    let s : Str := match val with | .nat n => natToStr n | .str s => s | .none => "None".toList
    (pf.1, .str (zfill pf.1.length s)) :: kw

theorem v1FormatVersion_spec (v : V1Info) (raw : Str) (hbid : isDigitStr v.bid = true) :
    v1FormatVersion v raw =
      Except.bind (fmtHead v) (fun rp =>
        v1PyFormat (List.foldl idStep (fmtPre v rp ++ fmtBase v) Gen.v1IdFieldsByPart)
          (v1FullPattern Gen.v1FullPartFormats raw)) := by
  unfold v1FormatVersion v1Kwargs fmtHead fmtPre fmtBase
  simp only [bind, pure, Except.pure, hbid, Bool.not_true, Bool.false_eq_true, if_false, throw, throwThe,
    MonadExceptOf.throw]
  by_cases ht : (v.tag == "final".toList) = true
  · simp only [ht, if_true, v1_ebind_ok]
    rcases v.year with _ | y
    · rfl
    · by_cases hy : (y != 0) = true
      · simp only [hy, if_true]; rfl
      · simp only [hy, if_false]; rfl
  · simp only [ht, if_false, Bool.false_eq_true]
    cases lookup v.tag Gen.pep440TagByTag with
    | none => rfl
    | some p =>
      simp only [v1_ebind_ok]
      rcases v.year with _ | y
      · rfl
      · by_cases hy : (y != 0) = true
        · simp only [hy, if_true]; rfl
        · simp only [hy, if_false]; rfl

/-! ### the loop never fails on the generated table -/

def idFields : List Str := ["major".toList, "minor".toList, "patch".toList, "bid".toList]

/-- what the loop needs of a table entry: a known field, and either the part is the field's name (up to case) or
    it is one repeated character (the `assert`) -/
def idPartOk (pf : Str × Str) : Bool :=
  idFields.contains pf.2 && (lowerStr pf.1 == lowerStr pf.2 || (List.eraseDups pf.1).length == 1)

theorem v1IdFieldsByPart_ok : ∀ pf ∈ Gen.v1IdFieldsByPart, idPartOk pf = true := by decide

/-- the invariant of the loop: the kwargs still end in `vinfo._asdict()` (bindings are only added in front) -/
def kwOver (v : V1Info) (kw : List (Str × FV)) : Prop := ∃ pre, kw = pre ++ fmtBase v

theorem kwOver_lookup (v : V1Info) (kw : List (Str × FV)) (h : kwOver v kw) (f : Str) (hf : idFields.contains f = true) :
    ∃ val, lookup f kw = some val := by
  obtain ⟨pre, rfl⟩ := h
  have hb : (lookup f (fmtBase v)).isSome = true := by
    rw [v1_lookup_isSome_eq_keys]
    have : (fmtBase v).map (fun kv => kv.1) = ["year".toList, "quarter".toList, "month".toList, "dom".toList,
        "doy".toList, "iso_week".toList, "us_week".toList, "major".toList, "minor".toList, "patch".toList,
        "bid".toList, "tag".toList] := rfl
    rw [this]
    have hmem : f ∈ idFields := by simpa using hf
    clear hf
    revert f
    decide
  have := v1_lookup_isSome_append f pre (fmtBase v) hb
  exact Option.isSome_iff_exists.mp this

theorem kwOver_cons (v : V1Info) (kw : List (Str × FV)) (h : kwOver v kw) (x : Str × FV) : kwOver v (x :: kw) := by
  obtain ⟨pre, rfl⟩ := h
  exact ⟨x :: pre, rfl⟩

theorem kwOver_idStep (v : V1Info) (kw : List (Str × FV)) (h : kwOver v kw) (pf : Str × Str) :
    kwOver v (idStep kw pf) := by
  unfold idStep
  dsimp only
  split
  · split <;> exact kwOver_cons v kw h _
  · exact kwOver_cons v kw h _

/-- after the head and the year are decided: rewrite the generated loop into the model's fold, then compare the
    kwargs lists -/
macro "fmt_finish" v:ident raw:ident rp:term:max hloop:ident hstep:ident hok:ident hs:ident* : tactic => `(tactic| (
    refine (congrArg (fun r => Except.bind r _) ($hloop:ident _ _ ($hstep:ident _ ?hs) ?hk)).trans ?_
    case hk =>
      refine ⟨fmtPre $v:ident $rp, ?_⟩
      simp only [fmtPre, fmtBase, List.nil_append, List.cons_append, if_true, if_false, Bool.false_eq_true, $[$hs:term],*]
      try rfl
    case hs =>
      intro s b val hval hor
      try dsimp only
      have hcomm : (lowerStr b.2 == lowerStr b.1) = (lowerStr b.1 == lowerStr b.2) := by
        rw [Bool.eq_iff_iff]; simp only [beq_iff_eq]; exact eq_comm
      try simp only [hcomm]
      simp only [pyGetItem, hval, v1_ebind_ok, idStep, Option.getD_some]
      by_cases hl : (lowerStr b.1 == lowerStr b.2) = true
      · simp only [hl, if_true, v1_ebind_ok]
        cases val <;> rfl
      · have hone : ((List.eraseDups b.1).length == 1) = true := by
          simp only [Bool.or_eq_true] at hor
          rcases hor with h | h
          · exact absurd h hl
          · exact h
        simp only [hl, if_false, Bool.false_eq_true, hone, pyAssert, if_true, v1_ebind_ok]
        cases val <;> rfl
    rw [v1_ebind_ok, $hok:ident]
    refine congrArg (fun kw => v1PyFormat (List.foldl idStep kw Gen.v1IdFieldsByPart)
      (v1FullPattern Gen.v1FullPartFormats $raw:ident)) ?_
    simp only [fmtPre, fmtBase, List.nil_append, List.cons_append, if_true, if_false, Bool.false_eq_true, $[$hs:term],*]
    try rfl))

/-! ### the tie -/

theorem tie_v1FormatVersion (v : V1Info) (raw : Str) (hbid : isDigitStr v.bid = true) :
    GenV1.v1FormatVersion v raw = v1FormatVersion v raw := by
  rw [v1FormatVersion_spec v raw hbid]
  unfold GenV1.v1FormatVersion
  dsimp only
  -- the pattern with the composite parts expanded
  have hfp : ∀ (f : Str → Str × Str → Str), (∀ st it, f st it = pyReplace (("{".toList ++ it.1) ++ "}".toList) it.2 st) →
      List.foldl f raw Gen.v1FullPartFormats = v1FullPattern Gen.v1FullPartFormats raw := by
    intro f hf
    unfold v1FullPattern
    refine congrArg (fun g => List.foldl g raw Gen.v1FullPartFormats) ?_
    funext st it
    rw [hf]
    simp [pyReplace]
  rw [hfp _ (fun st it => rfl)]
  -- the loop is the model's pure fold
  have hloop : ∀ (stepM : List (Str × FV) → Str × Str → Except V1Err (List (Str × FV))) (kw : List (Str × FV)),
      (∀ s b, kwOver v s → idPartOk b = true → stepM s b = .ok (idStep s b)) → kwOver v kw →
      List.foldlM (m := Except V1Err) stepM kw Gen.v1IdFieldsByPart = .ok (List.foldl idStep kw Gen.v1IdFieldsByPart) :=
    fun stepM kw hs hk =>
      v1_foldlM_eq_ok (kwOver v) (fun b => idPartOk b = true) stepM idStep
        (fun s b hK hP => ⟨hs s b hK hP, kwOver_idStep v s hK b⟩) _ kw v1IdFieldsByPart_ok hk
  -- one step of the generated loop, for a table entry that is fine and kwargs that still hold the record:
  -- `kwargs[field]` is bound, the `assert` holds; by cases on the looked-up value, not on the shape of the code
  have hstep : ∀ (stepM : List (Str × FV) → Str × Str → Except V1Err (List (Str × FV))),
      (∀ s b val, lookup b.2 s = some val → (lowerStr b.1 == lowerStr b.2 || (List.eraseDups b.1).length == 1) = true →
        stepM s b = .ok (idStep s b)) →
      ∀ s b, kwOver v s → idPartOk b = true → stepM s b = .ok (idStep s b) := by
    intro stepM hm s b hK hP
    unfold idPartOk at hP
    simp only [Bool.and_eq_true] at hP
    obtain ⟨val, hval⟩ := kwOver_lookup v s hK b.2 hP.1
    exact hm s b val hval hP.2
  have hok : ∀ x : Except V1Err Str, Except.bind x (fun r => Except.ok r) = x := fun x => by cases x <;> rfl
  -- release / pep440_tag: `final`, a known tag, an unknown tag (KeyError); then the year: none, 0, other
  unfold fmtHead
  have htn : (v.tag != "final".toList) = !(v.tag == "final".toList) := rfl
  cases ht : (v.tag == "final".toList) with
  | true =>
    simp only [htn, ht, Bool.not_true, Bool.not_false, Bool.false_eq_true, if_true, if_false, v1_ebind_ok]
    rcases hyr : v.year with _ | y
    · fmt_finish v raw ([], []) hloop hstep hok hyr
    · by_cases hy : (y != 0) = true
      · simp only [hy, if_true]
        fmt_finish v raw ([], []) hloop hstep hok hyr hy
      · simp only [hy, if_false, Bool.false_eq_true]
        fmt_finish v raw ([], []) hloop hstep hok hyr hy
  | false =>
    simp only [htn, ht, Bool.not_true, Bool.not_false, Bool.false_eq_true, if_true, if_false]
    unfold pyGetItem
    cases lookup v.tag Gen.pep440TagByTag with
    | none => rfl
    | some p =>
      simp only [v1_ebind_ok]
      rcases hyr : v.year with _ | y
      · fmt_finish v raw ('-' :: v.tag, p ++ ['0']) hloop hstep hok hyr
      · by_cases hy : (y != 0) = true
        · simp only [hy, if_true]
          fmt_finish v raw ('-' :: v.tag, p ++ ['0']) hloop hstep hok hyr hy
        · simp only [hy, if_false, Bool.false_eq_true]
          fmt_finish v raw ('-' :: v.tag, p ++ ['0']) hloop hstep hok hyr hy

/-- `hbid` is needed: for a `bid` that is not a digit string the model says `unsupported` (it does not model what
    `int()` accepts beyond digits), the generated code computes with `strToNat` -/
theorem tie_v1FormatVersion_bid_witness :
    let v : V1Info := { year := none, quarter := none, month := none, dom := none, doy := none, isoWeek := none,
                        usWeek := none, major := 0, minor := 0, patch := 0, bid := [], tag := "final".toList }
    GenV1.v1FormatVersion v "x".toList = .ok "x".toList ∧ v1FormatVersion v "x".toList = .error .unsupported := by
  decide +kernel

end BV
