/-
  Proofs/TokTie_Items.lean — a tree as a flat list of ITEMS (raw text / part token) with positions:
  `Pat.gtext` = the concatenated sources, `Pat.regexText` = the concatenated outputs, the tokens with their
  offsets (`toks`), substitution of all tokens right to left (`foldl_toks_reverse`), and the adjacency condition
  on items (`safeItemsK`): every occurrence of a part name lies inside a token (`occ_inside`).
-/
import BumpverVerif.Proofs.TokTie_Text
import BumpverVerif.Proofs.TokTie_Sort
namespace BV

inductive Item
  | raw (s : Str)
  | tok (n : Str)

def Item.src : Item → Str
  | .raw s => s
  | .tok n => n

def Item.out : Item → Str
  | .raw s => s
  | .tok n => groupText n

def srcAll (l : List Item) : Str := l.flatMap Item.src
def outAll (l : List Item) : Str := l.flatMap Item.out

def Pat.items : Pat → List Item
  | .done => []
  | .lit c rest => .raw (regexLit c) :: Pat.items rest
  | .part n rest => .tok n :: Pat.items rest
  | .opt body rest => .raw "(?:".toList :: (Pat.items body ++ .raw ")?".toList :: Pat.items rest)

theorem srcAll_cons (x : Item) (l : List Item) : srcAll (x :: l) = x.src ++ srcAll l := by simp [srcAll]
theorem outAll_cons (x : Item) (l : List Item) : outAll (x :: l) = x.out ++ outAll l := by simp [outAll]
theorem srcAll_append (a b : List Item) : srcAll (a ++ b) = srcAll a ++ srcAll b := by simp [srcAll]
theorem outAll_append (a b : List Item) : outAll (a ++ b) = outAll a ++ outAll b := by simp [outAll]

theorem srcAll_items (p : Pat) : srcAll p.items = p.gtext := by
  induction p with
  | done => rfl
  | lit c rest ih => simp [Pat.items, Pat.gtext, srcAll_cons, Item.src, ih]
  | part n rest ih => simp [Pat.items, Pat.gtext, srcAll_cons, Item.src, ih]
  | opt body rest ihb ihr =>
    simp [Pat.items, Pat.gtext, srcAll_cons, srcAll_append, Item.src, ihb, ihr]

theorem outAll_items (p : Pat) : outAll p.items = p.regexText := by
  induction p with
  | done => rfl
  | lit c rest ih => simp [Pat.items, Pat.regexText, outAll_cons, Item.out, ih]
  | part n rest ih => simp [Pat.items, Pat.regexText, outAll_cons, Item.out, ih]
  | opt body rest ihb ihr =>
    simp [Pat.items, Pat.regexText, outAll_cons, outAll_append, Item.out, ihb, ihr]

/-! ### tokens and their positions -/

def plainTok (off : Nat) (n : Str) : PosPart :=
  { start := off, stop := off + n.length, name := n, text := groupText n }

def toks : Nat → List Item → List PosPart
  | _, [] => []
  | off, .raw s :: r => toks (off + s.length) r
  | off, .tok n :: r => plainTok off n :: toks (off + n.length) r

theorem toks_facts (items : List Item) (off : Nat) :
    ∀ t ∈ toks off items, off ≤ t.start ∧ t.stop = t.start + t.name.length ∧
      t.stop ≤ off + (srcAll items).length ∧ Item.tok t.name ∈ items ∧ t = plainTok t.start t.name ∧
      t.name.isPrefixOf ((srcAll items).drop (t.start - off)) = true := by
  induction items generalizing off with
  | nil => intro t ht; cases ht
  | cons x r ih =>
    intro t ht
    cases x with
    | raw s =>
      simp only [toks] at ht
      obtain ⟨h1, h2, h3, h4, h5, h6⟩ := ih _ t ht
      refine ⟨by omega, h2, ?_, List.mem_cons_of_mem _ h4, h5, ?_⟩
      · simp only [srcAll_cons, Item.src, List.length_append]; omega
      · simp only [srcAll_cons, Item.src]
        have : t.start - off = s.length + (t.start - (off + s.length)) := by omega
        rw [this, ← List.drop_drop, List.drop_left]
        exact h6
    | tok n =>
      simp only [toks] at ht
      rcases List.mem_cons.mp ht with e | e
      · subst e
        refine ⟨Nat.le_refl _, rfl, ?_, List.mem_cons_self, rfl, ?_⟩
        · simp only [plainTok, srcAll_cons, Item.src, List.length_append]; omega
        · simp [plainTok, srcAll_cons, Item.src]
      · obtain ⟨h1, h2, h3, h4, h5, h6⟩ := ih _ t e
        refine ⟨by omega, h2, ?_, List.mem_cons_of_mem _ h4, h5, ?_⟩
        · simp only [srcAll_cons, Item.src, List.length_append]; omega
        · simp only [srcAll_cons, Item.src]
          have : t.start - off = n.length + (t.start - (off + n.length)) := by omega
          rw [this, ← List.drop_drop, List.drop_left]
          exact h6

theorem toks_pairwise (items : List Item) (off : Nat) :
    (toks off items).Pairwise (fun a b => a.stop ≤ b.start) := by
  induction items generalizing off with
  | nil => exact List.Pairwise.nil
  | cons x r ih =>
    cases x with
    | raw s => exact ih _
    | tok n =>
      simp only [toks]
      refine List.pairwise_cons.mpr ⟨fun t ht => ?_, ih _⟩
      have := (toks_facts r _ t ht).1
      simpa [plainTok] using this

theorem mem_toks_of_mem (items : List Item) (off : Nat) (n : Str) (h : Item.tok n ∈ items) :
    ∃ t ∈ toks off items, t.name = n := by
  induction items generalizing off with
  | nil => cases h
  | cons x r ih =>
    cases x with
    | raw s =>
      have e : Item.tok n ∈ r := by simpa using h
      obtain ⟨t, ht, hn⟩ := ih (off + s.length) e
      exact ⟨t, by simpa [toks] using ht, hn⟩
    | tok n' =>
      rcases List.mem_cons.mp h with e | e
      · cases e; exact ⟨plainTok off n, by simp [toks], rfl⟩
      · obtain ⟨t, ht, hn⟩ := ih (off + n'.length) e
        exact ⟨t, by simp [toks, ht], hn⟩

/-- substituting all tokens, rightmost first, yields the concatenated outputs -/
theorem foldr_toks (items : List Item) (pre : Str) (l0 : Nat)
    (h : pre.length + (srcAll items).length ≤ l0) :
    ∃ l, pre.length ≤ l ∧
      (toks pre.length items).foldr (fun it acc => substStep acc it) (pre ++ srcAll items, l0) =
        (pre ++ outAll items, l) := by
  induction items generalizing pre with
  | nil => exact ⟨l0, by simpa [srcAll] using h, by simp [toks, srcAll, outAll]⟩
  | cons x r ih =>
    cases x with
    | raw s =>
      simp only [srcAll_cons, outAll_cons, Item.src, Item.out, List.length_append] at h ⊢
      obtain ⟨l, hl, e⟩ := ih (pre ++ s) (by simp only [List.length_append]; omega)
      simp only [List.length_append, List.append_assoc] at hl e
      exact ⟨l, by omega, by simpa [toks] using e⟩
    | tok n =>
      simp only [srcAll_cons, outAll_cons, Item.src, Item.out, List.length_append] at h ⊢
      obtain ⟨l, hl, e⟩ := ih (pre ++ n) (by simp only [List.length_append]; omega)
      simp only [List.length_append, List.append_assoc] at hl e
      refine ⟨pre.length, Nat.le_refl _, ?_⟩
      have hle : pre.length + n.length ≤ l := hl
      rw [toks, List.foldr_cons, e]
      simp only [substStep, plainTok, hle, if_true]
      congr 1
      have e1 : List.take pre.length (pre ++ (n ++ outAll r)) = pre := by simp
      have e2 : List.drop (pre.length + n.length) (pre ++ (n ++ outAll r)) = outAll r := by
        rw [← List.drop_drop]; simp
      rw [e1, e2, List.append_assoc]

theorem foldl_toks_reverse (items : List Item) :
    ((toks 0 items).reverse.foldl substStep (srcAll items, (srcAll items).length + 1)).1 = outAll items := by
  rw [List.foldl_reverse]
  obtain ⟨l, -, e⟩ := foldr_toks items [] ((srcAll items).length + 1) (by simp)
  simp only [List.length_nil, List.nil_append] at e
  rw [e]

/-! ### the adjacency condition on items -/

def safeItemsK : List Item → Str → Prop
  | [], _ => True
  | .raw s :: r, k =>
    (∀ o, o < s.length → ∀ m ∈ partNames, m.isPrefixOf (s.drop o ++ (srcAll r ++ k)) = false) ∧ safeItemsK r k
  | .tok n :: r, k =>
    (∀ o, o < n.length → ∀ m ∈ partNames, m.isPrefixOf (n.drop o ++ (srcAll r ++ k)) = true →
      o + m.length ≤ n.length) ∧ safeItemsK r k

theorem safeItemsK_append (a b : List Item) (k : Str) :
    safeItemsK (a ++ b) k ↔ safeItemsK a (srcAll b ++ k) ∧ safeItemsK b k := by
  induction a with
  | nil => simp [safeItemsK]
  | cons x r ih =>
    cases x with
    | raw s => simp only [List.cons_append, safeItemsK, ih, srcAll_append, List.append_assoc, and_assoc]
    | tok n => simp only [List.cons_append, safeItemsK, ih, srcAll_append, List.append_assoc, and_assoc]

/-- under the adjacency condition every occurrence of a part name lies inside a token -/
theorem occ_inside (items : List Item) (k : Str) (off : Nat) (hs : safeItemsK items k) :
    ∀ i, i < (srcAll items).length → ∀ m ∈ partNames, m.isPrefixOf ((srcAll items ++ k).drop i) = true →
      ∃ t ∈ toks off items, t.start ≤ off + i ∧ off + i + m.length ≤ t.stop := by
  induction items generalizing off with
  | nil => intro i hi; simp [srcAll] at hi
  | cons x r ih =>
    intro i hi m hm hp
    cases x with
    | raw s =>
      simp only [safeItemsK] at hs
      simp only [srcAll_cons, Item.src, List.length_append, List.append_assoc] at hi hp
      by_cases hlt : i < s.length
      · have := hs.1 i hlt m hm
        rw [List.drop_append_of_le_length (Nat.le_of_lt hlt)] at hp
        rw [this] at hp; cases hp
      · have e : i = s.length + (i - s.length) := by omega
        rw [e, ← List.drop_drop, List.drop_left] at hp
        obtain ⟨t, ht, h1, h2⟩ := ih (off + s.length) hs.2 (i - s.length) (by omega) m hm hp
        exact ⟨t, by simpa [toks] using ht, by omega, by omega⟩
    | tok n =>
      simp only [safeItemsK] at hs
      simp only [srcAll_cons, Item.src, List.length_append, List.append_assoc] at hi hp
      by_cases hlt : i < n.length
      · rw [List.drop_append_of_le_length (Nat.le_of_lt hlt)] at hp
        have := hs.1 i hlt m hm hp
        exact ⟨plainTok off n, by simp [toks], by simp [plainTok], by simp only [plainTok]; omega⟩
      · have e : i = n.length + (i - n.length) := by omega
        rw [e, ← List.drop_drop, List.drop_left] at hp
        obtain ⟨t, ht, h1, h2⟩ := ih (off + n.length) hs.2 (i - n.length) (by omega) m hm hp
        exact ⟨t, by simp [toks, ht], by omega, by omega⟩

end BV
