/-
  Proofs/Tie_argvSubMsgTemplate.lean — source-level tie for `cli._sub_msg_template` (Gen/F_argvSubMsgTemplate.lean;
  property C12: the OLD / NEW shorthand of `--commit-message` / `--tag-message`).

  The generated definition is `re.sub(<pattern literal>, <replacement literal>, message)` with the two LITERALS of
  the source; `re.sub` is the small generic regex substitution `BV.TieK.reSub` of Model/EffK.lean (parse the
  pattern, parse the replacement template, scan left to right, first match in backtracking order).  The tie
  proves that for the literals of the working tree this is the hand-written state machine `subMsgTemplate`
  (Model/Vcs.lean) on EVERY message:

      tie_argvSubMsgTemplate : (∀ c ∈ m, w.isWord c = isWordChar c) →
          argvSubMsgTemplate m w s = (s, .ok (subMsgTemplate m))

  HYPOTHESIS (a genuine model / Python difference, reported): Python's `\b` is Unicode aware — for a `str` pattern
  `\w` contains every alphanumeric character of any script — while the hand model's `isWordChar` is ASCII only.
  `w.isWord` stands for Python's class; the tie needs it to agree with the model's on the characters of the
  message (in particular: every ASCII message).  Witness on the real code:
  `cli._sub_msg_template("éOLD") == "éOLD"` (no boundary between `é` and `O`), the model answers
  `"é{OLD_VERSION}"` (`subMsg_nonascii_witness` below); the driver answers `unsupported` for non-ASCII messages.
-/
import BumpverVerif.Gen.F_argvSubMsgTemplate
import BumpverVerif.Proofs.ArgvLemmas
namespace BV.TieK
open BV.TieK.Gen

/-! ### the matcher on literal words -/

theorem lit_m (isW : Char → Bool) : ∀ (w : Str) (c0 : Char) (st : RSt),
    (Rx.lit (c0 :: w)).m isW st =
      if (c0 :: w).isPrefixOf st.rest then
        [{ prev := (c0 :: w).getLast?, rest := st.rest.drop (c0 :: w).length, caps := st.caps }]
      else [] := by
  intro w
  induction w with
  | nil =>
    intro c0 st
    obtain ⟨prev, rest, caps⟩ := st
    cases rest with
    | nil => simp [Rx.lit, Rx.m]
    | cons x r =>
      by_cases h : x = c0
      · subst h; simp [Rx.lit, Rx.m]
      · have h' : ¬ c0 = x := fun e => h e.symm
        simp [Rx.lit, Rx.m, h, h']
  | cons c1 w ih =>
    intro c0 st
    obtain ⟨prev, rest, caps⟩ := st
    cases rest with
    | nil => simp [Rx.lit, Rx.m]
    | cons x r =>
      by_cases h : x = c0
      · subst h
        have hc : (Rx.chr x).m isW { prev := prev, rest := x :: r, caps := caps }
            = [{ prev := some x, rest := r, caps := caps }] := by simp [Rx.m]
        show ((Rx.chr x).m isW _).flatMap ((Rx.lit (c1 :: w)).m isW) = _
        rw [hc, List.flatMap_cons, List.flatMap_nil, List.append_nil, ih]
        simp only [List.isPrefixOf, beq_self_eq_true, Bool.true_and, List.getLast?_cons_cons, List.length_cons,
          List.drop_succ_cons]
      · have h' : ¬ c0 = x := fun e => h e.symm
        simp [Rx.lit, Rx.m, h, h']

/-! ### the regex and the replacement of the working tree -/

def OLDs : Str := ['O', 'L', 'D']
def NEWs : Str := ['N', 'E', 'W']

/-- `\b(OLD|NEW)\b` -/
def msgRx : Rx := .seq .wordB (.seq (.grp 1 (.alt (Rx.lit OLDs) (Rx.lit NEWs))) (.seq .wordB .eps))

/-- `{\1_VERSION}` -/
def msgRepl : List RPiece :=
  [.lit '{', .ref 1, .lit '_', .lit 'V', .lit 'E', .lit 'R', .lit 'S', .lit 'I', .lit 'O', .lit 'N', .lit '}']

/-- the model's test "does the word `wd` start here, with a boundary on both sides" -/
def hitM (prevWord : Bool) (s wd : Str) : Bool :=
  !prevWord && wd.isPrefixOf s && !((s.drop wd.length).head?.map isWordChar).getD false

theorem subMsgGo_zero_cons (pw : Bool) (c : Char) (r : Str) :
    subMsgGo 0 pw (c :: r) =
      if hitM pw (c :: r) OLDs then "{OLD_VERSION}".toList ++ subMsgGo 2 true r
      else if hitM pw (c :: r) NEWs then "{NEW_VERSION}".toList ++ subMsgGo 2 true r
      else c :: subMsgGo 0 (isWordChar c) r := rfl

theorem isPrefixOf_split {wd s : Str} (h : wd.isPrefixOf s = true) : ∃ r, s = wd ++ r := by
  have := List.isPrefixOf_iff_prefix.1 h
  obtain ⟨r, hr⟩ := this
  exact ⟨r, hr.symm⟩

/-- what the regex finds at a position: the first (and only) match, if the word starts here -/
theorem msgRx_head (isW : Char → Bool) (prev : Option Char) (s : Str)
    (hs : ∀ c ∈ s, isW c = isWordChar c) (hp : ∀ c, prev = some c → isW c = isWordChar c) :
    ((msgRx.m isW { prev := prev, rest := s, caps := [] }).head?) =
      if hitM ((prev.map isWordChar).getD false) s OLDs then
        some { prev := some 'D', rest := s.drop 3, caps := [(1, OLDs)] }
      else if hitM ((prev.map isWordChar).getD false) s NEWs then
        some { prev := some 'W', rest := s.drop 3, caps := [(1, NEWs)] }
      else none := by
  have hprev : (prev.map isW).getD false = (prev.map isWordChar).getD false := by
    cases prev with
    | none => rfl
    | some c => simp [hp c rfl]
  by_cases hO : OLDs.isPrefixOf s = true
  · obtain ⟨r, rfl⟩ := isPrefixOf_split hO
    have hD : isW 'D' = true := by rw [hs 'D' (by simp [OLDs])]; decide
    have hOc : isW 'O' = true := by rw [hs 'O' (by simp [OLDs])]; decide
    have hnext : (r.head?.map isW).getD false = (r.head?.map isWordChar).getD false := by
      cases r with
      | nil => rfl
      | cons x r => simp [hs x (by simp [OLDs])]
    have h3 : r.length + 1 + 1 + 1 - r.length = 3 := by omega
    obtain ⟨a, ha⟩ : ∃ a, (prev.map isWordChar).getD false = a := ⟨_, rfl⟩
    obtain ⟨b, hb⟩ : ∃ b, (r.head?.map isWordChar).getD false = b := ⟨_, rfl⟩
    rw [ha] at hprev; rw [hb] at hnext
    cases a <;> cases b <;>
      simp [msgRx, Rx.m, lit_m, hitM, atBoundary, OLDs, NEWs, hprev, hnext, hD, hOc, h3, ha, hb, List.isPrefixOf]
  · by_cases hN : NEWs.isPrefixOf s = true
    · obtain ⟨r, rfl⟩ := isPrefixOf_split hN
      have hW : isW 'W' = true := by rw [hs 'W' (by simp [NEWs])]; decide
      have hNc : isW 'N' = true := by rw [hs 'N' (by simp [NEWs])]; decide
      have hnext : (r.head?.map isW).getD false = (r.head?.map isWordChar).getD false := by
        cases r with
        | nil => rfl
        | cons x r => simp [hs x (by simp [NEWs])]
      have h3 : r.length + 1 + 1 + 1 - r.length = 3 := by omega
      obtain ⟨a, ha⟩ : ∃ a, (prev.map isWordChar).getD false = a := ⟨_, rfl⟩
      obtain ⟨b, hb⟩ : ∃ b, (r.head?.map isWordChar).getD false = b := ⟨_, rfl⟩
      rw [ha] at hprev; rw [hb] at hnext
      cases a <;> cases b <;>
        simp [msgRx, Rx.m, lit_m, hitM, atBoundary, OLDs, NEWs, hprev, hnext, hW, hNc, h3, ha, hb, List.isPrefixOf]
    · have hO' : OLDs.isPrefixOf s = false := Bool.eq_false_iff.mpr hO
      have hN' : NEWs.isPrefixOf s = false := Bool.eq_false_iff.mpr hN
      have h1 := lit_m isW ['L', 'D'] 'O' { prev := prev, rest := s, caps := [] }
      have h2 := lit_m isW ['E', 'W'] 'N' { prev := prev, rest := s, caps := [] }
      simp only [OLDs, NEWs] at hO' hN'
      simp only [hO', hN', Bool.false_eq_true, if_false] at h1 h2
      simp only [hitM, OLDs, NEWs, hO', hN', Bool.and_false, Bool.false_and, Bool.false_eq_true, if_false]
      simp only [msgRx, OLDs, NEWs, Rx.m]
      split <;> simp [h1, h2]

/-! ### the scanning loop is the model's state machine -/

theorem reSubGo_eq (isW : Char → Bool) : ∀ (n : Nat) (s : Str) (prev : Option Char), s.length ≤ n →
    (∀ c ∈ s, isW c = isWordChar c) → (∀ c, prev = some c → isW c = isWordChar c) →
    reSubGo isW msgRx msgRepl 0 prev s = subMsgGo 0 ((prev.map isWordChar).getD false) s := by
  intro n
  induction n with
  | zero =>
    intro s prev hn _ _
    cases s with
    | nil => rfl
    | cons c r => simp at hn
  | succ n ih =>
    intro s prev hn hs hp
    cases s with
    | nil => rfl
    | cons c r =>
      rw [subMsgGo_zero_cons]
      simp only [reSubGo]
      rw [msgRx_head isW prev (c :: r) hs hp]
      by_cases hO : hitM ((prev.map isWordChar).getD false) (c :: r) OLDs = true
      · simp only [hO, if_true]
        have hpre : OLDs.isPrefixOf (c :: r) = true := by
          simp only [hitM, Bool.and_eq_true] at hO; exact hO.1.2
        obtain ⟨r', hr'⟩ := isPrefixOf_split hpre
        simp only [OLDs, List.cons_append, List.nil_append, List.cons.injEq] at hr'
        obtain ⟨rfl, rfl⟩ := hr'
        have hlen : ('O' :: 'L' :: 'D' :: r').length - (('O' :: 'L' :: 'D' :: r').drop 3).length - 1 = 2 := by
          simp only [List.length_cons, List.drop_succ_cons, List.drop_zero]; omega
        rw [hlen]
        simp only [reSubGo, subMsgGo]
        have hD : isW 'D' = isWordChar 'D' := hs 'D' (by simp)
        have := ih r' (some 'D') (by simp at hn ⊢; omega)
          (fun c hc => hs c (by simp [hc])) (fun c hc => by cases hc; exact hD)
        rw [this]
        rfl
      · have hO' : hitM ((prev.map isWordChar).getD false) (c :: r) OLDs = false := by simpa using hO
        simp only [hO', Bool.false_eq_true, if_false]
        by_cases hN : hitM ((prev.map isWordChar).getD false) (c :: r) NEWs = true
        · simp only [hN, if_true]
          have hpre : NEWs.isPrefixOf (c :: r) = true := by
            simp only [hitM, Bool.and_eq_true] at hN; exact hN.1.2
          obtain ⟨r', hr'⟩ := isPrefixOf_split hpre
          simp only [NEWs, List.cons_append, List.nil_append, List.cons.injEq] at hr'
          obtain ⟨rfl, rfl⟩ := hr'
          have hlen : ('N' :: 'E' :: 'W' :: r').length - (('N' :: 'E' :: 'W' :: r').drop 3).length - 1 = 2 := by
            simp only [List.length_cons, List.drop_succ_cons, List.drop_zero]; omega
          rw [hlen]
          simp only [reSubGo, subMsgGo]
          have hW : isW 'W' = isWordChar 'W' := hs 'W' (by simp)
          have := ih r' (some 'W') (by simp at hn ⊢; omega)
            (fun c hc => hs c (by simp [hc])) (fun c hc => by cases hc; exact hW)
          rw [this]
          rfl
        · have hN' : hitM ((prev.map isWordChar).getD false) (c :: r) NEWs = false := by simpa using hN
          simp only [hN', Bool.false_eq_true, if_false]
          have := ih r (some c) (by simp at hn ⊢; omega)
            (fun d hd => hs d (by simp [hd])) (fun d hd => by cases hd; exact hs c (by simp))
          rw [this]
          rfl

/-! ### the tie -/

theorem parse_msgRx :
    parseRx ['\\', 'b', '(', 'O', 'L', 'D', '|', 'N', 'E', 'W', ')', '\\', 'b'] = some msgRx := by decide +kernel

theorem parse_msgRepl :
    parseRepl ['{', '\\', '1', '_', 'V', 'E', 'R', 'S', 'I', 'O', 'N', '}'] = some msgRepl := by decide +kernel

/-- `re.sub(r"\b(OLD|NEW)\b", r"{\1_VERSION}", m)` is the hand model's `subMsgTemplate m` -/
theorem reSub_msg (isW : Char → Bool) (m : Str) (hm : ∀ c ∈ m, isW c = isWordChar c) :
    reSub isW ['\\', 'b', '(', 'O', 'L', 'D', '|', 'N', 'E', 'W', ')', '\\', 'b']
      ['{', '\\', '1', '_', 'V', 'E', 'R', 'S', 'I', 'O', 'N', '}'] m = some (subMsgTemplate m) := by
  unfold reSub
  rw [parse_msgRx, parse_msgRepl]
  have h1 : (msgRx.nullable || decide (msgRx.groups < RPiece.maxRef msgRepl)) = false := by decide
  simp only [h1, Bool.false_eq_true, if_false]
  rw [reSubGo_eq isW m.length m none (Nat.le_refl _) hm (fun c hc => by cases hc)]
  rfl

theorem tie_argvSubMsgTemplate (m : Str) (w : World) (s : List KEv) (hm : ∀ c ∈ m, w.isWord c = isWordChar c) :
    argvSubMsgTemplate m w s = (s, .ok (subMsgTemplate m)) := by
  unfold argvSubMsgTemplate
  simp only [Eff.bind_pure_right, Eff.reSub, reSub_msg w.isWord m hm]

/-- in particular for every ASCII message, when the world's word class is Python's on ASCII -/
theorem tie_argvSubMsgTemplate_ascii (m : Str) (w : World) (s : List KEv)
    (hw : ∀ c : Char, c.toNat < 128 → w.isWord c = isWordChar c) (hm : ∀ c ∈ m, c.toNat < 128) :
    argvSubMsgTemplate m w s = (s, .ok (subMsgTemplate m)) :=
  tie_argvSubMsgTemplate m w s (fun c hc => hw c (hm c hc))

/-- the witness for the hypothesis: with a word class that contains `é` (as Python's does) the generic `re.sub`
    leaves `éOLD` alone, the ASCII model rewrites it -/
theorem subMsg_nonascii_witness :
    reSub (fun c => isWordChar c || c == 'é') ['\\', 'b', '(', 'O', 'L', 'D', '|', 'N', 'E', 'W', ')', '\\', 'b']
        ['{', '\\', '1', '_', 'V', 'E', 'R', 'S', 'I', 'O', 'N', '}'] ['é', 'O', 'L', 'D'] = some ['é', 'O', 'L', 'D']
      ∧ subMsgTemplate ['é', 'O', 'L', 'D'] = 'é' :: "{OLD_VERSION}".toList := by
  constructor <;> decide +kernel

end BV.TieK
