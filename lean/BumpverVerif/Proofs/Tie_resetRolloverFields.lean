/-
  Proofs/Tie_resetRolloverFields.lean — the definition GENERATED from the Python source of
  `v2version._reset_rollover_fields` equals the hand model `BV.resetRolloverFields`.

  `_parse_pattern_fields(raw_pattern)` is the extra parameter `fields` on both sides (in the generated
  definition an `Except`: the expression is evaluated — and may raise — first).

  What the proof has to bridge, all of it data-structure detail the hand model abstracts away:
  * `reset_fields = dict(<generator>)`: a dict (duplicates collapsed) instead of the model's item list
    — `applyItems_dictOfList`, `dictHas_dictOfList`;
  * `cur_kwargs = cur_vinfo._asdict()`, the loop `cur_kwargs[field] = int(value)` (`value.isdigit()` holds
    for every row of the generated initial-value table), and `V2VersionInfo(**cur_kwargs)`: a run-time
    dict instead of the model's `VInfo.setNat` fold — `foldl_kwargs`, `ofdict_asdict`;
  * the three trailing `if 'tag' / 'pytag' / 'tag_num' in reset_fields` of the Python are dead: those
    names are not keys of `V2_FIELD_INITIAL_VALUES` (`resetItems_no_key`).

  HYPOTHESIS `hk`: as for `tie_iterResetFieldItems` (every element of `fields` is a field name).
-/
import BumpverVerif.Gen.F_resetRolloverFields
import BumpverVerif.Proofs.Tie_iterResetFieldItems
namespace BV

/-! helper definitions and lemmas live in `BV.TieA` (no clashes with other proof files); the `tie_…` theorems in `BV` -/
namespace TieA

/-- a name without an initial value is never a key of the reset items -/
theorem resetItems_no_key (old cur : VInfo) (fs : List Str) (k : Str)
    (hk : lookup k Gen.fieldInitialValues = none) :
    (resetItemsGo old cur false fs).any (fun fi => fi.1 == k) = false := by
  rw [Bool.eq_false_iff]
  intro hany
  rcases List.any_eq_true.mp hany with ⟨fi, hfi, he⟩
  have h1 := (resetItemsGo_mem old cur fs false fi hfi).1
  have e : fi.1 = k := by simpa using he
  rw [e, hk] at h1
  cases h1

end TieA
open TieA

theorem tie_resetRolloverFields_error (raw_pattern : Str) (old_vinfo cur_vinfo : VInfo) (e : PErr) :
    GenF.resetRolloverFields raw_pattern old_vinfo cur_vinfo (.error e) = .error e := by
  unfold GenF.resetRolloverFields
  rfl

theorem tie_resetRolloverFields (raw_pattern : Str) (fields : List Str) (old_vinfo cur_vinfo : VInfo)
    (hk : ∀ f ∈ fields, f ∈ GenF.fieldNamesVInfo) :
    GenF.resetRolloverFields raw_pattern old_vinfo cur_vinfo (.ok fields) =
      .ok (resetRolloverFields fields old_vinfo cur_vinfo) := by
  have hP : ∀ it ∈ resetItemsGo old_vinfo cur_vinfo false fields,
      lookup it.1 Gen.fieldInitialValues = some it.2 :=
    fun it h => (resetItemsGo_mem old_vinfo cur_vinfo fields false it h).1
  have hPd : ∀ it ∈ GenF.dictOfList (resetItemsGo old_vinfo cur_vinfo false fields),
      lookup it.1 Gen.fieldInitialValues = some it.2 :=
    fun it h => hP it (mem_dictOfList _ it h)
  -- the model side: the explicit `_replace` tail is redundant (Proofs/V2Lemmas.lean)
  rw [resetRolloverFields_eq]
  -- what `applyItems` leaves in a field whose name is among the items
  have key : ∀ (name init : Str), lookup name Gen.fieldInitialValues = some init →
      (resetItemsGo old_vinfo cur_vinfo false fields).any (fun fi => fi.1 == name) = true →
      (applyItems (resetItemsGo old_vinfo cur_vinfo false fields) cur_vinfo).get name = FV.nat (strToNat init) := by
    intro name init hl hany
    rw [applyItems_get name _ cur_vinfo hP, hl]
    simp only [hany, if_true]
  unfold GenF.resetRolloverFields
  simp (config := {zeta := false}) only []
  extract_lets
  simp (config := {zeta := false, zetaDelta := true}) only [tie_iterResetFieldItems fields old_vinfo cur_vinfo hk]
  extract_lets
  simp (config := {zeta := false, zetaDelta := true}) only []
  rw [foldl_kwargs _ (by intro d it hd; simp [hd]) _ hPd cur_vinfo, applyItems_dictOfList _ hP, ofdict_asdict]
  simp (config := {zeta := false}) only [dictHas_dictOfList,
    resetItems_no_key old_vinfo cur_vinfo fields "tag".toList (by decide),
    resetItems_no_key old_vinfo cur_vinfo fields "pytag".toList (by decide),
    resetItems_no_key old_vinfo cur_vinfo fields "tag_num".toList (by decide)]
  have k1 := key "major".toList "0".toList (by decide)
  have k2 := key "minor".toList "0".toList (by decide)
  have k3 := key "patch".toList "0".toList (by decide)
  have k4 := key "inc0".toList "0".toList (by decide)
  have k5 := key "inc1".toList "1".toList (by decide)
  clear key
  generalize (resetItemsGo old_vinfo cur_vinfo false fields).any (fun fi => fi.1 == "major".toList) = b1 at k1 ⊢
  generalize (resetItemsGo old_vinfo cur_vinfo false fields).any (fun fi => fi.1 == "minor".toList) = b2 at k2 ⊢
  generalize (resetItemsGo old_vinfo cur_vinfo false fields).any (fun fi => fi.1 == "patch".toList) = b3 at k3 ⊢
  generalize (resetItemsGo old_vinfo cur_vinfo false fields).any (fun fi => fi.1 == "inc0".toList) = b4 at k4 ⊢
  generalize (resetItemsGo old_vinfo cur_vinfo false fields).any (fun fi => fi.1 == "inc1".toList) = b5 at k5 ⊢
  generalize applyItems (resetItemsGo old_vinfo cur_vinfo false fields) cur_vinfo = a at k1 k2 k3 k4 k5 ⊢
  have e1 : b1 = true → a.major = 0 := fun hb => FV.nat.inj (k1 hb)
  have e2 : b2 = true → a.minor = 0 := fun hb => FV.nat.inj (k2 hb)
  have e3 : b3 = true → a.patch = 0 := fun hb => FV.nat.inj (k3 hb)
  have e4 : b4 = true → a.inc0 = 0 := fun hb => FV.nat.inj (k4 hb)
  have e5 : b5 = true → a.inc1 = 1 := fun hb => FV.nat.inj (k5 hb)
  clear k1 k2 k3 k4 k5
  cases a
  cases b1 <;> cases b2 <;> cases b3 <;> cases b4 <;> cases b5 <;> simp_all

end BV
