/-
  Proofs/Tie_v1ParseGroups.lean — the definition GENERATED from `v1version._parse_version_info(pattern_groups)`
  equals the hand model `BV.v1ParseGroups` on all inputs.  The two callees are the model functions
  `v1ParsePatternGroups` (tied by correspondence) and `v1ParseFieldValues` (tied by `tie_v1ParseFieldValues`):
  what is checked here is the composition — groups to field values FIRST, then the derivation, errors propagated.
-/
import BumpverVerif.Gen.F_v1ParseGroups
import BumpverVerif.Proofs.TieV1Spec
namespace BV

theorem tie_v1ParseGroups (groups : FVals) : GenV1.v1ParseGroups groups = v1ParseGroups groups := by
  unfold GenV1.v1ParseGroups v1ParseGroups
  simp only [bind]
  cases v1ParsePatternGroups groups with
  | error e => rfl
  | ok fv =>
    simp only [v1_ebind_ok]
    cases v1ParseFieldValues fv <;> rfl

end BV
