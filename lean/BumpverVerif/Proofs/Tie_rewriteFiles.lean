/-
  Proofs/Tie_rewriteFiles.lean — the definition GENERATED from the Python source of
  `v2rewrite.rewrite_files` (Gen/F_rewriteFiles.lean) equals the hand model `BV.rewriteFiles` on the
  abstract file system, for every file system, every configuration of well-formed patterns and every
  version record: ALL files are read and validated (`list(iter_rewritten(...))`, tie_iterRewritten) before
  the first one is written.  The translation consumes a generator that has effects lazily unless the source
  says `list(...)`: with the `list(...)` removed the generated definition is the fused read-validate-write
  loop, i.e. the model's `rewriteFilesLazy`, and this theorem no longer holds (see
  harness/dev/rewrite_tie_experiments.py, experiment "lazy loop", and `rewriteFilesLazy_differs`).
-/
import BumpverVerif.Gen.F_rewriteFiles
import BumpverVerif.Proofs.Tie_iterRewritten
namespace BV

open GenF (PatternMatch Pattern RewrittenFileData)

/-- the write loop: a body that writes the record's new content under the record's path -/
theorem pyForFS_writes
    (body : RewrittenFileData → Unit → FS → FS × Except RwErr Unit)
    (hb : ∀ fd u fs, body fd u fs = (FS.write fs fd.path fd.newContent, .ok ()))
    (l : List RewrittenFileData) (fs : FS) :
    GenF.pyForFS l body () fs =
      ((l.map RewrittenFileData.toWrite).foldl (fun acc w => FS.write acc w.1 w.2) fs, .ok ()) := by
  induction l generalizing fs with
  | nil => rfl
  | cons fd l ih =>
    rw [GenF.pyForFS_cons, hb]
    simp only [List.map_cons, List.foldl_cons]
    exact ih _

theorem tie_rewriteFiles (file_patterns : List (Str × List Pattern)) (new_vinfo : VInfo) (fs : FS)
    (hwf : GenF.WfFilePatterns file_patterns) :
    GenF.rewriteFiles file_patterns new_vinfo fs
      = rewriteFiles fs (GenF.absFilePatterns file_patterns) new_vinfo := by
  unfold GenF.rewriteFiles rewriteFiles
  obtain ⟨-, h2⟩ := tie_iterRewritten_planWrites file_patterns new_vinfo fs hwf
  rw [tie_iterRewritten _ _ _ hwf] at h2 ⊢
  simp only [] at h2 ⊢
  cases hr : planRfds new_vinfo fs file_patterns [] with
  | error e =>
    rw [hr] at h2
    rw [← h2]
    rfl
  | ok rfds =>
    rw [hr] at h2
    rw [← h2]
    simp only [Except.map]
    rw [pyForFS_writes _ ?hb]
    case hb => intro fd u fs'; rfl

end BV
