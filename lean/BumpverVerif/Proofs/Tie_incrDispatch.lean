/-
  Proofs/Tie_incrDispatch.lean — the definition GENERATED from the Python source of
  `cli.incr_dispatch` (Gen/F_incrDispatch.lean) equals the hand model on all inputs with
  `_VERBOSE = False`: the legacy engine's `incr` exactly when `BV.hasV1Part raw_pattern`
  (`any("{" + part + "}" in raw_pattern …)` over the generated key lists of
  `v1patterns.PART_PATTERNS` and `FULL_PART_FORMATS`), the new engine's otherwise, every keyword
  argument handed to the parameter of the same name, `maybe_date=None` meaning `version.TODAY`.

  HYPOTHESIS `verbose = false` (the module global `cli._VERBOSE`, an explicit parameter of the
  generated definition).  With `-v` the Python additionally calls `compile_pattern(raw_pattern)`
  before `incr`, only to log the regular expression; that call can raise where `incr` alone returns
  None (witness: a pattern with an invalid week combination AND an unbalanced bracket, e.g.
  `YYYY.VV[`: `v2version.incr` answers None from `is_valid_week_pattern` before compiling, while
  `-v` raises from `compile_pattern`).  The model has no verbosity.
-/
import BumpverVerif.Gen.F_incrDispatch
import BumpverVerif.Proofs.TieCliLemmas
set_option linter.unusedSimpArgs false
namespace BV

attribute [local irreducible] isValid parseVersionInfo incr v1IsValid v1ParseVersionInfo v1Incr

theorem except_eta {ε α : Type} (x : Except ε α) :
    (match x with | .error ex => Except.error ex | .ok r => Except.ok r) = x := by
  cases x <;> rfl

/-- the engine the model picks, with the Python-level error type -/
def dispatchIncrExc (old pat : Str) (fl : IncrFlags) (date today : Date) : Except Exc (Option Str) :=
  if hasV1Part pat then liftV1 (v1Incr old pat fl.toV1 date) else liftV2 (incr old pat fl date today)

theorem tie_incrDispatch (today : Date) (old pat : Str) (fl : IncrFlags) (maybe_date : Option Date) :
    GenC.incrDispatch today false old pat fl.major fl.minor fl.patch fl.tag fl.tagNum fl.pinIncrements
        fl.pinDate maybe_date
      = dispatchIncrExc old pat fl (maybe_date.getD today) today := by
  first
    | -- `has_v1_part = any("{" + part + "}" in raw_pattern for part in v1_parts)`
      (have hv : (List.any ((Gen.v1PartPatterns.map (·.1)) ++ (Gen.v1FullPartFormats.map (·.1)))
          (fun part => isInfix (("{".toList ++ part) ++ "}".toList) pat)) = hasV1Part pat := rfl
       unfold GenC.incrDispatch dispatchIncrExc
       simp only [Bool.false_eq_true, if_false, hv]
       cases hasV1Part pat
       · simp only [Bool.false_eq_true, if_false, pyV2Incr]
         cases fl; split <;> simp_all
       · simp only [if_true, pyV1Incr, IncrFlags.toV1]
         split <;> simp_all)
    | -- `has_v1_part = False; for part in v1_parts: if "{" + part + "}" in raw_pattern: has_v1_part = True; break`
      (have hany : hasV1Part pat = (List.any ((Gen.v1PartPatterns.map (·.1)) ++ (Gen.v1FullPartFormats.map (·.1)))
          (fun part => isInfix (("{".toList ++ part) ++ "}".toList) pat)) := rfl
       unfold GenC.incrDispatch dispatchIncrExc
       dsimp only
       cases hfind : List.find? (fun part => isInfix (("{".toList ++ part) ++ "}".toList) pat)
           ((Gen.v1PartPatterns.map (·.1)) ++ (Gen.v1FullPartFormats.map (·.1))) with
       | none =>
         have h0 : hasV1Part pat = false := by
           rw [hany, List.any_eq_false]
           intro x hx
           simpa using List.find?_eq_none.mp hfind x hx
         simp only [h0, Bool.false_eq_true, if_false, if_true, Bool.not_false, pyV2Incr]
         cases fl; split <;> simp_all
       | some part =>
         have h1 : hasV1Part pat = true := by
           have hp := List.find?_some hfind
           have hm := List.mem_of_find?_eq_some hfind
           rw [hany, List.any_eq_true]
           exact ⟨part, hm, hp⟩
         simp only [h1, Bool.false_eq_true, if_false, if_true, Bool.not_true, pyV1Incr, IncrFlags.toV1]
         split <;> simp_all)

/-- the model's `dispatchIncr` is the generated function with errors collapsed to crash/unsupported -/
def collapseIncr : Except Exc (Option Str) → IncrResult
  | .ok (some s) => .new s
  | .ok none => .noChange
  | .error (.v1 .unsupported) => .unsupported
  | .error (.v2 .unsupported) => .unsupported
  | .error _ => .crash

theorem dispatchIncr_eq_generated (today date : Date) (old pat : Str) (fl : IncrFlags) :
    dispatchIncr old pat fl date today
      = collapseIncr (GenC.incrDispatch today false old pat fl.major fl.minor fl.patch fl.tag fl.tagNum
          fl.pinIncrements fl.pinDate (some date)) := by
  rw [tie_incrDispatch]
  unfold dispatchIncr dispatchIncrExc
  simp only [Option.getD_some]
  cases hasV1Part pat
  · simp only [Bool.false_eq_true, if_false]
    cases incr old pat fl date today with
    | error e => cases e <;> rfl
    | ok o => cases o <;> rfl
  · simp only [if_true]
    cases v1Incr old pat fl.toV1 date with
    | error e => cases e <;> rfl
    | ok o => cases o <;> rfl

end BV
