/-
  Proofs/Tie_argvAdd.lean — source-level tie for the VALUES `vcs.VCSAPI.add` passes to `VCSAPI.__call__`
  (Gen/F_argvAdd.lean; property C12, and C10: a failing `add` stops the run).  Builder B's ties (Proofs/Tie_vcsCommit.lean) fix the SEQUENCE of
  subcommands; here the keyword arguments, the environment and — for Mercurial's commit — the temporary log file are
  visible.  `tie_argvAdd`: generated definition = reference, for EVERY `VCSAPI` object (any name, any template
  table), all strings, worlds and traces; stated with `callRef` (= `__call__`, Proofs/Tie_argvCall.lean).
  The composition down to the argument vector of the process that runs: Proofs/Tie_argvEndToEnd.lean.
-/
import BumpverVerif.Gen.F_argvAdd
import BumpverVerif.Proofs.Tie_argvCall
set_option linter.unusedSimpArgs false
namespace BV.TieK
open BV.TieK.Gen

/-- `VCSAPI.add(path)`: the path is the keyword argument `path`; a failure is passed on, except when Mercurial
    itself says "already tracked!" on stderr -/
def addRef (self : VcsApi) (path : Str) : Eff Unit := fun w s =>
  match callRef self ['a', 'd', 'd', '_', 'p', 'a', 't', 'h'] none [(['p', 'a', 't', 'h'], path)] w s with
  | (s', .ok _) => (s', .ok ())
  | (s', .error (.called se)) =>
    if self.name = ['h', 'g'] ∧ isInfix ['a', 'l', 'r', 'e', 'a', 'd', 'y', ' ', 't', 'r', 'a', 'c', 'k', 'e', 'd', '!'] (se.getD []) = true then (s', .ok ())
    else (s', .error (.called se))
  | (s', .error x) => (s', .error x)

theorem tie_argvAdd (self : VcsApi) (path : Str) : argvAdd self path = addRef self path := by
  funext w s
  unfold argvAdd addRef
  simp only [tie_argvCall]
  simp only [Eff.tryCatch]
  rw [bind_unit]
  try simp only [bind_unit_id]  -- `if …: raise` followed by `return` (a join) instead of `return` / `raise` in the branches
  rcases callRef self _ _ _ w s with ⟨s', r⟩
  cases r with
  | ok a => rfl
  | error x =>
    cases x with
    | called se =>
      have hisA : (Stop.called se).isA .calledProcessError = true := rfl
      simp only [unitOf, Except.map, hisA, if_true, excStderr_bind, Eff.ite_run, Eff.pure, Eff.throw]
      -- the test, whatever the order of its conjuncts: decided by the name and by the search result
      have fin : ∀ (x : Option Str) (b : Bool) (c : Bool), (c = (self.name == ['h', 'g'] && b)) →
          (if c = true then ((s', Except.ok ()) : List KEv × Except Stop Unit) else (s', Except.error (Stop.called x)))
          = if self.name = ['h', 'g'] ∧ b = true then (s', Except.ok ()) else (s', Except.error (Stop.called x)) := by
        intro x b c hc
        subst hc
        by_cases h1 : self.name = ['h', 'g']
        · have h1' : (self.name == ['h', 'g']) = true := by rw [h1]; rfl
          cases b <;> simp [h1]
        · have h1' : (self.name == ['h', 'g']) = false := by
            apply Bool.eq_false_iff.mpr
            intro h; exact h1 (by simpa using h)
          simp [h1, h1']
      rcases se with _ | (_ | ⟨c, r⟩)
      · exact fin none _ _ (by first | rfl | exact Bool.and_comm _ _)
      · exact fin (some []) _ _ (by first | rfl | exact Bool.and_comm _ _)
      · exact fin (some (c :: r)) _ _ (by first | rfl | exact Bool.and_comm _ _)
    | exit n => rfl
    | osError => rfl
    | keyError => rfl
    | valueError => rfl
    | unsupported => rfl

end BV.TieK
