/-
  Proofs/Tie_parseSegtree.lean — the definition GENERATED from the Python source of `v2version._parse_segtree`
  (Gen/F_parseSegtree.lean) equals the hand model `BV.parseSegtree` on ALL inputs.

  The two are structured very differently:
  * Python: index loop over `"[" + raw + "]"` with `raw[i-1]`, `raw[start:end]`, and a stack of MUTABLE list objects that
    alias each other (a new branch is appended to its parent AND pushed on the stack, later appends through the stack
    are seen by the parent); the result `internal_root[0]` is an object graph.  The translation keeps that: a heap of
    list objects (`Heap`), references, and a reification of the returned object (prelude).
  * Model : `segtreeGo`, a structural recursion over the characters with the reversed current segment, the previous
    character, and a stack of reversed IMMUTABLE item lists in which a child is added to its parent only when it closes.

  The proof is a simulation: `Inv` relates the two states after every prefix of the input (the objects on the stack
  form a chain root → … → innermost through their last items; everything else in the heap is finished and denotes, by
  the relation `D`, exactly the model's items); `D.reify` shows that the prelude's fuel-bounded reification computes
  that denotation (children always have larger object numbers than their parents, so `heap.length` is enough fuel).

  No hypothesis.  The exceptions: Python raises ValueError exactly where the model returns `.error` (which is always
  `.valueError`), and never IndexError / NotImplementedError / TypeError.
-/
import BumpverVerif.Gen.F_parseSegtree
namespace BV.TieF
open GenF GenF.FP
set_option linter.unusedSimpArgs false

/-! ### heap primitives -/
theorem Heap.append_length (h : Heap) (r : Nat) (x : HItem) : (Heap.append h r x).length = h.length := by
  simp [Heap.append]

theorem Heap.append_getD (h : Heap) (r r' : Nat) (x : HItem) :
    (Heap.append h r x).getD r' [] = if r' = r ∧ r' < h.length then h.getD r' [] ++ [x] else h.getD r' [] := by
  simp only [Heap.append, List.getD_eq_getElem?_getD, List.getElem?_map, List.getElem?_zipIdx]
  by_cases hlt : r' < h.length
  · simp only [List.getElem?_eq_getElem hlt, Option.map_some, Option.getD_some, Nat.zero_add, hlt, and_true]
    by_cases he : r' = r <;> simp [he]
  · simp [List.getElem?_eq_none (Nat.le_of_not_lt hlt), hlt]

theorem Heap.alloc_fst_getD (h : Heap) (r : Nat) : (Heap.alloc h).1.getD r [] = h.getD r [] := by
  simp only [Heap.alloc, List.getD_eq_getElem?_getD, List.getElem?_append]
  by_cases hlt : r < h.length
  · simp [hlt]
  · simp only [hlt, if_false, List.getElem?_eq_none (Nat.le_of_not_lt hlt), Option.getD_none]
    cases r - h.length <;> simp

/-! ### Python primitives on a prefix -/
theorem pyIndex_reverse_last {α : Type} (t : α) (ps : List α) : pyIndex ((t :: ps).reverse) (-1) = .ok t := by
  simp only [pyIndex, List.length_reverse, List.length_cons]
  have h1 : ((-1 : Int) < 0) := by omega
  simp only [h1, if_true]
  have h2 : ¬ ((-1 : Int) + Int.ofNat (ps.length + 1) < 0) := by simp only [Int.ofNat_eq_natCast]; omega
  simp only [h2, if_false]
  have h3 : ((-1 : Int) + Int.ofNat (ps.length + 1)).toNat = ps.length := by simp only [Int.ofNat_eq_natCast]; omega
  rw [h3]
  simp

theorem pyPop_reverse {α : Type} (t : α) (ps : List α) : pyPop ((t :: ps).reverse) = .ok (ps.reverse, t) := by
  simp [pyPop]

theorem pyIndex_pre (pre suf : Str) (hne : pre ≠ []) :
    pyIndex (pre ++ suf) ((pre.length : Int) - 1) = .ok (pre.getLast hne) := by
  have hpos : 0 < pre.length := List.length_pos_iff.mpr hne
  simp only [pyIndex]
  have h1 : ¬ ((pre.length : Int) - 1 < 0) := by omega
  simp only [h1, if_false]
  have h3 : ((pre.length : Int) - 1).toNat = pre.length - 1 := by omega
  rw [h3, List.getElem?_append_left (by omega)]
  rw [List.getLast_eq_getElem]
  simp [List.getElem?_eq_getElem (show pre.length - 1 < pre.length by omega)]

theorem pySlice_pre (pre suf : Str) (s : Nat) (hs : s ≤ pre.length) :
    pySlice (pre ++ suf) (s : Int) (pre.length : Int) = pre.drop s := by
  simp only [pySlice, pySliceBound, List.length_append]
  have h1 : ¬ ((s : Int) < 0) := by omega
  have h2 : ¬ ((pre.length : Int) < 0) := by omega
  have h3 : ¬ ((s : Int) > Int.ofNat (pre.length + suf.length)) := by simp only [Int.ofNat_eq_natCast]; omega
  have h4 : ¬ ((pre.length : Int) > Int.ofNat (pre.length + suf.length)) := by
    simp only [Int.ofNat_eq_natCast]; omega
  simp only [h1, h2, h3, h4, if_false, Int.toNat_natCast, List.take_left']

/-! ### the denotation of finished objects -/
inductive D (h : Heap) (S : List Nat) : Nat → List HItem → List Seg → Prop
  | nil (lo : Nat) : D h S lo [] []
  | str {lo : Nat} {xs : List HItem} {ts : List Seg} (s : Str) :
      D h S lo xs ts → D h S lo (.str s :: xs) (.lit s :: ts)
  | ref {lo r : Nat} {xs : List HItem} {t ts : List Seg} :
      lo ≤ r → r < h.length → r ∉ S → D h S (r + 1) (h.getD r []) t → D h S lo xs ts →
      D h S lo (.ref r :: xs) (.grp t :: ts)

theorem D.append {h : Heap} {S : List Nat} {lo : Nat} {xs ys : List HItem} {ts us : List Seg}
    (h1 : D h S lo xs ts) (h2 : D h S lo ys us) : D h S lo (xs ++ ys) (ts ++ us) := by
  induction h1 with
  | nil lo => exact h2
  | str s _ ih => exact D.str s (ih h2)
  | ref a b c d _ _ ih2 => exact D.ref a b c d (ih2 h2)

theorem D.transfer {h h' : Heap} {S S' : List Nat} (hlen : h.length ≤ h'.length)
    (hkeep : ∀ r, r < h.length → r ∉ S → (r ∉ S' ∧ h'.getD r [] = h.getD r []))
    {lo : Nat} {xs : List HItem} {ts : List Seg} (hd : D h S lo xs ts) : D h' S' lo xs ts := by
  induction hd with
  | nil lo => exact D.nil lo
  | str s _ ih => exact D.str s ih
  | ref a b c _ _ ih1 ih2 =>
    have hk := hkeep _ b c
    exact D.ref a (Nat.lt_of_lt_of_le b hlen) hk.1 (hk.2 ▸ ih1) ih2

def childItems : Option Nat → List HItem
  | none => []
  | some r => [.ref r]

/-- the objects under construction (innermost first) against the model's stack of reversed item lists -/
def StackRel (h : Heap) (S : List Nat) : List Nat → List (List Seg) → Option Nat → Nat → Prop
  | [], [], _, _ => True
  | r :: ps, m :: ms, child, ub =>
      r < ub ∧ (∃ c, h.getD r [] = c ++ childItems child ∧ D h S (r + 1) c m.reverse) ∧
        StackRel h S ps ms (some r) r
  | _, _, _, _ => False

theorem StackRel.length {h : Heap} {S : List Nat} : ∀ {pst : List Nat} {ms : List (List Seg)} {child : Option Nat}
    {ub : Nat}, StackRel h S pst ms child ub → pst.length = ms.length
  | [], [], _, _, _ => rfl
  | _ :: ps, _ :: ms, _, _, hr => by
    simp only [StackRel] at hr
    simp [StackRel.length hr.2.2]
  | [], _ :: _, _, _, hr => by simp [StackRel] at hr
  | _ :: _, [], _, _, hr => by simp [StackRel] at hr

theorem StackRel.lt_ub {h : Heap} {S : List Nat} : ∀ {pst : List Nat} {ms : List (List Seg)} {child : Option Nat}
    {ub : Nat}, StackRel h S pst ms child ub → ∀ r ∈ pst, r < ub
  | [], [], _, _, _ => by simp
  | p :: ps, _ :: ms, _, ub, hr => by
    simp only [StackRel] at hr
    intro r hm
    rcases List.mem_cons.mp hm with rfl | hm
    · exact hr.1
    · exact Nat.lt_trans (StackRel.lt_ub hr.2.2 r hm) hr.1
  | [], _ :: _, _, _, hr => by simp [StackRel] at hr
  | _ :: _, [], _, _, hr => by simp [StackRel] at hr

theorem StackRel.transfer {h h' : Heap} {S S' : List Nat} (hlen : h.length ≤ h'.length)
    (hkeep : ∀ r, r < h.length → r ∉ S → (r ∉ S' ∧ h'.getD r [] = h.getD r [])) :
    ∀ {pst : List Nat} {ms : List (List Seg)} {child : Option Nat} {ub : Nat},
      (∀ r ∈ pst, h'.getD r [] = h.getD r []) → StackRel h S pst ms child ub → StackRel h' S' pst ms child ub
  | [], [], _, _, _, _ => by simp [StackRel]
  | p :: ps, m :: ms, child, ub, hsame, hr => by
    simp only [StackRel] at hr ⊢
    obtain ⟨h1, ⟨c, hc, hd⟩, h3⟩ := hr
    refine ⟨h1, ⟨c, ?_, D.transfer hlen hkeep hd⟩, StackRel.transfer hlen hkeep (fun r hm => hsame r (by simp [hm])) h3⟩
    rw [hsame p (by simp), hc]
  | [], _ :: _, _, _, _, hr => by simp [StackRel] at hr
  | _ :: _, [], _, _, _, hr => by simp [StackRel] at hr

theorem D.mono_lo {h : Heap} {S : List Nat} {lo lo' : Nat} (hle : lo' ≤ lo)
    {xs : List HItem} {ts : List Seg} (hd : D h S lo xs ts) : D h S lo' xs ts := by
  induction hd with
  | nil lo => exact D.nil _
  | str s _ ih => exact D.str s (ih hle)
  | ref a b c d _ _ ih2 => exact D.ref (Nat.le_trans hle a) b c d (ih2 hle)

/-- reification with enough fuel computes the denotation -/
theorem D.reify {h : Heap} {S : List Nat} {lo : Nat} {xs : List HItem} {ts : List Seg}
    (hd : D h S lo xs ts) : ∀ fuel, h.length ≤ fuel + lo → Heap.reifyItems h fuel xs = ts := by
  induction hd with
  | nil lo => intro fuel _; simp [Heap.reifyItems]
  | str s _ ih => intro fuel hf; simp [Heap.reifyItems, Heap.reifyItem, ih fuel hf]
  | @ref lo r xs t ts a b c _ _ ih1 ih2 =>
    intro fuel hf
    cases fuel with
    | zero => omega
    | succ f =>
      simp only [Heap.reifyItems, Heap.reifyItem, ih2 (f + 1) hf]
      rw [ih1 f (by omega)]

/-! ### the generated definition = a readable specification of the Python loop -/
@[simp] theorem bindE_ok {α β : Type} (a : α) (f : α → Except PyExc β) : bindE (.ok a) f = f a := rfl
@[simp] theorem bindE_error {α β : Type} (e : PyExc) (f : α → Except PyExc β) : bindE (.error e) f = .error e := rfl
theorem bindE_ite {α β : Type} (c : Prop) [Decidable c] (x y : Except PyExc α) (f : α → Except PyExc β) :
    bindE (if c then x else y) f = if c then bindE x f else bindE y f := by
  split <;> rfl
theorem bindE_assoc {α β γ : Type} (x : Except PyExc α) (f : α → Except PyExc β) (g : β → Except PyExc γ) :
    bindE (bindE x f) g = bindE x (fun a => bindE (f a) g) := by
  cases x <;> rfl
theorem bindE_ok_right {α : Type} (x : Except PyExc α) : bindE x (fun a => Except.ok a) = x := by
  cases x <;> rfl
theorem ite_ok_bool {ε : Type} (b : Bool) :
    (if b = true then (Except.ok true : Except ε Bool) else Except.ok false) = Except.ok b := by
  cases b <;> rfl

theorem elem_brackets (c : Char) : List.elem c "[]".toList = (c == '[' || c == ']') := by
  by_cases h1 : c = '[' <;> by_cases h2 : c = ']' <;> simp [List.elem, h1, h2]

def pyEscaped (raw : Str) (i : Nat) : Except PyExc Bool :=
  if i > 0 then bindE (pyIndex raw ((i : Int) - 1)) fun x => .ok (x == '\\') else .ok false

def pyFlush (raw : Str) (heap : Heap) (stack : List Nat) (ssi : Int) (i : Nat) : Except PyExc Heap :=
  if ssi + 1 < (i : Int) then
    bindE (pyIndex stack (-1)) fun top => .ok (Heap.append heap top (.str (pySlice raw (ssi + 1) i)))
  else .ok heap

def pyBracket (heap : Heap) (stack : List Nat) (c : Char) (i : Nat) : Except PyExc (Heap × List Nat × Int) :=
  if c == '[' then
    bindE (pyIndex stack (-1)) fun top =>
      .ok (Heap.append (Heap.alloc heap).1 top (.ref (Heap.alloc heap).2), stack ++ [(Heap.alloc heap).2], (i : Int))
  else if c == ']' then
    if stack.length == 1 then .error .valueError
    else bindE (pyPop stack) fun p => .ok (heap, p.1, (i : Int))
  else .error .notImplemented

def pyStep (raw : Str) (st : Heap × List Nat × Int) (ci : Char × Nat) : Except PyExc (Heap × List Nat × Int) :=
  bindE (pyEscaped raw ci.2) fun esc =>
    if List.elem ci.1 "[]".toList && !esc then
      bindE (pyFlush raw st.1 st.2.1 st.2.2 ci.2) fun heap' => pyBracket heap' st.2.1 ci.1 ci.2
    else .ok st

def pyFinish (st : Heap × List Nat × Int) : Except PyExc (List Seg) :=
  if st.2.1.length > 1 then .error .valueError
  else bindE (Heap.index st.1 0 0) fun x => Heap.reifyList st.1 x

theorem parseSegtree_eq_spec (raw : Str) :
    GenF.parseSegtree raw =
      bindE (foldlE (pyStep ('[' :: raw ++ [']'])) ([[]], [0], -1) (List.zipIdx ('[' :: raw ++ [']']))) pyFinish := by
  simp only [GenF.parseSegtree]
  have hf : ∀ (raw' : Str) (f : Heap × List Nat × Int → Char × Nat → Except PyExc (Heap × List Nat × Int)),
      (∀ st ci, f st ci = pyStep raw' st ci) → ∀ init l, foldlE f init l = foldlE (pyStep raw') init l := by
    intro raw' f h init l
    have : f = pyStep raw' := by funext st ci; exact h st ci
    rw [this]
  generalize hraw' : "[".toList ++ raw ++ "]".toList = raw'
  rw [hf raw']
  · have h0 : (Heap.alloc []) = ([[]], 0) := rfl
    have hr : '[' :: raw ++ [']'] = raw' := hraw'
    simp only [h0, hr, bindE_ok_right, decide_eq_true_eq]
    first
      | rfl
      | (congr 1
         funext st
         rcases st with ⟨hp, stk, si⟩
         simp only [pyFinish]
         by_cases h1 : stk.length > 1 <;> simp [h1] <;> omega)
  · clear hf hraw'
    rintro ⟨heap, stack, ssi⟩ ⟨c, i⟩
    simp only [pyStep, pyEscaped, pyFlush, pyBracket, bindE_ite, bindE_assoc, bindE_ok, bindE_error, ite_ok_bool,
      bindE_ok_right, decide_eq_true_eq, Int.ofNat_eq_natCast, elem_brackets]
    -- a differently shaped (but equivalent) decision tree: decide the atoms, then compare leaf by leaf
    all_goals (
      by_cases hi : i > 0 <;> by_cases ho : c = '[' <;> by_cases hc : c = ']' <;>
      by_cases hl : ssi + 1 < (i : Int) <;> by_cases h1 : stack.length = 1 <;>
      rcases hx : pyIndex raw' ((i : Int) - 1) with e1 | x <;>
      rcases ht : pyIndex stack (-1) with e2 | t <;>
      rcases hp : pyPop stack with e3 | p <;>
      simp [hi, ho, hc, hl, h1, Int.add_comm] <;>
      (try (by_cases hb : x = '\\' <;> simp [hb])) <;> omega)

/-! ### the simulation -/

/-- the model's errors as Python exceptions (`parseSegtree_error` : the model only ever says `.valueError`) -/
def absE {α : Type} : Except PErr α → Except PyExc α
  | .ok a => .ok a
  | .error _ => .error .valueError

/-- what `parseSegtree` does with the result of `segtreeGo` -/
def mFinish (res : Except PErr (List (List Seg))) : Except PErr (List Seg) :=
  match res with
  | .error e => .error e
  | .ok [root] =>
    match root.reverse with
    | Seg.grp items :: _ => .ok items
    | _ => .error .valueError
  | .ok _ => .error .valueError

theorem parseSegtree_eq_mFinish (raw : Str) :
    parseSegtree raw = mFinish (segtreeGo [[]] [] none ('[' :: raw ++ [']'])) := by
  unfold parseSegtree mFinish
  rfl

def flushM (cur : Str) (top : List Seg) : List Seg := if cur.isEmpty then top else Seg.lit cur.reverse :: top

def HeadRef (h : Heap) : Prop := ∃ x rest, h.getD 0 [] = HItem.ref x :: rest

theorem HeadRef.append {h : Heap} (hr : HeadRef h) (r : Nat) (x : HItem) : HeadRef (Heap.append h r x) := by
  obtain ⟨y, rest, hy⟩ := hr
  rw [HeadRef, Heap.append_getD]
  split
  · exact ⟨y, rest ++ [x], by rw [hy]; rfl⟩
  · exact ⟨y, rest, hy⟩

theorem HeadRef.alloc {h : Heap} (hr : HeadRef h) : HeadRef (Heap.alloc h).1 := by
  obtain ⟨y, rest, hy⟩ := hr
  exact ⟨y, rest, by rw [Heap.alloc_fst_getD, hy]⟩

structure Inv (pre : Str) (h : Heap) (pst : List Nat) (ssi : Int) (ms : List (List Seg)) (cur : Str) : Prop where
  seg : ∃ s : Nat, ssi + 1 = (s : Int) ∧ s ≤ pre.length ∧ cur.reverse = pre.drop s
  rel : StackRel h pst pst ms none h.length
  bot : pst.getLast? = some 0
  headRef : HeadRef h

theorem mem_lt_of_rel {h : Heap} {S : List Nat} {ps : List Nat} {ms : List (List Seg)} {t : Nat}
    (hr : StackRel h S ps ms (some t) t) : ∀ r ∈ ps, r ≠ t :=
  fun r hm => Nat.ne_of_lt (StackRel.lt_ub hr r hm)

/-- flushing the pending text into the innermost object -/
theorem rel_flush {h : Heap} {t : Nat} {ps : List Nat} {m : List Seg} {ms : List (List Seg)} (s : Str)
    (hr : StackRel h (t :: ps) (t :: ps) (m :: ms) none h.length) :
    StackRel (Heap.append h t (.str s)) (t :: ps) (t :: ps) ((Seg.lit s :: m) :: ms) none
      (Heap.append h t (.str s)).length := by
  simp only [StackRel] at hr ⊢
  obtain ⟨h1, ⟨c, hc, hd⟩, h3⟩ := hr
  have hkeep : ∀ r, r < h.length → r ∉ (t :: ps) →
      (r ∉ (t :: ps) ∧ (Heap.append h t (.str s)).getD r [] = h.getD r []) := by
    intro r _ hn
    refine ⟨hn, ?_⟩
    rw [Heap.append_getD]
    have : r ≠ t := fun e => hn (by simp [e])
    simp [this]
  have hlen : h.length ≤ (Heap.append h t (.str s)).length := by rw [Heap.append_length]; exact Nat.le_refl _
  refine ⟨by rw [Heap.append_length]; exact h1, ⟨c ++ [.str s], ?_, ?_⟩, ?_⟩
  · rw [Heap.append_getD]
    simp only [h1, and_self, if_true, hc, childItems, List.append_nil]
  · rw [List.reverse_cons]
    exact D.append (D.transfer hlen hkeep hd) (D.str s (D.nil _))
  · refine StackRel.transfer hlen hkeep ?_ h3
    intro r hm
    rw [Heap.append_getD]
    have : r ≠ t := mem_lt_of_rel h3 r hm
    simp [this]

/-- `[`: a new object, appended to the innermost one and pushed -/
theorem rel_open {h : Heap} {t : Nat} {ps : List Nat} {m : List Seg} {ms : List (List Seg)}
    (hr : StackRel h (t :: ps) (t :: ps) (m :: ms) none h.length) :
    StackRel (Heap.append (Heap.alloc h).1 t (.ref (Heap.alloc h).2)) ((Heap.alloc h).2 :: t :: ps)
      ((Heap.alloc h).2 :: t :: ps) ([] :: m :: ms) none
      (Heap.append (Heap.alloc h).1 t (.ref (Heap.alloc h).2)).length := by
  have hn : (Heap.alloc h).2 = h.length := rfl
  have hl1 : (Heap.alloc h).1.length = h.length + 1 := by simp [Heap.alloc]
  simp only [StackRel] at hr
  obtain ⟨h1, ⟨c, hc, hd⟩, h3⟩ := hr
  have hps : ∀ r ∈ ps, r < t := StackRel.lt_ub h3
  have hgetD : ∀ r, r ≠ t → (Heap.append (Heap.alloc h).1 t (.ref (Heap.alloc h).2)).getD r [] = h.getD r [] := by
    intro r hne
    rw [Heap.append_getD, Heap.alloc_fst_getD]
    simp [hne]
  have hkeep : ∀ r, r < h.length → r ∉ (t :: ps) →
      (r ∉ ((Heap.alloc h).2 :: t :: ps) ∧
        (Heap.append (Heap.alloc h).1 t (.ref (Heap.alloc h).2)).getD r [] = h.getD r []) := by
    intro r hlt hnm
    have hne : r ≠ t := fun e => hnm (by simp [e])
    refine ⟨?_, hgetD r hne⟩
    intro hm
    rcases List.mem_cons.mp hm with e | hm
    · rw [hn] at e; omega
    · exact hnm hm
  have hlen : h.length ≤ (Heap.append (Heap.alloc h).1 t (.ref (Heap.alloc h).2)).length := by
    rw [Heap.append_length, hl1]; omega
  simp only [StackRel]
  refine ⟨by rw [Heap.append_length, hl1, hn]; omega, ⟨[], ?_, D.nil _⟩, ?_, ⟨c, ?_, D.transfer hlen hkeep hd⟩, ?_⟩
  · rw [hgetD _ (by rw [hn]; omega), hn]
    simp [childItems]
  · rw [hn]; exact h1
  · rw [Heap.append_getD, Heap.alloc_fst_getD, hl1]
    have : t < h.length + 1 := by omega
    simp only [this, and_self, if_true, hc, childItems, List.append_nil]
  · exact StackRel.transfer hlen hkeep (fun r hm => hgetD r (Nat.ne_of_lt (hps r hm))) h3

/-- `]`: the innermost object is finished; it already is the last item of its parent -/
theorem rel_close {h : Heap} {t p : Nat} {ps : List Nat} {m mp : List Seg} {ms : List (List Seg)}
    (hr : StackRel h (t :: p :: ps) (t :: p :: ps) (m :: mp :: ms) none h.length) :
    StackRel h (p :: ps) (p :: ps) ((Seg.grp m.reverse :: mp) :: ms) none h.length := by
  simp only [StackRel] at hr
  obtain ⟨h1, ⟨c, hc, hd⟩, h2, ⟨cp, hcp, hdp⟩, h3⟩ := hr
  have hps : ∀ r ∈ ps, r < p := StackRel.lt_ub h3
  have hkeep : ∀ r, r < h.length → r ∉ (t :: p :: ps) → (r ∉ (p :: ps) ∧ h.getD r [] = h.getD r []) := by
    intro r _ hnm
    exact ⟨fun hm => hnm (List.mem_cons_of_mem _ hm), rfl⟩
  have htn : t ∉ (p :: ps) := by
    intro hm
    rcases List.mem_cons.mp hm with e | hm
    · omega
    · have := hps t hm; omega
  simp only [StackRel]
  refine ⟨Nat.lt_trans h2 h1, ⟨cp ++ [.ref t], ?_, ?_⟩, StackRel.transfer (Nat.le_refl _) hkeep (fun _ _ => rfl) h3⟩
  · rw [hcp]; simp [childItems]
  · rw [List.reverse_cons]
    refine D.append (D.transfer (Nat.le_refl _) hkeep hdp) (D.ref (by omega) h1 htn ?_ (D.nil _))
    have : h.getD t [] = c := by rw [hc]; simp [childItems]
    rw [this]
    exact D.transfer (Nat.le_refl _) hkeep hd

theorem foldlE_cons {σ α : Type} (f : σ → α → Except PyExc σ) (s : σ) (x : α) (xs : List α) :
    foldlE f s (x :: xs) = bindE (f s x) (fun s' => foldlE f s' xs) := by
  simp only [foldlE, bindE]

theorem pyEscaped_pre (pre suf : Str) (hne : pre ≠ []) :
    pyEscaped (pre ++ suf) pre.length = .ok (pre.getLast? == some '\\') := by
  have hpos : pre.length > 0 := List.length_pos_iff.mpr hne
  simp only [pyEscaped, hpos, if_true, pyIndex_pre pre suf hne, bindE_ok, List.getLast?_eq_some_getLast hne]
  congr 1

/-- the flush of the pending text, on both sides -/
theorem flush_ok {pre suf : Str} {h : Heap} {t : Nat} {ps : List Nat} {ssi : Int} {m : List Seg}
    {ms : List (List Seg)} {cur : Str} (hinv : Inv pre h (t :: ps) ssi (m :: ms) cur) :
    ∃ h', pyFlush (pre ++ suf) h (t :: ps).reverse ssi pre.length = .ok h' ∧
      StackRel h' (t :: ps) (t :: ps) (flushM cur m :: ms) none h'.length ∧ HeadRef h' := by
  obtain ⟨s, hs1, hs2, hs3⟩ := hinv.seg
  by_cases hlt : s < pre.length
  · have hc : ssi + 1 < (pre.length : Int) := by omega
    have hne : cur.isEmpty = false := by
      cases cur with
      | nil =>
        have : (pre.drop s).length = 0 := by rw [← hs3]; rfl
        rw [List.length_drop] at this; omega
      | cons _ _ => rfl
    refine ⟨Heap.append h t (.str cur.reverse), ?_, ?_, hinv.headRef.append _ _⟩
    · have hc' : (s : Int) < (pre.length : Int) := by omega
      simp only [pyFlush, hs1, hc', if_true, pyIndex_reverse_last, bindE_ok, pySlice_pre pre suf s hs2, hs3]
    · simp only [flushM, hne, Bool.false_eq_true, if_false]
      exact rel_flush _ hinv.rel
  · have hc : ¬ (ssi + 1 < (pre.length : Int)) := by omega
    have he : cur.isEmpty = true := by
      have : pre.drop s = [] := List.drop_eq_nil_of_le (by omega)
      rw [this] at hs3
      have : cur = [] := by simpa using hs3
      rw [this]; rfl
    refine ⟨h, ?_, ?_, hinv.headRef⟩
    · have hc' : ¬ ((s : Int) < (pre.length : Int)) := by omega
      simp only [pyFlush, hs1, hc', if_false]
    · simp only [flushM, he, if_true]
      exact hinv.rel

theorem inv_cases {pre : Str} {h : Heap} {pst : List Nat} {ssi : Int} {ms : List (List Seg)} {cur : Str}
    (hinv : Inv pre h pst ssi ms cur) : ∃ t ps m mr, pst = t :: ps ∧ ms = m :: mr := by
  cases pst with
  | nil => have := hinv.bot; simp at this
  | cons t ps =>
    cases ms with
    | nil => have := hinv.rel; simp [StackRel] at this
    | cons m mr => exact ⟨t, ps, m, mr, rfl, rfl⟩

theorem D.ref_inv {h : Heap} {S : List Nat} {lo r : Nat} {xs : List HItem} {ts : List Seg}
    (hd : D h S lo (.ref r :: xs) ts) :
    ∃ t ts', ts = Seg.grp t :: ts' ∧ D h S (r + 1) (h.getD r []) t := by
  cases hd with
  | ref _ _ _ d1 _ => exact ⟨_, _, rfl, d1⟩

/-- the end of the input -/
theorem sim_final {pre : Str} {h : Heap} {pst : List Nat} {ssi : Int} {ms : List (List Seg)} {cur : Str}
    (prev : Option Char) (hinv : Inv pre h pst ssi ms cur) :
    pyFinish (h, pst.reverse, ssi) = absE (mFinish (segtreeGo ms cur prev [])) := by
  obtain ⟨t, ps, m, mr, rfl, rfl⟩ := inv_cases hinv
  cases ps with
  | cons p ps' =>
    have hlen := StackRel.length hinv.rel
    cases mr with
    | nil => simp at hlen
    | cons mp mr' =>
      simp [pyFinish, segtreeGo, mFinish, absE]
  | nil =>
    have hlen := StackRel.length hinv.rel
    cases mr with
    | cons _ _ => simp at hlen
    | nil =>
      have ht : t = 0 := by have := hinv.bot; simpa using this
      subst ht
      obtain ⟨x, rest, hx⟩ := hinv.headRef
      have hrel := hinv.rel
      simp only [StackRel, childItems, List.append_nil] at hrel
      obtain ⟨_, ⟨c, hc, hd⟩, _⟩ := hrel
      rw [hx] at hc
      subst hc
      obtain ⟨tt, ts, hts, d1⟩ := D.ref_inv hd
      · have hre : Heap.reify h x = tt := D.reify d1 h.length (by omega)
        have hm : ∃ more, (flushM cur m).reverse = Seg.grp tt :: more := by
          unfold flushM
          split
          · exact ⟨ts, hts⟩
          · exact ⟨ts ++ [Seg.lit cur.reverse], by rw [List.reverse_cons, hts]; rfl⟩
        obtain ⟨more, hmore⟩ := hm
        have hfl : segtreeGo [m] cur prev [] = .ok [flushM cur m] := by simp [segtreeGo, flushM]
        simp only [hfl, mFinish, hmore, absE, pyFinish, List.reverse_cons, List.reverse_nil, List.nil_append,
          List.length_singleton, Heap.index, hx, pyIndex]
        simp [Heap.reifyList, hre, bindE]

theorem getLast?_append_singleton (pre : Str) (c : Char) : (pre ++ [c]).getLast? = some c := by simp

theorem segtreeGo_cons (ms : List (List Seg)) (cur : Str) (prev : Option Char) (c : Char) (r : Str) :
    segtreeGo ms cur prev (c :: r) =
      if (c == '[' || c == ']') && !(prev == some '\\') then
        match ms with
        | [] => .error .valueError
        | top :: rest =>
          if c == '[' then segtreeGo ([] :: flushM cur top :: rest) [] (some c) r
          else
            match rest with
            | [] => .error .valueError
            | parent :: rest' => segtreeGo ((Seg.grp (flushM cur top).reverse :: parent) :: rest') [] (some c) r
      else segtreeGo ms (c :: cur) (some c) r := by
  simp only [segtreeGo, flushM]
  rfl

/-- the simulation: from any related pair of states, the rest of the Python loop followed by the final checks
    agrees with the rest of the model's recursion -/
theorem sim (raw' : Str) : ∀ (suf pre : Str) (h : Heap) (pst : List Nat) (ssi : Int) (ms : List (List Seg))
    (cur : Str), raw' = pre ++ suf → pre ≠ [] → Inv pre h pst ssi ms cur →
    bindE (foldlE (pyStep raw') (h, pst.reverse, ssi) (suf.zipIdx pre.length)) pyFinish =
      absE (mFinish (segtreeGo ms cur pre.getLast? suf)) := by
  intro suf
  induction suf with
  | nil =>
    intro pre h pst ssi ms cur _ _ hinv
    simp only [List.zipIdx_nil, foldlE, bindE_ok]
    exact sim_final _ hinv
  | cons c r ih =>
    intro pre h pst ssi ms cur hraw hne hinv
    have hraw' : raw' = (pre ++ [c]) ++ r := by rw [hraw]; simp
    have hne' : pre ++ [c] ≠ [] := by simp
    have hlen' : (pre ++ [c]).length = pre.length + 1 := by simp
    obtain ⟨s, hs1, hs2, hs3⟩ := hinv.seg
    rw [List.zipIdx_cons, foldlE_cons, segtreeGo_cons]
    simp only [pyStep, hraw, pyEscaped_pre pre (c :: r) hne, bindE_ok, elem_brackets]
    by_cases hb : ((c == '[' || c == ']') && !(pre.getLast? == some '\\')) = true
    · simp only [hb, if_true]
      obtain ⟨t, ps, m, mr, rfl, rfl⟩ := inv_cases hinv
      obtain ⟨h', hfl, hrel, hhr⟩ := flush_ok (suf := c :: r) hinv
      simp only [hfl, bindE_ok, pyBracket]
      by_cases ho : (c == '[') = true
      · -- open
        simp only [ho, if_true, pyIndex_reverse_last, bindE_ok]
        have hst : (t :: ps).reverse ++ [(Heap.alloc h').2] = ((Heap.alloc h').2 :: t :: ps).reverse := by simp
        rw [hst, ← hraw]
        have := ih (pre ++ [c]) (Heap.append (Heap.alloc h').1 t (.ref (Heap.alloc h').2))
          ((Heap.alloc h').2 :: t :: ps) (pre.length : Int) ([] :: flushM cur m :: mr) [] hraw' hne'
          { seg := ⟨pre.length + 1, by omega, by simp, by simp⟩
            rel := rel_open hrel
            bot := by have := hinv.bot; simpa using this
            headRef := hhr.alloc.append _ _ }
        rw [hlen', getLast?_append_singleton] at this
        exact this
      · have hc : (c == ']') = true := by
          have : (c == '[' || c == ']') = true := by
            revert hb; cases (c == '[' || c == ']') <;> simp
          simpa [ho] using this
        simp only [ho, hc, if_true, Bool.false_eq_true, if_false]
        cases ps with
        | nil =>
          have hlen := StackRel.length hinv.rel
          cases mr with
          | cons _ _ => simp at hlen
          | nil => simp [absE, mFinish]
        | cons p ps' =>
          have hlen := StackRel.length hinv.rel
          cases mr with
          | nil => simp at hlen
          | cons mp mr' =>
            have h1 : ((t :: p :: ps').reverse.length == 1) = false := by simp
            simp only [h1, Bool.false_eq_true, if_false, pyPop_reverse, bindE_ok]
            rw [← hraw]
            have := ih (pre ++ [c]) h' (p :: ps') (pre.length : Int)
              ((Seg.grp (flushM cur m).reverse :: mp) :: mr') [] hraw' hne'
              { seg := ⟨pre.length + 1, by omega, by simp, by simp⟩
                rel := rel_close hrel
                bot := by have := hinv.bot; simpa using this
                headRef := hhr }
            rw [hlen', getLast?_append_singleton] at this
            exact this
    · simp only [hb, Bool.false_eq_true, if_false, bindE_ok]
      rw [← hraw]
      have := ih (pre ++ [c]) h pst ssi ms (c :: cur) hraw' hne'
        { seg := ⟨s, hs1, by simp; omega, by
            rw [List.reverse_cons, hs3, List.drop_append_of_le_length hs2]⟩
          rel := hinv.rel
          bot := hinv.bot
          headRef := hinv.headRef }
      rw [hlen', getLast?_append_singleton] at this
      exact this

/-- the first character (the `[` that `_parse_segtree` puts in front), run concretely on both sides -/
theorem first_step (raw' : Str) :
    pyStep raw' ([[]], [0], -1) ('[', 0) = .ok ([[.ref 1], []], [0, 1], 0) := by
  have h1 : pyIndex [0] (-1) = Except.ok 0 := pyIndex_reverse_last 0 []
  simp [pyStep, pyEscaped, pyFlush, pyBracket, h1, Heap.alloc, Heap.append]

theorem inv_first : Inv ['['] [[.ref 1], []] [1, 0] 0 [[], []] [] where
  seg := ⟨1, by simp, by simp, by simp⟩
  rel := by
    simp only [StackRel, childItems, List.length_cons, List.length_nil]
    exact ⟨by omega, ⟨[], by simp, D.nil _⟩, by omega, ⟨[], by simp, D.nil _⟩, trivial⟩
  bot := by simp
  headRef := ⟨1, [], by simp⟩

/-- the model's `.error` is always `.valueError` -/
theorem segtreeGo_error : ∀ (s : Str) (ms : List (List Seg)) (cur : Str) (prev : Option Char) (e : PErr),
    segtreeGo ms cur prev s = .error e → e = .valueError := by
  intro s
  induction s with
  | nil => intro ms cur prev e h; simp [segtreeGo] at h
  | cons c r ih =>
    intro ms cur prev e h
    rw [segtreeGo_cons] at h
    split at h
    · split at h
      · simpa using h.symm
      · split at h
        · exact ih _ _ _ _ h
        · split at h
          · simpa using h.symm
          · exact ih _ _ _ _ h
    · exact ih _ _ _ _ h

theorem _root_.BV.parseSegtree_error (raw : Str) (e : PErr) (h : parseSegtree raw = .error e) : e = .valueError := by
  rw [parseSegtree_eq_mFinish] at h
  unfold mFinish at h
  split at h
  · rename_i e' heq
    have := segtreeGo_error _ _ _ _ _ heq
    cases h; exact this
  · split at h
    · cases h
    · cases h; rfl
  · cases h; rfl

/-- `_parse_segtree(raw_pattern)` for ALL strings: the same tree, and ValueError exactly when the model fails -/
theorem _root_.BV.tie_parseSegtree (raw : Str) : GenF.parseSegtree raw = absE (parseSegtree raw) := by
  rw [parseSegtree_eq_spec, parseSegtree_eq_mFinish, List.cons_append, List.zipIdx_cons, foldlE_cons, first_step,
    bindE_ok, segtreeGo_cons]
  have hm : ((('[' == '[' || '[' == ']') && !((none : Option Char) == some '\\')) = true) := by decide
  simp only [hm, if_true, flushM, List.isEmpty_nil, beq_self_eq_true]
  exact sim ('[' :: (raw ++ [']'])) (raw ++ [']']) ['['] [[.ref 1], []] [1, 0] 0 [[], []] [] rfl (by simp) inv_first

/-- in `Except` form: success with the same tree … -/
theorem _root_.BV.tie_parseSegtree_ok (raw : Str) (t : List Seg) :
    GenF.parseSegtree raw = .ok t ↔ parseSegtree raw = .ok t := by
  rw [tie_parseSegtree]
  cases parseSegtree raw <;> simp [absE]

/-- … and failure is a ValueError on the Python side exactly when the model reports an error -/
theorem _root_.BV.tie_parseSegtree_error (raw : Str) :
    GenF.parseSegtree raw = .error .valueError ↔ ∃ e, parseSegtree raw = .error e := by
  rw [tie_parseSegtree]
  cases parseSegtree raw <;> simp [absE]

end BV.TieF
