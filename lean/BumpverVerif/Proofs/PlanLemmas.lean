/-
  Proofs/PlanLemmas.lean — helper lemmas about `BV.plan` and its phases.

  Three independent passes over the phases of `plan`:
  * "shape": which events a phase appends (used for all membership properties);
  * "stop":  an invariant saying that no non-swallowed VCS invocation has failed so far;
  * "order": an invariant saying that the ranks logged so far are sorted and bounded.
-/
import BumpverVerif.Model.Plan
namespace BV

/-! ### `parseVcsOptions` -/

theorem parseVcsOptions_none_iff (c : PlanCfg) (a : PlanCli) :
    parseVcsOptions c a = none ↔
      (a.commit.getD c.commit = false ∧ (a.tagCommit = some true ∨ a.push = some true)) := by
  obtain ⟨cc, ct, cp, cpre, cpost, csc, ctm⟩ := c
  obtain ⟨ac, at', ap, apre, apost, asc, adry, afetch, aign, aset⟩ := a
  rcases ac with _ | _ | _ <;> rcases at' with _ | _ | _ <;> rcases ap with _ | _ | _ <;>
    cases cc <;> simp [parseVcsOptions]

theorem parseVcsOptions_some {c : PlanCfg} {a : PlanCli} {c' : PlanCfg}
    (h : parseVcsOptions c a = some c') :
    c'.commit = a.commit.getD c.commit ∧ c'.tag = a.tagCommit.getD c.tag ∧
      c'.push = a.push.getD c.push := by
  obtain ⟨cc, ct, cp, cpre, cpost, csc, ctm⟩ := c
  obtain ⟨ac, at', ap, apre, apost, asc, adry, afetch, aign, aset⟩ := a
  rcases ac with _ | _ | _ <;> rcases at' with _ | _ | _ <;> rcases ap with _ | _ | _ <;>
    cases cc <;> rcases asc with _ | _ | _ <;> simp [parseVcsOptions] at h ⊢ <;> subst h <;> simp

/-! ### shape of the logs of the phases -/

@[simp] theorem vcsCall_evs (e : PlanEnv) (ev : Ev) (s : PState) :
    (vcsCall e ev s).1.evs = ev :: s.evs := rfl
@[simp] theorem vcsCall_n (e : PlanEnv) (ev : Ev) (s : PState) :
    (vcsCall e ev s).1.n = s.n + 1 := rfl

/-- `l'` extends the (reversed) log `l` by events satisfying `P` -/
def Ext (P : Ev → Prop) (l l' : List Ev) : Prop := ∃ new, l' = new ++ l ∧ ∀ ev ∈ new, P ev

theorem Ext.refl {P : Ev → Prop} (l : List Ev) : Ext P l l := ⟨[], by simp⟩
theorem Ext.cons {P : Ev → Prop} {l l' : List Ev} {ev : Ev} (hp : P ev) (h : Ext P l l') :
    Ext P l (ev :: l') := by
  obtain ⟨new, rfl, hn⟩ := h
  exact ⟨ev :: new, by simp, by simpa [hp] using hn⟩
theorem Ext.trans {P : Ev → Prop} {l l' l'' : List Ev} (h1 : Ext P l l') (h2 : Ext P l' l'') :
    Ext P l l'' := by
  obtain ⟨n1, rfl, hn1⟩ := h1
  obtain ⟨n2, rfl, hn2⟩ := h2
  refine ⟨n2 ++ n1, by simp, ?_⟩
  intro ev hev
  rcases List.mem_append.1 hev with h | h
  · exact hn2 ev h
  · exact hn1 ev h
theorem Ext.mono {P Q : Ev → Prop} {l l' : List Ev} (hpq : ∀ ev, P ev → Q ev) (h : Ext P l l') :
    Ext Q l l' := by
  obtain ⟨new, rfl, hn⟩ := h
  exact ⟨new, rfl, fun ev hev => hpq ev (hn ev hev)⟩

theorem isUsable_shape (e : PlanEnv) (s : PState) :
    ((isUsable e s).1.evs = s.evs ∧ (isUsable e s).2 = false) ∨
      (isUsable e s).1.evs = .cmd "is_usable" :: s.evs := by
  unfold isUsable
  split <;> simp

/-- the probes of `get_remote` -/
def RemEv (ev : Ev) : Prop := ev = .cmd "ls_branches" ∨ ev = .cmd "show_remotes"

theorem getRemote_ext (e : PlanEnv) (s : PState) : Ext RemEv s.evs (getRemote e s).1.evs := by
  unfold getRemote
  split
  · simp only []
    split
    · exact .cons (.inl rfl) (.refl _)
    · split
      · exact .cons (.inl rfl) (.refl _)
      · exact .cons (.inr rfl) (.cons (.inl rfl) (.refl _))
  · exact .cons (.inr rfl) (.refl _)

/-- events `get_tags` may log; `fetch` and the remote probes only when fetching is requested -/
def TagEv (f : Bool) (ev : Ev) : Prop :=
  ev = .cmd "is_usable" ∨ ev = .cmd "ls_tags" ∨ ev = .cmd "ls_tags_branch" ∨
    (f = true ∧ (ev = .cmd "ls_branches" ∨ ev = .cmd "show_remotes" ∨ ev = .cmd "fetch"))

theorem getTags_ext (e : PlanEnv) (f b : Bool) (s : PState) :
    Ext (TagEv f) s.evs (getTags e f b s).1.evs := by
  unfold getTags
  have h1 : Ext (TagEv f) s.evs (isUsable e s).1.evs := by
    rcases isUsable_shape e s with ⟨h, _⟩ | h <;> rw [h]
    · exact .refl _
    · exact .cons (.inl rfl) (.refl _)
  generalize isUsable e s = r at *
  obtain ⟨s1, u⟩ := r
  simp only at h1 ⊢
  have hls : TagEv f (.cmd (if b then "ls_tags_branch" else "ls_tags")) := by
    cases b <;> simp [TagEv]
  split
  · exact h1
  · cases f
    · exact .cons hls h1
    · have h2 := (getRemote_ext e s1).mono (Q := TagEv true) (by
        rintro ev (h | h) <;> simp [TagEv, h])
      generalize getRemote e s1 = r at *
      obtain ⟨sa, rem⟩ := r
      cases rem
      · exact .cons hls (h1.trans h2)
      · simp only [if_true]
        split
        · exact .cons (by simp [TagEv]) (h1.trans h2)
        · exact .cons hls (.cons (by simp [TagEv]) (h1.trans h2))

/-- the `add` events for a list of files, most recent first -/
def addsRev (l : List Str) : List Ev := (l.map Ev.add).reverse

theorem addAll_shape (e : PlanEnv) (l : List Str) (s : PState) :
    ∃ l1 l2, l = l1 ++ l2 ∧ (addAll e l s).1.evs = addsRev l1 ++ s.evs ∧
      ((addAll e l s).2 = .ok → l2 = []) := by
  induction l generalizing s with
  | nil => exact ⟨[], [], by simp [addAll, addsRev]⟩
  | cons p ps ih =>
    unfold addAll
    simp only []
    split
    · exact ⟨[p], ps, by simp [addsRev]⟩
    · obtain ⟨l1, l2, h1, h2, h3⟩ := ih (vcsCall e (.add p) s).1
      exact ⟨p :: l1, l2, by simp [h1], by simp [h2, addsRev], h3⟩

def hookPre (e : PlanEnv) (c : PlanCfg) : List Ev :=
  if c.preHook then [.preHook e.startVersion e.announced] else []
def hookPost (e : PlanEnv) (c : PlanCfg) : List Ev :=
  if c.postHook then [.postHook e.startVersion e.announced] else []
def tagCmd (c : PlanCfg) : Ev := .cmd (if c.tagMsgEmpty then "tag_light" else "tag")
def tagL (c : PlanCfg) : List Ev := if c.tag then [tagCmd c] else []
def pushCmd (c : PlanCfg) : Ev := .cmd (if c.tag then "push_tag" else "push")
/-- everything up to and including the commit, most recent first -/
def uptoCommit (e : PlanEnv) (c : PlanCfg) : List Ev :=
  .cmd "commit" :: addsRev e.files ++ hookPre e c

/-- the possible logs (most recent first) and outcomes of `commitPhase` -/
inductive CommitShape (e : PlanEnv) (c : PlanCfg) : List Ev → Outcome → Prop
  | preFail : c.preHook = true → e.preOk = false →
      CommitShape e c [.preHook e.startVersion e.announced] .failed
  | addFail (l1 l2 : List Str) : (c.preHook = true → e.preOk = true) → e.files = l1 ++ l2 →
      CommitShape e c (addsRev l1 ++ hookPre e c) .failed
  | commitFail : (c.preHook = true → e.preOk = true) → CommitShape e c (uptoCommit e c) .failed
  | postFail : (c.preHook = true → e.preOk = true) → c.postHook = true → e.postOk = false →
      CommitShape e c (.postHook e.startVersion e.announced :: uptoCommit e c) .failed
  | tagFail : (c.preHook = true → e.preOk = true) → (c.postHook = true → e.postOk = true) →
      c.tag = true → CommitShape e c (tagCmd c :: hookPost e c ++ uptoCommit e c) .failed
  | noPush : (c.preHook = true → e.preOk = true) → (c.postHook = true → e.postOk = true) →
      c.push = false → CommitShape e c (tagL c ++ hookPost e c ++ uptoCommit e c) .ok
  | noRemote (probes : List Ev) : (c.preHook = true → e.preOk = true) →
      (c.postHook = true → e.postOk = true) → c.push = true → (∀ ev ∈ probes, RemEv ev) →
      CommitShape e c (probes ++ tagL c ++ hookPost e c ++ uptoCommit e c) .ok
  | push (probes : List Ev) (o : Outcome) : (c.preHook = true → e.preOk = true) →
      (c.postHook = true → e.postOk = true) → c.push = true → (∀ ev ∈ probes, RemEv ev) →
      CommitShape e c (pushCmd c :: probes ++ tagL c ++ hookPost e c ++ uptoCommit e c) o

theorem Outcome.ok_of_not_failed {o : Outcome} (h : ¬ (o == Outcome.failed) = true) : o = .ok := by
  cases o <;> simp_all

theorem commitPhase_shape' (e : PlanEnv) (c : PlanCfg) (s : PState) (r : PState × Outcome)
    (h : commitPhase e c s = r) :
    ∃ C, r.1.evs = C ++ s.evs ∧ CommitShape e c C r.2 := by
  unfold commitPhase at h
  extract_lets s0 at h
  have hs0 : s0.evs = hookPre e c ++ s.evs := by
    simp only [s0, hookPre]; split <;> rfl
  clear_value s0
  split at h
  · rename_i hp
    simp at hp
    subst h
    exact ⟨[.preHook e.startVersion e.announced], by simp [hs0, hookPre, hp.1], .preFail hp.1 hp.2⟩
  · rename_i hp
    have hp' : c.preHook = true → e.preOk = true := by simpa using hp
    split at h
    rename_i s1 o1 hadd
    obtain ⟨l1, l2, hl, hevs, hok⟩ := addAll_shape e e.files s0
    rw [hadd] at hevs hok
    simp only at hevs hok
    split at h
    · subst h
      exact ⟨addsRev l1 ++ hookPre e c, by simp [hevs, hs0], .addFail l1 l2 hp' hl⟩
    · rename_i ho1
      have hl2 := hok (Outcome.ok_of_not_failed ho1)
      subst hl2
      simp only [List.append_nil] at hl
      rw [← hl] at hevs
      clear hok hl l1
      split at h
      rename_i s2 o2 hcm
      have h2 : s2.evs = uptoCommit e c ++ s.evs := by
        have := congrArg (fun r => r.1.evs) hcm
        simpa [hevs, hs0, uptoCommit] using this.symm
      split at h
      · subst h
        exact ⟨_, h2, .commitFail hp'⟩
      · extract_lets s3 at h
        have h3 : s3.evs = hookPost e c ++ uptoCommit e c ++ s.evs := by
          simp only [s3, hookPost]; split <;> simp [h2]
        clear_value s3
        split at h
        · rename_i hq
          simp at hq
          subst h
          exact ⟨_, by simpa [hookPost, hq.1] using h3, .postFail hp' hq.1 hq.2⟩
        · rename_i hq
          have hq' : c.postHook = true → e.postOk = true := by simpa using hq
          split at h
          rename_i s4 o4 htag
          have h4 : s4.evs = tagL c ++ hookPost e c ++ uptoCommit e c ++ s.evs ∧
              (o4 = .failed → c.tag = true) := by
            split at htag
            · rename_i ht
              have := congrArg (fun r => r.1.evs) htag
              simp only [vcsCall_evs] at this
              simp [tagL, ht, ← this, h3, tagCmd]
            · rename_i ht
              simp only [Prod.mk.injEq] at htag
              simp [tagL, ht, ← htag.1, ← htag.2, h3]
          clear htag
          split at h
          · rename_i ho4
            have ht := h4.2 (by cases o4 <;> simp_all)
            subst h
            exact ⟨_, by simpa [tagL, ht] using h4.1, .tagFail hp' hq' ht⟩
          · split at h
            · rename_i hpush
              split at h
              rename_i s5 rem hrem
              obtain ⟨probes, hpr, hprobes⟩ := getRemote_ext e s4
              rw [hrem] at hpr
              simp only at hpr
              split at h
              · have := congrArg (fun r => r.1.evs) h
                simp only [vcsCall_evs] at this
                refine ⟨_, ?_, .push probes r.2 hp' hq' hpush hprobes⟩
                simp [← this, hpr, h4.1, pushCmd]
              · subst h
                exact ⟨_, by simp [hpr, h4.1], .noRemote probes hp' hq' hpush hprobes⟩
            · rename_i hpush
              subst h
              exact ⟨_, by simp [h4.1], .noPush hp' hq' (by simpa using hpush)⟩

theorem commitPhase_shape (e : PlanEnv) (c : PlanCfg) (s : PState) :
    ∃ C, (commitPhase e c s).1.evs = C ++ s.evs ∧ CommitShape e c C (commitPhase e c s).2 :=
  commitPhase_shape' e c s _ rfl
/-- the possible traces and exit codes of `plan` once the options are accepted -/
inductive PlanShape (c : PlanCfg) (a : PlanCli) (e : PlanEnv) : List Ev → Nat → Prop
  | early (T : List Ev) (code : Nat) : (∀ ev ∈ T, TagEv a.fetch ev) → (code = 1 ∨ a.dry = true) →
      PlanShape c a e T code
  | dirty (T : List Ev) : (∀ ev ∈ T, TagEv a.fetch ev) → c.commit = true → a.dry = false →
      PlanShape c a e (T ++ [.cmd "is_usable", .cmd "status"]) 1
  | unusable (T U : List Ev) : (∀ ev ∈ T, TagEv a.fetch ev) → a.dry = false →
      (U = [] ∨ U = [.cmd "is_usable"]) → PlanShape c a e (T ++ U) 1
  | noVcs (T U : List Ev) : (∀ ev ∈ T, TagEv a.fetch ev) → a.dry = false →
      (U = [] ∨ U = [.cmd "is_usable"]) → PlanShape c a e (T ++ U ++ [.rewrite]) 0
  | commit (T C : List Ev) (o : Outcome) : (∀ ev ∈ T, TagEv a.fetch ev) → c.commit = true →
      a.dry = false → e.dirtyAbort = false → CommitShape e c C o →
      PlanShape c a e (T ++ [.cmd "is_usable", .cmd "status", .rewrite] ++ C.reverse)
        (if o = .ok then 0 else 1)

theorem TagEv.of_false {f : Bool} {ev : Ev} (h : TagEv false ev) : TagEv f ev := by
  simp only [TagEv] at h ⊢
  simp only [Bool.false_eq_true, false_and, or_false] at h
  rcases h with h | h | h <;> simp [h]

theorem plan_shape' (c0 c : PlanCfg) (a : PlanCli) (e : PlanEnv)
    (hc : parseVcsOptions c0 a = some c) (r : List Ev × Nat) (h : plan c0 a e = r) :
    PlanShape c a e r.1 r.2 := by
  unfold plan at h
  split at h
  · simp_all
  rename_i c' hc'
  obtain rfl : c' = c := by rw [hc] at hc'; exact (Option.some.inj hc').symm
  clear hc'
  extract_lets s0 at h
  split at h
  rename_i s1 o1 h1
  have e1 : Ext (TagEv a.fetch) [] s1.evs := by
    split at h1
    · simp only [Prod.mk.injEq] at h1; rw [← h1.1]; exact .refl _
    · have := getTags_ext e a.fetch c'.scopeBranch s0
      rw [h1] at this; exact this
  clear h1
  have early1 : PlanShape c' a e s1.evs.reverse 1 :=
    .early _ _ (by obtain ⟨T, hT, hm⟩ := e1; simpa [hT] using hm) (.inl rfl)
  split at h
  · subst h; exact early1
  split at h
  · subst h; exact early1
  clear early1
  split at h
  rename_i s2 o2 h2
  have e2 : Ext (TagEv a.fetch) [] s2.evs := by
    split at h2
    · have := (getTags_ext e false false s1).mono (Q := TagEv a.fetch) (fun _ => TagEv.of_false)
      rw [h2] at this; exact e1.trans this
    · simp only [Prod.mk.injEq] at h2; rw [← h2.1]; exact e1
  clear h2 e1
  obtain ⟨T, hT, hm⟩ := e2
  simp only [List.append_nil] at hT
  have hm' : ∀ ev ∈ T.reverse, TagEv a.fetch ev := by simpa using hm
  have early2 : ∀ code, (code = 1 ∨ a.dry = true) → PlanShape c' a e s2.evs.reverse code :=
    fun code hcode => hT ▸ .early _ _ hm' hcode
  split at h
  · subst h; exact early2 _ (.inl rfl)
  split at h
  · subst h; exact early2 _ (.inl rfl)
  split at h
  · rename_i hd; subst h; exact early2 _ (.inr hd)
  rename_i hd
  have hd : a.dry = false := by simpa using hd
  clear early2
  split at h
  rename_i s3 usable h3
  split at h
  rename_i s4 o4 h4
  cases usable
  · -- not usable: no status, no commit phase
    have hU : s3.evs.reverse = T.reverse ++ [] ∨ s3.evs.reverse = T.reverse ++ [.cmd "is_usable"] := by
      split at h3
      · rcases isUsable_shape e s2 with ⟨hu, _⟩ | hu <;> rw [h3] at hu <;> simp only at hu <;> simp [hu, hT]
      · simp only [Prod.mk.injEq] at h3; simp [← h3.1, hT]
    simp only [Bool.false_eq_true, if_false, Prod.mk.injEq] at h4
    obtain ⟨rfl, rfl⟩ := h4
    simp only [Bool.false_and, Bool.not_false, if_true, Bool.false_eq_true, if_false,
      show (Outcome.ok == Outcome.failed) = false from rfl] at h
    split at h
    · subst h
      rcases hU with hU | hU <;> rw [hU]
      · exact .unusable _ _ hm' hd (.inl rfl)
      · exact .unusable _ _ hm' hd (.inr rfl)
    · subst h
      simp only [List.reverse_cons]
      rcases hU with hU | hU <;> rw [hU]
      · exact .noVcs _ _ hm' hd (.inl rfl)
      · exact .noVcs _ _ hm' hd (.inr rfl)
  · have hcm : c'.commit = true ∧ s3.evs = .cmd "is_usable" :: T := by
      split at h3
      · rename_i hcm
        refine ⟨hcm, ?_⟩
        rcases isUsable_shape e s2 with ⟨_, hu⟩ | hu <;> rw [h3] at hu <;> simp only at hu
        · cases hu
        · rw [hu, hT]
      · simp only [Prod.mk.injEq] at h3; cases h3.2
    clear h3
    simp only [if_true] at h4
    have h4e : s4.evs.reverse = T.reverse ++ [.cmd "is_usable", .cmd "status"] := by
      have := congrArg (fun r => r.1.evs) h4
      simp only [vcsCall_evs] at this
      simp [← this, hcm.2]
    have hdirty : PlanShape c' a e s4.evs.reverse 1 := h4e ▸ .dirty _ hm' hcm.1 hd
    split at h
    · subst h; exact hdirty
    split at h
    · subst h; exact hdirty
    rename_i hda
    have hda : e.dirtyAbort = false := by simpa using hda
    split at h
    · subst h; exact hdirty
    extract_lets s5 at h
    simp only [Bool.not_true, Bool.false_eq_true, if_false] at h
    obtain ⟨C, hC, hsh⟩ := commitPhase_shape e c' s5
    generalize commitPhase e c' s5 = r6 at *
    obtain ⟨s6, o6⟩ := r6
    simp only at hC hsh h
    subst h
    have : s6.evs.reverse = T.reverse ++ [.cmd "is_usable", .cmd "status", .rewrite] ++ C.reverse := by
      simp [hC, s5, h4e]
    simp only [this]
    have hcode : (if (o6 == Outcome.ok) = true then 0 else 1) = (if o6 = .ok then 0 else 1) := by
      cases o6 <;> rfl
    rw [hcode]
    exact .commit _ _ _ hm' hcm.1 hd hda hsh

theorem plan_shape (c0 c : PlanCfg) (a : PlanCli) (e : PlanEnv)
    (hc : parseVcsOptions c0 a = some c) : PlanShape c a e (plan c0 a e).1 (plan c0 a e).2 :=
  plan_shape' c0 c a e hc _ rfl

end BV
