/-
  Proofs/PlanLemmas.lean — helper lemmas about `BV.plan` and its phases.
-/
import BumpverVerif.Model.Plan
namespace BV

end BV
