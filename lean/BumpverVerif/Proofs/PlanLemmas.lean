/-
  Proofs/PlanLemmas.lean — helper lemmas about `BV.plan` and its phases.

  Three independent passes over the phases of `plan`:
  * "shape": which events a phase appends (used for all membership properties);
  * "stop":  an invariant saying that no non-swallowed VCS invocation has failed so far;
  * "order": an invariant saying that the ranks logged so far are sorted and bounded.
-/
import BumpverVerif.Model.Plan
namespace BV

/-! ### `parseVcsOptions` -/

theorem parseVcsOptions_none_iff (c : PlanCfg) (a : PlanCli) :
    parseVcsOptions c a = none ↔
      (a.commit.getD c.commit = false ∧ (a.tagCommit = some true ∨ a.push = some true)) := by
  obtain ⟨cc, ct, cp, cpre, cpost, csc, ctm⟩ := c
  obtain ⟨ac, at', ap, apre, apost, asc, adry, afetch, aign, aset⟩ := a
  rcases ac with _ | _ | _ <;> rcases at' with _ | _ | _ <;> rcases ap with _ | _ | _ <;>
    cases cc <;> simp [parseVcsOptions]

theorem parseVcsOptions_some {c : PlanCfg} {a : PlanCli} {c' : PlanCfg}
    (h : parseVcsOptions c a = some c') :
    c'.commit = a.commit.getD c.commit ∧ c'.tag = a.tagCommit.getD c.tag ∧
      c'.push = a.push.getD c.push := by
  obtain ⟨cc, ct, cp, cpre, cpost, csc, ctm⟩ := c
  obtain ⟨ac, at', ap, apre, apost, asc, adry, afetch, aign, aset⟩ := a
  rcases ac with _ | _ | _ <;> rcases at' with _ | _ | _ <;> rcases ap with _ | _ | _ <;>
    cases cc <;> rcases asc with _ | _ | _ <;> simp [parseVcsOptions] at h ⊢ <;> subst h <;> simp

/-! ### shape of the logs of the phases -/

@[simp] theorem vcsCall_evs (e : PlanEnv) (ev : Ev) (s : PState) :
    (vcsCall e ev s).1.evs = ev :: s.evs := rfl
@[simp] theorem vcsCall_n (e : PlanEnv) (ev : Ev) (s : PState) :
    (vcsCall e ev s).1.n = s.n + 1 := rfl

/-- `l'` extends the (reversed) log `l` by events satisfying `P` -/
def EvExt (P : Ev → Prop) (l l' : List Ev) : Prop := ∃ new, l' = new ++ l ∧ ∀ ev ∈ new, P ev

theorem EvExt.refl {P : Ev → Prop} (l : List Ev) : EvExt P l l := ⟨[], by simp⟩
theorem EvExt.cons {P : Ev → Prop} {l l' : List Ev} {ev : Ev} (hp : P ev) (h : EvExt P l l') :
    EvExt P l (ev :: l') := by
  obtain ⟨new, rfl, hn⟩ := h
  exact ⟨ev :: new, by simp, by simpa [hp] using hn⟩
theorem EvExt.trans {P : Ev → Prop} {l l' l'' : List Ev} (h1 : EvExt P l l') (h2 : EvExt P l' l'') :
    EvExt P l l'' := by
  obtain ⟨n1, rfl, hn1⟩ := h1
  obtain ⟨n2, rfl, hn2⟩ := h2
  refine ⟨n2 ++ n1, by simp, ?_⟩
  intro ev hev
  rcases List.mem_append.1 hev with h | h
  · exact hn2 ev h
  · exact hn1 ev h
theorem EvExt.mono {P Q : Ev → Prop} {l l' : List Ev} (hpq : ∀ ev, P ev → Q ev) (h : EvExt P l l') :
    EvExt Q l l' := by
  obtain ⟨new, rfl, hn⟩ := h
  exact ⟨new, rfl, fun ev hev => hpq ev (hn ev hev)⟩

theorem isUsable_shape (e : PlanEnv) (s : PState) :
    ((isUsable e s).1.evs = s.evs ∧ (isUsable e s).2 = false) ∨
      (isUsable e s).1.evs = .cmd "is_usable" :: s.evs := by
  unfold isUsable
  split <;> simp

/-- the probes of `get_remote` -/
def RemEv (ev : Ev) : Prop := ev = .cmd "ls_branches" ∨ ev = .cmd "show_remotes"

theorem getRemote_ext (e : PlanEnv) (s : PState) : EvExt RemEv s.evs (getRemote e s).1.evs := by
  unfold getRemote
  split
  · simp only []
    split
    · exact .cons (.inl rfl) (.refl _)
    · split
      · exact .cons (.inl rfl) (.refl _)
      · exact .cons (.inr rfl) (.cons (.inl rfl) (.refl _))
  · exact .cons (.inr rfl) (.refl _)

/-- events `get_tags` may log; `fetch` and the remote probes only when fetching is requested -/
def TagEv (f : Bool) (ev : Ev) : Prop :=
  ev = .cmd "is_usable" ∨ ev = .cmd "ls_tags" ∨ ev = .cmd "ls_tags_branch" ∨
    (f = true ∧ (ev = .cmd "ls_branches" ∨ ev = .cmd "show_remotes" ∨ ev = .cmd "fetch"))

theorem getTags_ext (e : PlanEnv) (f b : Bool) (s : PState) :
    EvExt (TagEv f) s.evs (getTags e f b s).1.evs := by
  unfold getTags
  have h1 : EvExt (TagEv f) s.evs (isUsable e s).1.evs := by
    rcases isUsable_shape e s with ⟨h, _⟩ | h <;> rw [h]
    · exact .refl _
    · exact .cons (.inl rfl) (.refl _)
  generalize isUsable e s = r at *
  obtain ⟨s1, u⟩ := r
  simp only at h1 ⊢
  have hls : TagEv f (.cmd (if b then "ls_tags_branch" else "ls_tags")) := by
    cases b <;> simp [TagEv]
  split
  · exact h1
  · cases f
    · exact .cons hls h1
    · have h2 := (getRemote_ext e s1).mono (Q := TagEv true) (by
        rintro ev (h | h) <;> simp [TagEv, h])
      generalize getRemote e s1 = r at *
      obtain ⟨sa, rem⟩ := r
      cases rem
      · exact .cons hls (h1.trans h2)
      · simp only [if_true]
        split
        · exact .cons (by simp [TagEv]) (h1.trans h2)
        · exact .cons hls (.cons (by simp [TagEv]) (h1.trans h2))

/-- the `add` events for a list of files, most recent first -/
def addsRev (l : List Str) : List Ev := (l.map Ev.add).reverse

theorem addAll_shape (e : PlanEnv) (l : List Str) (s : PState) :
    ∃ l1 l2, l = l1 ++ l2 ∧ (addAll e l s).1.evs = addsRev l1 ++ s.evs ∧
      ((addAll e l s).2 = .ok → l2 = []) := by
  induction l generalizing s with
  | nil => exact ⟨[], [], by simp [addAll, addsRev]⟩
  | cons p ps ih =>
    unfold addAll
    simp only []
    split
    · exact ⟨[p], ps, by simp [addsRev]⟩
    · obtain ⟨l1, l2, h1, h2, h3⟩ := ih (vcsCall e (.add p) s).1
      exact ⟨p :: l1, l2, by simp [h1], by simp [h2, addsRev], h3⟩

def hookPre (e : PlanEnv) (c : PlanCfg) : List Ev :=
  if c.preHook then [.preHook e.startVersion e.announced] else []
def hookPost (e : PlanEnv) (c : PlanCfg) : List Ev :=
  if c.postHook then [.postHook e.startVersion e.announced] else []
def tagCmd (c : PlanCfg) : Ev := .cmd (if c.tagMsgEmpty then "tag_light" else "tag")
def tagL (c : PlanCfg) : List Ev := if c.tag then [tagCmd c] else []
def pushCmd (c : PlanCfg) : Ev := .cmd (if c.tag then "push_tag" else "push")
/-- everything up to and including the commit, most recent first -/
def uptoCommit (e : PlanEnv) (c : PlanCfg) : List Ev :=
  .cmd "commit" :: addsRev e.files ++ hookPre e c

/-- the possible logs (most recent first) and outcomes of `commitPhase` -/
inductive CommitShape (e : PlanEnv) (c : PlanCfg) : List Ev → Outcome → Prop
  | preFail : c.preHook = true → e.preOk = false →
      CommitShape e c [.preHook e.startVersion e.announced] .failed
  | addFail (l1 l2 : List Str) : (c.preHook = true → e.preOk = true) → e.files = l1 ++ l2 →
      CommitShape e c (addsRev l1 ++ hookPre e c) .failed
  | commitFail : (c.preHook = true → e.preOk = true) → CommitShape e c (uptoCommit e c) .failed
  | postFail : (c.preHook = true → e.preOk = true) → c.postHook = true → e.postOk = false →
      CommitShape e c (.postHook e.startVersion e.announced :: uptoCommit e c) .failed
  | tagFail : (c.preHook = true → e.preOk = true) → (c.postHook = true → e.postOk = true) →
      c.tag = true → CommitShape e c (tagCmd c :: hookPost e c ++ uptoCommit e c) .failed
  | noPush : (c.preHook = true → e.preOk = true) → (c.postHook = true → e.postOk = true) →
      c.push = false → CommitShape e c (tagL c ++ hookPost e c ++ uptoCommit e c) .ok
  | noRemote (probes : List Ev) : (c.preHook = true → e.preOk = true) →
      (c.postHook = true → e.postOk = true) → c.push = true → (∀ ev ∈ probes, RemEv ev) →
      CommitShape e c (probes ++ tagL c ++ hookPost e c ++ uptoCommit e c) .ok
  | push (probes : List Ev) (o : Outcome) : (c.preHook = true → e.preOk = true) →
      (c.postHook = true → e.postOk = true) → c.push = true → (∀ ev ∈ probes, RemEv ev) →
      CommitShape e c (pushCmd c :: probes ++ tagL c ++ hookPost e c ++ uptoCommit e c) o

theorem Outcome.ok_of_not_failed {o : Outcome} (h : ¬ (o == Outcome.failed) = true) : o = .ok := by
  cases o <;> simp_all

theorem commitPhase_shape' (e : PlanEnv) (c : PlanCfg) (s : PState) (r : PState × Outcome)
    (h : commitPhase e c s = r) :
    ∃ C, r.1.evs = C ++ s.evs ∧ CommitShape e c C r.2 := by
  unfold commitPhase at h
  extract_lets s0 at h
  have hs0 : s0.evs = hookPre e c ++ s.evs := by
    simp only [s0, hookPre]; split <;> rfl
  clear_value s0
  split at h
  · rename_i hp
    simp at hp
    subst h
    exact ⟨[.preHook e.startVersion e.announced], by simp [hs0, hookPre, hp.1], .preFail hp.1 hp.2⟩
  · rename_i hp
    have hp' : c.preHook = true → e.preOk = true := by simpa using hp
    split at h
    rename_i s1 o1 hadd
    obtain ⟨l1, l2, hl, hevs, hok⟩ := addAll_shape e e.files s0
    rw [hadd] at hevs hok
    simp only at hevs hok
    split at h
    · subst h
      exact ⟨addsRev l1 ++ hookPre e c, by simp [hevs, hs0], .addFail l1 l2 hp' hl⟩
    · rename_i ho1
      have hl2 := hok (Outcome.ok_of_not_failed ho1)
      subst hl2
      simp only [List.append_nil] at hl
      rw [← hl] at hevs
      clear hok hl l1
      split at h
      rename_i s2 o2 hcm
      have h2 : s2.evs = uptoCommit e c ++ s.evs := by
        have := congrArg (fun r => r.1.evs) hcm
        simpa [hevs, hs0, uptoCommit] using this.symm
      split at h
      · subst h
        exact ⟨_, h2, .commitFail hp'⟩
      · extract_lets s3 at h
        have h3 : s3.evs = hookPost e c ++ uptoCommit e c ++ s.evs := by
          simp only [s3, hookPost]; split <;> simp [h2]
        clear_value s3
        split at h
        · rename_i hq
          simp at hq
          subst h
          exact ⟨_, by simpa [hookPost, hq.1] using h3, .postFail hp' hq.1 hq.2⟩
        · rename_i hq
          have hq' : c.postHook = true → e.postOk = true := by simpa using hq
          split at h
          rename_i s4 o4 htag
          have h4 : s4.evs = tagL c ++ hookPost e c ++ uptoCommit e c ++ s.evs ∧
              (o4 = .failed → c.tag = true) := by
            split at htag
            · rename_i ht
              have := congrArg (fun r => r.1.evs) htag
              simp only [vcsCall_evs] at this
              simp [tagL, ht, ← this, h3, tagCmd]
            · rename_i ht
              simp only [Prod.mk.injEq] at htag
              simp [tagL, ht, ← htag.1, ← htag.2, h3]
          clear htag
          split at h
          · rename_i ho4
            have ht := h4.2 (by cases o4 <;> simp_all)
            subst h
            exact ⟨_, by simpa [tagL, ht] using h4.1, .tagFail hp' hq' ht⟩
          · split at h
            · rename_i hpush
              split at h
              rename_i s5 rem hrem
              obtain ⟨probes, hpr, hprobes⟩ := getRemote_ext e s4
              rw [hrem] at hpr
              simp only at hpr
              split at h
              · have := congrArg (fun r => r.1.evs) h
                simp only [vcsCall_evs] at this
                refine ⟨_, ?_, .push probes r.2 hp' hq' hpush hprobes⟩
                simp [← this, hpr, h4.1, pushCmd]
              · subst h
                exact ⟨_, by simp [hpr, h4.1], .noRemote probes hp' hq' hpush hprobes⟩
            · rename_i hpush
              subst h
              exact ⟨_, by simp [h4.1], .noPush hp' hq' (by simpa using hpush)⟩

theorem commitPhase_shape (e : PlanEnv) (c : PlanCfg) (s : PState) :
    ∃ C, (commitPhase e c s).1.evs = C ++ s.evs ∧ CommitShape e c C (commitPhase e c s).2 :=
  commitPhase_shape' e c s _ rfl
theorem mem_addsRev {ev : Ev} {l : List Str} : ev ∈ addsRev l ↔ ∃ p ∈ l, ev = .add p := by
  simp [addsRev, eq_comm]

theorem mem_hookPre {ev : Ev} {e : PlanEnv} {c : PlanCfg} :
    ev ∈ hookPre e c ↔ ev = .preHook e.startVersion e.announced ∧ c.preHook = true := by
  unfold hookPre; split <;> simp_all

theorem mem_hookPost {ev : Ev} {e : PlanEnv} {c : PlanCfg} :
    ev ∈ hookPost e c ↔ ev = .postHook e.startVersion e.announced ∧ c.postHook = true := by
  unfold hookPost; split <;> simp_all

theorem mem_tagL {ev : Ev} {c : PlanCfg} : ev ∈ tagL c ↔ ev = tagCmd c ∧ c.tag = true := by
  unfold tagL; split <;> simp_all

theorem mem_uptoCommit {ev : Ev} {e : PlanEnv} {c : PlanCfg} :
    ev ∈ uptoCommit e c ↔ ev = .cmd "commit" ∨ (∃ p ∈ e.files, ev = .add p) ∨
      (ev = .preHook e.startVersion e.announced ∧ c.preHook = true) := by
  simp [uptoCommit, mem_addsRev, mem_hookPre]

theorem commit_mem_uptoCommit (e : PlanEnv) (c : PlanCfg) : Ev.cmd "commit" ∈ uptoCommit e c := by
  simp [uptoCommit]

/-- what an event logged by `commitPhase` can be -/
theorem CommitShape.mem {e : PlanEnv} {c : PlanCfg} {C : List Ev} {o : Outcome}
    (h : CommitShape e c C o) {ev : Ev} (hev : ev ∈ C) :
    (ev = .preHook e.startVersion e.announced ∧ c.preHook = true) ∨
    (∃ p ∈ e.files, ev = .add p) ∨ ev = .cmd "commit" ∨
    (ev = .postHook e.startVersion e.announced ∧ c.postHook = true ∧ Ev.cmd "commit" ∈ C) ∨
    (ev = tagCmd c ∧ c.tag = true ∧ Ev.cmd "commit" ∈ C) ∨
    (RemEv ev ∧ c.push = true ∧ Ev.cmd "commit" ∈ C) ∨
    (ev = pushCmd c ∧ c.push = true ∧ Ev.cmd "commit" ∈ C) := by
  have hcm := commit_mem_uptoCommit e c
  cases h with
  | preFail hp _ => simp_all
  | addFail l1 l2 _ hl =>
    simp only [List.mem_append, mem_addsRev, mem_hookPre] at hev
    rcases hev with ⟨p, hp, rfl⟩ | h
    · exact .inr (.inl ⟨p, by simp [hl, hp], rfl⟩)
    · exact .inl h
  | commitFail _ => simp only [mem_uptoCommit] at hev; grind
  | postFail _ hq _ =>
    simp only [List.mem_cons, mem_uptoCommit] at hev
    simp only [List.mem_cons, hcm, or_true, and_true]
    grind
  | tagFail _ _ ht =>
    simp only [List.mem_cons, List.mem_append, mem_uptoCommit, mem_hookPost] at hev
    simp only [List.mem_cons, List.mem_append, hcm, or_true, and_true]
    grind
  | noPush _ _ _ =>
    simp only [List.mem_append, mem_uptoCommit, mem_hookPost, mem_tagL] at hev
    simp only [List.mem_append, hcm, or_true, and_true]
    grind
  | noRemote probes _ _ hpush hpr =>
    simp only [List.mem_append, mem_uptoCommit, mem_hookPost, mem_tagL] at hev
    simp only [List.mem_append, hcm, or_true, and_true]
    have := hpr ev
    grind
  | push probes o _ _ hpush hpr =>
    simp only [List.mem_cons, List.mem_append, mem_uptoCommit, mem_hookPost, mem_tagL] at hev
    simp only [List.mem_cons, List.mem_append, hcm, or_true, and_true]
    have := hpr ev
    grind

/-- a successful commit phase staged every file, committed and (if enabled) tagged -/
theorem CommitShape.ok_complete {e : PlanEnv} {c : PlanCfg} {C : List Ev}
    (h : CommitShape e c C .ok) :
    (∀ p ∈ e.files, Ev.add p ∈ C) ∧ Ev.cmd "commit" ∈ C ∧ (c.tag = true → tagCmd c ∈ C) := by
  have hup : (∀ p ∈ e.files, Ev.add p ∈ uptoCommit e c) ∧ Ev.cmd "commit" ∈ uptoCommit e c :=
    ⟨fun p hp => mem_uptoCommit.2 (.inr (.inl ⟨p, hp, rfl⟩)), commit_mem_uptoCommit e c⟩
  cases h with
  | noPush _ _ _ => simp only [List.mem_append, mem_tagL]; grind
  | noRemote probes _ _ _ _ => simp only [List.mem_append, mem_tagL]; grind
  | push probes _ _ _ _ _ => simp only [List.mem_cons, List.mem_append, mem_tagL]; grind

theorem CommitShape.pre_fail {e : PlanEnv} {c : PlanCfg} {C : List Ev} {o : Outcome}
    (h : CommitShape e c C o) (hp : e.preOk = false) {x y : Str} (hm : Ev.preHook x y ∈ C) :
    C.head? = some (.preHook x y) ∧ o = .failed := by
  have hpre : c.preHook = true := by
    have := h.mem hm
    simp [tagCmd, pushCmd, RemEv] at this
    exact this.2
  cases h <;> simp_all

theorem CommitShape.post_fail {e : PlanEnv} {c : PlanCfg} {C : List Ev} {o : Outcome}
    (h : CommitShape e c C o) (hp : e.postOk = false) {x y : Str} (hm : Ev.postHook x y ∈ C) :
    C.head? = some (.postHook x y) ∧ o = .failed := by
  have hpost : c.postHook = true := by
    have := h.mem hm
    simp [tagCmd, pushCmd, RemEv] at this
    exact this.2.1
  cases h with
  | preFail _ _ => simp at hm
  | addFail l1 l2 _ _ => simp [mem_addsRev, mem_hookPre] at hm
  | commitFail _ => simp [mem_uptoCommit] at hm
  | postFail _ _ _ => simp [mem_uptoCommit] at hm; simp [hm]
  | tagFail _ hq _ => simp_all
  | noPush _ hq _ => simp_all
  | noRemote _ _ hq _ _ => simp_all
  | push _ _ _ hq _ _ => simp_all

/-- the possible traces and exit codes of `plan` once the options are accepted -/
inductive PlanShape (c : PlanCfg) (a : PlanCli) (e : PlanEnv) : List Ev → Nat → Prop
  | early (T : List Ev) (code : Nat) : (∀ ev ∈ T, TagEv a.fetch ev) → (code = 1 ∨ a.dry = true) →
      PlanShape c a e T code
  | dirty (T : List Ev) : (∀ ev ∈ T, TagEv a.fetch ev) → c.commit = true → a.dry = false →
      PlanShape c a e (T ++ [.cmd "is_usable", .cmd "status"]) 1
  | unusable (T U : List Ev) : (∀ ev ∈ T, TagEv a.fetch ev) → a.dry = false →
      (U = [] ∨ U = [.cmd "is_usable"]) → PlanShape c a e (T ++ U) 1
  | noVcs (T U : List Ev) : (∀ ev ∈ T, TagEv a.fetch ev) → a.dry = false →
      (U = [] ∨ U = [.cmd "is_usable"]) → PlanShape c a e (T ++ U ++ [.rewrite]) 0
  | commit (T C : List Ev) (o : Outcome) : (∀ ev ∈ T, TagEv a.fetch ev) → c.commit = true →
      a.dry = false → e.dirtyAbort = false → CommitShape e c C o →
      PlanShape c a e (T ++ [.cmd "is_usable", .cmd "status", .rewrite] ++ C.reverse)
        (if o = .ok then 0 else 1)

theorem TagEv.of_false {f : Bool} {ev : Ev} (h : TagEv false ev) : TagEv f ev := by
  simp only [TagEv] at h ⊢
  simp only [Bool.false_eq_true, false_and, or_false] at h
  rcases h with h | h | h <;> simp [h]

theorem plan_shape' (c0 c : PlanCfg) (a : PlanCli) (e : PlanEnv)
    (hc : parseVcsOptions c0 a = some c) (r : List Ev × Nat) (h : plan c0 a e = r) :
    PlanShape c a e r.1 r.2 := by
  unfold plan at h
  split at h
  · simp_all
  rename_i c' hc'
  obtain rfl : c' = c := by rw [hc] at hc'; exact (Option.some.inj hc').symm
  clear hc'
  extract_lets s0 at h
  split at h
  rename_i s1 o1 h1
  have e1 : EvExt (TagEv a.fetch) [] s1.evs := by
    split at h1
    · simp only [Prod.mk.injEq] at h1; rw [← h1.1]; exact .refl _
    · have := getTags_ext e a.fetch c'.scopeBranch s0
      rw [h1] at this; exact this
  clear h1
  have early1 : PlanShape c' a e s1.evs.reverse 1 :=
    .early _ _ (by obtain ⟨T, hT, hm⟩ := e1; simpa [hT] using hm) (.inl rfl)
  split at h
  · subst h; exact early1
  split at h
  · subst h; exact early1
  clear early1
  split at h
  rename_i s2 o2 h2
  have e2 : EvExt (TagEv a.fetch) [] s2.evs := by
    split at h2
    · have := (getTags_ext e false false s1).mono (Q := TagEv a.fetch) (fun _ => TagEv.of_false)
      rw [h2] at this; exact e1.trans this
    · simp only [Prod.mk.injEq] at h2; rw [← h2.1]; exact e1
  clear h2 e1
  obtain ⟨T, hT, hm⟩ := e2
  simp only [List.append_nil] at hT
  have hm' : ∀ ev ∈ T.reverse, TagEv a.fetch ev := by simpa using hm
  have early2 : ∀ code, (code = 1 ∨ a.dry = true) → PlanShape c' a e s2.evs.reverse code :=
    fun code hcode => hT ▸ .early _ _ hm' hcode
  split at h
  · subst h; exact early2 _ (.inl rfl)
  split at h
  · subst h; exact early2 _ (.inl rfl)
  split at h
  · rename_i hd; subst h; exact early2 _ (.inr hd)
  rename_i hd
  have hd : a.dry = false := by simpa using hd
  clear early2
  split at h
  rename_i s3 usable h3
  split at h
  rename_i s4 o4 h4
  cases usable
  · -- not usable: no status, no commit phase
    have hU : s3.evs.reverse = T.reverse ++ [] ∨ s3.evs.reverse = T.reverse ++ [.cmd "is_usable"] := by
      split at h3
      · rcases isUsable_shape e s2 with ⟨hu, _⟩ | hu <;> rw [h3] at hu <;> simp only at hu <;> simp [hu, hT]
      · simp only [Prod.mk.injEq] at h3; simp [← h3.1, hT]
    simp only [Bool.false_eq_true, if_false, Prod.mk.injEq] at h4
    obtain ⟨rfl, rfl⟩ := h4
    simp only [Bool.false_and, Bool.not_false, if_true, Bool.false_eq_true, if_false,
      show (Outcome.ok == Outcome.failed) = false from rfl] at h
    split at h
    · subst h
      rcases hU with hU | hU <;> rw [hU]
      · exact .unusable _ _ hm' hd (.inl rfl)
      · exact .unusable _ _ hm' hd (.inr rfl)
    · subst h
      simp only [List.reverse_cons]
      rcases hU with hU | hU <;> rw [hU]
      · exact .noVcs _ _ hm' hd (.inl rfl)
      · exact .noVcs _ _ hm' hd (.inr rfl)
  · have hcm : c'.commit = true ∧ s3.evs = .cmd "is_usable" :: T := by
      split at h3
      · rename_i hcm
        refine ⟨hcm, ?_⟩
        rcases isUsable_shape e s2 with ⟨_, hu⟩ | hu <;> rw [h3] at hu <;> simp only at hu
        · cases hu
        · rw [hu, hT]
      · simp only [Prod.mk.injEq] at h3; cases h3.2
    clear h3
    simp only [if_true] at h4
    have h4e : s4.evs.reverse = T.reverse ++ [.cmd "is_usable", .cmd "status"] := by
      have := congrArg (fun r => r.1.evs) h4
      simp only [vcsCall_evs] at this
      simp [← this, hcm.2]
    have hdirty : PlanShape c' a e s4.evs.reverse 1 := h4e ▸ .dirty _ hm' hcm.1 hd
    split at h
    · subst h; exact hdirty
    split at h
    · subst h; exact hdirty
    rename_i hda
    have hda : e.dirtyAbort = false := by simpa using hda
    split at h
    · subst h; exact hdirty
    extract_lets s5 at h
    simp only [Bool.not_true, Bool.false_eq_true, if_false] at h
    obtain ⟨C, hC, hsh⟩ := commitPhase_shape e c' s5
    generalize commitPhase e c' s5 = r6 at *
    obtain ⟨s6, o6⟩ := r6
    simp only at hC hsh h
    subst h
    have : s6.evs.reverse = T.reverse ++ [.cmd "is_usable", .cmd "status", .rewrite] ++ C.reverse := by
      simp [hC, s5, h4e]
    simp only [this]
    have hcode : (if (o6 == Outcome.ok) = true then 0 else 1) = (if o6 = .ok then 0 else 1) := by
      cases o6 <;> rfl
    rw [hcode]
    exact .commit _ _ _ hm' hcm.1 hd hda hsh

theorem plan_shape (c0 c : PlanCfg) (a : PlanCli) (e : PlanEnv)
    (hc : parseVcsOptions c0 a = some c) : PlanShape c a e (plan c0 a e).1 (plan c0 a e).2 :=
  plan_shape' c0 c a e hc _ rfl

/-- where an event of the trace comes from -/
theorem PlanShape.mem {c : PlanCfg} {a : PlanCli} {e : PlanEnv} {tr : List Ev} {code : Nat}
    (sh : PlanShape c a e tr code) {ev : Ev} (hev : ev ∈ tr) :
    TagEv a.fetch ev ∨ (a.dry = false ∧
      ((c.commit = true ∧ ev = .cmd "status") ∨ ev = .rewrite ∨
       (c.commit = true ∧ e.dirtyAbort = false ∧ Ev.cmd "status" ∈ tr ∧ Ev.rewrite ∈ tr ∧
         ∃ C o, CommitShape e c C o ∧ ev ∈ C ∧ (∀ x ∈ C, x ∈ tr) ∧
           (code = if o = .ok then 0 else 1) ∧
           (∀ x, C.head? = some x → tr.getLast? = some x)))) := by
  have hu : TagEv a.fetch (.cmd "is_usable") := .inl rfl
  cases sh with
  | early T code hT _ => exact .inl (hT ev hev)
  | dirty T hT hc hd =>
    simp only [List.mem_append, List.mem_cons, List.not_mem_nil, or_false] at hev
    rcases hev with h | rfl | rfl
    · exact .inl (hT ev h)
    · exact .inl hu
    · exact .inr ⟨hd, .inl ⟨hc, rfl⟩⟩
  | unusable T U hT hd hU =>
    rcases hU with rfl | rfl <;>
      simp only [List.mem_append, List.mem_cons, List.not_mem_nil, or_false] at hev
    · exact .inl (hT ev hev)
    · rcases hev with h | rfl
      · exact .inl (hT ev h)
      · exact .inl hu
  | noVcs T U hT hd hU =>
    rcases hU with rfl | rfl <;>
      simp only [List.mem_append, List.mem_cons, List.not_mem_nil, or_false] at hev
    · rcases hev with h | rfl
      · exact .inl (hT ev h)
      · exact .inr ⟨hd, .inr (.inl rfl)⟩
    · rcases hev with (h | rfl) | rfl
      · exact .inl (hT ev h)
      · exact .inl hu
      · exact .inr ⟨hd, .inr (.inl rfl)⟩
  | commit T C o hT hc hd hda hsh =>
    simp only [List.mem_append, List.mem_cons, List.not_mem_nil, or_false, List.mem_reverse] at hev
    rcases hev with (h | rfl | rfl | rfl) | h
    · exact .inl (hT ev h)
    · exact .inl hu
    · exact .inr ⟨hd, .inl ⟨hc, rfl⟩⟩
    · exact .inr ⟨hd, .inr (.inl rfl)⟩
    · refine .inr ⟨hd, .inr (.inr ⟨hc, hda, by simp, by simp, C, o, hsh, h, by simp +contextual,
        rfl, ?_⟩)⟩
      intro x hx
      cases C with
      | nil => simp at hx
      | cons y C' =>
        simp only [List.head?_cons, Option.some.injEq] at hx
        subst hx
        simp only [List.reverse_cons, ← List.append_assoc]
        rw [List.getLast?_append]; simp

/-- when the dirty check aborts, the run ends right after `status` -/
theorem PlanShape.dirty_stop {c : PlanCfg} {a : PlanCli} {e : PlanEnv} {tr : List Ev} {code : Nat}
    (sh : PlanShape c a e tr code) (hd : e.dirtyAbort = true) (hs : Ev.cmd "status" ∈ tr) :
    code = 1 ∧ ∀ ev ∈ tr, TagEv a.fetch ev ∨ ev = .cmd "status" := by
  have hne : ∀ T : List Ev, (∀ ev ∈ T, TagEv a.fetch ev) → Ev.cmd "status" ∉ T := by
    intro T hT h
    have := hT _ h
    simp [TagEv] at this
  cases sh with
  | early _ _ hT _ => exact absurd hs (hne _ hT)
  | dirty T hT _ _ =>
    refine ⟨rfl, fun ev hev => ?_⟩
    simp only [List.mem_append, List.mem_cons, List.not_mem_nil, or_false] at hev
    rcases hev with h | rfl | rfl
    · exact .inl (hT ev h)
    · exact .inl (.inl rfl)
    · exact .inr rfl
  | unusable T U hT _ hU =>
    rcases hU with rfl | rfl <;> simp at hs <;> exact absurd hs (hne T hT)
  | noVcs T U hT _ hU =>
    rcases hU with rfl | rfl <;> simp at hs <;> exact absurd hs (hne T hT)
  | commit T C o _ _ _ hda _ => simp [hd] at hda

/-! ### order of the steps -/

/-- position of an event in the documented step order (copy of `Ev.rank` in Props/C10) -/
def Ev.rk : Ev → Option Nat
  | .cmd n =>
    if n == "status" then some 0 else if n == "commit" then some 4
    else if n == "tag" || n == "tag_light" then some 6
    else if n == "push" || n == "push_tag" then some 7 else none
  | .rewrite => some 1
  | .preHook _ _ => some 2
  | .add _ => some 3
  | .postHook _ _ => some 5

/-- the ranks of `l` (most recent first) are decreasing and lie in `[lo, hi]` -/
def Rk (lo hi : Nat) (l : List Ev) : Prop :=
  (l.filterMap Ev.rk).Pairwise (· ≥ ·) ∧ ∀ x ∈ l.filterMap Ev.rk, lo ≤ x ∧ x ≤ hi

theorem Rk.append {lo m m' hi : Nat} {A B : List Ev} (hA : Rk m hi A) (hB : Rk lo m' B)
    (h1 : lo ≤ m') (h2 : m' ≤ m) (h3 : m ≤ hi) : Rk lo hi (A ++ B) := by
  obtain ⟨pA, bA⟩ := hA
  obtain ⟨pB, bB⟩ := hB
  refine ⟨?_, ?_⟩
  · rw [List.filterMap_append, List.pairwise_append]
    refine ⟨pA, pB, fun x hx y hy => ?_⟩
    have := bA x hx; have := bB y hy
    show y ≤ x
    omega
  · intro x hx
    rw [List.filterMap_append, List.mem_append] at hx
    rcases hx with hx | hx
    · have := bA x hx; omega
    · have := bB x hx; omega

theorem Rk.of_none {lo hi : Nat} {l : List Ev} (h : ∀ ev ∈ l, ev.rk = none) : Rk lo hi l := by
  have : l.filterMap Ev.rk = [] := List.filterMap_eq_nil_iff.2 h
  simp [Rk, this]

theorem Rk.single {ev : Ev} {r : Nat} (h : ev.rk = some r) : Rk r r [ev] := by
  simp [Rk, h]

theorem Rk.mono {lo hi lo' hi' : Nat} {l : List Ev} (h : Rk lo hi l) (h1 : lo' ≤ lo)
    (h2 : hi ≤ hi') : Rk lo' hi' l :=
  ⟨h.1, fun x hx => by have := h.2 x hx; omega⟩

theorem Rk.cons {lo m hi r : Nat} {ev : Ev} {B : List Ev} (h : ev.rk = some r) (hB : Rk lo m B)
    (h1 : lo ≤ m) (h2 : m ≤ r) (h3 : r ≤ hi) : Rk lo hi (ev :: B) :=
  (Rk.append (Rk.single h) hB h1 h2 (Nat.le_refl r)).mono (Nat.le_refl lo) h3

theorem Rk.cons_none {lo hi : Nat} {ev : Ev} {B : List Ev} (h : ev.rk = none) (hB : Rk lo hi B) :
    Rk lo hi (ev :: B) := by
  simpa [Rk, h] using hB

theorem rk_hookPre (e : PlanEnv) (c : PlanCfg) : Rk 2 2 (hookPre e c) := by
  unfold hookPre; split <;> simp [Rk, Ev.rk]
theorem rk_hookPost (e : PlanEnv) (c : PlanCfg) : Rk 5 5 (hookPost e c) := by
  unfold hookPost; split <;> simp [Rk, Ev.rk]
theorem rk_tagCmd (c : PlanCfg) : (tagCmd c).rk = some 6 := by
  unfold tagCmd; split <;> simp [Ev.rk]
theorem rk_pushCmd (c : PlanCfg) : (pushCmd c).rk = some 7 := by
  unfold pushCmd; split <;> simp [Ev.rk]
theorem rk_tagL (c : PlanCfg) : Rk 6 6 (tagL c) := by
  unfold tagL; split
  · exact Rk.single (rk_tagCmd c)
  · simp [Rk]
theorem rk_addsRev (l : List Str) : Rk 3 3 (addsRev l) := by
  induction l with
  | nil => simp [Rk, addsRev]
  | cons p ps ih =>
    have : addsRev (p :: ps) = addsRev ps ++ [.add p] := by simp [addsRev]
    rw [this]
    exact Rk.append (m := 3) (m' := 3) ih (Rk.single (by simp [Ev.rk])) (by omega) (by omega)
      (by omega)
theorem rk_uptoCommit (e : PlanEnv) (c : PlanCfg) : Rk 2 4 (uptoCommit e c) :=
  Rk.cons (lo := 2) (m := 3) (r := 4) (hi := 4) (by simp [Ev.rk])
    (Rk.append (m := 3) (m' := 2) (rk_addsRev e.files) (rk_hookPre e c) (by omega) (by omega)
      (by omega))
    (by omega) (by omega) (by omega)
theorem rk_probes {lo hi : Nat} {l : List Ev} (h : ∀ ev ∈ l, RemEv ev) : Rk lo hi l :=
  Rk.of_none fun ev hev => by rcases h ev hev with rfl | rfl <;> simp [Ev.rk]
theorem rk_tagEvs {lo hi : Nat} {f : Bool} {l : List Ev} (h : ∀ ev ∈ l, TagEv f ev) : Rk lo hi l :=
  Rk.of_none fun ev hev => by
    rcases h ev hev with rfl | rfl | rfl | ⟨-, rfl | rfl | rfl⟩ <;> simp [Ev.rk]

theorem CommitShape.rk {e : PlanEnv} {c : PlanCfg} {C : List Ev} {o : Outcome}
    (h : CommitShape e c C o) : Rk 2 7 C := by
  have hup := rk_uptoCommit e c
  have hpo : Rk 2 5 (hookPost e c ++ uptoCommit e c) :=
    Rk.append (m := 5) (m' := 4) (rk_hookPost e c) hup (by omega) (by omega) (by omega)
  have htl : Rk 2 6 (tagL c ++ hookPost e c ++ uptoCommit e c) := by
    rw [List.append_assoc]
    exact Rk.append (m := 6) (m' := 5) (rk_tagL c) hpo (by omega) (by omega) (by omega)
  cases h with
  | preFail _ _ => exact (Rk.single (r := 2) (by simp [Ev.rk])).mono (by omega) (by omega)
  | addFail l1 l2 _ _ =>
    exact (Rk.append (m := 3) (m' := 2) (rk_addsRev l1) (rk_hookPre e c) (by omega) (by omega)
      (by omega)).mono (by omega) (by omega)
  | commitFail _ => exact hup.mono (by omega) (by omega)
  | postFail _ _ _ =>
    exact Rk.cons (m := 4) (r := 5) (by simp [Ev.rk]) hup (by omega) (by omega) (by omega)
  | tagFail _ _ _ => exact Rk.cons (m := 5) (rk_tagCmd c) hpo (by omega) (by omega) (by omega)
  | noPush _ _ _ => exact htl.mono (by omega) (by omega)
  | noRemote probes _ _ _ hpr =>
    rw [List.append_assoc, List.append_assoc, ← List.append_assoc (tagL c)]
    exact Rk.append (m := 6) (m' := 6) (rk_probes hpr) htl (by omega) (by omega) (by omega)
  | push probes o _ _ _ hpr =>
    rw [List.append_assoc, List.append_assoc, ← List.append_assoc (tagL c)]
    exact Rk.cons (m := 6) (rk_pushCmd c)
      (Rk.append (m := 6) (m' := 6) (hi := 6) (rk_probes hpr) htl (by omega) (by omega) (by omega))
      (by omega) (by omega) (by omega)

theorem PlanShape.rk {c : PlanCfg} {a : PlanCli} {e : PlanEnv} {tr : List Ev} {code : Nat}
    (sh : PlanShape c a e tr code) : Rk 0 7 tr.reverse := by
  have hT : ∀ {T : List Ev} {lo hi : Nat}, (∀ ev ∈ T, TagEv a.fetch ev) → Rk lo hi T.reverse :=
    fun h => rk_tagEvs (f := a.fetch) (by simpa using h)
  have hu : (Ev.cmd "is_usable").rk = none := by simp [Ev.rk]
  have hst : ∀ {T : List Ev}, (∀ ev ∈ T, TagEv a.fetch ev) →
      Rk 0 0 (.cmd "status" :: .cmd "is_usable" :: T.reverse) := fun h =>
    Rk.cons (m := 0) (r := 0) (by simp [Ev.rk]) (Rk.cons_none hu (hT h)) (by omega) (by omega)
      (by omega)
  cases sh with
  | early _ _ h _ => exact hT h
  | dirty T h _ _ =>
    simp only [List.reverse_append, List.reverse_cons, List.reverse_nil, List.nil_append,
      List.cons_append]
    exact (hst h).mono (by omega) (by omega)
  | unusable T U h _ hU =>
    rcases hU with rfl | rfl
    · simpa using hT h
    · simpa using Rk.cons_none hu (hT h)
  | noVcs T U h _ hU =>
    rcases hU with rfl | rfl
    · simpa using Rk.cons (lo := 0) (m := 0) (r := 1) (hi := 7) (ev := .rewrite) (by simp [Ev.rk])
        (hT h) (by omega) (by omega) (by omega)
    · simpa using Rk.cons (lo := 0) (m := 0) (r := 1) (hi := 7) (ev := .rewrite) (by simp [Ev.rk])
        (Rk.cons_none hu (hT h)) (by omega) (by omega) (by omega)
  | commit T C o h _ _ _ hsh =>
    simp only [List.reverse_append, List.reverse_cons, List.reverse_nil, List.nil_append,
      List.cons_append, List.reverse_reverse]
    exact Rk.append (m := 2) (m' := 1) hsh.rk
      (Rk.cons (m := 0) (r := 1) (ev := .rewrite) (by simp [Ev.rk]) (hst h) (by omega) (by omega)
        (by omega)) (by omega) (by omega) (by omega)


/-! ### stop at the first failure -/

/-- VCS invocations (copy of `Ev.isVcs` in Props/C10) -/
def Ev.vcs : Ev → Bool
  | .cmd _ => true
  | .add _ => true
  | _ => false

/-- probes whose failure is swallowed (copy of `Ev.swallowed` in Props/C10) -/
def Ev.swal : Ev → Bool
  | .cmd n => n == "is_usable" || n == "ls_branches" || n == "show_remotes"
  | _ => false

def cnt (l : List Ev) : Nat := (l.filter Ev.vcs).length

/-- in the log `l` (most recent first) every VCS invocation whose index is `f` is a swallowed
    probe -/
def okRev (f : Option Nat) : List Ev → Prop
  | [] => True
  | ev :: rest => okRev f rest ∧ (ev.vcs = true → f = some (cnt rest) → ev.swal = true)

/-- the counter is the number of VCS invocations and no non-swallowed one has failed -/
def Inv (e : PlanEnv) (s : PState) : Prop := s.n = cnt s.evs ∧ okRev e.failAt s.evs
/-- everything before the most recent event is fine -/
def Pre (e : PlanEnv) (s : PState) : Prop := okRev e.failAt s.evs.tail
def Post (e : PlanEnv) (r : PState × Outcome) : Prop :=
  (r.2 = .ok → Inv e r.1) ∧ (r.2 = .failed → Pre e r.1)

theorem okRev.tail {f : Option Nat} {l : List Ev} (h : okRev f l) : okRev f l.tail := by
  cases l with
  | nil => exact h
  | cons x l => exact h.1

theorem Inv.pre {e : PlanEnv} {s : PState} (h : Inv e s) : Pre e s := h.2.tail

theorem Post.of_inv {e : PlanEnv} {s : PState} {o : Outcome} (h : Inv e s) : Post e (s, o) :=
  ⟨fun _ => h, fun _ => h.pre⟩

theorem Post.of_pre {e : PlanEnv} {s : PState} (h : Pre e s) : Post e (s, .failed) :=
  ⟨fun h' => Outcome.noConfusion h', fun _ => h⟩

theorem cnt_cons (ev : Ev) (l : List Ev) : cnt (ev :: l) = cnt l + (if ev.vcs then 1 else 0) := by
  unfold cnt; cases h : ev.vcs <;> simp [h]

theorem vcsCall_post {e : PlanEnv} {ev : Ev} {s : PState} (hv : ev.vcs = true) (h : Inv e s) :
    Post e (vcsCall e ev s) := by
  refine ⟨fun ho => ⟨?_, h.2, fun _ hf => ?_⟩, fun _ => h.2⟩
  · simp [vcsCall, cnt_cons, hv, h.1]
  · simp only [vcsCall] at ho
    rw [← h.1] at hf
    simp [hf] at ho

theorem vcsCall_inv_swal {e : PlanEnv} {ev : Ev} {s : PState} (hv : ev.vcs = true)
    (hs : ev.swal = true) (h : Inv e s) : Inv e (vcsCall e ev s).1 :=
  ⟨by simp [vcsCall, cnt_cons, hv, h.1], h.2, fun _ _ => hs⟩

theorem push_inv {e : PlanEnv} {ev : Ev} {s : PState} (hv : ev.vcs = false) (h : Inv e s) :
    Inv e { evs := ev :: s.evs, n := s.n } :=
  ⟨by simp [cnt_cons, hv, h.1], h.2, fun h' => by simp [hv] at h'⟩

theorem isUsable_inv {e : PlanEnv} {s : PState} (h : Inv e s) : Inv e (isUsable e s).1 := by
  unfold isUsable
  split
  · exact h
  · exact vcsCall_inv_swal rfl rfl h

theorem getRemote_inv {e : PlanEnv} {s : PState} (h : Inv e s) : Inv e (getRemote e s).1 := by
  have h1 := vcsCall_inv_swal (e := e) (ev := .cmd "ls_branches") rfl rfl h
  unfold getRemote
  split
  · simp only []
    split
    · exact h1
    · split
      · exact h1
      · exact vcsCall_inv_swal rfl rfl h1
  · exact vcsCall_inv_swal rfl rfl h

theorem getTags_post {e : PlanEnv} {f b : Bool} {s : PState} (h : Inv e s) :
    Post e (getTags e f b s) := by
  unfold getTags
  have h1 := isUsable_inv h
  generalize isUsable e s = r at *
  obtain ⟨s1, u⟩ := r
  simp only at h1 ⊢
  split
  · exact .of_inv h1
  · cases f
    · exact vcsCall_post rfl h1
    · have h2 := getRemote_inv h1
      generalize getRemote e s1 = r at *
      obtain ⟨sa, rem⟩ := r
      simp only at h2
      cases rem
      · exact vcsCall_post rfl h2
      · simp only [if_true]
        have h3 := vcsCall_post (ev := .cmd "fetch") rfl h2
        generalize vcsCall e (.cmd "fetch") sa = r at *
        obtain ⟨sb, o⟩ := r
        cases o
        · exact vcsCall_post rfl (h3.1 rfl)
        · exact .of_pre (h3.2 rfl)

theorem addAll_post {e : PlanEnv} {l : List Str} {s : PState} (h : Inv e s) :
    Post e (addAll e l s) := by
  induction l generalizing s with
  | nil => exact .of_inv h
  | cons p ps ih =>
    unfold addAll
    have h1 := vcsCall_post (ev := .add p) rfl h
    generalize vcsCall e (.add p) s = r at *
    obtain ⟨s1, o⟩ := r
    cases o
    · exact ih (h1.1 rfl)
    · exact .of_pre (h1.2 rfl)

theorem Outcome.failed_of_beq {o : Outcome} (h : (o == Outcome.failed) = true) : o = .failed := by
  cases o <;> simp_all

theorem commitPhase_post' {e : PlanEnv} {c : PlanCfg} {s : PState} (hI : Inv e s)
    (r : PState × Outcome) (h : commitPhase e c s = r) : Post e r := by
  unfold commitPhase at h
  extract_lets s0 at h
  have h0 : Inv e s0 := by
    simp only [s0]; split
    · exact push_inv rfl hI
    · exact hI
  clear_value s0
  split at h
  · subst h; exact .of_pre h0.pre
  split at h
  rename_i s1 o1 hadd
  have h1 := addAll_post (l := e.files) h0
  rw [hadd] at h1
  split at h
  · rename_i ho; subst h; exact .of_pre (h1.2 (Outcome.failed_of_beq ho))
  rename_i ho
  replace h1 := h1.1 (Outcome.ok_of_not_failed ho)
  split at h
  rename_i s2 o2 hcm
  have h2 := vcsCall_post (ev := .cmd "commit") rfl h1
  rw [hcm] at h2
  split at h
  · rename_i ho; subst h; exact .of_pre (h2.2 (Outcome.failed_of_beq ho))
  rename_i ho
  replace h2 := h2.1 (Outcome.ok_of_not_failed ho)
  extract_lets s3 at h
  have h3 : Inv e s3 := by
    simp only [s3]; split
    · exact push_inv rfl h2
    · exact h2
  clear_value s3
  split at h
  · subst h; exact .of_pre h3.pre
  split at h
  rename_i s4 o4 htag
  have h4 : Post e (s4, o4) := by
    split at htag
    · rw [← htag]; exact vcsCall_post rfl h3
    · rw [← htag]; exact .of_inv h3
  split at h
  · rename_i ho; subst h; exact .of_pre (h4.2 (Outcome.failed_of_beq ho))
  rename_i ho
  replace h4 := h4.1 (Outcome.ok_of_not_failed ho)
  split at h
  · split at h
    rename_i s5 rem hrem
    have h5 := getRemote_inv h4
    rw [hrem] at h5
    split at h
    · rw [← h]; exact vcsCall_post rfl h5
    · subst h; exact .of_inv h5
  · subst h; exact .of_inv h4

theorem commitPhase_post {e : PlanEnv} {c : PlanCfg} {s : PState} (hI : Inv e s) :
    Post e (commitPhase e c s) := commitPhase_post' hI _ rfl

/-- either the whole trace is fine, or everything before its last event is and the exit code
    is 1 -/
def PlanPost (e : PlanEnv) (r : List Ev × Nat) : Prop :=
  okRev e.failAt r.1.reverse ∨ (okRev e.failAt r.1.reverse.tail ∧ r.2 = 1)

theorem PlanPost.of_pre {e : PlanEnv} {s : PState} (h : Pre e s) :
    PlanPost e (s.evs.reverse, 1) := .inr ⟨by simpa [Pre] using h, rfl⟩
theorem PlanPost.of_inv {e : PlanEnv} {s : PState} {code : Nat} (h : Inv e s) :
    PlanPost e (s.evs.reverse, code) := .inl (by simpa using h.2)

theorem plan_post' (c0 : PlanCfg) (a : PlanCli) (e : PlanEnv) (r : List Ev × Nat)
    (h : plan c0 a e = r) : PlanPost e r := by
  unfold plan at h
  split at h
  · subst h; exact .inl (by simp [okRev])
  rename_i c hc
  extract_lets s0 at h
  have hI0 : Inv e s0 := ⟨rfl, trivial⟩
  clear_value s0
  split at h
  rename_i s1 o1 h1
  have p1 : Post e (s1, o1) := by
    split at h1
    · rw [← h1]; exact .of_inv hI0
    · rw [← h1]; exact getTags_post hI0
  clear h1
  split at h
  · rename_i ho; subst h; exact .of_pre (p1.2 (Outcome.failed_of_beq ho))
  rename_i ho
  replace p1 := p1.1 (Outcome.ok_of_not_failed ho)
  split at h
  · subst h; exact .of_inv p1
  split at h
  rename_i s2 o2 h2
  have p2 : Post e (s2, o2) := by
    split at h2
    · rw [← h2]; exact getTags_post p1
    · rw [← h2]; exact .of_inv p1
  clear h2
  split at h
  · rename_i ho; subst h; exact .of_pre (p2.2 (Outcome.failed_of_beq ho))
  rename_i ho
  replace p2 := p2.1 (Outcome.ok_of_not_failed ho)
  split at h
  · subst h; exact .of_inv p2
  split at h
  · subst h; exact .of_inv p2
  split at h
  rename_i s3 usable h3
  have p3 : Inv e s3 := by
    split at h3
    · have := isUsable_inv p2; rw [h3] at this; exact this
    · simp only [Prod.mk.injEq] at h3; rw [← h3.1]; exact p2
  clear h3
  split at h
  rename_i s4 o4 h4
  have p4 : Post e (s4, o4) := by
    split at h4
    · rw [← h4]; exact vcsCall_post rfl p3
    · rw [← h4]; exact .of_inv p3
  clear h4
  split at h
  · rename_i ho; subst h; exact .of_pre (p4.2 (Outcome.failed_of_beq ho))
  rename_i ho
  replace p4 := p4.1 (Outcome.ok_of_not_failed ho)
  split at h
  · subst h; exact .of_inv p4
  split at h
  · subst h; exact .of_inv p4
  extract_lets s5 at h
  have p5 : Inv e s5 := push_inv rfl p4
  clear_value s5
  split at h
  · subst h; exact .of_inv p5
  split at h
  rename_i s6 o6 h6
  have p6 := commitPhase_post (c := c) p5
  rw [h6] at p6
  subst h
  cases o6
  · exact .of_inv (p6.1 rfl)
  · exact .of_pre (p6.2 rfl)

theorem plan_post (c0 : PlanCfg) (a : PlanCli) (e : PlanEnv) : PlanPost e (plan c0 a e) :=
  plan_post' c0 a e _ rfl

theorem cnt_eq_rev (l : List Ev) : (l.reverse.filter Ev.vcs).length = cnt l := by
  simp [cnt, List.filter_reverse]

theorem okRev_get {f : Option Nat} {k : Nat} (hk : f = some k) {l : List Ev} (h : okRev f l)
    {ev : Ev} (hev : (l.reverse.filter Ev.vcs)[k]? = some ev) : ev.swal = true := by
  induction l with
  | nil => simp at hev
  | cons x l ih =>
    simp only [List.reverse_cons, List.filter_append] at hev
    have hlen := cnt_eq_rev l
    by_cases hlt : k < cnt l
    · rw [List.getElem?_append_left (by omega)] at hev
      exact ih h.1 hev
    · rw [List.getElem?_append_right (by omega)] at hev
      cases hx : x.vcs
      · simp [hx] at hev
      · simp only [hx, List.filter_cons, if_true, List.filter_nil] at hev
        obtain ⟨hi, hxe⟩ := List.getElem?_eq_some_iff.1 hev
        rw [List.getElem_singleton] at hxe
        have hk' : k = cnt l := by
          simp only [List.length_cons, List.length_nil] at hi
          omega
        subst hxe
        exact h.2 hx (hk' ▸ hk)

theorem stop_core {f : Option Nat} {k : Nat} (hk : f = some k) {tr : List Ev} {code : Nat}
    (h : okRev f tr.reverse ∨ (okRev f tr.reverse.tail ∧ code = 1)) {ev : Ev}
    (hev : (tr.filter Ev.vcs)[k]? = some ev) (hns : ev.swal = false) :
    tr.getLast? = some ev ∧ code = 1 := by
  rcases h with h | ⟨h, hcode⟩
  · have := okRev_get hk h (by simpa using hev)
    simp [hns] at this
  · refine ⟨?_, hcode⟩
    rcases List.eq_nil_or_concat tr with rfl | ⟨L, x, rfl⟩
    · simp at hev
    · simp only [List.concat_eq_append, List.reverse_append, List.reverse_cons, List.reverse_nil,
        List.nil_append, List.cons_append, List.tail_cons] at h
      simp only [List.concat_eq_append, List.filter_append] at hev
      have hlen : (L.filter Ev.vcs).length = cnt L.reverse := by
        simp [cnt, List.filter_reverse]
      by_cases hlt : k < cnt L.reverse
      · rw [List.getElem?_append_left (by omega)] at hev
        have := okRev_get hk h (by simpa using hev)
        simp [hns] at this
      · rw [List.getElem?_append_right (by omega)] at hev
        cases hx : x.vcs
        · simp [hx] at hev
        · simp only [hx, List.filter_cons, if_true, List.filter_nil] at hev
          obtain ⟨hi, hxe⟩ := List.getElem?_eq_some_iff.1 hev
          rw [List.getElem_singleton] at hxe
          subst hxe
          simp

end BV
