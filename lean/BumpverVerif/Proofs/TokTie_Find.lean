/-
  Proofs/TokTie_Find.lean — `findIdx` (`str.find`) and `findAllFrom` (the `while True: pattern.find(name, end)`
  loop of `_iter_part_patterns`): soundness, strict monotonicity, and completeness for occurrences that no
  earlier occurrence overlaps.
-/
import BumpverVerif.Proofs.PatternLemmas
namespace BV

theorem findIdx_some_min {t s : Str} {i : Nat} (h : findIdx t s = some i) :
    ∀ j, j < i → t.isPrefixOf (s.drop j) = false := by
  induction s generalizing i with
  | nil =>
    simp only [findIdx] at h
    split at h
    · cases h; intro j hj; omega
    · cases h
  | cons x xs ih =>
    simp only [findIdx] at h
    split at h
    · cases h; intro j hj; omega
    · rename_i hp
      cases hf : findIdx t xs with
      | none => simp [hf] at h
      | some k =>
        simp only [hf, Option.map_some, Option.some.injEq] at h
        subst h
        intro j hj
        cases j with
        | zero => simpa using (Bool.not_eq_true _).mp hp
        | succ j' => simpa using ih hf j' (by omega)

theorem findIdx_none_all {t s : Str} (h : findIdx t s = none) : ∀ j, t.isPrefixOf (s.drop j) = false := by
  induction s with
  | nil =>
    simp only [findIdx] at h
    split at h
    · cases h
    · rename_i he
      intro j
      cases t with
      | nil => simp at he
      | cons c r => simp
  | cons x xs ih =>
    simp only [findIdx] at h
    split at h
    · cases h
    · rename_i hp
      cases hf : findIdx t xs with
      | some k => simp [hf] at h
      | none =>
        intro j
        cases j with
        | zero => simpa using (Bool.not_eq_true _).mp hp
        | succ j' => simpa using ih hf j'

theorem prefix_drop_lt {t s : Str} {j : Nat} (ht : t ≠ []) (h : t.isPrefixOf (s.drop j) = true) :
    j + t.length ≤ s.length := by
  have := isPrefixOf_length_le h
  simp only [List.length_drop] at this
  have h0 : 0 < t.length := List.length_pos_iff.mpr ht
  omega

theorem findAllFrom_sound (name : Str) (fuel off : Nat) (s : Str) :
    ∀ i ∈ findAllFrom name fuel off s, off ≤ i ∧ name.isPrefixOf (s.drop (i - off)) = true := by
  induction fuel generalizing off s with
  | zero => intro i hi; simp [findAllFrom] at hi
  | succ f ih =>
    intro i hi
    simp only [findAllFrom] at hi
    cases hf : findIdx name s with
    | none => simp [hf] at hi
    | some k =>
      simp only [hf] at hi
      split at hi
      · cases hi
      · rcases List.mem_cons.mp hi with e | e
        · subst e
          refine ⟨by omega, ?_⟩
          have : off + k - off = k := by omega
          rw [this]
          exact findIdx_some_prefix hf
        · obtain ⟨h1, h2⟩ := ih _ _ i e
          refine ⟨by omega, ?_⟩
          rw [List.drop_drop] at h2
          have : k + name.length + (i - (off + k + name.length)) = i - off := by omega
          rw [this] at h2
          exact h2

theorem findAllFrom_lb (name : Str) (fuel off : Nat) (s : Str) :
    ∀ i ∈ findAllFrom name fuel off s, off ≤ i := fun i hi => (findAllFrom_sound name fuel off s i hi).1

theorem findAllFrom_increasing (name : Str) (fuel off : Nat) (s : Str) :
    (findAllFrom name fuel off s).Pairwise (· < ·) := by
  induction fuel generalizing off s with
  | zero => simp [findAllFrom]
  | succ f ih =>
    simp only [findAllFrom]
    cases hf : findIdx name s with
    | none => simp
    | some k =>
      simp only
      split
      · simp
      · rename_i hne
        refine List.pairwise_cons.mpr ⟨fun j hj => ?_, ih _ _⟩
        have := findAllFrom_lb _ _ _ _ j hj
        have h0 : 0 < name.length := by
          cases name with
          | nil => simp at hne
          | cons _ _ => simp
        omega

theorem findAllFrom_nodup (name : Str) (fuel off : Nat) (s : Str) : (findAllFrom name fuel off s).Nodup :=
  (findAllFrom_increasing name fuel off s).imp (fun h => Nat.ne_of_lt h)

/-- an occurrence at `j` that no earlier occurrence overlaps is found -/
theorem findAllFrom_complete (name : Str) (hne : name ≠ []) (fuel off : Nat) (s : Str) (j : Nat)
    (hf : s.length < fuel) (hj : name.isPrefixOf (s.drop j) = true)
    (hov : ∀ j', j' < j → name.isPrefixOf (s.drop j') = true → j' + name.length ≤ j) :
    off + j ∈ findAllFrom name fuel off s := by
  induction fuel generalizing off s j with
  | zero => omega
  | succ f ih =>
    simp only [findAllFrom]
    have hemp : name.isEmpty = false := by cases name <;> simp_all
    cases hk : findIdx name s with
    | none => rw [findIdx_none_all hk j] at hj; cases hj
    | some k =>
      simp only [hemp, Bool.false_eq_true, if_false]
      have hkp := findIdx_some_prefix hk
      have hkj : k ≤ j := by
        apply Classical.byContradiction
        intro hlt
        have := findIdx_some_min hk j (by omega)
        rw [this] at hj; cases hj
      by_cases e : k = j
      · subst e; simp
      · have hlt : k < j := by omega
        have h1 := hov k hlt hkp
        have hlen := prefix_drop_lt hne hkp
        have h0 : 0 < name.length := List.length_pos_iff.mpr hne
        apply List.mem_cons_of_mem
        have := ih (off + k + name.length) (s.drop (k + name.length)) (j - (k + name.length))
          (by simp only [List.length_drop]; omega)
          (by rw [List.drop_drop]
              have : k + name.length + (j - (k + name.length)) = j := by omega
              rw [this]; exact hj)
          (by intro j' hj' hp
              rw [List.drop_drop] at hp
              have := hov (k + name.length + j') (by omega) hp
              omega)
        have e2 : off + k + name.length + (j - (k + name.length)) = off + j := by omega
        rw [e2] at this
        exact this

end BV
