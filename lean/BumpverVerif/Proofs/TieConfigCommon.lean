/-
  Proofs/TieConfigCommon.lean — lemmas shared by the ties of the `config` group (namespace `BV.TieH`,
  so that generic names such as `lookup_setOpt_ne` cannot clash with other groups' helper files)
  (Proofs/Tie_parseConfig.lean, Tie_parseCfg.lean, …): the exception classes of the hand model's
  errors as `rfl` facts, the generated enum `GenF.Cfg.TagScope` against the generated table
  `Gen.tagScopes`, small facts about the primitives of Model/ConfigPy.lean.
-/
import BumpverVerif.Gen.F_configTypes
import BumpverVerif.Proofs.ConfigLemmas
namespace BV.TieH

/-! ### `CfgErr.pyClass` (the abstraction of errors) on every constructor -/
theorem pyClass_missingSection : CfgErr.pyClass .missingSection = "ValueError".toList := rfl
theorem pyClass_missingPattern : CfgErr.pyClass .missingPattern = "TypeError".toList := rfl
theorem pyClass_patternType : CfgErr.pyClass .patternType = "TypeError".toList := rfl
theorem pyClass_missingVersion : CfgErr.pyClass .missingVersion = "ValueError".toList := rfl
theorem pyClass_versionType : CfgErr.pyClass .versionType = "TypeError".toList := rfl
theorem pyClass_noVersionLine : CfgErr.pyClass .noVersionLine = "ValueError".toList := rfl
theorem pyClass_notAString : CfgErr.pyClass .notAString = "AttributeError".toList := rfl
theorem pyClass_keyError : CfgErr.pyClass .keyError = "KeyError".toList := rfl
theorem pyClass_invalidVersion : CfgErr.pyClass .invalidVersion = "ValueError".toList := rfl
theorem pyClass_bracketPattern : CfgErr.pyClass .bracketPattern = "ValueError".toList := rfl
theorem pyClass_reError : CfgErr.pyClass .reError = "re.error".toList := rfl
theorem pyClass_tagScope : CfgErr.pyClass .tagScope = "ValueError".toList := rfl
theorem pyClass_tagRequiresCommit : CfgErr.pyClass .tagRequiresCommit = "ValueError".toList := rfl
theorem pyClass_pushRequiresCommit : CfgErr.pyClass .pushRequiresCommit = "ValueError".toList := rfl
theorem pyClass_preHookMissing : CfgErr.pyClass .preHookMissing = "ValueError".toList := rfl
theorem pyClass_postHookMissing : CfgErr.pyClass .postHookMissing = "ValueError".toList := rfl

/-- no error of the hand model is the pseudo class `!cast` -/
theorem pyClass_ne_cast (e : CfgErr) : e.pyClass ≠ "!cast".toList := by
  cases e <;> decide

/-! ### `x in s` for a one-character `x` -/
theorem findIdx_singleton (c : Char) (s : Str) : (findIdx [c] s).isSome = s.contains c := by
  induction s with
  | nil => simp [findIdx]
  | cons d t ih =>
    rw [findIdx]
    by_cases h : c = d
    · subst h; simp
    · have ih' : (findIdx [c] t).isSome = decide (c ∈ t) := by rw [ih]; simp
      simp [h, ih']

theorem isInfix_singleton (c : Char) (s : Str) : isInfix [c] s = s.contains c := findIdx_singleton c s

/-! ### the generated enum `TagScope` and the generated table `Gen.tagScopes` -/
theorem isSome_ite3 {β} (s a b c : Str) (x y z : β) :
    (if s == a then some x else if s == b then some y else if s == c then some z else none).isSome
      = [a, b, c].contains s := by
  by_cases h1 : s = a
  · subst h1; simp
  · by_cases h2 : s = b
    · subst h2; simp [h1]
    · by_cases h3 : s = c
      · subst h3; simp [h1, h2]
      · simp [h1, h2, h3]

open GenF in
theorem tagScope_ofValue_isSome (s : Str) : (Cfg.TagScope.ofValue s).isSome = Gen.tagScopes.contains s := by
  have : Gen.tagScopes = ["default".toList, "global".toList, "branch".toList] := by decide
  rw [this]
  exact isSome_ite3 s _ _ _ _ _ _

theorem value_of_ite3 {β} (s a b c : Str) (x y z v : β) (f : β → Str) (hx : f x = a) (hy : f y = b) (hz : f z = c)
    (h : (if s == a then some x else if s == b then some y else if s == c then some z else none) = some v) :
    f v = s := by
  by_cases h1 : s = a
  · subst h1; simp at h; rw [← h, hx]
  · by_cases h2 : s = b
    · subst h2; simp [h1] at h; rw [← h, hy]
    · by_cases h3 : s = c
      · subst h3; simp [h1, h2] at h; rw [← h, hz]
      · simp [h1, h2, h3] at h

open GenF in
theorem tagScope_value_of (s : Str) (v : Cfg.TagScope) (h : Cfg.TagScope.ofValue s = some v) : v.value = s := by
  unfold Cfg.TagScope.ofValue at h
  exact value_of_ite3 s "default".toList "global".toList "branch".toList Cfg.TagScope.DEFAULT Cfg.TagScope.GLOBAL
    Cfg.TagScope.BRANCH v Cfg.TagScope.value rfl rfl rfl h

open GenF in
theorem tagScope_mem_all (v : Cfg.TagScope) : List.elem v Cfg.TagScope.all = true := by
  cases v <;> decide

open GenF in
theorem tagScope_default : Cfg.TagScope.value Cfg.TagScope.DEFAULT = Gen.defaultTagScope := by decide

/-! ### the raw dict after `_parse_cfg_strings` -/

/-- the raw dict after `if key in raw_cfg: raw_cfg[key] = raw_cfg[key].strip("'\" ")` -/
def stripOpt (key : Str) (raw : TomlSection) : TomlSection :=
  match lookup key raw.opts with
  | some (.str s) => { raw with opts := setOpt key (.str (stripQuotes s)) raw.opts }
  | _ => raw

theorem lookup_stripOpt_ne (k key : Str) (raw : TomlSection) (h : k ≠ key) :
    lookup k (stripOpt key raw).opts = lookup k raw.opts := by
  unfold stripOpt
  split
  · simp [lookup_setOpt, h]
  · rfl

theorem stripOpt_filePatterns (key : Str) (raw : TomlSection) :
    (stripOpt key raw).filePatterns = raw.filePatterns := by
  unfold stripOpt
  split <;> rfl

/-! ### association lists, again: the two halves of `lookup_setOpt` as conditional rewrite rules
    (`simp (disch := decide) only [lookup_setOpt_ne]` decides `"a".toList ≠ "b".toList` in the kernel) -/
theorem lookup_setOpt_eq {α} (k : Str) (v : α) (l : List (Str × α)) : lookup k (setOpt k v l) = some v := by
  simp [lookup_setOpt]

theorem lookup_setOpt_ne {α} (k k' : Str) (v : α) (l : List (Str × α)) (h : k ≠ k') :
    lookup k (setOpt k' v l) = lookup k l := by
  simp [lookup_setOpt, h]

/-! ### the hand model's string readers as matches on `Py.strOf` -/
theorem strOptDefault_match (k d : Str) (o : List (Str × RawVal)) :
    strOptDefault k d o = match Py.strOf ((lookup k o).getD (.str d)) with
      | none => .error .notAString
      | some s => .ok (stripQuotes s) := by
  unfold strOptDefault
  rcases lookup k o with _ | (s | _ | _) <;> rfl

theorem strReq_match (k : Str) (o : List (Str × RawVal)) :
    strReq k o = match lookup k o with
      | none => .error .keyError
      | some v => match Py.strOf v with
        | none => .error .notAString
        | some s => .ok (stripQuotes s) := by
  unfold strReq
  rcases lookup k o with _ | (s | _ | _) <;> rfl

theorem parseCfgStrings_setOpt_ne (k k' d : Str) (v : RawVal) (o : List (Str × RawVal)) (h : k ≠ k') :
    parseCfgStrings k d (setOpt k' v o) = parseCfgStrings k d o := by
  unfold parseCfgStrings
  rw [lookup_setOpt_ne k k' v o h]

theorem parseCfgStrings_stripOpt_ne (k k' d : Str) (r : TomlSection) (h : k ≠ k') :
    parseCfgStrings k d (stripOpt k' r).opts = parseCfgStrings k d r.opts := by
  unfold parseCfgStrings
  rw [lookup_stripOpt_ne k k' r h]

/-- used as `rw [strOf_default k _ _ Gen.defaultX (by decide)]`: the literal default inlined from the
    Python module is the generated table entry, whatever its text is -/
theorem strOf_default (k : Str) (o : List (Str × RawVal)) (d d' : Str) (h : d = d') :
    Py.strOf ((lookup k o).getD (RawVal.str d)) = Py.strOf ((lookup k o).getD (RawVal.str d')) := by rw [h]

theorem emptyStr : "".toList = ([] : Str) := rfl

theorem isInfix_lbrace (s : Str) : isInfix "{".toList s = s.contains '{' := isInfix_singleton '{' s
theorem isInfix_rbrace (s : Str) : isInfix "}".toList s = s.contains '}' := isInfix_singleton '}' s

/-- `"{" not in p and "}" not in p` (in either order) is the hand model's `cfgIsNewPattern` -/
theorem isNew_fold (s : Str) : (!isInfix "{".toList s && !isInfix "}".toList s) = cfgIsNewPattern s := by
  rw [isInfix_lbrace, isInfix_rbrace]; rfl
theorem isNew_fold' (s : Str) : (!isInfix "}".toList s && !isInfix "{".toList s) = cfgIsNewPattern s := by
  rw [Bool.and_comm]; exact isNew_fold s

/-! ### `if tag is None: tag = False` does not change the truth value -/
theorem truthy_bool (b : Bool) : (RawVal.bool b).truthy = b := rfl

theorem truthy_ite_none (v : RawVal) : (if (v == RawVal.none) = true then false else v.truthy) = v.truthy := by
  cases v <;> rfl

theorem truthy_ite_nnone (v : RawVal) : (if (v != RawVal.none) = true then v.truthy else false) = v.truthy := by
  cases v <;> rfl

/-! ### an accumulation loop that appends one element per round is a `map` -/
theorem foldl_append_singleton {α β} (f : α → β) (l : List α) (init : List β) :
    l.foldl (fun st x => st ++ [f x]) init = init ++ l.map f := by
  induction l generalizing init with
  | nil => simp
  | cons a t ih => simp [ih]

/-- an accumulation loop that appends under a test (`for x in xs: if q: out.append(f)`) is a
    comprehension with a filter -/
theorem foldl_append_if {α β} (f : α → β) (q : α → Bool) (l : List α) (init : List β) :
    l.foldl (fun st x => if q x = true then st ++ [f x] else st) init = init ++ (l.filter q).map f := by
  induction l generalizing init with
  | nil => simp
  | cons a t ih =>
    simp only [List.foldl_cons, List.filter_cons]
    cases q a <;> simp [ih]

theorem foldl_congr_step {α β} (f g : β → α → β) (l : List α) (init : β) (h : ∀ st x, f st x = g st x) :
    l.foldl f init = l.foldl g init := by
  have : f = g := funext fun st => funext fun x => h st x
  rw [this]

/-- used as `rw [foldl_list_eq _ _ _ Gen.table (by decide)]`: the literal inlined from the Python module is
    the generated table, whatever its text is -/
theorem foldl_list_eq {α β} (f : β → α → β) (init : β) (l l' : List α) (h : l = l') :
    l.foldl f init = l'.foldl f init := by rw [h]

/-- a loop that only updates the scalar options of a raw dict -/
theorem foldl_opts {α} (step : List (Str × RawVal) → α → List (Str × RawVal)) (l : List α) (d : TomlSection) :
    l.foldl (fun st x => { st with opts := step st.opts x }) d = { d with opts := l.foldl step d.opts } := by
  induction l generalizing d with
  | nil => rfl
  | cons a t ih => simp only [List.foldl_cons, ih]

/-- used as `rw [elem_list_eq _ _ Gen.table (by decide)]` -/
theorem elem_list_eq (x : Str) (l l' : List Str) (h : l = l') : List.elem x l = l'.contains x := by
  rw [h]

/-! ### `dict(pairs)` of pairs with distinct keys is the list of pairs itself -/
theorem setOpt_append_new {α} (k : Str) (v : α) (acc : List (Str × α)) (h : k ∉ acc.map Prod.fst) :
    setOpt k v acc = acc ++ [(k, v)] := by
  induction acc with
  | nil => rfl
  | cons a t ih =>
    obtain ⟨k', v'⟩ := a
    simp only [List.map_cons, List.mem_cons, not_or] at h
    simp only [setOpt, h.1, if_false, List.cons_append, ih h.2]

theorem pyDict_foldl_nodup {α} (l acc : List (Str × α)) (h : (acc.map Prod.fst ++ l.map Prod.fst).Nodup) :
    l.foldl (fun d kv => setOpt kv.1 kv.2 d) acc = acc ++ l := by
  induction l generalizing acc with
  | nil => simp
  | cons a t ih =>
    obtain ⟨k, v⟩ := a
    have hk : k ∉ acc.map Prod.fst := by
      intro hm
      have := List.nodup_append.mp h
      exact this.2.2 k hm k (by simp) rfl
    rw [List.foldl_cons, setOpt_append_new k v acc hk, ih]
    · simp
    · simpa [List.append_assoc] using h

theorem pyDict_nodup {α} (l : List (Str × α)) (h : (l.map Prod.fst).Nodup) : Py.pyDict l = l := by
  unfold Py.pyDict
  rw [pyDict_foldl_nodup l [] (by simpa using h)]
  rfl

/-- the raw dict of the hand model as the Python dict (`file_patterns` present) -/
def embedRaw (raw : RawCfg) : TomlSection := { opts := raw.opts, filePatterns := some raw.filePatterns }

end BV.TieH
