/-
  Proofs/TokTie_Text.lean — from the pattern source text of a tree (`Pat.text`) through the escape loop
  and the bracket loop to `Pat.gtext` (`escape_brackets_text`).
-/
import BumpverVerif.Model.PatText
import BumpverVerif.Proofs.TokTie_Brackets
namespace BV

/-! ### table facts (kernel-evaluated on the regenerated tables) -/

/-- characters of part names -/
def nameChar (c : Char) : Bool := isUpper c || isDigit c

theorem tbl_names_chars : partNames.all (fun m => m.all nameChar && !m.isEmpty) = true := by decide

theorem tbl_escapes_shape : tblShape Gen.rePatternEscapes = true := by decide

theorem tbl_escapes_chars : tblChars Gen.rePatternEscapes = escList := by decide

theorem patEscChars_eq : patEscChars = escList := by decide

theorem name_chars {m : Str} (hm : m ∈ partNames) : ∀ c ∈ m, nameChar c = true := by
  have := List.all_eq_true.mp tbl_names_chars m hm
  simp only [Bool.and_eq_true, List.all_eq_true] at this
  exact this.1

theorem name_ne_nil {m : Str} (hm : m ∈ partNames) : m ≠ [] := by
  have := List.all_eq_true.mp tbl_names_chars m hm
  simp only [Bool.and_eq_true] at this
  intro e; subst e; simp at this

theorem mem_partNames_of_lookup {n : Str} (h : (lookup n Gen.partPatterns).isSome = true) : n ∈ partNames := by
  unfold partNames
  generalize Gen.partPatterns = l at h
  induction l with
  | nil => simp [lookup] at h
  | cons e l ih =>
    obtain ⟨k, v⟩ := e
    simp only [lookup] at h
    by_cases hk : n = k
    · subst hk; simp
    · simp only [hk, if_false] at h
      simp [ih h]

/-! ### the escape loop -/

def escC (c : Char) : Str := if escList.contains c then ['\\', c] else [c]

theorem escape_pointwise (s : Str) : escapePattern Gen.rePatternEscapes s = s.flatMap escC := by
  have hbs : '\\' ∉ escList := by decide
  have hnd : escList.Nodup := by decide
  rw [escapePattern_eq_fold _ tbl_escapes_shape, tbl_escapes_chars, escFold_pointwise escList hbs hnd]
  rfl

theorem regexLit_eq (c : Char) : regexLit c = encChar c := by
  simp only [regexLit, patEscChars_eq, encChar]

theorem litOk_eq (c : Char) : litOk c = litChar c := rfl

theorem nameChar_not_special {c : Char} (h : nameChar c = true) :
    escList.contains c = false ∧ c ≠ '[' ∧ c ≠ ']' ∧ c ≠ '\\' ∧ c ≠ '(' ∧ c ≠ ')' ∧ c ≠ '?' ∧ c ≠ ':' := by
  simp only [nameChar, isUpper, isDigit, Bool.or_eq_true, Bool.and_eq_true, decide_eq_true_eq] at h
  have key : ∀ d : Char, d ∈ escList ∨ d = '[' ∨ d = ']' ∨ d = '\\' ∨ d = '(' ∨ d = ')' ∨ d = '?' ∨ d = ':' →
      ¬ (('A' ≤ d ∧ d ≤ 'Z') ∨ ('0' ≤ d ∧ d ≤ '9')) := by
    intro d hd
    simp only [escList, List.mem_cons, List.not_mem_nil, or_false] at hd
    rcases hd with (hd | hd | hd | hd | hd | hd | hd | hd | hd | hd) | hd | hd | hd | hd | hd | hd | hd <;>
      subst hd <;> decide
  refine ⟨?_, ?_, ?_, ?_, ?_, ?_, ?_, ?_⟩
  · cases hc : escList.contains c with
    | false => rfl
    | true =>
      exact absurd h (key c (Or.inl (by simpa using hc)))
  all_goals (intro e; exact key c (by simp [e]) h)

/-- escaped source text: literals escaped, brackets still brackets -/
def Pat.etext : Pat → Str
  | .done => []
  | .lit c rest => regexLit c ++ Pat.etext rest
  | .part n rest => n ++ Pat.etext rest
  | .opt body rest => '[' :: (Pat.etext body ++ ']' :: Pat.etext rest)

theorem flatMap_escC_name (n : Str) (h : ∀ c ∈ n, nameChar c = true) : n.flatMap escC = n := by
  induction n with
  | nil => rfl
  | cons c r ih =>
    have hc := (nameChar_not_special (h c List.mem_cons_self)).1
    rw [List.flatMap_cons, ih (fun d hd => h d (List.mem_cons_of_mem _ hd))]
    simp only [escC, hc, Bool.false_eq_true, if_false, List.cons_append, List.nil_append]

theorem flatMap_escC_litText (c : Char) (hc : c ≠ '\\') : (litText c).flatMap escC = regexLit c := by
  have e1 : escC '\\' = ['\\'] := by decide
  have e2 : escC '[' = ['['] := by decide
  have e3 : escC ']' = [']'] := by decide
  by_cases h1 : c = '['
  · subst h1; simp [litText, e1, e2]; decide
  · by_cases h2 : c = ']'
    · subst h2; simp [litText, e1, e3]; decide
    · simp [litText, h1, h2, escC, regexLit, patEscChars_eq]

theorem litOk_ne_bs {c : Char} (h : litOk c = true) : c ≠ '\\' := litChar_ne_bs h

theorem escape_text (p : Pat) (h : p.shapeOk = true) :
    escapePattern Gen.rePatternEscapes p.text = p.etext := by
  rw [escape_pointwise]
  induction p with
  | done => rfl
  | lit c rest ih =>
    simp only [Pat.shapeOk, Bool.and_eq_true] at h
    simp only [Pat.text_lit, Pat.etext, List.flatMap_append, ih h.2, flatMap_escC_litText c (litOk_ne_bs h.1)]
  | part n rest ih =>
    simp only [Pat.shapeOk, Bool.and_eq_true] at h
    have hn := name_chars (mem_partNames_of_lookup h.1.1)
    simp only [Pat.text_part, Pat.etext, List.flatMap_append, ih h.2, flatMap_escC_name n hn]
  | opt body rest ihb ihr =>
    simp only [Pat.shapeOk, Bool.and_eq_true] at h
    have e2 : escC '[' = ['['] := by decide
    have e3 : escC ']' = [']'] := by decide
    simp only [Pat.text_opt, Pat.etext, List.flatMap_cons, List.flatMap_append, ihb h.1.2, ihr h.2, e2, e3,
      List.cons_append, List.nil_append]

/-! ### the bracket loop on escaped text -/

theorem brAll_name (n k : Str) (pb : Bool) (h : ∀ c ∈ n, nameChar c = true) (hne : n ≠ []) :
    brAll pb (n ++ k) = n ++ brAll false k := by
  induction n generalizing pb with
  | nil => exact absurd rfl hne
  | cons c r ih =>
    obtain ⟨-, h1, h2, h3, -⟩ := nameChar_not_special (h c List.mem_cons_self)
    have e1 : (c == '[') = false := by simpa using h1
    have e2 : (c == ']') = false := by simpa using h2
    have e3 : (c == '\\') = false := by simpa using h3
    cases r with
    | nil => simp [brAll, e1, e2, e3]
    | cons d r' =>
      have := ih false (fun x hx => h x (List.mem_cons_of_mem _ hx)) (by simp)
      simp only [List.cons_append, brAll, e1, e2, e3, Bool.false_and, Bool.false_eq_true, if_false] at this ⊢
      rw [this]

theorem brAll_regexLit (c : Char) (k : Str) (h : litOk c = true) :
    brAll false (regexLit c ++ k) = regexLit c ++ brAll false k := by
  have hbs : (c == '\\') = false := by simpa using litOk_ne_bs h
  rw [regexLit_eq]
  rcases encChar_cases c with ⟨e, -⟩ | ⟨e, hne⟩
  · rw [e]
    have e1 : ('\\' == '[') = false := by decide
    have e2 : ('\\' == ']') = false := by decide
    simp [brAll, e1, e2, hbs]
  · rw [e]
    simp only [Bool.or_eq_false_iff] at hne
    simp [brAll, hne.1.2, hne.2, hbs]

theorem brAll_etext (p : Pat) (k : Str) (h : p.shapeOk = true) :
    brAll false (p.etext ++ k) = p.gtext ++ brAll false k := by
  induction p generalizing k with
  | done => rfl
  | lit c rest ih =>
    simp only [Pat.shapeOk, Bool.and_eq_true] at h
    simp only [Pat.etext, Pat.gtext, List.append_assoc, brAll_regexLit c _ h.1, ih _ h.2]
  | part n rest ih =>
    simp only [Pat.shapeOk, Bool.and_eq_true] at h
    have hm := mem_partNames_of_lookup h.1.1
    simp only [Pat.etext, Pat.gtext, List.append_assoc, brAll_name n _ false (name_chars hm) (name_ne_nil hm),
      ih _ h.2]
  | opt body rest ihb ihr =>
    simp only [Pat.shapeOk, Bool.and_eq_true] at h
    have e0 : (']' == '[') = false := by decide
    simp only [Pat.etext, Pat.gtext, List.cons_append, List.append_assoc]
    rw [brAll]
    simp only [beq_self_eq_true, Bool.not_false, Bool.and_self, if_true]
    rw [ihb _ h.1.2, brAll]
    simp only [e0, Bool.false_and, Bool.false_eq_true, if_false, beq_self_eq_true, Bool.not_false,
      Bool.and_self, if_true]
    rw [ihr _ h.2]

/-- escape loop + bracket loop on the source text of a tree -/
theorem escape_brackets_text (p : Pat) (h : p.shapeOk = true) :
    let e := escapePattern Gen.rePatternEscapes p.text
    bracketsToGroups (e.length + 1) e = p.gtext := by
  simp only [escape_text p h, bracketsToGroups_eq_brAll]
  have := brAll_etext p [] h
  simpa [brAll] using this

end BV
