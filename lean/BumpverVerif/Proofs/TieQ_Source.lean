/-
  Proofs/TieQ_Source.lean — theorems of C16 / C15 restated for the definitions GENERATED from the Python source of
  `setuptools_v65_version.py` / `version.py` (harness/translate_pepversion.py, namespace BV.GenQ), by composing the
  ties (Proofs/Tie_pep*.lean) with the theorems of Props/C16.lean.  Nothing here is a new property; each theorem shows
  how the ties carry a model-level theorem to the translated code.

  `regex_search` (the matcher of `Version._regex`) and `legacy_split` (`_legacy_version_component_re.split`) are the
  two trusted primitives; `TieQ.SearchOk` / `TieQ.SplitOk` (Proofs/Tie_pepParse.lean) are what the hand model assumes
  about them.
-/
import BumpverVerif.Proofs.Tie_pepParse
import BumpverVerif.Proofs.TieD_Source
import BumpverVerif.Props.C16
namespace BV
open TieQ

/-- C16 (d) at source level, on the RAW tuples, for ALL inputs and ALL behaviours of the two regex primitives: the
    first item of the `_key` of every object the translated `LegacyVersion.__init__` builds is `-1`, the first item of
    the `_key` of every object the translated `Version.__init__` builds is a natural number (the epoch) — Python's
    tuple comparison is decided at position 0. -/
theorem C16_sourceQ_legacy_key_below (regex_search : Str → Option PepGroups) (legacy_split : Str → List Str)
    (s t : Str) (o : PepObj) (_h : GenQ.pepVersionInit regex_search t = .ok o) :
    (GenQ.pepLegacyInit legacy_split s)._key.1 < Int.ofNat o._key.1 := by
  have : (GenQ.pepLegacyInit legacy_split s)._key.1 = -1 := rfl
  rw [this]
  exact Int.lt_of_lt_of_le (by decide) (Int.natCast_nonneg _)

/-- C16 (d): under the model's reading of the keys, the object `parse` returns for a text the regex does not match
    sorts strictly below the object it returns for a text the regex matches — for EVERY matcher. -/
theorem C16_sourceQ_legacy_below (regex_search : Str → Option PepGroups) (s t : Str)
    (hs : regex_search s = none) (ht : (regex_search t).isSome = true) :
    cmpKey (keyPy (pyOf regex_search s)) (keyPy (pyOf regex_search t)) = .lt := by
  cases hm : regex_search t with
  | none => rw [hm] at ht; cases ht
  | some g =>
    simp only [pyOf, hs, hm, keyPy]
    have hk : absKey (objOfGroups g)._key = pepKey (rawOfGroups g).abs := absKey_cmpkey_raw (rawOfGroups g)
    rw [hk]
    rfl

/-- C16 (a)/(b) at source level: the comparison of the `_key`s of the two objects `parse_version` returns is the
    model's `verLe` on the two strings (which Props/C16.lean proves to be a total preorder that agrees with PEP 440). -/
theorem C16_sourceQ_le (regex_search : Str → Option PepGroups) (legacy_split : Str → List Str) (s t : Str)
    (a b : PyVersion) (hsp : SplitOk legacy_split) (hr : SearchOk regex_search)
    (ha : GenQ.pepParseVersion regex_search legacy_split s = .ok a)
    (hb : GenQ.pepParseVersion regex_search legacy_split t = .ok b) :
    (cmpKey (keyPy a) (keyPy b) != .gt) = verLe (parseVersion s) (parseVersion t) := by
  rw [tie_pepParseVersion _ _ _ hsp] at ha hb
  injection ha with ha
  injection hb with hb
  subst ha hb
  rw [tie_pepParse_key _ _ hr, tie_pepParse_key _ _ hr]
  rfl

/-- C16 (c) at source level: for ALL groups that denote a well-formed version, the text the generated `__str__`
    prints for the object the generated `__init__` builds re-parses (under the model's parser) to the same version,
    hence to the same key as the object's own `_key`. -/
theorem C16_sourceQ_str_reparses (regex_search : Str → Option PepGroups) (version : Str) (g : PepGroups) (o : PepObj)
    (hm : regex_search version = some g) (h : GenQ.pepVersionInit regex_search version = .ok o)
    (hwf : wfPep (ofGroups g) = true) :
    parseVersion (GenQ.pepVersionStr o) = .pep (ofGroups g) ∧
    keyOf (parseVersion (GenQ.pepVersionStr o)) = absKey o._key := by
  have hk := tie_pepVersionInit_key regex_search version g o hm h
  have ha := tie_pepVersionInit_abs regex_search version g o hm h
  rw [tie_pepVersionInit, hm] at h
  injection h with h
  subst h
  rw [tie_pepVersionStr _ (objOfGroups_loc_ne_nil g), ha]
  have hc := C16_str_canonical (ofGroups g) hwf
  simp only [verStr] at hc
  exact ⟨hc, by rw [hc, hk]; rfl⟩

/-- C15 at source level: the translated `version.to_pep440` is the model's `to_pep440` (`pyToPep440`, the function the
    ties of builder D use for the callee), and never raises. -/
theorem C15_sourceQ_to_pep440 (regex_search : Str → Option PepGroups) (legacy_split : Str → List Str) (s : Str)
    (hsp : SplitOk legacy_split) (hr : SearchOk regex_search) :
    GenQ.pepToPep440 regex_search legacy_split s = .ok (pyToPep440 s) :=
  tie_pepToPep440_model regex_search legacy_split s hsp hr

/-- C16 (c) at source level: `to_pep440` is idempotent on ALL strings. -/
theorem C16_sourceQ_to_pep440_idempotent (regex_search : Str → Option PepGroups) (legacy_split : Str → List Str)
    (s out : Str) (hsp : SplitOk legacy_split) (hr : SearchOk regex_search)
    (h : GenQ.pepToPep440 regex_search legacy_split s = .ok out) :
    GenQ.pepToPep440 regex_search legacy_split out = .ok out := by
  rw [tie_pepToPep440_model _ _ _ hsp hr] at h ⊢
  injection h with h
  subst h
  rw [(C16_str_idempotent s).2]

end BV
