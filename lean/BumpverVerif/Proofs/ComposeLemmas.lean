/-
  Proofs/ComposeLemmas.lean — helper lemmas for the composition theorem of C02
  (Props/C02Compose.lean): heads of the list-of-successes matcher under sequencing, grouping and
  optional repetition; transport of a digit-only regex over a non-digit continuation; the
  per-part "head consumes exactly the rendered text" lemmas; well-formedness (`Pat.wf`) and the
  version-record domain predicate (`Pat.vok`).
-/
import BumpverVerif.Model.PatWf
import BumpverVerif.Proofs.PartLemmas
namespace BV

/-! ### lists -/

theorem flatMap_congr' {α β} (f g : α → List β) : ∀ (l : List α), (∀ x ∈ l, f x = g x) →
    l.flatMap f = l.flatMap g := by
  intro l
  induction l with
  | nil => intro _; rfl
  | cons a l ih =>
    intro h
    simp only [List.flatMap_cons]
    rw [h a (by simp), ih (fun x hx => h x (by simp [hx]))]

theorem head?_flatMap_cons {α β} (f : α → List β) (a : α) (l : List α) (b : β) (tl : List β)
    (h : f a = b :: tl) : ((a :: l).flatMap f).head? = some b := by
  simp [List.flatMap_cons, h]

/-- head of a `flatMap`: the head of `f` on the head, when that is non-empty -/
theorem head?_flatMap {α β} (f : α → List β) (l : List α) (a : α) (b : β)
    (hl : l.head? = some a) (hf : (f a).head? = some b) : (l.flatMap f).head? = some b := by
  cases l with
  | nil => simp at hl
  | cons x xs =>
    simp only [List.head?_cons, Option.some.injEq] at hl
    subst hl
    cases hfa : f x with
    | nil => rw [hfa] at hf; simp at hf
    | cons y ys =>
      rw [hfa] at hf
      simp only [List.head?_cons, Option.some.injEq] at hf
      subst hf
      exact head?_flatMap_cons f x xs y ys hfa

theorem lookup_append_cl {α} (k : Str) (a b : List (Str × α)) :
    lookup k (a ++ b) = match lookup k a with | some x => some x | none => lookup k b := by
  induction a with
  | nil => rfl
  | cons p a ih =>
    obtain ⟨k', x⟩ := p
    simp only [List.cons_append, lookup]
    split
    · rfl
    · exact ih

/-! ### heads under sequencing, grouping, optional repetition -/

theorem head_seq (a b : Re) (st st1 st2 : MSt) (h1 : (a.m st).head? = some st1)
    (h2 : (b.m st1).head? = some st2) : ((Re.seq a b).m st).head? = some st2 := by
  simp only [Re.m]
  exact head?_flatMap b.m (a.m st) st1 st2 h1 h2

/-- `seqR` drops a trailing `eps`; the head is the same -/
theorem head_seqR (a b : Re) (st st1 st2 : MSt) (h1 : (a.m st).head? = some st1)
    (h2 : (b.m st1).head? = some st2) : ((seqR a b).m st).head? = some st2 := by
  unfold seqR
  split
  · simp only [Re.m, List.head?_cons, Option.some.injEq] at h2
    rw [← h2]; exact h1
  · exact head_seq a b st st1 st2 h1 h2

theorem head_chr (c : Char) (st : MSt) (r : Str) (h : st.rest = c :: r) :
    ((Re.chr c).m st).head? = some (st.step r) := by
  simp [Re.m, h]

theorem head_grp (f : Str) (rx : Re) (st st0 : MSt) (t k : Str) (hst : st.rest = t ++ k)
    (h : (rx.m st).head? = some st0) (hr : st0.rest = k) :
    ∃ st1, ((Re.grp f rx).m st).head? = some st1 ∧ st1.rest = k ∧ st1.caps = (f, t) :: st0.caps := by
  refine ⟨{ st0 with caps := (f, t) :: st0.caps }, ?_, hr, rfl⟩
  simp only [Re.m, List.head?_map, h, Option.map_some, hr, hst, List.length_append]
  have : t.length + k.length - k.length = t.length := by omega
  rw [this, List.take_left']
  rfl

/-- `mRep` with the upper bound exhausted returns the state itself -/
theorem mRep_max_zero (step : MSt → List MSt) (fuel : Nat) (st : MSt) :
    mRep step fuel 0 (some 0) st = [st] := by
  cases fuel <;> simp [mRep]

/-- optional group PRESENT: the body matches and consumes at least one character, so the
    one-iteration branch is the head -/
theorem head_opt_present (b : Re) (st st1 : MSt) (h : (b.m st).head? = some st1)
    (hlt : st1.rest.length < st.rest.length) :
    ((Re.rep b 0 (some 1)).m st).head? = some st1 := by
  cases hb : b.m st with
  | nil => rw [hb] at h; simp at h
  | cons x xs =>
    rw [hb] at h
    simp only [List.head?_cons, Option.some.injEq] at h
    subst h
    cases hl : st.rest.length with
    | zero => omega
    | succ n =>
      simp only [Re.m, hl, mRep, hb]
      have : (some 1 == some 0) = false := by decide
      simp [this, hl ▸ hlt, mRep_max_zero]

/-- optional group OMITTED at the end of the input -/
theorem head_opt_nil (b : Re) (st : MSt) (h : st.rest = []) :
    (Re.rep b 0 (some 1)).m st = [st] := by
  simp [Re.m, h, mRep]

/-! ### fuel independence of `mRep` -/

theorem mRep_fuel (step : MSt → List MSt) : ∀ (f1 f2 min : Nat) (max : Option Nat) (st : MSt),
    st.rest.length ≤ f1 → st.rest.length ≤ f2 →
    mRep step f1 min max st = mRep step f2 min max st := by
  intro f1
  induction f1 with
  | zero =>
    intro f2 min max st h1 _
    cases f2 with
    | zero => rfl
    | succ f2 =>
      have h0 : st.rest.length = 0 := by omega
      simp [mRep, h0]
  | succ f1 ih =>
    intro f2 min max st h1 h2
    cases f2 with
    | zero =>
      have h0 : st.rest.length = 0 := by omega
      simp [mRep, h0]
    | succ f2 =>
      simp only [mRep]
      congr 1
      split
      · rfl
      · apply flatMap_congr'
        intro s hs
        have hlt : s.rest.length < st.rest.length := by
          have := (List.mem_filter.mp hs).2
          simpa using this
        exact ih f2 _ _ s (by omega) (by omega)

/-! ### transport of a digit-only regex over a continuation that does not start with a digit -/

/-- append `k` to the remaining input (captures and start flag replaced uniformly) -/
def MSt.tr (k : Str) (C : List (Str × Str)) (b : Bool) (s : MSt) : MSt :=
  { rest := s.rest ++ k, start := b && s.start, caps := C }

def ClsItem.digitOnly : ClsItem → Bool
  | .ch c => isDigit c
  | .range lo hi => isDigit lo && isDigit hi
  | _ => false

/-- regexes built from digit characters, positive classes of digit ranges, sequence,
    alternation and repetition: they can only ever consume digits -/
def Re.digitOnly : Re → Bool
  | .eps => true
  | .chr c => isDigit c
  | .cls neg items => !neg && items.all ClsItem.digitOnly
  | .seq a b => Re.digitOnly a && Re.digitOnly b
  | .alt a b => Re.digitOnly a && Re.digitOnly b
  | .rep r _ _ => Re.digitOnly r
  | _ => false

theorem tr_step (k : Str) (C : List (Str × Str)) (b : Bool) (s : MSt) (r : Str) :
    (MSt.tr k C b s).step (r ++ k) = MSt.tr k C b (s.step r) := by
  simp [MSt.tr, MSt.step]

theorem mRep_tr (k : Str) (C : List (Str × Str)) (b : Bool) (step : MSt → List MSt)
    (hstep : ∀ s, step (MSt.tr k C b s) = (step s).map (MSt.tr k C b)) :
    ∀ (fuel min : Nat) (max : Option Nat) (st : MSt),
      mRep step fuel min max (MSt.tr k C b st) = (mRep step fuel min max st).map (MSt.tr k C b) := by
  intro fuel
  induction fuel with
  | zero => intro min max st; simp only [mRep]; split <;> rfl
  | succ f ih =>
    intro min max st
    simp only [mRep, List.map_append]
    congr 1
    · split
      · rfl
      · rw [hstep, List.filter_map, List.flatMap_map, List.map_flatMap]
        have hp : ((fun st' : MSt => decide (st'.rest.length < (MSt.tr k C b st).rest.length)) ∘ MSt.tr k C b)
            = (fun st' : MSt => decide (st'.rest.length < st.rest.length)) := by
          funext s
          simp [MSt.tr]
        rw [hp]
        apply flatMap_congr'
        intro s _
        exact ih _ _ s
    · split <;> rfl

theorem ClsItem.digitOnly_matches (it : ClsItem) (h : it.digitOnly = true) (x : Char)
    (hx : isDigit x = false) : it.matches x = false := by
  cases it with
  | ch c =>
    simp only [ClsItem.digitOnly] at h
    simp only [ClsItem.matches, beq_eq_false_iff_ne, ne_eq]
    intro e; subst e; rw [h] at hx; cases hx
  | range lo hi =>
    simp only [ClsItem.digitOnly, Bool.and_eq_true, isDigit_iff] at h
    have hx' : ¬ (48 ≤ x.toNat ∧ x.toNat ≤ 57) := by
      rw [← isDigit_iff, hx]; simp
    cases hm : (ClsItem.range lo hi).matches x with
    | false => rfl
    | true =>
      simp only [ClsItem.matches, Bool.and_eq_true, decide_eq_true_eq, Char.le_def] at hm
      have h1 : lo.toNat ≤ x.toNat := hm.1
      have h2 : x.toNat ≤ hi.toNat := hm.2
      omega
  | _ => simp [ClsItem.digitOnly] at h

theorem any_digitOnly_false (items : List ClsItem) (h : items.all ClsItem.digitOnly = true) (x : Char)
    (hx : isDigit x = false) : items.any (·.matches x) = false := by
  induction items with
  | nil => rfl
  | cons it items ih =>
    simp only [List.all_cons, Bool.and_eq_true] at h
    simp only [List.any_cons, ClsItem.digitOnly_matches it h.1 x hx, ih h.2, Bool.or_false]

/-- a digit-only regex behaves on `s ++ k` exactly as on `s` when `k` does not start with a
    digit: it never reads into `k` -/
theorem digitOnly_tr (k : Str) (hk : ∀ c, k.head? = some c → isDigit c = false)
    (C : List (Str × Str)) (b : Bool) :
    ∀ (r : Re), r.digitOnly = true → ∀ st : MSt,
      r.m (MSt.tr k C b st) = (r.m st).map (MSt.tr k C b) := by
  intro r
  induction r with
  | eps => intro _ st; rfl
  | chr c =>
    intro h st
    simp only [Re.digitOnly] at h
    cases hr : st.rest with
    | nil =>
      cases hk' : k with
      | nil => simp [Re.m, MSt.tr, hr]
      | cons x k' =>
        have hx := hk x (by rw [hk']; rfl)
        have hne : (x == c) = false := by
          rw [beq_eq_false_iff_ne]; intro e; subst e; rw [h] at hx; cases hx
        simp [Re.m, MSt.tr, hr, hne]
    | cons y r =>
      have e : (MSt.tr k C b st).rest = y :: (r ++ k) := by simp [MSt.tr, hr]
      simp only [Re.m, e, hr]
      split
      · simp only [List.map_cons, List.map_nil, tr_step]
      · rfl
  | any => intro h; simp [Re.digitOnly] at h
  | cls neg items =>
    intro h st
    simp only [Re.digitOnly, Bool.and_eq_true, Bool.not_eq_true'] at h
    obtain ⟨hneg, hit⟩ := h
    subst hneg
    cases hr : st.rest with
    | nil =>
      cases hk' : k with
      | nil => simp [Re.m, MSt.tr, hr]
      | cons x k' =>
        have hx := hk x (by rw [hk']; rfl)
        simp [Re.m, MSt.tr, hr, any_digitOnly_false items hit x hx]
    | cons y r =>
      have e : (MSt.tr k C b st).rest = y :: (r ++ k) := by simp [MSt.tr, hr]
      simp only [Re.m, e, hr]
      split
      · simp only [List.map_cons, List.map_nil, tr_step]
      · rfl
  | seq a b' iha ihb =>
    intro h st
    simp only [Re.digitOnly, Bool.and_eq_true] at h
    simp only [Re.m]
    rw [iha h.1, List.flatMap_map, List.map_flatMap]
    apply flatMap_congr'
    intro s _
    exact ihb h.2 s
  | alt a b' iha ihb =>
    intro h st
    simp only [Re.digitOnly, Bool.and_eq_true] at h
    simp only [Re.m, List.map_append, iha h.1, ihb h.2]
  | rep r mn mx ih =>
    intro h st
    simp only [Re.digitOnly] at h
    simp only [Re.m]
    rw [mRep_tr k C b r.m (ih h)]
    congr 1
    apply mRep_fuel
    · simp [MSt.tr]
    · exact Nat.le_refl _
  | grp n r _ => intro h; simp [Re.digitOnly] at h
  | bol => intro h; simp [Re.digitOnly] at h
  | eol => intro h; simp [Re.digitOnly] at h

/-- `rx` on `t ++ k`: the first success has consumed exactly `t` (captures untouched) -/
def HeadConsumes (rx : Re) (t k : Str) : Prop :=
  ∀ st : MSt, st.rest = t ++ k →
    ∃ st0, (rx.m st).head? = some st0 ∧ st0.rest = k ∧ st0.caps = st.caps

/-- kernel-checkable: on `t` alone the first success consumes all of `t` -/
def headRestNil (rx : Re) (t : Str) : Bool :=
  match (rx.m { rest := t, start := true, caps := [] }).head? with
  | some s => s.rest.isEmpty
  | none => false

theorem headConsumes_of_digitOnly (rx : Re) (hd : rx.digitOnly = true) (t : Str)
    (ht : headRestNil rx t = true) (k : Str) (hk : ∀ c, k.head? = some c → isDigit c = false) :
    HeadConsumes rx t k := by
  intro st hst
  obtain ⟨r, sf, c⟩ := st
  simp only at hst
  subst hst
  have e : ({ rest := t ++ k, start := sf, caps := c } : MSt)
      = MSt.tr k c sf { rest := t, start := true, caps := [] } := by
    simp [MSt.tr]
  unfold headRestNil at ht
  cases hh : (rx.m { rest := t, start := true, caps := [] }).head? with
  | none => rw [hh] at ht; cases ht
  | some s0 =>
    rw [hh] at ht
    simp only [List.isEmpty_iff] at ht
    refine ⟨MSt.tr k c sf s0, ?_, ?_, ?_⟩
    · rw [e, digitOnly_tr k hk _ _ rx hd, List.head?_map, hh]; rfl
    · simp [MSt.tr, ht]
    · rfl

/-! ### per-part lemmas -/

def NoDigitAhead (k : Str) : Prop := ∀ c, k.head? = some c → isDigit c = false

/-- the first rendered character of a part: a lower-case letter for the tags, a digit otherwise -/
def FirstOk (n t : Str) : Prop :=
  ∀ c, t.head? = some c → (if isTagPart n = true then isLower c else isDigit c) = true

/-- what the composition needs from one part: it renders to a non-empty text that the part's
    regex consumes exactly, as the FIRST success, before every admissible continuation
    (`nd = true`: the continuation must not start with a digit) -/
def PartHead (v : VInfo) (n : Str) (rx : Re) (nd : Bool) : Prop :=
  ∃ t, partText v n = some t ∧ t ≠ [] ∧ FirstOk n t ∧
    ∀ k, (nd = true → NoDigitAhead k) → HeadConsumes rx t k

theorem firstOk_digits (n t : Str) (htag : isTagPart n = false) (hd : allDigits t = true) :
    FirstOk n t := by
  intro c hc
  rw [htag]
  cases t with
  | nil => cases hc
  | cons x xs =>
    simp only [List.head?_cons, Option.some.injEq] at hc
    subst hc
    rw [allDigits_cons] at hd
    simpa using hd.1

theorem allDigits_fmtValue (kd : Gen.FmtKind) (x : Nat) : allDigits (fmtValue kd (.nat x)) = true := by
  cases kd <;> simp only [fmtValue, allDigits_natToStr, allDigits_zfill]

/-- kernel check of one finite calendar part over its whole domain `lo..hi`: the regex is
    digit-only, and every rendered value is non-empty and consumed in full by the FIRST success -/
def finCheck (n : Str) (lo hi : Nat) : Bool :=
  match partReOf n, lookup n Gen.partFormats with
  | some rx, some kd =>
    rx.digitOnly && (List.range (hi + 1)).all (fun x =>
      decide (x < lo) || (headRestNil rx (fmtValue kd (.nat x)) && !(fmtValue kd (.nat x)).isEmpty))
  | _, _ => false

theorem cal_part (n f : Str) (get : CalOpt → Option Nat) (lo hi : Nat)
    (hf : lookup n Gen.partFields = some f) (hget : ∀ v : VInfo, v.get f = optNat (get v.cal))
    (hchk : finCheck n lo hi = true) (v : VInfo) (hok : optIn (get v.cal) lo hi = true)
    (rx : Re) (hrx : partReOf n = some rx) (nd : Bool) (hnd : nd = true)
    (htag : isTagPart n = false) : PartHead v n rx nd := by
  unfold finCheck at hchk
  rw [hrx] at hchk
  cases hkd : lookup n Gen.partFormats with
  | none => rw [hkd] at hchk; cases hchk
  | some kd =>
    rw [hkd] at hchk
    simp only [Bool.and_eq_true, List.all_eq_true, List.mem_range, Bool.or_eq_true,
      decide_eq_true_eq, Bool.not_eq_true', List.isEmpty_eq_false_iff] at hchk
    obtain ⟨hdo, hall⟩ := hchk
    cases hx : get v.cal with
    | none => rw [hx] at hok; cases hok
    | some x =>
      rw [hx] at hok
      simp only [optIn, Bool.and_eq_true, decide_eq_true_eq] at hok
      rcases hall x (by omega) with hlt | ⟨hh, hne⟩
      · omega
      · refine ⟨fmtValue kd (.nat x), ?_, hne, firstOk_digits n _ htag (allDigits_fmtValue kd x), ?_⟩
        · simp only [partText, hf, hkd, hget, hx, optNat]
        · intro k hk
          exact headConsumes_of_digitOnly rx hdo _ hh k (hk hnd)

/-! ### the three unbounded shapes -/

theorem hc_digitsPlus (ds k : Str) (hne : ds ≠ []) (hd : allDigits ds = true) (hk : NoDigitAhead k) :
    HeadConsumes (.rep digitCls 1 none) ds k := by
  intro st hst
  have hlen : 1 ≤ ds.length := List.length_pos_iff.mpr hne
  obtain ⟨st', tl, hm, hr, hc⟩ := mRep_digits_head k hk ds hd st.rest.length 1 st
    (by rw [hst]; simp) hlen hst
  exact ⟨st', by simp only [Re.m]; rw [hm]; rfl, hr, hc⟩

theorem hc_posInt (c : Char) (ds k : Str) (hc : isDigit c = true) (h0 : c ≠ '0')
    (hd : allDigits ds = true) (hk : NoDigitAhead k) :
    HeadConsumes (.seq posDigitCls (.rep digitCls 0 none)) (c :: ds) k := by
  intro st hst
  have hst' : st.rest = c :: (ds ++ k) := by simpa using hst
  have h1 := posDigitCls_m_cons st c (ds ++ k) hst' hc h0
  obtain ⟨st', tl, hm, hr, hcp⟩ := mRep_digits_head k hk ds hd (ds ++ k).length 0
    (st.step (ds ++ k)) (by simp) (by omega) rfl
  refine ⟨st', ?_, hr, hcp⟩
  simp only [Re.m] at h1 ⊢
  rw [h1]
  simp only [List.flatMap_cons, List.flatMap_nil, List.append_nil]
  have : (st.step (ds ++ k)).rest.length = (ds ++ k).length := rfl
  rw [this, hm]; rfl

theorem hc_posFixed (c : Char) (ds k : Str) (hc : isDigit c = true) (h0 : c ≠ '0')
    (hd : allDigits ds = true) :
    HeadConsumes (.seq posDigitCls (.rep digitCls ds.length (some ds.length))) (c :: ds) k := by
  intro st hst
  have hst' : st.rest = c :: (ds ++ k) := by simpa using hst
  have h1 := posDigitCls_m_cons st c (ds ++ k) hst' hc h0
  obtain ⟨st', tl, hm, hr, hcp⟩ := mRep_digits_exact k ds hd (ds ++ k).length
    (st.step (ds ++ k)) (by simp) rfl
  refine ⟨st', ?_, hr, hcp⟩
  simp only [Re.m] at h1 ⊢
  rw [h1]
  simp only [List.flatMap_cons, List.flatMap_nil, List.append_nil]
  have : (st.step (ds ++ k)).rest.length = (ds ++ k).length := rfl
  rw [this, hm]; rfl

/-! ### ordered alternations of literal words (TAG, PYTAG) -/

/-- a literal word as `parseRe` builds it -/
def litRe : Str → Re
  | [] => .eps
  | [c] => .chr c
  | c :: d :: cs => .seq (.chr c) (litRe (d :: cs))

/-- `w1|w2|…` as `parseRe` builds it -/
def altLits : List Str → Re
  | [] => .eps
  | [w] => litRe w
  | w :: w2 :: ws => .alt (litRe w) (altLits (w2 :: ws))

/-- the two words differ at a position inside both -/
def incomp : Str → Str → Bool
  | a :: as, b :: bs => a != b || incomp as bs
  | _, _ => false

theorem incomp_self : ∀ t : Str, incomp t t = false := by
  intro t
  induction t with
  | nil => rfl
  | cons a as iha => simp [incomp, iha]

theorem litRe_m_prefix : ∀ (w k : Str) (st : MSt), w ≠ [] → st.rest = w ++ k →
    (litRe w).m st = [st.step k] := by
  intro w
  induction w with
  | nil => intro k st h; exact absurd rfl h
  | cons c cs ih =>
    intro k st _ hst
    cases cs with
    | nil => simp [litRe, Re.m, hst]
    | cons d ds =>
      have hst' : st.rest = c :: (d :: ds ++ k) := by simpa using hst
      simp only [litRe, Re.m, hst', beq_self_eq_true, ↓reduceIte, List.flatMap_cons,
        List.flatMap_nil, List.append_nil]
      rw [ih k (st.step (d :: ds ++ k)) (by simp) rfl]
      rfl

theorem litRe_m_incomp : ∀ (w t k : Str) (st : MSt), incomp w t = true → st.rest = t ++ k →
    (litRe w).m st = [] := by
  intro w
  induction w with
  | nil => intro t k st h; simp [incomp] at h
  | cons c cs ih =>
    intro t k st h hst
    cases t with
    | nil => simp [incomp] at h
    | cons b bs =>
      have hst' : st.rest = b :: (bs ++ k) := by simpa using hst
      simp only [incomp, Bool.or_eq_true, bne_iff_ne, ne_eq] at h
      by_cases hcb : b = c
      · subst hcb
        have h2 : incomp cs bs = true := by
          rcases h with h | h
          · exact absurd rfl h
          · exact h
        cases cs with
        | nil => simp [incomp] at h2
        | cons d ds =>
          simp only [litRe, Re.m, hst', beq_self_eq_true, ↓reduceIte, List.flatMap_cons,
            List.flatMap_nil, List.append_nil]
          exact ih bs k (st.step (bs ++ k)) h2 rfl
      · have hne : (b == c) = false := by rw [beq_eq_false_iff_ne]; exact hcb
        cases cs with
        | nil => simp [litRe, Re.m, hst', hne]
        | cons d ds => simp [litRe, Re.m, hst', hne]

theorem altLits_head : ∀ (ws : List Str) (t k : Str), t ∈ ws → t ≠ [] →
    (∀ w ∈ ws, w = t ∨ incomp w t = true) → HeadConsumes (altLits ws) t k := by
  intro ws
  induction ws with
  | nil => intro t k h; simp at h
  | cons w ws ih =>
    intro t k hmem hne hall st hst
    cases ws with
    | nil =>
      have : t = w := by simpa using hmem
      subst this
      refine ⟨st.step k, ?_, rfl, rfl⟩
      simp only [altLits]
      rw [litRe_m_prefix t k st hne hst]; rfl
    | cons w2 ws' =>
      simp only [altLits, Re.m]
      rcases hall w (by simp) with hw | hw
      · subst hw
        refine ⟨st.step k, ?_, rfl, rfl⟩
        rw [litRe_m_prefix w k st hne hst]; rfl
      · rw [litRe_m_incomp w t k st hw hst, List.nil_append]
        have hmem' : t ∈ w2 :: ws' := by
          rcases List.mem_cons.mp hmem with h | h
          · subst h
            have := incomp_self t
            rw [this] at hw; cases hw
          · exact h
        exact ih t k hmem' hne (fun w' hw' => hall w' (List.mem_cons_of_mem _ hw')) st hst

/-- decidable side condition of `altLits_head` -/
def firstLower : Str → Bool
  | c :: _ => isLower c
  | [] => false

def wordsOk (ws : List Str) (t : Str) : Bool :=
  ws.contains t && firstLower t && ws.all (fun w => w == t || incomp w t)

theorem firstLower_ne_nil (t : Str) (h : firstLower t = true) : t ≠ [] := by
  intro e; subst e; cases h

theorem altLits_head' (ws : List Str) (t k : Str) (h : wordsOk ws t = true) :
    HeadConsumes (altLits ws) t k ∧ t ≠ [] ∧ firstLower t = true := by
  simp only [wordsOk, Bool.and_eq_true, List.contains_iff_mem, List.all_eq_true, Bool.or_eq_true,
    beq_iff_eq] at h
  exact ⟨altLits_head ws t k h.1.1 (firstLower_ne_nil t h.1.2) h.2, firstLower_ne_nil t h.1.2, h.1.2⟩

theorem firstOk_lower (n t : Str) (htag : isTagPart n = true) (h : firstLower t = true) :
    FirstOk n t := by
  intro c hc
  rw [htag]
  cases t with
  | nil => cases hc
  | cons x xs =>
    simp only [List.head?_cons, Option.some.injEq] at hc
    subst hc
    simp only [↓reduceIte]
    exact h

/-! ### the remaining part families -/

/-- MAJOR MINOR PATCH NUM INC0: `[0-9]+` / `str(n)` -/
theorem nat_part (n f : Str) (get : VInfo → Nat) (hf : lookup n Gen.partFields = some f)
    (hkd : lookup n Gen.partFormats = some .str) (hget : ∀ v : VInfo, v.get f = .nat (get v))
    (hre : partReOf n = some (.rep digitCls 1 none)) (v : VInfo)
    (rx : Re) (hrx : partReOf n = some rx) (nd : Bool) (hnd : nd = true)
    (htag : isTagPart n = false) : PartHead v n rx nd := by
  rw [hre] at hrx
  have hrx := (Option.some.inj hrx).symm
  subst hrx
  refine ⟨natToStr (get v), ?_, natToStr_ne_nil _, firstOk_digits n _ htag (allDigits_natToStr _), ?_⟩
  · simp only [partText, hf, hkd, hget]; rfl
  · intro k hk
    exact hc_digitsPlus _ k (natToStr_ne_nil _) (allDigits_natToStr _) (hk hnd)

/-- INC1: `[1-9][0-9]*` / `str(n)`, n ≥ 1 -/
theorem pos_part (n f : Str) (get : VInfo → Nat) (hf : lookup n Gen.partFields = some f)
    (hkd : lookup n Gen.partFormats = some .str) (hget : ∀ v : VInfo, v.get f = .nat (get v))
    (hre : partReOf n = some (.seq posDigitCls (.rep digitCls 0 none))) (v : VInfo)
    (hpos : 1 ≤ get v)
    (rx : Re) (hrx : partReOf n = some rx) (nd : Bool) (hnd : nd = true)
    (htag : isTagPart n = false) : PartHead v n rx nd := by
  rw [hre] at hrx
  have hrx := (Option.some.inj hrx).symm
  subst hrx
  refine ⟨natToStr (get v), ?_, natToStr_ne_nil _, firstOk_digits n _ htag (allDigits_natToStr _), ?_⟩
  · simp only [partText, hf, hkd, hget]; rfl
  · intro k hk
    have hd := allDigits_natToStr (get v)
    have hh := natToStr_head_ne_zero (get v) (by omega)
    have hne := natToStr_ne_nil (get v)
    generalize natToStr (get v) = s at hd hh hne
    cases s with
    | nil => exact absurd rfl hne
    | cons c t =>
      rw [allDigits_cons] at hd
      exact hc_posInt c t k hd.1 (hh c t rfl) hd.2 (hk hnd)

theorem partText_BUILD (v : VInfo) : partText v "BUILD".toList = some v.bid := by
  have hf : lookup "BUILD".toList Gen.partFields = some "bid".toList := by decide
  have hkd : lookup "BUILD".toList Gen.partFormats = some .str := by decide
  have hg : v.get "bid".toList = .str v.bid := rfl
  simp only [partText, hf, hkd, hg]; rfl

theorem partText_BLD (v : VInfo) : partText v "BLD".toList = some (natToStr (strToNat v.bid)) := by
  have hf : lookup "BLD".toList Gen.partFields = some "bid".toList := by decide
  have hkd : lookup "BLD".toList Gen.partFormats = some .int := by decide
  have hg : v.get "bid".toList = .str v.bid := rfl
  simp only [partText, hf, hkd, hg]; rfl

theorem partText_TAG (v : VInfo) : partText v "TAG".toList = some v.tag := by
  have hf : lookup "TAG".toList Gen.partFields = some "tag".toList := by decide
  have hkd : lookup "TAG".toList Gen.partFormats = some .str := by decide
  have hg : v.get "tag".toList = .str v.tag := rfl
  simp only [partText, hf, hkd, hg]; rfl

theorem partText_PYTAG (v : VInfo) : partText v "PYTAG".toList = some v.pytag := by
  have hf : lookup "PYTAG".toList Gen.partFields = some "pytag".toList := by decide
  have hkd : lookup "PYTAG".toList Gen.partFormats = some .str := by decide
  have hg : v.get "pytag".toList = .str v.pytag := rfl
  simp only [partText, hf, hkd, hg]; rfl

/-- BUILD: `[0-9]+` / the id verbatim -/
theorem build_part (v : VInfo) (hb : isDigitStr v.bid = true)
    (hre : partReOf "BUILD".toList = some (.rep digitCls 1 none))
    (rx : Re) (hrx : partReOf "BUILD".toList = some rx) (nd : Bool) (hnd : nd = true) :
    PartHead v "BUILD".toList rx nd := by
  rw [hre] at hrx
  have hrx := (Option.some.inj hrx).symm
  subst hrx
  rw [isDigitStr_iff] at hb
  refine ⟨v.bid, partText_BUILD v, hb.1, firstOk_digits _ _ (by decide) hb.2, ?_⟩
  intro k hk
  exact hc_digitsPlus _ k hb.1 hb.2 (hk hnd)

/-- BLD: `[1-9][0-9]*` / `str(int(bid))`, only for a non-zero id -/
theorem bld_part (v : VInfo) (hpos : 1 ≤ strToNat v.bid)
    (hre : partReOf "BLD".toList = some (.seq posDigitCls (.rep digitCls 0 none)))
    (rx : Re) (hrx : partReOf "BLD".toList = some rx) (nd : Bool) (hnd : nd = true) :
    PartHead v "BLD".toList rx nd := by
  rw [hre] at hrx
  have hrx := (Option.some.inj hrx).symm
  subst hrx
  refine ⟨natToStr (strToNat v.bid), partText_BLD v, natToStr_ne_nil _,
    firstOk_digits _ _ (by decide) (allDigits_natToStr _), ?_⟩
  intro k hk
  have hd := allDigits_natToStr (strToNat v.bid)
  have hh := natToStr_head_ne_zero (strToNat v.bid) (by omega)
  have hne := natToStr_ne_nil (strToNat v.bid)
  generalize natToStr (strToNat v.bid) = s at hd hh hne
  cases s with
  | nil => exact absurd rfl hne
  | cons c t =>
    rw [allDigits_cons] at hd
    exact hc_posInt c t k hd.1 (hh c t rfl) hd.2 (hk hnd)

/-- YYYY / GGGG: `[1-9][0-9]{3}` / `str(y)`, 1000..9999, WHATEVER follows -/
theorem year_part (n f : Str) (get : CalOpt → Option Nat) (hf : lookup n Gen.partFields = some f)
    (hkd : lookup n Gen.partFormats = some .str) (hget : ∀ v : VInfo, v.get f = optNat (get v.cal))
    (hre : partReOf n = some (.seq posDigitCls (.rep digitCls 3 (some 3)))) (v : VInfo)
    (hok : optIn (get v.cal) 1000 9999 = true)
    (rx : Re) (hrx : partReOf n = some rx) (nd : Bool) (htag : isTagPart n = false) :
    PartHead v n rx nd := by
  rw [hre] at hrx
  have hrx := (Option.some.inj hrx).symm
  subst hrx
  cases hx : get v.cal with
  | none => rw [hx] at hok; cases hok
  | some y =>
    rw [hx] at hok
    simp only [optIn, Bool.and_eq_true, decide_eq_true_eq] at hok
    refine ⟨natToStr y, ?_, natToStr_ne_nil _, firstOk_digits n _ htag (allDigits_natToStr _), ?_⟩
    · simp only [partText, hf, hkd, hget, hx, optNat]; rfl
    · intro k _
      have hlen := natToStr_length_eq 3 y (by omega) (by omega)
      have hd := allDigits_natToStr y
      have hh := natToStr_head_ne_zero y (by omega)
      generalize natToStr y = s at hd hlen hh
      cases s with
      | nil => simp at hlen
      | cons c t =>
        rw [allDigits_cons] at hd
        have ht : t.length = 3 := by simpa using hlen
        have := hc_posFixed c t k hd.1 (hh c t rfl) hd.2
        rw [ht] at this
        exact this

/-! ### the domain table and the dispatcher -/

def tagWords : List Str := ["preview", "final", "dev", "alpha", "beta", "post", "rc"].map String.toList
def pytagWords : List Str := ["dev", "post", "rc", "a", "b"].map String.toList

theorem re_digitsPlus :
    partReOf "MAJOR".toList = some (.rep digitCls 1 none) ∧
    partReOf "MINOR".toList = some (.rep digitCls 1 none) ∧
    partReOf "PATCH".toList = some (.rep digitCls 1 none) ∧
    partReOf "NUM".toList = some (.rep digitCls 1 none) ∧
    partReOf "INC0".toList = some (.rep digitCls 1 none) ∧
    partReOf "BUILD".toList = some (.rep digitCls 1 none) := by
  refine ⟨?_, ?_, ?_, ?_, ?_, ?_⟩ <;> decide +kernel

theorem re_posInt :
    partReOf "INC1".toList = some (.seq posDigitCls (.rep digitCls 0 none)) ∧
    partReOf "BLD".toList = some (.seq posDigitCls (.rep digitCls 0 none)) := by
  refine ⟨?_, ?_⟩ <;> decide +kernel

theorem re_year4 :
    partReOf "YYYY".toList = some (.seq posDigitCls (.rep digitCls 3 (some 3))) ∧
    partReOf "GGGG".toList = some (.seq posDigitCls (.rep digitCls 3 (some 3))) := by
  refine ⟨?_, ?_⟩ <;> decide +kernel

theorem re_tags :
    partReOf "TAG".toList = some (altLits tagWords) ∧
    partReOf "PYTAG".toList = some (altLits pytagWords) := by
  refine ⟨?_, ?_⟩ <;> decide +kernel

theorem tagWords_ok : Gen.validReleaseTagValues.all (fun t => wordsOk tagWords t) = true := by
  decide +kernel

theorem pytagWords_ok : Gen.validReleaseTagValues.all (fun t =>
    match lookup t Gen.pep440TagByTag with
    | some p => p.isEmpty || wordsOk pytagWords p
    | none => true) = true := by
  decide +kernel

theorem tag_part (v : VInfo) (hok : tagOk v = true) (rx : Re) (hrx : partReOf "TAG".toList = some rx)
    (nd : Bool) : PartHead v "TAG".toList rx nd := by
  rw [re_tags.1] at hrx
  have hrx := (Option.some.inj hrx).symm
  subst hrx
  have h := tagWords_ok
  simp only [List.all_eq_true] at h
  simp only [tagOk, List.contains_iff_mem] at hok
  have hw := h v.tag hok
  exact ⟨v.tag, partText_TAG v, (altLits_head' tagWords v.tag [] hw).2.1,
    firstOk_lower _ _ (by decide) (altLits_head' tagWords v.tag [] hw).2.2,
    fun k _ => (altLits_head' tagWords v.tag k hw).1⟩

theorem pytag_part (v : VInfo) (hok : pytagOk v = true) (rx : Re)
    (hrx : partReOf "PYTAG".toList = some rx) (nd : Bool) : PartHead v "PYTAG".toList rx nd := by
  rw [re_tags.2] at hrx
  have hrx := (Option.some.inj hrx).symm
  subst hrx
  have h := pytagWords_ok
  simp only [List.all_eq_true] at h
  simp only [pytagOk, tagOk, Bool.and_eq_true, List.contains_iff_mem, beq_iff_eq,
    Bool.not_eq_true', List.isEmpty_eq_false_iff] at hok
  obtain ⟨⟨hmem, hlk⟩, hne⟩ := hok
  have hw := h v.tag hmem
  rw [hlk] at hw
  simp only [Bool.or_eq_true, List.isEmpty_iff] at hw
  have hw : wordsOk pytagWords v.pytag = true := by
    rcases hw with hw | hw
    · exact absurd hw hne
    · exact hw
  exact ⟨v.pytag, partText_PYTAG v, hne, firstOk_lower _ _ (by decide) (altLits_head' pytagWords v.pytag [] hw).2.2,
    fun k _ => (altLits_head' pytagWords v.pytag k hw).1⟩

theorem fc_MM : finCheck "MM".toList 1 12 = true := by decide +kernel
theorem fc_0M : finCheck "0M".toList 1 12 = true := by decide +kernel
theorem fc_DD : finCheck "DD".toList 1 31 = true := by decide +kernel
theorem fc_0D : finCheck "0D".toList 1 31 = true := by decide +kernel
theorem fc_JJJ : finCheck "JJJ".toList 1 366 = true := by decide +kernel
theorem fc_00J : finCheck "00J".toList 1 366 = true := by decide +kernel
theorem fc_Q : finCheck "Q".toList 1 4 = true := by decide +kernel
theorem fc_VV : finCheck "VV".toList 1 53 = true := by decide +kernel
theorem fc_0V : finCheck "0V".toList 1 53 = true := by decide +kernel
theorem fc_WW : finCheck "WW".toList 0 52 = true := by decide +kernel
theorem fc_0W : finCheck "0W".toList 0 52 = true := by decide +kernel
theorem fc_UU : finCheck "UU".toList 0 52 = true := by decide +kernel
theorem fc_0U : finCheck "0U".toList 0 52 = true := by decide +kernel
theorem fc_YY : finCheck "YY".toList 2001 2099 = true := by decide +kernel
theorem fc_GG : finCheck "GG".toList 2001 2099 = true := by decide +kernel
theorem fc_0Y : finCheck "0Y".toList 2000 2099 = true := by decide +kernel
theorem fc_0G : finCheck "0G".toList 2000 2099 = true := by decide +kernel

theorem lookup_mem_cl {α} (k : Str) : ∀ (l : List (Str × α)) (x : α), lookup k l = some x → (k, x) ∈ l := by
  intro l
  induction l with
  | nil => intro x h; cases h
  | cons p l ih =>
    intro x h
    obtain ⟨k', y⟩ := p
    simp only [lookup] at h
    split at h
    · next e => subst e; cases h; simp
    · exact List.mem_cons_of_mem _ (ih x h)

/-- THE PER-PART LEMMA: every supported part, on every value of its domain -/
theorem part_head (v : VInfo) (n : Str) (hok : partOk v n = true) (rx : Re)
    (hrx : partReOf n = some rx) : PartHead v n rx (needND n) := by
  unfold partOk at hok
  cases hl : lookup n partDoms with
  | none => rw [hl] at hok; cases hok
  | some d =>
    rw [hl] at hok
    have hmem := lookup_mem_cl n partDoms d hl
    simp only [partDoms, List.mem_cons, Prod.mk.injEq, List.not_mem_nil, or_false] at hmem
    rcases hmem with ⟨rfl, rfl⟩ | ⟨rfl, rfl⟩ | ⟨rfl, rfl⟩ | ⟨rfl, rfl⟩ | ⟨rfl, rfl⟩ | ⟨rfl, rfl⟩ |
      ⟨rfl, rfl⟩ | ⟨rfl, rfl⟩ | ⟨rfl, rfl⟩ | ⟨rfl, rfl⟩ | ⟨rfl, rfl⟩ | ⟨rfl, rfl⟩ | ⟨rfl, rfl⟩ |
      ⟨rfl, rfl⟩ | ⟨rfl, rfl⟩ | ⟨rfl, rfl⟩ | ⟨rfl, rfl⟩ | ⟨rfl, rfl⟩ | ⟨rfl, rfl⟩ | ⟨rfl, rfl⟩ |
      ⟨rfl, rfl⟩ | ⟨rfl, rfl⟩ | ⟨rfl, rfl⟩ | ⟨rfl, rfl⟩ | ⟨rfl, rfl⟩ | ⟨rfl, rfl⟩ | ⟨rfl, rfl⟩ |
      ⟨rfl, rfl⟩ | ⟨rfl, rfl⟩
    · exact year_part _ "year_y".toList (·.yearY) (by decide) (by decide) (fun _ => rfl) re_year4.1 v hok rx hrx _ (by decide)
    · exact cal_part _ "year_y".toList (·.yearY) 2001 2099 (by decide) (fun _ => rfl) fc_YY v hok rx hrx _ (by decide) (by decide)
    · exact cal_part _ "year_y".toList (·.yearY) 2000 2099 (by decide) (fun _ => rfl) fc_0Y v hok rx hrx _ (by decide) (by decide)
    · exact year_part _ "year_g".toList (·.yearG) (by decide) (by decide) (fun _ => rfl) re_year4.2 v hok rx hrx _ (by decide)
    · exact cal_part _ "year_g".toList (·.yearG) 2001 2099 (by decide) (fun _ => rfl) fc_GG v hok rx hrx _ (by decide) (by decide)
    · exact cal_part _ "year_g".toList (·.yearG) 2000 2099 (by decide) (fun _ => rfl) fc_0G v hok rx hrx _ (by decide) (by decide)
    · exact cal_part _ "quarter".toList (·.quarter) 1 4 (by decide) (fun _ => rfl) fc_Q v hok rx hrx _ (by decide) (by decide)
    · exact cal_part _ "month".toList (·.month) 1 12 (by decide) (fun _ => rfl) fc_MM v hok rx hrx _ (by decide) (by decide)
    · exact cal_part _ "month".toList (·.month) 1 12 (by decide) (fun _ => rfl) fc_0M v hok rx hrx _ (by decide) (by decide)
    · exact cal_part _ "dom".toList (·.dom) 1 31 (by decide) (fun _ => rfl) fc_DD v hok rx hrx _ (by decide) (by decide)
    · exact cal_part _ "dom".toList (·.dom) 1 31 (by decide) (fun _ => rfl) fc_0D v hok rx hrx _ (by decide) (by decide)
    · exact cal_part _ "doy".toList (·.doy) 1 366 (by decide) (fun _ => rfl) fc_JJJ v hok rx hrx _ (by decide) (by decide)
    · exact cal_part _ "doy".toList (·.doy) 1 366 (by decide) (fun _ => rfl) fc_00J v hok rx hrx _ (by decide) (by decide)
    · exact cal_part _ "week_w".toList (·.weekW) 0 52 (by decide) (fun _ => rfl) fc_WW v hok rx hrx _ (by decide) (by decide)
    · exact cal_part _ "week_w".toList (·.weekW) 0 52 (by decide) (fun _ => rfl) fc_0W v hok rx hrx _ (by decide) (by decide)
    · exact cal_part _ "week_u".toList (·.weekU) 0 52 (by decide) (fun _ => rfl) fc_UU v hok rx hrx _ (by decide) (by decide)
    · exact cal_part _ "week_u".toList (·.weekU) 0 52 (by decide) (fun _ => rfl) fc_0U v hok rx hrx _ (by decide) (by decide)
    · exact cal_part _ "week_v".toList (·.weekV) 1 53 (by decide) (fun _ => rfl) fc_VV v hok rx hrx _ (by decide) (by decide)
    · exact cal_part _ "week_v".toList (·.weekV) 1 53 (by decide) (fun _ => rfl) fc_0V v hok rx hrx _ (by decide) (by decide)
    · exact nat_part _ "major".toList (·.major) (by decide) (by decide) (fun _ => rfl) re_digitsPlus.1 v rx hrx _ (by decide) (by decide)
    · exact nat_part _ "minor".toList (·.minor) (by decide) (by decide) (fun _ => rfl) re_digitsPlus.2.1 v rx hrx _ (by decide) (by decide)
    · exact nat_part _ "patch".toList (·.patch) (by decide) (by decide) (fun _ => rfl) re_digitsPlus.2.2.1 v rx hrx _ (by decide) (by decide)
    · exact nat_part _ "num".toList (·.num) (by decide) (by decide) (fun _ => rfl) re_digitsPlus.2.2.2.1 v rx hrx _ (by decide) (by decide)
    · exact nat_part _ "inc0".toList (·.inc0) (by decide) (by decide) (fun _ => rfl) re_digitsPlus.2.2.2.2.1 v rx hrx _ (by decide) (by decide)
    · exact pos_part _ "inc1".toList (·.inc1) (by decide) (by decide) (fun _ => rfl) re_posInt.1 v
        (by simpa using hok) rx hrx _ (by decide) (by decide)
    · exact build_part v hok re_digitsPlus.2.2.2.2.2 rx hrx _ (by decide)
    · exact bld_part v (by simp only [Bool.and_eq_true, decide_eq_true_eq] at hok; exact hok.2)
        re_posInt.2 rx hrx _ (by decide)
    · exact tag_part v hok rx hrx _
    · exact pytag_part v hok rx hrx _

end BV
