/-
  Proofs/ComposeLemmas.lean — helper lemmas for the composition theorem of C02
  (Props/C02Compose.lean): heads of the list-of-successes matcher under sequencing, grouping and
  optional repetition; transport of a digit-only regex over a non-digit continuation; the
  per-part "head consumes exactly the rendered text" lemmas; well-formedness (`Pat.wf`) and the
  version-record domain predicate (`Pat.vok`).
-/
import BumpverVerif.Model.PatAst
import BumpverVerif.Proofs.PartLemmas
namespace BV

/-! ### lists -/

theorem flatMap_congr' {α β} (f g : α → List β) : ∀ (l : List α), (∀ x ∈ l, f x = g x) →
    l.flatMap f = l.flatMap g := by
  intro l
  induction l with
  | nil => intro _; rfl
  | cons a l ih =>
    intro h
    simp only [List.flatMap_cons]
    rw [h a (by simp), ih (fun x hx => h x (by simp [hx]))]

theorem head?_flatMap_cons {α β} (f : α → List β) (a : α) (l : List α) (b : β) (tl : List β)
    (h : f a = b :: tl) : ((a :: l).flatMap f).head? = some b := by
  simp [List.flatMap_cons, h]

/-- head of a `flatMap`: the head of `f` on the head, when that is non-empty -/
theorem head?_flatMap {α β} (f : α → List β) (l : List α) (a : α) (b : β)
    (hl : l.head? = some a) (hf : (f a).head? = some b) : (l.flatMap f).head? = some b := by
  cases l with
  | nil => simp at hl
  | cons x xs =>
    simp only [List.head?_cons, Option.some.injEq] at hl
    subst hl
    cases hfa : f x with
    | nil => rw [hfa] at hf; simp at hf
    | cons y ys =>
      rw [hfa] at hf
      simp only [List.head?_cons, Option.some.injEq] at hf
      subst hf
      exact head?_flatMap_cons f x xs y ys hfa

theorem lookup_append {α} (k : Str) (a b : List (Str × α)) :
    lookup k (a ++ b) = match lookup k a with | some x => some x | none => lookup k b := by
  induction a with
  | nil => rfl
  | cons p a ih =>
    obtain ⟨k', x⟩ := p
    simp only [List.cons_append, lookup]
    split
    · rfl
    · exact ih

/-! ### heads under sequencing, grouping, optional repetition -/

theorem head_seq (a b : Re) (st st1 st2 : MSt) (h1 : (a.m st).head? = some st1)
    (h2 : (b.m st1).head? = some st2) : ((Re.seq a b).m st).head? = some st2 := by
  simp only [Re.m]
  exact head?_flatMap b.m (a.m st) st1 st2 h1 h2

/-- `seqR` drops a trailing `eps`; the head is the same -/
theorem head_seqR (a b : Re) (st st1 st2 : MSt) (h1 : (a.m st).head? = some st1)
    (h2 : (b.m st1).head? = some st2) : ((seqR a b).m st).head? = some st2 := by
  unfold seqR
  split
  · simp only [Re.m, List.head?_cons, Option.some.injEq] at h2
    rw [← h2]; exact h1
  · exact head_seq a b st st1 st2 h1 h2

theorem head_chr (c : Char) (st : MSt) (r : Str) (h : st.rest = c :: r) :
    ((Re.chr c).m st).head? = some (st.step r) := by
  simp [Re.m, h]

theorem head_grp (f : Str) (rx : Re) (st st0 : MSt) (t k : Str) (hst : st.rest = t ++ k)
    (h : (rx.m st).head? = some st0) (hr : st0.rest = k) :
    ∃ st1, ((Re.grp f rx).m st).head? = some st1 ∧ st1.rest = k ∧ st1.caps = (f, t) :: st0.caps := by
  refine ⟨{ st0 with caps := (f, t) :: st0.caps }, ?_, hr, rfl⟩
  simp only [Re.m, List.head?_map, h, Option.map_some, hr, hst, List.length_append]
  have : t.length + k.length - k.length = t.length := by omega
  rw [this, List.take_left']
  rfl

/-- `mRep` with the upper bound exhausted returns the state itself -/
theorem mRep_max_zero (step : MSt → List MSt) (fuel : Nat) (st : MSt) :
    mRep step fuel 0 (some 0) st = [st] := by
  cases fuel <;> simp [mRep]

/-- optional group PRESENT: the body matches and consumes at least one character, so the
    one-iteration branch is the head -/
theorem head_opt_present (b : Re) (st st1 : MSt) (h : (b.m st).head? = some st1)
    (hlt : st1.rest.length < st.rest.length) :
    ((Re.rep b 0 (some 1)).m st).head? = some st1 := by
  cases hb : b.m st with
  | nil => rw [hb] at h; simp at h
  | cons x xs =>
    rw [hb] at h
    simp only [List.head?_cons, Option.some.injEq] at h
    subst h
    cases hl : st.rest.length with
    | zero => omega
    | succ n =>
      simp only [Re.m, hl, mRep, hb]
      have : (some 1 == some 0) = false := by decide
      simp [this, hl ▸ hlt, mRep_max_zero]

/-- optional group OMITTED at the end of the input -/
theorem head_opt_nil (b : Re) (st : MSt) (h : st.rest = []) :
    (Re.rep b 0 (some 1)).m st = [st] := by
  simp [Re.m, h, mRep]

/-! ### fuel independence of `mRep` -/

theorem mRep_fuel (step : MSt → List MSt) : ∀ (f1 f2 min : Nat) (max : Option Nat) (st : MSt),
    st.rest.length ≤ f1 → st.rest.length ≤ f2 →
    mRep step f1 min max st = mRep step f2 min max st := by
  intro f1
  induction f1 with
  | zero =>
    intro f2 min max st h1 _
    cases f2 with
    | zero => rfl
    | succ f2 =>
      have h0 : st.rest.length = 0 := by omega
      simp [mRep, h0]
  | succ f1 ih =>
    intro f2 min max st h1 h2
    cases f2 with
    | zero =>
      have h0 : st.rest.length = 0 := by omega
      simp [mRep, h0]
    | succ f2 =>
      simp only [mRep]
      congr 1
      split
      · rfl
      · apply flatMap_congr'
        intro s hs
        have hlt : s.rest.length < st.rest.length := by
          have := (List.mem_filter.mp hs).2
          simpa using this
        exact ih f2 _ _ s (by omega) (by omega)

/-! ### transport of a digit-only regex over a continuation that does not start with a digit -/

/-- append `k` to the remaining input (captures and start flag replaced uniformly) -/
def MSt.tr (k : Str) (C : List (Str × Str)) (b : Bool) (s : MSt) : MSt :=
  { rest := s.rest ++ k, start := b && s.start, caps := C }

def ClsItem.digitOnly : ClsItem → Bool
  | .ch c => isDigit c
  | .range lo hi => isDigit lo && isDigit hi
  | _ => false

/-- regexes built from digit characters, positive classes of digit ranges, sequence,
    alternation and repetition: they can only ever consume digits -/
def Re.digitOnly : Re → Bool
  | .eps => true
  | .chr c => isDigit c
  | .cls neg items => !neg && items.all ClsItem.digitOnly
  | .seq a b => Re.digitOnly a && Re.digitOnly b
  | .alt a b => Re.digitOnly a && Re.digitOnly b
  | .rep r _ _ => Re.digitOnly r
  | _ => false

theorem tr_step (k : Str) (C : List (Str × Str)) (b : Bool) (s : MSt) (r : Str) :
    (MSt.tr k C b s).step (r ++ k) = MSt.tr k C b (s.step r) := by
  simp [MSt.tr, MSt.step]

theorem mRep_tr (k : Str) (C : List (Str × Str)) (b : Bool) (step : MSt → List MSt)
    (hstep : ∀ s, step (MSt.tr k C b s) = (step s).map (MSt.tr k C b)) :
    ∀ (fuel min : Nat) (max : Option Nat) (st : MSt),
      mRep step fuel min max (MSt.tr k C b st) = (mRep step fuel min max st).map (MSt.tr k C b) := by
  intro fuel
  induction fuel with
  | zero => intro min max st; simp only [mRep]; split <;> rfl
  | succ f ih =>
    intro min max st
    simp only [mRep, List.map_append]
    congr 1
    · split
      · rfl
      · rw [hstep, List.filter_map, List.flatMap_map, List.map_flatMap]
        have hp : ((fun st' : MSt => decide (st'.rest.length < (MSt.tr k C b st).rest.length)) ∘ MSt.tr k C b)
            = (fun st' : MSt => decide (st'.rest.length < st.rest.length)) := by
          funext s
          simp [MSt.tr]
        rw [hp]
        apply flatMap_congr'
        intro s _
        exact ih _ _ s
    · split <;> rfl

theorem ClsItem.digitOnly_matches (it : ClsItem) (h : it.digitOnly = true) (x : Char)
    (hx : isDigit x = false) : it.matches x = false := by
  cases it with
  | ch c =>
    simp only [ClsItem.digitOnly] at h
    simp only [ClsItem.matches, beq_eq_false_iff_ne, ne_eq]
    intro e; subst e; rw [h] at hx; cases hx
  | range lo hi =>
    simp only [ClsItem.digitOnly, Bool.and_eq_true, isDigit_iff] at h
    have hx' : ¬ (48 ≤ x.toNat ∧ x.toNat ≤ 57) := by
      rw [← isDigit_iff, hx]; simp
    cases hm : (ClsItem.range lo hi).matches x with
    | false => rfl
    | true =>
      simp only [ClsItem.matches, Bool.and_eq_true, decide_eq_true_eq, Char.le_def] at hm
      have h1 : lo.toNat ≤ x.toNat := hm.1
      have h2 : x.toNat ≤ hi.toNat := hm.2
      omega
  | _ => simp [ClsItem.digitOnly] at h

theorem any_digitOnly_false (items : List ClsItem) (h : items.all ClsItem.digitOnly = true) (x : Char)
    (hx : isDigit x = false) : items.any (·.matches x) = false := by
  induction items with
  | nil => rfl
  | cons it items ih =>
    simp only [List.all_cons, Bool.and_eq_true] at h
    simp only [List.any_cons, ClsItem.digitOnly_matches it h.1 x hx, ih h.2, Bool.or_false]

/-- a digit-only regex behaves on `s ++ k` exactly as on `s` when `k` does not start with a
    digit: it never reads into `k` -/
theorem digitOnly_tr (k : Str) (hk : ∀ c, k.head? = some c → isDigit c = false)
    (C : List (Str × Str)) (b : Bool) :
    ∀ (r : Re), r.digitOnly = true → ∀ st : MSt,
      r.m (MSt.tr k C b st) = (r.m st).map (MSt.tr k C b) := by
  intro r
  induction r with
  | eps => intro _ st; rfl
  | chr c =>
    intro h st
    simp only [Re.digitOnly] at h
    cases hr : st.rest with
    | nil =>
      cases hk' : k with
      | nil => simp [Re.m, MSt.tr, hr]
      | cons x k' =>
        have hx := hk x (by rw [hk']; rfl)
        have hne : (x == c) = false := by
          rw [beq_eq_false_iff_ne]; intro e; subst e; rw [h] at hx; cases hx
        simp [Re.m, MSt.tr, hr, hne]
    | cons y r =>
      have e : (MSt.tr k C b st).rest = y :: (r ++ k) := by simp [MSt.tr, hr]
      simp only [Re.m, e, hr]
      split
      · simp only [List.map_cons, List.map_nil, tr_step]
      · rfl
  | any => intro h; simp [Re.digitOnly] at h
  | cls neg items =>
    intro h st
    simp only [Re.digitOnly, Bool.and_eq_true, Bool.not_eq_true'] at h
    obtain ⟨hneg, hit⟩ := h
    subst hneg
    cases hr : st.rest with
    | nil =>
      cases hk' : k with
      | nil => simp [Re.m, MSt.tr, hr]
      | cons x k' =>
        have hx := hk x (by rw [hk']; rfl)
        simp [Re.m, MSt.tr, hr, any_digitOnly_false items hit x hx]
    | cons y r =>
      have e : (MSt.tr k C b st).rest = y :: (r ++ k) := by simp [MSt.tr, hr]
      simp only [Re.m, e, hr]
      split
      · simp only [List.map_cons, List.map_nil, tr_step]
      · rfl
  | seq a b' iha ihb =>
    intro h st
    simp only [Re.digitOnly, Bool.and_eq_true] at h
    simp only [Re.m]
    rw [iha h.1, List.flatMap_map, List.map_flatMap]
    apply flatMap_congr'
    intro s _
    exact ihb h.2 s
  | alt a b' iha ihb =>
    intro h st
    simp only [Re.digitOnly, Bool.and_eq_true] at h
    simp only [Re.m, List.map_append, iha h.1, ihb h.2]
  | rep r mn mx ih =>
    intro h st
    simp only [Re.digitOnly] at h
    simp only [Re.m]
    rw [mRep_tr k C b r.m (ih h)]
    congr 1
    apply mRep_fuel
    · simp [MSt.tr]
    · exact Nat.le_refl _
  | grp n r _ => intro h; simp [Re.digitOnly] at h
  | bol => intro h; simp [Re.digitOnly] at h
  | eol => intro h; simp [Re.digitOnly] at h

/-- `rx` on `t ++ k`: the first success has consumed exactly `t` (captures untouched) -/
def HeadConsumes (rx : Re) (t k : Str) : Prop :=
  ∀ st : MSt, st.rest = t ++ k →
    ∃ st0, (rx.m st).head? = some st0 ∧ st0.rest = k ∧ st0.caps = st.caps

/-- kernel-checkable: on `t` alone the first success consumes all of `t` -/
def headRestNil (rx : Re) (t : Str) : Bool :=
  match (rx.m { rest := t, start := true, caps := [] }).head? with
  | some s => s.rest.isEmpty
  | none => false

theorem headConsumes_of_digitOnly (rx : Re) (hd : rx.digitOnly = true) (t : Str)
    (ht : headRestNil rx t = true) (k : Str) (hk : ∀ c, k.head? = some c → isDigit c = false) :
    HeadConsumes rx t k := by
  intro st hst
  obtain ⟨r, sf, c⟩ := st
  simp only at hst
  subst hst
  have e : ({ rest := t ++ k, start := sf, caps := c } : MSt)
      = MSt.tr k c sf { rest := t, start := true, caps := [] } := by
    simp [MSt.tr]
  unfold headRestNil at ht
  cases hh : (rx.m { rest := t, start := true, caps := [] }).head? with
  | none => rw [hh] at ht; cases ht
  | some s0 =>
    rw [hh] at ht
    simp only [List.isEmpty_iff] at ht
    refine ⟨MSt.tr k c sf s0, ?_, ?_, ?_⟩
    · rw [e, digitOnly_tr k hk _ _ rx hd, List.head?_map, hh]; rfl
    · simp [MSt.tr, ht]
    · rfl

/-! ### per-part lemmas -/

def NoDigitAhead (k : Str) : Prop := ∀ c, k.head? = some c → isDigit c = false

/-- what the composition needs from one part: it renders to a non-empty text that the part's
    regex consumes exactly, as the FIRST success, before every admissible continuation
    (`nd = true`: the continuation must not start with a digit) -/
def PartHead (v : VInfo) (n : Str) (rx : Re) (nd : Bool) : Prop :=
  ∃ t, partText v n = some t ∧ t ≠ [] ∧ ∀ k, (nd = true → NoDigitAhead k) → HeadConsumes rx t k

def optIn (o : Option Nat) (lo hi : Nat) : Bool :=
  match o with
  | some x => decide (lo ≤ x) && decide (x ≤ hi)
  | none => false

/-- kernel check of one finite calendar part over its whole domain `lo..hi`: the regex is
    digit-only, and every rendered value is non-empty and consumed in full by the FIRST success -/
def finCheck (n : Str) (lo hi : Nat) : Bool :=
  match partReOf n, lookup n Gen.partFormats with
  | some rx, some kd =>
    rx.digitOnly && (List.range (hi + 1)).all (fun x =>
      decide (x < lo) || (headRestNil rx (fmtValue kd (.nat x)) && !(fmtValue kd (.nat x)).isEmpty))
  | _, _ => false

theorem cal_part (n f : Str) (get : CalOpt → Option Nat) (lo hi : Nat)
    (hf : lookup n Gen.partFields = some f) (hget : ∀ v : VInfo, v.get f = optNat (get v.cal))
    (hchk : finCheck n lo hi = true) (v : VInfo) (hok : optIn (get v.cal) lo hi = true)
    (rx : Re) (hrx : partReOf n = some rx) (nd : Bool) (hnd : nd = true) : PartHead v n rx nd := by
  unfold finCheck at hchk
  rw [hrx] at hchk
  cases hkd : lookup n Gen.partFormats with
  | none => rw [hkd] at hchk; cases hchk
  | some kd =>
    rw [hkd] at hchk
    simp only [Bool.and_eq_true, List.all_eq_true, List.mem_range, Bool.or_eq_true,
      decide_eq_true_eq, Bool.not_eq_true', List.isEmpty_eq_false_iff] at hchk
    obtain ⟨hdo, hall⟩ := hchk
    cases hx : get v.cal with
    | none => rw [hx] at hok; cases hok
    | some x =>
      rw [hx] at hok
      simp only [optIn, Bool.and_eq_true, decide_eq_true_eq] at hok
      rcases hall x (by omega) with hlt | ⟨hh, hne⟩
      · omega
      · refine ⟨fmtValue kd (.nat x), ?_, hne, ?_⟩
        · simp only [partText, hf, hkd, hget, hx, optNat]
        · intro k hk
          exact headConsumes_of_digitOnly rx hdo _ hh k (hk hnd)

end BV
