/-
  Proofs/Tie_validateDate.lean — the definition GENERATED from the Python source of
  `cli._validate_date` (Gen/F_validateDate.lean) equals the reference `validateDateRef` on all inputs.

  The hand model (Model/Cli.lean, `cliTest` / `cliUpdateVersion`) keeps of this function only the
  conflict rule `dateGiven && fl.pinDate → exit 1` and receives the date already parsed;
  `validateDate_conflict` derives exactly that rule from the generated definition.  The rule needs
  one fact about the library: `strptime("", "%Y-%m-%d")` raises ValueError (hypothesis `hempty`;
  the Python test is `if date and pin_date`, so `--date '' --pin-date` passes the first test and
  exits 1 only through the failing `strptime`).

  `dt.datetime.strptime` and `.date()` are parameters of the generated definition
  (`strptime s fmt = none` = ValueError).
-/
import BumpverVerif.Gen.F_validateDate
namespace BV

/-- `_validate_date` written by hand -/
def validateDateRef {DateTime : Type} (strptime : Str → Str → Option DateTime) (dateOf : DateTime → Date)
    (date : Option Str) (pin_date : Bool) : Except Exc (Option Date) :=
  match date with
  | none => .ok none
  | some s =>
    if !s.isEmpty && pin_date then .error (.sysExit 1)
    else match strptime s "%Y-%m-%d".toList with
      | none => .error (.sysExit 1)
      | some d => .ok (some (dateOf d))

theorem tie_validateDate {DateTime : Type} (strptime : Str → Str → Option DateTime) (dateOf : DateTime → Date)
    (date : Option Str) (pin_date : Bool) :
    GenC.validateDate strptime dateOf date pin_date = validateDateRef strptime dateOf date pin_date := by
  unfold GenC.validateDate validateDateRef
  cases date with
  | none => first | rfl | (cases pin_date <;> rfl)
  | some s =>
    dsimp only
    generalize strptime s "%Y-%m-%d".toList = r
    cases hs : s.isEmpty <;> cases pin_date <;> cases r <;> simp [Exc.isValueError]

/-- the rule the hand model keeps: `--date` together with `--pin-date` is exit code 1 -/
theorem validateDate_conflict {DateTime : Type} (strptime : Str → Str → Option DateTime) (dateOf : DateTime → Date)
    (hempty : strptime [] "%Y-%m-%d".toList = none) (s : Str) :
    GenC.validateDate strptime dateOf (some s) true = .error (.sysExit 1) := by
  rw [tie_validateDate]
  unfold validateDateRef
  cases s with
  | nil => simp only [hempty]; rfl
  | cons c cs => rfl

/-- without `--date` nothing is checked -/
theorem validateDate_absent {DateTime : Type} (strptime : Str → Str → Option DateTime) (dateOf : DateTime → Date)
    (pin : Bool) : GenC.validateDate strptime dateOf none pin = .ok none := by
  rw [tie_validateDate]; rfl

end BV
