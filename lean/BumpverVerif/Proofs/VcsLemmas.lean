/-
  Proofs/VcsLemmas.lean — helper lemmas about `pyFormat`, `shlexSplit`, `statusParse`.
-/
import BumpverVerif.Model.Vcs
namespace BV

theorem dropLast_append_of_getLast? {α} {l : List α} {a : α} (h : l.getLast? = some a) :
    l.dropLast ++ [a] = l := by
  have hne : l ≠ [] := by rintro rfl; simp at h
  rw [List.getLast?_eq_some_getLast hne] at h
  cases h
  exact List.dropLast_concat_getLast hne

/-! ### `fmtGo` / `pyFormat` -/

theorem wordChar_ne_rbrace {c : Char} (h : (isAlnum c || c == '_') = true) : c ≠ '}' := by
  rintro rfl; revert h; decide

theorem wordChar_ne_lbrace {c : Char} (h : (isAlnum c || c == '_') = true) : c ≠ '{' := by
  rintro rfl; revert h; decide

theorem simpleName_all {k : Str} (h : simpleName k = true) :
    ∀ c ∈ k, (isAlnum c || c == '_') = true := by
  simp only [simpleName, Bool.and_eq_true, List.all_eq_true] at h
  exact h.1.2

theorem simpleName_ne_nil {k : Str} (h : simpleName k = true) : k ≠ [] := by
  rintro rfl; revert h; decide

theorem Except_map_eq_ok {ε α β} {f : α → β} {x : Except ε α} {b : β}
    (h : x.map f = .ok b) : ∃ a, x = .ok a ∧ f a = b := by
  cases x with
  | error e => simp [Except.map] at h
  | ok a => exact ⟨a, rfl, by simpa [Except.map] using h⟩

theorem fmtGo_text_plain (kw : List (Str × Str)) {c : Char} (r : Str)
    (h1 : c ≠ '{') (h2 : c ≠ '}') :
    fmtGo kw .text (c :: r) = (fmtGo kw .text r).map (c :: ·) := by
  simp [fmtGo, h1, h2]

theorem fmtGo_text_lbrace2 (kw : List (Str × Str)) (r : Str) :
    fmtGo kw .text ('{' :: '{' :: r) = (fmtGo kw .text r).map ('{' :: ·) := by
  simp [fmtGo]

theorem fmtGo_text_rbrace2 (kw : List (Str × Str)) (r : Str) :
    fmtGo kw .text ('}' :: '}' :: r) = (fmtGo kw .text r).map ('}' :: ·) := by
  simp [fmtGo]

theorem fmtGo_field_run (kw : List (Str × Str)) (k : Str) (hk : ∀ c ∈ k, c ≠ '}') :
    ∀ (acc r : Str), fmtGo kw (.field acc) (k ++ '}' :: r)
      = fmtGo kw (.field (k.reverse ++ acc)) ('}' :: r) := by
  induction k with
  | nil => intro acc r; rfl
  | cons c k ih =>
    intro acc r
    have hc : c ≠ '}' := hk c (by simp)
    have := ih (fun d hd => hk d (by simp [hd])) (c :: acc) r
    simp only [List.cons_append, fmtGo, beq_iff_eq, hc, if_false] at this ⊢
    simpa using this

/-- a lone `{k}` slot followed by `r` -/
theorem fmtGo_slot (kw : List (Str × Str)) {k v : Str} (r : Str)
    (hs : simpleName k = true) (hl : lookup k kw = some v) :
    fmtGo kw .text ('{' :: k ++ '}' :: r) = (fmtGo kw .text r).map (v ++ ·) := by
  have hall := simpleName_all hs
  cases k with
  | nil => exact absurd rfl (simpleName_ne_nil hs)
  | cons c k =>
    have hc1 : c ≠ '{' := wordChar_ne_lbrace (hall c (by simp))
    have hc2 : c ≠ '}' := wordChar_ne_rbrace (hall c (by simp))
    have hrun := fmtGo_field_run kw k
      (fun d hd => wordChar_ne_rbrace (hall d (by simp [hd]))) [c] r
    simp only [List.cons_append, fmtGo, beq_self_eq_true, if_true, beq_iff_eq, hc1, hc2, if_false]
    rw [hrun]
    simp [fmtGo, hs, hl]

/-- whole token `{k}` -/
theorem pyFormat_slot (kw : List (Str × Str)) {k v : Str}
    (hs : simpleName k = true) (hl : lookup k kw = some v) :
    pyFormat kw ('{' :: k ++ ['}']) = .ok v := by
  have := fmtGo_slot kw [] hs hl
  simpa [pyFormat, fmtGo, Except.map] using this

/-- a template that formats without any keyword formats identically under every `kw` -/
theorem fmtGo_static (kw : List (Str × Str)) (s : Str) :
    ∀ (st : FState) (r : Str), fmtGo [] st s = .ok r → fmtGo kw st s = .ok r := by
  induction s with
  | nil => intro st r h; cases st <;> simp_all [fmtGo]
  | cons c s ih =>
    intro st r h
    cases st with
    | text =>
      simp only [fmtGo] at h ⊢
      split at h
      · rename_i h1; simp only [h1, if_true]; exact ih _ _ h
      · split at h
        · rename_i h1 h2; simp only [h1, h2, if_true]; exact ih _ _ h
        · rename_i h1 h2
          simp only [h1, h2]
          obtain ⟨a, ha, rfl⟩ := Except_map_eq_ok h
          rw [ih _ _ ha]; rfl
    | open_ =>
      simp only [fmtGo] at h ⊢
      split at h
      · rename_i h1; simp only [h1, if_true]
        obtain ⟨a, ha, rfl⟩ := Except_map_eq_ok h
        rw [ih _ _ ha]; rfl
      · split at h
        · cases h
        · rename_i h1 h2; simp only [h1, h2]; exact ih _ _ h
    | close_ =>
      simp only [fmtGo] at h ⊢
      split at h
      · rename_i h1; simp only [h1, if_true]
        obtain ⟨a, ha, rfl⟩ := Except_map_eq_ok h
        rw [ih _ _ ha]; rfl
      · cases h
    | field acc =>
      simp only [fmtGo] at h ⊢
      split at h
      · split at h
        · cases h
        · simp [lookup] at h
      · rename_i h1; simp only [h1]; exact ih _ _ h

theorem pyFormat_static (kw : List (Str × Str)) {tok r : Str}
    (h : pyFormat [] tok = .ok r) : pyFormat kw tok = .ok r :=
  fmtGo_static kw tok .text r h

/-! ### `strip`, `splitFirstWs`, `statusParse` -/

theorem isPySpace_blank : isPySpace ' ' = true := by decide

theorem rstrip_append_nospace (pre path : Str) (hne : path ≠ [])
    (hp : ∀ c ∈ path, isPySpace c = false) :
    ((pre ++ path).reverse.dropWhile isPySpace).reverse = pre ++ path := by
  have hl : isPySpace (path.getLast hne) = false := hp _ (List.getLast_mem hne)
  rw [← List.dropLast_concat_getLast hne]
  simp [hl]

theorem dropWhile_nospace (path : Str) (hne : path ≠ [])
    (hp : ∀ c ∈ path, isPySpace c = false) : path.dropWhile isPySpace = path := by
  cases path with
  | nil => exact absurd rfl hne
  | cons c p => simp [hp c (by simp)]

theorem strip_nospace (path : Str) (hne : path ≠ [])
    (hp : ∀ c ∈ path, isPySpace c = false) : strip path = path := by
  have := rstrip_append_nospace [] path hne hp
  simp only [List.nil_append] at this
  simp only [strip, dropWhile_nospace path hne hp, this]

theorem statusParse_cons_of (files : List Str) {line l st path p : Str} (rest : List Str)
    (h1 : strip line = l) (h2 : l ≠ []) (h3 : splitFirstWs l = some (st, path))
    (h4 : strip path = p) :
    statusParse files (line :: rest) = (statusParse files rest).map (fun ps =>
        if files.contains p || st != "??".toList then p :: ps else ps) := by
  have h2' : l.isEmpty = false := by cases l <;> simp_all
  simp only [statusParse, h1, h2', h3, h4]
  simp

theorem statusParse_porcelain (files : List Str) (x y : Char) (path : Str) (rest : List Str)
    (hx : x = ' ' ∨ isPySpace x = false) (hy : y = ' ' ∨ isPySpace y = false)
    (hxy : ¬ (x = ' ' ∧ y = ' '))
    (hne : path ≠ []) (hp : ∀ c ∈ path, isPySpace c = false) :
    statusParse files ((x :: y :: ' ' :: path) :: rest) =
      (statusParse files rest).map (fun ps =>
        if files.contains path || !(x == '?' && y == '?') then path :: ps else ps) := by
  have hsp := strip_nospace path hne hp
  have hdw := dropWhile_nospace path hne hp
  have hemp : path.isEmpty = false := by cases path <;> simp_all
  rcases hx with rfl | hx
  · rcases hy with rfl | hy
    · exact absurd ⟨rfl, rfl⟩ hxy
    · have h1 : strip (' ' :: y :: ' ' :: path) = y :: ' ' :: path := by
        have := rstrip_append_nospace [y, ' '] path hne hp
        simp only [strip, List.dropWhile_cons, isPySpace_blank, hy, if_true]
        simpa using this
      have h3 : splitFirstWs (y :: ' ' :: path) = some ([y], path) := by
        simp [splitFirstWs, isPySpace_blank, hy, hdw, hemp]
      rw [statusParse_cons_of files rest h1 (by simp) h3 hsp]
      simp
  · have hxb : x ≠ ' ' := by rintro rfl; simp [isPySpace_blank] at hx
    rcases hy with rfl | hy
    · have h1 : strip (x :: ' ' :: ' ' :: path) = x :: ' ' :: ' ' :: path := by
        have := rstrip_append_nospace [x, ' ', ' '] path hne hp
        simp only [strip, List.dropWhile_cons, hx]
        simpa using this
      have h3 : splitFirstWs (x :: ' ' :: ' ' :: path) = some ([x], path) := by
        simp [splitFirstWs, isPySpace_blank, hx, hdw, hemp]
      rw [statusParse_cons_of files rest h1 (by simp) h3 hsp]
      simp
    · have h1 : strip (x :: y :: ' ' :: path) = x :: y :: ' ' :: path := by
        have := rstrip_append_nospace [x, y, ' '] path hne hp
        simp only [strip, List.dropWhile_cons, hx]
        simpa using this
      have h3 : splitFirstWs (x :: y :: ' ' :: path) = some ([x, y], path) := by
        simp [splitFirstWs, isPySpace_blank, hx, hy, hdw, hemp]
      rw [statusParse_cons_of files rest h1 (by simp) h3 hsp]
      have : ([x, y] != "??".toList) = !(x == '?' && y == '?') := by
        simp [bne, BEq.beq, List.beq]
      rw [this]

/-- all lines of a porcelain listing at once -/
theorem statusParse_porcelain_map {α} (files : List Str) (x y : α → Char) (path : α → Str)
    (ls : List α)
    (h : ∀ l ∈ ls, (x l = ' ' ∨ isPySpace (x l) = false) ∧ (y l = ' ' ∨ isPySpace (y l) = false)
      ∧ ¬ (x l = ' ' ∧ y l = ' ') ∧ path l ≠ [] ∧ ∀ c ∈ path l, isPySpace c = false) :
    statusParse files (ls.map (fun l => x l :: y l :: ' ' :: path l)) =
      some (ls.filterMap (fun l =>
        if files.contains (path l) || !(x l == '?' && y l == '?') then some (path l) else none)) := by
  induction ls with
  | nil => rfl
  | cons l ls ih =>
    obtain ⟨h1, h2, h3, h4, h5⟩ := h l (by simp)
    rw [List.map_cons, statusParse_porcelain files _ _ _ _ h1 h2 h3 h4 h5,
      ih (fun l' hl' => h l' (by simp [hl']))]
    simp only [Option.map_some, List.filterMap_cons]
    split <;> rfl

theorem filterMap_ite_isEmpty {α β} (p : α → Bool) (f : α → β) (ls : List α) :
    (ls.filterMap (fun l => if p l then some (f l) else none)).isEmpty = !ls.any p := by
  induction ls with
  | nil => rfl
  | cons l ls ih => cases hp : p l <;> simp [hp, ih]

theorem filterMap_ite_any {α β} (p : α → Bool) (f : α → β) (q : β → Bool) (ls : List α) :
    (ls.filterMap (fun l => if p l then some (f l) else none)).any q
      = ls.any (fun l => p l && q (f l)) := by
  induction ls with
  | nil => rfl
  | cons l ls ih => cases hp : p l <;> simp [hp, ih]

theorem assertNotDirty_porcelain {α} (files : List Str) (x y : α → Char) (path : α → Str)
    (ls : List α) (allowDirty : Bool)
    (h : ∀ l ∈ ls, (x l = ' ' ∨ isPySpace (x l) = false) ∧ (y l = ' ' ∨ isPySpace (y l) = false)
      ∧ ¬ (x l = ' ' ∧ y l = ' ') ∧ path l ≠ [] ∧ ∀ c ∈ path l, isPySpace c = false) :
    assertNotDirty (ls.map (fun l => x l :: y l :: ' ' :: path l)) files allowDirty =
      if (!allowDirty && ls.any (fun l => files.contains (path l) || !(x l == '?' && y l == '?')))
          || ls.any (fun l => files.contains (path l))
      then .abort else .proceed := by
  simp only [assertNotDirty, statusParse_porcelain_map files x y path ls h]
  rw [filterMap_ite_isEmpty (fun l => files.contains (path l) || !(x l == '?' && y l == '?')) path,
    filterMap_ite_any (fun l => files.contains (path l) || !(x l == '?' && y l == '?')) path]
  have e : (ls.any fun l => (files.contains (path l) || !(x l == '?' && y l == '?')) && files.contains (path l))
      = ls.any (fun l => files.contains (path l)) := by
    congr 1; funext l; cases files.contains (path l) <;> simp
  rw [e]
  generalize (ls.any fun l => files.contains (path l) || !(x l == '?' && y l == '?')) = a
  generalize (ls.any fun l => files.contains (path l)) = b
  cases allowDirty <;> cases a <;> cases b <;> rfl
end BV
