/-
  Proofs/VcsLemmas.lean — helper lemmas about `pyFormat`, `shlexSplit`, `statusParse`.
-/
import BumpverVerif.Model.Vcs
namespace BV

end BV
