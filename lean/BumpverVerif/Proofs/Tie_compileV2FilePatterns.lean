/-
  Proofs/Tie_compileV2FilePatterns.lean — the definitions GENERATED from the Python source of
  `config._compile_v2_file_patterns` and `config._compile_v1_file_patterns` (generators; Gen/F_compileV2FilePatterns.lean,
  Gen/F_compileV1FilePatterns.lean) equal the reference generator of Model/FilePatterns.lean:

    the two dict reads `raw_cfg['version_pattern']`, `raw_cfg['file_patterns']` (KeyError — raised when the generator
    is first advanced, i.e. as its `exc`), then `compileItemsE` over the items of `_iter_glob_expanded_file_patterns`:
    per expanded path (v2) the `[`-at-start check raising ValueError and the provoked exception of
    `compile_pattern` for every raw pattern IN ORDER (`checkPatternsE`; the handler `except re.error: …; raise`
    re-raises), then `compile_patterns`; (v1) only `compile_patterns`.  The first exception ends the generator; the
    exception that ended the glob expansion comes after its last item.

  For ALL raw dicts, glob functions and callees (`compile_pattern`, `compile_patterns` are parameters that receive
  the version pattern AS FOUND in the dict).
-/
import BumpverVerif.Gen.F_compileV2FilePatterns
import BumpverVerif.Gen.F_compileV1FilePatterns
import BumpverVerif.Proofs.Tie_iterGlobExpandedFilePatterns
namespace BV
open TieP Py

/-- the generator after its two dict reads (reference; `c.cps1` is not used when `isNew`, `c.cp2`/`c.cps2` not otherwise) -/
def compileItemsD {π : Type} (glob : Str → Except Str (List Str)) (c : CompileCallees π) (isNew : Bool)
    (d : TomlSection) : PyGen (Str × List π) :=
  match lookup "version_pattern".toList d.opts with
  | none => PyGen.raise "KeyError".toList
  | some vp =>
    match d.filePatterns with
    | none => PyGen.raise "KeyError".toList
    | some fps => compileItemsE c isNew vp (iterGlobExpandedE glob fps).items (iterGlobExpandedE glob fps).exc

namespace TieP

theorem compileV2_loop2 {π : Type} (glob : Str → Except Str (List Str)) (cp : RawVal → Str → Except Str π)
    (cps : RawVal → List Str → Except Str (List π)) (vp : RawVal) (f : Str) (pats : List Str) :
    GenF.compileV2FilePatterns.loop2 glob cp cps vp f pats = checkPatternsE cp vp pats := by
  induction pats with
  | nil => rfl
  | cons p ps ih =>
    unfold GenF.compileV2FilePatterns.loop2 checkPatternsE
    generalize startsWith p "[".toList = b
    cases b with
    | true => rfl
    | false =>
      simp only [Bool.false_eq_true, if_false, ih]
      cases cp vp p with
      | error e => simp only [ite_self]
      | ok r => rfl

theorem compileV2_loop1 {π : Type} (glob : Str → Except Str (List Str)) (c : CompileCallees π)
    (vp : RawVal) (items : List (Str × List Str)) (tail : Option Str) :
    PyGen.andThen (GenF.compileV2FilePatterns.loop1 glob c.cp2 c.cps2 vp items) (PyGen.ofExc tail) =
      compileItemsE c true vp items tail := by
  induction items with
  | nil => simp [GenF.compileV2FilePatterns.loop1, compileItemsE]
  | cons hd t ih =>
    obtain ⟨f, pats⟩ := hd
    unfold GenF.compileV2FilePatterns.loop1 compileItemsE compileItemE
    simp only [compileV2_loop2, if_true]
    cases checkPatternsE c.cp2 vp pats with
    | error e => simp
    | ok u =>
      simp only []
      cases c.cps2 vp pats with
      | error e => simp
      | ok ps => simp [ih]

theorem compileV1_loop1 {π : Type} (glob : Str → Except Str (List Str)) (c : CompileCallees π)
    (vp : RawVal) (items : List (Str × List Str)) (tail : Option Str) :
    PyGen.andThen (GenF.compileV1FilePatterns.loop1 glob c.cps1 vp items) (PyGen.ofExc tail) =
      compileItemsE c false vp items tail := by
  induction items with
  | nil => simp [GenF.compileV1FilePatterns.loop1, compileItemsE]
  | cons hd t ih =>
    obtain ⟨f, pats⟩ := hd
    unfold GenF.compileV1FilePatterns.loop1 compileItemsE compileItemE
    simp only [Bool.false_eq_true, if_false]
    cases c.cps1 vp pats with
    | error e => simp
    | ok ps => simp [ih]

end TieP

theorem tie_compileV2FilePatterns {π : Type} (glob : Str → Except Str (List Str)) (c : CompileCallees π)
    (d : TomlSection) :
    GenF.compileV2FilePatterns glob c.cp2 c.cps2 d = compileItemsD glob c true d := by
  unfold GenF.compileV2FilePatterns compileItemsD
  cases lookup "version_pattern".toList d.opts with
  | none => rfl
  | some vp =>
    cases d.filePatterns with
    | none => rfl
    | some fps => simp only [tie_iterGlobExpandedFilePatterns, andThen_done, compileV2_loop1]

theorem tie_compileV1FilePatterns {π : Type} (glob : Str → Except Str (List Str)) (c : CompileCallees π)
    (d : TomlSection) :
    GenF.compileV1FilePatterns glob c.cps1 d = compileItemsD glob c false d := by
  unfold GenF.compileV1FilePatterns compileItemsD
  cases lookup "version_pattern".toList d.opts with
  | none => rfl
  | some vp =>
    cases d.filePatterns with
    | none => rfl
    | some fps => simp only [tie_iterGlobExpandedFilePatterns, andThen_done, compileV1_loop1]

end BV
