/-
  Proofs/Tie_patternsWithChange.lean — the definition GENERATED from the Python source of
  `v2rewrite._patterns_with_change` (Gen/F_patternsWithChange.lean) against the hand model
  `BV.patternsWithChange` (Model/Diff.lean).

  Model and Python DIFFER when `format_version` raises for one of the raw patterns: the Python function
  propagates the exception (generated definition: `.error (.crash e)`), the model compares the two
  `Except` values and returns a count.  Therefore

  * `tie_patternsWithChange`     : equality under the explicit hypothesis that both renderings of every
                                   pattern succeed;
  * `patternsWithChange_raises`  : the witness of the difference (first pattern fails for the old record).

  Such a pattern cannot come from `compile_pattern` + a successful `rewrite_lines` of the same file in
  practice (the same raw pattern was just rendered with the new record), so the callers never see it.
-/
import BumpverVerif.Gen.F_patternsWithChange
import BumpverVerif.Model.Diff
import BumpverVerif.Proofs.Tie_rewritePrelude
namespace BV

open GenF (Pattern)

/-- one iteration of the counting loop, as a function of the two renderings -/
def pwcStep (a b : Except PErr Str) (n : Int) : Except RwErr Int :=
  match a, b with
  | .error e, _ => .error (.crash e)
  | .ok _, .error e => .error (.crash e)
  | .ok x, .ok y => .ok (if x != y then n + 1 else n)

theorem pyForE_count (old new : VInfo) (body : Pattern → Int → Except RwErr Int)
    (hb : ∀ p n, body p n = pwcStep (formatVersion old p.raw_pattern) (formatVersion new p.raw_pattern) n)
    (l : List Pattern)
    (hfmt : ∀ p ∈ l, (∃ a, formatVersion old p.raw_pattern = .ok a) ∧ (∃ b, formatVersion new p.raw_pattern = .ok b))
    (n : Int) :
    GenF.pyForE l body n = .ok (n + Int.ofNat (patternsWithChange old new (l.map Pattern.abs))) := by
  induction l generalizing n with
  | nil => simp [GenF.pyForE_nil, patternsWithChange]
  | cons p l ih =>
    obtain ⟨⟨a, ha⟩, ⟨b, hb'⟩⟩ := hfmt p List.mem_cons_self
    rw [GenF.pyForE_cons, hb, ha, hb']
    simp only [pwcStep]
    rw [ih (fun q hq => hfmt q (List.mem_cons_of_mem _ hq))]
    have e1 : p.abs.raw = p.raw_pattern := rfl
    simp only [patternsWithChange, List.map_cons, List.filter_cons, e1, ha, hb']
    by_cases hab : a = b
    · subst hab; simp
    · have h1 : (a != b) = true := by simpa using hab
      have h2 : ((Except.ok a : Except PErr Str) != Except.ok b) = true := by simpa using hab
      simp only [h1, h2, if_true, List.length_cons]
      congr 1
      simp only [Int.ofNat_eq_natCast, Int.natCast_add, Int.natCast_one]
      omega

theorem tie_patternsWithChange (old_vinfo new_vinfo : VInfo) (patterns : List Pattern)
    (hfmt : ∀ p ∈ patterns, (∃ a, formatVersion old_vinfo p.raw_pattern = .ok a) ∧
                             (∃ b, formatVersion new_vinfo p.raw_pattern = .ok b)) :
    GenF.patternsWithChange old_vinfo new_vinfo patterns
      = .ok (Int.ofNat (patternsWithChange old_vinfo new_vinfo (patterns.map Pattern.abs))) := by
  unfold GenF.patternsWithChange
  simp only []
  rw [pyForE_count old_vinfo new_vinfo _ ?hb patterns hfmt]
  case hb =>
    intro p n
    simp only [pwcStep]
    cases formatVersion old_vinfo p.raw_pattern with
    | error e => rfl
    | ok a =>
      cases formatVersion new_vinfo p.raw_pattern with
      | error e => rfl
      | ok b => first | rfl | (simp only []; split <;> simp_all)
  simp

/-- where Python and the model differ: the exception of `format_version` propagates -/
theorem patternsWithChange_raises (old_vinfo new_vinfo : VInfo) (p : Pattern) (ps : List Pattern) (e : PErr)
    (h : formatVersion old_vinfo p.raw_pattern = .error e) :
    GenF.patternsWithChange old_vinfo new_vinfo (p :: ps) = .error (.crash e) := by
  unfold GenF.patternsWithChange
  simp only [GenF.pyForE_cons, h]

end BV
