/-
  Proofs/Tie_v1RewriteLines.lean — the definition GENERATED from the Python source of
  `v1rewrite.rewrite_lines` (Gen/F_v1RewriteLines.lean) equals the hand model `BV.v1RewriteLines`
  (Model/V1Rewrite.lean: the generic engine at `v1Engine`) on the abstracted patterns, for every list of
  patterns made by the legacy compiler (`TieM.Wf1`), every `V1Info` and every list of lines.

  The proof does not look at the shape of the loop body or of the final test: the loop is handled by
  `TieM.pyForE_applyMatches` (one iteration, inside the list, splices `v1Render` of the pattern into the
  current line and records the pattern), the final test by `TieM.foundDiff_agree` / `foundEq_agree`
  (whichever way the source writes "some configured pattern has no match").
-/
import BumpverVerif.Gen.F_v1RewriteLines
import BumpverVerif.Proofs.Tie_v1RewritePrelude
set_option linter.unusedSimpArgs false
namespace BV

open GenF (PatternMatch Pattern)

theorem tie_v1RewriteLines (patterns : List Pattern) (new_vinfo : V1Info) (old_lines : List Str)
    (hwf : ∀ p ∈ patterns, TieM.Wf1 p) :
    GenF.v1RewriteLines patterns new_vinfo old_lines
      = v1RewriteLines (patterns.map Pattern.abs) new_vinfo old_lines := by
  have hms := TieM.iterMatches_tie v1Engine old_lines patterns (fun p hp => TieM.wf1_compile (hwf p hp))
  obtain ⟨hdisj, hfacts⟩ := v1Engine.iterMatches_facts old_lines _ _ hms
  have hinj : ∀ p ∈ patterns, ∀ q ∈ patterns, p.abs = q.abs → p = q :=
    fun p hp q hq h => TieM.abs_inj1 (hwf p hp) (hwf q hq) h
  unfold GenF.v1RewriteLines v1RewriteLines RwEngine.rewriteLines
  rw [hms]
  simp only []
  -- the loop: inside the list `xs[i]` / `xs[i] = v` cannot raise
  rw [TieM.pyForE_applyMatches v1Engine new_vinfo _ ?hb _ _ _ ?hl]
  case hb =>
    intro m found ls hlt
    simp only [GenF.pyGetItem_lt ls m.lineno [] hlt, GenF.pySetItem_lt _ _ _ hlt, setLine_eq_set,
      PatternMatch.abs, Pattern.abs, v1Engine_render, v1Render]
    cases v1FormatVersion new_vinfo m.pattern.raw_pattern <;> rfl
  case hl =>
    intro m hm
    unfold GenF.pySortedBy at hm
    rw [GenF.mem_foldr_pyInsertBy] at hm
    obtain ⟨-, -, line, h, -⟩ := hfacts m.abs (List.mem_map_of_mem hm)
    exact (List.getElem?_eq_some_iff.1 h).1
  -- the sort
  unfold GenF.pySortedBy
  rw [GenF.map_pySorted _ _ ?hp]
  case hp =>
    rw [List.pairwise_map] at hdisj
    refine hdisj.imp_of_mem ?_
    intro a b ha hb hd
    exact sortKey_agree a b hd (hfacts a.abs (List.mem_map_of_mem ha)).2.1 (hfacts b.abs (List.mem_map_of_mem hb)).2.1
  -- the final check
  cases v1Engine.applyMatches new_vinfo
      (sortMatches (List.map PatternMatch.abs (GenF.iterMatches old_lines patterns))) old_lines with
  | error e => rfl
  | ok new =>
    simp only
    have h1 := fun le => TieM.foundDiff_agree patterns hinj (GenF.iterMatches old_lines patterns)
      ((GenF.iterMatches old_lines patterns).foldr (GenF.pyInsertBy le) [])
      (fun m => GenF.mem_foldr_pyInsertBy le m _) (iterMatches_pattern_mem old_lines patterns)
    have h2 := fun le => TieM.foundEq_agree patterns hinj (GenF.iterMatches old_lines patterns)
      ((GenF.iterMatches old_lines patterns).foldr (GenF.pyInsertBy le) [])
      (fun m => GenF.mem_foldr_pyInsertBy le m _) (iterMatches_pattern_mem old_lines patterns)
    have h3 := fun le => (GenF.pySetEq_comm _ _).trans (h2 le)
    have h4 : ∀ (l : List Pattern), (decide (l.length > 0)) = !l.isEmpty := by
      intro l; cases l <;> simp
    have h5 : ∀ (l : List Pattern), (l.length == 0) = l.isEmpty := by
      intro l; cases l <;> simp
    simp only [h1, h2, h3, h4, h5]
    try (cases ((patterns.map Pattern.abs).all fun p =>
      (List.map PatternMatch.abs (GenF.iterMatches old_lines patterns)).any fun m => m.pat == p) <;> simp)

end BV
