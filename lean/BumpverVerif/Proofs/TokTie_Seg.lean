/-
  Proofs/TokTie_Seg.lean — `_parse_segtree` (the stack machine over `"[" + raw + "]"`) on the source text of a
  tree: the segment tree is the structural one (`parseSegtree_text`): maximal runs of literals / parts become one
  text segment, optional groups become branches.
-/
import BumpverVerif.Proofs.TokTie_Text
namespace BV

/-- the structural segment tree; `cur` = pending text of the current segment -/
def Pat.segsGo : Pat → Str → List Seg
  | .done, cur => if cur.isEmpty then [] else [Seg.lit cur]
  | .lit c rest, cur => Pat.segsGo rest (cur ++ litText c)
  | .part n rest, cur => Pat.segsGo rest (cur ++ n)
  | .opt body rest, cur =>
    (if cur.isEmpty then [] else [Seg.lit cur]) ++ Seg.grp (Pat.segsGo body []) :: Pat.segsGo rest []

def flushSeg (cur : Str) (top : List Seg) : List Seg := if cur.isEmpty then top else Seg.lit cur.reverse :: top

/-- the state of the stack machine after reading the text of a tree: (items of the open branch reversed,
    pending text reversed) -/
def pushPat : Pat → List Seg × Str → List Seg × Str
  | .done, st => st
  | .lit c rest, (top, cur) => pushPat rest (top, (litText c).reverse ++ cur)
  | .part n rest, (top, cur) => pushPat rest (top, n.reverse ++ cur)
  | .opt body rest, (top, cur) =>
    let b := pushPat body ([], [])
    pushPat rest (Seg.grp (flushSeg b.2 b.1).reverse :: flushSeg cur top, [])

theorem flush_pushPat (p : Pat) (top : List Seg) (cur : Str) :
    (flushSeg (pushPat p (top, cur)).2 (pushPat p (top, cur)).1).reverse = top.reverse ++ p.segsGo cur.reverse := by
  induction p generalizing top cur with
  | done =>
    simp only [pushPat, Pat.segsGo, flushSeg]
    by_cases h : cur.isEmpty = true
    · simp [h]
    · simp [h]
  | lit c rest ih => simp only [pushPat, Pat.segsGo, ih, List.reverse_append, List.reverse_reverse]
  | part n rest ih => simp only [pushPat, Pat.segsGo, ih, List.reverse_append, List.reverse_reverse]
  | opt body rest ihb ihr =>
    simp only [pushPat, Pat.segsGo]
    rw [ihr, ihb]
    simp only [List.reverse_nil, List.nil_append, List.reverse_cons, flushSeg]
    by_cases h : cur.isEmpty = true
    · simp [h]
    · simp [h]

/-- a character that is not a bracket is appended to the pending text -/
theorem segtreeGo_plain (stack : List (List Seg)) (cur : Str) (prev : Option Char) (c : Char) (r : Str)
    (h1 : c ≠ '[') (h2 : c ≠ ']') :
    segtreeGo stack cur prev (c :: r) = segtreeGo stack (c :: cur) (some c) r := by
  have e1 : (c == '[') = false := by simpa using h1
  have e2 : (c == ']') = false := by simpa using h2
  simp [segtreeGo, e1, e2]

theorem segtreeGo_name (stack : List (List Seg)) (n : Str) (hn : ∀ c ∈ n, nameChar c = true) (hne : n ≠ []) :
    ∀ (cur : Str) (prev : Option Char) (k : Str),
      ∃ prev', prev' ≠ some '\\' ∧
        segtreeGo stack cur prev (n ++ k) = segtreeGo stack (n.reverse ++ cur) prev' k := by
  induction n with
  | nil => exact absurd rfl hne
  | cons c r ih =>
    intro cur prev k
    obtain ⟨-, h1, h2, h3, -⟩ := nameChar_not_special (hn c List.mem_cons_self)
    rw [List.cons_append, segtreeGo_plain _ _ _ _ _ h1 h2]
    cases r with
    | nil => exact ⟨some c, by simpa using h3, by simp⟩
    | cons d r' =>
      obtain ⟨prev', hp, e⟩ := ih (fun x hx => hn x (List.mem_cons_of_mem _ hx)) (by simp) (c :: cur) (some c) k
      exact ⟨prev', hp, by rw [e]; simp⟩

theorem segtreeGo_litText (stack : List (List Seg)) (c : Char) (hc : litOk c = true) (cur : Str) (prev : Option Char)
    (_hprev : prev ≠ some '\\') (k : Str) :
    ∃ prev', prev' ≠ some '\\' ∧
      segtreeGo stack cur prev (litText c ++ k) = segtreeGo stack ((litText c).reverse ++ cur) prev' k := by
  have hbs : c ≠ '\\' := litOk_ne_bs hc
  by_cases h1 : c = '['
  · subst h1
    refine ⟨some '[', by decide, ?_⟩
    have e : litText '[' = ['\\', '['] := by decide
    rw [e]
    simp only [List.cons_append, List.nil_append]
    rw [segtreeGo_plain _ _ _ _ _ (by decide) (by decide)]
    simp [segtreeGo]
  · by_cases h2 : c = ']'
    · subst h2
      refine ⟨some ']', by decide, ?_⟩
      have e : litText ']' = ['\\', ']'] := by decide
      rw [e]
      simp only [List.cons_append, List.nil_append]
      rw [segtreeGo_plain _ _ _ _ _ (by decide) (by decide)]
      simp [segtreeGo]
    · have e : litText c = [c] := by simp [litText, h1, h2]
      rw [e]
      refine ⟨some c, by simpa using hbs, ?_⟩
      simp only [List.cons_append, List.nil_append]
      rw [segtreeGo_plain _ _ _ _ _ h1 h2]
      simp

/-- the stack machine on the text of a tree -/
theorem segtreeGo_text (p : Pat) : ∀ (top : List Seg) (rest : List (List Seg)) (cur : Str) (prev : Option Char) (k : Str),
    prev ≠ some '\\' → p.shapeOk = true →
    ∃ prev', prev' ≠ some '\\' ∧
      segtreeGo (top :: rest) cur prev (p.text ++ k) =
        segtreeGo ((pushPat p (top, cur)).1 :: rest) (pushPat p (top, cur)).2 prev' k := by
  induction p with
  | done => intro top rest cur prev k hp _; exact ⟨prev, hp, rfl⟩
  | lit c r ih =>
    intro top rest cur prev k hp hs
    simp only [Pat.shapeOk, Bool.and_eq_true] at hs
    obtain ⟨p1, hp1, e1⟩ := segtreeGo_litText (top :: rest) c hs.1 cur prev hp (r.text ++ k)
    obtain ⟨p2, hp2, e2⟩ := ih top rest ((litText c).reverse ++ cur) p1 k hp1 hs.2
    exact ⟨p2, hp2, by simp only [Pat.text_lit, List.append_assoc, pushPat]; rw [e1, e2]⟩
  | part n r ih =>
    intro top rest cur prev k hp hs
    simp only [Pat.shapeOk, Bool.and_eq_true] at hs
    have hm := mem_partNames_of_lookup hs.1.1
    obtain ⟨p1, hp1, e1⟩ := segtreeGo_name (top :: rest) n (name_chars hm) (name_ne_nil hm) cur prev (r.text ++ k)
    obtain ⟨p2, hp2, e2⟩ := ih top rest (n.reverse ++ cur) p1 k hp1 hs.2
    exact ⟨p2, hp2, by simp only [Pat.text_part, List.append_assoc, pushPat]; rw [e1, e2]⟩
  | opt b r ihb ihr =>
    intro top rest cur prev k hp hs
    simp only [Pat.shapeOk, Bool.and_eq_true] at hs
    have hesc : (prev == some '\\') = false := by simpa using hp
    obtain ⟨p1, hp1, e1⟩ := ihb [] (flushSeg cur top :: rest) [] (some '[') (']' :: (r.text ++ k)) (by decide) hs.1.2
    have hesc1 : (p1 == some '\\') = false := by simpa using hp1
    obtain ⟨p2, hp2, e2⟩ := ihr (Seg.grp (flushSeg (pushPat b ([], [])).2 (pushPat b ([], [])).1).reverse :: flushSeg cur top)
      rest [] (some ']') k (by decide) hs.2
    refine ⟨p2, hp2, ?_⟩
    simp only [Pat.text_opt, List.cons_append, List.append_assoc, pushPat]
    rw [← e2]
    have step1 : segtreeGo (top :: rest) cur prev ('[' :: (b.text ++ ']' :: (r.text ++ k))) =
        segtreeGo ([] :: flushSeg cur top :: rest) [] (some '[') (b.text ++ ']' :: (r.text ++ k)) := by
      simp [segtreeGo, hesc, flushSeg]
    rw [step1, e1]
    simp [segtreeGo, hesc1, flushSeg]

/-- `_parse_segtree` on the source text of a tree -/
theorem parseSegtree_text (p : Pat) (h : p.shapeOk = true) : parseSegtree p.text = .ok (p.segsGo []) := by
  unfold parseSegtree
  have step1 : segtreeGo [[]] [] none ('[' :: p.text ++ [']']) =
      segtreeGo ([] :: [[]]) [] (some '[') (p.text ++ [']']) := by
    simp [segtreeGo]
  obtain ⟨p1, hp1, e1⟩ := segtreeGo_text p [] [[]] [] (some '[') [']'] (by decide) h
  have hesc1 : (p1 == some '\\') = false := by simpa using hp1
  rw [step1, e1]
  have hf := flush_pushPat p [] []
  simp only [List.reverse_nil, List.nil_append] at hf
  simp [segtreeGo, hesc1]
  simp only [flushSeg, List.isEmpty_iff] at hf
  exact hf

end BV
