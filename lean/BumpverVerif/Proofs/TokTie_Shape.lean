/-
  Proofs/TokTie_Shape.lean — the SHAPES of part names (all upper-case / zeros + one letter / letters + one digit),
  as table facts on the regenerated `PART_PATTERNS`, and list lemmas about matching such names.
-/
import BumpverVerif.Proofs.TokTie_Repl
namespace BV

def isDigitLed (m : Str) : Bool :=
  m.head? == some '0' && (match m.dropWhile (· == '0') with | [X] => isUpper X | _ => false)

def isDigitTrailed (m : Str) : Bool :=
  match m.reverse with
  | d :: u => isDigit d && !u.isEmpty && u.all isUpper
  | [] => false

def isPureUpper (m : Str) : Bool := !m.isEmpty && m.all isUpper

/-! ### table facts (kernel-evaluated on the regenerated table) -/

/-- every part name is all upper-case (MAJOR), zeros followed by ONE letter (0M, 00J), or letters followed by ONE
    digit (INC0) -/
theorem tbl_shape : partNames.all (fun m => isPureUpper m || isDigitLed m || isDigitTrailed m) = true := by decide

/-- a zeros+letter name is determined by its letter -/
theorem tbl_dlu : partNames.all (fun m => partNames.all (fun n =>
    !(isDigitLed m && isDigitLed n && m.getLast? == n.getLast?) || m == n)) = true := by decide +kernel

/-- a name that starts with the letter of a zeros+letter name `m` and is not longer than `m` has `m`'s field
    (0M / MM, 00J / JJJ, …) -/
theorem tbl_tf1 : partNames.all (fun m => partNames.all (fun t =>
    !(isDigitLed m && t.head? == m.getLast? && decide (t.length ≤ m.length)) || fieldOf t == fieldOf m)) = true := by
  decide +kernel

/-- a zeros+letter name is contained in no other name -/
theorem tbl_dli : partNames.all (fun m => partNames.all (fun n => !(isDigitLed m && isInfix m n) || m == n)) = true := by
  decide +kernel

/-- no name ends with the last LETTER of a letters+digit name (no name ends in `C`) -/
theorem tbl_tf2 : partNames.all (fun m => partNames.all (fun t =>
    !(isDigitTrailed m) || t.getLast? != (m.dropLast).getLast?)) = true := by decide +kernel

/-! ### shapes as equations -/

def zeros (k : Nat) : Str := List.replicate k '0'

theorem zeros_succ (k : Nat) : zeros (k + 1) = '0' :: zeros k := rfl

theorem takeWhile_zero_eq (m : Str) : m.takeWhile (· == '0') = zeros (m.takeWhile (· == '0')).length := by
  induction m with
  | nil => rfl
  | cons c r ih =>
    simp only [List.takeWhile_cons]
    by_cases h : (c == '0') = true
    · have : c = '0' := by simpa using h
      subst this
      simp only [beq_self_eq_true, if_true, List.length_cons, zeros_succ]
      rw [← ih]
    · simp [h, zeros]

theorem digitLed_form {m : Str} (h : isDigitLed m = true) :
    ∃ k X, 1 ≤ k ∧ isUpper X = true ∧ m = zeros k ++ [X] := by
  simp only [isDigitLed, Bool.and_eq_true, beq_iff_eq] at h
  obtain ⟨hh, hd⟩ := h
  have hsplit := List.takeWhile_append_dropWhile (p := (· == '0')) (l := m)
  cases hdw : m.dropWhile (· == '0') with
  | nil => rw [hdw] at hd; cases hd
  | cons X rest =>
    rw [hdw] at hd hsplit
    cases rest with
    | cons _ _ => cases hd
    | nil =>
      refine ⟨(m.takeWhile (· == '0')).length, X, ?_, hd, ?_⟩
      · cases m with
        | nil => cases hh
        | cons c r =>
          simp only [List.head?_cons, Option.some.injEq] at hh
          subst hh
          simp
      · rw [← takeWhile_zero_eq]; exact hsplit.symm

theorem digitTrailed_form {m : Str} (h : isDigitTrailed m = true) :
    ∃ U d, U ≠ [] ∧ (∀ c ∈ U, isUpper c = true) ∧ isDigit d = true ∧ m = U ++ [d] := by
  unfold isDigitTrailed at h
  cases hr : m.reverse with
  | nil => rw [hr] at h; cases h
  | cons d u =>
    rw [hr] at h
    simp only [Bool.and_eq_true, Bool.not_eq_true', List.all_eq_true] at h
    refine ⟨u.reverse, d, ?_, ?_, h.1.1, ?_⟩
    · intro e
      have : u = [] := by simpa using e
      subst this; simp at h
    · intro c hc; exact h.2 c (List.mem_reverse.mp hc)
    · have := congrArg List.reverse hr
      simpa using this

theorem pureUpper_form {m : Str} (h : isPureUpper m = true) : m ≠ [] ∧ ∀ c ∈ m, isUpper c = true := by
  simp only [isPureUpper, Bool.and_eq_true, Bool.not_eq_true', List.all_eq_true] at h
  exact ⟨by intro e; subst e; simp at h, h.2⟩

theorem upper_ne_zero {c : Char} (h : isUpper c = true) : c ≠ '0' := by
  intro e; subst e; exact absurd h (by decide)

/-! ### prefix matching -/

theorem prefix_append_split {a b X : Str} (h : a.isPrefixOf (b ++ X) = true) :
    a.isPrefixOf b = true ∨ ∃ a', a = b ++ a' ∧ a'.isPrefixOf X = true := by
  have hp := List.isPrefixOf_iff_prefix.mp h
  by_cases hl : a.length ≤ b.length
  · exact Or.inl (List.isPrefixOf_iff_prefix.mpr
      (List.prefix_of_prefix_length_le hp (List.prefix_append b X) hl))
  · right
    have hb : b <+: a := List.prefix_of_prefix_length_le (List.prefix_append b X) hp (by omega)
    obtain ⟨a', ha'⟩ := hb
    refine ⟨a', ha'.symm, ?_⟩
    rw [← ha'] at hp
    exact List.isPrefixOf_iff_prefix.mpr ((List.prefix_append_right_inj b).mp hp)

theorem prefix_append_of_prefix {a b : Str} (Y : Str) (h : a.isPrefixOf b = true) : a.isPrefixOf (b ++ Y) = true :=
  List.isPrefixOf_iff_prefix.mpr ((List.isPrefixOf_iff_prefix.mp h).trans (List.prefix_append b Y))

theorem prefix_append_append {a' Y : Str} (b : Str) (h : a'.isPrefixOf Y = true) :
    (b ++ a').isPrefixOf (b ++ Y) = true :=
  List.isPrefixOf_iff_prefix.mpr ((List.prefix_append_right_inj b).mpr (List.isPrefixOf_iff_prefix.mp h))

/-- zeros+letter against zeros+letter -/
theorem zeros_match (j q : Nat) (X X' : Char) (Z : Str) (hX : X ≠ '0') (hX' : X' ≠ '0')
    (h : (zeros j ++ [X]).isPrefixOf (zeros q ++ X' :: Z) = true) : j = q ∧ X = X' := by
  induction j generalizing q with
  | zero =>
    cases q with
    | zero => simpa [zeros] using h
    | succ q' =>
      simp only [zeros, List.replicate_zero, List.nil_append, List.replicate_succ, List.cons_append,
        List.isPrefixOf, Bool.and_eq_true, beq_iff_eq] at h
      exact absurd h.1 hX
  | succ j' ih =>
    cases q with
    | zero =>
      simp only [zeros, List.replicate_succ, List.cons_append, List.replicate_zero, List.nil_append,
        List.isPrefixOf, Bool.and_eq_true, beq_iff_eq] at h
      exact absurd h.1.symm hX'
    | succ q' =>
      simp only [zeros_succ, List.cons_append, List.isPrefixOf, beq_self_eq_true, Bool.true_and] at h
      obtain ⟨e1, e2⟩ := ih q' h
      exact ⟨by omega, e2⟩

/-- zeros+letter against a chunk without upper-case letters: the chunk is consumed by the zeros -/
theorem zeros_chunk (w : Str) (j : Nat) (X : Char) (Z : Str) (hX : isUpper X = true)
    (hw : ∀ c ∈ w, isUpper c = false) (h : (zeros j ++ [X]).isPrefixOf (w ++ Z) = true) :
    w.length ≤ j ∧ (zeros (j - w.length) ++ [X]).isPrefixOf Z = true := by
  induction w generalizing j with
  | nil => simpa using h
  | cons c r ih =>
    cases j with
    | zero =>
      simp only [zeros, List.replicate_zero, List.nil_append, List.cons_append, List.isPrefixOf,
        Bool.and_eq_true, beq_iff_eq] at h
      have := hw c List.mem_cons_self
      rw [← h.1, hX] at this; cases this
    | succ j' =>
      simp only [zeros_succ, List.cons_append, List.isPrefixOf, Bool.and_eq_true, beq_iff_eq] at h
      obtain ⟨e1, e2⟩ := ih j' (fun d hd => hw d (List.mem_cons_of_mem _ hd)) h.2
      refine ⟨by simp only [List.length_cons]; omega, ?_⟩
      have : j' + 1 - (c :: r).length = j' - r.length := by simp only [List.length_cons]; omega
      rw [this]; exact e2

/-- zeros+letter against text that starts with an upper-case letter -/
theorem zeros_upper (j : Nat) (X c : Char) (Z : Str) (hc : isUpper c = true)
    (h : (zeros j ++ [X]).isPrefixOf (c :: Z) = true) : j = 0 ∧ X = c := by
  cases j with
  | zero => simpa [zeros] using h
  | succ j' =>
    simp only [zeros_succ, List.cons_append, List.isPrefixOf, Bool.and_eq_true, beq_iff_eq] at h
    exact absurd h.1.symm (upper_ne_zero hc)

end BV
