/-
  Proofs/Tie_v1CompilePatternRe.lean — the definition GENERATED from `v1patterns._compile_pattern_re(normalized_pattern)`
  equals the hand model: the escape loop over `RE_PATTERN_ESCAPES` (every entry, in table order, sequential
  `str.replace`), then `_replace_pattern_parts`, then `re.compile`.

   * `tie_v1CompilePatternRe`        : for ALL tables (`escapes`, `parts` are parameters on both sides), provided no
       escape entry has an EMPTY character string — Python's `s.replace("", x)` inserts `x` between all characters,
       the model's `replaceAll` leaves `s` alone (the model documents that restriction);
   * `tie_v1CompilePatternRe_tables` : with the GENERATED tables the hypothesis holds (kernel-checked over the
       13 entries) and the result is the model's `v1CompileRe`.

  Callees: `_replace_pattern_parts` = model `v1ReplacePatternParts` (`tie_v1ReplacePatternParts`), `re.compile` = model
  `v1ReOfSrc` (`parseRe`, a group name defined twice is `re.error`; trusted primitive, by correspondence).
-/
import BumpverVerif.Gen.F_v1CompilePatternRe
import BumpverVerif.Proofs.TieV1Spec
namespace BV
open GenV1

theorem v1_foldl_congr_mem {α β} (f g : α → β → α) (l : List β) (h : ∀ x ∈ l, ∀ a, f a x = g a x) (init : α) :
    l.foldl f init = l.foldl g init := by
  induction l generalizing init with
  | nil => rfl
  | cons x xs ih =>
    simp only [List.foldl_cons]
    rw [h x List.mem_cons_self init]
    exact ih (fun y hy => h y (List.mem_cons_of_mem _ hy)) _

theorem tie_v1CompilePatternRe (escapes parts : List (Str × Str)) (hesc : ∀ ce ∈ escapes, ce.1 ≠ [])
    (normalized : Str) :
    GenV1.v1CompilePatternRe normalized escapes parts = v1ReOfSrc (v1CompileStrWith escapes parts normalized) := by
  unfold GenV1.v1CompilePatternRe v1CompileStrWith v1EscapePattern
  dsimp only
  have hok : ∀ x : Except V1Err Re, Except.bind x (fun r => Except.ok r) = x := fun x => by cases x <;> rfl
  rw [hok]
  refine congrArg (fun p => v1ReOfSrc (v1ReplacePatternParts parts p)) ?_
  refine v1_foldl_congr_mem _ _ escapes (fun ce hce a => ?_) normalized
  have hne : ce.1.isEmpty = false := by
    cases hc : ce.1 with
    | nil => exact absurd hc (hesc ce hce)
    | cons => rfl
  simp [pyReplace, hne]

/-- the generated escape table has no empty entry -/
theorem rePatternEscapes_nonempty : ∀ ce ∈ Gen.rePatternEscapes, ce.1 ≠ [] := by decide

theorem tie_v1CompilePatternRe_tables (normalized : Str) :
    GenV1.v1CompilePatternRe normalized Gen.rePatternEscapes Gen.v1PartPatterns = v1CompileRe normalized :=
  tie_v1CompilePatternRe _ _ rePatternEscapes_nonempty normalized

end BV
