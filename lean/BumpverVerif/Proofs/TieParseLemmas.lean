/-
  Proofs/TieParseLemmas.lean — small lemmas shared by the ties of the `parse` group
  (Proofs/Tie_dateFromDoy … Tie_isValid): the eliminators harness/translate_parse.py emits
  (`Except.bind`, `Except.tryCatch`, `Option.elim`), the Python dict primitives of Model/PyPrims.lean,
  and the abstraction of a Python `Dict[str, str]` to the model's `FVals`.
-/
import BumpverVerif.Model.PyPrims
import Lean
namespace BV

/-! ### `Except.bind` / `Except.tryCatch` -/

@[simp] theorem exBind_ok {ε α β : Type} (a : α) (f : α → Except ε β) : Except.bind (.ok a) f = f a := rfl
@[simp] theorem exBind_error {ε α β : Type} (e : ε) (f : α → Except ε β) :
    Except.bind (.error e : Except ε α) f = .error e := rfl
@[simp] theorem exBind_ok_right {ε α : Type} (x : Except ε α) : Except.bind x (fun a => .ok a) = x := by
  cases x <;> rfl
@[simp] theorem exTry_ok {ε α : Type} (a : α) (h : ε → Except ε α) : Except.tryCatch (.ok a) h = .ok a := rfl
@[simp] theorem exTry_error {ε α : Type} (e : ε) (h : ε → Except ε α) :
    Except.tryCatch (.error e : Except ε α) h = h e := rfl

@[simp] theorem pyTry_ok {α β : Type} (a : α) (f : α → Except PErr β) (h : PErr → Except PErr β) :
    pyTry (.ok a) f h = f a := rfl
@[simp] theorem pyTry_error {α β : Type} (e : PErr) (f : α → Except PErr β) (h : PErr → Except PErr β) :
    pyTry (.error e : Except PErr α) f h = h e := rfl

/-! ### the Python dict `field_values : Dict[str, str]` and the model's `FVals` -/

/-- abstraction: the model's group dict has `Option Str` values, a Python `Dict[str, str]` only present ones -/
def absFV (fv : PyDict Str) : FVals := fv.map (fun kv => (kv.1, some kv.2))

theorem lookup_absFV (k : Str) (fv : PyDict Str) : lookup k (absFV fv) = (lookup k fv).map some := by
  induction fv with
  | nil => rfl
  | cons kv rest ih =>
    obtain ⟨k', v⟩ := kv
    simp only [absFV, List.map_cons, lookup] at ih ⊢
    split <;> simp_all

/-- `int(d[k]) if k in d else None`, as emitted (`k in d` narrows `d[k]`) -/
@[simp] theorem optElim_map {α β : Type} (o : Option α) (f : α → β) :
    Option.elim o none (fun v => some (f v)) = o.map f := by
  cases o <;> rfl

theorem intField_absFV (fv : PyDict Str) (k : String) :
    intField (absFV fv) k = .ok ((lookup k.toList fv).map strToNat) := by
  simp only [intField, lookup_absFV]
  cases lookup k.toList fv <;> rfl

theorem strField_absFV (fv : PyDict Str) (k : String) :
    strField (absFV fv) k = (lookup k.toList fv).getD [] := by
  simp only [strField, lookup_absFV]
  cases lookup k.toList fv <;> rfl

/-- Python truthiness of an `Optional[int]` (`None` and `0` are falsy).  The translator emits it as
    `(o != none && o != some 0)`, the model writes `truthy o`; the ties rewrite both to `pyTr o`, which `simp`
    does not unfold (so that a truth value stays ONE atom). -/
def pyTr (o : Option Nat) : Bool := (o != none && o != some 0)

theorem bne_pyTr (o : Option Nat) : (o != none && o != some 0) = pyTr o := rfl

theorem truthy_pyTr (o : Option Nat) : truthy o = pyTr o := by
  cases o with
  | none => rfl
  | some n => by_cases h : n = 0 <;> simp [truthy, pyTr, bne, h]

@[simp] theorem pyTr_none : pyTr none = false := rfl
@[simp] theorem pyTr_some (n : Nat) : pyTr (some n) = (n != 0) := by
  by_cases h : n = 0 <;> simp [pyTr, bne, h]

open Lean Elab Tactic Meta in
/-- case distinction on the first VARIABLE that is the discriminant of an `Option.elim` in the goal
    (harness/translate_parse.py emits every `is None` / truthiness / `key in dict` narrowing as `Option.elim`) -/
elab "cases_elim" : tactic => withMainContext do
  let g ← instantiateMVars (← getMainTarget)
  let some e := g.find? (fun e => e.isAppOfArity ``Option.elim 5 && (e.getArg! 2).isFVar)
    | throwError "no Option.elim on a variable"
  let x := (e.getArg! 2).fvarId!
  let goals ← (← getMainGoal).cases x
  replaceMainGoal (goals.map (·.mvarId)).toList

end BV
