/-
  Proofs/PepParseLemmas.lean — C15: the text a pattern tree renders PARSES (C16's model of the vendored PEP 440
  parser, Model/Pep440.lean) to the version the record denotes (`pepOfRecord`, `pepOfVersion`,
  Model/PepOfRecord.lean).

  Part A  characters: the rendered text is lower case, has no white space
  Part B  the parser on `digits(.digits)*` followed by a tag text
  Part C  the tag text: `-`? (alpha|beta|a|b|rc|post|dev) digits?
  Part D  the parts: a release part renders as a non-empty digit string
  Part E  the tree: the rendered text is head ++ `.`-components ++ tag text
  Part F  the theorems for one tree (G2: the derived tree)
  Part G  the version pattern and its derived tree denote the same version (G3)
-/
import BumpverVerif.Model.PepOfRecord
import BumpverVerif.Proofs.Pep440Lemmas
import BumpverVerif.Proofs.PepTreeLemmas
namespace BV

/-! ## Part A: characters -/

/-- the characters of a rendered version: digits, lower-case letters, `.` and `-` -/
def pp_plain (c : Char) : Bool := isDigit c || isLower c || c == '.' || c == '-'

theorem pp_plain_toNat (c : Char) (h : pp_plain c = true) :
    (48 ≤ c.toNat ∧ c.toNat ≤ 57) ∨ (97 ≤ c.toNat ∧ c.toNat ≤ 122) ∨ c.toNat = 46 ∨ c.toNat = 45 := by
  simp only [pp_plain, Bool.or_eq_true, beq_iff_eq] at h
  rcases h with ((h | h) | h) | h
  · exact Or.inl ((isDigit_iff c).mp h)
  · exact Or.inr (Or.inl ((isLower_iff c).mp h))
  · subst h; decide
  · subst h; decide

theorem pp_toLower (c : Char) (h : pp_plain c = true) : toLowerAscii c = c := by
  have h' := pp_plain_toNat c h
  have : isUpper c = false := by
    cases hu : isUpper c with
    | false => rfl
    | true => have := (isUpper_iff c).mp hu; omega
  simp [toLowerAscii, this]

theorem pp_notSpace (c : Char) (h : pp_plain c = true) : isReSpace c = false := by
  have h' := pp_plain_toNat c h
  simp only [isReSpace, Bool.or_eq_false_iff, Bool.and_eq_false_iff, decide_eq_false_iff_not]
  omega

theorem pp_lowerStr (s : Str) (h : s.all pp_plain = true) : lowerStr s = s := by
  induction s with
  | nil => rfl
  | cons c cs ih =>
    simp only [List.all_cons, Bool.and_eq_true] at h
    simp only [lowerStr, List.map_cons, List.cons.injEq] at ih ⊢
    exact ⟨pp_toLower c h.1, ih h.2⟩

theorem pp_reStrip (s : Str) (h : s.all pp_plain = true) : reStrip s = s := by
  have h1 : ∀ c ∈ s, isReSpace c = false := by
    intro c hc
    exact pp_notSpace c (List.all_eq_true.mp h c hc)
  unfold reStrip
  rw [dropWhile_of_all_false _ s h1, dropWhile_of_all_false _ s.reverse (by simpa using h1)]
  simp

theorem pp_plain_of_digit (c : Char) (h : isDigit c = true) : pp_plain c = true := by
  simp [pp_plain, h]

theorem pp_plain_digits (s : Str) (h : allDigits s = true) : s.all pp_plain = true := by
  simp only [allDigits, List.all_eq_true] at h ⊢
  intro c hc
  exact pp_plain_of_digit c (h c hc)

/-! ## Part B: the parser on `digits(.digits)*` -/

/-- a non-empty digit string -/
def pp_DigitsNE (d : Str) : Prop := d ≠ [] ∧ allDigits d = true

/-- `.d1.d2…` -/
def pp_relTxt : List Str → Str
  | [] => []
  | d :: ds => '.' :: (d ++ pp_relTxt ds)

theorem pp_relTxt_append (a b : List Str) : pp_relTxt (a ++ b) = pp_relTxt a ++ pp_relTxt b := by
  induction a with
  | nil => rfl
  | cons d ds ih => simp only [List.cons_append, pp_relTxt, ih, List.append_assoc]

theorem pp_noDigitHead_relTxt (dss : List Str) (T : Str) (hT : NoDigitHead T) :
    NoDigitHead (pp_relTxt dss ++ T) := by
  cases dss with
  | nil => exact hT
  | cons d ds => exact noDigitHead_cons _ _ (by decide)

theorem pp_notBang_relTxt (dss : List Str) (T : Str) (hT : ∀ t, T ≠ '!' :: t) :
    ∀ t, pp_relTxt dss ++ T ≠ '!' :: t := by
  cases dss with
  | nil => exact hT
  | cons d ds =>
    intro t h
    simp only [pp_relTxt, List.cons_append] at h
    injection h with h _
    cases h

theorem pp_relTxt_length (dss : List Str) : dss.length ≤ (pp_relTxt dss).length := by
  induction dss with
  | nil => simp [pp_relTxt]
  | cons d ds ih => simp only [pp_relTxt, List.length_cons, List.length_append]; omega

theorem pp_relTailF (dss : List Str) (T : Str) (hT : StopsRel T) (hT2 : NoDigitHead T) :
    (∀ d ∈ dss, pp_DigitsNE d) → ∀ f, dss.length ≤ f → relTailF f (pp_relTxt dss ++ T) = (dss, T) := by
  induction dss with
  | nil => intro _ f _; exact relTailF_stop f T hT
  | cons d ds ih =>
    intro hs f hf
    cases f with
    | zero => simp at hf
    | succ f =>
      obtain ⟨hne, hd⟩ := hs d (by simp)
      cases d with
      | nil => exact absurd rfl hne
      | cons c t =>
        have hc := ((allDigits_cons c t).mp hd).1
        have h := takeWhile_digits_append (c :: t) (pp_relTxt ds ++ T) hd (pp_noDigitHead_relTxt ds T hT2)
        simp only [List.cons_append] at h
        have ih' := ih (fun d' hd' => hs d' (by simp [hd'])) f (by simpa using hf)
        simp only [pp_relTxt, List.cons_append, List.append_assoc, relTailF, hc, if_true, h.1, h.2, ih']

/-- THE PARSER on `digits(.digits)*T`: the release is the numbers of the components, the three optional groups
    are what `preSeg` / `postSeg` / `devSeg` make of `T` -/
theorem pp_parseCore (ds0 : Str) (dss : List Str) (T T4 T5 : Str) (pre : Option (Str × Nat)) (post dev : Option Nat)
    (h0 : pp_DigitsNE ds0) (hs : ∀ d ∈ dss, pp_DigitsNE d) (hT : TailOK T)
    (h3 : preSeg T = (pre, T4)) (h4 : postSeg T4 = (post, T5)) (h5 : devSeg T5 = (dev, [])) :
    parseCore (ds0 ++ (pp_relTxt dss ++ T)) =
      some { epoch := 0, release := (ds0 :: dss).map strToNat, pre := pre, post := post, dev := dev, loc := none } := by
  have hhead := headSeg_noEpoch ds0 (pp_relTxt dss ++ T) h0.1 h0.2 (pp_noDigitHead_relTxt dss T hT.1)
    (pp_notBang_relTxt dss T hT.2.2)
  have hrel := pp_relTailF dss T hT.2.1 hT.1 hs (pp_relTxt dss ++ T).length
    (by rw [List.length_append]; have := pp_relTxt_length dss; omega)
  exact parseCore_eq _ _ _ _ _ _ _ _ _ _ _ _ _ hhead hrel h3 h4 h5 rfl

/-! ## Part C: the tag text `-`? (alpha|beta|a|b|rc|post|dev) digits? -/

theorem pp_dropOptSep_digits (nm : Str) (hd : allDigits nm = true) : dropOptSep nm = nm := by
  cases nm with
  | nil => rfl
  | cons c t =>
    rw [allDigits_cons] at hd
    simp [dropOptSep, isSep_digit c hd.1]

/-- a letter segment whose word is followed by digits (possibly none: the implicit 0) up to the end -/
theorem pp_letterSeg (ws : List (Str × Str)) (s l nm : Str)
    (h : firstPrefix ws (dropOptSep s) = some (l, nm)) (hd : allDigits nm = true) :
    letterSeg ws s = some ((l, strToNat nm), []) := by
  have ht := takeWhile_digits_append nm [] hd noDigitHead_nil
  simp only [List.append_nil] at ht
  simp only [letterSeg, h, pp_dropOptSep_digits nm hd, ht.1, ht.2]

/-- what the three optional groups of the parser (pre, post, dev) make of `T`, consuming it to the end -/
def pp_Segs (T : Str) (s : Option (Str × Nat) × Option Nat × Option Nat) : Prop :=
  ∃ T4 T5, preSeg T = (s.1, T4) ∧ postSeg T4 = (s.2.1, T5) ∧ devSeg T5 = (s.2.2, [])

/-- the optional `-` before the tag -/
def pp_dash (dash : Bool) : Str := if dash then ['-'] else []

theorem pp_segs_nil : pp_Segs [] (none, none, none) := ⟨[], [], rfl, rfl, rfl⟩

theorem pp_segs_pre (T l nm : Str) (h : firstPrefix preWords (dropOptSep T) = some (l, nm))
    (hd : allDigits nm = true) : pp_Segs T (some (l, strToNat nm), none, none) := by
  refine ⟨[], [], ?_, rfl, rfl⟩
  simp only [preSeg, pp_letterSeg preWords T l nm h hd]

theorem pp_segs_a (dash : Bool) (nm : Str) (hd : allDigits nm = true) :
    pp_Segs (pp_dash dash ++ 'a' :: nm) (some (['a'], strToNat nm), none, none) := by
  apply pp_segs_pre _ _ _ _ hd
  have h : firstPrefix preWords ('a' :: nm) = some (['a'], nm) := by
    cases nm with
    | nil => simp [preWords, firstPrefix, dropPrefix?]
    | cons c t =>
      have hc := ((allDigits_cons c t).mp hd).1
      have h1 := digit_ne_letter c 'l' hc (by decide)
      simp [preWords, firstPrefix, dropPrefix?, h1]
  cases dash <;> simpa [pp_dash, dropOptSep, isSep] using h

theorem pp_segs_b (dash : Bool) (nm : Str) (hd : allDigits nm = true) :
    pp_Segs (pp_dash dash ++ 'b' :: nm) (some (['b'], strToNat nm), none, none) := by
  apply pp_segs_pre _ _ _ _ hd
  have h : firstPrefix preWords ('b' :: nm) = some (['b'], nm) := by
    cases nm with
    | nil => simp [preWords, firstPrefix, dropPrefix?]
    | cons c t =>
      have hc := ((allDigits_cons c t).mp hd).1
      have h1 := digit_ne_letter c 'e' hc (by decide)
      simp [preWords, firstPrefix, dropPrefix?, h1]
  cases dash <;> simpa [pp_dash, dropOptSep, isSep] using h

theorem pp_segs_alpha (dash : Bool) (nm : Str) (hd : allDigits nm = true) :
    pp_Segs (pp_dash dash ++ 'a' :: 'l' :: 'p' :: 'h' :: 'a' :: nm) (some (['a'], strToNat nm), none, none) := by
  apply pp_segs_pre _ _ _ _ hd
  cases dash <;> simp [pp_dash, dropOptSep, isSep, preWords, firstPrefix, dropPrefix?]

theorem pp_segs_beta (dash : Bool) (nm : Str) (hd : allDigits nm = true) :
    pp_Segs (pp_dash dash ++ 'b' :: 'e' :: 't' :: 'a' :: nm) (some (['b'], strToNat nm), none, none) := by
  apply pp_segs_pre _ _ _ _ hd
  cases dash <;> simp [pp_dash, dropOptSep, isSep, preWords, firstPrefix, dropPrefix?]

theorem pp_segs_rc (dash : Bool) (nm : Str) (hd : allDigits nm = true) :
    pp_Segs (pp_dash dash ++ 'r' :: 'c' :: nm) (some (['r', 'c'], strToNat nm), none, none) := by
  apply pp_segs_pre _ _ _ _ hd
  cases dash <;> simp [pp_dash, dropOptSep, isSep, preWords, firstPrefix, dropPrefix?]

theorem pp_segs_post (dash : Bool) (nm : Str) (hd : allDigits nm = true) :
    pp_Segs (pp_dash dash ++ 'p' :: 'o' :: 's' :: 't' :: nm) (none, some (strToNat nm), none) := by
  refine ⟨pp_dash dash ++ 'p' :: 'o' :: 's' :: 't' :: nm, [], ?_, ?_, rfl⟩
  · cases dash <;> simp [pp_dash, preSeg, letterSeg, dropOptSep, isSep, preWords, firstPrefix, dropPrefix?]
  · have hl : letterSeg postWords (pp_dash dash ++ 'p' :: 'o' :: 's' :: 't' :: nm)
        = some ((['p', 'o', 's', 't'], strToNat nm), []) := by
      apply pp_letterSeg _ _ _ _ _ hd
      cases dash <;> simp [pp_dash, dropOptSep, isSep, postWords, firstPrefix, dropPrefix?]
    cases dash
    · simp only [pp_dash, Bool.false_eq_true, if_false, List.nil_append] at hl ⊢
      simp only [postSeg, hl]
      rfl
    · simp only [pp_dash, if_true, List.cons_append, List.nil_append] at hl ⊢
      simp only [postSeg, hl]
      rfl

theorem pp_segs_dev (dash : Bool) (nm : Str) (hd : allDigits nm = true) :
    pp_Segs (pp_dash dash ++ 'd' :: 'e' :: 'v' :: nm) (none, none, some (strToNat nm)) := by
  refine ⟨pp_dash dash ++ 'd' :: 'e' :: 'v' :: nm, pp_dash dash ++ 'd' :: 'e' :: 'v' :: nm, ?_, ?_, ?_⟩
  · cases dash <;> simp [pp_dash, preSeg, letterSeg, dropOptSep, isSep, preWords, firstPrefix, dropPrefix?]
  · cases dash <;>
      simp [pp_dash, postSeg, letterSeg, dropOptSep, isSep, postWords, firstPrefix, dropPrefix?, isDigit]
  · have hl : letterSeg devWords (pp_dash dash ++ 'd' :: 'e' :: 'v' :: nm)
        = some ((['d', 'e', 'v'], strToNat nm), []) := by
      apply pp_letterSeg _ _ _ _ _ hd
      cases dash <;> simp [pp_dash, dropOptSep, isSep, devWords, firstPrefix, dropPrefix?]
    simp only [devSeg, hl]

/-- the tag words a supported pattern can render: the CLI's release tags other than `final` and their short forms -/
def pp_tagWords : List Str := ["alpha", "beta", "rc", "post", "dev", "a", "b"].map String.toList

theorem pp_tailOK_tag (dash : Bool) (tg nm : Str) (ht : tg ∈ pp_tagWords) : TailOK (pp_dash dash ++ (tg ++ nm)) := by
  simp only [pp_tagWords, List.map_cons, List.map_nil, List.mem_cons, List.not_mem_nil, or_false] at ht
  cases dash
  · rcases ht with rfl | rfl | rfl | rfl | rfl | rfl | rfl <;>
      exact tailOK_cons _ _ (by decide) (by decide) (by decide)
  · exact tailOK_cons _ _ (by decide) (by decide) (by decide)

/-- THE TAG TEXT: an optional `-`, a tag word (long or short) and digits (possibly none) parse to the segment of
    the word's short form with the number the digits denote (none: 0) -/
theorem pp_segs_tag (dash : Bool) (tg short nm : Str) (ht : tg ∈ pp_tagWords)
    (hl : lookup tg Gen.pep440TagByTag = some short) (hd : allDigits nm = true) :
    ∃ s, pepSegOf short (strToNat nm) = some s ∧ pp_Segs (pp_dash dash ++ (tg ++ nm)) s := by
  simp only [pp_tagWords, List.map_cons, List.map_nil, List.mem_cons, List.not_mem_nil, or_false] at ht
  rcases ht with rfl | rfl | rfl | rfl | rfl | rfl | rfl
  · have : short = ['a'] := (Option.some.inj hl).symm
    subst this
    exact ⟨_, rfl, pp_segs_alpha dash nm hd⟩
  · have : short = ['b'] := (Option.some.inj hl).symm
    subst this
    exact ⟨_, rfl, pp_segs_beta dash nm hd⟩
  · have : short = ['r', 'c'] := (Option.some.inj hl).symm
    subst this
    exact ⟨_, rfl, pp_segs_rc dash nm hd⟩
  · have : short = ['p', 'o', 's', 't'] := (Option.some.inj hl).symm
    subst this
    exact ⟨_, rfl, pp_segs_post dash nm hd⟩
  · have : short = ['d', 'e', 'v'] := (Option.some.inj hl).symm
    subst this
    exact ⟨_, rfl, pp_segs_dev dash nm hd⟩
  · have : short = ['a'] := (Option.some.inj hl).symm
    subst this
    exact ⟨_, rfl, pp_segs_a dash nm hd⟩
  · have : short = ['b'] := (Option.some.inj hl).symm
    subst this
    exact ⟨_, rfl, pp_segs_b dash nm hd⟩

/-! ## Part D: a release part renders as a non-empty digit string -/

theorem pp_fmt_ne (kd : Gen.FmtKind) (x : Nat) : fmtValue kd (.nat x) ≠ [] := by
  cases kd <;> simp [fmtValue, zfill, natToStr_ne_nil]

theorem pp_digits_of_get (v : VInfo) (n f : Str) (kd : Gen.FmtKind) (x : Nat)
    (hf : lookup n Gen.partFields = some f) (hk : lookup n Gen.partFormats = some kd) (hg : v.get f = .nat x) :
    ∃ t, partText v n = some t ∧ pp_DigitsNE t :=
  ⟨fmtValue kd (.nat x), by simp only [partText, hf, hk, hg], pp_fmt_ne kd x, allDigits_fmtValue kd x⟩

theorem pp_digits_cal (n f : Str) (kd : Gen.FmtKind) (get : CalOpt → Option Nat) (lo hi : Nat)
    (hf : lookup n Gen.partFields = some f) (hk : lookup n Gen.partFormats = some kd)
    (hget : ∀ v : VInfo, v.get f = optNat (get v.cal)) (v : VInfo) (hok : optIn (get v.cal) lo hi = true) :
    ∃ t, partText v n = some t ∧ pp_DigitsNE t := by
  cases hx : get v.cal with
  | none => rw [hx] at hok; cases hok
  | some x => exact pp_digits_of_get v n f kd x hf hk (by rw [hget, hx]; rfl)

/-- THE PER-PART LEMMA: a release part renders, for a record in its domain, as a non-empty digit string -/
theorem pp_part_digits (v : VInfo) (n : Str) (hr : isRelPart n = true) (hok : partOk v n = true) :
    ∃ t, partText v n = some t ∧ pp_DigitsNE t := by
  unfold partOk at hok
  cases hl : lookup n partDoms with
  | none => rw [hl] at hok; cases hok
  | some d =>
    rw [hl] at hok
    have hmem := lookup_mem_cl n partDoms d hl
    simp only [partDoms, List.mem_cons, Prod.mk.injEq, List.not_mem_nil, or_false] at hmem
    rcases hmem with ⟨rfl, rfl⟩ | ⟨rfl, rfl⟩ | ⟨rfl, rfl⟩ | ⟨rfl, rfl⟩ | ⟨rfl, rfl⟩ | ⟨rfl, rfl⟩ |
      ⟨rfl, rfl⟩ | ⟨rfl, rfl⟩ | ⟨rfl, rfl⟩ | ⟨rfl, rfl⟩ | ⟨rfl, rfl⟩ | ⟨rfl, rfl⟩ | ⟨rfl, rfl⟩ |
      ⟨rfl, rfl⟩ | ⟨rfl, rfl⟩ | ⟨rfl, rfl⟩ | ⟨rfl, rfl⟩ | ⟨rfl, rfl⟩ | ⟨rfl, rfl⟩ | ⟨rfl, rfl⟩ |
      ⟨rfl, rfl⟩ | ⟨rfl, rfl⟩ | ⟨rfl, rfl⟩ | ⟨rfl, rfl⟩ | ⟨rfl, rfl⟩ | ⟨rfl, rfl⟩ | ⟨rfl, rfl⟩ |
      ⟨rfl, rfl⟩ | ⟨rfl, rfl⟩
    · exact pp_digits_cal _ "year_y".toList _ (·.yearY) _ _ (by decide) rfl (fun _ => rfl) v hok
    · exact pp_digits_cal _ "year_y".toList _ (·.yearY) _ _ (by decide) rfl (fun _ => rfl) v hok
    · exact pp_digits_cal _ "year_y".toList _ (·.yearY) _ _ (by decide) rfl (fun _ => rfl) v hok
    · exact pp_digits_cal _ "year_g".toList _ (·.yearG) _ _ (by decide) rfl (fun _ => rfl) v hok
    · exact pp_digits_cal _ "year_g".toList _ (·.yearG) _ _ (by decide) rfl (fun _ => rfl) v hok
    · exact pp_digits_cal _ "year_g".toList _ (·.yearG) _ _ (by decide) rfl (fun _ => rfl) v hok
    · exact pp_digits_cal _ "quarter".toList _ (·.quarter) _ _ (by decide) rfl (fun _ => rfl) v hok
    · exact pp_digits_cal _ "month".toList _ (·.month) _ _ (by decide) rfl (fun _ => rfl) v hok
    · exact pp_digits_cal _ "month".toList _ (·.month) _ _ (by decide) rfl (fun _ => rfl) v hok
    · exact pp_digits_cal _ "dom".toList _ (·.dom) _ _ (by decide) rfl (fun _ => rfl) v hok
    · exact pp_digits_cal _ "dom".toList _ (·.dom) _ _ (by decide) rfl (fun _ => rfl) v hok
    · exact pp_digits_cal _ "doy".toList _ (·.doy) _ _ (by decide) rfl (fun _ => rfl) v hok
    · exact pp_digits_cal _ "doy".toList _ (·.doy) _ _ (by decide) rfl (fun _ => rfl) v hok
    · exact pp_digits_cal _ "week_w".toList _ (·.weekW) _ _ (by decide) rfl (fun _ => rfl) v hok
    · exact pp_digits_cal _ "week_w".toList _ (·.weekW) _ _ (by decide) rfl (fun _ => rfl) v hok
    · exact pp_digits_cal _ "week_u".toList _ (·.weekU) _ _ (by decide) rfl (fun _ => rfl) v hok
    · exact pp_digits_cal _ "week_u".toList _ (·.weekU) _ _ (by decide) rfl (fun _ => rfl) v hok
    · exact pp_digits_cal _ "week_v".toList _ (·.weekV) _ _ (by decide) rfl (fun _ => rfl) v hok
    · exact pp_digits_cal _ "week_v".toList _ (·.weekV) _ _ (by decide) rfl (fun _ => rfl) v hok
    · exact pp_digits_of_get v _ "major".toList _ v.major (by decide) rfl rfl
    · exact pp_digits_of_get v _ "minor".toList _ v.minor (by decide) rfl rfl
    · exact pp_digits_of_get v _ "patch".toList _ v.patch (by decide) rfl rfl
    · exact absurd hr (by decide)
    · exact pp_digits_of_get v _ "inc0".toList _ v.inc0 (by decide) rfl rfl
    · exact pp_digits_of_get v _ "inc1".toList _ v.inc1 (by decide) rfl rfl
    · exact ⟨v.bid, partText_BUILD v, (isDigitStr_iff v.bid).1 hok⟩
    · exact ⟨_, partText_BLD v, natToStr_ne_nil _, allDigits_natToStr _⟩
    · exact absurd hr (by decide)
    · exact absurd hr (by decide)

/-! ## Part E: the tree: the rendered text is head ++ `.`-components ++ tag text -/

/-- the rendered text without the release components and their dots: what is left is the tag text -/
def pp_tagRender (v : VInfo) : Pat → Str
  | .done => []
  | .lit c rest => if c == '.' then pp_tagRender v rest else c :: pp_tagRender v rest
  | .part n rest => if isRelPart n then pp_tagRender v rest else (partText v n).getD n ++ pp_tagRender v rest
  | .opt body rest => (if Pat.allZero v body then [] else pp_tagRender v body) ++ pp_tagRender v rest

theorem pp_isRel_not_tail (n : Str) (h : isRelPart n = true) : isTailPart n = false := by
  simp only [isRelPart, Bool.and_eq_true, Bool.not_eq_true'] at h
  exact h.2

theorem pp_isTag_tail (n : Str) (h : isTagPart n = true) : isTailPart n = true := by
  simp only [isTagPart, isTailPart, Bool.or_eq_true] at h ⊢
  rcases h with h | h
  · exact Or.inl (Or.inl h)
  · exact Or.inl (Or.inr h)

theorem pp_isTag_not_rel (n : Str) (h : isTagPart n = true) : isRelPart n = false := by
  cases hr : isRelPart n with
  | false => rfl
  | true =>
    have h1 := pp_isRel_not_tail n hr
    rw [pp_isTag_tail n h] at h1
    cases h1

/-- a tree of the tail shape without tag and number parts renders release components only -/
theorem pp_noTail (v : VInfo) (t : Pat) (ht : Pat.pepTailShape t = true) (hn : t.hasTailPart = false) :
    pp_tagRender v t = [] ∧ Pat.tagText v t = none ∧ Pat.numShown v t = false := by
  fun_induction Pat.pepTailShape t with
  | case1 => exact ⟨rfl, rfl, rfl⟩
  | case2 c n rest hc ih =>
    simp only [Bool.and_eq_true] at ht
    simp only [Pat.hasTailPart, Pat.parts, List.any_cons, Bool.or_eq_false_iff] at hn
    have := ih ht.2 hn.2
    have hnt : isTagPart n = false := by
      cases h : isTagPart n with
      | false => rfl
      | true => rw [pp_isTag_tail n h] at hn; exact absurd hn.1 (by simp)
    have hnn : (n == "NUM".toList) = false := by
      cases h : n == "NUM".toList with
      | false => rfl
      | true =>
        have : isTailPart n = true := by simp only [isTailPart, h, Bool.or_true]
        rw [this] at hn; exact absurd hn.1 (by simp)
    simp only [pp_tagRender, hc, if_true, ht.1, Pat.tagText, hnt, Pat.numShown, hnn, Bool.false_or]
    exact this
  | case3 c n rest hc =>
    simp only [Bool.and_eq_true] at ht
    simp only [Pat.hasTailPart, Pat.parts, List.any_cons, Bool.or_eq_false_iff] at hn
    rw [pp_isTag_tail n ht.1.2] at hn
    exact absurd hn.1 (by simp)
  | case4 n rest =>
    simp only [Bool.and_eq_true] at ht
    simp only [Pat.hasTailPart, Pat.parts, List.any_cons, Bool.or_eq_false_iff] at hn
    rw [pp_isTag_tail n ht.1] at hn
    exact absurd hn.1 (by simp)
  | case5 body rest ihb ihr =>
    simp only [Bool.and_eq_true] at ht
    simp only [Pat.hasTailPart, Pat.parts, List.any_append, Bool.or_eq_false_iff] at hn
    obtain ⟨b1, b2, b3⟩ := ihb ht.1.1 hn.1
    obtain ⟨r1, r2, r3⟩ := ihr ht.1.2 hn.2
    simp only [pp_tagRender, Pat.tagText, Pat.numShown, b1, b2, b3, r1, r2, r3]
    simp
  | case6 t h1 h2 h3 h4 =>
    cases ht

/-- the three forms of what may follow the tag -/
theorem pp_numTail_cases (t : Pat) (ht : Pat.isNumTail t = true) :
    t = .done ∨ t = .part "NUM".toList .done ∨ t = .opt (.part "NUM".toList .done) .done := by
  cases t with
  | done => exact Or.inl rfl
  | lit c r => cases ht
  | part m r =>
    cases r with
    | done =>
      simp only [Pat.isNumTail, beq_iff_eq] at ht
      subst ht
      exact Or.inr (Or.inl rfl)
    | lit _ _ => cases ht
    | part _ _ => cases ht
    | opt _ _ => cases ht
  | opt b r =>
    cases r with
    | done =>
      cases b with
      | part m b' =>
        cases b' with
        | done =>
          simp only [Pat.isNumTail, beq_iff_eq] at ht
          subst ht
          exact Or.inr (Or.inr rfl)
        | lit _ _ => cases ht
        | part _ _ => cases ht
        | opt _ _ => cases ht
      | done => cases ht
      | lit _ _ => cases ht
      | opt _ _ => cases ht
    | lit _ _ => cases b <;> simp [Pat.isNumTail] at ht
    | part _ _ => cases b <;> simp [Pat.isNumTail] at ht
    | opt _ _ => cases b <;> simp [Pat.isNumTail] at ht

/-- what may follow the tag: it renders the release number or nothing -/
theorem pp_numTail (v : VInfo) (t : Pat) (ht : Pat.isNumTail t = true) :
    Pat.relComps v t = [] ∧ pp_tagRender v t = Pat.render v t ∧ Pat.tagText v t = none ∧
    Pat.render v t = (if Pat.numShown v t then natToStr v.num else []) := by
  rcases pp_numTail_cases t ht with rfl | rfl | rfl
  · exact ⟨rfl, rfl, rfl, rfl⟩
  · refine ⟨rfl, rfl, rfl, ?_⟩
    simp only [Pat.render, Pat.numShown, partText_NUM, beq_self_eq_true, Bool.true_or, if_true, Option.getD_some,
      List.append_nil]
  · have h1 : isRelPart "NUM".toList = false := by decide
    have h2 : isTagPart "NUM".toList = false := by decide
    simp only [Pat.relComps, pp_tagRender, Pat.render, Pat.tagText, Pat.numShown, Pat.allZero, Bool.and_true,
      partText_NUM, partIsZero_NUM, h1, h2]
    by_cases h : v.num = 0
    · simp [h]
    · simp [h]

theorem pp_tagPart_text (v : VInfo) (n : Str) (h : isTagPart n = true) :
    (n = "TAG".toList ∧ partText v n = some v.tag) ∨ (n = "PYTAG".toList ∧ partText v n = some v.pytag) := by
  simp only [isTagPart, Bool.or_eq_true, beq_iff_eq] at h
  rcases h with rfl | rfl
  · exact Or.inl ⟨rfl, partText_TAG v⟩
  · exact Or.inr ⟨rfl, partText_PYTAG v⟩

theorem pp_tagPart_not_num (n : Str) (h : isTagPart n = true) : (n == "NUM".toList) = false := by
  simp only [isTagPart, Bool.or_eq_true, beq_iff_eq] at h
  rcases h with rfl | rfl <;> decide

theorem pp_relPart_not_num (n : Str) (h : isRelPart n = true) : (n == "NUM".toList) = false := by
  have := pp_isRel_not_tail n h
  simp only [isTailPart, Bool.or_eq_false_iff] at this
  exact this.2

theorem pp_relPart_not_tag (n : Str) (h : isRelPart n = true) : isTagPart n = false := by
  cases ht : isTagPart n with
  | false => rfl
  | true => rw [pp_isTag_not_rel n ht] at h; cases h

/-- THE DECOMPOSITION of the text after the first component: `.`-separated digit components, then the tag text -/
theorem pp_render_tail (v : VInfo) (t : Pat) (ht : Pat.pepTailShape t = true) (hv : Pat.vok v t = true) :
    Pat.render v t = pp_relTxt (Pat.relComps v t) ++ pp_tagRender v t ∧
    ∀ d ∈ Pat.relComps v t, pp_DigitsNE d := by
  fun_induction Pat.pepTailShape t with
  | case1 => exact ⟨rfl, fun d hd => by cases hd⟩
  | case2 c n rest hc ih =>
    simp only [Bool.and_eq_true] at ht
    simp only [Pat.vok, Bool.and_eq_true] at hv
    obtain ⟨tx, htx, hdx⟩ := pp_part_digits v n ht.1 hv.1
    obtain ⟨ih1, ih2⟩ := ih ht.2 hv.2
    have hc' : c = '.' := by simpa using hc
    subst hc'
    simp only [Pat.render, Pat.relComps, pp_tagRender, ht.1, if_true, htx, Option.getD_some, pp_relTxt, ih1,
      List.append_assoc, List.cons_append, beq_self_eq_true]
    refine ⟨trivial, ?_⟩
    intro d hd
    simp only [List.mem_cons] at hd
    rcases hd with rfl | hd
    · exact hdx
    · exact ih2 d hd
  | case3 c n rest hc =>
    simp only [Bool.and_eq_true] at ht
    obtain ⟨r1, r2, _, _⟩ := pp_numTail v rest ht.2
    have hnr := pp_isTag_not_rel n ht.1.2
    simp only [Pat.render, Pat.relComps, pp_tagRender, hnr, hc, Bool.false_eq_true, if_false, r1, r2, pp_relTxt,
      List.nil_append]
    exact ⟨trivial, fun d hd => by cases hd⟩
  | case4 n rest =>
    simp only [Bool.and_eq_true] at ht
    obtain ⟨r1, r2, _, _⟩ := pp_numTail v rest ht.2
    have hnr := pp_isTag_not_rel n ht.1
    simp only [Pat.render, Pat.relComps, pp_tagRender, hnr, Bool.false_eq_true, if_false, r1, r2, pp_relTxt,
      List.nil_append]
    exact ⟨trivial, fun d hd => by cases hd⟩
  | case5 body rest ihb ihr =>
    simp only [Bool.and_eq_true, Bool.or_eq_true, Bool.not_eq_true'] at ht
    simp only [Pat.vok, Bool.and_eq_true, Bool.or_eq_true] at hv
    obtain ⟨r1, r2⟩ := ihr ht.1.2 hv.2
    cases hz : Pat.allZero v body with
    | true =>
      simp only [Pat.render, Pat.relComps, pp_tagRender, hz, if_true, List.nil_append]
      exact ⟨r1, r2⟩
    | false =>
      have hvb : Pat.vok v body = true := by
        rcases hv.1 with h | h
        · rw [hz] at h; cases h
        · exact h
      obtain ⟨b1, b2⟩ := ihb ht.1.1 hvb
      simp only [Pat.render, Pat.relComps, pp_tagRender, hz, Bool.false_eq_true, if_false]
      refine ⟨?_, ?_⟩
      · rcases ht.2 with hnt | hd
        · have := (pp_noTail v body ht.1.1 hnt).1
          rw [this, List.append_nil] at b1
          rw [b1, r1, this, pp_relTxt_append, List.nil_append, List.append_assoc]
        · cases rest with
          | done =>
            simp only [Pat.render, Pat.relComps, pp_tagRender, List.append_nil]
            exact b1
          | lit _ _ => cases hd
          | part _ _ => cases hd
          | opt _ _ => cases hd
      · intro d hd
        simp only [List.mem_append] at hd
        rcases hd with hd | hd
        · exact b2 d hd
        · exact r2 d hd
  | case6 t h1 h2 h3 h4 => cases ht

/-- the tag text a record renders: `-`? TAG NUM? -/
def pp_tagTxt (v : VInfo) (dash : Bool) (tg : Option Str) (ns : Bool) : Str :=
  match tg with
  | none => []
  | some t => pp_dash dash ++ (t ++ (if ns then natToStr v.num else []))

/-- THE TAG TEXT of a tree of the tail shape -/
theorem pp_tagForm (v : VInfo) (t : Pat) (ht : Pat.pepTailShape t = true) :
    ∃ dash, pp_tagRender v t = pp_tagTxt v dash (Pat.tagText v t) (Pat.numShown v t) := by
  fun_induction Pat.pepTailShape t with
  | case1 => exact ⟨false, rfl⟩
  | case2 c n rest hc ih =>
    simp only [Bool.and_eq_true] at ht
    obtain ⟨dash, ih⟩ := ih ht.2
    refine ⟨dash, ?_⟩
    simp only [pp_tagRender, hc, if_true, ht.1, Pat.tagText, pp_relPart_not_tag n ht.1, Bool.false_eq_true, if_false,
      Pat.numShown, pp_relPart_not_num n ht.1, Bool.false_or]
    exact ih
  | case3 c n rest hc =>
    simp only [Bool.and_eq_true, beq_iff_eq] at ht
    obtain ⟨_, r2, _, r4⟩ := pp_numTail v rest ht.2
    refine ⟨true, ?_⟩
    have hnr := pp_isTag_not_rel n ht.1.2
    have hc' := ht.1.1
    subst hc'
    rcases pp_tagPart_text v n ht.1.2 with ⟨_, hx⟩ | ⟨_, hx⟩ <;>
      simp only [pp_tagRender, hc, Bool.false_eq_true, if_false, hnr, Pat.tagText, ht.1.2, if_true, hx,
        Option.getD_some, Pat.numShown, pp_tagPart_not_num n ht.1.2, Bool.false_or, pp_tagTxt, pp_dash, r2, r4,
        List.cons_append, List.nil_append]
  | case4 n rest =>
    simp only [Bool.and_eq_true] at ht
    obtain ⟨_, r2, _, r4⟩ := pp_numTail v rest ht.2
    refine ⟨false, ?_⟩
    have hnr := pp_isTag_not_rel n ht.1
    rcases pp_tagPart_text v n ht.1 with ⟨_, hx⟩ | ⟨_, hx⟩ <;>
      simp only [pp_tagRender, Bool.false_eq_true, if_false, hnr, Pat.tagText, ht.1, if_true, hx,
        Option.getD_some, Pat.numShown, pp_tagPart_not_num n ht.1, Bool.false_or, pp_tagTxt, pp_dash, r2, r4,
        List.nil_append]
  | case5 body rest ihb ihr =>
    simp only [Bool.and_eq_true, Bool.or_eq_true, Bool.not_eq_true'] at ht
    rcases ht.2 with hnt | hd
    · obtain ⟨b1, b2, b3⟩ := pp_noTail v body ht.1.1 hnt
      obtain ⟨dash, ih⟩ := ihr ht.1.2
      refine ⟨dash, ?_⟩
      simp only [pp_tagRender, Pat.tagText, Pat.numShown, b1, b2, b3, ite_self, List.nil_append, Bool.and_false,
        Bool.false_or]
      exact ih
    · cases rest with
      | done =>
        cases hz : Pat.allZero v body with
        | true => exact ⟨false, by simp only [pp_tagRender, Pat.tagText, Pat.numShown, hz, if_true]; rfl⟩
        | false =>
          obtain ⟨dash, ih⟩ := ihb ht.1.1
          refine ⟨dash, ?_⟩
          simp only [pp_tagRender, Pat.tagText, Pat.numShown, hz, Bool.false_eq_true, if_false, List.append_nil,
            Bool.not_false, Bool.true_and, Bool.or_false]
          rw [ih]
          cases Pat.tagText v body <;> rfl
      | lit _ _ => cases hd
      | part _ _ => cases hd
      | opt _ _ => cases hd
  | case6 t h1 h2 h3 h4 => cases ht

/-! ### the first component -/

theorem pp_vok_headComp (v : VInfo) : ∀ q : Pat, Pat.vok v q = true → Pat.vok v q.headComp = true := by
  intro q
  induction q with
  | done => intro h; exact h
  | lit c rest ih =>
    intro h
    simp only [Pat.headComp]
    split
    · rfl
    · exact ih h
  | part n rest ih =>
    intro h
    simp only [Pat.vok, Bool.and_eq_true] at h
    simp only [Pat.headComp, Pat.vok, Bool.and_eq_true]
    exact ⟨h.1, ih h.2⟩
  | opt body rest _ _ => intro _; rfl

theorem pp_head_digits (v : VInfo) (h : Pat) (hh : Pat.pepHead h = true) (hv : Pat.vok v h = true) :
    pp_DigitsNE (Pat.render v h) := by
  fun_induction Pat.pepHead h with
  | case1 n =>
    simp only [Pat.vok, Bool.and_true] at hv
    obtain ⟨tx, htx, hdx⟩ := pp_part_digits v n hh hv
    simp only [Pat.render, htx, Option.getD_some, List.append_nil]
    exact hdx
  | case2 n rest _ ih =>
    simp only [Bool.and_eq_true] at hh
    simp only [Pat.vok, Bool.and_eq_true] at hv
    obtain ⟨tx, htx, hdx⟩ := pp_part_digits v n hh.1 hv.1
    obtain ⟨_, i2⟩ := ih hh.2 hv.2
    simp only [Pat.render, htx, Option.getD_some]
    refine ⟨?_, ?_⟩
    · intro e
      exact hdx.1 (List.append_eq_nil_iff.mp e).1
    · rw [allDigits_append]
      exact ⟨hdx.2, i2⟩
  | case3 t h1 h2 => cases hh

theorem pp_dropV_of_head (t : Pat) (hh : Pat.pepHead t.headComp = true) : t.dropV = t := by
  cases t with
  | done => rfl
  | part _ _ => rfl
  | opt _ _ => rfl
  | lit c rest =>
    simp only [Pat.headComp] at hh
    split at hh <;> cases hh

/-! ### plain characters -/

theorem pp_plain_relTxt (dss : List Str) (h : ∀ d ∈ dss, pp_DigitsNE d) : (pp_relTxt dss).all pp_plain = true := by
  induction dss with
  | nil => rfl
  | cons d ds ih =>
    simp only [pp_relTxt, List.all_cons, List.all_append, Bool.and_eq_true]
    exact ⟨by decide, pp_plain_digits d (h d (by simp)).2, ih (fun d' hd' => h d' (by simp [hd']))⟩

theorem pp_plain_tagWords : pp_tagWords.all (fun w => w.all pp_plain) = true := by decide

theorem pp_plain_dash (dash : Bool) : (pp_dash dash).all pp_plain = true := by cases dash <;> decide

/-- the parser's preprocessing does nothing to plain text that starts with a digit, and removes a leading `v` -/
theorem pp_parsePep_plain (s : Str) (hall : s.all pp_plain = true) (hd : ∃ c t, s = c :: t ∧ isDigit c = true) :
    parsePep s = parseCore s ∧ parsePep ('v' :: s) = parseCore s := by
  obtain ⟨c, t, hs, hc⟩ := hd
  have hall' : ('v' :: s).all pp_plain = true := by
    simp only [List.all_cons, hall, Bool.and_true]; decide
  refine ⟨?_, ?_⟩
  · unfold parsePep
    rw [pp_lowerStr _ hall, pp_reStrip _ hall, hs, dropV_of_digit c t hc]
  · unfold parsePep
    rw [pp_lowerStr _ hall', pp_reStrip _ hall']
    rfl

/-! ## Part F: the theorems -/

/-- every tag a tree renders for the record is a parseable tag word (not `final`) with a short form -/
def pp_TagsOk (v : VInfo) (t : Pat) : Prop :=
  ∀ tg, Pat.tagText v t = some tg → tg ∈ pp_tagWords ∧ ∃ short, lookup tg Gen.pep440TagByTag = some short

theorem pp_strToNat_num (v : VInfo) (ns : Bool) :
    strToNat (if ns then natToStr v.num else []) = (if ns then v.num else 0) ∧
    allDigits (if ns then natToStr v.num else []) = true := by
  cases ns
  · exact ⟨rfl, rfl⟩
  · exact ⟨strToNat_natToStr _, allDigits_natToStr _⟩

/-- THE TREE THEOREM: a tree of the parseable shape (without a leading `v`) renders, for a record in its domain
    whose rendered tag is a tag word, a text that the PEP 440 parser reads as `pepOfVersion` — with or without a
    `v` in front -/
theorem pp_parse_tree (v : VInfo) (t : Pat) (hp : t.pepParseable = true) (hv : Pat.vok v t = true)
    (htg : pp_TagsOk v t.afterHead) :
    ∃ ver, pepOfVersion t v = some ver ∧ parsePep (Pat.render v t) = some ver ∧
      parsePep ('v' :: Pat.render v t) = some ver := by
  simp only [Pat.pepParseable, Bool.and_eq_true] at hp
  obtain ⟨hh, hta⟩ := hp
  have hH := pp_head_digits v t.headComp hh (pp_vok_headComp v t hv)
  obtain ⟨d1, d2⟩ := pp_render_tail v t.afterHead hta (vok_afterHead v t hv)
  obtain ⟨dash, hform⟩ := pp_tagForm v t.afterHead hta
  have hrender : Pat.render v t = Pat.render v t.headComp ++
      (pp_relTxt (Pat.relComps v t.afterHead) ++ pp_tagRender v t.afterHead) := by
    rw [render_head_after v t, d1]
  have hplainH := pp_plain_digits _ hH.2
  have hplainR := pp_plain_relTxt _ d2
  have hdig : ∃ c r, Pat.render v t = c :: r ∧ isDigit c = true := by
    rw [hrender]
    cases hx : Pat.render v t.headComp with
    | nil => exact absurd hx hH.1
    | cons c r =>
      have := hH.2
      rw [hx, allDigits_cons] at this
      exact ⟨c, _, rfl, this.1⟩
  have hdv := pp_dropV_of_head t hh
  cases htt : Pat.tagText v t.afterHead with
  | none =>
    rw [htt] at hform
    simp only [pp_tagTxt] at hform
    have hov : pepOfVersion t v = some (pepMk (pepRelease v t) (none, none, none)) := by
      simp only [pepOfVersion, hdv, htt]
    have hall : (Pat.render v t).all pp_plain = true := by
      rw [hrender, hform]
      simp only [List.all_append, hplainH, hplainR, List.all_nil, Bool.and_self]
    have hcore : parseCore (Pat.render v t) = some (pepMk (pepRelease v t) (none, none, none)) := by
      rw [hrender, hform]
      exact pp_parseCore _ _ [] [] [] none none none hH d2 tailOK_nil rfl rfl rfl
    obtain ⟨p1, p2⟩ := pp_parsePep_plain _ hall hdig
    exact ⟨_, hov, by rw [p1, hcore], by rw [p2, hcore]⟩
  | some tg =>
    obtain ⟨hw, short, hl⟩ := htg tg htt
    rw [htt] at hform
    simp only [pp_tagTxt] at hform
    obtain ⟨hn1, hn2⟩ := pp_strToNat_num v (Pat.numShown v t.afterHead)
    obtain ⟨s, hs, T4, T5, g1, g2, g3⟩ := pp_segs_tag dash tg short _ hw hl hn2
    rw [hn1] at hs
    have hov : pepOfVersion t v = some (pepMk (pepRelease v t) s) := by
      simp only [pepOfVersion, hdv, htt, hl, hs, Option.map_some]
    have hall : (Pat.render v t).all pp_plain = true := by
      rw [hrender, hform]
      have hwp := List.all_eq_true.mp pp_plain_tagWords tg hw
      simp only [List.all_append, hplainH, hplainR, pp_plain_dash, hwp, pp_plain_digits _ hn2, Bool.and_self]
    have hcore : parseCore (Pat.render v t) = some (pepMk (pepRelease v t) s) := by
      rw [hrender, hform]
      exact pp_parseCore _ _ _ T4 T5 s.1 s.2.1 s.2.2 hH d2 (pp_tailOK_tag dash tg _ hw) g1 g2 g3
    obtain ⟨p1, p2⟩ := pp_parsePep_plain _ hall hdig
    exact ⟨_, hov, by rw [p1, hcore], by rw [p2, hcore]⟩


/-! ### where a rendered tag comes from -/

theorem pp_tagText_src (v : VInfo) : ∀ t : Pat, Pat.vok v t = true → ∀ tg, Pat.tagText v t = some tg →
    (tg = v.tag ∧ "TAG".toList ∈ t.parts ∧ tagOk v = true) ∨ (tg = v.pytag ∧ pytagOk v = true) := by
  intro t
  induction t with
  | done => intro _ tg h; cases h
  | lit c rest ih => intro hv tg h; exact ih hv tg h
  | part n rest ih =>
    intro hv tg h
    simp only [Pat.vok, Bool.and_eq_true] at hv
    cases hn : isTagPart n with
    | true =>
      simp only [Pat.tagText, hn, if_true] at h
      rcases pp_tagPart_text v n hn with ⟨rfl, hx⟩ | ⟨rfl, hx⟩
      · rw [hx] at h
        exact Or.inl ⟨(Option.some.inj h).symm, List.mem_cons_self, hv.1⟩
      · rw [hx] at h
        exact Or.inr ⟨(Option.some.inj h).symm, hv.1⟩
    | false =>
      simp only [Pat.tagText, hn, Bool.false_eq_true, if_false] at h
      rcases ih hv.2 tg h with ⟨h1, h2, h3⟩ | h1
      · exact Or.inl ⟨h1, List.mem_cons_of_mem _ h2, h3⟩
      · exact Or.inr h1
  | opt body rest ihb ihr =>
    intro hv tg h
    simp only [Pat.vok, Bool.and_eq_true, Bool.or_eq_true] at hv
    simp only [Pat.tagText] at h
    cases hz : Pat.allZero v body with
    | true =>
      simp only [hz, if_true] at h
      rcases ihr hv.2 tg h with ⟨h1, h2, h3⟩ | h1
      · exact Or.inl ⟨h1, List.mem_append_right _ h2, h3⟩
      · exact Or.inr h1
    | false =>
      have hvb : Pat.vok v body = true := by
        rcases hv.1 with h' | h'
        · rw [hz] at h'; cases h'
        · exact h'
      simp only [hz, Bool.false_eq_true, if_false] at h
      cases hb : Pat.tagText v body with
      | some t' =>
        rw [hb] at h
        simp only [Option.some.injEq] at h
        subst h
        rcases ihb hvb t' hb with ⟨h1, h2, h3⟩ | h1
        · exact Or.inl ⟨h1, List.mem_append_left _ h2, h3⟩
        · exact Or.inr h1
      | none =>
        rw [hb] at h
        rcases ihr hv.2 tg h with ⟨h1, h2, h3⟩ | h1
        · exact Or.inl ⟨h1, List.mem_append_right _ h2, h3⟩
        · exact Or.inr h1

theorem pp_shortTag_word (t : Str) (h : t ∈ pepShortTags) :
    t ∈ pp_tagWords ∧ lookup t Gen.pep440TagByTag = some t := by
  simp only [pepShortTags, List.map_cons, List.map_nil, List.mem_cons, List.not_mem_nil, or_false] at h
  rcases h with rfl | rfl | rfl | rfl | rfl <;> exact ⟨by decide, by decide⟩

/-- a tree without TAG parts renders only short tags -/
theorem pp_tagsOk_noTAG (v : VInfo) (t : Pat) (hv : Pat.vok v t = true) (hn : "TAG".toList ∉ t.parts) :
    pp_TagsOk v t ∧ ∀ tg, Pat.tagText v t = some tg → tg = v.pytag := by
  refine ⟨?_, ?_⟩
  · intro tg h
    rcases pp_tagText_src v t hv tg h with ⟨_, h2, _⟩ | ⟨h1, h2⟩
    · exact absurd h2 hn
    · have := pp_shortTag_word _ (pytagOk_short v h2)
      rw [h1]
      exact ⟨this.1, _, this.2⟩
  · intro tg h
    rcases pp_tagText_src v t hv tg h with ⟨_, h2, _⟩ | ⟨h1, _⟩
    · exact absurd h2 hn
    · exact h1

/-! ### a numbered tag shows its number -/

theorem pp_numShown_of_tag (v : VInfo) : ∀ t : Pat, Pat.pytagNumbered t = true → "TAG".toList ∉ t.parts →
    ∀ tg, Pat.tagText v t = some tg → Pat.numShown v t = true := by
  intro t
  induction t with
  | done => intro _ _ tg h; cases h
  | lit c rest ih => intro hp hn tg h; exact ih hp hn tg h
  | part n rest ih =>
    intro hp hn tg h
    simp only [Pat.pytagNumbered, Bool.and_eq_true, Bool.or_eq_true, bne_iff_ne, ne_eq] at hp
    simp only [Pat.parts, List.mem_cons, not_or] at hn
    cases ht : isTagPart n with
    | true =>
      rcases pp_tagPart_text v n ht with ⟨rfl, _⟩ | ⟨rfl, _⟩
      · exact absurd rfl hn.1
      · rcases hp.1 with h1 | h1
        · exact absurd rfl h1
        · cases rest with
          | part m r =>
            simp only [beq_iff_eq] at h1
            subst h1
            simp [Pat.numShown]
          | done => cases h1
          | lit _ _ => cases h1
          | opt _ _ => cases h1
    | false =>
      simp only [Pat.tagText, ht, Bool.false_eq_true, if_false] at h
      simp only [Pat.numShown, ih hp.2 (fun e => hn.2 e) tg h, Bool.or_true]
  | opt body rest ihb ihr =>
    intro hp hn tg h
    simp only [Pat.pytagNumbered, Bool.and_eq_true] at hp
    simp only [Pat.parts, List.mem_append, not_or] at hn
    simp only [Pat.tagText] at h
    cases hz : Pat.allZero v body with
    | true =>
      simp only [hz, if_true] at h
      simp only [Pat.numShown, ihr hp.2 hn.2 tg h, Bool.or_true]
    | false =>
      simp only [hz, Bool.false_eq_true, if_false] at h
      cases hb : Pat.tagText v body with
      | some t' =>
        simp only [Pat.numShown, hz, ihb hp.1 hn.1 t' hb, Bool.not_false, Bool.and_self, Bool.true_or]
      | none =>
        rw [hb] at h
        simp only [Pat.numShown, ihr hp.2 hn.2 tg h, Bool.or_true]

theorem pp_pytagNumbered_afterHead : ∀ q : Pat, Pat.pytagNumbered q = true → Pat.pytagNumbered q.afterHead = true := by
  intro q
  induction q with
  | done => intro h; exact h
  | lit c rest ih =>
    intro h
    simp only [Pat.afterHead]
    split
    · exact h
    · exact ih h
  | part n rest ih =>
    intro h
    simp only [Pat.pytagNumbered, Bool.and_eq_true] at h
    exact ih h.2
  | opt body rest _ _ => intro h; exact h

theorem pp_normal_noTAG (q : Pat) (h : q.parts.all pepNormalPart = true) : "TAG".toList ∉ q.parts := by
  intro hm
  have := List.all_eq_true.mp h _ hm
  revert this
  decide

/-- on a derived tree in normal form the two readings agree -/
theorem pp_ofVersion_eq_ofRecord (q : Pat) (v : VInfo) (hn : Pat.pepNormal q = true) (hs : q.pepParseable = true)
    (hv : Pat.vok v q = true) : pepOfVersion q v = pepOfRecord q v := by
  simp only [Pat.pepNormal, Bool.and_eq_true] at hn
  obtain ⟨⟨⟨_, hN⟩, _⟩, hP⟩ := hn
  have hnt := pp_normal_noTAG _ hN
  have hva := vok_afterHead v q hv
  simp only [Pat.pepParseable, Bool.and_eq_true] at hs
  have hdv := pp_dropV_of_head q hs.1
  cases htt : Pat.tagText v q.afterHead with
  | none => simp only [pepOfVersion, hdv, htt, pepOfRecord, Pat.tagShown, Option.isSome_none, Bool.false_eq_true, if_false]
  | some tg =>
    have h1 := (pp_tagsOk_noTAG v _ hva hnt).2 tg htt
    subst h1
    obtain ⟨_, hl⟩ := pp_shortTag_word v.pytag (by
      rcases pp_tagText_src v _ hva _ htt with ⟨_, h2, _⟩ | ⟨_, h2⟩
      · exact absurd h2 hnt
      · exact pytagOk_short v h2)
    have hns := pp_numShown_of_tag v _ (pp_pytagNumbered_afterHead q hP) hnt _ htt
    simp only [pepOfVersion, hdv, htt, hl, hns, if_true, pepOfRecord, Pat.tagShown, Option.isSome_some]

/-- G2: the text a derived tree renders parses to the version the record denotes -/
theorem pp_derived_parses (q : Pat) (v : VInfo) (hn : Pat.pepNormal q = true) (hs : q.pepParseable = true)
    (hv : Pat.vok v q = true) :
    ∃ ver, pepOfRecord q v = some ver ∧ parsePep (Pat.render v q) = some ver ∧ wfPep ver = true := by
  have hN : q.afterHead.parts.all pepNormalPart = true := by
    simp only [Pat.pepNormal, Bool.and_eq_true] at hn
    exact hn.1.1.2
  obtain ⟨ver, h1, h2, _⟩ := pp_parse_tree v q hs hv
    (pp_tagsOk_noTAG v _ (vok_afterHead v q hv) (pp_normal_noTAG _ hN)).1
  rw [pp_ofVersion_eq_ofRecord q v hn hs hv] at h1
  exact ⟨ver, h1, h2, parsePep_wf _ ver h2⟩



/-! ### the release numbers are the record's field values -/

theorem pp_relComps_names (v : VInfo) : ∀ t : Pat,
    Pat.relComps v t = (Pat.relNames v t).map (fun n => (partText v n).getD n) := by
  intro t
  induction t with
  | done => rfl
  | lit c rest ih => exact ih
  | part n rest ih =>
    simp only [Pat.relComps, Pat.relNames]
    split
    · simp only [List.map_cons, ih]
    · exact ih
  | opt body rest ihb ihr =>
    simp only [Pat.relComps, Pat.relNames, List.map_append, ihr]
    split
    · rfl
    · rw [ihb]

/-- an unpadded part in its domain shows the number of its field -/
theorem pp_normal_val (v : VInfo) (n : Str) (hN : pepNormalPart n = true) (hr : isRelPart n = true)
    (hok : partOk v n = true) : strToNat ((partText v n).getD n) = partNum v n := by
  obtain ⟨t, ht, _⟩ := pp_part_digits v n hr hok
  cases hf : lookup n Gen.partFields with
  | none => simp only [partText, hf] at ht; cases ht
  | some f =>
    rcases part_normal v n f t hN hok hf ht with ⟨h1, _⟩ | ⟨x, h1, h2⟩
    · have := (field_tag n f hf).2 h1
      subst this
      exact absurd hr (by decide)
    · simp only [ht, Option.getD_some, partNum, hf]
      simp only at h1
      rw [h1, strToNat_natToStr]
      rcases h2 with h2 | ⟨h2, h3⟩
      · simp only at h2; rw [h2]
      · simp only at h2
        subst h2
        have : v.get "bid".toList = .str v.bid := rfl
        rw [this, h3]

theorem pp_relVals_fields (v : VInfo) : ∀ t : Pat, t.parts.all pepNormalPart = true → Pat.vok v t = true →
    (Pat.relComps v t).map strToNat = (Pat.relNames v t).map (partNum v) := by
  intro t
  induction t with
  | done => intro _ _; rfl
  | lit c rest ih => intro hN hv; exact ih hN hv
  | part n rest ih =>
    intro hN hv
    simp only [Pat.parts, List.all_cons, Bool.and_eq_true] at hN
    simp only [Pat.vok, Bool.and_eq_true] at hv
    simp only [Pat.relComps, Pat.relNames]
    cases hr : isRelPart n with
    | false => simp only [Bool.false_eq_true, if_false]; exact ih hN.2 hv.2
    | true => simp only [if_true, List.map_cons, pp_normal_val v n hN.1 hr hv.1, ih hN.2 hv.2]
  | opt body rest ihb ihr =>
    intro hN hv
    simp only [Pat.parts, List.all_append, Bool.and_eq_true] at hN
    simp only [Pat.vok, Bool.and_eq_true, Bool.or_eq_true] at hv
    simp only [Pat.relComps, Pat.relNames, List.map_append, ihr hN.2 hv.2]
    cases hz : Pat.allZero v body with
    | true => rfl
    | false =>
      have hvb : Pat.vok v body = true := by
        rcases hv.1 with h' | h'
        · rw [hz] at h'; cases h'
        · exact h'
      simp only [Bool.false_eq_true, if_false, ihb hN.1 hvb]

/-- the content of `pepOfRecord` in terms of the record's fields: the release numbers after the first component are
    the field values of the rendered parts -/
theorem pp_release_fields (q : Pat) (v : VInfo) (hn : Pat.pepNormal q = true) (hv : Pat.vok v q = true) :
    pepRelease v q = strToNat (Pat.render v q.headComp) :: (Pat.relNames v q.afterHead).map (partNum v) := by
  have hN : q.afterHead.parts.all pepNormalPart = true := by
    simp only [Pat.pepNormal, Bool.and_eq_true] at hn
    exact hn.1.1.2
  simp only [pepRelease, List.map_cons, pp_relVals_fields v _ hN (vok_afterHead v q hv)]

/-- G2, spelled out: what the parser reads from the written text, in terms of the record -/
theorem pp_derived_content (q : Pat) (v : VInfo) (hn : Pat.pepNormal q = true) (hs : q.pepParseable = true)
    (hv : Pat.vok v q = true) :
    ∃ ver, parsePep (Pat.render v q) = some ver ∧ ver.epoch = 0 ∧ ver.loc = none ∧
      ver.release = strToNat (Pat.render v q.headComp) :: (Pat.relNames v q.afterHead).map (partNum v) ∧
      (if q.afterHead.tagShown v = true then pepSegOf v.pytag v.num = some (ver.pre, ver.post, ver.dev)
       else ver.pre = none ∧ ver.post = none ∧ ver.dev = none) := by
  obtain ⟨ver, h1, h2, _⟩ := pp_derived_parses q v hn hs hv
  refine ⟨ver, h2, ?_⟩
  have hrel := pp_release_fields q v hn hv
  unfold pepOfRecord at h1
  split at h1
  · next hsh =>
    cases hseg : pepSegOf v.pytag v.num with
    | none => rw [hseg] at h1; cases h1
    | some s =>
      rw [hseg] at h1
      simp only [Option.map_some, Option.some.injEq] at h1
      subst h1
      simp only [pepMk, hrel, hsh, if_true]
      exact ⟨trivial, trivial, trivial, trivial⟩
  · next hsh =>
    simp only [Option.some.injEq] at h1
    subst h1
    simp only [pepMk, hrel, hsh]
    exact ⟨trivial, trivial, trivial, by simp⟩


/-! ## Part G: the version pattern and its derived tree denote the same version -/

/-! ### substituted part names -/

theorem pp_sim_cases (n m : Str) (h : pepSimName n m = true) :
    n = m ∨ lookup n Gen.pep440PartSubstitutions = some m := by
  simp only [pepSimName, Bool.or_eq_true, beq_iff_eq] at h
  exact h

theorem pp_sim_zero (v : VInfo) (hr : PepReady v) (n m : Str) (h : pepSimName n m = true) :
    partIsZero v m = partIsZero v n := by
  rcases pp_sim_cases n m h with rfl | h
  · rfl
  · exact partIsZero_subst v hr n m h

theorem pp_subst_mem (n m : Str) (h : lookup n Gen.pep440PartSubstitutions = some m) :
    (n, m) ∈ Gen.pep440PartSubstitutions := lookup_mem_cl n _ m h

theorem pp_sim_rel (n m : Str) (h : pepSimName n m = true) :
    isRelPart m = isRelPart n ∧ isTailPart m = isTailPart n := by
  rcases pp_sim_cases n m h with rfl | h
  · exact ⟨rfl, rfl⟩
  · have hmem := pp_subst_mem n m h
    simp only [Gen.pep440PartSubstitutions, List.mem_cons, Prod.mk.injEq, List.not_mem_nil, or_false] at hmem
    rcases hmem with ⟨rfl, rfl⟩ | ⟨rfl, rfl⟩ | ⟨rfl, rfl⟩ | ⟨rfl, rfl⟩ | ⟨rfl, rfl⟩ | ⟨rfl, rfl⟩ | ⟨rfl, rfl⟩ |
      ⟨rfl, rfl⟩ <;> decide

/-- the number a part's text denotes, for the unpadded / padded / `int` renderings of a numeric field -/
theorem pp_val_nat (v : VInfo) (n f : Str) (kd : Gen.FmtKind) (x : Nat)
    (hf : lookup n Gen.partFields = some f) (hk : lookup n Gen.partFormats = some kd) (hg : v.get f = .nat x)
    (hkd : kd = .str ∨ kd = .int ∨ ∃ w, kd = .pad w) : strToNat ((partText v n).getD n) = x := by
  simp only [partText, hf, hk, hg, Option.getD_some]
  rcases hkd with rfl | rfl | ⟨w, rfl⟩ <;> simp [fmtValue, strToNat_zfill, strToNat_natToStr]

theorem pp_val_pair (n m f : Str) (k1 k2 : Gen.FmtKind) (get : CalOpt → Option Nat) (lo hi : Nat)
    (hf1 : lookup n Gen.partFields = some f) (hf2 : lookup m Gen.partFields = some f)
    (hk1 : lookup n Gen.partFormats = some k1) (hk2 : lookup m Gen.partFormats = some k2)
    (hg1 : k1 = .str ∨ k1 = .int ∨ ∃ w, k1 = .pad w) (hg2 : k2 = .str ∨ k2 = .int ∨ ∃ w, k2 = .pad w)
    (hget : ∀ v : VInfo, v.get f = optNat (get v.cal)) (v : VInfo) (hok : optIn (get v.cal) lo hi = true) :
    strToNat ((partText v m).getD m) = strToNat ((partText v n).getD n) := by
  cases hx : get v.cal with
  | none => rw [hx] at hok; cases hok
  | some x =>
    have hg : v.get f = .nat x := by rw [hget, hx]; rfl
    rw [pp_val_nat v n f k1 x hf1 hk1 hg hg1, pp_val_nat v m f k2 x hf2 hk2 hg hg2]

/-- a substituted release part denotes the same number -/
theorem pp_sim_val (v : VInfo) (n m : Str) (h : pepSimName n m = true) (hr : isRelPart n = true)
    (hok : partOk v n = true) :
    strToNat ((partText v m).getD m) = strToNat ((partText v n).getD n) := by
  rcases pp_sim_cases n m h with rfl | h
  · rfl
  · have hmem := pp_subst_mem n m h
    simp only [Gen.pep440PartSubstitutions, List.mem_cons, Prod.mk.injEq, List.not_mem_nil, or_false] at hmem
    rcases hmem with ⟨rfl, rfl⟩ | ⟨rfl, rfl⟩ | ⟨rfl, rfl⟩ | ⟨rfl, rfl⟩ | ⟨rfl, rfl⟩ | ⟨rfl, rfl⟩ | ⟨rfl, rfl⟩ |
      ⟨rfl, rfl⟩
    · exact pp_val_pair _ _ "week_w".toList _ _ (·.weekW) 0 52 (by decide) (by decide) rfl rfl
        (Or.inr (Or.inr ⟨_, rfl⟩)) (Or.inl rfl) (fun _ => rfl) v hok
    · exact pp_val_pair _ _ "week_u".toList _ _ (·.weekU) 0 52 (by decide) (by decide) rfl rfl
        (Or.inr (Or.inr ⟨_, rfl⟩)) (Or.inl rfl) (fun _ => rfl) v hok
    · exact pp_val_pair _ _ "week_v".toList _ _ (·.weekV) 1 53 (by decide) (by decide) rfl rfl
        (Or.inr (Or.inr ⟨_, rfl⟩)) (Or.inl rfl) (fun _ => rfl) v hok
    · exact pp_val_pair _ _ "month".toList _ _ (·.month) 1 12 (by decide) (by decide) rfl rfl
        (Or.inr (Or.inr ⟨_, rfl⟩)) (Or.inl rfl) (fun _ => rfl) v hok
    · exact pp_val_pair _ _ "dom".toList _ _ (·.dom) 1 31 (by decide) (by decide) rfl rfl
        (Or.inr (Or.inr ⟨_, rfl⟩)) (Or.inl rfl) (fun _ => rfl) v hok
    · exact pp_val_pair _ _ "doy".toList _ _ (·.doy) 1 366 (by decide) (by decide) rfl rfl
        (Or.inr (Or.inr ⟨_, rfl⟩)) (Or.inl rfl) (fun _ => rfl) v hok
    · rw [partText_BUILD, partText_BLD]
      simp only [Option.getD_some, strToNat_natToStr]
    · exact absurd hr (by decide)

/-! ### skeletons -/

theorem pp_allZero_skelIn (v : VInfo) : ∀ t : Pat, Pat.allZero v t.skelIn = Pat.allZero v t := by
  intro t
  induction t with
  | done => rfl
  | lit c rest ih => exact ih
  | part n rest ih => simp only [Pat.skelIn, Pat.allZero, ih]
  | opt body rest ihb ihr => simp only [Pat.skelIn, Pat.allZero, ihb, ihr]

theorem pp_relComps_skelIn (v : VInfo) : ∀ t : Pat, Pat.relComps v t.skelIn = Pat.relComps v t := by
  intro t
  induction t with
  | done => rfl
  | lit c rest ih => exact ih
  | part n rest ih => simp only [Pat.skelIn, Pat.relComps, ih]
  | opt body rest ihb ihr => simp only [Pat.skelIn, Pat.relComps, ihb, ihr, pp_allZero_skelIn]

theorem pp_vok_skelIn (v : VInfo) : ∀ t : Pat, Pat.vok v t.skelIn = Pat.vok v t := by
  intro t
  induction t with
  | done => rfl
  | lit c rest ih => exact ih
  | part n rest ih => simp only [Pat.skelIn, Pat.vok, ih]
  | opt body rest ihb ihr => simp only [Pat.skelIn, Pat.vok, ihb, ihr, pp_allZero_skelIn]

/-- a tree made of tag / number parts has no release component -/
theorem pp_relComps_tailOnly (v : VInfo) : ∀ t : Pat, t.parts.all isTailPart = true → Pat.relComps v t = [] := by
  intro t
  induction t with
  | done => intro _; rfl
  | lit c rest ih => intro h; exact ih h
  | part n rest ih =>
    intro h
    simp only [Pat.parts, List.all_cons, Bool.and_eq_true] at h
    have : isRelPart n = false := by
      simp only [isRelPart, h.1, Bool.not_true, Bool.and_false]
    simp only [Pat.relComps, this, Bool.false_eq_true, if_false]
    exact ih h.2
  | opt body rest ihb ihr =>
    intro h
    simp only [Pat.parts, List.all_append, Bool.and_eq_true] at h
    simp only [Pat.relComps, ihb h.1, ihr h.2, ite_self, List.append_nil]

theorem pp_relComps_skelTop (v : VInfo) : ∀ t : Pat, Pat.relComps v t.skelTop = Pat.relComps v t := by
  intro t
  induction t with
  | done => rfl
  | lit c rest ih => exact ih
  | part n rest ih => simp only [Pat.skelTop, Pat.relComps, ih]
  | opt body rest _ ihr =>
    simp only [Pat.skelTop]
    split
    · next h => simp only [Pat.relComps, pp_relComps_tailOnly v body h, ite_self, List.nil_append, ihr]
    · simp only [Pat.relComps, pp_relComps_skelIn, pp_allZero_skelIn, ihr]

theorem pp_vok_skelTop (v : VInfo) : ∀ t : Pat, Pat.vok v t = true → Pat.vok v t.skelTop = true := by
  intro t
  induction t with
  | done => intro _; rfl
  | lit c rest ih => exact ih
  | part n rest ih =>
    intro h
    simp only [Pat.vok, Bool.and_eq_true] at h
    simp only [Pat.skelTop, Pat.vok, Bool.and_eq_true]
    exact ⟨h.1, ih h.2⟩
  | opt body rest _ ihr =>
    intro h
    simp only [Pat.vok, Bool.and_eq_true] at h
    simp only [Pat.skelTop]
    split
    · exact ihr h.2
    · simp only [Pat.vok, Bool.and_eq_true, pp_allZero_skelIn, pp_vok_skelIn]
      exact ⟨h.1, ihr h.2⟩

/-! ### the same skeleton up to substituted names -/

theorem pp_allZero_sim (v : VInfo) (hr : PepReady v) : ∀ a b : Pat, Pat.pepSim a b = true →
    Pat.allZero v b = Pat.allZero v a := by
  intro a b
  fun_induction Pat.pepSim a b with
  | case1 => intro _; rfl
  | case2 n r1 m r2 ih =>
    intro h
    simp only [Bool.and_eq_true] at h
    simp only [Pat.allZero, pp_sim_zero v hr n m h.1, ih h.2]
  | case3 b1 r1 b2 r2 ihb ihr =>
    intro h
    simp only [Bool.and_eq_true] at h
    simp only [Pat.allZero, ihb h.1, ihr h.2]
  | case4 a b _ _ _ => intro h; cases h

theorem pp_relVals_sim (v : VInfo) (hr : PepReady v) : ∀ a b : Pat, Pat.pepSim a b = true → Pat.vok v a = true →
    (Pat.relComps v b).map strToNat = (Pat.relComps v a).map strToNat := by
  intro a b
  fun_induction Pat.pepSim a b with
  | case1 => intro _ _; rfl
  | case2 n r1 m r2 ih =>
    intro h hv
    simp only [Bool.and_eq_true] at h
    simp only [Pat.vok, Bool.and_eq_true] at hv
    simp only [Pat.relComps, (pp_sim_rel n m h.1).1]
    cases hrel : isRelPart n with
    | false => simp only [Bool.false_eq_true, if_false]; exact ih h.2 hv.2
    | true =>
      simp only [if_true, List.map_cons, pp_sim_val v n m h.1 hrel hv.1, ih h.2 hv.2]
  | case3 b1 r1 b2 r2 ihb ihr =>
    intro h hv
    simp only [Bool.and_eq_true] at h
    simp only [Pat.vok, Bool.and_eq_true, Bool.or_eq_true] at hv
    simp only [Pat.relComps, pp_allZero_sim v hr b1 b2 h.1, List.map_append, ihr h.2 hv.2]
    cases hz : Pat.allZero v b1 with
    | true => rfl
    | false =>
      have hvb : Pat.vok v b1 = true := by
        rcases hv.1 with h' | h'
        · rw [hz] at h'; cases h'
        · exact h'
      simp only [Bool.false_eq_true, if_false, ihb h.1 hvb]
  | case4 a b _ _ _ => intro h; cases h

/-! ### the first component -/

/-- the texts of a list of parts, one after the other -/
def pp_cat (v : VInfo) : List Str → Str
  | [] => []
  | n :: ns => (partText v n).getD n ++ pp_cat v ns

theorem pp_render_cat (v : VInfo) (h : Pat) (hh : Pat.pepHead h = true) : Pat.render v h = pp_cat v h.parts := by
  fun_induction Pat.pepHead h with
  | case1 n => rfl
  | case2 n rest _ ih =>
    simp only [Bool.and_eq_true] at hh
    simp only [Pat.render, Pat.parts, pp_cat, ih hh.2]
  | case3 t h1 h2 => cases hh

theorem pp_head_parts (v : VInfo) (h : Pat) (hh : Pat.pepHead h = true) (hv : Pat.vok v h = true) :
    ∀ n ∈ h.parts, partOk v n = true ∧ isRelPart n = true := by
  fun_induction Pat.pepHead h with
  | case1 n =>
    intro n' hn'
    simp only [Pat.parts, List.mem_cons, List.not_mem_nil, or_false] at hn'
    subst hn'
    simp only [Pat.vok, Bool.and_true] at hv
    exact ⟨hv, hh⟩
  | case2 n rest _ ih =>
    intro n' hn'
    simp only [Bool.and_eq_true] at hh
    simp only [Pat.vok, Bool.and_eq_true] at hv
    simp only [Pat.parts, List.mem_cons] at hn'
    rcases hn' with rfl | hn'
    · exact ⟨hv.1, hh.1⟩
    · exact ih hh.2 hv.2 n' hn'
  | case3 t h1 h2 => cases hh

/-- aligned first components denote the same number -/
theorem pp_head_val (v : VInfo) (a b : Pat) (ha : Pat.pepHead a = true) (hb : Pat.pepHead b = true)
    (hal : pepHeadAligned a.parts b.parts = true) (hv : Pat.vok v a = true) :
    strToNat (Pat.render v b) = strToNat (Pat.render v a) := by
  rw [pp_render_cat v a ha, pp_render_cat v b hb]
  have hp := pp_head_parts v a ha hv
  cases hpa : a.parts with
  | nil => rw [hpa] at hal; cases hal
  | cons n ns =>
    cases hpb : b.parts with
    | nil => rw [hpa, hpb] at hal; cases hal
    | cons m ms =>
      rw [hpa, hpb] at hal
      simp only [pepHeadAligned, Bool.and_eq_true, beq_iff_eq] at hal
      obtain ⟨hs, rfl⟩ := hal
      obtain ⟨hok, hrel⟩ := hp n (by rw [hpa]; exact List.mem_cons_self)
      simp only [pp_cat, strToNat_append, pp_sim_val v n m hs hrel hok]

/-! ### the tag: when it is rendered -/

theorem pp_allZero_false (v : VInfo) (n : Str) (hz : partIsZero v n = false) : ∀ t : Pat, n ∈ t.parts →
    Pat.allZero v t = false := by
  intro t
  induction t with
  | done => intro h; cases h
  | lit c rest ih => intro h; exact ih h
  | part m rest ih =>
    intro h
    simp only [Pat.parts, List.mem_cons] at h
    rcases h with rfl | h
    · simp only [Pat.allZero, hz, Bool.false_and]
    · simp only [Pat.allZero, ih h, Bool.and_false]
  | opt body rest ihb ihr =>
    intro h
    simp only [Pat.parts, List.mem_append] at h
    rcases h with h | h
    · simp only [Pat.allZero, ihb h, Bool.false_and]
    · simp only [Pat.allZero, ihr h, Bool.and_false]

/-- a tree with a tag part renders a tag when the tag parts are not zero (the release is not final) -/
theorem pp_tag_shown (v : VInfo) (hz : ∀ n, isTagPart n = true → partIsZero v n = false) : ∀ t : Pat,
    (∃ n, n ∈ t.parts ∧ isTagPart n = true) → (Pat.tagText v t).isSome = true := by
  intro t
  induction t with
  | done => rintro ⟨n, h, _⟩; cases h
  | lit c rest ih => intro h; exact ih h
  | part m rest ih =>
    rintro ⟨n, hn, ht⟩
    cases hm : isTagPart m with
    | true =>
      simp only [Pat.tagText, hm, if_true]
      rcases pp_tagPart_text v m hm with ⟨_, hx⟩ | ⟨_, hx⟩ <;> rw [hx] <;> rfl
    | false =>
      simp only [Pat.tagText, hm, Bool.false_eq_true, if_false]
      simp only [Pat.parts, List.mem_cons] at hn
      rcases hn with rfl | hn
      · rw [ht] at hm; cases hm
      · exact ih ⟨n, hn, ht⟩
  | opt body rest ihb ihr =>
    rintro ⟨n, hn, ht⟩
    simp only [Pat.parts, List.mem_append] at hn
    simp only [Pat.tagText]
    rcases hn with hn | hn
    · have h1 := pp_allZero_false v n (hz n ht) body hn
      have h2 := ihb ⟨n, hn, ht⟩
      simp only [h1, Bool.false_eq_true, if_false]
      cases hb : Pat.tagText v body with
      | none => rw [hb] at h2; cases h2
      | some t' => rfl
    · have h2 := ihr ⟨n, hn, ht⟩
      split
      · rfl
      · exact h2

/-- a final release renders no tag: a TAG sits in a group of tag / number parts, which is all zero, and a PYTAG
    that is rendered is not empty -/
theorem pp_final_noTag (v : VInfo) (hr : PepReady v) (hf : v.tag = "final".toList) : ∀ t : Pat,
    Pat.tagGuarded t = true → Pat.vok v t = true → Pat.tagText v t = none := by
  have hpy : v.pytag = [] := (pepTag_empty_iff _ _ hr.img).2 hf
  intro t
  induction t with
  | done => intro _ _; rfl
  | lit c rest ih => intro hg hv; exact ih hg hv
  | part n rest ih =>
    intro hg hv
    simp only [Pat.tagGuarded, Bool.and_eq_true, bne_iff_ne, ne_eq] at hg
    simp only [Pat.vok, Bool.and_eq_true] at hv
    cases hn : isTagPart n with
    | true =>
      rcases pp_tagPart_text v n hn with ⟨rfl, _⟩ | ⟨rfl, _⟩
      · exact absurd rfl hg.1
      · have hok : pytagOk v = true := hv.1
        simp only [pytagOk, Bool.and_eq_true, Bool.not_eq_true', List.isEmpty_eq_false_iff] at hok
        exact absurd hpy hok.2
    | false =>
      simp only [Pat.tagText, hn, Bool.false_eq_true, if_false]
      exact ih hg.2 hv.2
  | opt body rest ihb ihr =>
    intro hg hv
    simp only [Pat.tagGuarded, Bool.and_eq_true, Bool.or_eq_true, List.all_eq_true] at hg
    simp only [Pat.vok, Bool.and_eq_true, Bool.or_eq_true] at hv
    simp only [Pat.tagText]
    cases hz : Pat.allZero v body with
    | true => simp only [if_true]; exact ihr hg.2 hv.2
    | false =>
      have hvb : Pat.vok v body = true := by
        rcases hv.1 with h' | h'
        · rw [hz] at h'; cases h'
        · exact h'
      rcases hg.1 with hall | hgb
      · have : Pat.allZero v body = true := by
          apply allZero_of_parts v body
          intro n hn
          have := hall n hn
          simp only [isTailPart, Bool.or_eq_true, beq_iff_eq] at this
          rcases this with (rfl | rfl) | rfl
          · rw [partIsZero_TAG, hf]; rfl
          · rw [partIsZero_PYTAG, hpy]; rfl
          · rw [partIsZero_NUM, hr.num hf]; rfl
        rw [hz] at this; cases this
      · simp only [Bool.false_eq_true, if_false, ihb hgb hvb]
        exact ihr hg.2 hv.2

/-! ### the release number: rendered, or 0 -/

theorem pp_numTail_shown (v : VInfo) (t : Pat) (ht : Pat.isNumTail t = true) (hm : "NUM".toList ∈ t.parts) :
    Pat.numShown v t = true ∨ v.num = 0 := by
  rcases pp_numTail_cases t ht with rfl | rfl | rfl
  · cases hm
  · exact Or.inl rfl
  · by_cases h : v.num = 0
    · exact Or.inr h
    · left
      simp only [Pat.numShown, Pat.allZero, partIsZero_NUM, h, decide_false, Bool.and_true, Bool.not_false,
        beq_self_eq_true, Bool.or_false, Bool.and_self]

theorem pp_noTail_noNum (t : Pat) (hn : t.hasTailPart = false) : "NUM".toList ∉ t.parts := by
  intro hm
  simp only [Pat.hasTailPart, List.any_eq_false] at hn
  exact hn _ hm (by decide)

/-- when the tag is rendered and the pattern has a NUM part, the release number is rendered too, or it is 0 -/
theorem pp_num_shown (v : VInfo) (t : Pat) (ht : Pat.pepTailShape t = true) :
    ∀ tg, Pat.tagText v t = some tg → "NUM".toList ∈ t.parts → Pat.numShown v t = true ∨ v.num = 0 := by
  fun_induction Pat.pepTailShape t with
  | case1 => intro tg h; cases h
  | case2 c n rest hc ih =>
    intro tg h hm
    simp only [Bool.and_eq_true] at ht
    simp only [Pat.tagText, pp_relPart_not_tag n ht.1, Bool.false_eq_true, if_false] at h
    simp only [Pat.parts, List.mem_cons] at hm
    rcases hm with rfl | hm
    · exact absurd ht.1 (by decide)
    · rcases ih ht.2 tg h hm with h' | h'
      · exact Or.inl (by simp only [Pat.numShown, h', Bool.or_true])
      · exact Or.inr h'
  | case3 c n rest hc =>
    intro tg h hm
    simp only [Bool.and_eq_true] at ht
    simp only [Pat.parts, List.mem_cons] at hm
    rcases hm with rfl | hm
    · exact absurd ht.1.2 (by decide)
    · rcases pp_numTail_shown v rest ht.2 hm with h' | h'
      · exact Or.inl (by simp only [Pat.numShown, h', Bool.or_true])
      · exact Or.inr h'
  | case4 n rest =>
    intro tg h hm
    simp only [Bool.and_eq_true] at ht
    simp only [Pat.parts, List.mem_cons] at hm
    rcases hm with rfl | hm
    · exact absurd ht.1 (by decide)
    · rcases pp_numTail_shown v rest ht.2 hm with h' | h'
      · exact Or.inl (by simp only [Pat.numShown, h', Bool.or_true])
      · exact Or.inr h'
  | case5 body rest ihb ihr =>
    intro tg h hm
    simp only [Bool.and_eq_true, Bool.or_eq_true, Bool.not_eq_true'] at ht
    simp only [Pat.parts, List.mem_append] at hm
    simp only [Pat.tagText] at h
    rcases ht.2 with hnt | hd
    · obtain ⟨_, b2, _⟩ := pp_noTail v body ht.1.1 hnt
      simp only [b2, ite_self] at h
      rcases hm with hm | hm
      · exact absurd hm (pp_noTail_noNum body hnt)
      · rcases ihr ht.1.2 tg h hm with h' | h'
        · exact Or.inl (by simp only [Pat.numShown, h', Bool.or_true])
        · exact Or.inr h'
    · cases rest with
      | done =>
        cases hz : Pat.allZero v body with
        | true => simp only [hz, if_true, Pat.tagText] at h; cases h
        | false =>
          simp only [hz, Bool.false_eq_true, if_false] at h
          rcases hm with hm | hm
          · cases hb : Pat.tagText v body with
            | none => rw [hb] at h; cases h
            | some t' =>
              rcases ihb ht.1.1 t' hb hm with h' | h'
              · exact Or.inl (by simp only [Pat.numShown, hz, h', Bool.not_false, Bool.and_self, Bool.true_or])
              · exact Or.inr h'
          · cases hm
      | lit _ _ => cases hd
      | part _ _ => cases hd
      | opt _ _ => cases hd
  | case6 t h1 h2 h3 h4 => cases ht

/-! ### parts of the two halves of a tree -/

theorem pp_parts_head_after : ∀ t : Pat, t.parts = t.headComp.parts ++ t.afterHead.parts := by
  intro t
  induction t with
  | done => rfl
  | lit c rest ih =>
    simp only [Pat.headComp, Pat.afterHead]
    split
    · rfl
    · exact ih
  | part n rest ih => simp only [Pat.headComp, Pat.afterHead, Pat.parts, ih, List.cons_append]
  | opt body rest _ _ => rfl

theorem pp_parts_dropV (p : Pat) : p.dropV.parts = p.parts := by
  cases p with
  | lit c rest =>
    simp only [Pat.dropV]
    split <;> rfl
  | _ => rfl

/-- a tag or number part of a tree with a release-only first component sits after it -/
theorem pp_mem_afterHead (v : VInfo) (t : Pat) (hh : Pat.pepHead t.headComp = true)
    (hv : Pat.vok v t = true) (n : Str) (hn : n ∈ t.parts) (hr : isRelPart n = false) : n ∈ t.afterHead.parts := by
  rw [pp_parts_head_after t, List.mem_append] at hn
  rcases hn with hn | hn
  · have := (pp_head_parts v _ hh (pp_vok_headComp v t hv) n hn).2
    rw [hr] at this; cases this
  · exact hn

theorem pp_tagGuarded_afterHead : ∀ t : Pat, Pat.tagGuarded t = true → Pat.tagGuarded t.afterHead = true := by
  intro t
  induction t with
  | done => intro h; exact h
  | lit c rest ih =>
    intro h
    simp only [Pat.afterHead]
    split
    · exact h
    · exact ih h
  | part n rest ih =>
    intro h
    simp only [Pat.tagGuarded, Bool.and_eq_true] at h
    exact ih h.2
  | opt body rest _ _ => intro h; exact h

theorem pp_tagGuarded_noTAG : ∀ t : Pat, "TAG".toList ∉ t.parts → Pat.tagGuarded t = true := by
  intro t
  induction t with
  | done => intro _; rfl
  | lit c rest ih => intro h; exact ih h
  | part n rest ih =>
    intro h
    simp only [Pat.parts, List.mem_cons, not_or] at h
    simp only [Pat.tagGuarded, Bool.and_eq_true, bne_iff_ne, ne_eq]
    exact ⟨fun e => h.1 e.symm, ih h.2⟩
  | opt body rest ihb ihr =>
    intro h
    simp only [Pat.parts, List.mem_append, not_or] at h
    simp only [Pat.tagGuarded, Bool.and_eq_true, Bool.or_eq_true]
    exact ⟨Or.inr (ihb h.1), ihr h.2⟩

/-! ### the version string parses -/

theorem pp_render_dropV (v : VInfo) (p : Pat) :
    Pat.render v p = Pat.render v p.dropV ∨ Pat.render v p = 'v' :: Pat.render v p.dropV := by
  cases p with
  | lit c rest =>
    simp only [Pat.dropV]
    split
    · next h =>
      have : c = 'v' := by simpa using h
      subst this
      exact Or.inr rfl
    · exact Or.inl rfl
  | done => exact Or.inl rfl
  | part _ _ => exact Or.inl rfl
  | opt _ _ => exact Or.inl rfl

theorem pp_longTag_word (v : VInfo) (hr : PepReady v) (hnf : v.tag ≠ "final".toList) :
    v.tag ∈ pp_tagWords ∧ lookup v.tag Gen.pep440TagByTag = some v.pytag := by
  refine ⟨?_, hr.img⟩
  have hm := hr.tag
  simp only [tagOk, List.contains_iff_mem, Gen.validReleaseTagValues, List.mem_cons, List.not_mem_nil,
    or_false] at hm
  rcases hm with e | e | e | e | e | e
  · rw [e]; decide
  · rw [e]; decide
  · rw [e]; decide
  · rw [e]; decide
  · rw [e]; decide
  · exact absurd e hnf

/-- the tags a guarded version pattern renders are tag words whose short form is `pytag` -/
theorem pp_tags_version (v : VInfo) (hr : PepReady v) (t : Pat) (hg : Pat.tagGuarded t = true)
    (hv : Pat.vok v t = true) :
    ∀ tg, Pat.tagText v t = some tg → tg ∈ pp_tagWords ∧ lookup tg Gen.pep440TagByTag = some v.pytag := by
  intro tg h
  have hnf : v.tag ≠ "final".toList := by
    intro hf
    rw [pp_final_noTag v hr hf t hg hv] at h
    cases h
  rcases pp_tagText_src v t hv tg h with ⟨h1, _, _⟩ | ⟨h1, h2⟩
  · rw [h1]; exact pp_longTag_word v hr hnf
  · rw [h1]; exact pp_shortTag_word _ (pytagOk_short v h2)

/-- G3 (a): the ORIGINAL version string parses to the version the record denotes under the version pattern -/
theorem pp_version_parses (p : Pat) (v : VInfo) (hs : p.dropV.pepParseable = true) (hg : p.tagGuarded = true)
    (hv : Pat.vok v p = true) (hr : pepReady v = true) :
    ∃ ver, pepOfVersion p v = some ver ∧ parsePep (Pat.render v p) = some ver ∧ wfPep ver = true := by
  have hr' := (pepReady_iff v).1 hr
  have hvt := vok_dropV v p hv
  have hgt := tagGuarded_dropV p hg
  have htags := pp_tags_version v hr' _ (pp_tagGuarded_afterHead _ hgt) (vok_afterHead v _ hvt)
  obtain ⟨ver, h1, h2, h3⟩ := pp_parse_tree v p.dropV hs hvt (fun tg h => ⟨(htags tg h).1, _, (htags tg h).2⟩)
  have hh : Pat.pepHead p.dropV.headComp = true := by
    simp only [Pat.pepParseable, Bool.and_eq_true] at hs
    exact hs.1
  have hov : pepOfVersion p v = pepOfVersion p.dropV v := by
    simp only [pepOfVersion, pp_dropV_of_head _ hh]
  rw [← hov] at h1
  rcases pp_render_dropV v p with e | e
  · rw [← e] at h2
    exact ⟨ver, h1, h2, parsePep_wf _ ver h2⟩
  · rw [← e] at h3
    exact ⟨ver, h1, h3, parsePep_wf _ ver h3⟩

/-! ### the version pattern and its derived tree denote the same version -/

theorem pp_tagZero_nonfinal (v : VInfo) (hr : PepReady v) (hnf : v.tag ≠ "final".toList) :
    ∀ n, isTagPart n = true → partIsZero v n = false := by
  intro n hn
  simp only [isTagPart, Bool.or_eq_true, beq_iff_eq] at hn
  rcases hn with rfl | rfl
  · rw [partIsZero_TAG]; exact beq_eq_false_iff_ne.2 hnf
  · rw [partIsZero_PYTAG]
    exact beq_eq_false_iff_ne.2 (fun e => hnf ((pepTag_empty_iff _ _ hr.img).1 e))

/-- G3 (b): under the static relation `Pat.pepShaped` and for a coherent record, the version pattern and its derived
    tree denote THE SAME version -/
theorem pp_version_eq (p : Pat) (v : VInfo) (hs : p.pepShaped = true) (hv : Pat.vok v p = true)
    (hr : pepReady v = true) (hc : pepCoherent p v = true) : pepOfVersion p v = pepOfRecord p.toPep v := by
  have hr' := (pepReady_iff v).1 hr
  simp only [Pat.pepShaped, Bool.and_eq_true] at hs
  obtain ⟨⟨⟨⟨⟨⟨hst, hg⟩, hsq⟩, hnq⟩, hal⟩, hsim⟩, hpy⟩ := hs
  have hvt := vok_dropV v p hv
  have hvq := vok_toPep_guarded p v hv hr' hg
  simp only [Pat.pepParseable, Bool.and_eq_true] at hst hsq
  have hNq : p.toPep.afterHead.parts.all pepNormalPart = true := by
    simp only [Pat.pepNormal, Bool.and_eq_true] at hnq
    exact hnq.1.1.2
  have hntq := pp_normal_noTAG _ hNq
  -- the release numbers
  have hrel : pepRelease v p.toPep = pepRelease v p.dropV := by
    simp only [pepRelease, List.map_cons]
    rw [pp_head_val v _ _ hst.1 hsq.1 hal (pp_vok_headComp v _ hvt)]
    rw [← pp_relComps_skelTop v p.toPep.afterHead, ← pp_relComps_skelTop v p.dropV.afterHead]
    rw [pp_relVals_sim v hr' _ _ hsim (pp_vok_skelTop v _ (vok_afterHead v _ hvt))]
  have hdv := pp_dropV_of_head _ hst.1
  by_cases hf : v.tag = "final".toList
  · -- a final release: no tag on either side
    have hA := pp_final_noTag v hr' hf _ (pp_tagGuarded_afterHead _ (tagGuarded_dropV p hg)) (vok_afterHead v _ hvt)
    have hB := pp_final_noTag v hr' hf _ (pp_tagGuarded_noTAG _ hntq) (vok_afterHead v _ hvq)
    simp only [pepOfVersion, hA, pepOfRecord, Pat.tagShown, hB, Option.isSome_none, Bool.false_eq_true, if_false, hrel]
  · -- a tagged release
    have hz := pp_tagZero_nonfinal v hr' hf
    simp only [pepCoherent, Bool.and_eq_true, Bool.or_eq_true, beq_iff_eq, List.any_eq_true,
      List.contains_iff_mem] at hc
    obtain ⟨n, hn, hnt⟩ : ∃ n, n ∈ p.parts ∧ isTagPart n = true := by
      rcases hc.1 with h | h
      · exact h
      · exact absurd h hf
    have hn' : n ∈ p.dropV.afterHead.parts :=
      pp_mem_afterHead v _ hst.1 hvt n (by rw [pp_parts_dropV]; exact hn) (pp_isTag_not_rel n hnt)
    have hA := pp_tag_shown v hz _ ⟨n, hn', hnt⟩
    have hB := pp_tag_shown v hz p.toPep.afterHead ⟨"PYTAG".toList, by simpa using hpy, by decide⟩
    cases hta : Pat.tagText v p.dropV.afterHead with
    | none => rw [hta] at hA; cases hA
    | some tg =>
      have hl := (pp_tags_version v hr' _ (pp_tagGuarded_afterHead _ (tagGuarded_dropV p hg))
        (vok_afterHead v _ hvt) tg hta).2
      have hnum : (if Pat.numShown v p.dropV.afterHead = true then v.num else 0) = v.num := by
        rcases hc.2 with hm | h0
        · have hm' : "NUM".toList ∈ p.dropV.afterHead.parts :=
            pp_mem_afterHead v _ hst.1 hvt _ (by rw [pp_parts_dropV]; exact hm) (by decide)
          rcases pp_num_shown v _ hst.2 tg hta hm' with h' | h'
          · rw [if_pos h']
          · split
            · rfl
            · exact h'.symm
        · split
          · rfl
          · exact h0.symm
      simp only [pepOfVersion, hta, hl, hnum, pepOfRecord, Pat.tagShown, hB, if_true, hrel]

/-- G3: the ORIGINAL version string and the text written for `{pep440_version}` parse to THE SAME version -/
theorem pp_version_parses_equal (p : Pat) (v : VInfo) (hs : p.pepShaped = true) (hv : Pat.vok v p = true)
    (hr : pepReady v = true) (hc : pepCoherent p v = true) :
    ∃ ver, pepOfRecord p.toPep v = some ver ∧ parsePep (Pat.render v p.toPep) = some ver ∧
      parsePep (Pat.render v p) = some ver ∧ wfPep ver = true := by
  have heq := pp_version_eq p v hs hv hr hc
  simp only [Pat.pepShaped, Bool.and_eq_true] at hs
  obtain ⟨⟨⟨⟨⟨⟨hst, hg⟩, hsq⟩, hnq⟩, _⟩, _⟩, _⟩ := hs
  obtain ⟨ver, h1, h2, h3⟩ := pp_version_parses p v hst hg hv hr
  obtain ⟨ver', g1, g2, _⟩ := pp_derived_parses p.toPep v hnq hsq (vok_toPep_guarded p v hv ((pepReady_iff v).1 hr) hg)
  rw [heq, g1] at h1
  have hvv : ver' = ver := Option.some.inj h1
  subst hvv
  exact ⟨ver', g1, g2, h2, h3⟩

end BV
