/-
  Proofs/ArgvLemmas.lean — lemmas shared by the argv-level ties (builder K; Proofs/Tie_argv*.lean).

  * running the combinators of `BV.TieK.Eff` (Model/EffK.lean) at a world and a trace; monad laws;
  * `Eff.mapM` of `str.format` over the tokens  =  the hand model's `mapFormat`;
  * the FORMAT SKELETON of a template: the names `str.format` looks up, in order, and the error it ends in when
    all of them are there.  `errOf_fmtGo`: whether and how `tmpl.format(**kw)` fails is determined by the
    skeleton and by WHICH keys `kw` has.  With it "formatting the whole template (for the log line of
    `VCSAPI.__call__`) fails exactly when formatting its tokens fails, with the same exception" becomes a
    decidable property of the template (`logAgrees`), checked on the regenerated table by `decide`.
-/
import BumpverVerif.Model.EffK
import BumpverVerif.Proofs.VcsLemmas
namespace BV.TieK

/-! ### running the combinators -/

theorem Eff.ite_run {α : Type} (c : Prop) [Decidable c] (m n : Eff α) (w : World) (s : List KEv) :
    (if c then m else n) w s = if c then m w s else n w s := by split <;> rfl

theorem Eff.bind_pure_right {α : Type} (m : Eff α) : Eff.bind m (fun a => Eff.pure a) = m := by
  funext w s
  simp only [Eff.bind, Eff.pure]
  rcases m w s with ⟨s', r⟩
  cases r <;> rfl

theorem Eff.bind_pure_left {α β : Type} (a : α) (f : α → Eff β) : Eff.bind (Eff.pure a) f = f a := rfl

theorem Eff.bind_assoc {α β γ : Type} (m : Eff α) (f : α → Eff β) (g : β → Eff γ) :
    Eff.bind (Eff.bind m f) g = Eff.bind m (fun a => Eff.bind (f a) g) := by
  funext w s
  simp only [Eff.bind]
  rcases m w s with ⟨s', r⟩
  cases r <;> rfl

@[simp] theorem Stop.isA_called (se : Option Str) (c : ExcClass) :
    (Stop.called se).isA c = (c == .baseException || c == .exception || c == .calledProcessError) := by
  cases c <;> rfl
@[simp] theorem Stop.isA_exit (n : Nat) (c : ExcClass) : (Stop.exit n).isA c = (c == .baseException) := by
  cases c <;> rfl
@[simp] theorem Stop.isA_osError (c : ExcClass) :
    Stop.osError.isA c = (c == .baseException || c == .exception || c == .osError) := by
  cases c <;> rfl
@[simp] theorem Stop.isA_valueError (c : ExcClass) :
    Stop.valueError.isA c = (c == .baseException || c == .exception || c == .valueError) := by
  cases c <;> rfl
@[simp] theorem Stop.isA_keyError (c : ExcClass) :
    Stop.keyError.isA c = (c == .baseException || c == .exception || c == .keyError) := by
  cases c <;> rfl
@[simp] theorem Stop.isA_unsupported (c : ExcClass) :
    Stop.unsupported.isA c = (c == .baseException || c == .exception) := by
  cases c <;> rfl

/-- a pure `Except` value as an effect that touches nothing -/
def Eff.ofExcept {α : Type} : Except Stop α → Eff α
  | .ok a => Eff.pure a
  | .error x => Eff.throw x

theorem Eff.format_eq (tmpl : Str) (kw : List (Str × Str)) :
    Eff.format tmpl kw = Eff.ofExcept ((pyFormat kw tmpl).mapError stopOfFmt) := by
  unfold Eff.format
  cases pyFormat kw tmpl <;> rfl

/-! ### `[part.format(**kw) for part in toks]` is the hand model's `mapFormat` -/

theorem Eff.mapM_format (kw : List (Str × Str)) (toks : List Str) (w : World) (s : List KEv) :
    Eff.mapM (fun part => Eff.format part kw) toks w s
      = (s, (mapFormat kw toks).mapError stopOfArgv) := by
  induction toks with
  | nil => rfl
  | cons t ts ih =>
    simp only [Eff.mapM, mapFormat, Eff.bind]
    rw [Eff.format_eq]
    cases pyFormat kw t with
    | error e => rfl
    | ok a =>
      simp only [Eff.ofExcept, Except.mapError, Eff.pure, ih]
      cases mapFormat kw ts <;> rfl

/-! ### `str.format(**kw)` only LOOKS keys UP: dictionaries with the same bindings format alike
      (the order in which keyword arguments are written does not matter) -/

theorem fmtGo_congr {kw kw' : List (Str × Str)} (h : ∀ k, lookup k kw = lookup k kw') (s : Str) :
    ∀ st, fmtGo kw st s = fmtGo kw' st s := by
  induction s with
  | nil => intro st; cases st <;> rfl
  | cons c s ih =>
    intro st
    cases st with
    | text => simp only [fmtGo, ih]
    | open_ => simp only [fmtGo, ih]
    | close_ => simp only [fmtGo, ih]
    | field acc => simp only [fmtGo, ih, h]

theorem pyFormat_congr {kw kw' : List (Str × Str)} (h : ∀ k, lookup k kw = lookup k kw') (t : Str) :
    pyFormat kw t = pyFormat kw' t := fmtGo_congr h t .text

theorem mapFormat_congr {kw kw' : List (Str × Str)} (h : ∀ k, lookup k kw = lookup k kw') (ts : List Str) :
    mapFormat kw ts = mapFormat kw' ts := by
  induction ts with
  | nil => rfl
  | cons t ts ih => simp only [mapFormat, pyFormat_congr h, ih]

theorem argv_congr {kw kw' : List (Str × Str)} (h : ∀ k, lookup k kw = lookup k kw') (t : Str) :
    argv t kw = argv t kw' := by
  simp only [argv, mapFormat_congr h]

/-- two bindings with different keys, written in either order -/
theorem lookup_swap2 {α : Type} (a b : Str) (x y : α) (hab : a ≠ b) (k : Str) :
    lookup k [(a, x), (b, y)] = lookup k [(b, y), (a, x)] := by
  simp only [lookup]
  by_cases h1 : k = a
  · subst h1; simp [hab]
  · by_cases h2 : k = b
    · subst h2; simp [h1]
    · simp [h1, h2]

/-! ### the format skeleton -/

def errOf {ε α : Type} : Except ε α → Option ε
  | .ok _ => none
  | .error e => some e

@[simp] theorem errOf_map {ε α β : Type} (f : α → β) (x : Except ε α) : errOf (x.map f) = errOf x := by
  cases x <;> rfl

theorem errOf_none {ε α : Type} {x : Except ε α} (h : errOf x = none) : ∃ a, x = .ok a := by
  cases x with
  | ok a => exact ⟨a, rfl⟩
  | error e => cases h

theorem errOf_some {ε α : Type} {x : Except ε α} {e : ε} (h : errOf x = some e) : x = .error e := by
  cases x with
  | ok a => cases h
  | error e' => cases h; rfl

/-- the names `fmtGo` looks up, in order, and the error it ends in when all of them are present -/
def fmtSkelGo : FState → Str → List Str × Option FmtErr
  | .text, [] => ([], none)
  | .text, c :: r =>
    if c == '{' then fmtSkelGo .open_ r
    else if c == '}' then fmtSkelGo .close_ r
    else fmtSkelGo .text r
  | .open_, [] => ([], some .valueError)
  | .open_, c :: r =>
    if c == '{' then fmtSkelGo .text r
    else if c == '}' then ([], some .unsupported)
    else fmtSkelGo (.field [c]) r
  | .close_, [] => ([], some .valueError)
  | .close_, c :: r => if c == '}' then fmtSkelGo .text r else ([], some .valueError)
  | .field _, [] => ([], some .valueError)
  | .field acc, c :: r =>
    if c == '}' then
      if !simpleName acc.reverse then ([], some .unsupported)
      else (acc.reverse :: (fmtSkelGo .text r).1, (fmtSkelGo .text r).2)
    else fmtSkelGo (.field (c :: acc)) r

def fmtSkel (tmpl : Str) : List Str × Option FmtErr := fmtSkelGo .text tmpl

/-- how a formatting with this skeleton ends under the keywords `kw` -/
def firstErr (kw : List (Str × Str)) : List Str → Option FmtErr → Option FmtErr
  | [], e => e
  | k :: ks, e => if (lookup k kw).isSome then firstErr kw ks e else some .keyError

theorem errOf_fmtGo (kw : List (Str × Str)) (s : Str) :
    ∀ st, errOf (fmtGo kw st s) = firstErr kw (fmtSkelGo st s).1 (fmtSkelGo st s).2 := by
  induction s with
  | nil => intro st; cases st <;> rfl
  | cons c s ih =>
    intro st
    cases st with
    | text =>
      simp only [fmtGo, fmtSkelGo]
      split
      · exact ih _
      · split
        · exact ih _
        · rw [errOf_map]; exact ih _
    | open_ =>
      simp only [fmtGo, fmtSkelGo]
      split
      · rw [errOf_map]; exact ih _
      · split
        · rfl
        · exact ih _
    | close_ =>
      simp only [fmtGo, fmtSkelGo]
      split
      · rw [errOf_map]; exact ih _
      · rfl
    | field acc =>
      simp only [fmtGo, fmtSkelGo]
      split
      · split
        · rfl
        · simp only [firstErr]
          cases hl : lookup acc.reverse kw with
          | none => rfl
          | some v => simp only [Option.isSome_some, if_true, errOf_map]; exact ih _
      · exact ih _

theorem errOf_pyFormat (kw : List (Str × Str)) (tmpl : Str) :
    errOf (pyFormat kw tmpl) = firstErr kw (fmtSkel tmpl).1 (fmtSkel tmpl).2 := errOf_fmtGo kw tmpl .text

theorem firstErr_append (kw : List (Str × Str)) (ks ks' : List Str) (e : Option FmtErr) :
    firstErr kw (ks ++ ks') e = match firstErr kw ks none with
      | some x => some x
      | none => firstErr kw ks' e := by
  induction ks with
  | nil => rfl
  | cons k ks ih =>
    simp only [List.cons_append, firstErr]
    split
    · exact ih
    · rfl

theorem firstErr_some_ne_none (kw : List (Str × Str)) (ks : List Str) (e : FmtErr) :
    firstErr kw ks (some e) ≠ none := by
  induction ks with
  | nil => simp [firstErr]
  | cons k ks ih =>
    simp only [firstErr]
    split
    · exact ih
    · simp

/-- the skeleton of a token list formatted one after the other (`mapFormat`): the first token that ends in an
    error ends everything -/
def skelCat : List Str → List Str × Option FmtErr
  | [] => ([], none)
  | t :: ts =>
    match (fmtSkel t).2 with
    | some e => ((fmtSkel t).1, some e)
    | none => ((fmtSkel t).1 ++ (skelCat ts).1, (skelCat ts).2)

theorem errOf_mapFormat (kw : List (Str × Str)) (toks : List Str) :
    errOf (mapFormat kw toks) = (firstErr kw (skelCat toks).1 (skelCat toks).2).map ArgvErr.fmt := by
  induction toks with
  | nil => rfl
  | cons t ts ih =>
    have ht := errOf_pyFormat kw t
    simp only [mapFormat, skelCat]
    cases hp : pyFormat kw t with
    | error e =>
      rw [hp] at ht
      simp only [errOf] at ht ⊢
      cases h2 : (fmtSkel t).2 with
      | some e' => simp only [h2] at ht ⊢; rw [← ht]; rfl
      | none =>
        simp only [h2] at ht ⊢
        rw [firstErr_append, ← ht]; rfl
    | ok a =>
      rw [hp] at ht
      simp only [errOf] at ht
      rw [errOf_map, ih]
      cases h2 : (fmtSkel t).2 with
      | some e' => rw [h2] at ht; exact absurd ht.symm (firstErr_some_ne_none kw _ e')
      | none =>
        simp only [h2] at ht ⊢
        rw [firstErr_append, ← ht]

/-! ### small steps of the generated VCS methods -/

/-- forget the output of a VCS invocation -/
def unitOf {α : Type} (r : List KEv × Except Stop α) : List KEv × Except Stop Unit :=
  (r.1, r.2.map (fun _ => ()))

theorem bind_unit {α : Type} (m : Eff α) (w : World) (s : List KEv) :
    Eff.bind m (fun _ => Eff.pure ()) w s = unitOf (m w s) := by
  simp only [Eff.bind, unitOf]
  rcases m w s with ⟨s', r⟩
  cases r <;> rfl

theorem bind_unit_id (m : Eff Unit) : Eff.bind m (fun _ => Eff.pure ()) = m := by
  funext w s
  simp only [Eff.bind]
  rcases m w s with ⟨s', r⟩
  cases r <;> rfl

theorem getRemote_bind {β : Type} (self : VcsApi) (f : Option Str → Eff β) (w : World) (s : List KEv) :
    Eff.bind (Eff.getRemote self) f w s = f (w.remote s) w s := rfl

theorem excStderr_bind {β : Type} (se : Option Str) (f : Option Str → Eff β) (w : World) (s : List KEv) :
    Eff.bind (Eff.excStderr (.called se)) f w s = f se w s := rfl

end BV.TieK
