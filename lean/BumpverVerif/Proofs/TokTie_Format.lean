/-
  Proofs/TokTie_Format.lean — THE RENDERING TIE: `format_version` (segment tree + `_format_segment_tree` +
  `_format_segment`'s sequential `str.replace`) on the source text of a `tokSafe` tree renders exactly what the
  structural renderer `Pat.render` renders (`formatVersion_text`), for every record in the domain of the rendered
  parts (`Pat.vok`) that is tag/pytag-coherent (`tagCoh`).
-/
import BumpverVerif.Proofs.TokTie_Run2
import BumpverVerif.Proofs.TokTie_Seg
namespace BV

/-! ### the adjacency condition along a run -/

theorem np_append_any (A : Str) {k1 k2 : Str} (h : np k1 = np k2) : np (A ++ k1) = np (A ++ k2) := by
  induction A with
  | nil => exact h
  | cons c r ih => exact np_cons_congr c ih

theorem safeItemsK_np (items : List Item) {k1 k2 : Str} (h : np k1 = np k2) (hs : safeItemsK items k1) :
    safeItemsK items k2 := by
  induction items with
  | nil => trivial
  | cons x r ih =>
    cases x with
    | raw s =>
      refine ⟨?_, ih hs.2⟩
      intro o ho m hm
      rw [← prefix_transfer hm (np_append_any (s.drop o) (np_append_any (srcAll r) h))]
      exact hs.1 o ho m hm
    | tok n =>
      refine ⟨?_, ih hs.2⟩
      intro o ho m hm hp
      rw [← prefix_transfer hm (np_append_any (n.drop o) (np_append_any (srcAll r) h))] at hp
      exact hs.1 o ho m hm hp

structure Static (run : List Atom) (p : Pat) (k : Str) : Prop where
  names : ∀ n, Atom.tok n ∈ run → n ∈ partNames
  lits : ∀ c, Atom.lit c ∈ run → litOk c = true
  safeT : safeItemsK (run.map Atom.titem) (p.text ++ k)
  safeU : safeItemsK (run.map Atom.uitem) (p.text ++ k)
  sh : p.shapeOk = true
  sk : p.safeK k = true
  kok : np k = []

structure RunS (run : List Atom) : Prop where
  names : ∀ n, Atom.tok n ∈ run → n ∈ partNames
  lits : ∀ c, Atom.lit c ∈ run → litOk c = true
  safeT : safeItemsK (run.map Atom.titem) []
  safeU : safeItemsK (run.map Atom.uitem) []

theorem static_done {run : List Atom} {k : Str} (h : Static run .done k) : RunS run :=
  ⟨h.names, h.lits, safeItemsK_np _ (by simpa [Pat.text_done, Pat.text_lit, Pat.text_part, Pat.text_opt, np] using h.kok) h.safeT,
    safeItemsK_np _ (by simpa [Pat.text_done, Pat.text_lit, Pat.text_part, Pat.text_opt, np] using h.kok) h.safeU⟩

theorem np_litText (c : Char) (X : Str) : np (litText c ++ X) = np (c :: X) := by
  have hb : nameChar '\\' = false := by decide
  by_cases h1 : c = '['
  · subst h1; simp [litText, np_cons, hb]; decide
  · by_cases h2 : c = ']'
    · subst h2; simp [litText, np_cons, hb]; decide
    · simp [litText, h1, h2]

theorem static_lit {run : List Atom} {c : Char} {r : Pat} {k : Str} (h : Static run (.lit c r) k) :
    Static (run ++ [.lit c]) r k := by
  have hsh := h.sh
  have hsk := h.sk
  simp only [Pat.shapeOk, Bool.and_eq_true] at hsh
  simp only [Pat.safeK, Bool.and_eq_true] at hsk
  have hno : ∀ m ∈ partNames, m.isPrefixOf (c :: (r.text ++ k)) = false := by
    intro m hm
    have := List.all_eq_true.mp hsk.1 m hm
    simpa using this
  have hb : nameChar '\\' = false := by decide
  refine ⟨?_, ?_, ?_, ?_, hsh.2, hsk.2, h.kok⟩
  · intro n hn
    rcases List.mem_append.mp hn with e | e
    · exact h.names n e
    · simp at e
  · intro c' hc'
    rcases List.mem_append.mp hc' with e | e
    · exact h.lits c' e
    · have : c' = c := by simpa using e
      rw [this]; exact hsh.1
  · rw [List.map_append, safeItemsK_append]
    refine ⟨?_, ?_, trivial⟩
    · have := h.safeT
      simpa [Pat.text_done, Pat.text_lit, Pat.text_part, Pat.text_opt, srcAll_cons, Atom.titem, Item.src, srcAll] using this
    · intro o ho m hm
      simp only [litText] at ho ⊢
      split at ho <;> rename_i hbr
      · simp only [hbr, if_true]
        simp only [List.length_cons, List.length_nil] at ho
        have : o = 0 ∨ o = 1 := by omega
        rcases this with rfl | rfl
        · exact not_prefix_of_head hm _ _ hb
        · exact hno m hm
      · simp only [hbr]
        simp only [List.length_cons, List.length_nil] at ho
        have : o = 0 := by omega
        subst this
        exact hno m hm
  · rw [List.map_append, safeItemsK_append]
    refine ⟨?_, ?_, trivial⟩
    · have := h.safeU
      simp only [Pat.text_lit, List.append_assoc] at this
      have e : srcAll (List.map Atom.uitem [Atom.lit c]) ++ (r.text ++ k) = c :: (r.text ++ k) := by
        simp [srcAll, Atom.uitem, Item.src]
      rw [e]
      exact safeItemsK_np _ (np_litText c _) this
    · intro o ho m hm
      simp only [List.length_cons, List.length_nil] at ho
      have : o = 0 := by omega
      subst this
      simpa [srcAll] using hno m hm

theorem static_part {run : List Atom} {n : Str} {r : Pat} {k : Str} (h : Static run (.part n r) k) :
    Static (run ++ [.tok n]) r k := by
  have hsh := h.sh
  have hsk := h.sk
  simp only [Pat.shapeOk, Bool.and_eq_true] at hsh
  simp only [Pat.safeK, Bool.and_eq_true] at hsk
  have hclosed : ∀ o, o < n.length → ∀ m ∈ partNames, m.isPrefixOf (n.drop o ++ (r.text ++ k)) = true →
      o + m.length ≤ n.length := by
    intro o ho m hm hp
    have := List.all_eq_true.mp (List.all_eq_true.mp hsk.1 o (List.mem_range.mpr ho)) m hm
    simpa [hp] using this
  refine ⟨?_, ?_, ?_, ?_, hsh.2, hsk.2, h.kok⟩
  · intro n' hn
    rcases List.mem_append.mp hn with e | e
    · exact h.names n' e
    · have : n' = n := by simpa using e
      rw [this]; exact mem_partNames_of_lookup hsh.1.1
  · intro c' hc'
    rcases List.mem_append.mp hc' with e | e
    · exact h.lits c' e
    · simp at e
  · rw [List.map_append, safeItemsK_append]
    refine ⟨?_, ?_, trivial⟩
    · have := h.safeT
      simpa [Pat.text_done, Pat.text_lit, Pat.text_part, Pat.text_opt, srcAll_cons, Atom.titem, Item.src, srcAll] using this
    · intro o ho m hm hp
      exact hclosed o ho m hm (by simpa [srcAll] using hp)
  · rw [List.map_append, safeItemsK_append]
    refine ⟨?_, ?_, trivial⟩
    · have := h.safeU
      simpa [Pat.text_done, Pat.text_lit, Pat.text_part, Pat.text_opt, srcAll_cons, Atom.uitem, Item.src, srcAll] using this
    · intro o ho m hm hp
      exact hclosed o ho m hm (by simpa [srcAll] using hp)

theorem static_nil (p : Pat) (k : Str) (hsh : p.shapeOk = true) (hsk : p.safeK k = true) (hk : np k = []) :
    Static [] p k := ⟨by simp, by simp, trivial, trivial, hsh, hsk, hk⟩

theorem static_opt {run : List Atom} {b r : Pat} {k : Str} (h : Static run (.opt b r) k) :
    RunS run ∧ Static [] b (']' :: (r.text ++ k)) ∧ Static [] r k := by
  have hsh := h.sh
  have hsk := h.sk
  simp only [Pat.shapeOk, Bool.and_eq_true] at hsh
  simp only [Pat.safeK, Bool.and_eq_true] at hsk
  have e1 : nameChar '[' = false := by decide
  have e2 : nameChar ']' = false := by decide
  have hnp : np ((Pat.opt b r).text ++ k) = np [] := by simp [Pat.text_opt, np_cons, e1]; rfl
  exact ⟨⟨h.names, h.lits, safeItemsK_np _ hnp h.safeT, safeItemsK_np _ hnp h.safeU⟩,
    static_nil b _ hsh.1.2 hsk.1 (by simp [np_cons, e2]), static_nil r k hsh.2 hsk.2 h.kok⟩

/-! ### runs and segments -/

theorem runText_append (a b : List Atom) : runText (a ++ b) = runText a ++ runText b := by simp [runText]

theorem atom_text_ne_nil (a : Atom) (hn : ∀ n, a = .tok n → n ≠ []) : a.text ≠ [] := by
  cases a with
  | lit c => simp only [Atom.text, litText]; split <;> simp
  | tok n => exact hn n rfl

theorem runText_eq_nil {run : List Atom} (hn : ∀ n, Atom.tok n ∈ run → n ∈ partNames) (h : runText run = []) :
    run = [] := by
  cases run with
  | nil => rfl
  | cons a r =>
    exfalso
    simp only [runText, List.flatMap_cons, List.append_eq_nil_iff] at h
    exact atom_text_ne_nil a (fun n e => name_ne_nil (hn n (by rw [e]; exact List.mem_cons_self))) h.1

theorem all_zero_of_no_tok (v : VInfo) (run : List Atom) (h : run.any Atom.isTok = false) :
    run.all (Atom.zero v) = true := by
  rw [List.all_eq_true]
  intro a ha
  cases a with
  | lit c => rfl
  | tok n =>
    have : run.any Atom.isTok = true := List.any_eq_true.mpr ⟨_, ha, rfl⟩
    rw [h] at this; cases this

def flushS (cur : Str) : List Seg := if cur.isEmpty then [] else [Seg.lit cur]

theorem flush_flag (v : VInfo) (run : List Atom) (rest : List Seg) (hr : RunS run)
    (hv : ∀ n, Atom.tok n ∈ run → ∃ w, partText v n = some w) (htc : tagCoh v = true) :
    (formatSegs (formatPartValues v) (flushS (runText run) ++ rest)).1 =
      (run.all (Atom.zero v) && (formatSegs (formatPartValues v) rest).1) := by
  unfold flushS
  by_cases he : (runText run).isEmpty = true
  · have : run = [] := runText_eq_nil hr.names (by simpa using he)
    subst this
    simp [runText]
  · simp only [he, Bool.false_eq_true, if_false, List.cons_append, List.nil_append]
    rw [formatSegs, formatSeg]
    obtain ⟨f1, f2⟩ := formatSegment_run_flags (v := v) (run := run) ⟨hr.names, hr.safeT, hv⟩ htc
    simp only [f1, f2]
    cases hany : run.any Atom.isTok with
    | false => simp [all_zero_of_no_tok v run hany]
    | true => simp

theorem flush_text (v : VInfo) (run : List Atom) (rest : List Seg) (h2 : RunHyp2 v run) :
    (formatSegs (formatPartValues v) (flushS (runText run) ++ rest)).2 =
      runRender v run ++ (formatSegs (formatPartValues v) rest).2 := by
  unfold flushS
  by_cases he : (runText run).isEmpty = true
  · have : run = [] := runText_eq_nil h2.names (by simpa using he)
    subst this
    simp [runText, runRender]
  · simp only [he, Bool.false_eq_true, if_false, List.cons_append, List.nil_append]
    rw [formatSegs, formatSeg]
    simp only [formatSegment_run_result h2]

/-! ### the flags of the segment tree -/

theorem segsGo_flag (v : VInfo) (htc : tagCoh v = true) (p : Pat) : ∀ (run : List Atom) (k : Str),
    Static run p k → (∀ n, Atom.tok n ∈ run → ∃ w, partText v n = some w) →
    (∀ n ∈ p.parts, ∃ w, partText v n = some w) →
    (formatSegs (formatPartValues v) (p.segsGo (runText run))).1 = (run.all (Atom.zero v) && p.allZero v) := by
  induction p with
  | done =>
    intro run k hst hv _
    have := flush_flag v run [] (static_done hst) hv htc
    simp only [List.append_nil] at this
    simp only [Pat.segsGo, Pat.allZero]
    rw [show (if (runText run).isEmpty = true then [] else [Seg.lit (runText run)]) = flushS (runText run) from rfl,
      this]
    rw [formatSegs]
  | lit c r ih =>
    intro run k hst hv hp
    have := ih (run ++ [.lit c]) k (static_lit hst)
      (fun n hn => by
        rcases List.mem_append.mp hn with e | e
        · exact hv n e
        · simp at e)
      hp
    simp only [Pat.segsGo, Pat.allZero]
    rw [runText_append] at this
    simp only [runText, List.flatMap_cons, List.flatMap_nil, List.append_nil, Atom.text] at this ⊢
    rw [this]
    simp [Atom.zero]
  | part n r ih =>
    intro run k hst hv hp
    have := ih (run ++ [.tok n]) k (static_part hst)
      (fun n' hn => by
        rcases List.mem_append.mp hn with e | e
        · exact hv n' e
        · have : n' = n := by simpa using e
          rw [this]; exact hp n (by simp [Pat.parts]))
      (fun n' hn' => hp n' (by simp [Pat.parts, hn']))
    simp only [Pat.segsGo, Pat.allZero]
    rw [runText_append] at this
    simp only [runText, List.flatMap_cons, List.flatMap_nil, List.append_nil, Atom.text] at this ⊢
    rw [this]
    simp [Atom.zero, Bool.and_assoc]
  | opt b r ihb ihr =>
    intro run k hst hv hp
    obtain ⟨hrs, hsb, hsr⟩ := static_opt hst
    have hb := ihb [] _ hsb (by simp) (fun n hn => hp n (by simp [Pat.parts, hn]))
    have hr := ihr [] _ hsr (by simp) (fun n hn => hp n (by simp [Pat.parts, hn]))
    simp only [runText, List.flatMap_nil, List.all_nil, Bool.true_and] at hb hr
    simp only [Pat.segsGo, Pat.allZero]
    have := flush_flag v run (Seg.grp (b.segsGo []) :: r.segsGo []) hrs hv htc
    rw [show (if (runText run).isEmpty = true then [] else [Seg.lit (runText run)]) = flushS (runText run) from rfl,
      this]
    rw [formatSegs, formatSeg]
    simp only [hb, hr, Bool.false_eq_true, if_false]

/-! ### the text of the segment tree -/

theorem hasVals_of_allZero (v : VInfo) (p : Pat) (h : p.allZero v = true) :
    ∀ n ∈ p.parts, ∃ w, partText v n = some w := by
  induction p with
  | done => intro n hn; cases hn
  | lit c r ih => exact ih (by simpa [Pat.allZero] using h)
  | part m r ih =>
    simp only [Pat.allZero, Bool.and_eq_true] at h
    intro n hn
    rcases List.mem_cons.mp hn with e | e
    · subst e
      cases hp : partText v n with
      | none => simp [partIsZero, hp] at h
      | some w => exact ⟨w, rfl⟩
    · exact ih h.2 n e
  | opt b r ihb ihr =>
    simp only [Pat.allZero, Bool.and_eq_true] at h
    intro n hn
    rcases List.mem_append.mp hn with e | e
    · exact ihb h.1 n e
    · exact ihr h.2 n e

theorem hasVals_of_vok (v : VInfo) (p : Pat) (h : p.vok v = true) :
    ∀ n ∈ p.parts, ∃ w, partText v n = some w := by
  induction p with
  | done => intro n hn; cases hn
  | lit c r ih => exact ih (by simpa [Pat.vok] using h)
  | part m r ih =>
    simp only [Pat.vok, Bool.and_eq_true] at h
    intro n hn
    rcases List.mem_cons.mp hn with e | e
    · subst e
      obtain ⟨w, hw, -⟩ := val_of_partOk v n h.1
      exact ⟨w, hw⟩
    · exact ih h.2 n e
  | opt b r ihb ihr =>
    simp only [Pat.vok, Bool.and_eq_true, Bool.or_eq_true] at h
    intro n hn
    rcases List.mem_append.mp hn with e | e
    · rcases h.1 with hz | hv
      · exact hasVals_of_allZero v b hz n e
      · exact ihb hv n e
    · exact ihr h.2 n e

theorem segsGo_text (v : VInfo) (htc : tagCoh v = true) (A : List Str)
    (hA : ∀ n ∈ A, ∀ n' ∈ A, fieldOf n = fieldOf n' → n = n') (p : Pat) : ∀ (run : List Atom) (k : Str),
    Static run p k → (∀ n, Atom.tok n ∈ run → ValOk v n ∧ n ∈ A) → p.vok v = true → (∀ n ∈ p.parts, n ∈ A) →
    (formatSegs (formatPartValues v) (p.segsGo (runText run))).2 = runRender v run ++ p.render v := by
  have mk2 : ∀ run : List Atom, RunS run → (∀ n, Atom.tok n ∈ run → ValOk v n ∧ n ∈ A) → RunHyp2 v run := by
    intro run hr hv
    exact { names := hr.names, safeT := hr.safeT,
            vals := fun n hn => by obtain ⟨w, hw, -⟩ := (hv n hn).1; exact ⟨w, hw⟩,
            lits := hr.lits, safeU := hr.safeU, valok := fun n hn => (hv n hn).1,
            finj := fun n n' hn hn' hf => hA n (hv n hn).2 n' (hv n' hn').2 hf }
  induction p with
  | done =>
    intro run k hst hv _ _
    have := flush_text v run [] (mk2 run (static_done hst) hv)
    simp only [List.append_nil] at this
    simp only [Pat.segsGo, Pat.render]
    rw [show (if (runText run).isEmpty = true then [] else [Seg.lit (runText run)]) = flushS (runText run) from rfl,
      this]
    rw [formatSegs]
  | lit c r ih =>
    intro run k hst hv hvok hsub
    have := ih (run ++ [.lit c]) k (static_lit hst)
      (fun n hn => by
        rcases List.mem_append.mp hn with e | e
        · exact hv n e
        · simp at e)
      (by simpa [Pat.vok] using hvok) (fun n hn => hsub n (by simpa [Pat.parts] using hn))
    simp only [Pat.segsGo, Pat.render]
    rw [runText_append] at this
    simp only [runText, List.flatMap_cons, List.flatMap_nil, List.append_nil, Atom.text] at this ⊢
    rw [this]
    simp [runRender, Atom.render]
  | part n r ih =>
    intro run k hst hv hvok hsub
    simp only [Pat.vok, Bool.and_eq_true] at hvok
    have := ih (run ++ [.tok n]) k (static_part hst)
      (fun n' hn => by
        rcases List.mem_append.mp hn with e | e
        · exact hv n' e
        · have : n' = n := by simpa using e
          rw [this]; exact ⟨val_of_partOk v n hvok.1, hsub n (by simp [Pat.parts])⟩)
      hvok.2 (fun n' hn' => hsub n' (by simp [Pat.parts, hn']))
    simp only [Pat.segsGo, Pat.render]
    rw [runText_append] at this
    simp only [runText, List.flatMap_cons, List.flatMap_nil, List.append_nil, Atom.text] at this ⊢
    rw [this]
    simp [runRender, Atom.render]
  | opt b r ihb ihr =>
    intro run k hst hv hvok hsub
    simp only [Pat.vok, Bool.and_eq_true, Bool.or_eq_true] at hvok
    obtain ⟨hrs, hsb, hsr⟩ := static_opt hst
    have hbvals : ∀ n ∈ b.parts, ∃ w, partText v n = some w := by
      rcases hvok.1 with hz | hv'
      · exact hasVals_of_allZero v b hz
      · exact hasVals_of_vok v b hv'
    have hbflag := segsGo_flag v htc b [] _ hsb (by simp) hbvals
    have hr := ihr [] _ hsr (by simp) hvok.2 (fun n hn => hsub n (by simp [Pat.parts, hn]))
    simp only [runText, List.flatMap_nil, List.all_nil, Bool.true_and, runRender, List.nil_append] at hbflag hr
    simp only [Pat.segsGo, Pat.render]
    have := flush_text v run (Seg.grp (b.segsGo []) :: r.segsGo []) (mk2 run hrs hv)
    rw [show (if (runText run).isEmpty = true then [] else [Seg.lit (runText run)]) = flushS (runText run) from rfl,
      this]
    rw [formatSegs, formatSeg]
    simp only [hbflag, hr]
    congr 2
    cases hz : b.allZero v with
    | true => simp
    | false =>
      have hv' : b.vok v = true := by
        rcases hvok.1 with hz' | hv'
        · rw [hz] at hz'; cases hz'
        · exact hv'
      have hb := ihb [] _ hsb (by simp) hv' (fun n hn => hsub n (by simp [Pat.parts, hn]))
      simp only [runText, List.flatMap_nil, runRender, List.nil_append] at hb
      simp [hb]

/-- THE RENDERING TIE -/
theorem formatVersion_text (p : Pat) (v : VInfo) (hs : tokSafe p = true) (hv : p.vok v = true)
    (htc : tagCoh v = true) : formatVersion v p.text = .ok (p.render v) := by
  have c := ctx_of_tokSafe p hs
  have hsk : p.safeK [] = true := by
    simp only [tokSafe, Bool.and_eq_true] at hs
    exact hs.1.1.2
  have hnd := nodup_of_nodupStr _ c.nd
  rw [fields_eq p c.sh] at hnd
  have hA := inj_of_nodup_map fieldOf p.parts hnd
  have := segsGo_text v htc p.parts hA p [] [] (static_nil p [] c.sh hsk rfl) (by simp) hv (fun n hn => hn)
  simp only [runText, List.flatMap_nil, runRender, List.nil_append] at this
  unfold formatVersion
  rw [parseSegtree_text p c.sh]
  simp only [this]

end BV
