/-
  Proofs/Tie_argvCommit.lean — source-level tie for the VALUES `vcs.VCSAPI.commit` passes to `VCSAPI.__call__`
  (Gen/F_argvCommit.lean; property C12).  Builder B's ties (Proofs/Tie_vcsCommit.lean) fix the SEQUENCE of
  subcommands; here the keyword arguments, the environment and — for Mercurial's commit — the temporary log file are
  visible.  `tie_argvCommit`: generated definition = reference, for EVERY `VCSAPI` object (any name, any template
  table), all strings, worlds and traces; stated with `callRef` (= `__call__`, Proofs/Tie_argvCall.lean).
  The composition down to the argument vector of the process that runs: Proofs/Tie_argvEndToEnd.lean.
-/
import BumpverVerif.Gen.F_argvCommit
import BumpverVerif.Proofs.Tie_argvCall
set_option linter.unusedSimpArgs false
namespace BV.TieK
open BV.TieK.Gen

/-- `VCSAPI.commit(message)`.  git: the message is the keyword argument `message`, the environment a copy of
    `os.environ`.  Otherwise (hg): the message is written (UTF-8) to a fresh temporary file, which is closed; the
    command gets the file's NAME as keyword argument `path` and `HGENCODING=utf-8` in its environment; the file is
    unlinked whatever the command did. -/
def commitRef (self : VcsApi) (message : Str) : Eff Unit := fun w s =>
  if self.name = ['g', 'i', 't'] then
    unitOf (callRef self ['c', 'o', 'm', 'm', 'i', 't'] (some w.environ) [(['m', 'e', 's', 's', 'a', 'g', 'e'], message)] w s)
  else
    let p := w.tmpName s
    let s1 := KEv.tmpClose p :: KEv.tmpWrite p (utf8Encode message) :: KEv.tmpCreate p :: s
    let r := callRef self ['c', 'o', 'm', 'm', 'i', 't'] (some (dictSet ['H', 'G', 'E', 'N', 'C', 'O', 'D', 'I', 'N', 'G'] ['u', 't', 'f', '-', '8'] w.environ))
      [(['p', 'a', 't', 'h'], p)] w s1
    (KEv.unlink p :: r.1, r.2.map (fun _ => ()))

theorem tie_argvCommit (self : VcsApi) (message : Str) : argvCommit self message = commitRef self message := by
  funext w s
  unfold argvCommit commitRef
  simp only [tie_argvCall]
  by_cases hg : self.name = ['g', 'i', 't']
  · have hg' : (self.name == ['g', 'i', 't']) = true := by rw [hg]; rfl
    have hgn : (self.name != ['g', 'i', 't']) = false := by simp only [bne, hg', Bool.not_true]
    rw [if_pos hg]
    simp only [hg', hgn, Bool.false_eq_true, ↓reduceIte, Eff.bind, Eff.mkTemp, Eff.tryFinally, Eff.tmpWrite, Eff.tmpClose,
      Eff.unlink, Eff.environ, Eff.pure, unitOf]
    rcases callRef self _ _ _ w s with ⟨s', r⟩
    cases r <;> rfl
  · have hg' : (self.name == ['g', 'i', 't']) = false := by
      apply Bool.eq_false_iff.mpr
      intro h; exact hg (by simpa using h)
    have hgn : (self.name != ['g', 'i', 't']) = true := by simp only [bne, hg', Bool.not_false]
    rw [if_neg hg]
    simp only [hg', hgn, Bool.false_eq_true, ↓reduceIte, Eff.bind, Eff.environ, Eff.pure, Eff.mkTemp, Eff.tryFinally,
      Eff.tmpWrite, Eff.tmpClose, Eff.unlink]
    rcases callRef self _ _ _ w _ with ⟨s', r⟩
    cases r <;> rfl

end BV.TieK
