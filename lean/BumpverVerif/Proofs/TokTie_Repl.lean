/-
  Proofs/TokTie_Repl.lean — `str.replace` (`replaceAll`) on a text that is a concatenation of chunks:
  a chunk in which no occurrence begins is copied, a chunk that IS the pattern is replaced
  (`replaceAll_skip`, `replaceAll_hit`), and on an item list in which the pattern occurs only as whole tokens
  it replaces exactly those tokens (`replaceAll_items`).
-/
import BumpverVerif.Proofs.TokTie_Items
namespace BV

theorem replaceAllF_fuel (pat rep : Str) : ∀ (f : Nat) (s : Str) (f' : Nat), s.length < f → s.length < f' →
    replaceAllF f pat rep s = replaceAllF f' pat rep s := by
  intro f
  induction f with
  | zero => intro s f' h; omega
  | succ g ih =>
    intro s f' h h'
    cases f' with
    | zero => omega
    | succ g' =>
      cases s with
      | nil => simp [replaceAllF]
      | cons c cs =>
        simp only [List.length_cons] at h h'
        simp only [replaceAllF]
        split
        · rfl
        · split
          · rename_i hne hp
            have hl : ((c :: cs).drop pat.length).length ≤ cs.length := by
              have h0 : 0 < pat.length := by cases pat <;> simp_all
              simp only [List.length_drop, List.length_cons]; omega
            rw [ih _ g' (by omega) (by omega)]
          · rw [ih cs g' (by omega) (by omega)]

theorem replaceAll_nil (pat rep : Str) : replaceAll pat rep [] = [] := by simp [replaceAll, replaceAllF]

theorem replaceAll_cons_skip (pat rep : Str) (c : Char) (cs : Str) (hne : pat ≠ [])
    (h : pat.isPrefixOf (c :: cs) = false) : replaceAll pat rep (c :: cs) = c :: replaceAll pat rep cs := by
  have he : pat.isEmpty = false := by cases pat <;> simp_all
  simp only [replaceAll, List.length_cons, replaceAllF, he, h, Bool.false_eq_true, if_false]

/-- a chunk in which no occurrence begins is copied -/
theorem replaceAll_skip (pat rep : Str) (hne : pat ≠ []) (A R : Str)
    (h : ∀ o, o < A.length → pat.isPrefixOf (A.drop o ++ R) = false) :
    replaceAll pat rep (A ++ R) = A ++ replaceAll pat rep R := by
  induction A with
  | nil => rfl
  | cons c cs ih =>
    have h0 := h 0 (by simp)
    simp only [List.drop_zero, List.cons_append] at h0
    rw [List.cons_append, replaceAll_cons_skip pat rep c (cs ++ R) hne h0, ih]
    · rfl
    · intro o ho
      have := h (o + 1) (by simp only [List.length_cons]; omega)
      simpa using this

/-- a chunk that is the pattern is replaced -/
theorem replaceAll_hit (pat rep : Str) (hne : pat ≠ []) (R : Str) :
    replaceAll pat rep (pat ++ R) = rep ++ replaceAll pat rep R := by
  have he : pat.isEmpty = false := by cases pat <;> simp_all
  cases hp : pat with
  | nil => exact absurd hp hne
  | cons c cs =>
    have hpre : (c :: cs).isPrefixOf (c :: (cs ++ R)) = true := by
      simp
    have he' : (c :: cs).isEmpty = false := rfl
    simp only [replaceAll, List.cons_append, List.length_cons, replaceAllF, he', hpre, Bool.false_eq_true, if_false, if_true]
    congr 1
    have hd : (c :: (cs ++ R)).drop (cs.length + 1) = R := by simp
    rw [hd]
    exact replaceAllF_fuel _ _ _ _ _ (by simp only [List.length_append]; omega) (by omega)

/-- a pattern whose first character does not occur in the text leaves it unchanged -/
theorem replaceAll_no_head (h0 : Char) (pt rep s : Str) (h : h0 ∉ s) : replaceAll (h0 :: pt) rep s = s := by
  have := replaceAll_skip (h0 :: pt) rep (by simp) s [] (by
    intro o ho
    rw [List.append_nil]
    cases hd : s.drop o with
    | nil => simp
    | cons x xs =>
      have hx : x ∈ s := List.mem_of_mem_drop (by rw [hd]; exact List.mem_cons_self)
      have : (h0 == x) = false := by
        cases hq : h0 == x with
        | false => rfl
        | true => have : h0 = x := by simpa using hq
                  subst this; exact absurd hx h
      simp [List.isPrefixOf, this])
  simpa [replaceAll_nil] using this

/-- no occurrence begins in a chunk that does not contain the pattern's first character -/
theorem no_occ_of_head (h0 : Char) (pt A R : Str) (h : h0 ∉ A) :
    ∀ o, o < A.length → (h0 :: pt).isPrefixOf (A.drop o ++ R) = false := by
  intro o ho
  cases hd : A.drop o with
  | nil =>
    have := congrArg List.length hd
    simp only [List.length_drop, List.length_nil] at this
    omega
  | cons x xs =>
    have hx : x ∈ A := List.mem_of_mem_drop (by rw [hd]; exact List.mem_cons_self)
    have : (h0 == x) = false := by
      cases hq : h0 == x with
      | false => rfl
      | true => have : h0 = x := by simpa using hq
                subst this; exact absurd hx h
    simp [List.isPrefixOf, this]

/-! ### on item lists -/

/-- the pattern `m` occurs in the concatenated sources only as a whole token `m` -/
def cleanFor (m : Str) : List Item → Prop
  | [] => True
  | x :: r =>
    (∀ o, o < x.src.length → m.isPrefixOf (x.src.drop o ++ srcAll r) = true → x = .tok m ∧ o = 0) ∧ cleanFor m r

/-- replace the tokens named `m` by the raw text `w` -/
def substTok (m w : Str) : List Item → List Item
  | [] => []
  | .raw s :: r => .raw s :: substTok m w r
  | .tok n :: r => (if n = m then .raw w else .tok n) :: substTok m w r

theorem replaceAll_items (m w : Str) (hm : m ≠ []) (items : List Item) (h : cleanFor m items) :
    replaceAll m w (srcAll items) = srcAll (substTok m w items) := by
  induction items with
  | nil => simp [srcAll, substTok, replaceAll_nil]
  | cons x r ih =>
    simp only [cleanFor] at h
    have ihr := ih h.2
    cases x with
    | raw s =>
      simp only [srcAll_cons, Item.src, substTok]
      rw [replaceAll_skip m w hm s _ ?_, ihr]
      intro o ho
      cases hp : m.isPrefixOf (s.drop o ++ srcAll r) with
      | false => rfl
      | true => have := (h.1 o ho hp).1; cases this
    | tok n =>
      by_cases hn : n = m
      · subst hn
        simp only [srcAll_cons, Item.src, substTok, if_true]
        rw [replaceAll_hit n w hm, ihr]
      · simp only [srcAll_cons, Item.src, substTok, hn, if_false]
        rw [replaceAll_skip m w hm n _ ?_, ihr]
        intro o ho
        cases hp : m.isPrefixOf (n.drop o ++ srcAll r) with
        | false => rfl
        | true =>
          have := (h.1 o ho hp).1
          injection this with e
          exact absurd e hn

end BV
