/-
  Proofs/TieN_Format.lean — the rendering tie `formatVersion_text` (Proofs/TokTie_Format.lean, agent C) needs LESS
  than `Pat.vok` (domain membership of every rendered part): its proof only uses that every rendered part HAS a value
  that is a non-empty text without upper-case letters (`ValOk`, Proofs/TokTie_Pvs.lean).  `TieN.valok` is that weaker
  condition, as a property of the PART TEXTS only:

      valok_of_vok         : Pat.vok v p → valok v p
      valok_of_agree       : Pat.agree v v' p → valok v p → valok v' p        (a record that agrees on every part text)
      formatVersion_valok  : tokSafe p → valok v p → tagCoh v → formatVersion v (Pat.text p) = .ok (Pat.render v p)

  The second lemma is what closes the open end of `C02_roundtrip_code`: the record READ BACK from the rendered text
  agrees with the rendered record on every part text, so `format_version` renders it — whether or not its fields lie
  in the part domains (they need not: `vok_readback_needs_condition`, Props/C02Code.lean).
  The proof of `segsGo_valok` is the proof of `segsGo_text` with `val_of_partOk` replaced by the hypothesis.
  No Mathlib.
-/
import BumpverVerif.Proofs.TokTie_Format
namespace BV
namespace TieN

/-- every part that is rendered has a value, a non-empty text without upper-case letters -/
def valok (v : VInfo) : Pat → Prop
  | .done => True
  | .lit _ rest => valok v rest
  | .part n rest => ValOk v n ∧ valok v rest
  | .opt body rest => (Pat.allZero v body = true ∨ valok v body) ∧ valok v rest

theorem valok_of_vok (v : VInfo) : ∀ p : Pat, p.vok v = true → valok v p
  | .done, _ => trivial
  | .lit _ rest, h => valok_of_vok v rest (by simpa [Pat.vok] using h)
  | .part n rest, h => by
    simp only [Pat.vok, Bool.and_eq_true] at h
    exact ⟨val_of_partOk v n h.1, valok_of_vok v rest h.2⟩
  | .opt body rest, h => by
    simp only [Pat.vok, Bool.and_eq_true, Bool.or_eq_true] at h
    exact ⟨h.1.imp id (valok_of_vok v body), valok_of_vok v rest h.2⟩

theorem allZero_of_agree (v v' : VInfo) : ∀ p : Pat, Pat.agree v v' p = true → Pat.allZero v' p = Pat.allZero v p
  | .done, _ => rfl
  | .lit _ rest, h => by
    simp only [Pat.agree] at h
    simp only [Pat.allZero, allZero_of_agree v v' rest h]
  | .part n rest, h => by
    simp only [Pat.agree, Bool.and_eq_true, beq_iff_eq] at h
    simp only [Pat.allZero, partIsZero, h.1, allZero_of_agree v v' rest h.2]
  | .opt body rest, h => by
    simp only [Pat.agree, Bool.and_eq_true] at h
    simp only [Pat.allZero, allZero_of_agree v v' rest h.2]
    cases hz : Pat.allZero v body with
    | true => rw [hz] at h; simp only [if_true] at h; rw [h.1]
    | false =>
      rw [hz] at h
      simp only [Bool.false_eq_true, if_false] at h
      rw [allZero_of_agree v v' body h.1, hz]

/-- `valok` only looks at the part texts: it is inherited by every record that agrees on them -/
theorem valok_of_agree (v v' : VInfo) : ∀ p : Pat, Pat.agree v v' p = true → valok v p → valok v' p
  | .done, _, _ => trivial
  | .lit _ rest, h, hv => valok_of_agree v v' rest (by simpa [Pat.agree] using h) hv
  | .part n rest, h, hv => by
    simp only [Pat.agree, Bool.and_eq_true, beq_iff_eq] at h
    refine ⟨?_, valok_of_agree v v' rest h.2 hv.2⟩
    obtain ⟨w, hw, h1, h2⟩ := hv.1
    exact ⟨w, by rw [h.1, hw], h1, h2⟩
  | .opt body rest, h, hv => by
    simp only [Pat.agree, Bool.and_eq_true] at h
    refine ⟨?_, valok_of_agree v v' rest h.2 hv.2⟩
    cases hz : Pat.allZero v body with
    | true =>
      rw [hz] at h
      simp only [if_true] at h
      exact .inl h.1
    | false =>
      rw [hz] at h
      simp only [Bool.false_eq_true, if_false] at h
      rcases hv.1 with hz' | hb
      · rw [hz] at hz'; cases hz'
      · exact .inr (valok_of_agree v v' body h.1 hb)

theorem hasVals_of_valok (v : VInfo) (p : Pat) (h : valok v p) :
    ∀ n ∈ p.parts, ∃ w, partText v n = some w := by
  induction p with
  | done => intro n hn; cases hn
  | lit c r ih => exact ih h
  | part m r ih =>
    intro n hn
    rcases List.mem_cons.mp hn with e | e
    · subst e
      obtain ⟨w, hw, -⟩ := h.1
      exact ⟨w, hw⟩
    · exact ih h.2 n e
  | opt b r ihb ihr =>
    intro n hn
    rcases List.mem_append.mp hn with e | e
    · rcases h.1 with hz | hv
      · exact hasVals_of_allZero v b hz n e
      · exact ihb hv n e
    · exact ihr h.2 n e

theorem segsGo_valok (v : VInfo) (htc : tagCoh v = true) (A : List Str)
    (hA : ∀ n ∈ A, ∀ n' ∈ A, fieldOf n = fieldOf n' → n = n') (p : Pat) : ∀ (run : List Atom) (k : Str),
    Static run p k → (∀ n, Atom.tok n ∈ run → ValOk v n ∧ n ∈ A) → valok v p → (∀ n ∈ p.parts, n ∈ A) →
    (formatSegs (formatPartValues v) (p.segsGo (runText run))).2 = runRender v run ++ p.render v := by
  have mk2 : ∀ run : List Atom, RunS run → (∀ n, Atom.tok n ∈ run → ValOk v n ∧ n ∈ A) → RunHyp2 v run := by
    intro run hr hv
    exact { names := hr.names, safeT := hr.safeT,
            vals := fun n hn => by obtain ⟨w, hw, -⟩ := (hv n hn).1; exact ⟨w, hw⟩,
            lits := hr.lits, safeU := hr.safeU, valok := fun n hn => (hv n hn).1,
            finj := fun n n' hn hn' hf => hA n (hv n hn).2 n' (hv n' hn').2 hf }
  induction p with
  | done =>
    intro run k hst hv _ _
    have := flush_text v run [] (mk2 run (static_done hst) hv)
    simp only [List.append_nil] at this
    simp only [Pat.segsGo, Pat.render]
    rw [show (if (runText run).isEmpty = true then [] else [Seg.lit (runText run)]) = flushS (runText run) from rfl,
      this]
    rw [formatSegs]
  | lit c r ih =>
    intro run k hst hv hvok hsub
    have := ih (run ++ [.lit c]) k (static_lit hst)
      (fun n hn => by
        rcases List.mem_append.mp hn with e | e
        · exact hv n e
        · simp at e)
      hvok (fun n hn => hsub n (by simpa [Pat.parts] using hn))
    simp only [Pat.segsGo, Pat.render]
    rw [runText_append] at this
    simp only [runText, List.flatMap_cons, List.flatMap_nil, List.append_nil, Atom.text] at this ⊢
    rw [this]
    simp [runRender, Atom.render]
  | part n r ih =>
    intro run k hst hv hvok hsub
    have := ih (run ++ [.tok n]) k (static_part hst)
      (fun n' hn => by
        rcases List.mem_append.mp hn with e | e
        · exact hv n' e
        · have : n' = n := by simpa using e
          rw [this]; exact ⟨hvok.1, hsub n (by simp [Pat.parts])⟩)
      hvok.2 (fun n' hn' => hsub n' (by simp [Pat.parts, hn']))
    simp only [Pat.segsGo, Pat.render]
    rw [runText_append] at this
    simp only [runText, List.flatMap_cons, List.flatMap_nil, List.append_nil, Atom.text] at this ⊢
    rw [this]
    simp [runRender, Atom.render]
  | opt b r ihb ihr =>
    intro run k hst hv hvok hsub
    obtain ⟨hrs, hsb, hsr⟩ := static_opt hst
    have hbvals : ∀ n ∈ b.parts, ∃ w, partText v n = some w := by
      rcases hvok.1 with hz | hv'
      · exact hasVals_of_allZero v b hz
      · exact hasVals_of_valok v b hv'
    have hbflag := segsGo_flag v htc b [] _ hsb (by simp) hbvals
    have hr := ihr [] _ hsr (by simp) hvok.2 (fun n hn => hsub n (by simp [Pat.parts, hn]))
    simp only [runText, List.flatMap_nil, List.all_nil, Bool.true_and, runRender, List.nil_append] at hbflag hr
    simp only [Pat.segsGo, Pat.render]
    have := flush_text v run (Seg.grp (b.segsGo []) :: r.segsGo []) (mk2 run hrs hv)
    rw [show (if (runText run).isEmpty = true then [] else [Seg.lit (runText run)]) = flushS (runText run) from rfl,
      this]
    rw [formatSegs, formatSeg]
    simp only [hbflag, hr]
    congr 2
    cases hz : b.allZero v with
    | true => simp
    | false =>
      have hv' : valok v b := by
        rcases hvok.1 with hz' | hv'
        · rw [hz] at hz'; cases hz'
        · exact hv'
      have hb := ihb [] _ hsb (by simp) hv' (fun n hn => hsub n (by simp [Pat.parts, hn]))
      simp only [runText, List.flatMap_nil, runRender, List.nil_append] at hb
      simp [hb]

/-- THE RENDERING TIE under the weaker condition -/
theorem formatVersion_valok (p : Pat) (v : VInfo) (hs : tokSafe p = true) (hv : valok v p)
    (htc : tagCoh v = true) : formatVersion v p.text = .ok (p.render v) := by
  have c := ctx_of_tokSafe p hs
  have hsk : p.safeK [] = true := by
    simp only [tokSafe, Bool.and_eq_true] at hs
    exact hs.1.1.2
  have hnd := nodup_of_nodupStr _ c.nd
  rw [fields_eq p c.sh] at hnd
  have hA := inj_of_nodup_map fieldOf p.parts hnd
  have := segsGo_valok v htc p.parts hA p [] [] (static_nil p [] c.sh hsk rfl) (by simp) hv (fun n hn => hn)
  simp only [runText, List.flatMap_nil, runRender, List.nil_append] at this
  unfold formatVersion
  rw [parseSegtree_text p c.sh]
  simp only [this]

end TieN
end BV
