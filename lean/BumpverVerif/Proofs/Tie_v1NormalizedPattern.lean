/-
  Proofs/Tie_v1NormalizedPattern.lean — the definition GENERATED from `v1patterns._normalized_pattern(version_pattern,
  raw_pattern)` equals the hand model `BV.v1NormalizedPattern` on all inputs: `{version}` is replaced by the version
  pattern FIRST, then `{pep440_version}` by the derived pattern the `version_pattern == …` chain selects
  (model: a lookup in `Gen.v1Pep440VersionMap`, the table the table generator reads from the same chain), and a
  version pattern without a mapping leaves `{pep440_version}` alone (the `logger.warning` branch).
-/
import BumpverVerif.Gen.F_v1NormalizedPattern
set_option linter.unusedSimpArgs false
namespace BV

/-- `x in (a, b, …)` / `x in [a, b, …]` as the chain of equalities -/
theorem v1_elem_cons_eq_true (a b : Str) (l : List Str) :
    (List.elem a (b :: l) = true) = (a = b ∨ List.elem a l = true) := by
  simp [List.elem_cons, Bool.or_eq_true, beq_iff_eq]

theorem v1_elem_nil_eq_true (a : Str) : (List.elem a [] = true) = False := by simp

theorem tie_v1NormalizedPattern (versionPattern raw : Str) :
    GenV1.v1NormalizedPattern versionPattern raw = v1NormalizedPattern versionPattern raw := by
  unfold GenV1.v1NormalizedPattern v1NormalizedPattern
  simp only [Gen.v1Pep440VersionMap, lookup, beq_iff_eq, Bool.or_eq_true, Bool.and_eq_true, v1_elem_cons_eq_true,
    v1_elem_nil_eq_true, or_false]
  by_cases h1 : versionPattern = "{pycalver}".toList
  · simp only [eq_true h1, if_true, true_or, or_true]
  simp only [eq_false h1, if_false, false_or, or_false]
  by_cases h2 : versionPattern = "{semver}".toList
  · simp only [eq_true h2, if_true, true_or, or_true]
  simp only [eq_false h2, if_false, false_or, or_false]
  by_cases h3 : versionPattern = "v{year}{month}{build}{release}".toList
  · simp only [eq_true h3, if_true, true_or, or_true]
  simp only [eq_false h3, if_false, false_or, or_false]
  by_cases h4 : versionPattern = "{year}{month}{build}{release}".toList
  · simp only [eq_true h4, if_true, true_or, or_true]
  simp only [eq_false h4, if_false, false_or, or_false]
  by_cases h5 : versionPattern = "v{year}{build}{release}".toList
  · simp only [eq_true h5, if_true, true_or, or_true]
  simp only [eq_false h5, if_false, false_or, or_false]
  by_cases h6 : versionPattern = "{year}{build}{release}".toList
  · simp only [eq_true h6, if_true, true_or, or_true]
  simp only [eq_false h6, if_false, false_or, or_false]

end BV
