/-
  Proofs/Tie_v1ReplacePatternParts.lean — the definition GENERATED from `v1patterns._replace_pattern_parts(pattern)`
  equals the hand model `BV.v1ReplacePatternParts` for EVERY table `PART_PATTERNS` (a parameter on both sides: the
  table is mutated at import time by `_init_composite_patterns`, which calls this very function) and every pattern:
  one `str.replace` per table entry, in table order, of the escaped placeholder `\{name\}` by `(?P<name>regex)`.
  `str.replace` is rendered with its behaviour on an EMPTY pattern too (`pyReplace`); the placeholder is never empty.
-/
import BumpverVerif.Gen.F_v1ReplacePatternParts
namespace BV
open GenV1

theorem tie_v1ReplacePatternParts (parts : List (Str × Str)) (pattern : Str) :
    GenV1.v1ReplacePatternParts pattern parts = v1ReplacePatternParts parts pattern := by
  unfold GenV1.v1ReplacePatternParts v1ReplacePatternParts
  dsimp only
  refine congrArg (fun f => List.foldl f pattern parts) ?_
  funext st it
  simp [pyReplace, v1Placeholder, v1NamedPart]

end BV
