/-
  Proofs/Tie_getTags.lean — `vcs.get_tags(fetch, scope)`, `vcs.get_vcs_api()` and the `VCSAPI` members
  they use (`is_usable`, `fetch`, `ls_tags`, `ls_tags_branch`), all GENERATED from the Python AST, against
  the hand model `BV.getTags` / `BV.isUsable` (Model/Plan.lean).

    tie_apiIsUsable   the probe: no directory → False without any invocation; otherwise one invocation
                      whose failure means "not usable" (never an exception)
    tie_getVcsApi     the first usable VCS of VCS_SUBCOMMANDS_BY_NAME (in dictionary order), else OSError
    tie_getTags       (state, ok/failed) of the generated `get_tags` = getTags e fetch (scope == BRANCH) s,
                      for every failure position; `except OSError` gives the "no VCS" outcome: `[]`, ok
    getTags_value     the list it returns

  Abstraction made explicit: `Eff.dotDirExists` says that the model environment has at most ONE VCS
  directory, the one of `kind` (`PlanEnv.vcsPresent`).
-/
import BumpverVerif.Gen.F_getTags
import BumpverVerif.Proofs.Tie_apiGetRemote
set_option linter.unusedSimpArgs false
namespace BV
open GenE

/-- `VCSAPI(name).is_usable` for ANY name -/
theorem apiIsUsable_spec (e : EffEnv) (s : PState) (api : VcsApi) :
    apiIsUsable api e s =
      if (e.plan.vcsPresent && api.name == e.plan.kind.name) = true then
        (match vcsCall e.plan (.cmd "is_usable") s with
         | (s', .ok) => (s', .ok true)
         | (s', .failed) => (s', .ok false))
      else (s, .ok false) := by
  unfold apiIsUsable; eff_simp; eff_auto

theorem tie_apiIsUsable (e : EffEnv) (s : PState) (api : VcsApi) (hk : api.name = e.plan.kind.name) :
    apiIsUsable api e s = ((isUsable e.plan s).1, .ok (isUsable e.plan s).2) := by
  rw [apiIsUsable_spec, hk]
  unfold isUsable
  eff_simp; eff_auto

/-- the VCS object `get_vcs_api` returns in the model environment -/
def kindApi (e : EffEnv) : VcsApi := ⟨e.plan.kind.name⟩

theorem tie_getVcsApi (e : EffEnv) (s : PState) :
    getVcsApi e s =
      (match isUsable e.plan s with
       | (s', true) => (s', .ok (kindApi e))
       | (s', false) => (s', .error .osError)) := by
  have hU := fun api s => apiIsUsable_spec e s api
  unfold getVcsApi vcsNames isUsable kindApi
  cases hkind : e.plan.kind <;>
    eff_simp [Eff.forIn, getVcsApi.body_1, VcsKind.name] <;> eff_auto [Eff.forIn, getVcsApi.body_1, VcsKind.name]

theorem tie_apiFetch (e : EffEnv) (s : PState) (api : VcsApi) (hc : RemoteCoherent e)
    (hk : api.name = e.plan.kind.name) :
    apiFetch api e s = Eff.liftC () (remotePiece e.plan "fetch" s) := by
  obtain ⟨r, hr, ht⟩ := getRemote_result e s api hc hk
  rcases hg : getRemote e.plan s with ⟨s5, b⟩
  simp only [hg] at hr ht
  subst ht
  unfold apiFetch remotePiece
  eff_simp; eff_auto

/-- `[line.strip().split(" ", 1)[0] for line in output.splitlines()]` -/
def tagsOf (out : Str) : List Str := (pySplitlines out).map (fun l => pyBeforeFirstBlank (strip l))

theorem tie_apiLsTags (e : EffEnv) (s : PState) (api : VcsApi) :
    apiLsTags api e s = Eff.liftC (tagsOf (e.output "ls_tags")) (vcsCall e.plan (.cmd "ls_tags") s) := by
  unfold apiLsTags tagsOf; eff_simp; eff_auto

theorem tie_apiLsTagsBranch (e : EffEnv) (s : PState) (api : VcsApi) :
    apiLsTagsBranch api e s
      = Eff.liftC (tagsOf (e.output "ls_tags_branch")) (vcsCall e.plan (.cmd "ls_tags_branch") s) := by
  unfold apiLsTagsBranch tagsOf; eff_simp; eff_auto

theorem tie_getTags (e : EffEnv) (s : PState) (fetch : Bool) (scope : TagScope) (hc : RemoteCoherent e) :
    Eff.view (GenE.getTags fetch scope e s) = BV.getTags e.plan fetch (scope == .BRANCH) s := by
  have hV := fun s => tie_getVcsApi e s
  have hF := fun s => tie_apiFetch e s (kindApi e) hc rfl
  have hL := fun s => tie_apiLsTags e s (kindApi e)
  have hB := fun s => tie_apiLsTagsBranch e s (kindApi e)
  unfold GenE.getTags BV.getTags
  eff_simp [remotePiece]
  eff_auto [remotePiece]

/-- what `get_tags` returns: `[]` without a usable VCS (the `except OSError` branch), otherwise the parsed
    output of `ls_tags_branch` (branch scope) / `ls_tags` -/
theorem getTags_value (e : EffEnv) (s : PState) (fetch : Bool) (scope : TagScope) (hc : RemoteCoherent e) :
    match (GenE.getTags fetch scope e s).2 with
    | .ok tags => tags = if (isUsable e.plan s).2 then
                           tagsOf (e.output (if scope == .BRANCH then "ls_tags_branch" else "ls_tags"))
                         else []
    | .error _ => True := by
  have hV := fun s => tie_getVcsApi e s
  have hF := fun s => tie_apiFetch e s (kindApi e) hc rfl
  have hL := fun s => tie_apiLsTags e s (kindApi e)
  have hB := fun s => tie_apiLsTagsBranch e s (kindApi e)
  unfold GenE.getTags
  eff_simp [remotePiece]
  eff_auto [remotePiece]

/-- an OSError is the ONLY thing `get_tags` swallows: a failing fetch / tag listing propagates as
    CalledProcessError (the hand model's `.failed`) -/
theorem getTags_stop_kinds (e : EffEnv) (s : PState) (fetch : Bool) (scope : TagScope) (hc : RemoteCoherent e) :
    match (GenE.getTags fetch scope e s).2 with
    | .error x => x = .called
    | .ok _ => True := by
  have hV := fun s => tie_getVcsApi e s
  have hF := fun s => tie_apiFetch e s (kindApi e) hc rfl
  have hL := fun s => tie_apiLsTags e s (kindApi e)
  have hB := fun s => tie_apiLsTagsBranch e s (kindApi e)
  unfold GenE.getTags
  eff_simp [remotePiece]
  eff_auto [remotePiece]

end BV
