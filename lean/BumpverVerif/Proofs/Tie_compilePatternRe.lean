/-
  Proofs/Tie_compilePatternRe.lean — the definition GENERATED from the Python source of
  `v2patterns._compile_pattern_re` (Gen/F_compilePatternRe.lean: the escape loop over
  `RE_PATTERN_ESCAPES` with the `"[]\\"` exemption, `_replace_pattern_parts`, `re.compile` WITHOUT flags)
  against the hand model `BV.compileRe` = `parseRe ∘ compileStr` (Model/V2Patterns.lean).

  `re.compile(pattern_str)` is translated to the model's `parseRe`, which has no flags: a flags argument
  in the source is UNTRANSLATABLE, so this tie cannot compile then.

  Hypothesis `hesc` (decidable, true of the generated table): Python tests `char in "[]\\"` (SUBSTRING),
  the model tests "every character of `char` is one of `[`, `]`, backslash".  They differ for a table key
  such as "][" or "[[" (all characters semantic, not a substring of `[]\`): Python would `replace` it, the
  model skips it.  `RE_PATTERN_ESCAPES` only has one-character keys.
-/
import BumpverVerif.Gen.F_compilePatternRe
import BumpverVerif.Proofs.Tie_replacePatternParts
namespace BV
open PyP

theorem foldl_congr_mem {α β : Type} (f g : β → α → β) (xs : List α)
    (h : ∀ x ∈ xs, ∀ a, f a x = g a x) (a : β) : xs.foldl f a = xs.foldl g a := by
  induction xs generalizing a with
  | nil => rfl
  | cons x xs ih =>
    simp only [List.foldl_cons, h x List.mem_cons_self a]
    exact ih (fun y hy => h y (List.mem_cons_of_mem _ hy)) _

theorem isInfix_nil (s : Str) : isInfix [] s = true := by
  cases s <;> simp [isInfix, findIdx]

/-- a substring of `[]\` consists of semantic characters only -/
theorem all_semantic_of_isInfix (name : Str) (h : isInfix name "[]\\".toList = true) :
    name.all (fun c => "[]\\".toList.contains c) = true := by
  simp only [isInfix, Option.isSome_iff_exists] at h
  obtain ⟨i, hi⟩ := h
  have := findIdx_some_subset hi
  simp only [List.all_eq_true]
  intro c hc
  simpa using this c hc

/-- the step of the escape loop: Python's substring test against the model's character test -/
theorem escape_step (ce : Str × Str) (acc : Str)
    (hesc : ce.1.all (fun c => "[]\\".toList.contains c) = true → isInfix ce.1 "[]\\".toList = true) :
    (if isInfix ce.1 "[]\\".toList then acc else PyP.replace ce.1 ce.2 acc) =
    (if ce.1.all (fun c => "[]\\".toList.contains c) && !ce.1.isEmpty then acc else replaceAll ce.1 ce.2 acc) := by
  by_cases hn : ce.1 = []
  · simp [hn, isInfix_nil, replaceAll_nil]
  · have hne : ce.1.isEmpty = false := by cases h : ce.1 with
      | nil => exact absurd h hn
      | cons _ _ => rfl
    by_cases hall : ce.1.all (fun c => "[]\\".toList.contains c) = true
    · simp only [hesc hall, if_true, hall, hne, Bool.not_false, Bool.and_self]
    · have hni : ¬ isInfix ce.1 "[]\\".toList = true := fun h => hall (all_semantic_of_isInfix _ h)
      simp only [hni, hall, Bool.false_and, Bool.false_eq_true, if_false, replace_of_ne _ _ _ hn]

theorem tie_compilePatternRe (escapes partPatterns partFields : List (Str × Str)) (fuel : Nat) (normalized : Str)
    (hesc : ∀ ce ∈ escapes, ce.1.all (fun c => "[]\\".toList.contains c) = true → isInfix ce.1 "[]\\".toList = true)
    (hkeys : ∀ pp ∈ partPatterns, (lookup pp.1 partFields).isSome = true)
    (hne : ∀ pp ∈ partPatterns, pp.1 ≠ [])
    (hfuel : replaceFuel (escapePattern escapes normalized) ≤ fuel) :
    GenF.compilePatternRe escapes partPatterns partFields fuel normalized =
      parseRe (compileStrWith escapes partPatterns partFields normalized) := by
  have hescape : ∀ G : Str → Str × Str → Str,
      (∀ ce ∈ escapes, ∀ acc, G acc ce =
        if isInfix ce.1 "[]\\".toList then acc else PyP.replace ce.1 ce.2 acc) →
      escapes.foldl G normalized = escapePattern escapes normalized := by
    intro G hG
    unfold escapePattern
    exact foldl_congr_mem _ _ _ (fun ce hce acc => by rw [hG ce hce acc, escape_step ce acc (hesc ce hce)]) _
  simp only [GenF.compilePatternRe]
  rw [hescape _ (fun ce _ acc => by first | rfl | (split <;> rfl) | (split <;> simp_all))]
  simp only [tie_replacePatternParts partPatterns partFields fuel _ hkeys hne hfuel, compileStrWith]
  cases parseRe (replacePatternParts partPatterns partFields (escapePattern escapes normalized)) <;> rfl

/-! ### over the generated tables -/

theorem genEscapes_ok : ∀ ce ∈ Gen.rePatternEscapes,
    ce.1.all (fun c => "[]\\".toList.contains c) = true → isInfix ce.1 "[]\\".toList = true := by
  decide

/-- fuel that suffices for `_compile_pattern_re(normalized)` -/
def compileFuel (normalized : Str) : Nat := replaceFuel (escapePattern Gen.rePatternEscapes normalized)

/-- `_compile_pattern_re` (generated from the source, over the generated tables) IS the model's
    `compileRe`: for every sufficiently large fuel the Python loops terminate and `re.compile` is handed
    exactly the regex source the model parses -/
theorem tie_compilePatternRe_gen (fuel : Nat) (normalized : Str) (hfuel : compileFuel normalized ≤ fuel) :
    GenF.compilePatternRe Gen.rePatternEscapes Gen.partPatterns Gen.partFields fuel normalized =
      compileRe normalized :=
  tie_compilePatternRe _ _ _ fuel normalized genEscapes_ok genPartPatterns_keys genPartPatterns_ne hfuel

/-- a closed bound: three times the length of the ESCAPED pattern, plus one -/
theorem compileFuel_le (normalized : Str) :
    compileFuel normalized ≤ 3 * (escapePattern Gen.rePatternEscapes normalized).length + 1 :=
  replaceFuel_le _

/-- fuel-free reading: the Python function terminates and returns what the model says -/
theorem tie_compilePatternRe_terminates (normalized : Str) :
    ∃ N, ∀ fuel, N ≤ fuel →
      GenF.compilePatternRe Gen.rePatternEscapes Gen.partPatterns Gen.partFields fuel normalized =
        compileRe normalized :=
  ⟨compileFuel normalized, fun fuel h => tie_compilePatternRe_gen fuel normalized h⟩

/-- `hesc` is needed: for the table key `][` Python replaces, the model skips -/
example : (if isInfix "][".toList "[]\\".toList then "a][b".toList else PyP.replace "][".toList "X".toList "a][b".toList)
    = "aXb".toList := by decide
example : escapePattern [("][".toList, "X".toList)] "a][b".toList = "a][b".toList := by decide

end BV
