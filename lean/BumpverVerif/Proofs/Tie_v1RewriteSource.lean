/-
  Proofs/Tie_v1RewriteSource.lean — how the ties of the LEGACY rewrite path are USED: the property theorems of
  Props/V1Rewrite.lean (C03, C04, C06, C13 for v1rewrite.py, proved about the hand model) transported along the
  ties to the definitions GENERATED from the Python source.  Nothing new is proved about the model here; every
  statement is about `GenF.v1RewriteLines` / `GenF.v1RfdFromContent` / `GenF.v1RewriteFiles` / `GenF.v1Diff`.
-/
import BumpverVerif.Props.V1Rewrite
import BumpverVerif.Proofs.Tie_v1RewriteFiles
import BumpverVerif.Proofs.Tie_v1Diff
namespace BV

open GenF (PatternMatch Pattern RewrittenFileData)

/-- `parse.iter_matches` on patterns of the legacy compiler is the model's `v1IterMatches` -/
theorem tie_v1IterMatches (lines : List Str) (patterns : List Pattern) (hwf : ∀ p ∈ patterns, TieM.Wf1 p) :
    v1IterMatches lines (patterns.map Pattern.abs) = some ((GenF.iterMatches lines patterns).map PatternMatch.abs) :=
  TieM.iterMatches_tie v1Engine lines patterns (fun p hp => TieM.wf1_compile (hwf p hp))

/-- C03 on the generated legacy code: after a successful `rewrite_lines` every match `iter_matches` yields
    shows `v1version.format_version(new_vinfo, raw_pattern)` of its own pattern at its shifted position -/
theorem src_V1_C03_every_occurrence (patterns : List Pattern) (v : V1Info) (old new : List Str)
    (hwf : ∀ p ∈ patterns, TieM.Wf1 p) (h : GenF.v1RewriteLines patterns v old = .ok new)
    (m : PatternMatch) (hm : m ∈ GenF.iterMatches old patterns) :
    v1FormatVersion v m.pattern.raw_pattern = .ok (v1ReplOf v m.abs) ∧
    ∃ newLine, new[m.lineno]? = some newLine ∧
      (newLine.drop (v1ShiftedStart v ((GenF.iterMatches old patterns).map PatternMatch.abs) m.abs).toNat).take
        (v1ReplOf v m.abs).length = v1ReplOf v m.abs := by
  rw [tie_v1RewriteLines _ _ _ hwf] at h
  exact V1_C03_every_occurrence _ v old new _ (tie_v1IterMatches old patterns hwf) h m.abs (List.mem_map_of_mem hm)

/-- C03: success means every configured pattern (the very object, regex included) has a match -/
theorem src_V1_C03_all_patterns_found (patterns : List Pattern) (v : V1Info) (old new : List Str)
    (hwf : ∀ p ∈ patterns, TieM.Wf1 p) (h : GenF.v1RewriteLines patterns v old = .ok new) :
    ∀ p ∈ patterns, ∃ m ∈ GenF.iterMatches old patterns, m.pattern = p := by
  intro p hp
  rw [tie_v1RewriteLines _ _ _ hwf] at h
  obtain ⟨m', hm', e⟩ := V1_C03_all_patterns_found _ v old new _ (tie_v1IterMatches old patterns hwf) h p.abs
    (List.mem_map_of_mem hp)
  obtain ⟨m, hm, rfl⟩ := List.mem_map.1 hm'
  exact ⟨m, hm, TieM.abs_inj1 (hwf _ (iterMatches_pattern_mem old patterns m hm)) (hwf p hp) e⟩

/-- C04 on the generated legacy code: the number of lines never changes … -/
theorem src_V1_C04_line_count (patterns : List Pattern) (v : V1Info) (old new : List Str)
    (hwf : ∀ p ∈ patterns, TieM.Wf1 p) (h : GenF.v1RewriteLines patterns v old = .ok new) :
    new.length = old.length := by
  rw [tie_v1RewriteLines _ _ _ hwf] at h
  exact V1_C04_line_count _ v old new h

/-- … lines without a match are untouched … -/
theorem src_V1_C04_unmatched_lines (patterns : List Pattern) (v : V1Info) (old new : List Str)
    (hwf : ∀ p ∈ patterns, TieM.Wf1 p) (h : GenF.v1RewriteLines patterns v old = .ok new)
    (i : Nat) (hi : ∀ m ∈ GenF.iterMatches old patterns, m.lineno ≠ i) : new[i]? = old[i]? := by
  rw [tie_v1RewriteLines _ _ _ hwf] at h
  refine V1_C04_unmatched_lines _ v old new _ (tie_v1IterMatches old patterns hwf) h i ?_
  intro m' hm'
  obtain ⟨m, hm, rfl⟩ := List.mem_map.1 hm'
  exact hi m hm

/-- … on a line with exactly one match only the span changes … -/
theorem src_V1_C04_single_span (patterns : List Pattern) (v : V1Info) (old new : List Str)
    (hwf : ∀ p ∈ patterns, TieM.Wf1 p) (h : GenF.v1RewriteLines patterns v old = .ok new)
    (m : PatternMatch) (hm : m ∈ GenF.iterMatches old patterns)
    (honly : ∀ m' ∈ GenF.iterMatches old patterns, m'.lineno = m.lineno → m'.abs = m.abs)
    (line : Str) (hl : old[m.lineno]? = some line) :
    ∃ repl, v1FormatVersion v m.pattern.raw_pattern = .ok repl ∧
      new[m.lineno]? = some (line.take m.span.1 ++ repl ++ line.drop m.span.2) := by
  rw [tie_v1RewriteLines _ _ _ hwf] at h
  refine V1_C04_single_span _ v old new _ (tie_v1IterMatches old patterns hwf) h m.abs (List.mem_map_of_mem hm) ?_ line hl
  intro m' hm' hline
  obtain ⟨m0, hm0, rfl⟩ := List.mem_map.1 hm'
  exact honly m0 hm0 hline

/-- … and the record of `rfd_from_content` carries the detected separator and the split content, so that
    joining the OLD lines gives back the file's text exactly -/
theorem src_V1_C04_old_content (patterns : List Pattern) (v : V1Info) (content path : Str) (rfd : RewrittenFileData)
    (hwf : ∀ p ∈ patterns, TieM.Wf1 p) (h : GenF.v1RfdFromContent patterns v content path = .ok rfd) :
    rfd.path = path ∧ rfd.line_sep = detectLineSep content ∧ join rfd.line_sep rfd.old_lines = content ∧
      rfd.new_lines.length = rfd.old_lines.length := by
  rw [tie_v1RfdFromContent _ _ _ _ hwf] at h
  cases hr : v1RewriteLines (patterns.map Pattern.abs) v (splitOn (detectLineSep content) content) with
  | error e => rw [hr] at h; cases h
  | ok nl =>
    rw [hr] at h
    simp only [Except.map, Except.ok.injEq] at h
    subst h
    exact ⟨rfl, rfl, C04_join_split _ _ (C04_sep_detect content).2, V1_C04_line_count _ v _ _ hr⟩

/-- C04: files that are not configured are not touched by `rewrite_files` -/
theorem src_V1_C04_other_files (file_patterns : List (Str × List Pattern)) (v : V1Info) (fs : FS) (p : Str)
    (hwf : TieM.WfFilePatterns1 file_patterns) (hp : ∀ it ∈ file_patterns, it.1 ≠ p) :
    lookup p (GenF.v1RewriteFiles file_patterns v fs).1 = lookup p fs := by
  rw [tie_v1RewriteFiles _ _ _ hwf]
  refine V1_C04_other_files fs _ v p ?_
  intro fp hfp
  obtain ⟨it, hit, rfl⟩ := List.mem_map.1 hfp
  exact hp it hit

/-- C06 on the generated legacy code: ALL OR NOTHING — whatever error `rewrite_files` ends with, the file
    system is exactly what it was -/
theorem src_V1_C06_all_or_nothing (file_patterns : List (Str × List Pattern)) (v : V1Info) (fs : FS) (e : RwErr)
    (hwf : TieM.WfFilePatterns1 file_patterns) (h : (GenF.v1RewriteFiles file_patterns v fs).2 = .error e) :
    (GenF.v1RewriteFiles file_patterns v fs).1 = fs := by
  rw [tie_v1RewriteFiles _ _ _ hwf] at h ⊢
  exact V1_C06_all_or_nothing fs _ v e h

/-- C13 on the generated legacy code: if `diff` (the `--dry` path) succeeds, then `rewrite_files` (the write
    path) on the same file system and configuration succeeds too.  No hypothesis about `format_version`. -/
theorem src_V1_C13_dry_ok_real_ok (old_vinfo new_vinfo : V1Info) (file_patterns : List (Str × List Pattern))
    (diff_lines : RewrittenFileData → List Str) (fs : FS) (text : Str)
    (hdl : ∀ rfd, (diff_lines rfd).length = 0 ↔ rfd.old_lines = rfd.new_lines)
    (hwf : TieM.WfFilePatterns1 file_patterns)
    (h : GenF.v1Diff old_vinfo new_vinfo file_patterns diff_lines fs = (fs, .ok text)) :
    (GenF.v1RewriteFiles file_patterns new_vinfo fs).2 = .ok () := by
  have ho := tie_v1Diff_outcome old_vinfo new_vinfo file_patterns diff_lines fs hdl hwf
  rw [h] at ho
  rw [tie_v1RewriteFiles _ _ _ hwf]
  cases hm : v1DiffAll fs old_vinfo new_vinfo (GenF.absFilePatterns file_patterns) with
  | error e => rw [hm] at ho; simp [Except.map] at ho
  | ok rs => exact V1_C13_dry_ok_real_ok_sorted fs old_vinfo new_vinfo _ rs hm

/-- C13: `diff` never touches the file system (no hypothesis at all) -/
theorem src_V1_C13_diff_pure (old_vinfo new_vinfo : V1Info) (file_patterns : List (Str × List Pattern))
    (diff_lines : RewrittenFileData → List Str) (fs : FS) :
    (GenF.v1Diff old_vinfo new_vinfo file_patterns diff_lines fs).1 = fs :=
  tie_v1Diff_pure old_vinfo new_vinfo file_patterns diff_lines fs

end BV
