/-
  Proofs/TieD_Source.lean — the property theorems of C01 / C09 / C16 / C19 restated for the
  definitions GENERATED from the Python source (harness/translate_cli.py), by composing the ties
  (Proofs/Tie_<name>.lean) with the theorems of Props/.  Nothing here is a new property; each theorem
  shows how a tie carries a model-level theorem to the translated function.
-/
import BumpverVerif.Proofs.Tie_isValidVersion
import BumpverVerif.Proofs.Tie_updateCfgFromVcs
import BumpverVerif.Proofs.Tie_cmpkey
import BumpverVerif.Proofs.Tie_pickConfigFilepath
import BumpverVerif.Props.C01
import BumpverVerif.Props.C09
import BumpverVerif.Props.C19
namespace BV

/-- C01 at source level: when the translated `_is_valid_version` answers True for a new-style pattern,
    the new version matches the pattern in full and is strictly greater than the old one. -/
theorem C01_source_gate_sound (today : Date) (vcs_get_tags : Bool → GenC.TagScope → List Str)
    (pat old new : Str) (unique : Bool) (hp : isNewPattern pat = true)
    (h : GenC.isValidVersion today vcs_get_tags pat old new unique = .ok true) :
    FullMatch pat new ∧ pepLt old new = true :=
  C01_gate_sound pat old new unique (vcs_get_tags false .GLOBAL) today
    ((isValidVersion_true_iff_accept today vcs_get_tags pat old new unique hp).mp h)

/-- C01: a candidate that is not strictly greater never passes the translated gate. -/
theorem C01_source_not_greater_rejected (today : Date) (vcs_get_tags : Bool → GenC.TagScope → List Str)
    (pat old new : Str) (unique : Bool) (hp : isNewPattern pat = true) (hle : pepLe new old = true) :
    GenC.isValidVersion today vcs_get_tags pat old new unique ≠ .ok true := fun h =>
  C01_not_greater_rejected pat old new unique (vcs_get_tags false .GLOBAL) today hle
    ((isValidVersion_true_iff_accept today vcs_get_tags pat old new unique hp).mp h)

/-- C09 (clause "never equals an existing tag"): with `unique`, an accepted version is not among the
    valid tags of ALL branches — the listing the translated function asks for is
    `get_tags(fetch=False, scope=GLOBAL)`. -/
theorem C09_source_new_not_a_tag (today : Date) (vcs_get_tags : Bool → GenC.TagScope → List Str)
    (pat old new : Str) (vts : List Str) (hp : isNewPattern pat = true)
    (hv : parseVersionTags pat today (vcs_get_tags false .GLOBAL) = .ok vts)
    (h : GenC.isValidVersion today vcs_get_tags pat old new true = .ok true) : new ∉ vts := by
  have hacc := (isValidVersion_true_iff_accept today vcs_get_tags pat old new true hp).mp h
  obtain ⟨-, -, hu⟩ := gate_accept hacc
  have := hu rfl
  rw [hv] at this
  simpa using this

/-- C09 at source level, scope `default`: the version the translated `_update_cfg_from_vcs` starts from is
    the config value (no valid tag is greater) or the greatest valid tag of the listing. -/
theorem C09_source_start_default {α : Type} (today : Date) (vcs_get_tags : Bool → GenC.TagScope → List Str)
    (cfg c' : GenC.Config α) (fetch : Bool) (vts : List Str)
    (hn : cfg.is_new_pattern = true) (hs : cfg.tag_scope = .DEFAULT)
    (hv : parseVersionTags cfg.version_pattern today (vcs_get_tags fetch .DEFAULT) = .ok vts)
    (h : GenC.updateCfgFromVcs today vcs_get_tags cfg fetch = .ok c') :
    (c'.current_version = cfg.current_version ∧ ∀ u ∈ vts, pepLe u cfg.current_version = true) ∨
    (c'.current_version ∈ vts ∧ pepLt cfg.current_version c'.current_version = true ∧
      ∀ u ∈ vts, pepLe u c'.current_version = true) := by
  have ht := tie_updateCfgFromVcs_new today vcs_get_tags cfg fetch hn
  rw [h, hs] at ht
  simp only [Except.map, absScope] at ht
  apply C09_start_default cfg.version_pattern cfg.current_version today _ vts c'.current_version hv
  cases hst : startVersion .default cfg.version_pattern cfg.current_version today (vcs_get_tags fetch .DEFAULT) with
  | error e => rw [hst] at ht; simp [liftV2] at ht
  | ok s => rw [hst] at ht; simp only [liftV2] at ht; injection ht with ht; rw [ht]

/-- C09 at source level, scopes `global` / `branch`: the greatest valid tag of that scope's listing. -/
theorem C09_source_start_global_branch {α : Type} (today : Date) (vcs_get_tags : Bool → GenC.TagScope → List Str)
    (cfg c' : GenC.Config α) (fetch : Bool) (vts : List Str)
    (hn : cfg.is_new_pattern = true) (hs : cfg.tag_scope ≠ .DEFAULT)
    (hv : parseVersionTags cfg.version_pattern today (vcs_get_tags fetch cfg.tag_scope) = .ok vts) (hne : vts ≠ [])
    (h : GenC.updateCfgFromVcs today vcs_get_tags cfg fetch = .ok c') :
    c'.current_version ∈ vts ∧ ∀ u ∈ vts, pepLe u c'.current_version = true := by
  have ht := tie_updateCfgFromVcs_new today vcs_get_tags cfg fetch hn
  rw [h] at ht
  simp only [Except.map] at ht
  have hsc : absScope cfg.tag_scope ≠ .default := by
    cases hc : cfg.tag_scope <;> simp_all [absScope]
  apply C09_start_global_branch (absScope cfg.tag_scope) hsc cfg.version_pattern cfg.current_version today _ vts
    c'.current_version hv hne
  cases hst : startVersion (absScope cfg.tag_scope) cfg.version_pattern cfg.current_version today
      (vcs_get_tags fetch cfg.tag_scope) with
  | error e => rw [hst] at ht; simp [liftV2] at ht
  | ok s => rw [hst] at ht; simp only [liftV2] at ht; injection ht with ht; rw [ht]

/-- C16 at source level: Python's `<=` on two PEP 440 version objects, i.e. the comparison of the two tuples the
    translated `_cmpkey` returns, is the model's `verLe`. -/
theorem C16_source_le (v w : PepVersion) (pl dl : Str) :
    (cmpRawKey
        (GenC.cmpkey v.epoch v.release v.pre (v.post.map (fun n => (pl, n))) (v.dev.map (fun n => (dl, n))) v.loc)
        (GenC.cmpkey w.epoch w.release w.pre (w.post.map (fun n => (pl, n))) (w.dev.map (fun n => (dl, n))) w.loc)
      != .gt) = verLe (.pep v) (.pep w) := by
  rw [cmpkey_order]; rfl

/-- C19 at source level: if some candidate file of the project directory holds a bumpver section, the path the
    translated `_pick_config_filepath` returns is a candidate that holds one. -/
theorem C19_source_prefers_section {Path : Type} (join : Path → Str → Path) (ex : Path → Bool) (read : Path → Str)
    (path : Path) (h : ∃ f ∈ Gen.configCandidates, worldAt join ex read path f = .hasSection) :
    ∃ f, GenC.pickConfigFilepath join ex read path = join path f ∧ worldAt join ex read path f = .hasSection :=
  ⟨pickConfigFile (worldAt join ex read path), tie_pickConfigFilepath join ex read path,
    C19_prefers_section _ h⟩

end BV
