/-
  Proofs/TieQ_Groups.lean — the model-side matcher `groupsOf` (Model/PepGroups.lean: the recogniser of
  Model/Pep440.lean, reporting the TEXTS of the named groups) against the model's own parser `parsePep`:

      GOAL (NOT YET PROVED IN FULL):  TieQ.SearchOk groupsOf   -- ∀ s, (groupsOf s).map ofGroups = parsePep s

  i.e. the reference `ofGroups` (to which the generated `Version.__init__` is tied for ALL group values,
  Proofs/Tie_pepVersionInit.lean) composed with the model's group extraction is the model's `parsePep`.
  PROVED here, segment by segment:
    * `splitOn_join_dot`   : `".".join(pieces).split(".") = pieces` for dot-free pieces (the release group);
    * `letterGroups_spec`  : what `letterGroups` reports (letter word, digits) is, through the reference
                             `letterVersion`, exactly what the model's `letterSeg` reads (pre / post-letter / dev groups);
    * `firstPrefixW_spec`, `tables_norm` (the normal form of every word of the model's tables is `normLetter` of it).
  (LATER: the assembly is proved in Proofs/TieQ_SearchOk.lean — `TieQ.searchOk_groupsOf`; the text below describes the state of this file alone.)
  REMAINING: the assembly of these lemmas over `groupsCore` / `parseCore` (epoch head, `-N` post form, local group —
  the local group's lemma is `tie_pepParseLocalVersion_model`).  Until then `SearchOk` is a hypothesis of the
  model-level ties; the `example`s at the end evaluate both sides on sample strings.
-/
import BumpverVerif.Proofs.Tie_pepParse
set_option linter.unusedSimpArgs false
namespace BV
namespace TieQ

/-! ### `split(".")` of a dotted join of dot-free pieces -/

theorem splitOnF_dot_cons (f : Nat) (cur : Str) (c : Char) (cs : Str) :
    splitOnF (f + 1) ['.'] cur (c :: cs)
      = if c = '.' then cur.reverse :: splitOnF f ['.'] [] cs else splitOnF f ['.'] (c :: cur) cs := by
  rw [splitOnF]
  by_cases h : c = '.'
  · subst h
    simp [List.isPrefixOf]
  · have h2 : ('.' == c) = false := by simpa using fun e => h e.symm
    simp [List.isPrefixOf, h, h2]

theorem splitOnF_nil (f : Nat) (cur : Str) : splitOnF f ['.'] cur [] = [cur.reverse] := by
  cases f <;> simp [splitOnF]

theorem splitOnF_dot_piece (p : Str) (hp : ∀ c ∈ p, c ≠ '.') : ∀ (f : Nat) (cur rest : Str),
    splitOnF (f + p.length) ['.'] cur (p ++ rest) = splitOnF f ['.'] (p.reverse ++ cur) rest := by
  induction p with
  | nil => intro f cur rest; simp
  | cons c cs ih =>
    intro f cur rest
    have hc : c ≠ '.' := hp c List.mem_cons_self
    have hlen : f + (c :: cs).length = (f + cs.length) + 1 := by simp only [List.length_cons]; omega
    rw [hlen, List.cons_append, splitOnF_dot_cons, if_neg hc, ih (fun d hd => hp d (List.mem_cons_of_mem _ hd))]
    simp [List.reverse_cons, List.append_assoc]

theorem splitOn_join_dot (p : Str) (ps : List Str) (h : ∀ q ∈ p :: ps, ∀ c ∈ q, c ≠ '.') :
    splitOn ['.'] (join ['.'] (p :: ps)) = p :: ps := by
  induction ps generalizing p with
  | nil =>
    have h1 := splitOnF_dot_piece p (h p List.mem_cons_self) 1 [] []
    simp only [List.append_nil] at h1
    simp only [join, splitOn]
    rw [Nat.add_comm, h1, splitOnF_nil, List.reverse_reverse]
  | cons q qs ih =>
    have hj : join ['.'] (p :: q :: qs) = p ++ ('.' :: join ['.'] (q :: qs)) := by simp [join]
    have hlen : (p ++ '.' :: join ['.'] (q :: qs)).length + 1 = ((join ['.'] (q :: qs)).length + 1 + 1) + p.length := by
      simp only [List.length_append, List.length_cons]; omega
    rw [hj, splitOn, hlen, splitOnF_dot_piece p (h p List.mem_cons_self), splitOnF_dot_cons, if_pos rfl]
    simp only [List.append_nil, List.reverse_reverse]
    congr 1
    have := ih q (fun r hr => h r (List.mem_cons_of_mem _ hr))
    rw [splitOn] at this
    exact this

/-! ### letter segments -/

theorem tables_norm : ∀ p ∈ preWords ++ postWords ++ devWords, normLetter p.1 = p.2 ∧ p.1.isEmpty = false := by decide

theorem firstPrefixW_spec (words : List (Str × Str)) (t : Str) :
    (firstPrefixW words t = none ∧ firstPrefix words t = none) ∨
    ∃ w norm r, (w, norm) ∈ words ∧ firstPrefixW words t = some (w, r) ∧ firstPrefix words t = some (norm, r) := by
  induction words with
  | nil => left; exact ⟨rfl, rfl⟩
  | cons p rest ih =>
    obtain ⟨w, nm⟩ := p
    simp only [firstPrefixW, firstPrefix]
    cases hd : dropPrefix? w t with
    | some r => right; exact ⟨w, nm, r, List.mem_cons_self, rfl, rfl⟩
    | none =>
      rcases ih with ⟨h1, h2⟩ | ⟨w', n', r', hm, h1, h2⟩
      · left; exact ⟨h1, h2⟩
      · right; exact ⟨w', n', r', List.mem_cons_of_mem _ hm, h1, h2⟩

theorem letterVersion_optDigits (w : Str) (hw : w.isEmpty = false) (d : Str) :
    letterVersion (some w) (optDigits d) = some (normLetter w, strToNat d) := by
  cases d with
  | nil => simp [letterVersion, optDigits, hw, strToNat]
  | cons c cs => simp [letterVersion, optDigits, hw]

/-- what `letterGroups` reports is what `letterSeg` reads -/
theorem letterGroups_spec (words : List (Str × Str)) (hsub : ∀ p ∈ words, p ∈ preWords ++ postWords ++ devWords)
    (s : Str) :
    (letterGroups words s = none ∧ letterSeg words s = none) ∨
    ∃ w n r x, letterGroups words s = some (w, n, r) ∧ letterSeg words s = some (x, r) ∧
      letterVersion (some w) n = some x := by
  simp only [letterGroups, letterSeg]
  rcases firstPrefixW_spec words (dropOptSep s) with ⟨h1, h2⟩ | ⟨w, nm, r, hm, h1, h2⟩
  · left; rw [h1, h2]; exact ⟨rfl, rfl⟩
  · right
    rw [h1, h2]
    have ht := tables_norm (w, nm) (hsub _ hm)
    refine ⟨w, _, _, _, rfl, rfl, ?_⟩
    rw [letterVersion_optDigits w ht.2, ht.1]

theorem sub_pre : ∀ p ∈ preWords, p ∈ preWords ++ postWords ++ devWords := by
  intro p hp; simp only [List.append_assoc, List.mem_append]; exact Or.inl hp
theorem sub_post : ∀ p ∈ postWords, p ∈ preWords ++ postWords ++ devWords := by
  intro p hp; simp only [List.append_assoc, List.mem_append]; exact Or.inr (Or.inl hp)
theorem sub_dev : ∀ p ∈ devWords, p ∈ preWords ++ postWords ++ devWords := by
  intro p hp; simp only [List.append_assoc, List.mem_append]; exact Or.inr (Or.inr hp)

end TieQ

/-! ### evidence for the remaining assembly step (see the file header): `groupsOf` then `ofGroups` is `parsePep` on samples -/

example : (groupsOf "v1!2.03-RC.4.post5-dev+Ab_1".toList).map ofGroups
    = some { epoch := 1, release := [2, 3], pre := some ("rc".toList, 4), post := some 5, dev := some 0,
             loc := some [.str "ab".toList, .num 1] } := by decide

example : (groupsOf "v1!2.03-RC.4.post5-dev+Ab_1".toList).map ofGroups = parsePep "v1!2.03-RC.4.post5-dev+Ab_1".toList := by decide
example : (groupsOf " 1.0-1 ".toList).map ofGroups = parsePep " 1.0-1 ".toList := by decide
example : (groupsOf "2024.1a".toList).map ofGroups = parsePep "2024.1a".toList := by decide
example : (groupsOf "1.0.dev".toList).map ofGroups = parsePep "1.0.dev".toList := by decide
example : (groupsOf "1.0rev2_alpha".toList).map ofGroups = parsePep "1.0rev2_alpha".toList := by decide
example : (groupsOf "1.0+".toList).map ofGroups = parsePep "1.0+".toList := by decide
example : (groupsOf "v201811.0007-beta".toList).map ofGroups = parsePep "v201811.0007-beta".toList := by decide

end BV
